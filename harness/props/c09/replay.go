package c09

// Replay of one edit history against the real code: a build context that is
// rebuilt after every edit is compared with a fresh api.Build of the same
// tree; the watch predicates recorded by the previous (watch-mode) build are
// evaluated after every edit.

import (
	"crypto/sha1"
	"encoding/hex"
	"fmt"
	"os"
	"path/filepath"
	"sort"
	"strings"

	"github.com/evanw/esbuild/pkg/api"
)

type optSet struct {
	Name string
	Make func(dir string) api.BuildOptions
}

func baseOptions(dir string) api.BuildOptions {
	return api.BuildOptions{
		AbsWorkingDir: dir,
		EntryPoints:   []string{"entry.tsx"},
		Bundle:        true,
		Outdir:        "out",
		Write:         false,
		LogLevel:      api.LogLevelSilent,
		Format:        api.FormatESModule,
	}
}

var optSets = []optSet{
	{"bundle", func(dir string) api.BuildOptions { return baseOptions(dir) }},
	{"minify", func(dir string) api.BuildOptions {
		o := baseOptions(dir)
		o.MinifyIdentifiers, o.MinifySyntax, o.MinifyWhitespace = true, true, true
		return o
	}},
	{"sourcemap", func(dir string) api.BuildOptions {
		o := baseOptions(dir)
		o.Sourcemap = api.SourceMapLinked
		o.Metafile = true
		return o
	}},
	{"splitting", func(dir string) api.BuildOptions {
		o := baseOptions(dir)
		o.Splitting = true
		o.EntryPoints = []string{"entry.tsx", "A.js"}
		return o
	}},
}

// Sig is the observable result of a build: what C09 compares
type Sig struct {
	Files    []SigFile `json:"files"`
	Errors   []string  `json:"errors"`
	Warnings []string  `json:"warnings"`
	Meta     string    `json:"meta,omitempty"`
}

type SigFile struct {
	Path string `json:"path"`
	Hash string `json:"hash"`
	Text string `json:"-"`
}

func msgString(m api.Message) string {
	var sb strings.Builder
	sb.WriteString(m.ID)
	sb.WriteString("|")
	sb.WriteString(m.Text)
	loc := func(l *api.Location) {
		if l == nil {
			sb.WriteString("@-")
			return
		}
		fmt.Fprintf(&sb, "@%s:%d:%d+%d[%s](%s)", l.File, l.Line, l.Column, l.Length, l.LineText, l.Suggestion)
	}
	loc(m.Location)
	for _, n := range m.Notes {
		sb.WriteString(" NOTE:")
		sb.WriteString(n.Text)
		loc(n.Location)
	}
	return sb.String()
}

func sigOf(dir string, res api.BuildResult) Sig {
	s := Sig{Errors: []string{}, Warnings: []string{}, Files: []SigFile{}}
	for _, f := range res.OutputFiles {
		h := sha1.Sum(f.Contents)
		rel, err := filepath.Rel(dir, f.Path)
		if err != nil {
			rel = f.Path
		}
		s.Files = append(s.Files, SigFile{Path: rel, Hash: hex.EncodeToString(h[:8]), Text: string(f.Contents)})
	}
	for _, m := range res.Errors {
		s.Errors = append(s.Errors, msgString(m))
	}
	for _, m := range res.Warnings {
		s.Warnings = append(s.Warnings, msgString(m))
	}
	s.Meta = res.Metafile
	return s
}

func (a Sig) Equal(b Sig) bool { return a.Diff(b) == "" }

// Diff describes the first difference between two results ("" if none)
func (a Sig) Diff(b Sig) string {
	if len(a.Files) != len(b.Files) {
		return fmt.Sprintf("number of output files %d vs %d (%v vs %v)", len(a.Files), len(b.Files), a.paths(), b.paths())
	}
	for i := range a.Files {
		if a.Files[i].Path != b.Files[i].Path {
			return fmt.Sprintf("output path %q vs %q", a.Files[i].Path, b.Files[i].Path)
		}
		if a.Files[i].Hash != b.Files[i].Hash {
			return fmt.Sprintf("bytes of %s differ: %s", a.Files[i].Path, firstDiffLine(a.Files[i].Text, b.Files[i].Text))
		}
	}
	if d := diffList("errors", a.Errors, b.Errors); d != "" {
		return d
	}
	if d := diffList("warnings", a.Warnings, b.Warnings); d != "" {
		return d
	}
	if a.Meta != b.Meta {
		return "metafile differs: " + firstDiffLine(a.Meta, b.Meta)
	}
	return ""
}

func (a Sig) paths() []string {
	var p []string
	for _, f := range a.Files {
		p = append(p, f.Path)
	}
	return p
}

func diffList(what string, a, b []string) string {
	if len(a) != len(b) {
		return fmt.Sprintf("%d vs %d %s: %q vs %q", len(a), len(b), what, a, b)
	}
	for i := range a {
		if a[i] != b[i] {
			return fmt.Sprintf("%s[%d]: %q vs %q", what, i, a[i], b[i])
		}
	}
	return ""
}

func firstDiffLine(a, b string) string {
	la, lb := strings.Split(a, "\n"), strings.Split(b, "\n")
	for i := 0; i < len(la) || i < len(lb); i++ {
		var x, y string
		if i < len(la) {
			x = la[i]
		}
		if i < len(lb) {
			y = lb[i]
		}
		if x != y {
			if len(x) > 160 {
				x = x[:160]
			}
			if len(y) > 160 {
				y = y[:160]
			}
			return fmt.Sprintf("line %d: %q vs %q", i+1, x, y)
		}
	}
	return "(same lines)"
}

// sameUpToOrder: equal except for the order of diagnostics (C08's concern,
// not C09's): used to classify a mismatch
func sameUpToOrder(a, b Sig) bool {
	sa, sb := a, b
	sa.Errors, sb.Errors = sorted(a.Errors), sorted(b.Errors)
	sa.Warnings, sb.Warnings = sorted(a.Warnings), sorted(b.Warnings)
	return sa.Equal(sb)
}

func sorted(x []string) []string {
	y := append([]string{}, x...)
	sort.Strings(y)
	return y
}

// StepObs is what was observed at one step of a history
type StepObs struct {
	Edit        string    `json:"edit"`
	RebuildDiff string    `json:"rebuild_diff,omitempty"` // plain context Rebuild() vs fresh
	WatchDiff   string    `json:"watch_diff,omitempty"`   // watch-mode context build vs fresh
	Changed     bool      `json:"changed"`                // fresh result differs from the fresh result before the edit
	Dirty       []string  `json:"dirty"`                  // paths reported dirty by the previous build's predicates
	Missed      bool      `json:"missed,omitempty"`       // Changed && no dirty path
	Flaky       bool      `json:"flaky,omitempty"`        // fresh builds of the same tree disagree among themselves
	ApplyErr    string    `json:"apply_err,omitempty"`
	FreshErrors int       `json:"fresh_errors"`
	Events      []CacheEv `json:"-"`
}

type replayOut struct {
	Steps   []StepObs
	Initial string // diff of the very first context build vs fresh (must be empty)
	Infra   string
	Fresh   []Sig
}

// replayCase materialises the initial tree in dir, creates the contexts and
// applies the edits one by one
func replayCase(dir string, edits []Edit, os_ optSet, oldMT bool, doWatch bool, trace *traceRec) (out replayOut) {
	pr, err := newProject(dir, oldMT)
	if err != nil {
		out.Infra = "cannot create project: " + err.Error()
		return
	}
	defer os.RemoveAll(dir)
	opts := os_.Make(dir)
	ctxR, cerr := api.Context(opts)
	if cerr != nil {
		out.Infra = fmt.Sprintf("context creation failed: %v", cerr.Errors)
		return
	}
	defer ctxR.Dispose()
	var ctxW api.BuildContext
	if doWatch {
		ctxW, cerr = api.Context(opts)
		if cerr != nil {
			out.Infra = fmt.Sprintf("context creation failed: %v", cerr.Errors)
			return
		}
		defer ctxW.Dispose()
	}
	fresh := func() Sig { return sigOf(dir, api.Build(opts)) }

	trace.begin("ctxR", pr)
	first := sigOf(dir, ctxR.Rebuild())
	trace.end()
	prev := fresh()
	out.Fresh = append(out.Fresh, prev)
	out.Initial = first.Diff(prev)
	var probe func() []string
	if doWatch {
		var res api.BuildResult
		res, probe = api.VerifWatchProbe(ctxW)
		if d := sigOf(dir, res).Diff(prev); d != "" && out.Initial == "" {
			out.Initial = "watch-mode build: " + d
		}
		if dirty := probe(); len(dirty) > 0 {
			out.Infra = fmt.Sprintf("watch predicates dirty without an edit: %v", dirty)
			return
		}
	}
	for _, e := range edits {
		st := StepObs{Edit: e.String()}
		if err := pr.apply(e); err != nil {
			st.ApplyErr = err.Error()
			out.Steps = append(out.Steps, st)
			out.Infra = "edit " + e.String() + " failed: " + err.Error()
			return
		}
		trace.edit(e)
		if doWatch {
			st.Dirty = probe()
		}
		cur := fresh()
		st.FreshErrors = len(cur.Errors)
		st.Changed = !cur.Equal(prev)
		trace.begin("ctxR", pr)
		reb := sigOf(dir, ctxR.Rebuild())
		st.Events = trace.end()
		st.RebuildDiff = reb.Diff(cur)
		var wsig Sig
		if doWatch {
			var res api.BuildResult
			res, probe = api.VerifWatchProbe(ctxW)
			wsig = sigOf(dir, res)
			st.WatchDiff = wsig.Diff(cur)
			st.Missed = st.Changed && len(st.Dirty) == 0
		}
		if st.RebuildDiff != "" || st.WatchDiff != "" {
			// is the fresh build itself stable?  (diagnostic order of
			// location-less messages is C08's subject)
			for k := 0; k < 3; k++ {
				again := fresh()
				if !again.Equal(cur) {
					st.Flaky = true
				}
			}
			if st.RebuildDiff != "" && sameUpToOrder(reb, cur) {
				st.Flaky = true
			}
		}
		out.Steps = append(out.Steps, st)
		out.Fresh = append(out.Fresh, cur)
		prev = cur
	}
	return
}
