package c09

// Recording of cache hit/miss hook events (binding T); nil-safe.

type CacheEv struct {
	Ev   string `json:"ev"`   // cache.fs | cache.js | cache.css | cache.json
	Path string `json:"path"` // relative to the project directory
	Hit  bool   `json:"hit"`
	Src  string `json:"src,omitempty"`  // digest of the source text seen by the cache
	Opts string `json:"opts,omitempty"` // digest of the full option record
	Cur  string `json:"cur,omitempty"`  // digest of the file's true content (harness)
}

type traceRec struct{}

func (t *traceRec) begin(ctx string, pr *project) {}
func (t *traceRec) end() []CacheEv                { return nil }
func (t *traceRec) edit(e Edit)                   {}
