package c09

// Binding (T): the cache hit/miss hook events (internal/cache, build tag
// verif) of the context under test are recorded per project directory and
// validated against spec/CacheTrace.tla.

import (
	"crypto/sha1"
	"encoding/hex"
	"encoding/json"
	"fmt"
	"os"
	"path/filepath"
	"sort"
	"strings"
	"sync"
	"sync/atomic"

	"github.com/evanw/esbuild/pkg/api"

	"verifharness/core"
	"verifharness/tlcrun"
)

type CacheEv struct {
	Ev   string `json:"ev"`             // cache.fs | cache.js | cache.css | cache.json | reset
	Path string `json:"p"`              // relative to the project directory
	Hit  bool   `json:"hit"`            //
	Src  string `json:"src"`            // digest of the text the cache saw / returned
	Opts string `json:"opts,omitempty"` // digest of the parser option record (by value)
	Cur  string `json:"cur,omitempty"`  // cache.fs: digest of the file's bytes on disk now (harness)
	abs  string
	opts string // full option digest (for diagnostics)
}

type traceRec struct {
	mu     sync.Mutex
	dir    string
	active bool
	cur    []CacheEv
	log    []CacheEv
	hist   string
}

var (
	sinkOnce sync.Once
	recMu    sync.RWMutex
	recs     = map[string]*traceRec{}
)

func digest(s string) string {
	h := sha1.Sum([]byte(s))
	return hex.EncodeToString(h[:6])
}

func installSink() {
	sinkOnce.Do(func() {
		api.VerifSetSink(func(ev string, gid int64, kv []interface{}) {
			if !strings.HasPrefix(ev, "cache.") {
				return
			}
			e := CacheEv{Ev: ev}
			for i := 0; i+1 < len(kv); i += 2 {
				k, _ := kv[i].(string)
				switch k {
				case "path":
					e.abs, _ = kv[i+1].(string)
				case "hit":
					e.Hit, _ = kv[i+1].(bool)
				case "src":
					s, _ := kv[i+1].(string)
					e.Src = digest(s)
				case "opts":
					e.opts, _ = kv[i+1].(string)
					e.Opts = digest(e.opts)
				}
			}
			recMu.RLock()
			var t *traceRec
			for dir, x := range recs {
				if strings.HasPrefix(e.abs, dir) {
					t = x
					break
				}
			}
			recMu.RUnlock()
			if t == nil {
				return
			}
			t.mu.Lock()
			if t.active {
				t.cur = append(t.cur, e)
			}
			t.mu.Unlock()
		})
	})
}

func newTraceRec() *traceRec {
	installSink()
	return &traceRec{}
}

// begin starts recording the events of one build of the context under test
func (t *traceRec) begin(ctx string, pr *project) {
	if t == nil {
		return
	}
	if t.dir == "" {
		t.dir = pr.dir + string(filepath.Separator)
		recMu.Lock()
		recs[t.dir] = t
		recMu.Unlock()
		t.log = append(t.log, CacheEv{Ev: "reset"})
	}
	t.mu.Lock()
	t.active = true
	t.cur = nil
	t.mu.Unlock()
}

// end stops recording; the file system is quiescent, so the bytes on disk
// now are the bytes the build saw
func (t *traceRec) end() []CacheEv {
	if t == nil {
		return nil
	}
	t.mu.Lock()
	t.active = false
	evs := t.cur
	t.cur = nil
	t.mu.Unlock()
	for i := range evs {
		evs[i].Path = strings.TrimPrefix(evs[i].abs, t.dir)
		if evs[i].Ev == "cache.fs" {
			if b, err := os.ReadFile(evs[i].abs); err == nil {
				evs[i].Cur = digest(string(b))
			} else {
				evs[i].Cur = "unreadable"
			}
		}
	}
	// the scan is parallel: order the lookups of one build by path (lookups of
	// different paths are independent; per path FS precedes AST)
	sort.SliceStable(evs, func(i, j int) bool {
		if evs[i].Path != evs[j].Path {
			return evs[i].Path < evs[j].Path
		}
		return false
	})
	t.log = append(t.log, evs...)
	return evs
}

func (t *traceRec) edit(e Edit) {}

func (t *traceRec) close(hist string) {
	if t == nil || t.dir == "" {
		return
	}
	t.hist = hist
	recMu.Lock()
	delete(recs, t.dir)
	recMu.Unlock()
}

var jsxUnkeyed = map[string]bool{"jsx.AutomaticRuntime": true, "jsx.Development": true, "jsx.ImportSource": true, "jsx.Preserve": true, "jsx.SideEffects": true}

func optFieldsDiffer(a, b string) []string {
	ma, mb := map[string]string{}, map[string]string{}
	for _, it := range strings.Split(a, ";") {
		if k, v, ok := strings.Cut(it, "="); ok {
			ma[k] = v
		}
	}
	for _, it := range strings.Split(b, ";") {
		if k, v, ok := strings.Cut(it, "="); ok {
			mb[k] = v
		}
	}
	var d []string
	for k, v := range ma {
		if mb[k] != v {
			d = append(d, k)
		}
	}
	for k := range mb {
		if _, ok := ma[k]; !ok {
			d = append(d, k)
		}
	}
	sort.Strings(d)
	return d
}

// validateTraces runs CacheTrace.tla over the recorded traces (in batches)
func validateTraces(r *core.Run, cnt *counters, traces []*traceRec) {
	const maxLines = 40000
	for len(traces) > 0 {
		var all []CacheEv
		var owner []*traceRec
		n := 0
		for n < len(traces) && (n == 0 || len(all)+len(traces[n].log) <= maxLines) {
			for range traces[n].log {
				owner = append(owner, traces[n])
			}
			all = append(all, traces[n].log...)
			n++
		}
		batch := traces[:n]
		traces = traces[n:]
		var sb strings.Builder
		for _, e := range all {
			b, _ := json.Marshal(e)
			sb.Write(b)
			sb.WriteByte('\n')
		}
		type flag struct {
			Line int    `json:"line"`
			Why  string `json:"why"`
		}
		var flags []flag
		res, err := tlcrun.Run(r, tlcrun.Options{Module: "CacheTrace", Config: "CacheTrace.cfg", Workers: 1, TimeoutSec: 900, NoDeadlock: true,
			Files: map[string]string{"cache_trace.ndjson": sb.String()},
			OnCase: func(raw []byte) {
				var f flag
				if json.Unmarshal(raw, &f) == nil {
					flags = append(flags, f)
				}
			}})
		if err != nil {
			r.Infra("cache trace validation failed to run: %v", err)
			return
		}
		if res.Violated != "" || res.PostFalse {
			r.Infra("CacheTrace did not consume a batch of %d events (violated=%q)", len(all), res.Violated)
			return
		}
		r.AddTraces(int64(len(batch)))
		for _, f := range flags {
			if f.Line < 1 || f.Line > len(all) {
				continue
			}
			atomic.AddInt64(&cnt.forbiddenHits, 1)
			e := all[f.Line-1]
			tr := owner[f.Line-1]
			key := map[string]interface{}{"check": "trace", "why": f.Why, "path": e.Path, "history": tr.hist}
			detail := ""
			if f.Why == "ast-hit-with-different-options" {
				// the entry the hit found: the last miss of the same key in this trace
				stored := ""
				for i := f.Line - 2; i >= 0 && all[i].Ev != "reset"; i-- {
					if all[i].Ev == e.Ev && all[i].Path == e.Path && !all[i].Hit {
						stored = all[i].opts
						break
					}
				}
				d := optFieldsDiffer(stored, e.opts)
				only := len(d) > 0
				for _, k := range d {
					if !jsxUnkeyed[k] {
						only = false
					}
				}
				if only {
					key["cause"] = "ast-hit-ignores-jsx-runtime-options"
				} else {
					key["cause"] = "ast-hit-options-differ:" + strings.Join(d, ",")
				}
				detail = fmt.Sprintf(" (options that differ from the cached entry's: %v)", d)
			} else {
				key["cause"] = f.Why
			}
			r.Violation(key, fmt.Sprintf("%s hit on %s that spec/CacheTrace.tla forbids: %s%s, in the context replaying [%s]", e.Ev, e.Path, f.Why, detail, tr.hist),
				map[string]interface{}{"event": e, "line": f.Line, "history": tr.hist})
		}
	}
}
