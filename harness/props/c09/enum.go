package c09

// Replay of the histories of spec/CacheWatch.tla: directory enumeration
// (glob import, glob require, a plugin's WatchDirs / WatchFiles) and paths
// that one build observes by operations of different kinds
// (node_modules/foo.js: listed as a directory, then read as a file).
//
//	entry  entry.js             foo   node_modules/foo.js
//	pages  pages/               pa    pages/a.mjs   pb  pages/b.txt
//	parts  parts/               pp    parts/p.js
//	wd     wd/                  wdf   wd/f.txt
//	wf     wf.txt

import (
	"encoding/json"
	"fmt"
	"os"
	"path/filepath"
	"sort"
	"strings"
	"sync"
	"sync/atomic"
	"time"

	"github.com/evanw/esbuild/pkg/api"

	"verifharness/core"
	"verifharness/tlcrun"
)

type EEdit struct {
	Op string `json:"op"`
	P  string `json:"p"`
}

func (e EEdit) String() string { return e.Op + "(" + e.P + ")" }

type EExpect struct {
	Changed bool     `json:"changed"`
	Dirty   []string `json:"dirty"`
	Missed  bool     `json:"missed"`
	Weaker  []string `json:"weaker"`
	Hits    []string `json:"hits"`
}

type ECase struct {
	Init   string    `json:"init"`
	Edits  []EEdit   `json:"edits"`
	Expect []EExpect `json:"expect"`
}

func (c ECase) String() string {
	s := []string{}
	for _, e := range c.Edits {
		s = append(s, e.String())
	}
	return c.Init + ": " + strings.Join(s, " ; ")
}

var enumRel = map[string]string{
	"entry": "entry.js", "foo": "node_modules/foo.js", "pages": "pages", "pa": "pages/a.mjs", "pb": "pages/b.txt",
	"parts": "parts", "pp": "parts/p.js", "wd": "wd", "wdf": "wd/f.txt", "wf": "wf.txt",
}

func enumContent(p string, v int) string {
	switch p {
	case "entry":
		return fmt.Sprintf("import foo from \"foo.js\";\nimport list from \"virtual:list\";\n"+
			"export const load = (n) => import(\"./pages/\" + n + \".mjs\");\n"+
			"export const req = (n) => require(\"./parts/\" + n + \".js\");\n"+
			"console.log(\"entry v%d\", foo, list);\n", v)
	case "foo":
		return fmt.Sprintf("module.exports = \"foo v%d\";\n", v)
	case "pa":
		return fmt.Sprintf("export default \"page a v%d\";\n", v)
	case "pp":
		return fmt.Sprintf("module.exports = \"part p v%d\";\n", v)
	}
	return fmt.Sprintf("%s v%d\n", p, v)
}

type enumProject struct {
	dir   string
	t0    time.Time
	step  int
	oldMT bool
	ver   map[string]int
}

func (pr *enumProject) abs(p string) string { return filepath.Join(pr.dir, enumRel[p]) }

func (pr *enumProject) write(p string, v int) error {
	abs := pr.abs(p)
	if err := os.WriteFile(abs, []byte(enumContent(p, v)), 0644); err != nil {
		return err
	}
	pr.ver[p] = v
	if pr.oldMT {
		t := pr.t0.Add(-time.Hour).Add(time.Duration(pr.step) * time.Minute)
		os.Chtimes(abs, t, t)
	}
	return nil
}

func newEnumProject(dir, init string, oldMT bool) (*enumProject, error) {
	pr := &enumProject{dir: dir, t0: time.Now(), oldMT: oldMT, ver: map[string]int{}}
	if err := os.MkdirAll(filepath.Join(dir, "node_modules"), 0755); err != nil {
		return nil, err
	}
	files := []string{"entry", "foo"}
	dirs := []string{}
	switch init {
	case "full":
		dirs = []string{"pages", "parts", "wd"}
		files = append(files, "pa", "pb", "pp", "wdf", "wf")
	case "empty":
		dirs = []string{"pages", "parts", "wd"}
		files = append(files, "wf")
	case "none":
	default:
		return nil, fmt.Errorf("unknown initial tree %q", init)
	}
	for _, d := range dirs {
		if err := os.Mkdir(pr.abs(d), 0755); err != nil {
			return nil, err
		}
	}
	for _, f := range files {
		if err := pr.write(f, 1); err != nil {
			return nil, err
		}
	}
	return pr, nil
}

func (pr *enumProject) apply(e EEdit) error {
	pr.step++
	abs := pr.abs(e.P)
	switch e.Op {
	case "write":
		return pr.write(e.P, 3-pr.ver[e.P])
	case "create":
		return pr.write(e.P, 1)
	case "delete":
		return os.Remove(abs)
	case "mkdir":
		return os.Mkdir(abs, 0755)
	case "rmdir":
		return os.RemoveAll(abs)
	case "tofile":
		if err := os.RemoveAll(abs); err != nil {
			return err
		}
		return os.WriteFile(abs, []byte("not a directory\n"), 0644)
	case "todir":
		if err := os.Remove(abs); err != nil {
			return err
		}
		return os.Mkdir(abs, 0755)
	}
	return fmt.Errorf("unknown edit op %q", e.Op)
}

// the plugin behind "virtual:list": its module text is the listing of wd/ and
// the text of wf.txt; it asks esbuild to watch both
func listPlugin(dir string) api.Plugin {
	return api.Plugin{Name: "verif-list", Setup: func(b api.PluginBuild) {
		b.OnResolve(api.OnResolveOptions{Filter: `^virtual:list$`}, func(a api.OnResolveArgs) (api.OnResolveResult, error) {
			return api.OnResolveResult{Path: "list", Namespace: "virt"}, nil
		})
		b.OnLoad(api.OnLoadOptions{Filter: `.*`, Namespace: "virt"}, func(a api.OnLoadArgs) (api.OnLoadResult, error) {
			val := map[string]interface{}{"wd": nil, "wf": nil}
			if ents, err := os.ReadDir(filepath.Join(dir, "wd")); err == nil {
				names := []string{}
				for _, e := range ents {
					names = append(names, e.Name())
				}
				sort.Strings(names)
				val["wd"] = names
			}
			if data, err := os.ReadFile(filepath.Join(dir, "wf.txt")); err == nil {
				val["wf"] = string(data)
			}
			js, _ := json.Marshal(val)
			text := "export default " + string(js) + ";\n"
			return api.OnLoadResult{Contents: &text, Loader: api.LoaderJS,
				WatchDirs: []string{filepath.Join(dir, "wd")}, WatchFiles: []string{filepath.Join(dir, "wf.txt")}}, nil
		})
	}}
}

var enumOptSets = []optSet{
	{"bundle", func(dir string) api.BuildOptions {
		return api.BuildOptions{AbsWorkingDir: dir, EntryPoints: []string{"entry.js"}, Bundle: true, Outdir: "out",
			Write: false, LogLevel: api.LogLevelSilent, Format: api.FormatESModule, Plugins: []api.Plugin{listPlugin(dir)}}
	}},
	{"splitting", func(dir string) api.BuildOptions {
		return api.BuildOptions{AbsWorkingDir: dir, EntryPoints: []string{"entry.js"}, Bundle: true, Outdir: "out",
			Write: false, LogLevel: api.LogLevelSilent, Format: api.FormatESModule, Splitting: true, Metafile: true,
			MinifySyntax: true, Sourcemap: api.SourceMapLinked, Plugins: []api.Plugin{listPlugin(dir)}}
	}},
}

// replayEnum: as replayCase, on the tree of CacheWatch.tla
func replayEnum(dir string, c ECase, os_ optSet, oldMT bool) (out replayOut) {
	pr, err := newEnumProject(dir, c.Init, oldMT)
	if err != nil {
		out.Infra = "cannot create project: " + err.Error()
		return
	}
	defer os.RemoveAll(dir)
	opts := os_.Make(dir)
	ctxR, cerr := api.Context(opts)
	if cerr != nil {
		out.Infra = fmt.Sprintf("context creation failed: %v", cerr.Errors)
		return
	}
	defer ctxR.Dispose()
	ctxW, cerr := api.Context(opts)
	if cerr != nil {
		out.Infra = fmt.Sprintf("context creation failed: %v", cerr.Errors)
		return
	}
	defer ctxW.Dispose()
	fresh := func() Sig { return sigOf(dir, api.Build(opts)) }
	first := sigOf(dir, ctxR.Rebuild())
	prev := fresh()
	out.Initial = first.Diff(prev)
	res, probe := api.VerifWatchProbe(ctxW)
	if d := sigOf(dir, res).Diff(prev); d != "" && out.Initial == "" {
		out.Initial = "watch-mode build: " + d
	}
	if dirty := probe(); len(dirty) > 0 {
		out.Infra = fmt.Sprintf("watch predicates dirty without an edit: %v", dirty)
		return
	}
	for _, e := range c.Edits {
		st := StepObs{Edit: e.String()}
		if err := pr.apply(e); err != nil {
			out.Infra = "edit " + e.String() + " failed: " + err.Error()
			return
		}
		st.Dirty = probe()
		for i := range st.Dirty {
			if rel, err := filepath.Rel(dir, st.Dirty[i]); err == nil {
				st.Dirty[i] = rel
			}
		}
		cur := fresh()
		st.FreshErrors = len(cur.Errors)
		st.Changed = !cur.Equal(prev)
		reb := sigOf(dir, ctxR.Rebuild())
		st.RebuildDiff = reb.Diff(cur)
		res, probe = api.VerifWatchProbe(ctxW)
		st.WatchDiff = sigOf(dir, res).Diff(cur)
		st.Missed = st.Changed && len(st.Dirty) == 0
		if st.RebuildDiff != "" || st.WatchDiff != "" {
			for k := 0; k < 3; k++ {
				if again := fresh(); !again.Equal(cur) {
					st.Flaky = true
				}
			}
			if st.RebuildDiff != "" && sameUpToOrder(reb, cur) {
				st.Flaky = true
			}
		}
		out.Steps = append(out.Steps, st)
		prev = cur
	}
	return
}

func pickS(r *core.Run, q, t string) string {
	if r.Thorough() {
		return t
	}
	return q
}

type enumCounters struct {
	histories, steps, changed, missed, diverged int64
	candMissed, candMissedRepro                 int64
	over, under, dirtyDisagree                  int64
	emptyEnumCreates, lastDeletes, dirCreates   int64
}

// enumPhase: TLC on CacheWatch (design must hold), generation, replay
func enumPhase(r *core.Run) {
	var wg sync.WaitGroup
	wg.Add(1)
	go func() {
		defer wg.Done()
		if os.Getenv("C09_SKIP_DESIGN") == "" {
			tlcrun.MustHold(r, tlcrun.Options{Module: "CacheWatch", Config: pickS(r, "CacheWatch.design2.cfg", "CacheWatch.design.cfg"), Workers: 2, TimeoutSec: r.Pick(1800, 3600)})
			if r.Thorough() {
				// the model without the ModKey() upgrade of an "unreadable" record (esbuild before fix 807fe1d) must violate the properties
				if res, err := tlcrun.Run(r, tlcrun.Options{Module: "CacheWatch", Config: "CacheWatch.nomkupgrade.cfg", Workers: 1, TimeoutSec: 1800}); err != nil {
					r.Infra("%v", err)
				} else {
					r.Set("enum_model_without_modkey_upgrade", res.Violated)
				}
			}
		}
	}()
	cfgName := "CacheWatch.gen2.cfg"
	if r.Thorough() {
		cfgName = "CacheWatch.gen3.cfg"
	}
	var mu sync.Mutex
	var cases []ECase
	cand := map[string]map[string]bool{}
	res, err := tlcrun.Run(r, tlcrun.Options{Module: "CacheWatch", Config: cfgName, Workers: 2, TimeoutSec: r.Pick(1800, 5400),
		OnCase: func(raw []byte) {
			var cd struct {
				Cand  string  `json:"cand"`
				Init  string  `json:"init"`
				Edits []EEdit `json:"edits"`
			}
			var c ECase
			if json.Unmarshal(raw, &cd) == nil && cd.Cand != "" {
				mu.Lock()
				if cand[cd.Cand] == nil {
					cand[cd.Cand] = map[string]bool{}
				}
				cand[cd.Cand][ECase{Init: cd.Init, Edits: cd.Edits}.String()] = true
				mu.Unlock()
				return
			}
			if err := json.Unmarshal(raw, &c); err != nil || len(c.Expect) != len(c.Edits) {
				r.Infra("bad CacheWatch CASE record: %v", err)
				return
			}
			mu.Lock()
			cases = append(cases, c)
			mu.Unlock()
		}})
	if err != nil {
		r.Infra("%v", err)
		wg.Wait()
		return
	}
	if res.Violated != "" {
		r.Infra("CacheWatch: the transcription of the code violates %s on the model, which must hold", res.Violated)
	}
	mc := map[string]interface{}{}
	for prop, hs := range cand {
		ex := ""
		for h := range hs {
			if ex == "" || len(h) < len(ex) || (len(h) == len(ex) && h < ex) {
				ex = h
			}
		}
		mc[prop] = map[string]interface{}{"histories": len(hs), "shortest": ex}
		r.Logf("model candidate (CacheWatch): %s violated on %d histories, e.g. [%s]", prop, len(hs), ex)
	}
	r.Set("enum_model_candidates", mc)
	sort.Slice(cases, func(i, j int) bool { return cases[i].String() < cases[j].String() })
	r.Logf("TLC CacheWatch/%s: %d distinct states, %d histories, %.1fs", cfgName, res.Distinct, len(cases), res.Wall.Seconds())
	if len(cases) == 0 {
		r.Infra("CacheWatch exported no histories")
		wg.Wait()
		return
	}
	// thorough: every history of 3 edits under one combination (seeded rotation), the histories
	// of the quick tier (2 edits) are their prefixes; quick: every history under two combinations
	type job struct {
		c     ECase
		combo int
	}
	var jobs []job
	for i, c := range cases {
		k := (i + int(r.Seed)) % 4
		jobs = append(jobs, job{c, k})
		if !r.Thorough() {
			jobs = append(jobs, job{c, (k + 3) % 4}) // the other option set and the other mtime regime
		}
	}
	var cnt enumCounters
	core.Parallel(len(jobs), r.Pick(3, 4), func(i int) {
		j := jobs[i]
		os_, old := enumOptSets[j.combo/2], j.combo%2 == 0
		out := replayEnum(filepath.Join(r.Scratch, fmt.Sprintf("e%d", i)), j.c, os_, old)
		judgeEnum(r, &cnt, j.c, os_.Name, old, out)
	})
	enumWatchLoop(r)
	wg.Wait()
	r.Set("enum_histories_replayed", cnt.histories)
	r.Set("enum_steps", cnt.steps)
	r.Set("enum_steps_fresh_result_changed", cnt.changed)
	r.Set("enum_steps_rebuild_differs", cnt.diverged)
	r.Set("enum_steps_watch_missed", cnt.missed)
	r.Set("enum_spec_candidates_missed", cnt.candMissed)
	r.Set("enum_spec_candidates_missed_reproduced", cnt.candMissedRepro)
	r.Set("enum_spec_predicts_change_real_unchanged", cnt.over)
	r.Set("enum_spec_predicts_unchanged_real_changed", cnt.under)
	r.Set("enum_dirty_prediction_disagrees", cnt.dirtyDisagree)
	r.Set("enum_steps_first_file_in_empty_enumerated_dir", cnt.emptyEnumCreates)
	r.Set("enum_steps_last_file_of_enumerated_dir_deleted", cnt.lastDeletes)
	r.Set("enum_steps_directory_created", cnt.dirCreates)
	r.Logf("enum: histories=%d steps=%d changed=%d rebuild-differs=%d watch-missed=%d | candidates missed %d (reproduced %d) | changed over/under %d/%d dirty-disagree %d",
		cnt.histories, cnt.steps, cnt.changed, cnt.diverged, cnt.missed, cnt.candMissed, cnt.candMissedRepro, cnt.over, cnt.under, cnt.dirtyDisagree)
}

func judgeEnum(r *core.Run, cnt *enumCounters, c ECase, osName string, old bool, out replayOut) {
	regime := "fresh"
	if old {
		regime = "old"
	}
	r.Case(core.Hash(map[string]interface{}{"enum": c.String(), "o": osName, "r": regime}), true)
	atomic.AddInt64(&cnt.histories, 1)
	base := func() map[string]interface{} {
		return map[string]interface{}{"tree": "enum", "history": c.String(), "optset": osName, "regime": regime}
	}
	if out.Infra != "" {
		r.Infra("enum history [%s] %s/%s: %s", c.String(), osName, regime, out.Infra)
		return
	}
	if out.Initial != "" {
		k := base()
		k["check"] = "initial"
		r.Violation(k, "the first build of a context differs from api.Build of the same tree: "+out.Initial, out)
	}
	// which directories are empty before each step (for the coverage counters)
	for i, st := range out.Steps {
		ex := c.Expect[i]
		e := c.Edits[i]
		atomic.AddInt64(&cnt.steps, 1)
		if st.Changed {
			atomic.AddInt64(&cnt.changed, 1)
		}
		switch {
		case e.Op == "create" && e.P != "wf" && len(ex.Dirty) > 0 && st.Changed:
			atomic.AddInt64(&cnt.emptyEnumCreates, 1) // (an over-count: any create inside an enumerated directory)
		case e.Op == "delete" && e.P != "wf":
			atomic.AddInt64(&cnt.lastDeletes, 1)
		case e.Op == "mkdir" || e.Op == "todir":
			atomic.AddInt64(&cnt.dirCreates, 1)
		}
		if st.Flaky {
			continue
		}
		diff, which := st.RebuildDiff, "Rebuild()"
		if diff == "" && st.WatchDiff != "" {
			diff, which = st.WatchDiff, "watch-mode rebuild"
		}
		if diff != "" {
			atomic.AddInt64(&cnt.diverged, 1)
			k := base()
			k["check"], k["step"], k["edit"], k["diff"], k["cause"] = "rebuild", i+1, st.Edit, diffKind(diff), "unpredicted"
			r.Violation(k, fmt.Sprintf("%s after [%s] (step %d, %s, %s mtimes) differs from a fresh build of the same tree: %s", which, c.String(), i+1, osName, regime, diff),
				map[string]interface{}{"enum": c, "observed": out.Steps})
		}
		if old && ex.Missed {
			atomic.AddInt64(&cnt.candMissed, 1)
			if st.Missed {
				atomic.AddInt64(&cnt.candMissedRepro, 1)
			} else if st.Changed {
				r.Drift("CacheWatch predicts an undetected change at step %d of [%s] but the real predicates report %v", i+1, c.String(), st.Dirty)
			}
		}
		if st.Missed {
			atomic.AddInt64(&cnt.missed, 1)
			k := base()
			k["check"], k["step"], k["edit"] = "watch", i+1, st.Edit
			// the spec's explanation, if it has one: the edited path was left with the weaker record
			k["cause"] = "unpredicted"
			if ex.Missed {
				for _, w := range ex.Weaker {
					if w == e.P {
						k["cause"] = "weaker-observation-overwrites:" + w
					}
				}
			}
			r.Violation(k, fmt.Sprintf("edit %s (step %d of [%s], %s, %s mtimes) changes the result of a fresh build but no watch predicate of the previous build reports a dirty path", st.Edit, i+1, c.String(), osName, regime),
				map[string]interface{}{"enum": c, "observed": out.Steps})
		}
		if ex.Changed && !st.Changed {
			atomic.AddInt64(&cnt.over, 1)
			if os.Getenv("C09_VERBOSE") != "" {
				r.Logf("ENUM OVER: step %d of [%s] (%s/%s)", i+1, c.String(), osName, regime)
			}
		}
		if !ex.Changed && st.Changed {
			atomic.AddInt64(&cnt.under, 1)
			r.Drift("CacheWatch predicts an unchanged result at step %d of [%s] (%s) but the fresh build changed", i+1, c.String(), osName)
		}
		if old && (len(ex.Dirty) > 0) != (len(st.Dirty) > 0) {
			atomic.AddInt64(&cnt.dirtyDisagree, 1)
			if os.Getenv("C09_VERBOSE") != "" {
				r.Logf("ENUM DIRTY: step %d of [%s] (%s/%s): spec %v real %v", i+1, c.String(), osName, regime, ex.Dirty, st.Dirty)
			}
		}
	}
	if len(out.Steps) > 0 && atomic.LoadInt64(&cnt.histories)%50 == 1 {
		r.Sample(map[string]interface{}{"tree": "enum", "history": c.String(), "optset": osName, "regime": regime, "steps": out.Steps})
	}
}

// enumWatchLoop: the edit kinds of CacheWatch.tla through the real polling loop of ctx.Watch()
func enumWatchLoop(r *core.Run) {
	cases := []ECase{
		{Init: "empty", Edits: []EEdit{{"create", "pa"}}},                    // first file in an empty enumerated directory (glob import)
		{Init: "full", Edits: []EEdit{{"delete", "pp"}, {"create", "pp"}}},   // last file deleted, then created again (glob require)
		{Init: "none", Edits: []EEdit{{"mkdir", "pages"}, {"create", "pa"}}}, // directory a glob would match appears, then a file in it
		{Init: "empty", Edits: []EEdit{{"create", "wdf"}}},                   // plugin WatchDirs, empty directory
		{Init: "none", Edits: []EEdit{{"create", "wf"}}},                     // plugin WatchFiles, missing file appears
	}
	if r.Thorough() {
		cases = append(cases,
			ECase{Init: "full", Edits: []EEdit{{"tofile", "pages"}, {"todir", "pages"}, {"create", "pa"}}},
			ECase{Init: "full", Edits: []EEdit{{"rmdir", "wd"}, {"mkdir", "wd"}, {"create", "wdf"}}},
			ECase{Init: "full", Edits: []EEdit{{"delete", "pa"}, {"create", "pb"}, {"create", "pa"}}},
		)
	}
	var wg sync.WaitGroup
	for i, c := range cases {
		wg.Add(1)
		go func(i int, c ECase) {
			defer wg.Done()
			old := i%2 == 0
			dir := filepath.Join(r.Scratch, fmt.Sprintf("ew%d", i))
			pr, err := newEnumProject(dir, c.Init, old)
			if err != nil {
				r.Infra("enum watch loop: %v", err)
				return
			}
			defer os.RemoveAll(dir)
			ends := make(chan Sig, 16)
			opts := enumOptSets[0].Make(dir)
			freshOpts := enumOptSets[0].Make(dir)
			opts.Plugins = append(opts.Plugins, api.Plugin{Name: "verif-onend", Setup: func(b api.PluginBuild) {
				b.OnEnd(func(res *api.BuildResult) (api.OnEndResult, error) {
					ends <- sigOf(dir, *res)
					return api.OnEndResult{}, nil
				})
			}})
			ctx, cerr := api.Context(opts)
			if cerr != nil {
				r.Infra("enum watch loop: context creation failed: %v", cerr.Errors)
				return
			}
			defer ctx.Dispose()
			if err := ctx.Watch(api.WatchOptions{}); err != nil {
				r.Infra("enum watch loop: Watch(): %v", err)
				return
			}
			select {
			case <-ends:
			case <-time.After(120 * time.Second):
				r.Infra("enum watch loop: no initial build within 120 s")
				return
			}
			prev := sigOf(dir, api.Build(freshOpts))
			hist := c.Init + ": "
			for _, e := range c.Edits {
				if err := pr.apply(e); err != nil {
					r.Infra("enum watch loop: edit %s: %v", e.String(), err)
					return
				}
				hist += e.String() + " ; "
				cur := sigOf(dir, api.Build(freshOpts))
				changed := !cur.Equal(prev)
				prev = cur
				if !changed {
					// a spurious rebuild may or may not follow (the listing changed): drain it
					select {
					case <-ends:
					case <-time.After(3 * time.Second):
					}
					continue
				}
				wait := 90 * time.Second
				select {
				case got := <-ends:
					for d := got.Diff(cur); d != ""; d = got.Diff(cur) {
						select {
						case got = <-ends:
						case <-time.After(45 * time.Second):
							r.Violation(map[string]interface{}{"tree": "enum", "check": "watchloop-result", "history": hist, "cause": "unpredicted"},
								fmt.Sprintf("the rebuild started by the watcher after [%s] differs from a fresh build: %s", hist, d), nil)
							return
						}
					}
				case <-time.After(wait):
					r.Violation(map[string]interface{}{"tree": "enum", "check": "watchloop", "history": hist, "cause": "unpredicted"},
						fmt.Sprintf("ctx.Watch(): no rebuild within %v after [%s] although the result of a fresh build changed", wait, hist), nil)
					return
				}
			}
			r.Case("enum-watchloop:"+hist, true)
		}(i, c)
	}
	wg.Wait()
	r.Set("enum_watch_loop_histories", len(cases))
}
