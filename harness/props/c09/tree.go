package c09

// The concrete project tree that spec/Cache.tla abstracts, and the edit
// operations of the spec's edit alphabet applied to a real directory.
//
// Path keys (the spec's Paths) and what they stand for:
//
//	pkg   package.json                   config record {type, sideEffects}
//	tsc   tsconfig.json                  config record {jsx, jsxFactory, ...}
//	entry entry.tsx                      source (versions 1,2,3,bad)
//	xjs   x.js                           source; imported as "./x"
//	xts   x.ts                           source; shadows x.js when present
//	dep   dep.js                         symlink -> A.js | B.js
//	d     d/ (with d/index.js)           directory imported as "./d"
//	didx  d/index.js                     source inside d
//	dfile d.js                           file that shadows the directory d
//	near  d/node_modules/lib/index.js    nearer node_modules
//	nmpkg node_modules/lib/package.json  config record {main}
//
// Fixed support files (never edited): A.js, B.js, cjs.js, liblocal.js,
// node_modules/lib/main1.js, main2.js, node_modules/react/jsx-runtime.js,
// node_modules/foo/jsx-runtime.js.

import (
	"encoding/json"
	"fmt"
	"os"
	"path/filepath"
	"sort"
	"strings"
	"time"
)

var relPath = map[string]string{
	"pkg":   "package.json",
	"tsc":   "tsconfig.json",
	"entry": "entry.tsx",
	"xjs":   "x.js",
	"xts":   "x.ts",
	"dep":   "dep.js",
	"d":     "d",
	"didx":  "d/index.js",
	"dfile": "d.js",
	"near":  "d/node_modules/lib/index.js",
	"nmpkg": "node_modules/lib/package.json",
	"A":     "A.js",
	"B":     "B.js",
}

var fixedFiles = map[string]string{
	"A.js":                                  "export const dep = \"A\";\n",
	"B.js":                                  "export const dep = \"B\";\n",
	"cjs.js":                                "exports.c = typeof this;\n",
	"liblocal.js":                           "export const lib = \"local lib\";\n",
	"node_modules/lib/main1.js":             "export const lib = \"lib main1\";\n",
	"node_modules/lib/main2.js":             "export const lib = \"lib main2\";\n",
	"node_modules/react/jsx-runtime.js":     "export const jsx = (t, p) => [\"react-jsx\", t, p];\nexport const jsxs = jsx;\nexport const Fragment = \"react-frag\";\n",
	"node_modules/react/jsx-dev-runtime.js": "export const jsxDEV = (t, p) => [\"react-jsxdev\", t, p];\nexport const Fragment = \"react-frag\";\n",
	"node_modules/foo/jsx-runtime.js":       "export const jsx = (t, p) => [\"foo-jsx\", t, p];\nexport const jsxs = jsx;\nexport const Fragment = \"foo-frag\";\n",
	"node_modules/foo/jsx-dev-runtime.js":   "export const jsxDEV = (t, p) => [\"foo-jsxdev\", t, p];\nexport const Fragment = \"foo-frag\";\n",
}

// content of a source path at a content version.  Versions "1" and "2" have
// the same length, "3" is longer, "bad" is a syntax error.
func content(p, v string) string {
	tag := v
	extra := ""
	switch v {
	case "3":
		extra = "console.log(\"longer " + p + "\");\n"
	case "bad":
		return "export const = ; // syntax error in " + p + "\n"
	}
	switch p {
	case "entry":
		return "import { x } from \"./x\";\nimport { dep } from \"./dep\";\nimport * as c from \"./cjs\";\nimport \"./d\";\n" +
			"class C { f = 1; g; static h }\n" +
			"enum E { A = 1 }\n" +
			"export const el = <div id=\"" + tag + "\">{x}{dep}{c.c}{E.A}</div>;\nexport const fr = <>a</>;\nexport { C };\n" + extra
	case "xjs":
		return "export const x = \"x.js v" + tag + "\";\n" + extra
	case "xts":
		return "export const x: string = \"x.ts v" + tag + "\";\n" + extra
	case "didx":
		return "import { lib } from \"lib\";\nconsole.log(\"d v" + tag + "\", lib);\n" + extra
	case "dfile":
		return "console.log(\"d.js v" + tag + "\");\n" + extra
	case "near":
		return "export const lib = \"near lib v" + tag + "\";\n" + extra
	case "d": // the directory replaced by a file
		return "console.log(\"d as a file v" + tag + "\");\n" + extra
	}
	return "// " + p + " v" + tag + "\n" + extra
}

// renderCfg renders a config record of the spec as the JSON file it stands for
func renderCfg(p string, f map[string]string) string {
	get := func(k string) (string, bool) {
		v, ok := f[k]
		if !ok || v == "none" || v == "" {
			return "", false
		}
		return v, true
	}
	if f["syntax"] == "bad" {
		return "{ \"broken\": \n"
	}
	switch p {
	case "pkg":
		m := map[string]interface{}{"name": "root"}
		if v, ok := get("type"); ok {
			m["type"] = v
		}
		if v, ok := get("sideEffects"); ok {
			m["sideEffects"] = v == "true"
		}
		b, _ := json.MarshalIndent(m, "", "  ")
		return string(b) + "\n"
	case "nmpkg":
		m := map[string]interface{}{"name": "lib"}
		if v, ok := get("main"); ok {
			m["main"] = "./" + v + ".js"
		}
		b, _ := json.MarshalIndent(m, "", "  ")
		return string(b) + "\n"
	case "tsc":
		co := map[string]interface{}{}
		for _, k := range []string{"jsx", "jsxFactory", "jsxFragmentFactory", "jsxImportSource", "target"} {
			if v, ok := get(k); ok {
				co[k] = v
			}
		}
		for _, k := range []string{"useDefineForClassFields", "experimentalDecorators", "verbatimModuleSyntax", "alwaysStrict", "strict", "preserveValueImports"} {
			if v, ok := get(k); ok {
				co[k] = v == "true"
			}
		}
		if v, ok := get("importsNotUsedAsValues"); ok {
			co["importsNotUsedAsValues"] = v
		}
		if v, ok := get("paths"); ok {
			co["paths"] = map[string]interface{}{"lib": []string{"./" + v + ".js"}}
		}
		b, _ := json.MarshalIndent(map[string]interface{}{"compilerOptions": co}, "", "  ")
		return string(b) + "\n"
	}
	return "{}\n"
}

type Edit struct {
	Op string            `json:"op"`
	P  string            `json:"p"`
	V  string            `json:"v,omitempty"`  // content version / symlink target key
	To string            `json:"to,omitempty"` // rename destination
	F  map[string]string `json:"f,omitempty"`  // config record
}

func (e Edit) String() string {
	s := e.Op + "(" + e.P
	if e.To != "" {
		s += "->" + e.To
	}
	if e.V != "" {
		s += "," + e.V
	}
	if e.Op == "cfg" {
		keys := []string{}
		for k, v := range e.F {
			if v != "none" && !(k == "syntax" && v == "ok") {
				keys = append(keys, k+"="+v)
			}
		}
		sort.Strings(keys)
		s += ",{" + strings.Join(keys, " ") + "}"
	}
	return s + ")"
}

// initial configuration records (must equal Init of spec/Cache.tla)
var initCfg = map[string]map[string]string{
	"pkg":   {},
	"tsc":   {},
	"nmpkg": {"main": "main1"},
}

type project struct {
	dir    string
	t0     time.Time
	step   int
	oldMT  bool // regime "settled": explicit old, advancing mtimes
	mtimes map[string]time.Time
}

func (pr *project) abs(p string) string {
	rp, ok := relPath[p]
	if !ok {
		panic("unknown path key " + p)
	}
	return filepath.Join(pr.dir, rp)
}

func (pr *project) stamp(abs string) {
	if !pr.oldMT {
		return
	}
	t := pr.t0.Add(-time.Hour).Add(time.Duration(pr.step) * time.Minute)
	os.Chtimes(abs, t, t)
}

func (pr *project) writeFile(abs, data string) error {
	if err := os.MkdirAll(filepath.Dir(abs), 0755); err != nil {
		return err
	}
	if err := os.WriteFile(abs, []byte(data), 0644); err != nil {
		return err
	}
	pr.stamp(abs)
	return nil
}

func newProject(dir string, oldMT bool) (*project, error) {
	pr := &project{dir: dir, t0: time.Now(), oldMT: oldMT}
	if err := os.MkdirAll(dir, 0755); err != nil {
		return nil, err
	}
	for rel, data := range fixedFiles {
		if err := pr.writeFile(filepath.Join(dir, rel), data); err != nil {
			return nil, err
		}
	}
	for _, p := range []string{"entry", "xjs", "didx"} {
		if err := pr.writeFile(pr.abs(p), content(p, "1")); err != nil {
			return nil, err
		}
	}
	for _, p := range []string{"pkg", "tsc", "nmpkg"} {
		if err := pr.writeFile(pr.abs(p), renderCfg(p, initCfg[p])); err != nil {
			return nil, err
		}
	}
	if err := os.Symlink("A.js", pr.abs("dep")); err != nil {
		return nil, err
	}
	return pr, nil
}

// apply performs one edit of the spec's alphabet on the real directory
func (pr *project) apply(e Edit) error {
	pr.step++
	abs := pr.abs(e.P)
	switch e.Op {
	case "write", "create":
		// "write" truncates and rewrites in place (same inode), "create" makes a new file
		return pr.writeFile(abs, content(e.P, e.V))
	case "cfg":
		return pr.writeFile(abs, renderCfg(e.P, e.F))
	case "delete":
		return os.RemoveAll(abs)
	case "rename":
		// rename(2) keeps inode and mtime of the file (times advance "normally":
		// nothing touches the file itself)
		return os.Rename(abs, pr.abs(e.To))
	case "touch":
		if pr.oldMT {
			pr.stamp(abs)
			return nil
		}
		now := time.Now()
		return os.Chtimes(abs, now, now)
	case "todir":
		// replace a file by a directory (with an index.js inside)
		if err := os.RemoveAll(abs); err != nil {
			return err
		}
		if err := os.MkdirAll(abs, 0755); err != nil {
			return err
		}
		return pr.writeFile(filepath.Join(abs, "index.js"), content("didx", e.V))
	case "tofile":
		// replace a directory by a file
		if err := os.RemoveAll(abs); err != nil {
			return err
		}
		return pr.writeFile(abs, content(e.P, e.V))
	case "retarget":
		// replace the symlink by one with another target (as `ln -sfn` does)
		os.Remove(abs)
		return os.Symlink(relPath[e.V], abs)
	case "mkfile":
		// replace the symlink by a regular file with the target's content
		os.Remove(abs)
		return pr.writeFile(abs, fixedFiles[relPath[e.V]])
	}
	return fmt.Errorf("unknown edit op %q", e.Op)
}
