package c07

// Input source maps (composition): the second replay family of C07.
//
// A scenario = a bundle configuration x a position pattern (which files of the
// bundle, in output order dep1, ..., entry, carry an input source map) x one
// input-map descriptor per marked position (SourceMapGen.tla InMaps/Patterns).
// A file with an input map is an INTERMEDIATE text made from 1-3 ORIGINAL
// marker files, either by a first esbuild run (transform / bundle of 2-3
// files) or by hand (units of the originals interleaved and re-indented, with
// a map encoded by the harness's own VLQ encoder).  The truth of the final map
// is judged against the ORIGINAL files: sources[i] must name the original and
// the token at the mapped position must be the marker of the generated token.

import (
	"encoding/base64"
	"encoding/json"
	"fmt"
	"os"
	"path/filepath"
	"regexp"
	"sort"
	"strings"
	"unicode/utf16"

	"github.com/evanw/esbuild/pkg/api"

	"verifharness/core"
)

type inMap struct {
	Kind       string `json:"kind,omitempty"`
	Origin     string `json:"origin"`
	Carrier    string `json:"carrier"`
	Content    string `json:"content"`
	Root       bool   `json:"root"`
	Names      bool   `json:"names"`
	Sparse     string `json:"sparse"`
	Nsrc       int    `json:"nsrc"`
	TokenExact bool   `json:"tokenExact"`
}

func (d inMap) code() string {
	if d.Origin == "" {
		return "P"
	}
	b := func(x bool, s string) string {
		if x {
			return s
		}
		return ""
	}
	return fmt.Sprintf("%s.%s.%s.%s%s%s", d.Origin, d.Carrier[:3], d.Content[:4], d.Sparse, b(d.Root, ".root"), b(d.Names, ".names"))
}

func inmapCodes(ds []inMap) string {
	var s []string
	for _, d := range ds {
		s = append(s, d.code())
	}
	return strings.Join(s, "|")
}

// interInfo is what the checker needs to judge composition through one file
type interInfo struct {
	File    string   `json:"file"`    // stage-2 file name
	Text    string   `json:"text"`    // the intermediate text esbuild read (without the map comment)
	Map     string   `json:"map"`     // the input map (JSON)
	Sources []string `json:"sources"` // the names its sources must have in the final map, in the input map's order
	Exact   bool     `json:"exact"`   // every marker token of Text starts a mapping of Map
	Plain   bool     `json:"plain"`   // no input map: the file is its own (only) source
	Renames bool     `json:"renames"` // the first stage renamed identifiers: identifier tokens of Text need not be markers
}

type sourceGroup struct {
	File    string   `json:"file"`
	Sources []string `json:"sources"`
}

// ---- VLQ / mappings encoder (the harness's own) ------------------------------
const b64chars = "ABCDEFGHIJKLMNOPQRSTUVWXYZabcdefghijklmnopqrstuvwxyz0123456789+/"

func vlq(sb *strings.Builder, n int) {
	v := n << 1
	if n < 0 {
		v = ((-n) << 1) | 1
	}
	for {
		d := v & 31
		v >>= 5
		if v != 0 {
			d |= 32
		}
		sb.WriteByte(b64chars[d])
		if v == 0 {
			break
		}
	}
}

type rawMapping struct {
	gl, gc, src, ol, oc int
	name                int  // -1 = none
	one                 bool // 1-field segment ("unmapped from here")
}

func encodeMappings(ms []rawMapping) string {
	var sb strings.Builder
	gl, gc, src, ol, oc, nm := 0, 0, 0, 0, 0, 0
	first := true
	for _, m := range ms {
		for gl < m.gl {
			sb.WriteByte(';')
			gl++
			gc = 0
			first = true
		}
		if !first {
			sb.WriteByte(',')
		}
		first = false
		vlq(&sb, m.gc-gc)
		gc = m.gc
		if m.one {
			continue
		}
		vlq(&sb, m.src-src)
		vlq(&sb, m.ol-ol)
		vlq(&sb, m.oc-oc)
		src, ol, oc = m.src, m.ol, m.oc
		if m.name >= 0 {
			vlq(&sb, m.name-nm)
			nm = m.name
		}
	}
	return sb.String()
}

func u16len(s string) int { return len(utf16.Encode([]rune(s))) }

// positions (line, UTF-16 column) of the start of every raw line of a generated
// file inside its own text, by ECMAScript line terminators: a raw line of the
// "ls" layout contains U+2028/U+2029, which start new lines for source maps
type lineCol struct{ l, c int }

func advanceLC(p lineCol, s string) lineCol {
	rs := []rune(s)
	for i := 0; i < len(rs); i++ {
		switch rs[i] {
		case '\n', '\u2028', '\u2029':
			p.l++
			p.c = 0
		case '\r':
			if i+1 < len(rs) && rs[i+1] == '\n' {
				i++
			}
			p.l++
			p.c = 0
		default:
			if rs[i] >= 0x10000 {
				p.c += 2
			} else {
				p.c++
			}
		}
	}
	return p
}

var wordRe = regexp.MustCompile(`[A-Za-z_$][A-Za-z0-9_$]*|[0-9]+|\s+|.`)
var identMarkerRe = regexp.MustCompile(`^mk_[0-9]+_[A-Za-z0-9]+$`)

// handBuild interleaves the top-level units of the originals into one
// intermediate text and encodes its map.  Every copied line is verbatim, so a
// token at distance d from the start of an original line is at distance d from
// the start of its copy.
func handBuild(m *markers, origs []genFile, d inMap) (text string, mappings string, names []string) {
	type unitRef struct{ f, lo, hi int }
	var perFile [][]unitRef
	// (line, col) of the start of every raw line of every original
	starts := make([][]lineCol, len(origs))
	for fi, g := range origs {
		var us []unitRef
		for k, lo := range g.units {
			hi := len(g.lines)
			if k+1 < len(g.units) {
				hi = g.units[k+1]
			}
			us = append(us, unitRef{fi, lo, hi})
		}
		perFile = append(perFile, us)
		p := lineCol{}
		for _, ln := range g.lines {
			starts[fi] = append(starts[fi], p)
			p = advanceLC(p, ln+g.nl)
		}
	}
	var order []unitRef
	for k := 0; ; k++ {
		any := false
		for _, us := range perFile {
			if k < len(us) {
				order = append(order, us[k])
				any = true
			}
		}
		if !any {
			break
		}
	}
	nameIdx := map[string]int{}
	var ms []rawMapping
	var sb strings.Builder
	at := lineCol{}
	emit := func(s string) { sb.WriteString(s); at = advanceLC(at, s) }
	for ui, u := range order {
		indent := strings.Repeat(" ", (ui%3)*2)
		if ui%5 == 4 {
			indent = "\t /* moved */ "
		}
		for li := u.lo; li < u.hi; li++ {
			line := origs[u.f].lines[li]
			if li > u.lo && ui%5 == 4 {
				emit("\t    ") // the unit may be inside a block comment here: blanks only
			} else {
				emit(indent)
			}
			g0, o0 := at, starts[u.f][li]
			firstTok := true
			for _, loc := range wordRe.FindAllStringIndex(line, -1) {
				w := line[loc[0]:loc[1]]
				if strings.TrimSpace(w) == "" {
					continue
				}
				if d.Sparse == "coarse" && !firstTok {
					break
				}
				firstTok = false
				gp, op := advanceLC(g0, line[:loc[0]]), advanceLC(o0, line[:loc[0]])
				rm := rawMapping{gl: gp.l, gc: gp.c, src: u.f, ol: op.l, oc: op.c, name: -1}
				if d.Names && identMarkerRe.MatchString(w) {
					i, ok := nameIdx[w]
					if !ok {
						i = len(names)
						nameIdx[w] = i
						names = append(names, w)
					}
					rm.name = i
				}
				ms = append(ms, rm)
			}
			emit(line)
			last := li == u.hi-1
			if d.Sparse == "holes" && strings.TrimSpace(line) != "" {
				// the generated text after the copied line is not mapped to anything
				ms = append(ms, rawMapping{gl: at.l, gc: at.c, one: true})
				if last && ui%4 == 1 && (strings.HasSuffix(line, ";") || strings.HasSuffix(line, "}")) {
					emit(" " + m.id("glue") + "(" + m.str() + ");")
				}
			}
			emit("\n")
		}
		if d.Sparse == "holes" && ui%3 == 2 {
			// a line that the (imaginary) tool generated itself: no mapping at all
			emit(m.id("glue") + "(" + m.str() + ", " + m.id("glue") + ");\n")
		}
	}
	return sb.String(), encodeMappings(ms), names
}

type inputMapJSON struct {
	Version        int       `json:"version"`
	File           string    `json:"file,omitempty"`
	SourceRoot     string    `json:"sourceRoot,omitempty"`
	Sources        []string  `json:"sources"`
	SourcesContent []*string `json:"sourcesContent,omitempty"`
	Names          []string  `json:"names"`
	Mappings       string    `json:"mappings"`
}

const inputSourceRoot = "../src/"

// materialiseInmap writes the stage-2 input files of an input-map scenario below
// src and returns what runScenario needs to go on.
type inmapFiles struct {
	files     []genFile // stage-2 files, entry first (only spec.name is used later)
	disk      map[string]string
	origText  map[string]string
	aliases   map[string]string
	inters    []interInfo
	groups    []sourceGroup
	renamed   []string // identifiers of plain files that are bound to declarations of a first stage that renamed identifiers
	nullOK    []string // sources (relative to the out directory) whose content cannot be known to esbuild
	firstPass []map[string]interface{}
	nBuilds   int
	infra     string
}

func materialiseInmap(r *core.Run, sc *scenario, root, src string, m *markers) *inmapFiles {
	out := &inmapFiles{disk: map[string]string{}, origText: map[string]string{}, aliases: map[string]string{}}
	n := len(sc.Pattern)
	lay := func(i int) string { return sc.Layouts[i%len(sc.Layouts)] }
	write := func(p, t string) bool {
		if err := os.WriteFile(p, []byte(t), 0644); err != nil {
			out.infra = err.Error()
			return false
		}
		return true
	}
	relOut := func(abs string) string { // the name a map in root/out must use
		rel, _ := filepath.Rel(filepath.Join(root, "out"), abs)
		return filepath.ToSlash(rel)
	}
	layoutNo := 0
	nextLayout := func() string { layoutNo++; return lay(layoutNo - 1) }
	// position k of the pattern: deps f1..f(n-1) in output order, the entry f0 last
	type slot struct {
		name  string
		entry bool
		gen   genFile // the file whose exports the entry imports (for P: the file itself; for I: original a)
	}
	slots := make([]slot, n)
	var depImports []importSpec
	for k := 0; k < n; k++ {
		entry := k == n-1
		name := fmt.Sprintf("f%d.js", k+1)
		if entry {
			name = "f0.js"
		}
		slots[k] = slot{name: name, entry: entry}
		var imps []importSpec
		if entry {
			imps = depImports
		}
		d := inMap{}
		if sc.Pattern[k] == "I" {
			d = sc.InMaps[k]
		}
		abs := filepath.Join(src, name)
		if d.Origin == "" {
			g := makeFile(m, fileSpec{name: name, layout: nextLayout(), imports: imps, exports: !entry})
			slots[k].gen = g
			out.disk[abs] = g.text
			out.origText[abs] = g.text
			out.groups = append(out.groups, sourceGroup{File: name, Sources: []string{relOut(abs)}})
			out.inters = append(out.inters, interInfo{File: name, Text: g.text, Sources: []string{relOut(abs)}, Exact: true, Plain: true})
			for a, b := range g.aliases {
				out.aliases[a] = b
			}
			if !write(abs, g.text) {
				return out
			}
		} else {
			// ---- originals ---------------------------------------------------------
			hand := strings.HasPrefix(d.Origin, "hand")
			letters := []string{"a", "b", "c"}[:d.Nsrc]
			origName := func(i int) string { return fmt.Sprintf("o%d%s.js", k, letters[i]) }
			var origs []genFile
			var others []importSpec
			for i := 1; i < d.Nsrc; i++ {
				g := makeFile(m, fileSpec{name: origName(i), layout: nextLayout(), exports: !hand})
				origs = append(origs, g)
				if !hand {
					others = append(others, importSpec{from: "./" + origName(i), names: [][2]string{{g.expFn, g.expFn}, {g.expCls, m.id("alias")}}})
				}
			}
			a := makeFile(m, fileSpec{name: origName(0), layout: nextLayout(), imports: append(append([]importSpec{}, others...), imps...), exports: !entry})
			origs = append([]genFile{a}, origs...)
			slots[k].gen = a
			for _, g := range origs {
				for x, y := range g.aliases {
					out.aliases[x] = y
				}
				p := filepath.Join(src, g.spec.name)
				out.origText[p] = g.text
				if !write(p, g.text) {
					return out
				}
			}
			// ---- first stage ---------------------------------------------------------
			var inter string
			var im inputMapJSON
			content := api.SourcesContentInclude
			minWS := (sc.ID+k)%2 == 1
			fp := map[string]interface{}{"file": name, "origin": d.Origin}
			switch {
			case d.Origin == "transform":
				tr := api.Transform(a.text, api.TransformOptions{Sourcefile: origName(0), Sourcemap: api.SourceMapExternal, SourcesContent: content,
					MinifyWhitespace: minWS, MinifyIdentifiers: d.Names, LogLevel: api.LogLevelSilent})
				out.nBuilds++
				if len(tr.Errors) > 0 {
					out.infra = "first stage (transform) failed: " + tr.Errors[0].Text
					return out
				}
				inter = string(tr.Code)
				if json.Unmarshal(tr.Map, &im) != nil {
					out.infra = "first stage map is not JSON"
					return out
				}
				fp["minifyWhitespace"], fp["minifyIdentifiers"] = minWS, d.Names
			case !hand:
				o := api.BuildOptions{AbsWorkingDir: root, EntryPoints: []string{"src/" + origName(0)}, Outfile: "src/" + name, Bundle: true, Write: false,
					Format: api.FormatESModule, Sourcemap: api.SourceMapExternal, SourcesContent: content, MinifyWhitespace: minWS, MinifyIdentifiers: d.Names,
					External: []string{"./f*"}, LogLevel: api.LogLevelSilent}
				br := api.Build(o)
				out.nBuilds++
				if len(br.Errors) > 0 {
					out.infra = "first stage (bundle) failed: " + br.Errors[0].Text
					return out
				}
				for _, f := range br.OutputFiles {
					if strings.HasSuffix(f.Path, ".map") {
						if json.Unmarshal(f.Contents, &im) != nil {
							out.infra = "first stage map is not JSON"
							return out
						}
					} else {
						inter = string(f.Contents)
					}
				}
				if len(im.Sources) != d.Nsrc {
					out.infra = fmt.Sprintf("first stage bundle lists %d sources, the descriptor says %d", len(im.Sources), d.Nsrc)
					return out
				}
				fp["minifyWhitespace"], fp["minifyIdentifiers"] = minWS, d.Names
			default:
				var mp string
				inter, mp, im.Names = handBuild(m, origs, d)
				im.Version = 3
				im.Mappings = mp
				if im.Names == nil {
					im.Names = []string{}
				}
				for _, g := range origs {
					im.Sources = append(im.Sources, g.spec.name)
					t := g.text
					im.SourcesContent = append(im.SourcesContent, &t)
				}
			}
			im.File = ""
			if d.Content != "embedded" {
				im.SourcesContent = nil
			}
			if d.Root {
				im.SourceRoot = inputSourceRoot
			}
			// the names the final map must use for this file's sources, in the input map's order
			var finalNames []string
			for _, s := range im.Sources {
				p := filepath.Join(src, filepath.FromSlash(s))
				if _, ok := out.origText[p]; !ok {
					out.infra = fmt.Sprintf("first stage map of %s names %q, which is no original", name, s)
					return out
				}
				finalNames = append(finalNames, relOut(p))
			}
			mj, _ := json.Marshal(im)
			text := inter
			if !strings.HasSuffix(text, "\n") {
				text += "\n"
			}
			if d.Carrier == "inline" {
				text += "//# sourceMappingURL=data:application/json;base64," + base64.StdEncoding.EncodeToString(mj) + "\n"
			} else {
				text += "//# sourceMappingURL=" + name + ".map\n"
				out.disk[abs+".map"] = string(mj)
				if !write(abs+".map", string(mj)) {
					return out
				}
			}
			out.disk[abs] = text
			if !write(abs, text) {
				return out
			}
			for _, g := range origs {
				p := filepath.Join(src, g.spec.name)
				if d.Content == "missing" {
					os.Remove(p)
					out.nullOK = append(out.nullOK, relOut(p))
				} else {
					out.disk[p] = g.text
				}
			}
			out.inters = append(out.inters, interInfo{File: name, Text: inter, Map: string(mj), Sources: finalNames, Exact: d.TokenExact, Renames: d.Names && !hand})
			out.groups = append(out.groups, sourceGroup{File: name, Sources: finalNames})
			fp["intermediate"] = inter
			fp["inputMap"] = string(mj)
			out.firstPass = append(out.firstPass, fp)
		}
		if !entry {
			g := slots[k].gen
			local := g.expFn
			if k == 0 {
				local = m.id("alias")
			}
			depImports = append(depImports, importSpec{from: "./" + name, names: [][2]string{{g.expFn, local}, {g.expCls, g.expCls}}})
			if sc.Pattern[k] == "I" && sc.InMaps[k].Names && !strings.HasPrefix(sc.InMaps[k].Origin, "hand") {
				// the first stage renamed the declarations: a use of the import in another file
				// is printed with the intermediate name, which no marker identifies
				out.renamed = append(out.renamed, g.expFn, local, g.expCls)
			}
		}
	}
	// entry first, as runScenario expects
	out.files = append(out.files, genFile{spec: fileSpec{name: "f0.js"}})
	for k := 0; k < n-1; k++ {
		out.files = append(out.files, genFile{spec: fileSpec{name: slots[k].name}})
	}
	sort.Strings(out.nullOK)
	return out
}
