package c07

// Two further replay families of C07 (SourceMapGen.tla CssConfigs / TsConfigs):
//
//	css: a CSS bundle (entry imports two files; optionally one of them twice under
//	     different conditions, so that one file occurs twice among the results of
//	     the output file and shares its slot in "sources"; optionally one file
//	     carries a hand-built two-source input map), checked token by token on
//	     marker class names / custom properties / strings;
//	ts:  TypeScript / TSX inputs (type annotations, generics, interfaces, optional
//	     parameters, JSX elements) transformed or bundled: erased types must not
//	     move the columns of what remains.
import (
	"encoding/base64"
	"encoding/json"
	"fmt"
	"os"
	"path/filepath"
	"strings"

	"github.com/evanw/esbuild/pkg/api"

	"verifharness/core"
)

type extraCfg struct {
	Kind    string `json:"kind"`
	Minify  string `json:"minify"`
	Content bool   `json:"content"`
	Dup     bool   `json:"dup"`   // css: one file is imported twice
	Inmap   string `json:"inmap"` // css: none / first / middle: which dependency carries a 2-source input map
	Mode    string `json:"mode"`  // ts: transform / bundle
	Jsx     bool   `json:"jsx"`   // ts: a .tsx file with JSX elements
}

func (e extraCfg) name() string {
	if e.Kind == "css" {
		return fmt.Sprintf("css/min-%s/c%v/dup%v/in-%s", e.Minify, e.Content, e.Dup, e.Inmap)
	}
	return fmt.Sprintf("ts/%s/min-%s/c%v/jsx%v", e.Mode, e.Minify, e.Content, e.Jsx)
}

func makeCss(m *markers, name, layout string, imports []string) genFile {
	g := genFile{spec: fileSpec{name: name, layout: layout}, nl: "\n"}
	ind := "  "
	if layout == "tabs" {
		ind = "\t"
	}
	if layout == "crlf" {
		g.nl = "\r\n"
	}
	var L []string
	add := func(s ...string) { L = append(L, strings.Join(s, "")) }
	unit := func() { g.units = append(g.units, len(L)) }
	for _, im := range imports {
		unit()
		add("@import ", im, ";")
	}
	if layout == "banner" {
		unit()
		add("/* a comment of ", name)
		add("   over two lines */")
	}
	pre := ""
	if layout == "astral" {
		pre = "/* \U0001F600\U0001F600 */ "
	}
	unit()
	add(pre, ".", m.id("a"), " { color: red; --", m.id("p"), ": 1px; width: 10px }")
	unit()
	add("@media (min-width: 100px) {")
	add(ind, ".", m.id("b"), " > .", m.id("c"), ", #", m.id("d"), " { margin: 0 0 0 0; background: url(data:text/plain,", m.raw(), ") }")
	add("}")
	unit()
	add(pre, "@keyframes ", m.id("k"), " { from { opacity: 0 } to { opacity: 1 } }")
	unit()
	add(".", m.id("e"), "::after { content: ", m.dstr(), "; color: #ff0000; animation-name: ", m.id("k2"), " }")
	g.lines = L
	g.text = strings.Join(L, g.nl) + g.nl
	return g
}

func makeTs(m *markers, name string, tsx, jsx bool, imports []importSpec, exports bool) genFile {
	g := genFile{spec: fileSpec{name: name}, aliases: map[string]string{}, nl: "\n"}
	var L []string
	add := func(s ...string) { L = append(L, strings.Join(s, "")) }
	for _, im := range imports {
		var items []string
		for _, p := range im.names {
			if p[0] == p[1] {
				items = append(items, p[0])
			} else {
				items = append(items, p[0]+" as "+p[1])
				g.aliases[p[1]] = p[0]
			}
		}
		add("import { ", strings.Join(items, ", "), " } from '", im.from, "'")
	}
	exp := ""
	if exports {
		exp = "export "
	}
	cast := func(x string) string { // the angle-bracket cast is no TSX syntax
		if tsx {
			return x + " as any"
		}
		return "<any>" + x
	}
	V, F, P, Q, C, T := m.id("v"), m.id("f"), m.id("p"), m.id("q"), m.id("C"), m.id("T")
	g.expFn, g.expCls = F, C
	add("interface ", T, "<A> { ", m.id("m"), ": A; ", m.id("n"), "?: Array<string> }")
	add("type ", m.id("U"), " = ", T, "<number> | null")
	add("const ", V, ": ", T, "<string> = ", m.id("g"), "<", T, "<string>>(", m.str(), ", ", m.dstr(), " as unknown as string, ", m.str(), ")")
	add(exp, "function ", F, "<A extends object>(", P, ": A, ", Q, "?: Array<string>): ", T, "<A> | undefined {")
	add("  if (", P, ") return ", Q, "! as any + `", m.raw(), "${", P, "}", m.raw(), "`;")
	add("  return new (", m.id("g"), " as any).", m.id("h"), "<string>(", m.str(), ", ", cast(m.str()), ")")
	add("}")
	add(exp, "class ", C, "<X = number> extends ", m.id("B"), " implements ", T, "<X> { private readonly ", m.id("m"), ": X = ", m.str(), " as any; public ", m.id("n"), "?: Array<string>; ", m.id("r"), "(this: ", C, "<X>, ", m.id("a"), ": X): X { return this.", m.id("m"), " ?? ", m.id("a"), " } }")
	if jsx {
		add("const ", m.id("el"), " = <div className={", m.id("cn"), "} title=", m.dstr(), ">{", F, "(", V, ", [", m.str(), "])}<", m.id("Comp"), " ", m.id("prop"), "={", m.str(), "} /></div>")
	}
	add(F, "<", T, "<string>>(", V, ", [", m.str(), "] as string[]);")
	for _, im := range imports {
		var args []string
		for _, p := range im.names {
			args = append(args, p[1])
		}
		add(m.id("g"), "(", strings.Join(args, ", "), ", ", m.str(), " as const);")
	}
	g.lines = L
	g.text = strings.Join(L, "\n") + "\n"
	return g
}

func runExtraScenario(r *core.Run, sc *scenario) *built {
	e := sc.Extra
	res := &built{}
	root := filepath.Join(r.Scratch, fmt.Sprintf("s%d", sc.ID))
	src := filepath.Join(root, "src")
	os.MkdirAll(src, 0755)
	defer os.RemoveAll(root)
	m := &markers{}
	disk := map[string]string{}
	origText := map[string]string{}
	write := func(name, text string) {
		disk[name] = text
		os.WriteFile(filepath.Join(src, name), []byte(text), 0644)
	}
	lay := func(i int) string { return sc.Layouts[i%len(sc.Layouts)] }
	minWS, minSyn, minID := e.Minify != "none", e.Minify == "all", e.Minify == "all"
	content := api.SourcesContentInclude
	if !e.Content {
		content = api.SourcesContentExclude
	}
	expect := map[string]interface{}{"sourcesContent": e.Content, "everySourceMapped": true, "sourceRoot": nil}
	aliases := map[string]string{}
	var groups []sourceGroup
	var entry string
	kind := ""
	opts := map[string]interface{}{}
	if e.Kind == "css" {
		kind = "css"
		entry = "a.css"
		deps := []string{"b.css", "c.css"}
		var imports []string
		for i, d := range deps {
			imports = append(imports, `"./`+d+`"`)
			if e.Dup && i == 0 {
				imports[i] += " screen"
			}
		}
		if e.Dup {
			imports = append(imports, `"./b.css" print`)
			expect["importConditions"] = true
		}
		for i, d := range deps {
			withMap := (e.Inmap == "first" && i == 0) || (e.Inmap == "middle" && i == 1)
			if !withMap {
				g := makeCss(m, d, lay(i+1), nil)
				write(d, g.text)
				origText[d] = g.text
				groups = append(groups, sourceGroup{File: d, Sources: []string{"../src/" + d}})
				continue
			}
			o1 := makeCss(m, fmt.Sprintf("o%d1.css", i), lay(i+1), nil)
			o2 := makeCss(m, fmt.Sprintf("o%d2.css", i), lay(i+2), nil)
			text, mp, _ := handBuild(m, []genFile{o1, o2}, inMap{Sparse: "full"})
			im := inputMapJSON{Version: 3, Sources: []string{o1.spec.name, o2.spec.name}, Names: []string{}, Mappings: mp}
			mj, _ := json.Marshal(im)
			// CSS: the comment form is /*# sourceMappingURL=... */
			if sc.ID%2 == 0 {
				write(d, text+"/*# sourceMappingURL=data:application/json;base64,"+base64.StdEncoding.EncodeToString(mj)+" */\n")
			} else {
				write(d, text+"/*# sourceMappingURL="+d+".map */\n")
				write(d+".map", string(mj))
			}
			for _, o := range []genFile{o1, o2} {
				write(o.spec.name, o.text)
				origText[o.spec.name] = o.text
			}
			groups = append(groups, sourceGroup{File: d, Sources: []string{"../src/" + o1.spec.name, "../src/" + o2.spec.name}})
		}
		g := makeCss(m, entry, lay(0), imports)
		write(entry, g.text)
		origText[entry] = g.text
		groups = append(groups, sourceGroup{File: entry, Sources: []string{"../src/" + entry}})
	} else {
		ext := ".ts"
		if e.Jsx {
			ext = ".tsx"
		}
		entry = "f0" + ext
		opts["looseSources"] = true
		var imps []importSpec
		if e.Mode == "bundle" {
			for i := 1; i <= 2; i++ {
				name := fmt.Sprintf("f%d%s", i, ext)
				g := makeTs(m, name, e.Jsx, e.Jsx && i == 1, nil, true)
				write(name, g.text)
				origText[name] = g.text
				local := g.expFn
				if i == 1 {
					local = m.id("alias")
				}
				imps = append(imps, importSpec{from: "./f" + fmt.Sprint(i), names: [][2]string{{g.expFn, local}, {g.expCls, g.expCls}}})
				groups = append(groups, sourceGroup{File: name, Sources: []string{"../src/" + name}})
			}
		}
		g := makeTs(m, entry, e.Jsx, e.Jsx, imps, false)
		for k, v := range g.aliases {
			aliases[k] = v
		}
		write(entry, g.text)
		origText[entry] = g.text
		groups = append(groups, sourceGroup{File: entry, Sources: []string{"../src/" + entry}})
	}
	res.replay = map[string]interface{}{"scenario": sc, "files": disk}
	var code, mp string
	files := map[string]string{}
	if e.Kind == "ts" && e.Mode == "transform" {
		loader := api.LoaderTS
		if e.Jsx {
			loader = api.LoaderTSX
		}
		tr := api.Transform(origText[entry], api.TransformOptions{Sourcefile: entry, Loader: loader, Sourcemap: api.SourceMapExternal, SourcesContent: content,
			MinifyWhitespace: minWS, MinifySyntax: minSyn, MinifyIdentifiers: minID, LogLevel: api.LogLevelSilent})
		res.nBuilds++
		if len(tr.Errors) > 0 {
			res.infra = "transform failed: " + tr.Errors[0].Text
			return res
		}
		code, mp = string(tr.Code), string(tr.Map)
		files[entry] = origText[entry]
	} else {
		o := api.BuildOptions{AbsWorkingDir: root, EntryPoints: []string{"src/" + entry}, Outdir: "out", Outbase: "src", Bundle: true, Write: false,
			Sourcemap: api.SourceMapExternal, SourcesContent: content, MinifyWhitespace: minWS, MinifySyntax: minSyn, MinifyIdentifiers: minID,
			Format: api.FormatESModule, External: []string{"react", "react/jsx-runtime"}, LogLevel: api.LogLevelSilent}
		br := api.Build(o)
		res.nBuilds++
		if len(br.Errors) > 0 {
			res.infra = "build failed: " + br.Errors[0].Text
			return res
		}
		for _, f := range br.OutputFiles {
			if strings.HasSuffix(f.Path, ".map") {
				mp = string(f.Contents)
			} else {
				code = string(f.Contents)
			}
		}
		for n, t := range origText {
			files["../src/"+n] = t
		}
		expect["groups"] = groups
	}
	if mp == "" {
		res.problems = append(res.problems, problem{"map-missing", "no map emitted"})
		return res
	}
	res.jobs = append(res.jobs, &job{ID: fmt.Sprintf("%d:%s", sc.ID, entry), Kind: kind, Code: code, Map: mp, Files: files, Expect: expect, Opts: opts, Aliases: aliases, scen: sc, out: entry})
	return res
}
