package c07

import (
	"fmt"
	"strings"
)

// markers hands out the unique marker identifiers / strings of one scenario.
// Every token of interest in a generated file is a marker, so that "the token
// at the generated position is the translation of the token at the original
// position" is a comparison of marker texts.
type markers struct{ n int }

func (m *markers) id(suffix string) string { m.n++; return fmt.Sprintf("mk_%d_%s", m.n, suffix) }
func (m *markers) str() string             { m.n++; return fmt.Sprintf("'mk_%d'", m.n) }
func (m *markers) dstr() string            { m.n++; return fmt.Sprintf("\"mk_%d\"", m.n) }
func (m *markers) raw() string             { m.n++; return fmt.Sprintf("mk_%d", m.n) }

type importSpec struct {
	from  string      // "./f1.js"
	names [][2]string // exported name, local name
}

type fileSpec struct {
	name    string // file name below src/
	layout  string
	imports []importSpec
	dynamic string // "./lazy.js" or ""
	exports bool
}

type genFile struct {
	spec    fileSpec
	text    string
	expFn   string // exported function
	expCls  string // exported class
	aliases map[string]string
	units   []int // indices (into lines) where a top-level unit (statement / comment block) starts
	lines   []string
	nl      string
}

// layoutParams: indentation unit, token separator, line terminator
func layoutParams(layout string) (ind, sep, nl string) {
	switch layout {
	case "tabs":
		return "\t", "\t", "\n"
	case "crlf":
		return "  ", " ", "\r\n"
	}
	return "  ", " ", "\n"
}

// filler returns an expression that is placed BEFORE marker tokens on the same
// line; it is what makes line/column accounting of the layout class matter.
func filler(m *markers, layout string, k int) string {
	switch layout {
	case "ls":
		// a raw U+2028 / U+2029 inside a string literal (legal since ES2019): a line
		// terminator for source-map positions in the middle of a statement
		if k%2 == 0 {
			return "'a\u2028b'"
		}
		return "\"c\u2029d\""
	case "astral":
		if k%2 == 0 {
			return "'\U0001F600\U0001F600'"
		}
		return "/* \U0001F600 */ '\U0001F680x'"
	case "long":
		var sb strings.Builder
		sb.WriteString("[")
		for i := 0; i < 36; i++ {
			if i > 0 {
				sb.WriteString(", ")
			}
			sb.WriteString(m.str())
		}
		sb.WriteString("]")
		return sb.String()
	}
	return m.str()
}

// makeFile renders one file. fnName/clsName of imported files are given by the
// caller through spec.imports.
func makeFile(m *markers, spec fileSpec) genFile {
	ind, S, nl := layoutParams(spec.layout)
	g := genFile{spec: spec, aliases: map[string]string{}}
	var L []string
	add := func(parts ...string) { L = append(L, strings.Join(parts, "")) }
	unit := func() { g.units = append(g.units, len(L)) }
	if spec.layout == "banner" {
		unit()
		add("// leading comment line one of ", spec.name)
		unit()
		add("/* a block comment")
		add("   that spans lines */")
		add("")
		unit()
		add("// and another one")
	}
	if spec.layout == "astral" {
		unit()
		add("// \U0001F600 an astral comment line")
	}
	for _, im := range spec.imports {
		unit()
		var items []string
		for _, p := range im.names {
			if p[0] == p[1] {
				items = append(items, p[0])
			} else {
				items = append(items, p[0]+" as "+p[1])
				g.aliases[p[1]] = p[0]
			}
		}
		add("import", S, "{", S, strings.Join(items, ","+S), S, "}", S, "from", S, "'", im.from, "'")
	}
	exp := ""
	if spec.exports {
		exp = "export" + S
	}
	V := m.id("v")
	G1 := m.id("g")
	F := m.id("f")
	P := m.id("p")
	Q := m.id("q")
	X := m.id("i")
	C := m.id("C")
	g.expFn, g.expCls = F, C
	pre := ""
	if spec.layout == "astral" {
		pre = "/* \U0001F600\U0001F600 */ "
	}
	unit()
	add("var", S, V, S, "=", S, G1, "(", filler(m, spec.layout, 0), ",", S, m.str(), ",", S, m.dstr(), ");")
	unit()
	add(exp, "function", S, F, "(", P, ",", S, Q, ")", S, "{")
	add(ind, "if", S, "(", P, ")", S, "return", S, Q, S, "+", S, "`", m.raw(), "${", P, "}", m.raw(), "`;")
	add(ind, "for", S, "(let", S, X, S, "of", S, V, ".", m.id("prop"), ")", S, "{", S, F, "(", X, ",", S, filler(m, spec.layout, 1), ",", S, m.str(), ");", S, "}")
	add(ind, "return", S, "new", S, m.id("g"), ".", m.id("h"), "(", filler(m, spec.layout, 2), ",", S, m.str(), ")")
	add("}")
	unit()
	add(exp, "class", S, C, S, "extends", S, m.id("B"), S, "{", S, m.id("m"), "()", S, "{", S, "return", S, "this.", m.id("f"), "?.[", m.str(), "]", S, "}", S, "static", S, m.id("s"), S, "=", S, m.str(), S, "}")
	unit()
	add(pre, F, "(", V, ",", S, "{", S, m.id("k"), ":", S, C, ",", S, m.str(), ":", S, "[", m.id("g"), ",", S, filler(m, spec.layout, 3), ",", S, m.str(), "]", S, "});")
	for _, im := range spec.imports {
		var args []string
		for _, p := range im.names {
			args = append(args, p[1])
		}
		unit()
		add(pre, m.id("g"), "(", strings.Join(args, ","+S), ",", S, filler(m, spec.layout, 4), ",", S, m.str(), ");")
	}
	if spec.dynamic != "" {
		unit()
		add("import('", spec.dynamic, "').then(", m.id("y"), S, "=>", S, m.id("g"), "(", m.str(), ",", S, filler(m, spec.layout, 5), "));", S, m.id("g"), "(", m.str(), ");")
	}
	g.text = strings.Join(L, nl) + nl
	g.lines, g.nl = L, nl
	return g
}
