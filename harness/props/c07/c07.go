// Package c07: source maps point every generated token at its true origin.
//
// Spec: SourceMap.tla (text offsets = LineColumnOffset, delta streams, Join =
// AppendSourceMapChunk inside the loop of generateSourceMapForChunk, Shift =
// substituteFinalPaths + Finalize; TLC checks Decode(Joined) = Rebased(chunks)
// etc. on all small instances), SourceMapGen.tla (scenario family, enumerated
// by TLC), SourceMapState.tla (the spec's Join run by TLC on chunks recorded
// from real bundles and compared with the real delta stream).
//
// Binding (R): every scenario is materialised as files in which every token
// of interest is a unique marker, built with the real api.Build/Transform and
// every emitted map is checked by node/smap_check.js (independent VLQ decoder,
// ECMAScript line table, acorn tokens): well-formedness, truth of every
// mapping, names, sourcesContent; inline/linked/external/both agree;
// composition through a first esbuild run; bundle mappings = stand-alone
// mappings re-based by the file's start offset.
package c07

import (
	"encoding/base64"
	"encoding/json"
	"fmt"
	"os"
	"path/filepath"
	"sort"
	"strings"
	"sync"
	"time"

	"github.com/evanw/esbuild/pkg/api"

	"verifharness/core"
	"verifharness/nodex"
	"verifharness/tlcrun"
)

type config struct {
	Mode        string `json:"mode"`
	Format      string `json:"format"`
	Minify      string `json:"minify"`
	Banner      bool   `json:"banner"`
	Root        bool   `json:"root"`
	Content     bool   `json:"content"`
	Sm          string `json:"sm"`
	Names       string `json:"names"`
	Compose     bool   `json:"compose"`
	Kind        string `json:"kind"`
	CanShift    bool   `json:"canShift"`
	Rebasable   bool   `json:"rebasable"`
	OneLine     bool   `json:"oneLine"`
	RebasableIn bool   `json:"rebasableIn"`
}

type layoutTuple struct {
	Kind  string   `json:"kind"`
	Files []string `json:"files"`
}

type scenario struct {
	ID      int       `json:"id"`
	Cfg     config    `json:"config"`
	Layouts []string  `json:"layouts"`
	UTF8    bool      `json:"utf8"`              // charset=utf8: non-ASCII characters stay raw in the generated code
	Special string    `json:"special,omitempty"` // replayed model counterexample
	BannerX string    `json:"bannerText,omitempty"`
	Pattern []string  `json:"pattern,omitempty"` // input-map family: "P"/"I" per file in output order (deps, entry)
	InMaps  []inMap   `json:"inmaps,omitempty"`  // one descriptor per position (zero value for "P")
	Family  string    `json:"family,omitempty"`  // "", "inmap", "css", "ts"
	Extra   *extraCfg `json:"extra,omitempty"`   // css / ts families
}

func (s scenario) name() string {
	c := s.Cfg
	u := ""
	if s.UTF8 {
		u = "/utf8"
	}
	if s.Extra != nil {
		return s.Extra.name() + "/" + strings.Join(s.Layouts, "+")
	}
	x := ""
	if len(s.Pattern) > 0 {
		x = "/" + strings.Join(s.Pattern, "") + "/" + inmapCodes(s.InMaps)
	}
	if s.Family != "" && s.Family != "inmap" {
		x += "/" + s.Family
	}
	return fmt.Sprintf("%s/%s/min-%s/b%v/r%v/c%v/%s/%s/x%v/%s%s%s%s", c.Mode, c.Format, c.Minify, c.Banner, c.Root, c.Content, c.Sm, c.Names, c.Compose, strings.Join(s.Layouts, "+"), u, s.Special, x)
}

func (s scenario) key(kind string) map[string]interface{} {
	if s.Extra != nil {
		return map[string]interface{}{"kind": kind, "family": s.Family, "extra": s.Extra.name(), "layouts": strings.Join(s.Layouts, "+")}
	}
	c := s.Cfg
	k := map[string]interface{}{"kind": kind, "mode": c.Mode, "format": c.Format, "minify": c.Minify, "banner": c.Banner, "root": c.Root,
		"content": c.Content, "sm": c.Sm, "names": c.Names, "compose": c.Compose, "layouts": strings.Join(s.Layouts, "+"), "utf8": s.UTF8}
	if s.Special != "" {
		k["special"] = s.Special
	}
	if len(s.Pattern) > 0 {
		k["pattern"] = strings.Join(s.Pattern, "")
		k["inmaps"] = inmapCodes(s.InMaps)
	}
	if s.Family != "" {
		k["family"] = s.Family
	}
	return k
}

type job struct {
	ID      string                 `json:"id"`
	Kind    string                 `json:"kind,omitempty"`
	Code    string                 `json:"code,omitempty"`
	Map     string                 `json:"map,omitempty"`
	Files   map[string]string      `json:"files,omitempty"`
	Expect  map[string]interface{} `json:"expect,omitempty"`
	Opts    map[string]interface{} `json:"opts,omitempty"`
	Aliases map[string]string      `json:"aliases,omitempty"`
	Bundle  *codeMap               `json:"bundle,omitempty"`
	Alone   []aloneBuild           `json:"alone,omitempty"`
	Inter   []interInfo            `json:"inter,omitempty"`
	Groups  []sourceGroup          `json:"groups,omitempty"`
	Renamed []string               `json:"renamed,omitempty"`
	scen    *scenario
	out     string
}

type codeMap struct {
	Code string `json:"code"`
	Map  string `json:"map"`
}

type aloneBuild struct {
	Source  string   `json:"source"`
	Sources []string `json:"sources"` // the file's own sources in order (one entry without an input map)
	Code    string   `json:"code"`
	Map     string   `json:"map"`
}

type jobError struct {
	Kind string `json:"kind"`
	Msg  string `json:"msg"`
}

type jobResult struct {
	ID       string           `json:"id"`
	Errors   []jobError       `json:"errors"`
	Stats    map[string]int64 `json:"stats"`
	Infra    string           `json:"infra"`
	Skipped  []string         `json:"skipped"`
	Compared int64            `json:"compared"`
	Record   json.RawMessage  `json:"record"`
}

const bannerText = "/* banner line one */\n/* banner line two \U0001F600 */"
const footerText = "/* footer */"
const sourceRoot = "https://example.com/root/"

func applyCommon(c config, bannerX string) (minWS, minID, minSyn bool, banner, footer, root string, sc api.SourcesContent, sm api.SourceMap) {
	switch c.Minify {
	case "ws":
		minWS = true
	case "all":
		minWS, minID, minSyn = true, true, true
	}
	if c.Banner {
		banner, footer = bannerText, footerText
	}
	if bannerX != "" {
		banner = bannerX
	}
	if c.Root {
		root = sourceRoot
	}
	sc = api.SourcesContentInclude
	if !c.Content {
		sc = api.SourcesContentExclude
	}
	switch c.Sm {
	case "inline":
		sm = api.SourceMapInline
	case "linked":
		sm = api.SourceMapLinked
	case "external":
		sm = api.SourceMapExternal
	case "both":
		sm = api.SourceMapInlineAndExternal
	}
	return
}

// extractInline returns the JSON of a trailing inline source map comment
func extractInline(code string) (string, bool) {
	const tag = "//# sourceMappingURL=data:application/json;base64,"
	i := strings.LastIndex(code, tag)
	if i < 0 {
		return "", false
	}
	rest := code[i+len(tag):]
	if j := strings.IndexAny(rest, "\r\n"); j >= 0 {
		rest = rest[:j]
	}
	b, err := base64.StdEncoding.DecodeString(rest)
	if err != nil {
		return "", false
	}
	return string(b), true
}

func linkedURL(code string) (string, bool) {
	const tag = "//# sourceMappingURL="
	i := strings.LastIndex(code, tag)
	if i < 0 {
		return "", false
	}
	rest := code[i+len(tag):]
	if j := strings.IndexAny(rest, "\r\n"); j >= 0 {
		rest = rest[:j]
	}
	return rest, true
}

type built struct {
	jobs     []*job
	problems []problem // violations found in Go (mode agreement, missing maps)
	infra    string
	nBuilds  int
	replay   map[string]interface{}
}

type problem struct {
	kind string
	msg  string
}

// materialise + build one scenario
func runScenario(r *core.Run, sc *scenario) *built {
	if sc.Extra != nil {
		return runExtraScenario(r, sc)
	}
	c := sc.Cfg
	res := &built{}
	root := filepath.Join(r.Scratch, fmt.Sprintf("s%d", sc.ID))
	src := filepath.Join(root, "src")
	os.MkdirAll(src, 0755)
	defer os.RemoveAll(root)
	m := &markers{}
	var files []genFile
	var inm *inmapFiles
	lay := func(i int) string { return sc.Layouts[i%len(sc.Layouts)] }
	switch c.Mode {
	case "transform":
		files = append(files, makeFile(m, fileSpec{name: "f0.js", layout: lay(0)}))
	case "bundle":
		if len(sc.Pattern) > 0 {
			inm = materialiseInmap(r, sc, root, src, m)
			res.nBuilds += inm.nBuilds
			if inm.infra != "" {
				res.infra = inm.infra
				return res
			}
			files = inm.files
			break
		}
		n := len(sc.Layouts)
		var deps []genFile
		for i := 1; i < n; i++ {
			deps = append(deps, makeFile(m, fileSpec{name: fmt.Sprintf("f%d.js", i), layout: lay(i), exports: true}))
		}
		var imps []importSpec
		for i, d := range deps {
			local := d.expFn
			if i == 0 {
				local = m.id("alias")
			}
			imps = append(imps, importSpec{from: "./" + d.spec.name, names: [][2]string{{d.expFn, local}, {d.expCls, d.expCls}}})
		}
		files = append(files, makeFile(m, fileSpec{name: "f0.js", layout: lay(0), imports: imps}))
		files = append(files, deps...)
	case "split":
		shared := makeFile(m, fileSpec{name: "shared.js", layout: lay(2), exports: true})
		lazy := makeFile(m, fileSpec{name: "lazy.js", layout: "plain", exports: true})
		e0 := makeFile(m, fileSpec{name: "e0.js", layout: lay(0), dynamic: "./lazy.js",
			imports: []importSpec{{from: "./shared.js", names: [][2]string{{shared.expFn, m.id("alias")}, {shared.expCls, shared.expCls}}}}})
		e1 := makeFile(m, fileSpec{name: "e1.js", layout: lay(1), dynamic: "./lazy.js",
			imports: []importSpec{{from: "./shared.js", names: [][2]string{{shared.expFn, shared.expFn}}}}})
		files = []genFile{e0, e1, shared, lazy}
	}
	aliases := map[string]string{}
	for _, f := range files {
		for k, v := range f.aliases {
			aliases[k] = v
		}
	}
	// texts of the files a map may name, by absolute path
	origText := map[string]string{}
	disk := map[string]string{}
	composeIdx := -1
	if inm != nil {
		for k, v := range inm.aliases {
			aliases[k] = v
		}
		for k, v := range inm.disk {
			disk[k] = v
		}
		for k, v := range inm.origText {
			origText[k] = v
		}
		files = nil // nothing else to materialise
	}
	if c.Compose && inm == nil {
		composeIdx = len(files) - 1
		if c.Mode == "split" {
			composeIdx = 2 // shared.js
		}
	}
	var firstPass map[string]interface{}
	for i, f := range files {
		p := filepath.Join(src, f.spec.name)
		if i == composeIdx {
			// composition: the file esbuild reads is the output of a first esbuild run
			// over the marker file, carrying its map inline
			origName := strings.TrimSuffix(f.spec.name, ".js") + ".orig.js"
			firstMin := sc.ID%2 == 1
			tr := api.Transform(f.text, api.TransformOptions{Sourcefile: origName, Sourcemap: api.SourceMapInline, MinifyWhitespace: firstMin, LogLevel: api.LogLevelSilent})
			res.nBuilds++
			if len(tr.Errors) > 0 {
				res.infra = fmt.Sprintf("first pass failed: %v", tr.Errors[0].Text)
				return res
			}
			disk[p] = string(tr.Code)
			origText[filepath.Join(src, origName)] = f.text
			disk[filepath.Join(src, origName)] = f.text
			firstPass = map[string]interface{}{"file": f.spec.name, "minifyWhitespace": firstMin, "intermediate": string(tr.Code)}
			continue
		}
		disk[p] = f.text
		origText[p] = f.text
	}
	for p, t := range disk {
		if err := os.WriteFile(p, []byte(t), 0644); err != nil {
			res.infra = err.Error()
			return res
		}
	}
	res.replay = map[string]interface{}{"scenario": sc, "files": disk, "firstPass": firstPass}
	groupOf := map[string][]string{} // stage-2 file name -> its sources in the final map
	if inm != nil {
		files = inm.files
		res.replay["firstPass"] = inm.firstPass
		for _, g := range inm.groups {
			groupOf[g.File] = g.Sources
		}
	}
	minWS, minID, minSyn, banner, footer, sroot, scontent, smode := applyCommon(c, sc.BannerX)
	charset := api.CharsetDefault
	if sc.UTF8 {
		charset = api.CharsetUTF8
	}
	expect := func() map[string]interface{} {
		e := map[string]interface{}{"sourcesContent": c.Content, "everySourceMapped": true}
		if c.Root {
			e["sourceRoot"] = sourceRoot
		} else {
			e["sourceRoot"] = nil
		}
		if inm != nil {
			e["groups"] = inm.groups
			e["nullContent"] = inm.nullOK
		}
		return e
	}
	// the sources entries a map in directory dir should use
	filesFor := func(dir string) map[string]string {
		out := map[string]string{}
		for abs, t := range origText {
			rel, err := filepath.Rel(dir, abs)
			if err != nil {
				continue
			}
			out[filepath.ToSlash(rel)] = t
		}
		return out
	}
	addJob := func(out, code, mp string, fl map[string]string) {
		j := &job{ID: fmt.Sprintf("%d:%s", sc.ID, out), Code: code, Map: mp, Files: fl, Expect: expect(), Aliases: aliases, scen: sc, out: out}
		if inm != nil {
			j.Inter = inm.inters
			j.Renamed = inm.renamed
		}
		res.jobs = append(res.jobs, j)
	}
	canon := func(mp string) string {
		var v map[string]interface{}
		if json.Unmarshal([]byte(mp), &v) != nil {
			return "undecodable:" + mp
		}
		b, _ := json.Marshal(v)
		return string(b)
	}

	if c.Mode == "transform" {
		f := files[0]
		input := disk[filepath.Join(src, f.spec.name)]
		mk := func(sm api.SourceMap) api.TransformResult {
			res.nBuilds++
			return api.Transform(input, api.TransformOptions{Sourcefile: f.spec.name, Sourcemap: sm, SourcesContent: scontent, SourceRoot: sroot,
				MinifyWhitespace: minWS, MinifyIdentifiers: minID, MinifySyntax: minSyn, Banner: banner, Footer: footer, Charset: charset, LogLevel: api.LogLevelSilent})
		}
		tr := mk(smode)
		if len(tr.Errors) > 0 {
			res.infra = "transform failed: " + tr.Errors[0].Text
			return res
		}
		fl := map[string]string{}
		for abs, t := range origText {
			fl[filepath.Base(abs)] = t
		}
		code := string(tr.Code)
		var mp string
		inl, hasInl := extractInline(code)
		switch c.Sm {
		case "inline":
			if !hasInl {
				res.problems = append(res.problems, problem{"map-missing", "no inline source map comment in the transformed code"})
				return res
			}
			mp = inl
		case "external":
			mp = string(tr.Map)
			if hasInl {
				res.problems = append(res.problems, problem{"mode", "external mode but the code carries an inline map"})
			}
		case "both":
			mp = string(tr.Map)
			if !hasInl || canon(inl) != canon(mp) {
				res.problems = append(res.problems, problem{"mode-disagree", "inline and external map of one transform differ"})
			}
		}
		if mp == "" {
			res.problems = append(res.problems, problem{"map-missing", "no map returned by the transform"})
			return res
		}
		addJob("f0.js", code, mp, fl)
		if c.Sm != "external" {
			ref := mk(api.SourceMapExternal)
			if len(ref.Errors) == 0 && canon(string(ref.Map)) != canon(mp) {
				res.problems = append(res.problems, problem{"mode-disagree", fmt.Sprintf("the %s map differs from the external map of the same transform", c.Sm)})
			}
		}
		return res
	}

	// bundle / split
	outdir := filepath.Join(root, "out")
	base := api.BuildOptions{
		AbsWorkingDir: root, Outdir: "out", Outbase: "src", Bundle: true, Write: false, LogLevel: api.LogLevelSilent,
		SourcesContent: scontent, SourceRoot: sroot, MinifyWhitespace: minWS, MinifyIdentifiers: minID, MinifySyntax: minSyn, Charset: charset,
	}
	if banner != "" {
		base.Banner = map[string]string{"js": banner}
	}
	if footer != "" {
		base.Footer = map[string]string{"js": footer}
	}
	switch c.Format {
	case "esm":
		base.Format = api.FormatESModule
	case "iife":
		base.Format = api.FormatIIFE
	case "cjs":
		base.Format = api.FormatCommonJS
	}
	if c.Mode == "split" {
		base.Splitting = true
		base.EntryPoints = []string{"src/e0.js", "src/e1.js"}
		if c.Names == "long" {
			base.EntryNames = "entries/deep/[name]-entry-with-a-long-name-[hash]"
			base.ChunkNames = "chunks/deeper/still/[name]-a-rather-long-chunk-name-[hash]"
		} else {
			base.EntryNames = "[name]"
			base.ChunkNames = "c-[hash]"
		}
	} else {
		base.EntryPoints = []string{"src/f0.js"}
	}
	build := func(sm api.SourceMap, entry []string) api.BuildResult {
		o := base
		o.Sourcemap = sm
		if entry != nil {
			o.EntryPoints = entry
		}
		res.nBuilds++
		return api.Build(o)
	}
	br := build(smode, nil)
	if len(br.Errors) > 0 {
		res.infra = "build failed: " + br.Errors[0].Text
		return res
	}
	outs := map[string]string{}
	var jsFiles []string
	for _, f := range br.OutputFiles {
		outs[f.Path] = string(f.Contents)
		if strings.HasSuffix(f.Path, ".js") {
			jsFiles = append(jsFiles, f.Path)
		}
	}
	sort.Strings(jsFiles)
	var canonMaps []string
	var mainCode, mainMap string
	for _, p := range jsFiles {
		code := outs[p]
		rel, _ := filepath.Rel(outdir, p)
		rel = filepath.ToSlash(rel)
		ext, hasExt := outs[p+".map"]
		inl, hasInl := extractInline(code)
		var mp string
		switch c.Sm {
		case "inline":
			if !hasInl || hasExt {
				res.problems = append(res.problems, problem{"map-missing", rel + ": inline mode needs an inline comment and no .map file"})
				continue
			}
			mp = inl
		case "linked":
			url, ok := linkedURL(code)
			if !hasExt || !ok || url != filepath.Base(p)+".map" {
				res.problems = append(res.problems, problem{"map-missing", fmt.Sprintf("%s: linked mode needs a .map file and a sourceMappingURL comment naming it (found %q)", rel, url)})
				continue
			}
			mp = ext
		case "external":
			if !hasExt || hasInl {
				res.problems = append(res.problems, problem{"map-missing", rel + ": external mode needs a .map file and no inline comment"})
				continue
			}
			if _, ok := linkedURL(code); ok {
				res.problems = append(res.problems, problem{"mode", rel + ": external mode but the code has a sourceMappingURL comment"})
			}
			mp = ext
		case "both":
			if !hasExt || !hasInl {
				res.problems = append(res.problems, problem{"map-missing", rel + ": inline+external mode needs both"})
				continue
			}
			if canon(inl) != canon(ext) {
				res.problems = append(res.problems, problem{"mode-disagree", rel + ": inline and external map differ"})
			}
			mp = ext
		}
		addJob(rel, code, mp, filesFor(filepath.Dir(p)))
		canonMaps = append(canonMaps, canon(mp))
		if mainCode == "" {
			mainCode, mainMap = code, mp
		}
	}
	if len(res.jobs) == 0 {
		res.problems = append(res.problems, problem{"map-missing", "the build emitted no JavaScript output with a map"})
		return res
	}
	// the same build with external maps must give the same maps
	if c.Sm != "external" {
		ref := build(api.SourceMapExternal, nil)
		var refMaps []string
		for _, f := range ref.OutputFiles {
			if strings.HasSuffix(f.Path, ".js.map") {
				refMaps = append(refMaps, canon(string(f.Contents)))
			}
		}
		sort.Strings(refMaps)
		got := append([]string{}, canonMaps...)
		sort.Strings(got)
		if strings.Join(got, "\n") != strings.Join(refMaps, "\n") {
			res.problems = append(res.problems, problem{"mode-disagree", fmt.Sprintf("the %s maps differ from the external maps of the same build", c.Sm)})
		}
	}
	// re-basing relation: every non-entry file is also bundled alone with the same options
	if (c.Rebasable || (inm != nil && c.RebasableIn)) && len(files) > 1 && len(jsFiles) == 1 {
		rj := &job{ID: fmt.Sprintf("%d:rebase", sc.ID), Kind: "rebase", Bundle: &codeMap{Code: mainCode, Map: mainMap}, scen: sc, out: "rebase"}
		if inm != nil {
			rj.Groups = inm.groups
		} else {
			for _, f := range files {
				rj.Groups = append(rj.Groups, sourceGroup{File: f.spec.name, Sources: []string{"../src/" + f.spec.name}})
			}
		}
		for _, f := range files[1:] {
			ar := build(api.SourceMapExternal, []string{"src/" + f.spec.name})
			if len(ar.Errors) > 0 {
				continue
			}
			var ac, am string
			for _, of := range ar.OutputFiles {
				if strings.HasSuffix(of.Path, ".js") {
					ac = string(of.Contents)
				} else if strings.HasSuffix(of.Path, ".js.map") {
					am = string(of.Contents)
				}
			}
			if ac != "" && am != "" {
				ab := aloneBuild{Source: "../src/" + f.spec.name, Sources: []string{"../src/" + f.spec.name}, Code: ac, Map: am}
				if g, ok := groupOf[f.spec.name]; ok {
					ab.Sources = g
				}
				rj.Alone = append(rj.Alone, ab)
			}
		}
		if len(rj.Alone) > 0 {
			res.jobs = append(res.jobs, rj)
		}
	}
	return res
}

type recVerdict struct {
	I     int  `json:"i"`
	OK    bool `json:"ok"`
	Want  int  `json:"want"`
	Got   int  `json:"got"`
	Diff  int  `json:"diff"`
	SrcOK bool `json:"srcok"`
}

// validateRecords lets TLC run the spec's Join (LinkAll of SourceMap.tla) on the
// recorded chunks and compare the result with the real delta stream
func validateRecords(r *core.Run, recs []json.RawMessage, scens []*scenario) {
	if len(recs) == 0 {
		return
	}
	var sb strings.Builder
	for _, rc := range recs {
		sb.Write(rc)
		sb.WriteByte('\n')
	}
	if d := os.Getenv("C07_DUMP"); d != "" {
		os.WriteFile(filepath.Join(d, "c07records.ndjson"), []byte(sb.String()), 0644)
	}
	var verdicts []recVerdict
	res, err := tlcrun.Run(r, tlcrun.Options{Module: "SourceMapState", Config: "SourceMapState.cfg", Workers: 1, TimeoutSec: 900, XssMB: 256,
		Files: map[string]string{"c07records.ndjson": sb.String()},
		OnCase: func(raw []byte) {
			var v recVerdict
			if json.Unmarshal(raw, &v) == nil {
				verdicts = append(verdicts, v)
			}
		}})
	if err != nil {
		r.Infra("state validation failed to run: %v", err)
		return
	}
	if res.Violated != "" || len(verdicts) != len(recs) {
		r.Infra("state validation incomplete: %d verdicts for %d records (violated=%q)\n%s", len(verdicts), len(recs), res.Violated, res.Output)
		return
	}
	r.AddTraces(int64(len(recs)))
	for _, v := range verdicts {
		if v.OK || v.I < 1 || v.I > len(recs) {
			continue
		}
		sc := scens[v.I-1]
		what := ""
		if !v.SrcOK {
			what = "; the real sources array / the files' source index bases differ from SourcesPass of SourceMap.tla on the real per-file source counts"
		}
		r.Violation(sc.key("join-spec"), fmt.Sprintf("the delta stream of the real bundle map differs from Join/LinkAll of SourceMap.tla applied to the recorded chunks (scenario %s; first difference at item %d; %d items expected, %d real%s)", sc.name(), v.Diff, v.Want, v.Got, what),
			map[string]interface{}{"scenario": sc, "record": recs[v.I-1]})
	}
}

func Run(r *core.Run) {
	r.Assume("the truth of a mapping is judged on marker tokens (unique identifiers / string literals); for other tokens (keywords, punctuation) only 'both positions are token starts' is required, because their translation is not one-to-one (export function -> function, const -> var, dropped braces)")
	r.Assume("conventions of esbuild's printer accepted by the checker (found by experiment, see node/smap_check.js): a mapping may be recorded before the blanks/line break that precede its token; a column-0 mapping that repeats the previous original position is a deliberate line-cover mapping")
	r.Assume("lines are split at ECMAScript line terminators (LF, CR, CR LF, U+2028, U+2029) and columns are UTF-16 code units, in the original and in the generated text")
	r.Assume("the model cannot predict where the printer places mappings; VLQ codec fidelity is exercised only on the values that occur")

	// ---- design: TLC on the model -------------------------------------------
	var wg sync.WaitGroup
	designs := []string{"SourceMap.link.src.quick.cfg", "SourceMap.link.quick.cfg", "SourceMap.text.quick.cfg", "SourceMap.shift.cfg", "SourceMap.find.cfg"}
	if r.Thorough() {
		designs = []string{"SourceMap.link.c2m2.cfg", "SourceMap.link.c3m1.cfg", "SourceMap.link.c3m3l0.cfg",
			"SourceMap.link.src.c3m1.cfg", "SourceMap.link.src.c2m2.cfg",
			"SourceMap.text.cfg", "SourceMap.shift.m3.cfg", "SourceMap.find.cfg"}
	}
	if r.Replay != "" || os.Getenv("C07_NODESIGN") != "" { // (the second: development aid, not used by the registered commands)
		designs = nil
	}
	wg.Add(1)
	go func() {
		defer wg.Done()
		core.Parallel(len(designs), 4, func(i int) {
			tlcrun.MustHold(r, tlcrun.Options{Module: "SourceMap", Config: designs[i], Workers: 2, TimeoutSec: 3000, XssMB: 64})
		})
	}()
	// the model-level counterexample (a CR LF pair split over two Advance calls: the
	// linker advances over the banner and over its own "\n" separately) is replayed
	// against the real linker below; on the model alone it is not a verdict
	replayCRLF := false
	wg.Add(1)
	go func() {
		defer wg.Done()
		crlf, cerr := tlcrun.Run(r, tlcrun.Options{Module: "SourceMap", Config: "SourceMap.textcrlf.cfg", Workers: 1, TimeoutSec: 1200})
		if cerr != nil {
			r.Infra("textcrlf config: %v", cerr)
		} else if crlf.Violated == "PiecewiseAlways" {
			replayCRLF = true
			r.Logf("TLC SourceMap/SourceMap.textcrlf.cfg: counterexample to PiecewiseAlways found on the model (CR | LF split over two Advance calls); replayed as scenario crlf-split-banner")
		} else {
			r.Infra("textcrlf config: the expected model-level counterexample was not found")
		}
	}()

	// second model-level counterexample: composition through an input map with 1-field
	// segments (the parser drops them); replayed by the "holes" input maps
	replayHoles := false
	if r.Replay == "" {
		wg.Add(1)
		go func() {
			defer wg.Done()
			f1, ferr := tlcrun.Run(r, tlcrun.Options{Module: "SourceMap", Config: "SourceMap.find1.cfg", Workers: 1, TimeoutSec: 1200})
			if ferr != nil {
				r.Infra("find1 config: %v", ferr)
			} else if f1.Violated == "ComposeHonoursUnmapped" {
				replayHoles = true
				r.Logf("TLC SourceMap/SourceMap.find1.cfg: counterexample to ComposeHonoursUnmapped found on the model (text after a 1-field segment inherits the previous segment); replayed by the input maps with holes")
			} else {
				r.Infra("find1 config: the expected model-level counterexample was not found")
			}
		}()
	}

	// ---- scenarios -------------------------------------------------------------
	var configs []config
	var layouts [][]string
	var inmaps []inMap
	var patterns [][]string
	var extras []extraCfg
	gres := tlcrun.MustHold(r, tlcrun.Options{Module: "SourceMapGen", Config: "SourceMapGen.cfg", Workers: 1, TimeoutSec: 1200, OnCase: func(raw []byte) {
		var probe struct {
			Kind string `json:"kind"`
		}
		if json.Unmarshal(raw, &probe) != nil {
			return
		}
		if probe.Kind == "config" {
			var c config
			if json.Unmarshal(raw, &c) == nil {
				configs = append(configs, c)
			}
		} else if probe.Kind == "layout" {
			var l layoutTuple
			if json.Unmarshal(raw, &l) == nil {
				layouts = append(layouts, l.Files)
			}
		} else if probe.Kind == "inmap" {
			var d inMap
			if json.Unmarshal(raw, &d) == nil {
				inmaps = append(inmaps, d)
			}
		} else if probe.Kind == "css" || probe.Kind == "ts" {
			var e extraCfg
			if json.Unmarshal(raw, &e) == nil {
				extras = append(extras, e)
			}
		} else if probe.Kind == "pattern" {
			var l layoutTuple
			if json.Unmarshal(raw, &l) == nil {
				patterns = append(patterns, l.Files)
			}
		}
	}})
	if gres == nil || len(configs) == 0 || len(layouts) == 0 || len(inmaps) == 0 || len(patterns) == 0 {
		r.Infra("no scenarios exported by SourceMapGen")
		wg.Wait()
		return
	}
	r.Set("configs_enumerated", len(configs))
	r.Set("layout_tuples_enumerated", len(layouts))
	r.Set("inmap_descriptors_enumerated", len(inmaps))
	r.Set("inmap_patterns_enumerated", len(patterns))
	// TLC prints sets in its own order; make the seeded draws independent of it
	sort.Slice(inmaps, func(i, j int) bool { return inmaps[i].code() < inmaps[j].code() })
	sort.Slice(patterns, func(i, j int) bool { return strings.Join(patterns[i], "") < strings.Join(patterns[j], "") })
	// pairing: every configuration is built with perLayout layout tuples drawn by the
	// seed; transform configurations only take single-file tuples
	var single, multi [][]string
	for _, l := range layouts {
		if len(l) == 1 {
			single = append(single, l)
		} else {
			multi = append(multi, l)
		}
	}
	var scens []*scenario
	id := 0
	addScen := func(c config, l []string) {
		id++
		sc := &scenario{ID: id, Cfg: c, Layouts: l}
		for _, x := range l {
			if (x == "astral" || x == "ls") && id%2 == 0 {
				sc.UTF8 = true
			}
		}
		scens = append(scens, sc)
	}
	// input-map family: a bundle configuration with compose = TRUE is paired with a
	// position pattern and one descriptor per marked position; patterns and
	// descriptors are dealt from seeded permutations, so that one run meets every
	// pattern and spreads over the descriptors
	var patPerm, inPerm []int
	patNext, inNext := 0, 0
	addInmapScen := func(c config) {
		if patPerm == nil {
			patPerm, inPerm = r.Rand.Perm(len(patterns)), r.Rand.Perm(len(inmaps))
		}
		pat := patterns[patPerm[patNext%len(patPerm)]]
		patNext++
		ds := make([]inMap, len(pat))
		for k, x := range pat {
			if x == "I" {
				ds[k] = inmaps[inPerm[inNext%len(inPerm)]]
				inNext++
			}
		}
		id++
		sc := &scenario{ID: id, Cfg: c, Layouts: multi[r.Rand.Intn(len(multi))], Pattern: pat, InMaps: ds, Family: "inmap"}
		scens = append(scens, sc)
	}
	isInmapCfg := func(c config) bool { return c.Mode == "bundle" && c.Compose }
	if r.Thorough() {
		// every configuration: transform x 4 single-file layouts, bundle/split x 2
		// multi-file tuples + 1 single-file tuple, drawn by the seed
		for _, c := range configs {
			if isInmapCfg(c) {
				addInmapScen(c)
				addInmapScen(c)
				continue
			}
			if c.Mode == "transform" {
				p := r.Rand.Perm(len(single))
				for k := 0; k < 4; k++ {
					addScen(c, single[p[k]])
				}
				continue
			}
			for k := 0; k < 2; k++ {
				addScen(c, multi[r.Rand.Intn(len(multi))])
			}
			addScen(c, single[r.Rand.Intn(len(single))])
		}
	} else {
		// quick: a seeded quarter of the configurations, one tuple each (about 280 scenarios)
		for _, c := range configs {
			if isInmapCfg(c) {
				if r.Rand.Intn(6) == 0 {
					addInmapScen(c)
				}
				continue
			}
			if r.Rand.Intn(5) != 0 {
				continue
			}
			if c.Mode == "transform" {
				addScen(c, single[r.Rand.Intn(len(single))])
			} else {
				addScen(c, multi[r.Rand.Intn(len(multi))])
			}
		}
	}
	// css / ts families: every configuration in the thorough tier, a seeded third in the quick tier
	sort.Slice(extras, func(i, j int) bool { return extras[i].name() < extras[j].name() })
	r.Set("extra_configs_enumerated", len(extras))
	for i := range extras {
		if !r.Thorough() && r.Rand.Intn(3) != 0 {
			continue
		}
		id++
		e := extras[i]
		scens = append(scens, &scenario{ID: id, Family: e.Kind, Extra: &e, Layouts: multi[r.Rand.Intn(len(multi))]})
	}
	{
		// always replayed (the TLC run above only documents where it comes from)
		id++
		scens = append(scens, &scenario{ID: id, Special: "crlf-split-banner", BannerX: "/*c*/\r", Layouts: []string{"plain"},
			Cfg: config{Mode: "bundle", Format: "esm", Minify: "none", Sm: "external", Names: "short", Content: true}})
	}
	if r.Replay != "" {
		sc := loadReplay(r.Replay)
		if sc == nil {
			r.Infra("cannot read a scenario from %s", r.Replay)
			wg.Wait()
			return
		}
		scens = []*scenario{sc}
	}
	if fam := os.Getenv("C07_FAMILY"); fam != "" && r.Replay == "" { // development aid, not used by the registered commands
		var keep []*scenario
		for _, sc := range scens {
			if sc.Family == fam {
				keep = append(keep, sc)
			}
		}
		scens = keep
	}
	r.Set("scenarios", len(scens))
	r.Logf("%d configurations x %d layout tuples enumerated; %d scenarios to build", len(configs), len(layouts), len(scens))

	// ---- build ---------------------------------------------------------------------
	results := make([]*built, len(scens))
	core.Parallel(len(scens), 8, func(i int) { results[i] = runScenario(r, scens[i]) })
	var jobs []*job
	builds := 0
	byID := map[string]*job{}
	replays := map[int]map[string]interface{}{}
	for i, b := range results {
		sc := scens[i]
		builds += b.nBuilds
		replays[sc.ID] = b.replay
		if b.infra != "" {
			r.Infra("scenario %s: %s", sc.name(), b.infra)
			continue
		}
		for _, p := range b.problems {
			r.Violation(sc.key(p.kind), fmt.Sprintf("%s (scenario %s)", p.msg, sc.name()), b.replay)
		}
		for _, j := range b.jobs {
			jobs = append(jobs, j)
			byID[j.ID] = j
		}
	}
	r.Set("builds", builds)
	r.Logf("%d real builds/transforms, %d maps to check", builds, len(jobs))

	// ---- check the maps in Node --------------------------------------------------
	const batch = 40
	nb := (len(jobs) + batch - 1) / batch
	outs := make([][]jobResult, nb)
	core.Parallel(nb, 6, func(b int) {
		lo, hi := b*batch, (b+1)*batch
		if hi > len(jobs) {
			hi = len(jobs)
		}
		var out struct {
			Results []jobResult `json:"results"`
		}
		in := map[string]interface{}{"jobs": jobs[lo:hi]}
		if d := os.Getenv("C07_DUMP"); d != "" {
			bs, _ := json.Marshal(in)
			os.WriteFile(filepath.Join(d, fmt.Sprintf("jobs%d.json", b)), bs, 0644)
		}
		if err := nodex.Run(r, "smap_check.js", in, &out, 10*time.Minute, "", "--expose-internals", "--max-old-space-size=2048"); err != nil {
			r.Infra("smap_check.js: %v", err)
			return
		}
		if len(out.Results) != hi-lo {
			r.Infra("smap_check.js returned %d results for %d jobs", len(out.Results), hi-lo)
			return
		}
		outs[b] = out.Results
	})
	totals := map[string]int64{}
	var records []json.RawMessage
	var recScens []*scenario
	perScenErrs := map[int]int{}
	sampled := 0
	rebaseCompared, rebaseSkipped, rebaseJobs := int64(0), 0, 0
	skipReasons := map[string]int{}
	for _, rs := range outs {
		for _, jr := range rs {
			j := byID[jr.ID]
			if j == nil {
				continue
			}
			sc := j.scen
			if jr.Infra != "" {
				r.Infra("scenario %s output %s: %s", sc.name(), j.out, jr.Infra)
				continue
			}
			for k, v := range jr.Stats {
				totals[k] += v
			}
			for _, e := range jr.Errors {
				perScenErrs[sc.ID]++
				if perScenErrs[sc.ID] > 3 {
					break // one scenario, one or two witnesses are enough
				}
				key := sc.key(e.Kind)
				key["output"] = outputClass(j.out)
				rep := map[string]interface{}{"build": replays[sc.ID], "output": j.out, "error": e, "all_errors": jr.Errors}
				if j.Kind != "rebase" {
					rep["code"], rep["map"] = j.Code, j.Map
				}
				r.Violation(key, fmt.Sprintf("%s: %s (scenario %s, output %s)", e.Kind, e.Msg, sc.name(), j.out), rep)
			}
			if j.Kind == "rebase" {
				rebaseJobs++
				rebaseCompared += jr.Compared
				rebaseSkipped += len(jr.Skipped)
				for _, sk := range jr.Skipped {
					if k := strings.Index(sk, ": "); k >= 0 {
						skipReasons[sk[k+2:]+" ["+sc.Cfg.Minify+"/"+sc.Cfg.Format+"]"]++
					}
				}
				if len(jr.Record) > 0 && string(jr.Record) != "null" {
					records = append(records, jr.Record)
					recScens = append(recScens, sc)
				}
				continue
			}
			if sampled < 6 && (sc.ID%37 == 0 || sc.Special != "") {
				sampled++
				r.Sample(map[string]interface{}{"scenario": sc.name(), "output": j.out, "stats": jr.Stats, "errors": len(jr.Errors)})
			}
		}
	}
	for _, sc := range scens {
		c := sc.Cfg
		nontrivial := len(sc.Layouts) >= 2 || c.CanShift || sc.Family != ""
		for _, l := range sc.Layouts {
			if l == "crlf" || l == "ls" || l == "astral" {
				nontrivial = true
			}
		}
		r.Case(sc.name(), nontrivial)
	}
	for k, v := range totals {
		r.Set("sum_"+k, v)
	}
	r.Set("rebase_jobs", rebaseJobs)
	r.Set("rebase_mappings_compared", rebaseCompared)
	r.Set("rebase_files_skipped", rebaseSkipped)
	r.Set("rebase_skip_reasons", skipReasons)
	r.Logf("maps: %d mappings decoded, %d marker-true, %d names true, %d cover; rebase: %d jobs, %d mappings compared, %d files skipped",
		totals["mappings"], totals["marker_true"], totals["name_true"], totals["cover"], rebaseJobs, rebaseCompared, rebaseSkipped)
	if totals["marker_true"]+totals["css_marker_true"] == 0 {
		r.Infra("no marker mapping was checked at all")
	}
	// ---- bind the Join algebra: TLC runs the spec's LinkAll on recorded chunks ------
	// records of bundles with input maps (files contributing 2-3 sources) first: they
	// are the ones that bind the source index bases of the model
	{
		var ra, rb []json.RawMessage
		var sa, sb []*scenario
		for i, rc := range records {
			if recScens[i].Family == "inmap" {
				ra, sa = append(ra, rc), append(sa, recScens[i])
			} else {
				rb, sb = append(rb, rc), append(sb, recScens[i])
			}
		}
		r.Set("join_records_with_input_maps", len(ra))
		records, recScens = append(ra, rb...), append(sa, sb...)
	}
	maxRec := r.Pick(60, 600)
	if len(records) > maxRec {
		records, recScens = records[:maxRec], recScens[:maxRec]
	}
	r.Set("join_records", len(records))
	const vb = 150
	for i := 0; i < len(records); i += vb {
		jn := i + vb
		if jn > len(records) {
			jn = len(records)
		}
		validateRecords(r, records[i:jn], recScens[i:jn])
	}
	wg.Wait()
	r.Set("model_counterexample_crlf_split_found", replayCRLF)
	r.Set("model_counterexample_unmapped_segment_found", replayHoles)
	r.Set("rule", "case = one (configuration, layout tuple) pair of SourceMapGen.tla materialised as marker files and built with the real api.Build/Transform; every emitted map is decoded and every mapping checked against the marker tokens; non-trivial = at least 2 source files, or code splitting (final-path shifts), or a CRLF / U+2028 / astral layout, or a scenario of the input-map / css / ts families (bundles of several files by construction); distinct by the full scenario name (for the input-map family: configuration x position pattern x input-map descriptors x layout tuple)")
}

// loadReplay finds the scenario record inside a replay file written by r.Violation
func loadReplay(path string) *scenario {
	b, err := os.ReadFile(path)
	if err != nil {
		return nil
	}
	var v interface{}
	if json.Unmarshal(b, &v) != nil {
		return nil
	}
	var find func(x interface{}) *scenario
	find = func(x interface{}) *scenario {
		switch t := x.(type) {
		case map[string]interface{}:
			if sc, ok := t["scenario"].(map[string]interface{}); ok {
				if _, has := sc["config"]; has {
					raw, _ := json.Marshal(sc)
					var out scenario
					if json.Unmarshal(raw, &out) == nil {
						return &out
					}
				}
			}
			for _, c := range t {
				if r := find(c); r != nil {
					return r
				}
			}
		case []interface{}:
			for _, c := range t {
				if r := find(c); r != nil {
					return r
				}
			}
		}
		return nil
	}
	return find(v)
}

func outputClass(out string) string {
	switch {
	case out == "rebase":
		return "rebase"
	case strings.Contains(out, "e0"):
		return "entry0"
	case strings.Contains(out, "e1"):
		return "entry1"
	case strings.Contains(out, "lazy"):
		return "lazy"
	case strings.Contains(out, "shared") || strings.HasPrefix(out, "c-") || strings.Contains(out, "chunk"):
		return "chunk"
	}
	return "main"
}

func init() { core.Register("C07", Run) }
