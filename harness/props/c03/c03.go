// Package c03: minification never changes program behaviour.
// Spec: JsSem.tla (probe-trace semantics of an expression/statement fragment)
// and JsFold.tla (exact value algebra).  Binding (R): TLC-generated programs
// and fold cells are given to the real minifier; input and output run in V8
// with identical probe environments; the spec's expected trace is the third
// witness (spec vs V8-on-input disagreement = drift, excluded).
package c03

import (
	"fmt"
	"os"
	"path/filepath"
	"regexp"
	"sync"

	"verifharness/tlcrun"

	"verifharness/core"
)

func init() { core.Register("C03", Run) }

func Run(r *core.Run) {
	// the TLC runs of this check are short (seconds): C2 compilation and a wide parallel
	// collector cost more CPU than they save (measured 70 s -> 27 s user on the fold grid)
	if os.Getenv("_JAVA_OPTIONS") == "" {
		os.Setenv("_JAVA_OPTIONS", "-XX:TieredStopAtLevel=1 -XX:ParallelGCThreads=2")
	}
	r.Assume("V8 (Node 20) implements ECMAScript on the generated fragment; where JsSem/JsFold and V8 disagree on the INPUT program the case is reported as drift and excluded")
	r.Assume("finite results of ** and folds whose exact value needs non-integer float arithmetic are judged by V8 only (DESIGN.md section 6)")
	r.Assume("outer-constant family: module bindings, enum members and define keys evaluate to the constant's value; the native reference is the single script `const K = v; function ...`")
	r.Assume("the probe host (p, o, G, parameters) is the only observable channel: calls with arguments, property traffic on the recorder object, valueOf / toString calls, thrown exception class, completion value")
	if r.Replay != "" {
		replayOne(r)
		r.Set("rule", "replay of one recorded scenario")
		return
	}
	// the two bindings are independent: run them side by side (4 TLC workers each)
	var wg sync.WaitGroup
	if os.Getenv("C03_SKIP_FOLD") == "" {
		wg.Add(1)
		go func() { defer wg.Done(); foldBinding(r) }()
	}
	if os.Getenv("C03_SKIP_DESIGN") == "" {
		wg.Add(1)
		go func() { defer wg.Done(); designChecks(r) }()
	}
	wg.Add(1)
	go func() {
		defer wg.Done()
		programBinding(r, map[bool]string{false: "JsSemGen.quick.cfg", true: "JsSemGen.thorough.cfg"}[r.Thorough()])
	}()
	wg.Wait()
	if n := r.DriftCount(); n > 25 {
		r.Infra("the specification disagrees with V8 on %d input programs/cells: drift exceeds the budget, no verdict", n)
	}
	r.Set("rule", "fold: every (operator, a, b) over the 22-value boundary grid in each compile-time-evaluation context; programs: TLC-generated expression trees / statement skeletons / context x operand-kind pairs / outer-constant programs (cross-module const, enum, define) with probe leaves x environments; non-trivial = the program matches >= 1 peephole pattern class of JsSem and the minified output differs textually from the unminified print; distinct by (program, options)")
}

// designChecks: TLC on the model alone. The small-step machine of JsSemStep must be
// deterministic (one rule per configuration), total (no stuck configuration) and agree
// with the big-step evaluator JsSem!Ev that predicts the traces; the skeleton family must
// inhabit every pattern class the property names (ASSUME in JsSemStep).
func designChecks(r *core.Run) {
	cfgName := map[bool]string{false: "JsSemStep.quick.cfg", true: "JsSemStep.thorough.cfg"}[r.Thorough()]
	raw, err := os.ReadFile(filepath.Join(r.Verif, "spec", "cfg", cfgName))
	if err != nil {
		r.Infra("cannot read %s: %v", cfgName, err)
		return
	}
	cfg := regexp.MustCompile(`(?m)^(\s*Seed\s*=\s*).*$`).ReplaceAllString(string(raw), "${1}"+fmt.Sprint(r.Seed))
	res := tlcrun.MustHold(r, tlcrun.Options{Module: "JsSemStep", Config: cfgName, Workers: r.Pick(2, 4), TimeoutSec: r.Pick(900, 3000), XssMB: 256, HeapGB: 2,
		Files: map[string]string{cfgName: cfg}})
	if res != nil {
		r.Set("tlc_small_step", map[string]interface{}{"generated": res.Generated, "distinct": res.Distinct, "depth": res.Depth,
			"invariants": []string{"Deterministic", "Progress", "Agreement"}, "assume": "InhabitedBy(SkelProgs)"})
	}
}
