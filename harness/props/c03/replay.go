package c03

import (
	"encoding/json"
	"fmt"
	"os"
	"time"

	"github.com/evanw/esbuild/pkg/api"

	"verifharness/core"
)

// replayOne re-runs the scenario of one replay file (written by r.Violation):
// the recorded input goes through the real minifier again with the recorded
// options, input and output run in V8 over all environments, and for programs
// the specification is asked for the environment row of the first disagreement.
func replayOne(r *core.Run) {
	raw, err := os.ReadFile(r.Replay)
	if err != nil {
		r.Infra("cannot read replay file: %v", err)
		return
	}
	var rec struct {
		Key    map[string]interface{} `json:"key"`
		Detail map[string]interface{} `json:"detail"`
	}
	if err := json.Unmarshal(raw, &rec); err != nil {
		r.Infra("cannot decode replay file: %v", err)
		return
	}
	str := func(m map[string]interface{}, k string) string { s, _ := m[k].(string); return s }
	flag := func(m map[string]interface{}, k string) bool { b, _ := m[k].(bool); return b }
	kind := str(rec.Key, "kind")
	input := str(rec.Detail, "input")
	subst := map[string]string{"DoReq": "FALSE"}
	if q, ok := rec.Detail["q"].(float64); ok && (q == 13 || q == 23) {
		subst["Q"] = fmt.Sprint(int(q)) // the environment table of the tier that recorded the scenario
	}
	table, _, _, res := generate(r, "JsSemGen.eval.cfg", subst)
	if res == nil || table == nil {
		r.Infra("cannot obtain the environment table")
		return
	}
	in := table.nodeInput()
	switch kind {
	case "fold":
		loader := api.LoaderJS
		if str(rec.Detail, "loader") == "ts" {
			loader = api.LoaderTS
		}
		fl, _ := rec.Detail["minify"].([]interface{})
		b := func(i int) bool { v, _ := fl[i].(bool); return v }
		if len(fl) != 3 {
			r.Infra("replay file has no minify flags")
			return
		}
		out, err := transform(input, loader, b(0), b(1), b(2), false, nil)
		if err != nil {
			r.Infra("esbuild rejects the replayed input: %v", err)
			return
		}
		e := fmt.Sprintf("((%s) %s (%s))", str(rec.Key, "a"), str(rec.Key, "op"), str(rec.Key, "b"))
		if str(rec.Key, "b") == "" {
			e = fmt.Sprintf("(%s (%s))", str(rec.Key, "op"), str(rec.Key, "a"))
		}
		in.Jobs = []job{{ID: "replay", Srcs: []string{"x0 = " + e + ";", out}, Units: []unit{{ID: "0", Call: "x0", Want: "all", Tol: str(rec.Key, "op") == "**"}}}}
	case "prog":
		opt, _ := rec.Detail["options"].(map[string]interface{})
		v := variant{name: str(rec.Key, "variant"), syntax: flag(opt, "minifySyntax"), whitespace: flag(opt, "minifyWhitespace"),
			identifiers: flag(opt, "minifyIdentifiers"), keepNames: flag(opt, "keepNames"), bundle: flag(opt, "bundle")}
		v.mode = str(opt, "constants")
		var out string
		var err error
		if v.mode != "" {
			out, err = buildXc(input, v, r.Scratch)
		} else {
			out, err = build(input, v)
		}
		if err != nil {
			r.Infra("esbuild rejects the replayed input: %v", err)
			return
		}
		family := str(rec.Detail, "family")
		in.Jobs = []job{{ID: "replay", Srcs: []string{referencePrelude(family) + input, out}, Units: []unit{{ID: "0", Call: "main(__env.a, __env.b)", EnvSet: envSetOf(family), Want: []int{}}}}}
	default:
		r.Infra("replay of kind %q is not supported (re-run the tier instead)", kind)
		return
	}
	results := runNode(r, in, 1, 5*time.Minute)
	jr := results["replay"]
	if jr == nil {
		return
	}
	r.Case("replay", true)
	r.Sample(map[string]interface{}{"replayed": r.Replay, "input": input, "output": in.Jobs[0].Srcs[1]})
	for _, e := range jr.Errors {
		r.Violation(rec.Key, "replayed output does not run: "+e.Error, rec.Detail)
		return
	}
	if len(jr.Units[0].Mismatches) == 0 {
		r.Logf("replay: input and output agree in all %d environments", jr.Units[0].Nenv)
		return
	}
	m := jr.Units[0].Mismatches[0]
	if kind == "prog" {
		if ast, ok := rec.Detail["prog_ast"]; ok {
			b, _ := json.Marshal(ast)
			p := &progCase{RawProg: b, fn: input, id: str(rec.Key, "prog"), Kind: str(rec.Detail, "family")}
			v := variant{name: str(rec.Key, "variant")}
			confirmMismatches(r, table, []pend{{p: p, v: v, m: m, out: in.Jobs[0].Srcs[1]}})
			return
		}
	}
	r.Violation(rec.Key, fmt.Sprintf("replayed: V8 on the input gives %s, on the output %s", m.Input, m.Output), rec.Detail)
}
