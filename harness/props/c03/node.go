package c03

import (
	"encoding/json"
	"fmt"
	"os"
	"path/filepath"
	"sync"
	"time"

	"verifharness/core"
	"verifharness/nodex"
)

// protocol of node/run_probes.js

type envRec struct {
	P  []int `json:"p"`  // value index per probe number (index 0 unused)
	A  int   `json:"a"`  // parameter a (value index, -1 = undefined)
	B  int   `json:"b"`  // parameter b
	G  int   `json:"G"`  // global G: value index or -1 = undeclared
	Ok int   `json:"ok"` // initial o.k: value index or -1 = absent
}

type objDef struct {
	Kind string `json:"kind"` // plain | valueOf
	V    *Val   `json:"v,omitempty"`
}

type unit struct {
	ID     string      `json:"id"`
	Call   string      `json:"call"`
	EnvSet string      `json:"envSet,omitempty"`
	Want   interface{} `json:"want,omitempty"`
	Tol    bool        `json:"tol,omitempty"`
	NoG    bool        `json:"noG,omitempty"` // the program text does not mention G
	NoO    bool        `json:"noO,omitempty"` // the program text does not mention o
}

// a job = one script per variant (srcs[0] = the input program(s)), run once per
// fresh vm context, then every unit (one per program in the script) per env
type job struct {
	ID    string   `json:"id"`
	Srcs  []string `json:"srcs"`
	Units []unit   `json:"units"`
}

type nodeIn struct {
	Budget  int                 `json:"budget"`
	MaxMis  int                 `json:"maxMismatches,omitempty"`
	Vals    []Val               `json:"vals"`
	Objs    map[string]objDef   `json:"objs"`
	EnvSets map[string][]envRec `json:"envSets"`
	Jobs    []job               `json:"jobs"`
}

type jobErr struct {
	Variant int    `json:"variant"`
	Unit    string `json:"unit,omitempty"`
	Error   string `json:"error"`
}

type mismatch struct {
	Variant int    `json:"variant"`
	Env     int    `json:"env"`
	Input   string `json:"input"`
	Output  string `json:"output"`
}

type unitRes struct {
	ID         string            `json:"id"`
	Traces     map[string]string `json:"traces"`
	Mismatches []mismatch        `json:"mismatches"`
	Nmis       int               `json:"nmis"`
	Nenv       int               `json:"nenv"`
}

type jobRes struct {
	ID     string    `json:"id"`
	Errors []jobErr  `json:"errors"`
	Units  []unitRes `json:"units"`
}

type nodeOut struct {
	Results []jobRes `json:"results"`
}

// runNode distributes the jobs over `workers` node processes and returns the
// results by job id. A dead or timed-out node process is an infrastructure
// error (its jobs have no result).
func runNode(r *core.Run, in nodeIn, workers int, timeout time.Duration) map[string]*jobRes {
	out := map[string]*jobRes{}
	if len(in.Jobs) == 0 {
		return out
	}
	if workers > len(in.Jobs) {
		workers = len(in.Jobs)
	}
	chunk := (len(in.Jobs) + workers - 1) / workers
	var mu sync.Mutex
	var wg sync.WaitGroup
	for w := 0; w < workers; w++ {
		lo, hi := w*chunk, (w+1)*chunk
		if lo >= len(in.Jobs) {
			break
		}
		if hi > len(in.Jobs) {
			hi = len(in.Jobs)
		}
		part := in
		part.Jobs = in.Jobs[lo:hi]
		wg.Add(1)
		go func(part nodeIn) {
			defer wg.Done()
			if d := os.Getenv("C03_DUMP_NODE"); d != "" {
				b, _ := json.Marshal(part)
				os.WriteFile(filepath.Join(d, fmt.Sprintf("node-%s.json", part.Jobs[0].ID)), b, 0644)
			}
			var res nodeOut
			if err := nodex.Run(r, "run_probes.js", part, &res, timeout, "", "--stack-size=4000"); err != nil {
				r.Infra("probe runner failed on a batch of %d programs: %v", len(part.Jobs), err)
				return
			}
			mu.Lock()
			for i := range res.Results {
				out[res.Results[i].ID] = &res.Results[i]
			}
			mu.Unlock()
		}(part)
	}
	wg.Wait()
	return out
}

func envKey(i int) string { return fmt.Sprint(i) }
