package c03

import (
	"encoding/json"
	"fmt"
	"os"
	"path/filepath"
	"regexp"
	"sort"
	"strings"
	"sync"
	"time"

	"github.com/evanw/esbuild/pkg/api"

	"verifharness/core"
	"verifharness/tlcrun"
)

// the environment table exported once by JsSemGen (EnvTable)
type envRow struct {
	P  []int `json:"p"`
	A  int   `json:"a"`
	B  int   `json:"b"`
	G  int   `json:"g"`
	Ok int   `json:"ok"`
}

type envTable struct {
	Q        int      `json:"q"`
	Grid     []Val    `json:"grid"`
	GridC    []Val    `json:"gridc"` // the value grid of the cx / xc families (environment set "c")
	Rows     []envRow `json:"rows"`
	Objs     []objDef `json:"objs"` // ids 1..n
	MaxCalls int      `json:"maxcalls"`
}

// one generated program with the spec's prediction for K environment rows
type progCase struct {
	Kind   string    `json:"kind"`
	Idx    int       `json:"idx"`
	Prog   []node    `json:"prog"`
	Labels []string  `json:"labels"`
	Rows   [][]int   `json:"rows"`
	Expect []outcome `json:"expect"`
	RawProg json.RawMessage `json:"-"`

	fn  string // function(a, b) {...}
	id  string
	bad bool // spec drift or input rejected: excluded from the verdict
}

type variant struct {
	name                                       string
	syntax, whitespace, identifiers, keepNames bool
	bundle                                     bool
	mode                                       string // xc family: how the outer constants are realised (xc.go)
}

func (v variant) options() map[string]interface{} {
	m := map[string]interface{}{"minifySyntax": v.syntax, "minifyWhitespace": v.whitespace, "minifyIdentifiers": v.identifiers, "keepNames": v.keepNames, "bundle": v.bundle}
	if v.mode != "" {
		m["constants"] = v.mode
	}
	return m
}

// envSetOf: the cx / xc families run over the second value grid
func envSetOf(kind string) string {
	if kind == "cx" || kind == "xc" {
		return "c"
	}
	return "q"
}

func flagName(s, w, i bool) string {
	n := ""
	if s {
		n += "S"
	}
	if w {
		n += "W"
	}
	if i {
		n += "I"
	}
	if n == "" {
		n = "none"
	}
	return n
}

func variantsFor(r *core.Run) []variant {
	if r.Thorough() {
		var vs []variant
		for m := 0; m < 8; m++ {
			s, w, i := m&1 != 0, m&2 != 0, m&4 != 0
			vs = append(vs, variant{name: flagName(s, w, i), syntax: s, whitespace: w, identifiers: i})
			vs = append(vs, variant{name: flagName(s, w, i) + "+keep", syntax: s, whitespace: w, identifiers: i, keepNames: true})
		}
		vs = append(vs, variant{name: "SWI+bundle", syntax: true, whitespace: true, identifiers: true, bundle: true})
		vs = append(vs, variant{name: "S+bundle", syntax: true, bundle: true})
		return vs
	}
	// quick: {syntax}, {syntax, identifiers, whitespace} + one seeded other subset, keep-names on one of them, one bundle
	others := [][3]bool{{false, true, false}, {false, false, true}, {true, true, false}, {true, false, true}, {false, true, true}, {false, false, false}}
	o := others[int(r.Seed)%len(others)]
	return []variant{
		{name: "S", syntax: true},
		{name: "SWI", syntax: true, whitespace: true, identifiers: true},
		{name: flagName(o[0], o[1], o[2]) + "+keep", syntax: o[0], whitespace: o[1], identifiers: o[2], keepNames: true},
		{name: "SI+bundle", syntax: true, identifiers: true, bundle: true},
	}
}

func build(src string, v variant) (string, error) {
	if !v.bundle {
		return transform(src, api.LoaderJS, v.syntax, v.whitespace, v.identifiers, v.keepNames, nil)
	}
	res := api.Build(api.BuildOptions{
		Stdin:             &api.StdinOptions{Contents: src, Sourcefile: "entry.js", Loader: api.LoaderJS, ResolveDir: os.TempDir()},
		Bundle:            true,
		Write:             false,
		Format:            api.FormatIIFE,
		MinifySyntax:      v.syntax,
		MinifyWhitespace:  v.whitespace,
		MinifyIdentifiers: v.identifiers,
		KeepNames:         v.keepNames,
		LogLevel:          api.LogLevelSilent,
	})
	if len(res.Errors) > 0 {
		return "", fmt.Errorf("%s", res.Errors[0].Text)
	}
	if len(res.OutputFiles) != 1 {
		return "", fmt.Errorf("expected one output file, got %d", len(res.OutputFiles))
	}
	return string(res.OutputFiles[0].Contents), nil
}

var reMain = regexp.MustCompile(`globalThis\.main(\d+)\s*=`)

// segments splits a chunk output into the text of each program
func segments(out string) map[string]string {
	m := map[string]string{}
	loc := reMain.FindAllStringSubmatchIndex(out, -1)
	for i, l := range loc {
		end := len(out)
		if i+1 < len(loc) {
			end = loc[i+1][0]
		}
		m[out[l[2]:l[3]]] = strings.TrimRight(out[l[1]:end], " \t\r\n,;")
	}
	return m
}

func chunkSource(ps []*progCase) string {
	var b strings.Builder
	for k, p := range ps {
		fmt.Fprintf(&b, "globalThis.main%d = %s;\n", k, p.fn)
	}
	return b.String()
}

// generate runs the TLC generator for this tier and seed
type nameCase struct {
	Body string `json:"body"`
	Name string `json:"name"`
}

var nameCases []nameCase // the keep-names programs of JsSemProgs!NameProgs (last generator run)

func generate(r *core.Run, cfgName string, subst map[string]string) (*envTable, []*progCase, []*optCase, *tlcrun.Result) {
	cfgPath := filepath.Join(r.Verif, "spec", "cfg", cfgName)
	raw, err := os.ReadFile(cfgPath)
	if err != nil {
		r.Infra("cannot read %s: %v", cfgPath, err)
		return nil, nil, nil, nil
	}
	cfg := string(raw)
	for k, v := range subst {
		re := regexp.MustCompile(`(?m)^(\s*` + k + `\s*=\s*).*$`)
		cfg = re.ReplaceAllString(cfg, "${1}"+v)
	}
	var table *envTable
	var progs []*progCase
	var opts []*optCase
	var mu sync.Mutex
	res := tlcrun.MustHold(r, tlcrun.Options{Module: "JsSemGen", Config: cfgName, Workers: 5, TimeoutSec: r.Pick(600, 3000), XssMB: 256, HeapGB: 2,
		Files: map[string]string{cfgName: cfg, "c03_eval.ndjson": ""},
		OnCase: func(raw []byte) {
			var head struct {
				Spec string `json:"spec"`
			}
			if err := json.Unmarshal(raw, &head); err != nil {
				r.Infra("undecodable case: %v", err)
				return
			}
			mu.Lock()
			defer mu.Unlock()
			if head.Spec == "JsSemEnvs" {
				var t envTable
				if err := json.Unmarshal(raw, &t); err != nil {
					r.Infra("undecodable environment table: %v", err)
					return
				}
				table = &t
				return
			}
			if head.Spec == "JsSemNames" {
				var n struct {
					Cases []nameCase `json:"cases"`
				}
				if err := json.Unmarshal(raw, &n); err != nil {
					r.Infra("undecodable keep-names cases: %v", err)
				}
				nameCases = n.Cases
				return
			}
			if head.Spec == "JsSemOpt" {
				var o optCase
				if err := json.Unmarshal(raw, &o); err != nil {
					r.Infra("undecodable option case: %v", err)
					return
				}
				opts = append(opts, &o)
				return
			}
			var p progCase
			if err := json.Unmarshal(raw, &p); err != nil {
				r.Infra("undecodable program case: %v", err)
				return
			}
			var rp struct {
				Prog json.RawMessage `json:"prog"`
			}
			json.Unmarshal(raw, &rp)
			p.RawProg = rp.Prog
			progs = append(progs, &p)
		}})
	// TLC's workers print in a schedule-dependent order
	sort.Slice(progs, func(i, j int) bool {
		if progs[i].Kind != progs[j].Kind {
			return progs[i].Kind < progs[j].Kind
		}
		return progs[i].Idx < progs[j].Idx
	})
	return table, progs, opts, res
}

func (t *envTable) nodeInput() nodeIn {
	in := nodeIn{Budget: t.MaxCalls, Vals: append(append([]Val{}, t.Grid...), t.GridC...), Objs: map[string]objDef{}, EnvSets: map[string][]envRec{}}
	for i, o := range t.Objs {
		in.Objs[fmt.Sprint(i+1)] = o
	}
	envs := make([]envRec, len(t.Rows))
	for i, row := range t.Rows {
		e := envRec{P: make([]int, len(row.P)+1), A: row.A - 1, B: row.B - 1, G: row.G - 1, Ok: row.Ok - 1}
		for n, x := range row.P {
			e.P[n+1] = x - 1
		}
		envs[i] = e
	}
	in.EnvSets["q"] = envs
	// set "c": the same rows over GridC (its values follow Grid in vals); -1 stays "undeclared / absent"
	off := func(i int) int {
		if i < 0 {
			return i
		}
		return i + len(t.Grid)
	}
	envc := make([]envRec, len(envs))
	for i, e := range envs {
		c := envRec{P: make([]int, len(e.P)), A: off(e.A), B: off(e.B), G: off(e.G), Ok: off(e.Ok)}
		for n := 1; n < len(e.P); n++ {
			c.P[n] = off(e.P[n])
		}
		envc[i] = c
	}
	in.EnvSets["c"] = envc
	return in
}

const progChunk = 100

type chunkWork struct {
	fam   *family
	ps    []*progCase
	outs  []string // per variant
	vidx  []int    // node variant number (>= 1) -> variant index
	plain string   // the unminified print (same realisation as the output whose index is sref)
	sref  int      // index into outs of the syntax-only output that is compared with plain (-1: none)
}

// a family of programs that is built the same way: the variants (option sets) and how one
// chunk of programs becomes the reference script (V8-on-input) and one output per variant
type family struct {
	name     string
	ps       []*progCase
	variants []variant
	// source of the chunk as given to V8 (the reference) for these programs
	input func(ps []*progCase) string
	// the outputs of the chunk: out[k] belongs to variants[vidx[k]]; plain = unminified print
	outputs func(r *core.Run, ci int, ps []*progCase) (plain string, outs []string, vidx []int, sref int)
}

func mainFamily(r *core.Run, name string, ps []*progCase, variants []variant) *family {
	f := &family{name: name, ps: ps, variants: variants, input: chunkSource}
	f.outputs = func(r *core.Run, ci int, ps []*progCase) (string, []string, []int, int) {
		src := chunkSource(ps)
		plain, _ := transform(src, api.LoaderJS, false, false, false, false, nil)
		var outs []string
		var vidx []int
		sref := -1
		for vi, v := range variants {
			if v.bundle && !r.Thorough() && ci%4 != 0 {
				continue // quick: api.Build for a subset of the chunks
			}
			out, err := build(src, v)
			if err != nil {
				r.Infra("esbuild rejected a chunk under %s that it accepts without minification: %v", v.name, err)
				continue
			}
			if v.syntax && !v.whitespace && !v.bundle && !v.identifiers && !v.keepNames {
				sref = len(outs)
			}
			outs = append(outs, out)
			vidx = append(vidx, vi)
		}
		return plain, outs, vidx, sref
	}
	return f
}

// programBinding replays the generated programs into the real minifier and V8
func programBinding(r *core.Run, cfgName string) {
	table, progs, opts, res := generate(r, cfgName, map[string]string{"Seed": fmt.Sprint(r.Seed)})
	if res == nil || table == nil || len(progs) == 0 {
		r.Infra("the program generator exported nothing")
		return
	}
	r.Set("tlc_"+strings.TrimSuffix(cfgName, ".cfg"), map[string]interface{}{"generated": res.Generated, "distinct": res.Distinct, "cases": len(progs)})
	var owg sync.WaitGroup
	owg.Add(1)
	go func() { defer owg.Done(); optionsBinding(r, table, opts); namesBinding(r, nameCases) }()
	defer owg.Wait()

	// render, de-duplicate
	seen := map[string]bool{}
	var uniq, cxs, xcs []*progCase
	kinds := map[string]int{}
	pairs := map[string]map[int]bool{}
	for _, p := range progs {
		p.fn = function(p.Prog)
		p.id = core.Hash(p.fn)
		if p.Kind == "cx" || p.Kind == "xc" {
			p.id = core.Hash(p.Kind + p.fn) // these run over their own value grid: not merged with an equal program of another family
		}
		if p.Kind == "cx" || p.Kind == "xc" {
			if pairs[p.Kind] == nil {
				pairs[p.Kind] = map[int]bool{}
			}
			pairs[p.Kind][p.Idx/100] = true // (context, operand kind) of the descriptor
		}
		if seen[p.id] {
			continue
		}
		seen[p.id] = true
		kinds[p.Kind]++
		if p.Kind == "xc" {
			xcs = append(xcs, p)
		} else if p.Kind == "cx" && r.Thorough() {
			cxs = append(cxs, p)
		} else {
			uniq = append(uniq, p)
		}
	}
	fams := []*family{mainFamily(r, "main", uniq, variantsFor(r))}
	if len(cxs) > 0 {
		// thorough: the cx programs contain no function or class, so keep-names cannot matter:
		// all 8 flag subsets and the bundles, without the keep-names twins
		var vs []variant
		for _, v := range variantsFor(r) {
			if !v.keepNames {
				vs = append(vs, v)
			}
		}
		fams = append(fams, mainFamily(r, "cx", cxs, vs))
	}
	if len(xcs) > 0 {
		fams = append(fams, xcFamily(r, xcs))
	}
	vnames := []string{}
	for _, f := range fams {
		for _, v := range f.variants {
			vnames = append(vnames, v.name)
		}
	}
	r.Set("option_sets", vnames)
	r.Set("programs_by_family", kinds)
	r.Set("context_x_kind_pairs", map[string]int{"cx": len(pairs["cx"]), "xc": len(pairs["xc"])})
	r.Logf("programs: %d generated, %d distinct (%v); %d environments each (Q=%d); variants %v", len(progs), len(uniq)+len(cxs)+len(xcs), kinds, len(table.Rows), table.Q, vnames)

	var works []*chunkWork
	for _, f := range fams {
		for lo := 0; lo < len(f.ps); lo += progChunk {
			hi := lo + progChunk
			if hi > len(f.ps) {
				hi = len(f.ps)
			}
			works = append(works, &chunkWork{fam: f, ps: f.ps[lo:hi]})
		}
	}
	nchunks := len(works)
	jobs := make([]job, nchunks)
	var rejected int64
	var mu sync.Mutex
	core.Parallel(nchunks, 8, func(ci int) {
		w := works[ci]
		// a program esbuild rejects is not this property's business: drop it from the chunk
		src := chunkSource(w.ps)
		if _, err := transform(src, api.LoaderJS, false, false, false, false, nil); err != nil {
			var ok []*progCase
			for _, p := range w.ps {
				if _, err := transform("globalThis.main0 = "+p.fn+";", api.LoaderJS, true, false, false, false, nil); err != nil {
					mu.Lock()
					rejected++
					if rejected <= 5 {
						r.Logf("esbuild rejects a generated program (%v):\n%s", err, p.fn)
					}
					mu.Unlock()
					p.bad = true
					continue
				}
				ok = append(ok, p)
			}
			w.ps = ok
		}
		j := job{ID: fmt.Sprintf("prog%d", ci), Srcs: []string{w.fam.input(w.ps)}}
		for k, p := range w.ps {
			want := []int{}
			for _, row := range p.Rows {
				want = append(want, row[0]*table.Q+row[1])
			}
			j.Units = append(j.Units, unit{ID: p.id, Call: fmt.Sprintf("main%d(__env.a, __env.b)", k), EnvSet: envSetOf(p.Kind), Want: want,
				NoG: !strings.Contains(p.fn, "G"), NoO: !strings.Contains(p.fn, "o.") && !strings.Contains(p.fn, "o[") && !strings.Contains(p.fn, "o?")})
		}
		w.plain, w.outs, w.vidx, w.sref = w.fam.outputs(r, ci, w.ps)
		j.Srcs = append(j.Srcs, w.outs...)
		jobs[ci] = j
	})
	in := table.nodeInput()
	in.Jobs = jobs
	results := runNode(r, in, 8, time.Duration(r.Pick(10, 40))*time.Minute)

	var validated, specUnk, nontrivial, evals int64
	labelCount := map[string]int{}
	var pends []pend
	for ci, w := range works {
		variants := w.fam.variants
		evals += int64(len(w.ps)) * int64(len(w.outs)) * int64(len(table.Rows))
		jr := results[jobs[ci].ID]
		if jr == nil {
			continue
		}
		badVariant := map[int]string{}
		for _, e := range jr.Errors {
			if e.Variant == 0 {
				r.Infra("V8 rejected a generated input chunk: %s\n%s", e.Error, jobs[ci].Srcs[0])
			} else if e.Unit == "" {
				badVariant[e.Variant] = e.Error
			}
		}
		for v, msg := range badVariant {
			vr := variants[w.vidx[v-1]]
			r.Violation(map[string]interface{}{"kind": "output-error", "variant": vr.name, "chunk": core.Hash(jobs[ci].Srcs[0])},
				fmt.Sprintf("the output for options %s does not run although the input does: %s", vr.name, msg),
				map[string]interface{}{"input": jobs[ci].Srcs[0], "output": jobs[ci].Srcs[v], "options": vr.options(), "error": msg})
		}
		// which programs did the syntax minifier change?
		var segS, segP map[string]string
		if w.sref >= 0 {
			segS = segments(w.outs[w.sref])
		}
		segP = segments(w.plain)
		for ui := range jr.Units {
			ur := &jr.Units[ui]
			p := w.ps[ui]
			// (1) specification vs V8 on the input
			for ri, row := range p.Rows {
				got, ok := ur.Traces[envKey(row[0]*table.Q+row[1])]
				if !ok {
					continue
				}
				exp := &p.Expect[ri]
				if exp.C == "unk" {
					specUnk++
					continue
				}
				if want := exp.canonical(); want != got {
					p.bad = true
					r.Drift("JsSem and V8 disagree on the input program (row %v)\n%s\n  spec: %s\n  V8:   %s", row, p.fn, want, got)
				} else {
					validated++
				}
			}
			changed := segS != nil && segS[fmt.Sprint(ui)] != segP[fmt.Sprint(ui)]
			nt := len(p.Labels) > 0 && changed
			r.Case(p.id, nt)
			if nt {
				nontrivial++
			}
			for _, l := range p.Labels {
				labelCount[l]++
			}
			if p.bad {
				continue
			}
			// (2) V8 on the input vs V8 on the output
			for _, m := range ur.Mismatches {
				pends = append(pends, pend{p: p, v: variants[w.vidx[m.Variant-1]], m: m, out: jobs[ci].Srcs[m.Variant], unit: ui})
			}
			if ui == 0 && ci%20 == 0 {
				r.Sample(map[string]interface{}{"kind": "program", "family": p.Kind, "source": p.fn, "labels": p.Labels,
					"spec_trace_row0": p.Expect[0].canonical(), "v8_trace_row0": ur.Traces[envKey(p.Rows[0][0]*table.Q+p.Rows[0][1])]})
			}
		}
	}
	// a mismatch is a violation when the specification confirms V8's trace of the INPUT in that environment
	confirmMismatches(r, table, pends)
	nprogs := len(uniq) + len(cxs) + len(xcs)
	r.AddEvaluations(evals)
	r.AddTraces(validated)
	r.Set("programs", nprogs)
	r.Set("programs_rejected_by_esbuild", rejected)
	r.Set("environments_per_program", len(table.Rows))
	r.Set("spec_rows_validated_against_v8", validated)
	r.Set("spec_rows_not_exact", specUnk)
	r.Set("programs_nontrivial", nontrivial)
	r.Set("pattern_class_counts", labelCount)
	for _, c := range requiredClasses {
		if labelCount[c] == 0 {
			r.Infra("pattern class %q is not inhabited by the generated programs", c)
		}
	}
	r.Logf("programs: %d distinct, %d changed by the minifier and in a pattern class; %d spec rows validated against V8, %d rows not exact in the spec, %d rejected by esbuild", nprogs, nontrivial, validated, specUnk, rejected)
}

var requiredClasses = []string{"not-over-comparison", "known-truthiness", "if-with-jump", "single-use-substitution",
	"unused-expression", "typeof-guard", "optional-chain-nullish"}

// a V8-input vs V8-output disagreement waiting for the specification's word
type pend struct {
	p    *progCase
	v    variant
	m    mismatch
	out  string // the whole output chunk
	unit int    // index of the program in its chunk
}

func (x *pend) report(r *core.Run, table *envTable, specTrace string) {
	row := []int{x.m.Env / table.Q, x.m.Env % table.Q}
	outSeg := segments(x.out)[fmt.Sprint(x.unit)]
	if outSeg == "" {
		outSeg = x.out
	}
	r.Violation(map[string]interface{}{"kind": "prog", "prog": x.p.id, "source": x.p.fn, "variant": x.v.name},
		fmt.Sprintf("minified program behaves differently (options %s, environment row %v):\n%s\n  input : %s\n  output: %s", x.v.name, row, x.p.fn, x.m.Input, x.m.Output),
		map[string]interface{}{"input": "globalThis.main = " + x.p.fn + ";", "reference_prelude": referencePrelude(x.p.Kind), "output_program": outSeg, "options": x.v.options(), "env_row": row, "q": table.Q,
			"v8_input": x.m.Input, "v8_output": x.m.Output, "spec": specTrace, "labels": x.p.Labels, "family": x.p.Kind, "prog_ast": x.p.RawProg})
}

// confirmMismatches applies the verdict rule: a V8-in/V8-out disagreement is a
// violation only if JsSem predicts V8's trace of the INPUT in that environment
// (evaluated by the generator for K rows; for the other rows TLC is asked now).
func confirmMismatches(r *core.Run, table *envTable, pends []pend) {
	if len(pends) == 0 {
		return
	}
	type req struct {
		ID   int             `json:"id"`
		Prog json.RawMessage `json:"prog"`
		Rows [][]int         `json:"rows"`
		Grid int             `json:"grid"` // 1: the rows are over CxGrid
	}
	gridOf := func(kind string) int {
		if envSetOf(kind) == "c" {
			return 1
		}
		return 0
	}
	var reqs []req
	var asked []*pend
	done := map[string]bool{}
	maxReq := r.Pick(150, 600)
	unasked := 0
	directRow := func(x *pend) int {
		i0, j0 := x.m.Env/table.Q, x.m.Env%table.Q
		for ri, row := range x.p.Rows {
			if row[0] == i0 && row[1] == j0 {
				return ri
			}
		}
		return -1
	}
	// first the mismatches in rows the generator already evaluated
	for i := range pends {
		x := &pends[i]
		key := x.p.id + "/" + x.v.name
		if d := directRow(x); d >= 0 && !done[key] && x.p.Expect[d].C != "unk" {
			done[key] = true
			x.report(r, table, x.p.Expect[d].canonical())
		}
	}
	for i := range pends {
		x := &pends[i]
		key := x.p.id + "/" + x.v.name
		if done[key] || directRow(x) >= 0 {
			continue // reported, or judged by V8 only in that row (no second witness)
		}
		i0, j0 := x.m.Env/table.Q, x.m.Env%table.Q
		if len(reqs) >= maxReq {
			unasked++
			continue
		}
		done[key] = true
		reqs = append(reqs, req{ID: len(reqs) + 1, Prog: x.p.RawProg, Rows: [][]int{{i0, j0}}, Grid: gridOf(x.p.Kind)})
		asked = append(asked, x)
	}
	if len(reqs) == 0 {
		return
	}
	var nd strings.Builder
	for _, q := range reqs {
		b, _ := json.Marshal(q)
		nd.Write(b)
		nd.WriteByte('\n')
	}
	type ans struct {
		Spec   string    `json:"spec"`
		Idx    int       `json:"idx"`
		Expect []outcome `json:"expect"`
	}
	answers := map[int]*ans{}
	var mu sync.Mutex
	// the requests name rows of THIS run's environment table: the evaluation must use the same Q
	evalCfg, err := os.ReadFile(filepath.Join(r.Verif, "spec", "cfg", "JsSemGen.eval.cfg"))
	if err != nil {
		r.Infra("cannot read JsSemGen.eval.cfg: %v", err)
		return
	}
	cfgQ := regexp.MustCompile(`(?m)^(\s*Q\s*=\s*).*$`).ReplaceAllString(string(evalCfg), "${1}"+fmt.Sprint(table.Q))
	res := tlcrun.MustHold(r, tlcrun.Options{Module: "JsSemGen", Config: "JsSemGen.eval.cfg", Workers: 4, TimeoutSec: r.Pick(600, 1800), XssMB: 256, HeapGB: 2,
		Files: map[string]string{"c03_eval.ndjson": nd.String(), "JsSemGen.eval.cfg": cfgQ},
		OnCase: func(raw []byte) {
			var a ans
			if json.Unmarshal(raw, &a) == nil && a.Spec == "JsSemReq" {
				mu.Lock()
				answers[a.Idx] = &a
				mu.Unlock()
			}
		}})
	if res == nil {
		return
	}
	confirmed, notExact := 0, 0
	for k, x := range asked {
		a := answers[k+1]
		if a == nil || len(a.Expect) != 1 {
			r.Infra("no on-demand specification verdict for a mismatch of program %s", x.p.id)
			continue
		}
		if a.Expect[0].C == "unk" {
			notExact++
			continue
		}
		spec := a.Expect[0].canonical()
		if spec != x.m.Input {
			r.Drift("JsSem and V8 disagree on the input program (on-demand row)\n%s\n  spec: %s\n  V8:   %s", x.p.fn, spec, x.m.Input)
			continue
		}
		confirmed++
		x.report(r, table, spec)
	}
	r.Set("mismatches_confirmed_on_demand", confirmed)
	r.Set("mismatches_not_exact_in_spec", notExact)
	r.Set("mismatches_not_asked", unasked)
}

// ---- define / pure / drop / drop-labels ----

type optCase struct {
	Idx    int       `json:"idx"`
	Dv     Val       `json:"dv"`
	Prog   []node    `json:"prog"`
	Keep   []node    `json:"keep"`
	Drop   []node    `json:"drop"`
	Rows   [][]int   `json:"rows"`
	Expect []outcome `json:"expect"` // rows of keep, then rows of drop
}

func optTransform(src string, dv Val, v variant) (string, error) {
	return transform(src, api.LoaderJS, v.syntax, v.whitespace, v.identifiers, v.keepNames, func(o *api.TransformOptions) {
		o.Define = map[string]string{"DEF": strings.Trim(dv.JS(), "()")}
		o.Pure = []string{"f"}
		o.Drop = api.DropConsole | api.DropDebugger
		o.DropLabels = []string{"DEV"}
	})
}

// events of a canonical trace string
func splitTrace(t string) ([]string, string) {
	i := strings.LastIndex(t, "|")
	if i < 0 {
		return nil, t
	}
	if t[:i] == "" {
		return nil, t[i+1:]
	}
	return strings.Split(t[:i], ";"), t[i+1:]
}

// betweenKeepAndDrop: the output trace must be the keep trace minus some calls of the
// pure function f that the drop trace does not have either (any subset of the unused
// pure calls may be removed), with the same completion
func betweenKeepAndDrop(keep, drop, out string) bool {
	ke, kc := splitTrace(keep)
	de, dc := splitTrace(drop)
	oe, oc := splitTrace(out)
	if oc != kc && oc != dc {
		return false
	}
	sub := func(small, big []string) bool { // small is a subsequence of big, the skipped events being calls of f
		j := 0
		for _, e := range big {
			if j < len(small) && small[j] == e {
				j++
			} else if !strings.HasPrefix(e, "f(") {
				return false
			}
		}
		return j == len(small)
	}
	return sub(oe, ke) && sub(de, oe)
}

// optionsBinding: programs with marked identifiers / calls / labels; the reference is the
// program after the requested substitutions (computed by JsSemProgs!Reference)
func optionsBinding(r *core.Run, table *envTable, cases []*optCase) {
	if len(cases) == 0 {
		return
	}
	variants := []variant{{name: "none"}, {name: "S", syntax: true}, {name: "SWI", syntax: true, whitespace: true, identifiers: true}}
	if r.Thorough() {
		variants = append(variants, variant{name: "W", whitespace: true}, variant{name: "I", identifiers: true}, variant{name: "SW+keep", syntax: true, whitespace: true, keepNames: true})
	}
	byDv := map[int][]*optCase{}
	for _, c := range cases {
		byDv[c.Idx] = append(byDv[c.Idx], c)
	}
	var jobs []job
	type meta struct {
		cs   []*optCase
		mode string // keep | drop
	}
	metas := map[string]meta{}
	for dvi, cs := range byDv {
		sort.Slice(cs, func(i, j int) bool { return function(cs[i].Prog) < function(cs[j].Prog) })
		var orig, keep, drop strings.Builder
		var units []unit
		for k, c := range cs {
			fmt.Fprintf(&orig, "globalThis.main%d = %s;\n", k, function(c.Prog))
			fmt.Fprintf(&keep, "globalThis.main%d = %s;\n", k, function(c.Keep))
			fmt.Fprintf(&drop, "globalThis.main%d = %s;\n", k, function(c.Drop))
			want := []int{}
			for _, row := range c.Rows {
				want = append(want, row[0]*table.Q+row[1])
			}
			units = append(units, unit{ID: fmt.Sprint(k), Call: fmt.Sprintf("main%d(__env.a, __env.b)", k), EnvSet: "q", Want: want})
		}
		var outs []string
		for _, v := range variants {
			out, err := optTransform(orig.String(), cs[0].Dv, v)
			if err != nil {
				r.Infra("esbuild rejected the define/pure/drop chunk (DEF=%s, %s): %v", cs[0].Dv.Ser(), v.name, err)
				outs = append(outs, "throw new Error('transform failed')")
				continue
			}
			outs = append(outs, out)
		}
		for _, mode := range []string{"keep", "drop"} {
			ref := keep.String()
			if mode == "drop" {
				ref = drop.String()
			}
			id := fmt.Sprintf("opt-%d-%s", dvi, mode)
			jobs = append(jobs, job{ID: id, Srcs: append([]string{ref}, outs...), Units: units})
			metas[id] = meta{cs: cs, mode: mode}
		}
	}
	in := table.nodeInput()
	in.Jobs = jobs
	in.MaxMis = 1000
	results := runNode(r, in, 4, 10*time.Minute)
	nOK, nCases := 0, 0
	for dvi, cs := range byDv {
		kr, dr := results[fmt.Sprintf("opt-%d-keep", dvi)], results[fmt.Sprintf("opt-%d-drop", dvi)]
		if kr == nil || dr == nil {
			continue
		}
		for _, e := range append(append([]jobErr{}, kr.Errors...), dr.Errors...) {
			if e.Variant == 0 {
				r.Infra("V8 rejected a reference program of the define/pure/drop family: %s", e.Error)
			} else {
				r.Violation(map[string]interface{}{"kind": "opt-output-error", "variant": variants[e.Variant-1].name, "define": cs[0].Dv.Ser()},
					"the output of the define/pure/drop chunk does not run: "+e.Error, map[string]interface{}{"error": e.Error})
			}
		}
		for k, c := range cs {
			nCases++
			ku, du := &kr.Units[k], &dr.Units[k]
			// spec vs V8 on the reference programs
			drift := false
			for ri, row := range c.Rows {
				ek := envKey(row[0]*table.Q + row[1])
				for half, ur := range []*unitRes{ku, du} {
					exp := &c.Expect[half*len(c.Rows)+ri]
					if got, ok := ur.Traces[ek]; ok && exp.C != "unk" && exp.canonical() != got {
						drift = true
						r.Drift("JsSem and V8 disagree on a reference program (define/pure/drop family)\n%s\n  spec: %s\n  V8:   %s", function(c.Keep), exp.canonical(), got)
					}
				}
			}
			src := function(c.Prog)
			if k == 5 && dvi == 1 {
				r.Sample(map[string]interface{}{"kind": "define/pure/drop", "source": src, "define": c.Dv.Ser(), "reference": function(c.Keep), "spec_trace_row0": c.Expect[0].canonical()})
			}
			id := core.Hash(src + c.Dv.Ser())
			r.Case(id, function(c.Keep) != src)
			if drift {
				continue
			}
			// output vs reference: equal to keep, or to drop, or between them
			dropBy := map[[2]int]mismatch{}
			for _, m := range du.Mismatches {
				dropBy[[2]int{m.Variant, m.Env}] = m
			}
			bad := false
			for _, m := range ku.Mismatches {
				d, both := dropBy[[2]int{m.Variant, m.Env}]
				if !both {
					continue // equals the drop reference in this environment
				}
				if betweenKeepAndDrop(m.Input, d.Input, m.Output) {
					continue
				}
				bad = true
				v := variants[m.Variant-1]
				out, _ := optTransform("globalThis.main = "+src+";", c.Dv, v)
				r.Violation(map[string]interface{}{"kind": "opt", "source": src, "define": c.Dv.Ser(), "variant": v.name},
					fmt.Sprintf("with define DEF=%s, pure:f, drop:console,debugger, drop-labels:DEV (minify %s) the output does not behave like the program after the requested substitutions:\n%s\n  reference (pure calls kept)   : %s\n  reference (unused pure dropped): %s\n  output                         : %s",
						c.Dv.Ser(), v.name, src, m.Input, d.Input, m.Output),
					map[string]interface{}{"input": "globalThis.main = " + src + ";", "output": out, "reference_keep": function(c.Keep), "reference_drop": function(c.Drop),
						"options": map[string]interface{}{"define": map[string]string{"DEF": c.Dv.JS()}, "pure": []string{"f"}, "drop": []string{"console", "debugger"}, "dropLabels": []string{"DEV"}, "minify": v.options()},
						"env_row": []int{m.Env / table.Q, m.Env % table.Q}, "v8_reference_keep": m.Input, "v8_reference_drop": d.Input, "v8_output": m.Output})
				break
			}
			if !bad {
				nOK++
			}
		}
	}
	r.AddEvaluations(int64(nCases * len(variants) * len(table.Rows)))
	r.Set("option_programs", nCases)
	r.Logf("define/pure/drop/drop-labels: %d (program, define value) cases x %d minify sets, %d behave like their reference", nCases, len(variants), nOK)
}

// namesBinding: with keep-names, .name of functions and classes is part of the observable
// behaviour even when identifiers are minified
func namesBinding(r *core.Run, cases []nameCase) {
	if len(cases) == 0 {
		return
	}
	var variants []variant
	for m := 0; m < 8; m++ {
		s, w, i := m&1 != 0, m&2 != 0, m&4 != 0
		if !r.Thorough() && !(i && (s == w)) { // quick: {I}, {S,W,I}
			continue
		}
		variants = append(variants, variant{name: flagName(s, w, i) + "+keep", syntax: s, whitespace: w, identifiers: i, keepNames: true})
	}
	variants = append(variants, variant{name: "SI+keep+bundle", syntax: true, identifiers: true, keepNames: true, bundle: true})
	var src strings.Builder
	var units []unit
	for k, c := range cases {
		fmt.Fprintf(&src, "globalThis.main%d = function(a, b) { %s };\n", k, c.Body)
		units = append(units, unit{ID: fmt.Sprint(k), Call: fmt.Sprintf("main%d()", k), Want: "all"})
	}
	j := job{ID: "names", Srcs: []string{src.String()}, Units: units}
	for _, v := range variants {
		out, err := build(src.String(), v)
		if err != nil {
			r.Infra("esbuild rejected the keep-names chunk under %s: %v", v.name, err)
			return
		}
		j.Srcs = append(j.Srcs, out)
	}
	results := runNode(r, nodeIn{Budget: 16, Jobs: []job{j}}, 1, 5*time.Minute)
	jr := results["names"]
	if jr == nil {
		return
	}
	for _, e := range jr.Errors {
		if e.Variant == 0 {
			r.Infra("V8 rejected the keep-names input chunk: %s", e.Error)
			return
		}
		r.Violation(map[string]interface{}{"kind": "names-output-error", "variant": variants[e.Variant-1].name},
			"the keep-names output chunk does not run: "+e.Error, map[string]interface{}{"input": src.String(), "output": j.Srcs[e.Variant], "error": e.Error})
	}
	ok := 0
	for k, c := range cases {
		ur := &jr.Units[k]
		r.Case("names/"+c.Body, true)
		want := "|ret:" + quoteJS(c.Name)
		if got := ur.Traces["0"]; got != want {
			r.Drift("keep-names case %q: the specification says %s, V8 says %s", c.Body, want, got)
			continue
		}
		bad := false
		for _, m := range ur.Mismatches {
			bad = true
			v := variants[m.Variant-1]
			one := fmt.Sprintf("globalThis.main = function(a, b) { %s };", c.Body)
			out, _ := build(one, v)
			r.Violation(map[string]interface{}{"kind": "names", "body": c.Body, "variant": v.name},
				fmt.Sprintf("with keep-names (%s) the .name observed by %q changes: input %s, output %s", v.name, c.Body, m.Input, m.Output),
				map[string]interface{}{"input": one, "output": out, "options": v.options(), "v8_input": m.Input, "v8_output": m.Output, "spec": want})
		}
		if !bad {
			ok++
		}
	}
	r.AddEvaluations(int64(len(cases) * len(variants)))
	r.Set("keep_names_programs", len(cases))
	r.Logf("keep-names: %d programs x %d option sets, %d keep their names", len(cases), len(variants), ok)
}
