package c03

import (
	"encoding/json"
	"fmt"
	"os"
	"path/filepath"
	"regexp"
	"sort"
	"strings"
	"sync"
	"time"

	"github.com/evanw/esbuild/pkg/api"

	"verifharness/core"
	"verifharness/tlcrun"
)

// the environment table exported once by JsSemGen (EnvTable)
type envRow struct {
	P  []int `json:"p"`
	A  int   `json:"a"`
	B  int   `json:"b"`
	G  int   `json:"g"`
	Ok int   `json:"ok"`
}

type envTable struct {
	Q        int      `json:"q"`
	Grid     []Val    `json:"grid"`
	Rows     []envRow `json:"rows"`
	Objs     []objDef `json:"objs"` // ids 1..n
	MaxCalls int      `json:"maxcalls"`
}

// one generated program with the spec's prediction for K environment rows
type progCase struct {
	Kind   string    `json:"kind"`
	Idx    int       `json:"idx"`
	Prog   []node    `json:"prog"`
	Labels []string  `json:"labels"`
	Rows   [][]int   `json:"rows"`
	Expect []outcome `json:"expect"`
	RawProg json.RawMessage `json:"-"`

	fn  string // function(a, b) {...}
	id  string
	bad bool // spec drift or input rejected: excluded from the verdict
}

type variant struct {
	name                                       string
	syntax, whitespace, identifiers, keepNames bool
	bundle                                     bool
}

func (v variant) options() map[string]interface{} {
	return map[string]interface{}{"minifySyntax": v.syntax, "minifyWhitespace": v.whitespace, "minifyIdentifiers": v.identifiers, "keepNames": v.keepNames, "bundle": v.bundle}
}

func flagName(s, w, i bool) string {
	n := ""
	if s {
		n += "S"
	}
	if w {
		n += "W"
	}
	if i {
		n += "I"
	}
	if n == "" {
		n = "none"
	}
	return n
}

func variantsFor(r *core.Run) []variant {
	if r.Thorough() {
		var vs []variant
		for m := 0; m < 8; m++ {
			s, w, i := m&1 != 0, m&2 != 0, m&4 != 0
			vs = append(vs, variant{name: flagName(s, w, i), syntax: s, whitespace: w, identifiers: i})
			vs = append(vs, variant{name: flagName(s, w, i) + "+keep", syntax: s, whitespace: w, identifiers: i, keepNames: true})
		}
		vs = append(vs, variant{name: "SWI+bundle", syntax: true, whitespace: true, identifiers: true, bundle: true})
		vs = append(vs, variant{name: "S+bundle", syntax: true, bundle: true})
		return vs
	}
	// quick: {syntax}, {syntax, identifiers, whitespace} + one seeded other subset, keep-names on one of them, one bundle
	others := [][3]bool{{false, true, false}, {false, false, true}, {true, true, false}, {true, false, true}, {false, true, true}, {false, false, false}}
	o := others[int(r.Seed)%len(others)]
	return []variant{
		{name: "S", syntax: true},
		{name: "SWI", syntax: true, whitespace: true, identifiers: true},
		{name: flagName(o[0], o[1], o[2]) + "+keep", syntax: o[0], whitespace: o[1], identifiers: o[2], keepNames: true},
		{name: "SI+bundle", syntax: true, identifiers: true, bundle: true},
	}
}

func build(src string, v variant) (string, error) {
	if !v.bundle {
		return transform(src, api.LoaderJS, v.syntax, v.whitespace, v.identifiers, v.keepNames, nil)
	}
	res := api.Build(api.BuildOptions{
		Stdin:             &api.StdinOptions{Contents: src, Sourcefile: "entry.js", Loader: api.LoaderJS, ResolveDir: os.TempDir()},
		Bundle:            true,
		Write:             false,
		Format:            api.FormatIIFE,
		MinifySyntax:      v.syntax,
		MinifyWhitespace:  v.whitespace,
		MinifyIdentifiers: v.identifiers,
		KeepNames:         v.keepNames,
		LogLevel:          api.LogLevelSilent,
	})
	if len(res.Errors) > 0 {
		return "", fmt.Errorf("%s", res.Errors[0].Text)
	}
	if len(res.OutputFiles) != 1 {
		return "", fmt.Errorf("expected one output file, got %d", len(res.OutputFiles))
	}
	return string(res.OutputFiles[0].Contents), nil
}

var reMain = regexp.MustCompile(`globalThis\.main(\d+)\s*=`)

// segments splits a chunk output into the text of each program
func segments(out string) map[string]string {
	m := map[string]string{}
	loc := reMain.FindAllStringSubmatchIndex(out, -1)
	for i, l := range loc {
		end := len(out)
		if i+1 < len(loc) {
			end = loc[i+1][0]
		}
		m[out[l[2]:l[3]]] = strings.TrimRight(out[l[1]:end], " \t\r\n,;")
	}
	return m
}

func chunkSource(ps []*progCase) string {
	var b strings.Builder
	for k, p := range ps {
		fmt.Fprintf(&b, "globalThis.main%d = %s;\n", k, p.fn)
	}
	return b.String()
}

// generate runs the TLC generator for this tier and seed
func generate(r *core.Run, cfgName string, subst map[string]string) (*envTable, []*progCase, *tlcrun.Result) {
	cfgPath := filepath.Join(r.Verif, "spec", "cfg", cfgName)
	raw, err := os.ReadFile(cfgPath)
	if err != nil {
		r.Infra("cannot read %s: %v", cfgPath, err)
		return nil, nil, nil
	}
	cfg := string(raw)
	for k, v := range subst {
		re := regexp.MustCompile(`(?m)^(\s*` + k + `\s*=\s*).*$`)
		cfg = re.ReplaceAllString(cfg, "${1}"+v)
	}
	var table *envTable
	var progs []*progCase
	var mu sync.Mutex
	res := tlcrun.MustHold(r, tlcrun.Options{Module: "JsSemGen", Config: cfgName, Workers: 5, TimeoutSec: r.Pick(600, 3000), XssMB: 256,
		Files: map[string]string{cfgName: cfg},
		OnCase: func(raw []byte) {
			var head struct {
				Spec string `json:"spec"`
			}
			if err := json.Unmarshal(raw, &head); err != nil {
				r.Infra("undecodable case: %v", err)
				return
			}
			mu.Lock()
			defer mu.Unlock()
			if head.Spec == "JsSemEnvs" {
				var t envTable
				if err := json.Unmarshal(raw, &t); err != nil {
					r.Infra("undecodable environment table: %v", err)
					return
				}
				table = &t
				return
			}
			var p progCase
			if err := json.Unmarshal(raw, &p); err != nil {
				r.Infra("undecodable program case: %v", err)
				return
			}
			var rp struct {
				Prog json.RawMessage `json:"prog"`
			}
			json.Unmarshal(raw, &rp)
			p.RawProg = rp.Prog
			progs = append(progs, &p)
		}})
	// TLC's workers print in a schedule-dependent order
	sort.Slice(progs, func(i, j int) bool {
		if progs[i].Kind != progs[j].Kind {
			return progs[i].Kind < progs[j].Kind
		}
		return progs[i].Idx < progs[j].Idx
	})
	return table, progs, res
}

func (t *envTable) nodeInput() nodeIn {
	in := nodeIn{Budget: t.MaxCalls, Vals: t.Grid, Objs: map[string]objDef{}, EnvSets: map[string][]envRec{}}
	for i, o := range t.Objs {
		in.Objs[fmt.Sprint(i+1)] = o
	}
	envs := make([]envRec, len(t.Rows))
	for i, row := range t.Rows {
		e := envRec{P: make([]int, len(row.P)+1), A: row.A - 1, B: row.B - 1, G: row.G - 1, Ok: row.Ok - 1}
		for n, x := range row.P {
			e.P[n+1] = x - 1
		}
		envs[i] = e
	}
	in.EnvSets["q"] = envs
	return in
}

const progChunk = 100

type chunkWork struct {
	ps    []*progCase
	outs  []string // per variant
	vidx  []int    // node variant number (>= 1) -> variant index
	plain string
}

// programBinding replays the generated programs into the real minifier and V8
func programBinding(r *core.Run, cfgName string) {
	table, progs, res := generate(r, cfgName, map[string]string{"Seed": fmt.Sprint(r.Seed)})
	if res == nil || table == nil || len(progs) == 0 {
		r.Infra("the program generator exported nothing")
		return
	}
	r.Set("tlc_"+strings.TrimSuffix(cfgName, ".cfg"), map[string]interface{}{"generated": res.Generated, "distinct": res.Distinct, "cases": len(progs)})
	variants := variantsFor(r)
	vnames := []string{}
	for _, v := range variants {
		vnames = append(vnames, v.name)
	}
	r.Set("option_sets", vnames)

	// render, de-duplicate
	seen := map[string]bool{}
	var uniq []*progCase
	kinds := map[string]int{}
	for _, p := range progs {
		p.fn = function(p.Prog)
		p.id = core.Hash(p.fn)
		if seen[p.id] {
			continue
		}
		seen[p.id] = true
		uniq = append(uniq, p)
		kinds[p.Kind]++
	}
	r.Set("programs_by_family", kinds)
	r.Logf("programs: %d generated, %d distinct; %d environments each (Q=%d); variants %v", len(progs), len(uniq), len(table.Rows), table.Q, vnames)

	nchunks := (len(uniq) + progChunk - 1) / progChunk
	works := make([]*chunkWork, nchunks)
	jobs := make([]job, nchunks)
	var rejected int64
	var mu sync.Mutex
	core.Parallel(nchunks, 8, func(ci int) {
		lo, hi := ci*progChunk, (ci+1)*progChunk
		if hi > len(uniq) {
			hi = len(uniq)
		}
		w := &chunkWork{ps: uniq[lo:hi]}
		// a program esbuild rejects is not this property's business: drop it from the chunk
		var ok []*progCase
		src := chunkSource(w.ps)
		if _, err := transform(src, api.LoaderJS, false, false, false, false, nil); err != nil {
			for _, p := range w.ps {
				if _, err := transform("globalThis.main0 = "+p.fn+";", api.LoaderJS, true, false, false, false, nil); err != nil {
					mu.Lock()
					rejected++
					if rejected <= 5 {
						r.Logf("esbuild rejects a generated program (%v):\n%s", err, p.fn)
					}
					mu.Unlock()
					p.bad = true
					continue
				}
				ok = append(ok, p)
			}
			w.ps = ok
			src = chunkSource(w.ps)
		}
		j := job{ID: fmt.Sprintf("prog%d", ci), Srcs: []string{src}}
		for k, p := range w.ps {
			want := []int{}
			for _, row := range p.Rows {
				want = append(want, row[0]*table.Q+row[1])
			}
			j.Units = append(j.Units, unit{ID: p.id, Call: fmt.Sprintf("main%d(__env.a, __env.b)", k), EnvSet: "q", Want: want,
				NoG: !strings.Contains(p.fn, "G"), NoO: !strings.Contains(p.fn, "o.") && !strings.Contains(p.fn, "o[") && !strings.Contains(p.fn, "o?")})
		}
		w.plain, _ = transform(src, api.LoaderJS, false, false, false, false, nil)
		for vi, v := range variants {
			if v.bundle && !r.Thorough() && ci%4 != 0 {
				continue // quick: api.Build for a subset of the chunks
			}
			out, err := build(src, v)
			if err != nil {
				mu.Lock()
				r.Infra("esbuild rejected a chunk under %s that it accepts without minification: %v", v.name, err)
				mu.Unlock()
				continue
			}
			w.outs = append(w.outs, out)
			w.vidx = append(w.vidx, vi)
			j.Srcs = append(j.Srcs, out)
		}
		works[ci] = w
		jobs[ci] = j
	})
	in := table.nodeInput()
	in.Jobs = jobs
	results := runNode(r, in, 8, time.Duration(r.Pick(10, 40))*time.Minute)

	var validated, specUnk, nontrivial int64
	labelCount := map[string]int{}
	var pends []pend
	for ci, w := range works {
		jr := results[jobs[ci].ID]
		if jr == nil {
			continue
		}
		badVariant := map[int]string{}
		for _, e := range jr.Errors {
			if e.Variant == 0 {
				r.Infra("V8 rejected a generated input chunk: %s\n%s", e.Error, jobs[ci].Srcs[0])
			} else if e.Unit == "" {
				badVariant[e.Variant] = e.Error
			}
		}
		for v, msg := range badVariant {
			vr := variants[w.vidx[v-1]]
			r.Violation(map[string]interface{}{"kind": "output-error", "variant": vr.name, "chunk": core.Hash(jobs[ci].Srcs[0])},
				fmt.Sprintf("the output for options %s does not run although the input does: %s", vr.name, msg),
				map[string]interface{}{"input": jobs[ci].Srcs[0], "output": jobs[ci].Srcs[v], "options": vr.options(), "error": msg})
		}
		// which programs did the syntax minifier change?
		var segS, segP map[string]string
		for k, vi := range w.vidx {
			if variants[vi].syntax && !variants[vi].whitespace && !variants[vi].bundle && !variants[vi].identifiers {
				segS = segments(w.outs[k])
			}
		}
		segP = segments(w.plain)
		for ui := range jr.Units {
			ur := &jr.Units[ui]
			p := w.ps[ui]
			// (1) specification vs V8 on the input
			for ri, row := range p.Rows {
				got, ok := ur.Traces[envKey(row[0]*table.Q+row[1])]
				if !ok {
					continue
				}
				exp := &p.Expect[ri]
				if exp.C == "unk" {
					specUnk++
					continue
				}
				if want := exp.canonical(); want != got {
					p.bad = true
					r.Drift("JsSem and V8 disagree on the input program (row %v)\n%s\n  spec: %s\n  V8:   %s", row, p.fn, want, got)
				} else {
					validated++
				}
			}
			changed := segS != nil && segS[fmt.Sprint(ui)] != segP[fmt.Sprint(ui)]
			nt := len(p.Labels) > 0 && changed
			r.Case(p.id, nt)
			if nt {
				nontrivial++
			}
			for _, l := range p.Labels {
				labelCount[l]++
			}
			if p.bad {
				continue
			}
			// (2) V8 on the input vs V8 on the output
			for _, m := range ur.Mismatches {
				pends = append(pends, pend{p: p, v: variants[w.vidx[m.Variant-1]], m: m, out: jobs[ci].Srcs[m.Variant], unit: ui})
			}
			if ui == 0 && ci%97 == 0 {
				r.Sample(map[string]interface{}{"kind": "program", "family": p.Kind, "source": p.fn, "labels": p.Labels,
					"spec_trace_row0": p.Expect[0].canonical(), "v8_trace_row0": ur.Traces[envKey(p.Rows[0][0]*table.Q+p.Rows[0][1])]})
			}
		}
	}
	// a mismatch is a violation when the specification confirms V8's trace of the INPUT in that environment
	confirmMismatches(r, table, pends)
	r.AddEvaluations(int64(len(uniq)) * int64(len(variants)) * int64(len(table.Rows)))
	r.AddTraces(validated)
	r.Set("programs", len(uniq))
	r.Set("programs_rejected_by_esbuild", rejected)
	r.Set("environments_per_program", len(table.Rows))
	r.Set("spec_rows_validated_against_v8", validated)
	r.Set("spec_rows_not_exact", specUnk)
	r.Set("programs_nontrivial", nontrivial)
	r.Set("pattern_class_counts", labelCount)
	for _, c := range requiredClasses {
		if labelCount[c] == 0 {
			r.Infra("pattern class %q is not inhabited by the generated programs", c)
		}
	}
	r.Logf("programs: %d distinct, %d changed by the minifier and in a pattern class; %d spec rows validated against V8, %d rows not exact in the spec, %d rejected by esbuild", len(uniq), nontrivial, validated, specUnk, rejected)
}

var requiredClasses = []string{"not-over-comparison", "known-truthiness", "if-with-jump", "single-use-substitution",
	"unused-expression", "typeof-guard", "optional-chain-nullish"}

// a V8-input vs V8-output disagreement waiting for the specification's word
type pend struct {
	p    *progCase
	v    variant
	m    mismatch
	out  string // the whole output chunk
	unit int    // index of the program in its chunk
}

func (x *pend) report(r *core.Run, table *envTable, specTrace string) {
	row := []int{x.m.Env / table.Q, x.m.Env % table.Q}
	outSeg := segments(x.out)[fmt.Sprint(x.unit)]
	if outSeg == "" {
		outSeg = x.out
	}
	r.Violation(map[string]interface{}{"kind": "prog", "prog": x.p.id, "source": x.p.fn, "variant": x.v.name},
		fmt.Sprintf("minified program behaves differently (options %s, environment row %v):\n%s\n  input : %s\n  output: %s", x.v.name, row, x.p.fn, x.m.Input, x.m.Output),
		map[string]interface{}{"input": "globalThis.main = " + x.p.fn + ";", "output_program": outSeg, "options": x.v.options(), "env_row": row,
			"v8_input": x.m.Input, "v8_output": x.m.Output, "spec": specTrace, "labels": x.p.Labels, "family": x.p.Kind})
}

// confirmMismatches applies the verdict rule: a V8-in/V8-out disagreement is a
// violation only if JsSem predicts V8's trace of the INPUT in that environment
// (evaluated by the generator for K rows; for the other rows TLC is asked now).
func confirmMismatches(r *core.Run, table *envTable, pends []pend) {
	if len(pends) == 0 {
		return
	}
	type req struct {
		ID   int             `json:"id"`
		Prog json.RawMessage `json:"prog"`
		Rows [][]int         `json:"rows"`
	}
	var reqs []req
	var asked []*pend
	done := map[string]bool{}
	maxReq := r.Pick(150, 600)
	unasked := 0
	directRow := func(x *pend) int {
		i0, j0 := x.m.Env/table.Q, x.m.Env%table.Q
		for ri, row := range x.p.Rows {
			if row[0] == i0 && row[1] == j0 {
				return ri
			}
		}
		return -1
	}
	// first the mismatches in rows the generator already evaluated
	for i := range pends {
		x := &pends[i]
		key := x.p.id + "/" + x.v.name
		if d := directRow(x); d >= 0 && !done[key] && x.p.Expect[d].C != "unk" {
			done[key] = true
			x.report(r, table, x.p.Expect[d].canonical())
		}
	}
	for i := range pends {
		x := &pends[i]
		key := x.p.id + "/" + x.v.name
		if done[key] || directRow(x) >= 0 {
			continue // reported, or judged by V8 only in that row (no second witness)
		}
		i0, j0 := x.m.Env/table.Q, x.m.Env%table.Q
		if len(reqs) >= maxReq {
			unasked++
			continue
		}
		done[key] = true
		reqs = append(reqs, req{ID: len(reqs) + 1, Prog: x.p.RawProg, Rows: [][]int{{i0, j0}}})
		asked = append(asked, x)
	}
	if len(reqs) == 0 {
		return
	}
	var nd strings.Builder
	for _, q := range reqs {
		b, _ := json.Marshal(q)
		nd.Write(b)
		nd.WriteByte('\n')
	}
	type ans struct {
		Spec   string    `json:"spec"`
		Idx    int       `json:"idx"`
		Expect []outcome `json:"expect"`
	}
	answers := map[int]*ans{}
	var mu sync.Mutex
	res := tlcrun.MustHold(r, tlcrun.Options{Module: "JsSemGen", Config: "JsSemGen.eval.cfg", Workers: 4, TimeoutSec: 600, XssMB: 256,
		Files: map[string]string{"c03_eval.ndjson": nd.String()},
		OnCase: func(raw []byte) {
			var a ans
			if json.Unmarshal(raw, &a) == nil && a.Spec == "JsSemReq" {
				mu.Lock()
				answers[a.Idx] = &a
				mu.Unlock()
			}
		}})
	if res == nil {
		return
	}
	confirmed, notExact := 0, 0
	for k, x := range asked {
		a := answers[k+1]
		if a == nil || len(a.Expect) != 1 {
			r.Infra("no on-demand specification verdict for a mismatch of program %s", x.p.id)
			continue
		}
		if a.Expect[0].C == "unk" {
			notExact++
			continue
		}
		spec := a.Expect[0].canonical()
		if spec != x.m.Input {
			r.Drift("JsSem and V8 disagree on the input program (on-demand row)\n%s\n  spec: %s\n  V8:   %s", x.p.fn, spec, x.m.Input)
			continue
		}
		confirmed++
		x.report(r, table, spec)
	}
	r.Set("mismatches_confirmed_on_demand", confirmed)
	r.Set("mismatches_not_exact_in_spec", notExact)
	r.Set("mismatches_not_asked", unasked)
}
