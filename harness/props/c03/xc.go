package c03

import (
	"fmt"
	"os"
	"path/filepath"
	"regexp"
	"strings"

	"github.com/evanw/esbuild/pkg/api"

	"verifharness/core"
)

// The outer-constant family ("xc", JsSemProgs!XcDescs): the programs mention constants
// K1, K0, KT, KF, KA, KE, KN, KU that are bound OUTSIDE the function (JsSem: ECConst).
// The reference that V8 runs is the single script `const K1 = 1, ...;` + the functions.
// The real code sees the same programs with the constants realised as
//   import   `export const` of another module, entry bundled (cross-module constant inlining,
//            print-time folding after substitution)
//   enum     members of a TypeScript `enum` / `const enum` exported by another file (numbers and
//            strings; the other constants stay `export const`), entry bundled
//   define   free identifiers replaced through the `define` option of api.Transform
//   samefile the reference script itself through api.Transform
// In each realisation the language (module bindings are initialised before the importer runs,
// enum members are constants) resp. the definition of `define` gives every K its value, which
// is what the specification's reference semantics says.

type outerConst struct{ name, js string }

var outerConsts = []outerConst{{"K1", "1"}, {"K0", "0"}, {"KT", "true"}, {"KF", "false"}, {"KA", `"a"`}, {"KE", `""`}, {"KN", "null"}, {"KU", "void 0"}}

func constDecls(export string, only func(c outerConst) bool) string {
	var parts []string
	for _, c := range outerConsts {
		if only == nil || only(c) {
			parts = append(parts, c.name+" = "+c.js)
		}
	}
	if len(parts) == 0 {
		return ""
	}
	return export + "const " + strings.Join(parts, ", ") + ";\n"
}

// referencePrelude is what precedes the functions in the script V8 runs as the input
func referencePrelude(kind string) string {
	if kind == "xc" {
		return constDecls("", nil)
	}
	return ""
}

func isEnumable(c outerConst) bool { return c.name == "K1" || c.name == "K0" || c.name == "KA" || c.name == "KE" }

var reEnumable = regexp.MustCompile(`\b(K1|K0|KA|KE)\b`)

func xcVariants(r *core.Run) []variant {
	if r.Thorough() {
		return []variant{
			{name: "import+bundle", bundle: true, mode: "import"},
			{name: "S+import+bundle", syntax: true, bundle: true, mode: "import"},
			{name: "SW+import+bundle", syntax: true, whitespace: true, bundle: true, mode: "import"},
			{name: "SWI+import+bundle", syntax: true, whitespace: true, identifiers: true, bundle: true, mode: "import"},
			{name: "I+import+bundle", identifiers: true, bundle: true, mode: "import"},
			{name: "enum+bundle", bundle: true, mode: "enum"},
			{name: "S+enum+bundle", syntax: true, bundle: true, mode: "enum"},
			{name: "SWI+enum+bundle", syntax: true, whitespace: true, identifiers: true, bundle: true, mode: "enum"},
			{name: "S+constenum+bundle", syntax: true, bundle: true, mode: "constenum"},
			{name: "define", mode: "define"},
			{name: "S+define", syntax: true, mode: "define"},
			{name: "SWI+define", syntax: true, whitespace: true, identifiers: true, mode: "define"},
			{name: "S+samefile", syntax: true, mode: "samefile"},
			{name: "SWI+samefile+bundle", syntax: true, whitespace: true, identifiers: true, bundle: true, mode: "samefile"},
		}
	}
	// quick: syntax minification of each realisation + one seeded wider flag set on the bundles
	wide := []variant{
		{name: "SWI+import+bundle", syntax: true, whitespace: true, identifiers: true, bundle: true, mode: "import"},
		{name: "SI+enum+bundle", syntax: true, identifiers: true, bundle: true, mode: "enum"},
		{name: "SW+constenum+bundle", syntax: true, whitespace: true, bundle: true, mode: "constenum"},
	}
	return []variant{
		{name: "S+import+bundle", syntax: true, bundle: true, mode: "import"},
		{name: "S+enum+bundle", syntax: true, bundle: true, mode: "enum"},
		{name: "S+define", syntax: true, mode: "define"},
		wide[int(r.Seed)%len(wide)],
	}
}

// buildXc builds the functions `funcs` (script text defining globalThis.main<k>) with the outer
// constants realised per v.mode; dir is a private scratch directory
func buildXc(funcs string, v variant, dir string) (string, error) {
	common := func(o *api.BuildOptions) {
		o.Bundle = true
		o.Write = false
		o.Format = api.FormatIIFE
		o.MinifySyntax, o.MinifyWhitespace, o.MinifyIdentifiers, o.KeepNames = v.syntax, v.whitespace, v.identifiers, v.keepNames
		o.LogLevel = api.LogLevelSilent
	}
	one := func(res api.BuildResult) (string, error) {
		if len(res.Errors) > 0 {
			return "", fmt.Errorf("%s", res.Errors[0].Text)
		}
		if len(res.OutputFiles) != 1 {
			return "", fmt.Errorf("expected one output file, got %d", len(res.OutputFiles))
		}
		return string(res.OutputFiles[0].Contents), nil
	}
	names := []string{}
	for _, c := range outerConsts {
		names = append(names, c.name)
	}
	switch v.mode {
	case "define":
		return transform(funcs, api.LoaderJS, v.syntax, v.whitespace, v.identifiers, v.keepNames, func(o *api.TransformOptions) {
			o.Define = map[string]string{}
			for _, c := range outerConsts {
				o.Define[c.name] = c.js
			}
			o.Define["KU"] = "undefined" // a define value must be an entity name or a literal
		})
	case "samefile":
		src := constDecls("", nil) + funcs
		if !v.bundle {
			return transform(src, api.LoaderJS, v.syntax, v.whitespace, v.identifiers, v.keepNames, nil)
		}
		o := api.BuildOptions{Stdin: &api.StdinOptions{Contents: src, Sourcefile: "entry.js", Loader: api.LoaderJS, ResolveDir: dir}}
		common(&o)
		return one(api.Build(o))
	case "import":
		if err := os.WriteFile(filepath.Join(dir, "consts.js"), []byte(constDecls("export ", nil)), 0644); err != nil {
			return "", err
		}
		entry := "import { " + strings.Join(names, ", ") + " } from './consts.js';\n" + funcs
		if err := os.WriteFile(filepath.Join(dir, "entry.js"), []byte(entry), 0644); err != nil {
			return "", err
		}
		o := api.BuildOptions{EntryPoints: []string{filepath.Join(dir, "entry.js")}}
		common(&o)
		return one(api.Build(o))
	case "enum", "constenum":
		kw := "export enum"
		if v.mode == "constenum" {
			kw = "export const enum"
		}
		var members []string
		for _, c := range outerConsts {
			if isEnumable(c) {
				members = append(members, c.name+" = "+c.js)
			}
		}
		lib := kw + " E { " + strings.Join(members, ", ") + " }\n" + constDecls("export ", func(c outerConst) bool { return !isEnumable(c) })
		if err := os.WriteFile(filepath.Join(dir, "enums.ts"), []byte(lib), 0644); err != nil {
			return "", err
		}
		entry := "import { E, KT, KF, KN, KU } from './enums';\n" + reEnumable.ReplaceAllString(funcs, "E.$1")
		if err := os.WriteFile(filepath.Join(dir, "entry.ts"), []byte(entry), 0644); err != nil {
			return "", err
		}
		o := api.BuildOptions{EntryPoints: []string{filepath.Join(dir, "entry.ts")}}
		common(&o)
		return one(api.Build(o))
	}
	return "", fmt.Errorf("unknown realisation %q of the outer constants", v.mode)
}

func xcFamily(r *core.Run, ps []*progCase) *family {
	variants := xcVariants(r)
	f := &family{name: "xc", ps: ps, variants: variants}
	f.input = func(ps []*progCase) string { return constDecls("", nil) + chunkSource(ps) }
	f.outputs = func(r *core.Run, ci int, ps []*progCase) (string, []string, []int, int) {
		funcs := chunkSource(ps)
		var outs []string
		var vidx []int
		sref := -1
		plain := ""
		for vi, v := range variants {
			dir := filepath.Join(r.Scratch, fmt.Sprintf("xc-%d-%d", ci, vi))
			if err := os.MkdirAll(dir, 0755); err != nil {
				r.Infra("cannot create %s: %v", dir, err)
				continue
			}
			out, err := buildXc(funcs, v, dir)
			if err != nil {
				r.Infra("esbuild rejected an outer-constant chunk under %s: %v", v.name, err)
				continue
			}
			if sref < 0 && v.syntax && !v.whitespace && !v.identifiers && v.mode == "import" {
				pv := v
				pv.syntax = false
				if p, err := buildXc(funcs, pv, dir); err == nil {
					plain, sref = p, len(outs)
				}
			}
			outs = append(outs, out)
			vidx = append(vidx, vi)
		}
		return plain, outs, vidx, sref
	}
	return f
}

var _ = core.Hash
