package c03

import (
	"encoding/json"
	"fmt"
	"regexp"
	"sort"
	"strings"
	"sync"
	"time"

	"github.com/evanw/esbuild/pkg/api"

	"verifharness/core"
	"verifharness/tlcrun"
)

// one cell of the fold tables exported by spec/JsFoldMC.tla
type foldCase struct {
	Ar     int    `json:"ar"`
	Op     string `json:"op"`
	A      Val    `json:"a"`
	B      Val    `json:"b"`
	Expect Val    `json:"expect"`
	Exact  bool   `json:"exact"`
}

func (c *foldCase) expr() string {
	if c.Ar == 1 {
		return "(" + c.Op + " " + c.A.JS() + ")"
	}
	return "(" + c.A.JS() + " " + c.Op + " " + c.B.JS() + ")"
}

type foldCtx struct {
	name   string
	loader api.Loader
	// wrap builds one script evaluating the expressions es[k] into the globals x<k>
	wrap  func(es []string) string
	flags [3]bool // syntax, whitespace, identifiers
}

func transform(src string, loader api.Loader, syntax, whitespace, identifiers, keepNames bool, more func(*api.TransformOptions)) (string, error) {
	o := api.TransformOptions{
		Loader:            loader,
		MinifySyntax:      syntax,
		MinifyWhitespace:  whitespace,
		MinifyIdentifiers: identifiers,
		KeepNames:         keepNames,
		LogLevel:          api.LogLevelSilent,
	}
	if more != nil {
		more(&o)
	}
	res := api.Transform(src, o)
	if len(res.Errors) > 0 {
		return "", fmt.Errorf("%s", res.Errors[0].Text)
	}
	return string(res.Code), nil
}

func wrapAssign(es []string) string {
	var b strings.Builder
	for k, e := range es {
		fmt.Fprintf(&b, "x%d = %s;\n", k, e)
	}
	return b.String()
}

// const declarations at the start of a scope: esbuild folds their initializers
// like TypeScript constant expressions and inlines them
func wrapConst(es []string) string {
	var b strings.Builder
	for k, e := range es {
		fmt.Fprintf(&b, "const c%d = %s;\n", k, e)
	}
	for k := range es {
		fmt.Fprintf(&b, "x%d = c%d;\n", k, k)
	}
	return b.String()
}

func wrapEnum(es []string) string {
	var b strings.Builder
	b.WriteString("enum En {\n")
	for k, e := range es {
		fmt.Fprintf(&b, "  A%d = %s,\n", k, e)
	}
	b.WriteString("}\n")
	for k := range es {
		fmt.Fprintf(&b, "x%d = En.A%d;\n", k, k)
	}
	return b.String()
}

func wrapConstFn(es []string) string {
	var b strings.Builder
	for k, e := range es {
		fmt.Fprintf(&b, "x%d = (function(){ const c = %s; return c })();\n", k, e)
	}
	return b.String()
}

func wrapArg(es []string) string {
	var b strings.Builder
	for k, e := range es {
		fmt.Fprintf(&b, "x%d = (function(v){ return v })(%s);\n", k, e)
	}
	return b.String()
}

// linesAbout collects the output lines that mention the k-th case
func linesAbout(out string, k int) string {
	re := regexp.MustCompile(fmt.Sprintf(`\b[xcA]%d\b`, k))
	var b strings.Builder
	for _, l := range strings.Split(out, "\n") {
		if re.MatchString(l) {
			b.WriteString(l)
			b.WriteByte('\n')
		}
	}
	return b.String()
}

const foldChunk = 150

// foldBinding: every (op, a, b) of the boundary grid is given to the real
// minifier in the contexts where esbuild evaluates expressions at compile time;
// input and output are evaluated by V8; JsFold's exact value is the third witness.
func foldBinding(r *core.Run) {
	var cases []foldCase
	res := tlcrun.MustHold(r, tlcrun.Options{Module: "JsFoldMC", Config: "JsFoldMC.grid.cfg", Workers: 3, TimeoutSec: 600, XssMB: 256, HeapGB: 2,
		OnCase: func(raw []byte) {
			var c foldCase
			if err := json.Unmarshal(raw, &c); err != nil {
				r.Infra("undecodable fold case: %v", err)
				return
			}
			cases = append(cases, c)
		}})
	if res == nil || len(cases) == 0 {
		r.Infra("the fold generator exported no cases")
		return
	}
	r.Set("tlc_fold_grid", map[string]interface{}{"generated": res.Generated, "distinct": res.Distinct, "cases": len(cases)})
	// TLC's workers print in a schedule-dependent order
	sort.Slice(cases, func(i, j int) bool {
		a, b := &cases[i], &cases[j]
		if a.Op != b.Op {
			return a.Op < b.Op
		}
		if a.Ar != b.Ar {
			return a.Ar < b.Ar
		}
		if x, y := a.A.Ser(), b.A.Ser(); x != y {
			return x < y
		}
		return a.B.Ser() < b.B.Ser()
	})

	ctxs := []foldCtx{
		{"assign", api.LoaderJS, wrapAssign, [3]bool{true, false, false}},
		{"const", api.LoaderJS, wrapConstFn, [3]bool{true, false, false}},
		{"ts-enum", api.LoaderTS, wrapEnum, [3]bool{true, false, false}},
		{"assign-min", api.LoaderJS, wrapAssign, [3]bool{true, true, true}},
	}
	if r.Thorough() {
		ctxs = append(ctxs,
			foldCtx{"ts-const", api.LoaderTS, wrapConstFn, [3]bool{true, false, false}},
			foldCtx{"ts-enum-min", api.LoaderTS, wrapEnum, [3]bool{true, true, true}},
			foldCtx{"const-top", api.LoaderJS, wrapConst, [3]bool{true, false, false}},
			foldCtx{"arg", api.LoaderJS, wrapArg, [3]bool{true, false, false}},
			foldCtx{"const-min", api.LoaderJS, wrapConstFn, [3]bool{true, true, true}},
		)
	}

	nchunks := (len(cases) + foldChunk - 1) / foldChunk
	type prepared struct {
		lo, hi int
		ctxOf  []int    // variant index-1 -> ctx index
		outs   []string // per variant-1
		plains []string
	}
	preps := make([]prepared, nchunks)
	jobs := make([]job, nchunks)
	var skipped int64
	var mu sync.Mutex
	core.Parallel(nchunks, 8, func(ci int) {
		lo, hi := ci*foldChunk, (ci+1)*foldChunk
		if hi > len(cases) {
			hi = len(cases)
		}
		es := make([]string, hi-lo)
		j := job{ID: fmt.Sprintf("fold%d", ci)}
		for k := lo; k < hi; k++ {
			es[k-lo] = cases[k].expr()
			j.Units = append(j.Units, unit{ID: fmt.Sprint(k), Call: fmt.Sprintf("x%d", k-lo), Want: "all", Tol: cases[k].Op == "**"})
		}
		j.Srcs = []string{wrapAssign(es)}
		p := prepared{lo: lo, hi: hi}
		for k, cx := range ctxs {
			src := cx.wrap(es)
			out, err := transform(src, cx.loader, cx.flags[0], cx.flags[1], cx.flags[2], false, nil)
			if err != nil {
				mu.Lock()
				skipped++
				r.Infra("esbuild rejected a fold chunk in context %s: %v", cx.name, err)
				mu.Unlock()
				continue
			}
			plain, _ := transform(src, cx.loader, false, false, false, false, nil)
			j.Srcs = append(j.Srcs, out)
			p.ctxOf = append(p.ctxOf, k)
			p.outs = append(p.outs, out)
			p.plains = append(p.plains, plain)
		}
		jobs[ci] = j
		preps[ci] = p
	})
	results := runNode(r, nodeIn{Budget: 16, Jobs: jobs}, 8, 5*time.Minute)
	var folded, inexact int
	for ci := range jobs {
		p := &preps[ci]
		jr := results[jobs[ci].ID]
		if jr == nil {
			continue // infra already reported
		}
		badVariant := map[int]string{}
		for _, e := range jr.Errors {
			if e.Variant == 0 {
				r.Infra("V8 rejected an input fold chunk: %s", e.Error)
			} else {
				badVariant[e.Variant] = e.Error
			}
		}
		for v, msg := range badVariant {
			cx := ctxs[p.ctxOf[v-1]]
			r.Violation(map[string]interface{}{"kind": "fold-output-error", "ctx": cx.name, "chunk": ci},
				fmt.Sprintf("the minified output of a fold chunk (context %s) does not run: %s", cx.name, msg),
				map[string]interface{}{"output": jobs[ci].Srcs[v], "error": msg})
		}
		for ui := range jr.Units {
			ur := &jr.Units[ui]
			c := &cases[p.lo+ui]
			input, ok := ur.Traces["0"]
			if !ok {
				continue
			}
			drift := false
			if c.Exact {
				if want := "|ret:" + c.Expect.Ser(); input != want {
					drift = true
					r.Drift("JsFold says %s = %s, V8 says %s", c.expr(), want, input)
				}
			} else {
				inexact++
			}
			for v := range p.ctxOf {
				cx := ctxs[p.ctxOf[v]]
				changed := !cx.flags[1] && linesAbout(p.outs[v], ui) != linesAbout(p.plains[v], ui)
				r.Case(fmt.Sprintf("fold/%s/%s/%s/%s", cx.name, c.Op, c.A.Ser(), c.B.Ser()), changed)
				if changed {
					folded++
				}
			}
			if drift {
				continue
			}
			for _, m := range ur.Mismatches {
				cx := ctxs[p.ctxOf[m.Variant-1]]
				spec := "not defined exactly by JsFold (V8 only)"
				if c.Exact {
					spec = c.Expect.Ser()
				}
				key := map[string]interface{}{"kind": "fold", "op": c.Op, "a": c.A.Ser(), "ctx": cx.name}
				if c.Ar == 2 {
					key["b"] = c.B.Ser()
				}
				single := cx.wrap([]string{c.expr()})
				singleOut, _ := transform(single, cx.loader, cx.flags[0], cx.flags[1], cx.flags[2], false, nil)
				r.Violation(key,
					fmt.Sprintf("compile-time evaluation of %s in context %q gives %s; ECMAScript (V8 on the input) gives %s; JsFold: %s", c.expr(), cx.name, m.Output, m.Input, spec),
					map[string]interface{}{"input": single, "output": singleOut, "v8_input": m.Input, "v8_output": m.Output, "jsfold": spec, "context": cx.name,
						"loader": map[api.Loader]string{api.LoaderJS: "js", api.LoaderTS: "ts"}[cx.loader], "minify": cx.flags})
			}
			if (p.lo+ui)%4000 == 7 {
				r.Sample(map[string]interface{}{"kind": "fold", "expr": c.expr(), "jsfold": c.Expect.Ser(), "exact": c.Exact, "v8": input})
			}
		}
	}
	r.AddTraces(int64(len(cases)))
	r.Set("fold_cases", len(cases))
	r.Set("fold_contexts", len(ctxs))
	r.Set("fold_outputs_changed_by_minifier", folded)
	r.Set("fold_cases_not_exact_in_spec", inexact)
	r.Set("fold_transform_errors_skipped", skipped)
	r.Logf("fold: %d cases x %d contexts, %d outputs changed by the minifier, %d cells judged by V8 only", len(cases), len(ctxs), folded, inexact)
}
