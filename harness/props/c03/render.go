package c03

import (
	"fmt"
	"strings"
)

// node is the exported form of a JsSem AST node (JsSemGen!Export)
type node struct {
	K  string `json:"k"`
	Op string `json:"op,omitempty"`
	N  int    `json:"n,omitempty"`
	V  *Val   `json:"v,omitempty"`
	A  []node `json:"a,omitempty"`
}

func primary(n *node) bool {
	switch n.K {
	case "probe", "var", "glob", "rec", "mem", "idx", "optmem", "hcall", "gdef", "tpl", "cconst":
		return true
	case "lit", "comma":
		return true // Val.JS parenthesises negative numbers itself; a comma expression is rendered in parentheses
	}
	return false
}

func operand(n *node) string {
	if primary(n) {
		return expr(n)
	}
	return "(" + expr(n) + ")"
}

// base of a member expression: literals need parentheses (1.k is a syntax error)
func memberBase(n *node) string {
	switch n.K {
	case "probe", "var", "glob", "rec", "mem", "idx", "hcall", "gdef", "cconst":
		return expr(n)
	}
	return "(" + expr(n) + ")"
}

// argument of a call: `...[e]` cannot be parenthesised
func argument(n *node) string {
	if n.K == "sprd" {
		return "...[" + expr(&n.A[0]) + "]"
	}
	return operand(n)
}

func expr(n *node) string {
	switch n.K {
	case "lit":
		return n.V.JS()
	case "probe":
		args := []string{fmt.Sprint(n.N)}
		for i := range n.A {
			args = append(args, argument(&n.A[i]))
		}
		return "p(" + strings.Join(args, ", ") + ")"
	case "hcall":
		args := []string{}
		for i := range n.A {
			args = append(args, argument(&n.A[i]))
		}
		return n.Op + "(" + strings.Join(args, ", ") + ")"
	case "tpl":
		return "`" + n.Op + "${" + expr(&n.A[0]) + "}`"
	case "var", "glob", "rec", "gdef", "cconst":
		return n.Op
	case "un":
		return n.Op + " " + operand(&n.A[0])
	case "bin", "log":
		return operand(&n.A[0]) + " " + n.Op + " " + operand(&n.A[1])
	case "cond":
		return operand(&n.A[0]) + " ? " + operand(&n.A[1]) + " : " + operand(&n.A[2])
	case "comma":
		return "(" + operand(&n.A[0]) + ", " + operand(&n.A[1]) + ")"
	case "asg":
		return expr(&n.A[0]) + " " + n.Op + " " + operand(&n.A[1])
	case "mem":
		return memberBase(&n.A[0]) + ".k"
	case "optmem":
		return memberBase(&n.A[0]) + "?.k"
	case "idx":
		return memberBase(&n.A[0]) + "[" + expr(&n.A[1]) + "]"
	case "del":
		return "delete " + operand(&n.A[0])
	}
	panic("cannot render expression node " + n.K)
}

func simpleStmt(n *node) bool {
	switch n.K {
	case "expr", "ret", "throw", "break", "continue", "empty", "debugger":
		return true
	}
	return false
}

func body(n *node, ind string) string {
	if n.K == "block" {
		return stmt(n, ind)
	}
	if simpleStmt(n) {
		return stmt(n, ind)
	}
	return "{\n" + ind + "  " + stmt(n, ind+"  ") + "\n" + ind + "}"
}

func stmts(ss []node, ind string) string {
	var b strings.Builder
	for i := range ss {
		b.WriteString(ind)
		b.WriteString(stmt(&ss[i], ind))
		b.WriteString("\n")
	}
	return b.String()
}

func stmt(n *node, ind string) string {
	switch n.K {
	case "expr":
		e := expr(&n.A[0])
		return e + ";"
	case "empty":
		return ";"
	case "debugger":
		return "debugger;"
	case "ret":
		if len(n.A) == 0 {
			return "return;"
		}
		return "return " + expr(&n.A[0]) + ";"
	case "throw":
		return "throw " + expr(&n.A[0]) + ";"
	case "decl":
		kw := []string{"var", "let", "const"}[n.N]
		if n.A[0].K == "none" {
			return kw + " " + n.Op + ";"
		}
		return kw + " " + n.Op + " = " + expr(&n.A[0]) + ";"
	case "if":
		s := "if (" + expr(&n.A[0]) + ") " + body(&n.A[1], ind)
		if len(n.A) == 3 {
			s += " else " + body(&n.A[2], ind)
		}
		return s
	case "block":
		if len(n.A) == 0 {
			return "{}"
		}
		return "{\n" + stmts(n.A, ind+"  ") + ind + "}"
	case "while":
		return "while (" + expr(&n.A[0]) + ") " + body(&n.A[1], ind)
	case "dowhile":
		return "do " + body(&n.A[0], ind) + " while (" + expr(&n.A[1]) + ");"
	case "for":
		init, test, upd := "", "", ""
		if n.A[0].K != "none" {
			init = strings.TrimSuffix(stmt(&n.A[0], ind), ";")
		}
		if n.A[1].K != "none" {
			test = expr(&n.A[1])
		}
		if n.A[2].K != "none" {
			upd = expr(&n.A[2])
		}
		return "for (" + init + "; " + test + "; " + upd + ") " + body(&n.A[3], ind)
	case "break", "continue":
		if n.Op != "" {
			return n.K + " " + n.Op + ";"
		}
		return n.K + ";"
	case "label":
		return n.Op + ": " + stmt(&n.A[0], ind)
	case "switch":
		var b strings.Builder
		b.WriteString("switch (" + expr(&n.A[0]) + ") {\n")
		for i := 1; i < len(n.A); i++ {
			c := &n.A[i]
			if c.K == "default" {
				b.WriteString(ind + "  default:\n")
				b.WriteString(stmts(c.A, ind+"    "))
			} else {
				b.WriteString(ind + "  case " + expr(&c.A[0]) + ":\n")
				b.WriteString(stmts(c.A[1:], ind+"    "))
			}
		}
		b.WriteString(ind + "}")
		return b.String()
	case "try":
		s := "try " + stmt(&n.A[0], ind)
		if n.A[1].K != "none" {
			s += " catch (" + n.Op + ") " + stmt(&n.A[1], ind)
		}
		if n.A[2].K != "none" {
			s += " finally " + stmt(&n.A[2], ind)
		}
		return s
	}
	panic("cannot render statement node " + n.K)
}

func walk(n *node, f func(*node)) {
	f(n)
	for i := range n.A {
		walk(&n.A[i], f)
	}
}

// function renders a program (statement list) as the body of function (a, b);
// locals that the program uses without declaring them are declared up front
// (JsSem: every local starts as undefined)
func function(prog []node) string {
	used, declared := map[string]bool{}, map[string]bool{}
	for i := range prog {
		walk(&prog[i], func(n *node) {
			if n.K == "var" && n.Op != "a" && n.Op != "b" {
				used[n.Op] = true
			}
			if n.K == "decl" {
				declared[n.Op] = true
			}
			if n.K == "try" && n.A[1].K != "none" {
				declared[n.Op] = true
			}
		})
	}
	pro := ""
	for _, nm := range []string{"x", "y", "i", "e"} {
		if used[nm] && !declared[nm] {
			pro += "  var " + nm + ";\n"
		}
	}
	return "function(a, b) {\n" + pro + stmts(prog, "  ") + "}"
}

// ---- expected traces ----

type event struct {
	E string `json:"e"`
	I int    `json:"i"`
	K []int  `json:"k"`
	V []Val  `json:"v"`
}

type outcome struct {
	C  string  `json:"c"` // ret | throw | unk
	V  Val     `json:"v"`
	Tr []event `json:"tr"`
}

func keyString(k []int) string { return quoteJS(Val{T: "str", S: k}.str()) }

// canonical is the trace string that node/run_probes.js produces for the same run
func (o *outcome) canonical() string {
	parts := make([]string, 0, len(o.Tr))
	for _, e := range o.Tr {
		switch e.E {
		case "p":
			s := fmt.Sprintf("p(%d", e.I)
			for _, a := range e.V {
				s += "," + a.Ser()
			}
			parts = append(parts, s+")")
		case "f", "console.log":
			args := []string{}
			for _, a := range e.V {
				args = append(args, a.Ser())
			}
			parts = append(parts, e.E+"("+strings.Join(args, ",")+")")
		case "valueOf":
			parts = append(parts, fmt.Sprintf("valueOf#%d", e.I))
		case "toString":
			parts = append(parts, fmt.Sprintf("toString#%d", e.I))
		case "get":
			parts = append(parts, "get:"+keyString(e.K))
		case "del":
			parts = append(parts, "del:"+keyString(e.K))
		case "set":
			parts = append(parts, "set:"+keyString(e.K)+"="+e.V[0].Ser())
		default:
			parts = append(parts, "?"+e.E)
		}
	}
	return strings.Join(parts, ";") + "|" + o.C + ":" + o.V.Ser()
}
