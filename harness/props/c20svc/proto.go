// Package c20svc is the stdio-service part of the C20 check: a protocol
// client drives the real `esbuild --service` child process with concurrent
// logical clients; the packet-level history of every session is validated by
// TLC against spec/ServiceTrace.tla (Service.tla with silent internal steps).
package c20svc

import (
	"encoding/binary"
	"errors"
	"sort"
)

// The binary packet format of cmd/esbuild/stdio_protocol.go, re-implemented
// (values: nil, bool, int (uint32), string, []byte, []interface{},
// map[string]interface{}; a packet is a length-prefixed (id<<1 | isResponse)
// followed by one value).

type packet struct {
	id        uint32
	isRequest bool
	value     interface{}
}

func putU32(b []byte, v uint32) []byte {
	return append(b, byte(v), byte(v>>8), byte(v>>16), byte(v>>24))
}

func encodeValue(b []byte, value interface{}) []byte {
	switch v := value.(type) {
	case nil:
		b = append(b, 0)
	case bool:
		n := byte(0)
		if v {
			n = 1
		}
		b = append(b, 1, n)
	case int:
		b = append(b, 2)
		b = putU32(b, uint32(v))
	case string:
		b = append(b, 3)
		b = putU32(b, uint32(len(v)))
		b = append(b, v...)
	case []byte:
		b = append(b, 4)
		b = putU32(b, uint32(len(v)))
		b = append(b, v...)
	case []interface{}:
		b = append(b, 5)
		b = putU32(b, uint32(len(v)))
		for _, item := range v {
			b = encodeValue(b, item)
		}
	case map[string]interface{}:
		keys := make([]string, 0, len(v))
		for k := range v {
			keys = append(keys, k)
		}
		sort.Strings(keys)
		b = append(b, 6)
		b = putU32(b, uint32(len(keys)))
		for _, k := range keys {
			b = putU32(b, uint32(len(k)))
			b = append(b, k...)
			b = encodeValue(b, v[k])
		}
	default:
		panic("c20svc: value cannot be encoded")
	}
	return b
}

func encodePacket(p packet) []byte {
	b := make([]byte, 4, 64)
	if p.isRequest {
		b = putU32(b, p.id<<1)
	} else {
		b = putU32(b, (p.id<<1)|1)
	}
	b = encodeValue(b, p.value)
	binary.LittleEndian.PutUint32(b[:4], uint32(len(b)-4))
	return b
}

var errShort = errors.New("malformed packet")

type decoder struct{ b []byte }

func (d *decoder) u32() (uint32, error) {
	if len(d.b) < 4 {
		return 0, errShort
	}
	v := binary.LittleEndian.Uint32(d.b)
	d.b = d.b[4:]
	return v, nil
}

func (d *decoder) bytes() ([]byte, error) {
	n, err := d.u32()
	if err != nil || uint32(len(d.b)) < n {
		return nil, errShort
	}
	v := d.b[:n]
	d.b = d.b[n:]
	return v, nil
}

func (d *decoder) value() (interface{}, error) {
	if len(d.b) < 1 {
		return nil, errShort
	}
	kind := d.b[0]
	d.b = d.b[1:]
	switch kind {
	case 0:
		return nil, nil
	case 1:
		if len(d.b) < 1 {
			return nil, errShort
		}
		v := d.b[0] != 0
		d.b = d.b[1:]
		return v, nil
	case 2:
		v, err := d.u32()
		return int(v), err
	case 3:
		v, err := d.bytes()
		return string(v), err
	case 4:
		v, err := d.bytes()
		return append([]byte{}, v...), err
	case 5:
		n, err := d.u32()
		if err != nil {
			return nil, err
		}
		out := make([]interface{}, 0, n)
		for i := uint32(0); i < n; i++ {
			item, err := d.value()
			if err != nil {
				return nil, err
			}
			out = append(out, item)
		}
		return out, nil
	case 6:
		n, err := d.u32()
		if err != nil {
			return nil, err
		}
		out := make(map[string]interface{}, n)
		for i := uint32(0); i < n; i++ {
			k, err := d.bytes()
			if err != nil {
				return nil, err
			}
			item, err := d.value()
			if err != nil {
				return nil, err
			}
			out[string(k)] = item
		}
		return out, nil
	}
	return nil, errShort
}

// decodePacket decodes the body of a packet (without the length prefix)
func decodePacket(body []byte) (packet, error) {
	d := &decoder{b: body}
	id, err := d.u32()
	if err != nil {
		return packet{}, err
	}
	v, err := d.value()
	if err != nil {
		return packet{}, err
	}
	if len(d.b) != 0 {
		return packet{}, errShort
	}
	return packet{id: id >> 1, isRequest: id&1 == 0, value: v}, nil
}
