package c20svc

import (
	"fmt"
	"math/rand"
	"os"
	"path/filepath"
	"strings"
	"sync"
	"time"

	"verifharness/core"
)

// one session = one child process, k logical clients, one trace
type session struct {
	ID       int      `json:"id"`
	Seed     int64    `json:"seed"`
	Profile  string   `json:"profile"`
	Args     []string `json:"args"`
	Events   []event  `json:"-"`
	Log      []string `json:"log"`
	Requests int      `json:"requests"`
	Callback int      `json:"callbacks"`
	MaxIn    int      `json:"max_inflight"`

	Exited    bool           `json:"exited"`
	ExitCode  int            `json:"exit_code"`
	Closed    bool           `json:"stdin_closed"`
	NoExit    string         `json:"no_exit_cause,omitempty"` // stdin closed, process did not exit: why that is expected by the code
	Hang      string         `json:"hang,omitempty"`          // unexplained: no answer / no exit within the timeout
	Crash     string         `json:"crash,omitempty"`         // kind of crash
	Frame     string         `json:"frame,omitempty"`
	Stderr    string         `json:"stderr,omitempty"`
	ProtoErr  string         `json:"proto_err,omitempty"`
	HeldUsed  bool           `json:"held_used"`
	Cancelled int            `json:"cancelled_rebuilds"`
	Kinds     map[string]int `json:"kinds"`

	Pipe       map[string]interface{} `json:"pipe,omitempty"` // pipelining sessions: wave kinds, chunking, byte offsets
	HarnessErr string                 `json:"harness_err,omitempty"`
}

type sessionOpts struct {
	exe      string
	version  string
	scratch  string
	hold     time.Duration // how long a "held" on-start answer is kept back
	hangTime time.Duration // generous: no answer / no exit within this time is a hang candidate
	grace    time.Duration // how long to watch a process that is not obliged to exit
	race     bool
}

const projectA = `import "./b.js"
import "./c.js"
console.log("a")
`

var projectFiles = map[string]string{
	"a.js":    projectA,
	"b.js":    "import {d} from \"./d.js\"\nexport const b = d\n",
	"c.js":    "import \"./d.js\"\nexport const c = 1\n",
	"d.js":    "export const d = 1\n",
	"leaf.js": "export const leaf = 1\n",
	"e.js":    "console.log('e')\n",
}

func msg(text string) map[string]interface{} {
	return map[string]interface{}{"id": "", "pluginName": "verif", "text": text, "location": nil, "notes": []interface{}{}, "detail": -1}
}

type driver struct {
	c        *client
	o        sessionOpts
	s        *session
	rnd      *lockedRand
	dir      string
	keyMu    sync.Mutex
	nkey     int
	keys     []int // live context keys with their plug flag
	plugOf   map[int]string
	unsafe   bool // may send dispose while a cancel is outstanding (the crash scenario)
	profile  string
	deadline time.Time
	kinds    map[string]int
}

func (d *driver) newKey() int {
	d.keyMu.Lock()
	defer d.keyMu.Unlock()
	d.nkey++
	return d.nkey
}

func (d *driver) count(cmd, kind string) {
	d.keyMu.Lock()
	d.kinds[cmd+":"+kind]++
	d.keyMu.Unlock()
}

// plugins: "" none, "start" on-start/on-end only, "full" with on-resolve and on-load
func (d *driver) buildRequest(key int, isCtx bool, plug string, bad string, entry string) map[string]interface{} {
	flags := []interface{}{"--bundle", fmt.Sprintf("--outdir=out%d", key), "--log-level=silent", "--format=esm"}
	switch bad {
	case "flags":
		flags = append(flags, "--no-such-flag-verif")
	case "ctx":
		flags = []interface{}{"--external:x", fmt.Sprintf("--outdir=out%d", key), "--log-level=silent"}
	}
	req := map[string]interface{}{
		"command": "build", "key": key,
		"entries": []interface{}{[]interface{}{"", entry}},
		"flags":   flags, "write": d.rnd.Intn(2) == 0,
		"stdinContents": nil, "stdinResolveDir": nil,
		"absWorkingDir": d.dir, "nodePaths": []interface{}{}, "context": isCtx,
	}
	if plug != "" {
		p := map[string]interface{}{"name": "verif", "onStart": true, "onEnd": true, "onResolve": []interface{}{}, "onLoad": []interface{}{}}
		if plug == "full" {
			p["onResolve"] = []interface{}{map[string]interface{}{"id": 1, "filter": `^\./(d|leaf)`, "namespace": ""}}
			p["onLoad"] = []interface{}{map[string]interface{}{"id": 2, "filter": `[bc]\.js$`, "namespace": "file"}}
		}
		req["plugins"] = []interface{}{p}
	}
	return req
}

func (d *driver) call(cmd string, key int, v map[string]interface{}, isCtx, plug bool, bad string) string {
	ri, ok := d.c.send(cmd, key, v, isCtx, plug, bad)
	if !ok {
		return ""
	}
	k := await(ri, d.deadline)
	if k != "" {
		d.count(cmd, k)
	}
	return k
}

func (d *driver) fire(cmd string, key int) *reqInfo {
	ri, _ := d.c.send(cmd, key, map[string]interface{}{"command": cmd, "key": key}, false, false, "")
	return ri
}

func (d *driver) fireCancel(key int) *reqInfo {
	// safe mode: no cancel after the dispose of the key was sent
	d.c.mu.Lock()
	defer d.c.mu.Unlock()
	if !d.unsafe && d.c.disposed[key] {
		return nil
	}
	ri, _ := d.c.sendLocked("cancel", key, map[string]interface{}{"command": "cancel", "key": key}, false, false, "")
	return ri
}

func (d *driver) fireDispose(key int) *reqInfo {
	// safe mode: not while a cancel for the key is unanswered (see the known
	// finding about the cancel relay)
	for {
		d.c.mu.Lock()
		if d.unsafe || d.c.cancelsOut[key] == 0 || d.c.closed || d.c.dead {
			ri, _ := d.c.sendLocked("dispose", key, map[string]interface{}{"command": "dispose", "key": key}, false, false, "")
			d.c.mu.Unlock()
			return ri
		}
		d.c.mu.Unlock()
		if time.Now().After(d.deadline) {
			return nil
		}
		time.Sleep(200 * time.Microsecond)
	}
}

func (d *driver) awaitAll(ris []*reqInfo) {
	for _, ri := range ris {
		if ri != nil {
			if k := await(ri, d.deadline); k != "" {
				d.count(ri.cmd, k)
			}
		}
	}
}

func (d *driver) resolveRequest(key int, path string) map[string]interface{} {
	return map[string]interface{}{
		"command": "resolve", "key": key, "path": path, "pluginName": "verif", "importer": "",
		"namespace": "file", "resolveDir": d.dir, "kind": "import-statement", "pluginData": 0, "with": map[string]interface{}{},
	}
}

func (d *driver) edit() {
	tmp := filepath.Join(d.dir, fmt.Sprintf(".d.%d.tmp", d.rnd.Intn(1<<30)))
	os.WriteFile(tmp, []byte(fmt.Sprintf("export const d = %d\n", d.rnd.Intn(1000))), 0644)
	os.Rename(tmp, filepath.Join(d.dir, "d.js"))
}

func (d *driver) pickLive() (int, bool) {
	d.keyMu.Lock()
	defer d.keyMu.Unlock()
	if len(d.keys) == 0 {
		return 0, false
	}
	return d.keys[d.rnd.Intn(len(d.keys))], true
}

// the life of one context, driven by one logical client
func (d *driver) contextLife(plug string, steps int) {
	key := d.newKey()
	bad := ""
	if d.rnd.Intn(12) == 0 {
		bad = "ctx"
	}
	kind := d.call("build", key, d.buildRequest(key, true, plug, bad, "a.js"), true, plug != "", bad)
	if kind != "ok" {
		return
	}
	d.c.mu.Lock()
	d.c.liveCtx[key] = true
	d.c.mu.Unlock()
	d.keyMu.Lock()
	d.keys = append(d.keys, key)
	d.plugOf[key] = plug
	d.keyMu.Unlock()
	for i := 0; i < steps; i++ {
		switch x := d.rnd.Intn(100); {
		case x < 25:
			d.awaitAll([]*reqInfo{d.fire("rebuild", key)})
		case x < 60:
			// overlapping rebuilds, possibly with a cancel in the middle
			var ris []*reqInfo
			n := 1 + d.rnd.Intn(3)
			cancelAt := -1
			if d.rnd.Intn(3) > 0 {
				cancelAt = d.rnd.Intn(n + 1)
			}
			for j := 0; j <= n; j++ {
				if j == cancelAt {
					ris = append(ris, d.fireCancel(key))
				}
				if j < n {
					ris = append(ris, d.fire("rebuild", key))
				}
				if d.rnd.Intn(3) == 0 {
					time.Sleep(time.Duration(d.rnd.Intn(800)) * time.Microsecond)
				}
			}
			d.awaitAll(ris)
		case x < 72:
			d.awaitAll([]*reqInfo{d.fireCancel(key)})
		case x < 82:
			d.edit()
		case x < 92 && plug != "":
			d.call("resolve", key, d.resolveRequest(key, "./leaf.js"), false, false, "")
		default:
			time.Sleep(time.Duration(d.rnd.Intn(1500)) * time.Microsecond)
		}
	}
	if d.rnd.Intn(10) == 0 {
		return // left to the end of the session
	}
	d.keyMu.Lock()
	for i, k := range d.keys {
		if k == key {
			d.keys = append(d.keys[:i], d.keys[i+1:]...)
			break
		}
	}
	d.keyMu.Unlock()
	var ris []*reqInfo
	switch d.rnd.Intn(4) {
	case 0: // a rebuild right before the dispose, not awaited
		ris = append(ris, d.fire("rebuild", key), d.fireDispose(key))
	case 1: // a rebuild right after the dispose
		ris = append(ris, d.fireDispose(key), d.fire("rebuild", key))
	default:
		ris = append(ris, d.fireDispose(key))
	}
	d.awaitAll(ris)
}

// the scenario behind CancelCoversEarlierRebuild: rebuild, then cancel,
// with the on-start answer held so that every goroutine involved has run
func (d *driver) relayLife(rounds int) {
	key := d.newKey()
	kind := d.call("build", key, d.buildRequest(key, true, "start", "", "a.js"), true, true, "")
	if kind != "ok" {
		return
	}
	d.c.mu.Lock()
	d.c.liveCtx[key] = true
	d.c.mu.Unlock()
	d.keyMu.Lock()
	d.plugOf[key] = "held"
	d.keyMu.Unlock()
	for i := 0; i < rounds; i++ {
		var ris []*reqInfo
		if d.rnd.Intn(2) == 0 {
			// rebuild and cancel in one write: both are decoded before either goroutine runs
			d.awaitAll(d.c.sendBatch([]string{"rebuild", "cancel"}, key))
			continue
		}
		ris = append(ris, d.fire("rebuild", key))
		if d.rnd.Intn(4) == 0 {
			ris = append(ris, d.fire("rebuild", key))
		}
		if d.rnd.Intn(2) == 0 {
			time.Sleep(time.Duration(d.rnd.Intn(3000)) * time.Microsecond)
		}
		ris = append(ris, d.fireCancel(key))
		d.awaitAll(ris)
	}
	d.awaitAll([]*reqInfo{d.fireDispose(key)})
}

// the counterexample TLC finds for NoCrash with RelayUnsafe (Service.crash.cfg):
// rebuild, cancel, dispose for one key back to back
func (d *driver) crashScenario() {
	key := d.newKey()
	kind := d.call("build", key, d.buildRequest(key, true, "", "", "a.js"), true, false, "")
	if kind != "ok" {
		return
	}
	// one write: the three packets are decoded before any of their goroutines runs
	d.awaitAll(d.c.sendBatch([]string{"rebuild", "cancel", "dispose"}, key))
}

func (d *driver) oneShot() {
	key := d.newKey()
	plug := []string{"", "start", "full", "full"}[d.rnd.Intn(4)]
	bad := ""
	if d.rnd.Intn(10) == 0 {
		bad = "flags"
	}
	entry := "a.js"
	if d.rnd.Intn(4) == 0 {
		entry = "e.js"
	}
	d.call("build", key, d.buildRequest(key, false, plug, bad, entry), false, plug != "", bad)
}

func (d *driver) transform() {
	flags := []interface{}{"--loader=ts", "--log-level=silent"}
	bad := ""
	if d.rnd.Intn(6) == 0 {
		flags = append(flags, "--no-such-flag-verif")
		bad = "flags"
	}
	d.call("transform", 0, map[string]interface{}{
		"command": "transform", "flags": flags, "inputFS": false,
		"input": []byte(fmt.Sprintf("let x: number = %d; export {x}", d.rnd.Intn(100))),
	}, false, false, bad)
}

// a mixed logical client
func (d *driver) mixedClient(n int) {
	for i := 0; i < n && time.Now().Before(d.deadline); i++ {
		switch x := d.rnd.Intn(100); {
		case x < 30:
			d.contextLife([]string{"", "start", "full", "full"}[d.rnd.Intn(4)], 2+d.rnd.Intn(4))
		case x < 50:
			d.oneShot()
		case x < 62:
			d.transform()
		case x < 70:
			d.call("bogus", 0, map[string]interface{}{"command": "no-such-command-verif"}, false, false, "")
		case x < 90:
			// operate on a context another client owns
			if key, ok := d.pickLive(); ok {
				if d.rnd.Intn(3) == 0 {
					d.awaitAll([]*reqInfo{d.fireCancel(key)})
				} else {
					d.awaitAll([]*reqInfo{d.fire("rebuild", key)})
				}
			} else {
				d.transform()
			}
		default:
			// a request for a key that was never built / is long gone
			cmd := []string{"rebuild", "cancel", "dispose", "resolve"}[d.rnd.Intn(4)]
			key := 101 + d.rnd.Intn(2)
			if cmd == "resolve" {
				d.call("resolve", key, d.resolveRequest(key, "./leaf.js"), false, false, "")
			} else {
				d.awaitAll([]*reqInfo{d.fire(cmd, key)})
			}
		}
	}
}

// answers to the requests of the service
func (d *driver) onRequest(id uint32, cmd string, key int, v map[string]interface{}, arrived time.Time) {
	c := d.c
	sleep := func(maxUs int) {
		if maxUs > 0 {
			time.Sleep(time.Duration(d.rnd.Intn(maxUs)) * time.Microsecond)
		}
	}
	late := 2000
	if d.rnd.Intn(8) == 0 {
		late = 30000
	}
	empty := map[string]interface{}{"errors": []interface{}{}, "warnings": []interface{}{}}
	failing := map[string]interface{}{"errors": []interface{}{msg("seeded failure of " + cmd)}, "warnings": []interface{}{}}
	switch cmd {
	case "ping":
		c.respond(id, key, map[string]interface{}{}, false, arrived, 0)
	case "on-start":
		d.keyMu.Lock()
		held := d.plugOf[key] == "held"
		d.keyMu.Unlock()
		if held {
			c.respond(id, key, empty, false, arrived, d.o.hold)
			return
		}
		sleep(late)
		if d.rnd.Intn(12) == 0 {
			c.respond(id, key, failing, true, arrived, 0)
		} else {
			c.respond(id, key, empty, false, arrived, 0)
		}
	case "on-resolve":
		path, _ := v["path"].(string)
		if path != "./leaf.js" && d.rnd.Intn(3) == 0 {
			// re-enter the API from within the callback
			d.call("resolve", key, d.resolveRequest(key, "./leaf.js"), false, false, "")
		}
		sleep(late)
		if d.rnd.Intn(14) == 0 {
			c.respond(id, key, failing, true, arrived, 0)
		} else {
			c.respond(id, key, map[string]interface{}{}, false, arrived, 0)
		}
	case "on-load":
		if d.rnd.Intn(4) == 0 {
			d.call("resolve", key, d.resolveRequest(key, "./leaf.js"), false, false, "")
		}
		sleep(late)
		switch x := d.rnd.Intn(14); {
		case x == 0:
			c.respond(id, key, failing, true, arrived, 0)
		case x < 5:
			c.respond(id, key, map[string]interface{}{"contents": []byte("import \"./d.js\"\nexport const b = 2, c = 3, d = 4\n"), "loader": "js", "resolveDir": d.dir}, false, arrived, 0)
		default:
			c.respond(id, key, map[string]interface{}{}, false, arrived, 0)
		}
	case "on-end":
		sleep(late)
		if d.rnd.Intn(12) == 0 {
			c.respond(id, key, failing, true, arrived, 0)
		} else {
			c.respond(id, key, empty, false, arrived, 0)
		}
	default:
		c.respond(id, key, map[string]interface{}{}, false, arrived, 0)
	}
}

func crashKind(stderr string) (kind, frame string) {
	switch {
	case strings.Contains(stderr, "DATA RACE"):
		kind = "data-race"
	case strings.Contains(stderr, "panic:"):
		kind = "panic"
	case strings.Contains(stderr, "fatal error:"):
		kind = "fatal"
	default:
		return "", ""
	}
	for _, line := range strings.Split(stderr, "\n") {
		t := strings.TrimSpace(line)
		if (strings.HasPrefix(t, "main.") || strings.HasPrefix(t, "github.com/evanw/esbuild/")) && strings.Contains(t, "(") {
			frame = t[:strings.LastIndex(t, "(")]
			break
		}
	}
	return kind, frame
}

// runSession runs one session to the end of the child process
func runSession(o sessionOpts, id int, seed int64, profile string) *session {
	rnd := rand.New(rand.NewSource(seed))
	s := &session{ID: id, Seed: seed, Profile: profile, Kinds: map[string]int{}}
	dir := filepath.Join(o.scratch, fmt.Sprintf("s%d", id))
	os.MkdirAll(dir, 0755)
	defer os.RemoveAll(dir)
	core.WriteTree(dir, projectFiles)
	args := []string{"--service=" + o.version}
	if profile == "ping" || rnd.Intn(5) == 0 {
		args = append(args, "--ping")
	}
	s.Args = args
	procs := []int{1, 2, 4, 8}[rnd.Intn(4)]
	if profile == "relay" && rnd.Intn(3) > 0 {
		// one P: the goroutine of the packet decoded last runs first, which is
		// the order the didGetCancel relay exists for
		procs = 1
	}
	env := append(os.Environ(), fmt.Sprintf("GOMAXPROCS=%d", procs))
	if o.race {
		env = append(env, "GORACE=halt_on_error=1")
	}
	c, err := startClient(o.exe, args, env)
	if err != nil {
		s.Hang = "cannot start: " + err.Error()
		return s
	}
	d := &driver{c: c, o: o, s: s, rnd: &lockedRand{r: rand.New(rand.NewSource(seed ^ 0x2545f491))}, dir: dir,
		plugOf: map[int]string{}, profile: profile, deadline: time.Now().Add(o.hangTime), kinds: s.Kinds}
	c.onRequest = d.onRequest
	// (while the nil dereference in the cancel relay was unfixed only the
	// "unsafe" and "crash" profiles sent dispose with a cancel outstanding)
	d.unsafe = rnd.Intn(4) > 0

	var wg sync.WaitGroup
	run := func(fn func()) {
		wg.Add(1)
		go func() { defer wg.Done(); fn() }()
	}
	randomClose := false
	switch profile {
	case "relay":
		s.HeldUsed = true
		run(func() { d.relayLife(1 + rnd.Intn(2)) })
		if rnd.Intn(2) == 0 {
			run(func() { d.mixedClient(2) })
		}
	case "crash":
		d.unsafe = true
		run(d.crashScenario)
	case "unsafe":
		d.unsafe = true
		k := 2 + rnd.Intn(2)
		for i := 0; i < k; i++ {
			n := 2 + rnd.Intn(3)
			run(func() { d.mixedClient(n) })
		}
	case "close":
		randomClose = true
		fallthrough
	default:
		k := 2 + rnd.Intn(3)
		for i := 0; i < k; i++ {
			n := 2 + rnd.Intn(3)
			run(func() { d.mixedClient(n) })
		}
	}
	done := make(chan struct{})
	go func() { wg.Wait(); close(done) }()
	if randomClose {
		delay := time.Duration(rnd.Intn(40000)) * time.Microsecond
		select {
		case <-done:
		case <-time.After(delay):
		}
		c.closeStdin()
	}
	clientsDone := false
	select {
	case <-done:
		clientsDone = true
	case <-c.readDone:
	case <-time.After(time.Until(d.deadline)):
	}
	if clientsDone && !randomClose {
		// dispose what is left, then close stdin
		d.keyMu.Lock()
		left := append([]int{}, d.keys...)
		d.keyMu.Unlock()
		var ris []*reqInfo
		for _, k := range left {
			ris = append(ris, d.fireDispose(k))
		}
		d.awaitAll(ris)
		c.closeStdin()
	}
	// what happens now?
	exited := func(wait time.Duration) bool {
		select {
		case <-c.readDone:
			return true
		default:
		}
		if wait <= 0 {
			return false
		}
		select {
		case <-c.readDone:
			return true
		case <-time.After(wait):
			return false
		}
	}
	c.mu.Lock()
	closed := c.closed
	c.mu.Unlock()
	kill := false
	if !closed {
		// a logical client is stuck although stdin is open: some request was
		// not answered (or the process died: readDone)
		if !exited(50 * time.Millisecond) {
			c.mu.Lock()
			var open []string
			for id, ri := range c.pending {
				open = append(open, fmt.Sprintf("%d:%s", id, ri.cmd))
			}
			c.mu.Unlock()
			s.Hang = fmt.Sprintf("no response within %v to %v", o.hangTime, open)
			kill = true
		}
	} else if !exited(o.grace) {
		// stdin is closed and the process is still there: is it obliged to exit?
		c.mu.Lock()
		for _, cmd := range c.unanswered {
			if cmd != "ping" {
				s.NoExit = "pending-callback"
			}
		}
		if s.NoExit == "" && len(c.liveCtx) > 0 {
			s.NoExit = "live-context"
		}
		if s.NoExit == "" {
			for _, ri := range c.pending {
				if ri.cmd == "build" && ri.isCtx {
					s.NoExit = "live-context" // a context may have been created whose response was not read yet
				}
			}
		}
		c.mu.Unlock()
		if s.NoExit == "" && !exited(time.Until(d.deadline)) {
			s.Hang = fmt.Sprintf("stdin closed, every request answered, no exit within %v", o.hangTime)
		}
		kill = !exited(0)
	}
	if kill {
		c.cmd.Process.Kill()
	}
	<-c.readDone
	close(c.outq)
	err = c.cmd.Wait()
	<-c.outDone
	s.ExitCode = c.cmd.ProcessState.ExitCode()
	s.Exited = !kill
	c.mu.Lock()
	defer c.mu.Unlock()
	s.Closed = c.closed
	s.ProtoErr = c.protoErr
	s.Stderr = c.stderr.String()
	if len(s.Stderr) > 6000 {
		s.Stderr = s.Stderr[:6000]
	}
	if !kill {
		if s.ExitCode == 0 {
			c.events = append(c.events, event{"ev": "exit", "code": 0})
			c.logf("<- exit 0")
		} else {
			s.Crash, s.Frame = crashKind(s.Stderr)
			if s.Crash == "" {
				s.Crash = fmt.Sprintf("exit-%d", s.ExitCode)
			}
			c.logf("<- exit %d", s.ExitCode)
		}
	}
	s.Events = c.events
	s.Log = c.plog
	s.Requests = c.nreq
	s.Callback = c.ncb
	s.MaxIn = c.maxIn
	s.Cancelled = s.Kinds["rebuild:cancelled"]
	return s
}
