package c20svc

import (
	"bufio"
	"bytes"
	"encoding/binary"
	"fmt"
	"io"
	"math/rand"
	"os/exec"
	"strings"
	"sync"
	"time"
)

type event = map[string]interface{}

type reqInfo struct {
	cmd   string
	key   int
	isCtx bool
	done  chan string   // receives the response kind (closed without a value if the process ended)
	fin   chan struct{} // closed when the response arrived (or the process ended)
	pay   int           // identity of the byte-array payload the request carries (0 = none)
}

// client is the protocol client of one session: it owns the child process,
// logs every packet in pipe order and pairs responses with requests.
type client struct {
	cmd    *exec.Cmd
	stderr bytes.Buffer

	mu         sync.Mutex // orders log entries; never held during blocking I/O
	events     []event    // the trace for ServiceTrace.tla
	plog       []string   // human-readable packet log (replay / diagnosis)
	closed     bool       // close-stdin was logged
	dead       bool       // stdout reached EOF
	nextID     uint32
	pending    map[uint32]*reqInfo
	inflight   int
	maxIn      int
	nreq       int
	ncb        int
	unanswered map[uint32]string // requests of the service not (yet) answered
	lastCancel map[int]time.Time
	cancelsOut map[int]int // cancels sent and not yet answered, per key
	disposed   map[int]bool
	liveCtx    map[int]bool // context created (response ok) and dispose not yet answered
	protoErr   string
	batch      *[]byte // non-nil while sendBatch collects packets
	// pipelining sessions: every write to stdin is logged with its byte range
	pipe       bool
	woff       int                                    // bytes queued for stdin so far
	inWave     bool                                   // a chunked wave is being written: nobody else may write
	harnessErr string                                 // the driver broke its own rules (never a verdict)
	obsFn      func(ri *reqInfo, v interface{}) []int // payload digests a response is made of
	t0         time.Time

	outq      chan []byte // nil element = close stdin
	outDone   chan struct{}
	readDone  chan struct{}
	onRequest func(id uint32, cmd string, key int, v map[string]interface{}, arrived time.Time)
}

func startClient(exe string, args []string, env []string) (*client, error) {
	c := &client{
		pending: map[uint32]*reqInfo{}, unanswered: map[uint32]string{}, lastCancel: map[int]time.Time{},
		cancelsOut: map[int]int{}, disposed: map[int]bool{}, liveCtx: map[int]bool{},
		outq: make(chan []byte, 4096), outDone: make(chan struct{}), readDone: make(chan struct{}), t0: time.Now(),
	}
	c.cmd = exec.Command(exe, args...)
	c.cmd.Env = env
	c.cmd.Stderr = &c.stderr
	stdin, err := c.cmd.StdinPipe()
	if err != nil {
		return nil, err
	}
	stdout, err := c.cmd.StdoutPipe()
	if err != nil {
		return nil, err
	}
	if err := c.cmd.Start(); err != nil {
		return nil, err
	}
	// the only goroutine that writes to the child's stdin
	go func() {
		defer close(c.outDone)
		open := true
		for b := range c.outq {
			if !open {
				continue
			}
			if b == nil {
				stdin.Close()
				open = false
				continue
			}
			if _, err := stdin.Write(b); err != nil {
				stdin.Close()
				open = false
			}
		}
		if open {
			stdin.Close()
		}
	}()
	go c.reader(stdout)
	return c, nil
}

func (c *client) logf(format string, a ...interface{}) {
	c.plog = append(c.plog, fmt.Sprintf("%7.1fms ", float64(time.Since(c.t0).Microseconds())/1000)+fmt.Sprintf(format, a...))
}

func brief(v interface{}) string {
	s := fmt.Sprintf("%v", v)
	if len(s) > 160 {
		s = s[:160] + "..."
	}
	return s
}

// send writes a request; the log entry is made before the bytes are queued
func (c *client) send(cmd string, key int, value map[string]interface{}, isCtx, plug bool, bad string) (*reqInfo, bool) {
	c.mu.Lock()
	defer c.mu.Unlock()
	return c.sendLocked(cmd, key, value, isCtx, plug, bad)
}

// sendBatch writes several requests for one key with a single write (they
// reach the service's decode loop in one read)
func (c *client) sendBatch(cmds []string, key int) []*reqInfo {
	c.mu.Lock()
	defer c.mu.Unlock()
	hold := c.batch
	c.batch = &[]byte{}
	var out []*reqInfo
	for _, cmd := range cmds {
		ri, _ := c.sendLocked(cmd, key, map[string]interface{}{"command": cmd, "key": key}, false, false, "")
		out = append(out, ri)
	}
	buf := *c.batch
	c.batch = hold
	if len(buf) > 0 {
		c.outq <- buf
	}
	return out
}

func (c *client) sendLocked(cmd string, key int, value map[string]interface{}, isCtx, plug bool, bad string) (*reqInfo, bool) {
	if c.closed || c.dead {
		return nil, false
	}
	id := c.nextID
	c.nextID++
	ri := &reqInfo{cmd: cmd, key: key, isCtx: isCtx, done: make(chan string, 1), fin: make(chan struct{})}
	c.pending[id] = ri
	c.inflight++
	c.nreq++
	if c.inflight > c.maxIn {
		c.maxIn = c.inflight
	}
	k := key
	if k == 0 {
		k = 1 // requests without a key (transform, bogus): the field is not used by the spec
	}
	enc := encodePacket(packet{id: id, isRequest: true, value: value})
	ev := event{"ev": "send", "id": int(id), "cmd": cmd, "key": k, "ctx": isCtx, "plug": plug, "bad": bad}
	if c.pipe && c.batch == nil {
		c.logWrite(len(enc), ev)
	}
	c.events = append(c.events, ev)
	c.logf("-> request %d %s key=%d ctx=%v plug=%v bad=%q", id, cmd, key, isCtx, plug, bad)
	switch cmd {
	case "cancel":
		c.lastCancel[key] = time.Now()
		c.cancelsOut[key]++
	case "dispose":
		c.disposed[key] = true
	}
	if c.batch != nil {
		*c.batch = append(*c.batch, enc...)
	} else {
		c.outq <- enc
	}
	return ri, true
}

// logWrite (pipelining sessions, c.mu held): a whole packet of n bytes is
// about to be queued with one write; the packet event ev gets its byte range
func (c *client) logWrite(n int, ev event) {
	if c.inWave {
		c.harnessErr = "a packet was written while a chunked wave was in progress"
	}
	c.events = append(c.events, event{"ev": "write", "from": c.woff, "to": c.woff + n})
	ev["from"], ev["to"] = c.woff, c.woff+n
	c.woff += n
}

// respond answers a request of the service. held (on-start only): the
// answer is kept back until holdFor has passed since the request arrived and
// since the last "cancel" this client sent for the key.
func (c *client) respond(id uint32, key int, value map[string]interface{}, isErr bool, arrived time.Time, holdFor time.Duration) {
	for {
		c.mu.Lock()
		if c.closed || c.dead {
			c.mu.Unlock()
			return
		}
		wait := time.Duration(0)
		if holdFor > 0 {
			last := arrived
			if t, ok := c.lastCancel[key]; ok && t.After(last) {
				last = t
			}
			wait = time.Until(last.Add(holdFor))
		}
		if wait <= 0 {
			enc := encodePacket(packet{id: id, isRequest: false, value: value})
			ev := event{"ev": "send-response", "id": int(id), "err": isErr, "held": holdFor > 0}
			if c.pipe {
				c.logWrite(len(enc), ev)
			}
			c.events = append(c.events, ev)
			c.logf("-> response %d err=%v held=%v", id, isErr, holdFor > 0)
			delete(c.unanswered, id)
			c.outq <- enc
			c.mu.Unlock()
			return
		}
		c.mu.Unlock()
		time.Sleep(wait)
	}
}

func (c *client) closeStdin() {
	c.mu.Lock()
	if !c.closed {
		c.closed = true
		c.events = append(c.events, event{"ev": "close-stdin"})
		c.logf("-> close stdin")
		c.outq <- nil
	}
	c.mu.Unlock()
}

// classify maps a response value to the kind the specification talks about
func classify(cmd string, v interface{}) string {
	m, ok := v.(map[string]interface{})
	if !ok {
		return "malformed"
	}
	if _, has := m["error"]; has {
		if cmd == "rebuild" {
			return "cannot"
		}
		return "error"
	}
	if cmd == "transform" || cmd == "resolve" {
		return "ok" // diagnostics of the input, not of the request
	}
	if errs, ok := m["errors"].([]interface{}); ok && len(errs) > 0 {
		for _, e := range errs {
			if em, ok := e.(map[string]interface{}); ok {
				if t, _ := em["text"].(string); strings.Contains(t, "The build was canceled") {
					return "cancelled"
				}
			}
		}
		return "errors"
	}
	return "ok"
}

func (c *client) reader(stdout io.Reader) {
	defer close(c.readDone)
	br := bufio.NewReaderSize(stdout, 1<<16)
	fail := func(msg string) {
		c.mu.Lock()
		c.protoErr = msg
		c.mu.Unlock()
	}
	readFrame := func() ([]byte, bool) {
		var h [4]byte
		if _, err := io.ReadFull(br, h[:]); err != nil {
			if err != io.EOF {
				fail("truncated packet header: " + err.Error())
			}
			return nil, false
		}
		n := binary.LittleEndian.Uint32(h[:])
		if n > 1<<28 {
			fail(fmt.Sprintf("packet length %d", n))
			return nil, false
		}
		body := make([]byte, n)
		if _, err := io.ReadFull(br, body); err != nil {
			fail("truncated packet body: " + err.Error())
			return nil, false
		}
		return body, true
	}
	defer func() {
		c.mu.Lock()
		c.dead = true
		for id, ri := range c.pending {
			close(ri.done)
			close(ri.fin)
			delete(c.pending, id)
		}
		c.mu.Unlock()
	}()
	// the protocol starts with the version string
	if _, ok := readFrame(); !ok {
		return
	}
	for {
		body, ok := readFrame()
		if !ok {
			return
		}
		p, err := decodePacket(body)
		if err != nil {
			fail("packet cannot be decoded")
			return
		}
		now := time.Now()
		if p.isRequest {
			m, _ := p.value.(map[string]interface{})
			cmd, _ := m["command"].(string)
			key, _ := m["key"].(int)
			c.mu.Lock()
			c.ncb++
			c.unanswered[p.id] = cmd
			c.events = append(c.events, event{"ev": "recv-request", "id": int(p.id), "cmd": cmd, "key": key})
			c.logf("<- request %d %s key=%d %s", p.id, cmd, key, brief(m["path"]))
			c.mu.Unlock()
			if c.onRequest != nil {
				go c.onRequest(p.id, cmd, key, m, now)
			}
			continue
		}
		c.mu.Lock()
		ri := c.pending[p.id]
		cmd := ""
		if ri != nil {
			cmd = ri.cmd
		}
		kind := classify(cmd, p.value)
		ev := event{"ev": "recv-response", "id": int(p.id), "kind": kind}
		if c.obsFn != nil && ri != nil {
			ev["obs"] = c.obsFn(ri, p.value)
		}
		c.events = append(c.events, ev)
		c.logf("<- response %d (%s) %s obs=%v %s", p.id, cmd, kind, ev["obs"], brief(p.value))
		if ri != nil {
			delete(c.pending, p.id)
			c.inflight--
			switch ri.cmd {
			case "cancel":
				c.cancelsOut[ri.key]--
			case "dispose":
				delete(c.liveCtx, ri.key)
			case "build":
				if ri.isCtx && kind == "ok" {
					c.liveCtx[ri.key] = true
				}
			}
			ri.done <- kind
			close(ri.fin)
		}
		c.mu.Unlock()
	}
}

// wait for a response; "" if the process ended or the deadline passed
func await(ri *reqInfo, deadline time.Time) string {
	if ri == nil {
		return ""
	}
	select {
	case k, ok := <-ri.done:
		if !ok {
			return ""
		}
		return k
	case <-time.After(time.Until(deadline)):
		return ""
	}
}

type lockedRand struct {
	mu sync.Mutex
	r  *rand.Rand
}

func (l *lockedRand) Intn(n int) int {
	l.mu.Lock()
	defer l.mu.Unlock()
	return l.r.Intn(n)
}
