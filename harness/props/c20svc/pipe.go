package c20svc

import (
	"bytes"
	"encoding/json"
	"fmt"
	"math/rand"
	"os"
	"path/filepath"
	"sort"
	"strings"
	"time"

	"github.com/evanw/esbuild/pkg/api"
	"github.com/evanw/esbuild/pkg/cli"

	"verifharness/core"
)

// Pipelining sessions: the byte level of the service's read loop
// (spec/ServiceStream.tla).  A wave of packets with byte-array payloads
// (transform `input`, build `stdinContents`, on-load `contents`) is written to
// the child's stdin cut into chunks at the positions of a chunking that TLC
// exported from ServiceStream.tla (or a seeded random one): inside the length
// prefix, inside the body, inside the payload, at packet boundaries; at a
// "flushed" cut the client lets the service read what it has before it goes
// on.  Every payload carries a marker of its own; what a response is made of
// is observed independently (transform: the response must be byte-equal to
// api.Transform of the request's OWN input computed in this process; builds:
// the markers found in the output files) and logged as the digests "obs" of
// the recv-response event; ServiceTrace.tla decides (ObsOK).

// a cut of the model: after `Pkt` whole packets, `R` bytes into the next one
// (model layout: Hdr | Pre | Pay | Post)
type cutRec struct {
	Pkt     int  `json:"pkt"`
	R       int  `json:"r"`
	Flushed bool `json:"flushed"`
}

type chunking struct {
	NPkt int      `json:"npkt"`
	Hdr  int      `json:"hdr"`
	Pre  int      `json:"pre"`
	Pay  int      `json:"pay"`
	Post int      `json:"post"`
	Cuts []cutRec `json:"cuts"`
	// random chunkings (thorough): byte offsets into the wave instead of model cuts
	Offsets []int  `json:"offsets,omitempty"`
	Gaps    []bool `json:"gaps,omitempty"`
	Src     string `json:"src"`
}

func (c *chunking) key() string {
	b, _ := json.Marshal(c.Cuts)
	return fmt.Sprintf("%d/%s/%v/%v", c.NPkt, b, c.Offsets, c.Gaps)
}

// region of a model cut: B packet boundary, H inside the length prefix, E end
// of the prefix, P inside the body before the payload, S start of the payload,
// M inside the payload, Q end of the payload, T inside the body after it
func (c *chunking) region(r int) string {
	switch {
	case r == 0:
		return "B"
	case r < c.Hdr:
		return "H"
	case r == c.Hdr:
		return "E"
	case r < c.Hdr+c.Pre:
		return "P"
	case r == c.Hdr+c.Pre:
		return "S"
	case r < c.Hdr+c.Pre+c.Pay:
		return "M"
	case r == c.Hdr+c.Pre+c.Pay:
		return "Q"
	}
	return "T"
}

func (c *chunking) cutLabels() []string {
	var out []string
	for _, k := range c.Cuts {
		where := "later"
		if k.Pkt == 0 {
			where = "first"
		}
		out = append(out, fmt.Sprintf("%s/%s/%v", c.region(k.R), where, k.Flushed))
	}
	return out
}

// pickChunkings: label-first greedy choice of n chunkings (every (region,
// first/later packet, flushed) label of a cut before any repetition, then
// pairs of labels), ties broken by the seed
func pickChunkings(all []*chunking, n int, rnd *rand.Rand) []*chunking {
	sort.Slice(all, func(i, j int) bool { return all[i].key() < all[j].key() })
	rnd.Shuffle(len(all), func(i, j int) { all[i], all[j] = all[j], all[i] })
	seen1, seen2 := map[string]bool{}, map[string]bool{}
	used := make([]bool, len(all))
	var out []*chunking
	for len(out) < n && len(out) < len(all) {
		best, bestScore := -1, -1
		for i, c := range all {
			if used[i] {
				continue
			}
			ls := c.cutLabels()
			score := 0
			got := map[string]bool{}
			for _, l := range ls {
				if !seen1[l] && !got[l] {
					got[l] = true
					score += 100
				}
			}
			if !seen2[strings.Join(ls, "+")] {
				score += 10
			}
			score += len(ls)
			if score > bestScore {
				best, bestScore = i, score
			}
		}
		used[best] = true
		c := all[best]
		for _, l := range c.cutLabels() {
			seen1[l] = true
		}
		seen2[strings.Join(c.cutLabels(), "+")] = true
		out = append(out, c)
	}
	return out
}

type wavePkt struct {
	kind   string // "transform" | "stdin" | "onload"
	marker int
	bytes  []byte
	payAt  int // offset of the payload in bytes
	payLen int
	ev     event
	ri     *reqInfo      // the request (transform, stdin)
	cbID   uint32        // the on-load request this packet answers
	fin    chan struct{} // closed when the payload has certainly been consumed (the response that depends on it arrived)
	id     uint32
}

// markerText: the payload of marker m (TypeScript for the transform, plain
// modules for the others); pad varies the size
func markerText(kind string, m int, pad int) string {
	var sb strings.Builder
	tag := fmt.Sprintf("PAYLOAD%05d", m)
	if kind == "transform" {
		fmt.Fprintf(&sb, "let v%d: string[] = [", m)
	} else {
		fmt.Fprintf(&sb, "let v%d = [", m)
	}
	for i := 0; i < pad; i++ {
		fmt.Fprintf(&sb, "%q, ", tag)
	}
	fmt.Fprintf(&sb, "%q];\nconsole.log(v%d);\n", tag, m)
	return sb.String()
}

var transformFlags = []string{"--loader=ts", "--log-level=silent"}

type pipeDriver struct {
	c        *client
	o        sessionOpts
	dir      string
	rnd      *rand.Rand
	deadline time.Time
	markers  map[int]string // marker -> payload text
	expect   map[int]string // transform marker -> api.Transform of its own input, computed here
	onload   chan [2]int    // (callback id, key) of on-load requests that arrived
	nkey     int
}

// observe: the payload digests a response is made of (-1: of none we know)
func (d *pipeDriver) observe(ri *reqInfo, v interface{}) []int {
	obs := []int{}
	m, _ := v.(map[string]interface{})
	switch ri.cmd {
	case "transform":
		code, ok := m["code"].(string)
		if !ok {
			return obs
		}
		if _, isErr := m["error"]; isErr {
			return obs
		}
		for mk, exp := range d.expect {
			if code == exp {
				obs = append(obs, mk)
			}
		}
		if len(obs) == 0 {
			obs = append(obs, -1)
		}
	case "build":
		files, _ := m["outputFiles"].([]interface{})
		var all []byte
		for _, f := range files {
			fm, _ := f.(map[string]interface{})
			if b, ok := fm["contents"].([]byte); ok {
				all = append(all, b...)
			}
		}
		for mk := range d.markers {
			if bytes.Contains(all, []byte(fmt.Sprintf("PAYLOAD%05d", mk))) {
				obs = append(obs, mk)
			}
		}
		if len(obs) == 0 && len(all) > 0 {
			obs = append(obs, -1)
		}
	}
	sort.Ints(obs)
	return obs
}

func (d *pipeDriver) onRequest(id uint32, cmd string, key int, v map[string]interface{}, arrived time.Time) {
	empty := map[string]interface{}{"errors": []interface{}{}, "warnings": []interface{}{}}
	switch cmd {
	case "on-load":
		d.onload <- [2]int{int(id), key}
	case "on-start", "on-end":
		d.c.respond(id, key, empty, false, arrived, 0)
	default:
		d.c.respond(id, key, map[string]interface{}{}, false, arrived, 0)
	}
}

// prepare builds the packets of the wave (for on-load slots a build is
// started first and its on-load request awaited)
func (d *pipeDriver) prepare(kinds []string) ([]*wavePkt, error) {
	c := d.c
	var wave []*wavePkt
	type setup struct {
		w   *wavePkt
		key int
		ri  *reqInfo
	}
	var setups []setup
	for i, kind := range kinds {
		mk := i + 1
		w := &wavePkt{kind: kind, marker: mk}
		text := markerText(kind, mk, 2+d.rnd.Intn(14))
		d.markers[mk] = text
		if kind == "transform" {
			opts, err := cli.ParseTransformOptions(transformFlags)
			if err != nil {
				return nil, fmt.Errorf("cli.ParseTransformOptions: %v", err)
			}
			res := api.Transform(text, opts)
			if len(res.Errors) > 0 {
				return nil, fmt.Errorf("api.Transform of the marker payload fails: %v", res.Errors[0].Text)
			}
			d.expect[mk] = string(res.Code)
		}
		if kind == "onload" {
			d.nkey++
			key := d.nkey
			req := map[string]interface{}{
				"command": "build", "key": key,
				"entries": []interface{}{[]interface{}{"", "b.js"}},
				"flags":   []interface{}{"--bundle", fmt.Sprintf("--outdir=out%d", key), "--log-level=silent", "--format=esm"},
				"write":   false, "stdinContents": nil, "stdinResolveDir": nil,
				"absWorkingDir": d.dir, "nodePaths": []interface{}{}, "context": false,
				"plugins": []interface{}{map[string]interface{}{"name": "verif", "onStart": true, "onEnd": true, "onResolve": []interface{}{},
					"onLoad": []interface{}{map[string]interface{}{"id": 2, "filter": `b\.js$`, "namespace": "file"}}}},
			}
			ri, ok := c.send("build", key, req, false, true, "")
			if !ok {
				return nil, fmt.Errorf("cannot send")
			}
			setups = append(setups, setup{w, key, ri})
		}
		wave = append(wave, w)
	}
	// the on-load requests of the setup builds
	byKey := map[int]int{}
	for range setups {
		select {
		case x := <-d.onload:
			byKey[x[1]] = x[0]
		case <-c.readDone:
			return nil, fmt.Errorf("the process ended during the setup")
		case <-time.After(time.Until(d.deadline)):
			return nil, fmt.Errorf("no on-load request within %v", d.o.hangTime)
		}
	}
	for _, s := range setups {
		id, ok := byKey[s.key]
		if !ok {
			return nil, fmt.Errorf("no on-load request for key %d", s.key)
		}
		s.w.cbID = uint32(id)
		s.w.fin = s.ri.fin
		s.w.ri = nil
		s.w.id = uint32(id)
	}
	// encode
	c.mu.Lock()
	defer c.mu.Unlock()
	for _, w := range wave {
		payload := []byte(d.markers[w.marker])
		var enc []byte
		switch w.kind {
		case "transform":
			w.id = c.nextID
			c.nextID++
			flags := []interface{}{}
			for _, f := range transformFlags {
				flags = append(flags, f)
			}
			enc = encodePacket(packet{id: w.id, isRequest: true, value: map[string]interface{}{
				"command": "transform", "flags": flags, "inputFS": false, "input": payload}})
			w.ev = event{"ev": "send", "id": int(w.id), "cmd": "transform", "key": 1, "ctx": false, "plug": false, "bad": "", "pay": w.marker}
			w.ri = &reqInfo{cmd: "transform", done: make(chan string, 1), fin: make(chan struct{}), pay: w.marker}
			w.fin = w.ri.fin
		case "stdin":
			w.id = c.nextID
			c.nextID++
			d.nkey++
			key := d.nkey
			enc = encodePacket(packet{id: w.id, isRequest: true, value: map[string]interface{}{
				"command": "build", "key": key, "entries": []interface{}{},
				"flags": []interface{}{"--log-level=silent", "--format=esm"},
				"write": false, "stdinContents": payload, "stdinResolveDir": d.dir,
				"absWorkingDir": d.dir, "nodePaths": []interface{}{}, "context": false}})
			w.ev = event{"ev": "send", "id": int(w.id), "cmd": "build", "key": key, "ctx": false, "plug": false, "bad": "", "pay": w.marker}
			w.ri = &reqInfo{cmd: "build", key: key, done: make(chan string, 1), fin: make(chan struct{}), pay: w.marker}
			w.fin = w.ri.fin
		case "onload":
			enc = encodePacket(packet{id: w.cbID, isRequest: false, value: map[string]interface{}{
				"contents": payload, "loader": "js", "resolveDir": d.dir}})
			w.ev = event{"ev": "send-response", "id": int(w.cbID), "err": false, "held": false, "pay": w.marker}
		}
		w.bytes = enc
		w.payAt = bytes.Index(enc, payload)
		w.payLen = len(payload)
		if w.payAt < 0 {
			return nil, fmt.Errorf("payload not found in its packet")
		}
	}
	return wave, nil
}

// offsets maps the chunking to byte offsets into the concatenated wave and
// the gap after each chunk (true = let the service read first)
func (ch *chunking) offsets(wave []*wavePkt) ([]int, []bool) {
	if ch.Offsets != nil {
		return ch.Offsets, ch.Gaps
	}
	starts := []int{0}
	for _, w := range wave {
		starts = append(starts, starts[len(starts)-1]+len(w.bytes))
	}
	var offs []int
	var gaps []bool
	for _, k := range ch.Cuts {
		var off int
		if k.Pkt >= len(wave) {
			continue
		}
		w := wave[k.Pkt]
		r := k.R
		n := len(w.bytes)
		payEnd := w.payAt + w.payLen
		switch {
		case r <= ch.Hdr:
			off = r // the real length prefix has 4 bytes as well
		case r < ch.Hdr+ch.Pre:
			off = 4 + (w.payAt-4)*(r-ch.Hdr)/ch.Pre
		case r == ch.Hdr+ch.Pre:
			off = w.payAt
		case r < ch.Hdr+ch.Pre+ch.Pay:
			off = w.payAt + w.payLen*(r-ch.Hdr-ch.Pre)/ch.Pay
		case r == ch.Hdr+ch.Pre+ch.Pay:
			off = payEnd
		default:
			off = payEnd + (n-payEnd)*(r-ch.Hdr-ch.Pre-ch.Pay)/ch.Post
		}
		off += starts[k.Pkt]
		if len(offs) > 0 && off <= offs[len(offs)-1] {
			continue
		}
		if off <= 0 || off >= starts[len(wave)] {
			continue
		}
		offs = append(offs, off)
		gaps = append(gaps, k.Flushed)
	}
	return offs, gaps
}

// writeWave writes the wave chunk by chunk.  Log order (under c.mu, before
// the bytes are queued): the write event, then the packet events of the
// packets this chunk completes.
func (d *pipeDriver) writeWave(wave []*wavePkt, offs []int, gaps []bool) {
	c := d.c
	var all []byte
	var ends []int
	for _, w := range wave {
		all = append(all, w.bytes...)
		ends = append(ends, len(all))
	}
	c.mu.Lock()
	c.inWave = true
	base := c.woff
	c.mu.Unlock()
	announced := 0
	from := 0
	bounds := append(append([]int{}, offs...), len(all))
	for ci, to := range bounds {
		c.mu.Lock()
		if c.closed || c.dead {
			c.inWave = false
			c.mu.Unlock()
			return
		}
		c.events = append(c.events, event{"ev": "write", "from": base + from, "to": base + to})
		c.logf("-> write bytes %d..%d of the wave (%d)", from, to, len(all))
		var complete []*wavePkt
		for announced < len(wave) && ends[announced] <= to {
			w := wave[announced]
			start := 0
			if announced > 0 {
				start = ends[announced-1]
			}
			w.ev["from"], w.ev["to"] = base+start, base+ends[announced]
			c.events = append(c.events, w.ev)
			if w.ri != nil {
				c.pending[w.id] = w.ri
				c.inflight++
				c.nreq++
				if c.inflight > c.maxIn {
					c.maxIn = c.inflight
				}
				c.logf("-> request %d %s pay=%d bytes %d..%d", w.id, w.ri.cmd, w.marker, start, ends[announced])
			} else {
				delete(c.unanswered, w.cbID)
				c.logf("-> response %d (on-load) pay=%d bytes %d..%d", w.cbID, w.marker, start, ends[announced])
			}
			complete = append(complete, w)
			announced++
		}
		c.woff = base + to
		if to == len(all) {
			c.inWave = false
		}
		c.outq <- append([]byte{}, all[from:to]...)
		c.mu.Unlock()
		from = to
		if ci < len(gaps) && gaps[ci] {
			// let the service read what it has: the packets that are complete
			// are answered (bounded wait), otherwise give it a moment
			limit := time.Now().Add(3 * time.Second)
			for i := 0; i < announced; i++ {
				select {
				case <-wave[i].fin:
				case <-time.After(time.Until(limit)):
				case <-c.readDone:
				}
			}
			time.Sleep(2 * time.Millisecond)
		}
	}
}

// runPipeSession: one child process, one wave
func runPipeSession(o sessionOpts, id int, seed int64, kinds []string, ch *chunking) *session {
	rnd := rand.New(rand.NewSource(seed))
	s := &session{ID: id, Seed: seed, Profile: "pipe", Kinds: map[string]int{}}
	dir := filepath.Join(o.scratch, fmt.Sprintf("p%d", id))
	os.MkdirAll(dir, 0755)
	defer os.RemoveAll(dir)
	core.WriteTree(dir, projectFiles)
	s.Args = []string{"--service=" + o.version}
	procs := []int{1, 2, 4, 8}[rnd.Intn(4)]
	env := append(os.Environ(), fmt.Sprintf("GOMAXPROCS=%d", procs))
	if o.race {
		env = append(env, "GORACE=halt_on_error=1")
	}
	c, err := startClient(o.exe, s.Args, env)
	if err != nil {
		s.Hang = "cannot start: " + err.Error()
		return s
	}
	c.pipe = true
	d := &pipeDriver{c: c, o: o, dir: dir, rnd: rnd, deadline: time.Now().Add(o.hangTime),
		markers: map[int]string{}, expect: map[int]string{}, onload: make(chan [2]int, 16)}
	c.onRequest = d.onRequest
	c.obsFn = d.observe
	var offs []int
	var gaps []bool
	wave, err := d.prepare(kinds)
	if err != nil {
		c.mu.Lock()
		if !c.dead {
			c.harnessErr = err.Error()
		}
		c.mu.Unlock()
	} else {
		offs, gaps = ch.offsets(wave)
		d.writeWave(wave, offs, gaps)
		for _, w := range wave {
			select {
			case <-w.fin:
			case <-c.readDone:
			case <-time.After(time.Until(d.deadline)):
			}
		}
	}
	s.Pipe = map[string]interface{}{"kinds": kinds, "chunking": ch, "offsets": offs, "gaps": gaps, "gomaxprocs": procs}
	c.mu.Lock()
	var open []string
	for id, ri := range c.pending {
		open = append(open, fmt.Sprintf("%d:%s", id, ri.cmd))
	}
	c.mu.Unlock()
	kill := false
	select {
	case <-c.readDone:
	default:
		if len(open) > 0 {
			s.Hang = fmt.Sprintf("no response within %v to %v (pipelined wave %v cut at %v)", o.hangTime, open, kinds, offs)
			kill = true
		} else {
			c.closeStdin()
			select {
			case <-c.readDone:
			case <-time.After(time.Until(d.deadline)):
				s.Hang = fmt.Sprintf("stdin closed, every request answered, no exit within %v", o.hangTime)
				kill = true
			}
		}
	}
	if kill {
		c.cmd.Process.Kill()
	}
	<-c.readDone
	close(c.outq)
	c.cmd.Wait()
	<-c.outDone
	s.ExitCode = c.cmd.ProcessState.ExitCode()
	s.Exited = !kill
	c.mu.Lock()
	defer c.mu.Unlock()
	s.Closed = c.closed
	s.ProtoErr = c.protoErr
	s.HarnessErr = c.harnessErr
	s.Stderr = c.stderr.String()
	if len(s.Stderr) > 6000 {
		s.Stderr = s.Stderr[:6000]
	}
	if !kill {
		if s.ExitCode == 0 {
			c.events = append(c.events, event{"ev": "exit", "code": 0})
			c.logf("<- exit 0")
		} else {
			s.Crash, s.Frame = crashKind(s.Stderr)
			if s.Crash == "" {
				s.Crash = fmt.Sprintf("exit-%d", s.ExitCode)
			}
			c.logf("<- exit %d", s.ExitCode)
		}
	}
	s.Events = c.events
	s.Log = c.plog
	s.Requests = c.nreq
	s.Callback = c.ncb
	s.MaxIn = c.maxIn
	return s
}

// randomChunking: seeded random byte offsets (resolved against the wave when it is known)
func randomChunking(rnd *rand.Rand, npkt int) *chunking {
	// expressed in the model's layout with a finer grid so that offsets() maps it
	ch := &chunking{NPkt: npkt, Hdr: 4, Pre: 8, Pay: 16, Post: 4, Src: "random"}
	l := ch.Hdr + ch.Pre + ch.Pay + ch.Post
	n := 1 + rnd.Intn(4)
	pos := map[int]bool{}
	for i := 0; i < n; i++ {
		pos[1+rnd.Intn(npkt*l-1)] = true
	}
	var ps []int
	for p := range pos {
		ps = append(ps, p)
	}
	sort.Ints(ps)
	for _, p := range ps {
		ch.Cuts = append(ch.Cuts, cutRec{Pkt: p / l, R: p % l, Flushed: rnd.Intn(3) > 0})
	}
	return ch
}
