package c20svc

import (
	"encoding/json"
	"fmt"
	"math/rand"
	"os"
	"os/exec"
	"path/filepath"
	"regexp"
	"sort"
	"strconv"
	"strings"
	"sync"
	"time"

	"verifharness/core"
	"verifharness/props/c20"
	"verifharness/tlcrun"
)

func init() { c20.Parts = append(c20.Parts, Run) }

func ndjson(events []event) string {
	var sb strings.Builder
	for _, m := range events {
		b, _ := json.Marshal(m)
		sb.Write(b)
		sb.WriteByte('\n')
	}
	return sb.String()
}

var reHW = regexp.MustCompile(`"HIGHWATER", (\d+)`)

type verdict struct {
	ok       bool // every session of the batch was accepted
	bad      int  // index of the first rejected session
	pos      int  // 1-based position in that session of the event that could not be matched
	badKey   int  // the build key whose packets could not be matched (0: requests without a key)
	violated string
	tail     string
	states   int64
}

func tailLines(s string, n int) string {
	lines := strings.Split(s, "\n")
	if len(lines) > n {
		lines = lines[len(lines)-n:]
	}
	return strings.Join(lines, "\n")
}

// A session is validated key by key: the packets that concern one build key
// (requests for it, their responses, the requests of the service that carry
// the key and their answers) form one trace, the requests without a key
// (transform, invalid commands), pings and anything that cannot be attributed
// form another; close-stdin and exit belong to all of them.  Requests of
// different keys share nothing in the service but the decode loop and the
// writer, whose orders are given by the log; validating them separately
// drops the ordering constraints BETWEEN keys (sound: nothing that the whole
// session allows is rejected) and turns a product of state spaces into a sum.
type part struct {
	sess   int // index of the session in the batch
	key    int // 0 = the requests without a key
	events []event
	pos    []int // position (1-based) of each event in the session's trace
}

func project(si int, s *session) []*part {
	parts := map[int]*part{}
	var order []int
	get := func(k int) *part {
		p := parts[k]
		if p == nil {
			p = &part{sess: si, key: k}
			parts[k] = p
			order = append(order, k)
		}
		return p
	}
	reqKey := map[int]int{}
	cbKey := map[int]int{}
	num := func(v interface{}) int { n, _ := v.(int); return n }
	var global []int // indices of close-stdin / exit
	type placed struct{ k, i int }
	var seq []placed
	for i, e := range s.Events {
		k := -1
		switch e["ev"] {
		case "send":
			k = num(e["key"])
			if c := e["cmd"]; c == "transform" || c == "bogus" {
				k = 0
			}
			reqKey[num(e["id"])] = k
		case "recv-response":
			if kk, ok := reqKey[num(e["id"])]; ok {
				k = kk
			} else {
				k = 0
			}
		case "recv-request":
			k = num(e["key"])
			if e["cmd"] == "ping" {
				k = 0
			}
			cbKey[num(e["id"])] = k
		case "send-response":
			if kk, ok := cbKey[num(e["id"])]; ok {
				k = kk
			} else {
				k = 0
			}
		default:
			global = append(global, i)
			get(0)
		}
		if k >= 0 {
			get(k)
		}
		seq = append(seq, placed{k, i})
	}
	// within a part the key is renamed to 1 (the specification is instantiated with one key)
	rename := func(e event) event {
		if _, has := e["key"]; !has {
			return e
		}
		c := event{}
		for k, v := range e {
			c[k] = v
		}
		if e["cmd"] == "ping" {
			c["key"] = 0
		} else {
			c["key"] = 1
		}
		return c
	}
	for _, pl := range seq {
		if pl.k >= 0 {
			p := parts[pl.k]
			p.events = append(p.events, rename(s.Events[pl.i]))
			p.pos = append(p.pos, pl.i+1)
		} else {
			for _, k := range order {
				p := parts[k]
				p.events = append(p.events, s.Events[pl.i])
				p.pos = append(p.pos, pl.i+1)
			}
		}
	}
	var out []*part
	for _, k := range order {
		out = append(out, parts[k])
	}
	return out
}

// runTLC validates the sessions ss (projected, concatenated) against ServiceTrace.tla
func runTLC(r *core.Run, ss []*session, cfg string) (*verdict, error) {
	var all []event
	var parts []*part
	for i, s := range ss {
		parts = append(parts, project(i, s)...)
	}
	ends := make([]int, len(parts)) // 1-based index of the "end" event of part i
	for i, p := range parts {
		if i > 0 {
			all = append(all, event{"ev": "reset"})
		}
		all = append(all, p.events...)
		all = append(all, event{"ev": "end"})
		ends[i] = len(all)
	}
	res, err := tlcrun.Run(r, tlcrun.Options{
		Module: "ServiceTrace", Config: cfg, Workers: 1, DFS: true,
		TimeoutSec: 900, NoDeadlock: true, KeepOutput: true,
		Files: map[string]string{"svctrace.ndjson": ndjson(all)},
	})
	if err != nil {
		return nil, err
	}
	v := &verdict{violated: res.Violated, tail: tailLines(res.Output, 25), states: res.Distinct}
	hw := 0
	for _, m := range reHW.FindAllStringSubmatch(res.Output, -1) {
		if x, _ := strconv.Atoi(m[1]); x > hw {
			hw = x
		}
	}
	if hw == 0 {
		return nil, fmt.Errorf("ServiceTrace did not report a high-water mark:\n%s", v.tail)
	}
	accepted := res.Violated == "" && !res.PostFalse && hw == len(all)+1
	if res.Violated != "" && hw == len(all)+1 {
		// an invariant of Service.tla failed on some explored state although the
		// whole log was matched: a specification error, not a verdict
		return nil, fmt.Errorf("ServiceTrace violates %s on an explored state (spec error):\n%s", res.Violated, v.tail)
	}
	// hw = index of the first event that could not be consumed
	badPart := len(parts)
	if !accepted {
		badPart = len(parts) - 1
		for i, e := range ends {
			if hw <= e {
				badPart = i
				break
			}
		}
	}
	if accepted {
		v.ok = true
		return v, nil
	}
	p := parts[badPart]
	start := 0
	if badPart > 0 {
		start = ends[badPart-1] + 1
	}
	v.bad = p.sess
	v.badKey = p.key
	if n := hw - start; n >= 1 && n <= len(p.pos) {
		v.pos = p.pos[n-1]
	} else {
		v.pos = len(ss[p.sess].Events) + 1 // the "end" event: the part is over but something is still owed
	}
	return v, nil
}

type stats struct {
	mu                                                sync.Mutex // tlcStates and heldMiss are written by the validating goroutine
	sessions, events, requests, callbacks, nontrivial int
	closed, exited, noExit, cancelled, held, heldMiss int
	crashes, hangs, pipe, pipeRetries                 int
	pipeLabels                                        map[string]int
	profiles                                          map[string]int
	kinds                                             map[string]int
	tlcStates                                         int64
}

// validate trace-validates the sessions in batches; a rejected session is a
// violation (after the checks described at handleRejected)
func validate(r *core.Run, o sessionOpts, ss []*session, st *stats) {
	for len(ss) > 0 {
		v, err := runTLC(r, ss, "ServiceTrace.cfg")
		if err != nil {
			r.Infra("service trace validation failed to run: %v", err)
			return
		}
		st.mu.Lock()
		st.tlcStates += v.states
		st.mu.Unlock()
		n := len(ss)
		if !v.ok {
			n = v.bad
		}
		r.AddTraces(int64(n))
		if v.ok {
			return
		}
		handleRejected(r, o, ss[v.bad], v, st)
		ss = ss[v.bad+1:]
	}
}

// A session rejected by ServiceTrace.  If it is accepted once the scheduling
// assumption behind "held" answers is dropped, the rejection depends on
// timing: the session is repeated with the same seed and a four times longer
// hold, and reported only if the repetitions are rejected as well.
func handleRejected(r *core.Run, o sessionOpts, s *session, v *verdict, st *stats) {
	report := func(s *session, v *verdict, extra string) {
		var rejected interface{}
		if v.pos >= 1 && v.pos <= len(s.Events) {
			rejected = s.Events[v.pos-1]
		} else if v.pos == len(s.Events)+1 {
			rejected = event{"ev": "end"}
		}
		what := fmt.Sprintf("session of the real `esbuild --service` rejected by ServiceTrace (violated=%q) at event %d of %d (packets of key %d): %v%s", v.violated, v.pos, len(s.Events), v.badKey, rejected, extra)
		r.Violation(map[string]interface{}{"kind": "trace-rejected", "event": rejected},
			what, map[string]interface{}{"seed": s.Seed, "profile": s.Profile, "args": s.Args, "rejected_at": v.pos, "trace": s.Events, "packets": s.Log, "tlc_tail": v.tail, "pipe": s.Pipe})
	}
	if !s.HeldUsed {
		report(s, v, "")
		return
	}
	v2, err := runTLC(r, []*session{s}, "ServiceTrace.nohold.cfg")
	if err != nil {
		r.Infra("service trace validation failed to run: %v", err)
		return
	}
	if !v2.ok {
		report(s, v2, "")
		return
	}
	// The rejection depends on the scheduling assumption.  Repeat the session
	// (same seed) with 4x and 16x the hold time: a goroutine that had not run
	// within the hold time is practically excluded there, so a repetition that
	// is rejected as well is reported; if both are accepted the first
	// rejection is put down to scheduling (counted, logged, not a verdict).
	oo := o
	for try := 0; try < 2; try++ {
		oo.hold *= 4
		s2 := runSession(oo, s.ID, s.Seed, s.Profile)
		if s2.Crash != "" || s2.Hang != "" {
			break
		}
		v3, err := runTLC(r, []*session{s2}, "ServiceTrace.cfg")
		if err != nil {
			r.Infra("service trace validation failed to run: %v", err)
			return
		}
		if !v3.ok {
			report(s2, v3, fmt.Sprintf(" (first seen with the on-start answer held for %v, again when the session was repeated with %v)", o.hold, oo.hold))
			return
		}
	}
	st.mu.Lock()
	st.heldMiss++
	st.mu.Unlock()
	r.Logf("session %d (seed %d): rejected only under the scheduling assumption of held answers (hold %v) and accepted twice when repeated with longer holds: not reported", s.ID, s.Seed, o.hold)
}

func buildBinary(r *core.Run, out string, race bool) error {
	args := []string{"build", "-tags", "verif", "-o", out}
	if race {
		args = append(args, "-race")
	}
	args = append(args, "./cmd/esbuild")
	cmd := exec.Command("go", args...)
	cmd.Dir = r.Repo
	cmd.Env = append(os.Environ(), "GOFLAGS=-mod=mod", "GOPROXY=off", "GOSUMDB=off", "GOTOOLCHAIN=local")
	if race {
		cmd.Env = append(cmd.Env, "CGO_ENABLED=1")
	}
	b, err := cmd.CombinedOutput()
	if err != nil {
		return fmt.Errorf("go build %v: %v\n%s", args, err, tailLines(string(b), 30))
	}
	return nil
}

func profileOf(i int, thorough bool) string {
	switch i % 20 {
	case 3, 9, 15:
		return "relay"
	case 5, 11, 17:
		return "close"
	case 7:
		return "unsafe"
	case 13:
		return "ping"
	case 19:
		return "crash"
	}
	return "mixed"
}

func Run(r *core.Run) {
	r.Assume("service: the harness logs a packet it sends before the bytes are queued for the child's stdin (one lock orders log entries and writes) and a packet it receives after reading it; ServiceTrace only relies on: sent-before-visible, written-before-received, FIFO per pipe")
	r.Assume("service: a session rejected by ServiceTrace on a changed tree is attributed to the code: ServiceTrace accepts every recorded session of the unchanged tree (except the listed known findings)")
	r.Assume("service: 'held' on-start answers (relay sessions) assume that a goroutine the service started has run its first step once the client has kept the build at the on-start barrier for the hold time; a rejection that depends on this is repeated twice with longer holds before it is reported")
	st := &stats{profiles: map[string]int{}, kinds: map[string]int{}}

	// (1) the design: TLC on Service.tla
	cfgs := []string{"Service.race.cfg", "Service.rd.cfg", "Service.plug.cfg", "Service.misc.cfg", "Service.live.cfg"}
	if r.Thorough() {
		// (Service.plug4.cfg, 5.3e6 states, is left to be run by hand)
		cfgs = append(cfgs, "Service.rc.cfg", "Service.ctx4.cfg", "Service.two.cfg")
	}
	var tmu sync.Mutex
	tlcInfo := map[string]interface{}{}
	if os.Getenv("VERIF_SVC_SKIP_DESIGN") != "" { // developer switch
		cfgs = nil
	}
	designDone := make(chan struct{})
	go func() {
		defer close(designDone)
		core.Parallel(len(cfgs), 3, func(i int) {
			c := cfgs[i]
			res := tlcrun.MustHold(r, tlcrun.Options{Module: "ServiceMC", Config: c, Workers: 2, TimeoutSec: 1500})
			if res != nil {
				tmu.Lock()
				tlcInfo[strings.TrimSuffix(strings.TrimPrefix(c, "Service."), ".cfg")] = map[string]interface{}{"generated": res.Generated, "distinct": res.Distinct, "depth": res.Depth, "wall_s": res.Wall.Seconds()}
				tmu.Unlock()
			}
		})
		// configurations in which TLC must find the counterexample behind a known
		// finding (the model describes the code as it is); each counterexample is
		// then looked for in the real process below
		expected := map[string]string{"Service.crash.cfg": "NoCrash", "Service.noexit.cfg": "temporal"}
		var names []string
		for c := range expected {
			names = append(names, c)
		}
		sort.Strings(names)
		if os.Getenv("VERIF_SVC_SKIP_DESIGN") != "" {
			names = nil
		}
		core.Parallel(len(names), 3, func(i int) {
			c := names[i]
			res, err := tlcrun.Run(r, tlcrun.Options{Module: "ServiceMC", Config: c, Workers: 2, TimeoutSec: 900, KeepOutput: true})
			if res != nil && res.Violated == "" && strings.Contains(res.Output, "Error: Temporal propert") {
				res.Violated, err = "temporal", nil
			}
			if err != nil {
				r.Infra("%v", err)
				return
			}
			if res.Violated != expected[c] {
				r.Infra("model %s: expected the counterexample for %s, TLC reports %q (the model no longer shows the known defect)", c, expected[c], res.Violated)
			}
			tmu.Lock()
			tlcInfo[strings.TrimSuffix(strings.TrimPrefix(c, "Service."), ".cfg")] = map[string]interface{}{"expected_counterexample": expected[c], "found": res.Violated, "distinct": res.Distinct}
			tmu.Unlock()
		})
	}()
	// (1b) the byte level of the read loop: ServiceStream.tla.  The design with
	// the per-packet clone must satisfy PayloadIntegrity / BufferNotReused /
	// DecodeLoop for every way of cutting 3 packets into <= 3 writes (and be
	// live); without the clone TLC must find the reuse (negative control).  The
	// chunkings (cut positions + which cuts the service had caught up at) are
	// exported for the pipelining sessions below.
	var chunkings []*chunking
	streamDone := make(chan struct{})
	go func() {
		defer close(streamDone)
		seen := map[string]bool{}
		// quick: 2 packets cut into <= 3 writes, safety + liveness in one run;
		// thorough: 3 packets (ServiceStream.clone.cfg) and liveness with a read
		// buffer smaller than a packet (ServiceStream.live.cfg)
		streamCfg := "ServiceStream.quick.cfg"
		if r.Thorough() {
			streamCfg = "ServiceStream.clone.cfg"
		}
		res := tlcrun.MustHold(r, tlcrun.Options{Module: "ServiceStream", Config: streamCfg, Workers: 2, TimeoutSec: 1500,
			OnCase: func(raw []byte) {
				ch := &chunking{Src: "tlc"}
				if err := json.Unmarshal(raw, ch); err != nil {
					r.Infra("ServiceStream case: %v", err)
					return
				}
				if !seen[ch.key()] {
					seen[ch.key()] = true
					chunkings = append(chunkings, ch)
				}
			}})
		if res != nil {
			tmu.Lock()
			tlcInfo["stream."+strings.TrimSuffix(strings.TrimPrefix(streamCfg, "ServiceStream."), ".cfg")] = map[string]interface{}{"generated": res.Generated, "distinct": res.Distinct, "depth": res.Depth, "chunkings": len(chunkings), "wall_s": res.Wall.Seconds()}
			tmu.Unlock()
		}
	}()
	streamRest := make(chan struct{})
	go func() {
		defer close(streamRest)
		if !r.Thorough() {
			// (liveness is part of ServiceStream.quick.cfg)
		} else if res := tlcrun.MustHold(r, tlcrun.Options{Module: "ServiceStream", Config: "ServiceStream.live.cfg", Workers: 2, TimeoutSec: 900}); res != nil {
			tmu.Lock()
			tlcInfo["stream.live"] = map[string]interface{}{"generated": res.Generated, "distinct": res.Distinct, "depth": res.Depth}
			tmu.Unlock()
		}
		neg, err := tlcrun.Run(r, tlcrun.Options{Module: "ServiceStream", Config: "ServiceStream.noclone.cfg", Workers: 1, TimeoutSec: 900, KeepOutput: true})
		if err != nil {
			r.Infra("%v", err)
		} else if neg.Violated != "BufferNotReused" {
			r.Infra("model ServiceStream.noclone.cfg: expected the counterexample for BufferNotReused (decoding in place from the stream buffer), TLC reports %q", neg.Violated)
		} else {
			tmu.Lock()
			tlcInfo["stream.noclone"] = map[string]interface{}{"expected_counterexample": "BufferNotReused", "found": neg.Violated, "distinct": neg.Distinct}
			tmu.Unlock()
		}
	}()
	defer func() {
		<-designDone
		<-streamDone
		<-streamRest
		tmu.Lock()
		r.Set("service_tlc", tlcInfo)
		tmu.Unlock()
	}()

	// (2) the code: sessions against the real child process
	verBytes, err := os.ReadFile(filepath.Join(r.Repo, "version.txt"))
	if err != nil {
		r.Infra("cannot read version.txt: %v", err)
		return
	}
	o := sessionOpts{exe: filepath.Join(r.Scratch, "esbuild-svc"), version: strings.TrimSpace(string(verBytes)), scratch: r.Scratch,
		hold: 400 * time.Millisecond, hangTime: 30 * time.Second, grace: 2 * time.Second}
	if err := buildBinary(r, o.exe, false); err != nil {
		r.Infra("%v", err)
		return
	}
	exes := []sessionOpts{o}
	if r.Thorough() {
		or := o
		or.exe = filepath.Join(r.Scratch, "esbuild-svc-race")
		or.race = true
		if err := buildBinary(r, or.exe, true); err != nil {
			r.Logf("service: no -race binary (%v); continuing without", err)
		} else {
			exes = append(exes, or)
		}
	}
	// sessions of the next batch run while TLC validates the previous one
	jobs := make(chan []*session, 1)
	valDone := make(chan struct{})
	go func() {
		defer close(valDone)
		for ss := range jobs {
			validate(r, o, ss, st)
		}
	}()
	// account judges one finished session (crash, hang, protocol error) and
	// says whether its trace goes to the validation
	account := func(s *session, oo sessionOpts) bool {
		st.sessions++
		st.profiles[s.Profile]++
		st.events += len(s.Events)
		st.requests += s.Requests
		st.callbacks += s.Callback
		st.cancelled += s.Cancelled
		for k, v := range s.Kinds {
			st.kinds[k] += v
		}
		if s.Profile == "close" {
			st.closed++
		}
		if s.HeldUsed {
			st.held++
		}
		r.Case(fmt.Sprintf("svc-%d-%d", s.Seed, len(s.Events)), s.MaxIn >= 2)
		if s.MaxIn >= 2 {
			st.nontrivial++
		}
		if s.ID%10 == 0 {
			r.Sample(map[string]interface{}{"service_session": s.ID, "seed": s.Seed, "profile": s.Profile, "args": s.Args, "requests": s.Requests, "callbacks": s.Callback, "max_inflight": s.MaxIn, "events": len(s.Events), "kinds": s.Kinds})
		}
		if s.Profile == "crash" {
			r.Logf("service: replay of the Service.crash.cfg counterexample (rebuild, cancel, dispose in one write), session %d: crash=%q exit=%d responses=%v", s.ID, s.Crash, s.ExitCode, s.Kinds)
		}
		replay := map[string]interface{}{"seed": s.Seed, "profile": s.Profile, "args": s.Args, "race": oo.race, "packets": s.Log, "stderr": s.Stderr, "pipe": s.Pipe}
		switch {
		case s.ProtoErr != "":
			r.Violation(map[string]interface{}{"kind": "protocol", "what": s.ProtoErr}, "the service wrote a malformed packet: "+s.ProtoErr, replay)
		case s.Crash != "":
			st.crashes++
			inEsbuild := strings.Contains(s.Stderr, "github.com/evanw/esbuild/") || strings.Contains(s.Stderr, "cmd/esbuild/") || strings.Contains(s.Stderr, "main.(*serviceType)")
			if strings.HasPrefix(s.Crash, "exit-") || !inEsbuild {
				if s.Closed {
					// a write to a closed pipe etc.: not the service's fault
					r.Infra("service session %d ended with status %d after stdin was closed, stderr does not point into esbuild:\n%s", s.ID, s.ExitCode, tailLines(s.Stderr, 10))
				} else {
					r.Violation(map[string]interface{}{"kind": "abnormal-exit", "code": s.ExitCode}, fmt.Sprintf("the service process ended with status %d although stdin was open", s.ExitCode), replay)
				}
			} else {
				r.Violation(map[string]interface{}{"kind": "crash", "crash": s.Crash, "frame": s.Frame},
					fmt.Sprintf("the service process died (%s) in %s", s.Crash, s.Frame), replay)
			}
		case s.Hang != "":
			st.hangs++
			r.Violation(map[string]interface{}{"kind": "hang", "seed": s.Seed}, "service: "+s.Hang+" (reproduced with the same seed)", replay)
		case s.HarnessErr != "":
			r.Infra("service session %d (seed %d, %s): %s", s.ID, s.Seed, s.Profile, s.HarnessErr)
		case s.NoExit != "":
			st.noExit++
			r.Violation(map[string]interface{}{"kind": "no-exit-after-stdin-closed", "cause": s.NoExit},
				"the service process does not exit after stdin was closed: "+s.NoExit, replay)
		}
		if s.Exited && s.ExitCode == 0 {
			st.exited++
		}
		// the trace of a session that crashed or was killed is still validated (as far as it goes)
		return s.ProtoErr == "" && len(s.Events) > 0
	}
	sessStart := time.Now()
	nsess := r.Pick(40, 1000)
	if v, err := strconv.Atoi(os.Getenv("VERIF_SVC_SESSIONS")); err == nil && v > 0 { // developer switch
		nsess = v
	}
	batch := r.Pick(20, 40)
	for start := 0; start < nsess && r.Violations() <= 5; start += batch {
		if r.Thorough() && time.Since(sessStart) > 11*time.Minute {
			r.Logf("service: time budget of the session driver reached after %d of %d sessions", start, nsess)
			break
		}
		n := batch
		if start+n > nsess {
			n = nsess - start
		}
		oo := exes[(start/batch)%len(exes)]
		out := make([]*session, n)
		core.Parallel(n, 8, func(i int) {
			id := start + i
			seed := r.Seed*1000003 + int64(id)*7919 + 17
			out[i] = runSession(oo, id, seed, profileOf(id, r.Thorough()))
			if out[i].Hang != "" {
				// reproduce a hang with the same seed before reporting it
				again := runSession(oo, id, seed, profileOf(id, r.Thorough()))
				if again.Hang == "" {
					r.Infra("service session %d (seed %d): %s -- not reproduced with the same seed", id, seed, out[i].Hang)
					out[i] = again
				}
			}
		})
		var ok []*session
		for _, s := range out {
			if account(s, oo) {
				ok = append(ok, s)
			}
		}
		jobs <- ok
	}
	// (3) pipelining sessions: waves of byte-payload packets cut at the TLC-exported chunkings
	<-streamDone
	if len(chunkings) == 0 {
		r.Infra("ServiceStream.clone.cfg exported no chunking")
	} else {
		runPipe(r, exes, chunkings, jobs, st, account)
	}
	close(jobs)
	<-valDone
	r.Set("service_pipe_sessions", st.pipe)
	r.Set("service_pipe_hangs_not_reproduced", st.pipeRetries)
	r.Set("service_pipe_cut_labels", st.pipeLabels)
	r.Set("service_pipe_rule", "a pipelining session = one real `esbuild --service` process, a wave of 3 packets with byte-array payloads (transform input / build stdinContents / on-load contents, each with a marker of its own) written cut at a chunking exported by TLC from ServiceStream.tla (label-first: region of each cut x first/later packet x flushed) or a seeded random one; every response is checked against the request's own payload (transform: byte-equal to api.Transform computed in the harness; builds: markers in the output files) by ServiceTrace (ObsOK)")
	r.Set("service_sessions", st.sessions)
	r.Set("service_events", st.events)
	r.Set("service_requests", st.requests)
	r.Set("service_callbacks", st.callbacks)
	r.Set("service_sessions_overlapping", st.nontrivial)
	r.Set("service_sessions_stdin_closed", st.closed)
	r.Set("service_sessions_exit0", st.exited)
	r.Set("service_sessions_no_exit_expected", st.noExit)
	r.Set("service_sessions_held", st.held)
	r.Set("service_held_assumption_misses", st.heldMiss)
	r.Set("service_rebuilds_cancelled", st.cancelled)
	r.Set("service_crashes", st.crashes)
	r.Set("service_profiles", st.profiles)
	r.Set("service_response_kinds", st.kinds)
	r.Set("service_trace_states", st.tlcStates)
	r.Set("service_rule", "a session = one real `esbuild --service` process driven by 2-4 concurrent logical clients with seeded random request sequences (build, context build + rebuild/cancel/dispose, transform, resolve, invalid command), plugin callbacks answered late / with errors / after a nested resolve, stdin closed at a random point in the 'close' profile; non-trivial = at least two requests were unanswered at the same time; distinct by (seed, trace length)")
	r.Logf("service: %d sessions, %d events, %d requests, %d callbacks, %d overlapping, %d with stdin closed at a random point, %d exit 0, %d cancelled rebuilds, %d no-exit, %d crashes, %d hangs",
		st.sessions, st.events, st.requests, st.callbacks, st.nontrivial, st.closed, st.exited, st.cancelled, st.noExit, st.crashes, st.hangs)
}

// developer entry point: `bin/check C20S` runs the service part alone
func init() { core.Register("C20S", Run) }

// runPipe runs the pipelining sessions: quick = 12 chunkings (label-first) x
// the 3 payload kinds; thorough = 20 label-first + 20 seeded random ones, mixed
// waves, every session on the plain and on the -race binary.
func runPipe(r *core.Run, exes []sessionOpts, all []*chunking, jobs chan []*session, st *stats, account func(*session, sessionOpts) bool) {
	rnd := rand.New(rand.NewSource(r.Seed*7919 + 31))
	picked := pickChunkings(all, r.Pick(12, 20), rnd)
	if r.Thorough() {
		for i := 0; i < 20; i++ {
			picked = append(picked, randomChunking(rnd, 2+rnd.Intn(3)))
		}
	}
	kindSets := [][]string{{"transform"}, {"stdin"}, {"onload"}}
	type job struct {
		kinds []string
		ch    *chunking
		exe   sessionOpts
	}
	var js []job
	st.pipeLabels = map[string]int{}
	for _, ch := range picked {
		for _, l := range ch.cutLabels() {
			st.pipeLabels[l]++
		}
		sets := kindSets
		if r.Thorough() {
			mixed := make([]string, ch.NPkt)
			for i := range mixed {
				mixed[i] = []string{"transform", "stdin", "onload"}[rnd.Intn(3)]
			}
			sets = append(append([][]string{}, kindSets...), mixed)
		}
		for _, ks := range sets {
			// (a wave has at least 3 packets: the chunkings of the 2-packet model
			// cut the first two, the third follows whole)
			nk := ch.NPkt
			if nk < 3 {
				nk = 3
			}
			kinds := make([]string, nk)
			for i := range kinds {
				kinds[i] = ks[i%len(ks)]
			}
			for _, exe := range exes {
				js = append(js, job{kinds, ch, exe})
			}
		}
	}
	batch := 48
	for start := 0; start < len(js) && r.Violations() <= 5; start += batch {
		n := batch
		if start+n > len(js) {
			n = len(js) - start
		}
		out := make([]*session, n)
		core.Parallel(n, 8, func(i int) {
			j := js[start+i]
			id := 100000 + start + i
			seed := r.Seed*1000003 + int64(id)*7919 + 17
			out[i] = runPipeSession(j.exe, id, seed, j.kinds, j.ch)
			if out[i].Hang != "" {
				// a hang is a verdict only if the same session hangs again; the
				// repetition is what gets validated otherwise (counted, logged)
				again := runPipeSession(j.exe, id, seed, j.kinds, j.ch)
				if again.Hang == "" {
					r.Logf("service session %d (seed %d): %s -- not reproduced with the same seed, the repetition is validated instead", id, seed, out[i].Hang)
					st.mu.Lock()
					st.pipeRetries++
					st.mu.Unlock()
					out[i] = again
				}
			}
		})
		var ok []*session
		for i, s := range out {
			st.pipe++
			if account(s, js[start+i].exe) {
				ok = append(ok, s)
			}
		}
		jobs <- ok
	}
	r.Logf("service: %d pipelining sessions (%d chunkings of %d exported by TLC; cut labels %v)", st.pipe, len(picked), len(all), st.pipeLabels)
}
