// Package core holds what every property check shares: the run context
// (tier, seed, scratch directory), the verdict rule (violations, known
// findings, replay files) and the evidence writer.
package core

import (
	"crypto/sha1"
	"encoding/hex"
	"encoding/json"
	"fmt"
	"math/rand"
	"os"
	"path/filepath"
	"sort"
	"strconv"
	"strings"
	"sync"
	"time"
)

// Exit codes of every check
const (
	ExitHeld      = 0
	ExitViolation = 1
	ExitInfra     = 2
)

type Run struct {
	ID      string // property id, e.g. "C20"
	Tier    string // quick | thorough
	Seed    int64
	Verif   string // /verif
	Repo    string // /repo
	Scratch string // removed on Finish
	Replay  string // path of a replay file if --replay was given
	Rand    *rand.Rand

	start time.Time
	mu    sync.Mutex

	// evidence
	Level       string
	Coverage    map[string]interface{}
	Assumptions []string
	samples     []interface{}
	distinct    map[string]bool
	evaluations int64
	states      int64
	transitions int64
	traces      int64

	violations  int
	knownHits   map[string]bool
	infraErrors []string
	drift       int
	known       []KnownFinding
}

type KnownFinding struct {
	Status   string                 `json:"status"` // known | fixed
	Property string                 `json:"property"`
	Match    map[string]interface{} `json:"match"`
	What     string                 `json:"what"`
	Commit   string                 `json:"commit,omitempty"`
}

var registry = map[string]func(*Run){}

// Register makes a property check available to cmd/check (call from init())
func Register(id string, fn func(*Run)) { registry[id] = fn }
func Lookup(id string) func(*Run)       { return registry[id] }

func NewRun(id string, args []string) *Run {
	r := &Run{
		ID:        id,
		Tier:      "quick",
		Verif:     envOr("VERIF_DIR", "/verif"),
		Repo:      envOr("VERIF_REPO", "/repo"),
		Level:     "model_checking",
		Coverage:  map[string]interface{}{},
		distinct:  map[string]bool{},
		knownHits: map[string]bool{},
		start:     time.Now(),
	}
	if t := os.Getenv("VERIF_TIER"); t == "quick" || t == "thorough" {
		r.Tier = t
	}
	for i := 0; i < len(args); i++ {
		switch args[i] {
		case "--tier":
			if i+1 < len(args) {
				r.Tier = args[i+1]
				i++
			}
		case "--replay":
			if i+1 < len(args) {
				r.Replay = args[i+1]
				i++
			}
		case "--seed":
			if i+1 < len(args) {
				r.Seed, _ = strconv.ParseInt(args[i+1], 10, 64)
				i++
			}
		}
	}
	if s := os.Getenv("VERIF_SEED"); s != "" && r.Seed == 0 {
		if v, err := strconv.ParseInt(s, 10, 64); err == nil {
			r.Seed = v
		}
	}
	if r.Seed == 0 {
		r.Seed = 1
	}
	r.Rand = rand.New(rand.NewSource(r.Seed))
	dir, err := os.MkdirTemp("", "verif-"+id+"-")
	if err != nil {
		fmt.Fprintln(os.Stderr, "INFRA: cannot create scratch dir:", err)
		os.Exit(ExitInfra)
	}
	r.Scratch = dir
	r.loadKnown()
	return r
}

func envOr(k, d string) string {
	if v := os.Getenv(k); v != "" {
		return v
	}
	return d
}

func (r *Run) Thorough() bool { return r.Tier == "thorough" }

// Pick returns q in the quick tier and t in the thorough tier
func (r *Run) Pick(q, t int) int {
	if r.Thorough() {
		return t
	}
	return q
}

func (r *Run) Elapsed() time.Duration { return time.Since(r.start) }

func (r *Run) Logf(format string, a ...interface{}) {
	fmt.Fprintf(os.Stderr, "[%s %6.1fs] %s\n", r.ID, time.Since(r.start).Seconds(), fmt.Sprintf(format, a...))
}

func (r *Run) loadKnown() {
	data, err := os.ReadFile(filepath.Join(r.Verif, "known_findings.jsonl"))
	if err != nil {
		return
	}
	for _, line := range strings.Split(string(data), "\n") {
		line = strings.TrimSpace(line)
		if line == "" || strings.HasPrefix(line, "#") {
			continue
		}
		var k KnownFinding
		if err := json.Unmarshal([]byte(line), &k); err == nil && k.Property == r.ID {
			r.known = append(r.known, k)
		}
	}
}

func canon(v interface{}) string {
	b, _ := json.Marshal(v)
	return string(b)
}

// matchKnown reports whether every field of a known finding's match record
// equals the corresponding field of the violating scenario's key.
func (r *Run) matchKnown(key map[string]interface{}) *KnownFinding {
	for i := range r.known {
		k := &r.known[i]
		if k.Status != "known" || len(k.Match) == 0 {
			continue
		}
		ok := true
		for f, want := range k.Match {
			got, has := key[f]
			if !has || canon(got) != canon(want) {
				ok = false
				break
			}
		}
		if ok {
			return k
		}
	}
	return nil
}

// Violation records that real-code behaviour contradicted the property.
// key identifies the failing scenario (compared with known_findings.jsonl);
// replay is written to /verif/replay/<id>/<sha1>.json.
// Returns true if it was a new (unlisted) violation.
func (r *Run) Violation(key map[string]interface{}, what string, replay interface{}) bool {
	r.mu.Lock()
	defer r.mu.Unlock()
	if k := r.matchKnown(key); k != nil {
		id := canon(k.Match)
		if !r.knownHits[id] {
			r.knownHits[id] = true
			fmt.Printf("KNOWN-FINDING: property=%s %s\n", r.ID, k.What)
		}
		return false
	}
	r.violations++
	rec := map[string]interface{}{
		"property": r.ID, "tier": r.Tier, "seed": r.Seed, "key": key, "what": what, "detail": replay,
	}
	b, _ := json.MarshalIndent(rec, "", " ")
	sum := sha1.Sum([]byte(canon(key) + what))
	dir := filepath.Join(envOr("VERIF_REPLAY_DIR", filepath.Join(r.Verif, "replay")), r.ID)
	os.MkdirAll(dir, 0755)
	path := filepath.Join(dir, hex.EncodeToString(sum[:8])+".json")
	os.WriteFile(path, b, 0644)
	if r.violations <= 20 {
		fmt.Printf("VIOLATION property=%s replay=%s\n", r.ID, path)
		fmt.Fprintf(os.Stderr, "  %s\n  key=%s\n", what, canon(key))
	}
	return true
}

func (r *Run) Violations() int { r.mu.Lock(); defer r.mu.Unlock(); return r.violations }

// Infra records an infrastructure problem (dead driver, TLC failure, timeout
// that could not be reproduced ...). It never becomes a violation.
func (r *Run) Infra(format string, a ...interface{}) {
	r.mu.Lock()
	defer r.mu.Unlock()
	msg := fmt.Sprintf(format, a...)
	r.infraErrors = append(r.infraErrors, msg)
	fmt.Fprintf(os.Stderr, "INFRA: %s\n", msg)
}

// Drift records a disagreement between the specification's prediction and
// the native reference (SPEC-DRIFT): excluded from the verdict.
func (r *Run) Drift(format string, a ...interface{}) {
	r.mu.Lock()
	defer r.mu.Unlock()
	r.drift++
	if r.drift <= 10 {
		fmt.Fprintf(os.Stderr, "SPEC-DRIFT: %s\n", fmt.Sprintf(format, a...))
	}
}

func (r *Run) DriftCount() int { r.mu.Lock(); defer r.mu.Unlock(); return r.drift }

// Case counts one evaluated case. id identifies it for distinctness; a
// non-trivial case (by the property's stated rule) is counted in
// distinct_nontrivial once per distinct id.
func (r *Run) Case(id string, nontrivial bool) {
	r.mu.Lock()
	r.evaluations++
	if nontrivial && id != "" {
		r.distinct[id] = true
	}
	r.mu.Unlock()
}

func (r *Run) AddEvaluations(n int64) { r.mu.Lock(); r.evaluations += n; r.mu.Unlock() }
func (r *Run) AddTraces(n int64)      { r.mu.Lock(); r.traces += n; r.mu.Unlock() }
func (r *Run) AddStates(states, transitions int64) {
	r.mu.Lock()
	r.states += states
	r.transitions += transitions
	r.mu.Unlock()
}

// Sample keeps up to 8 actual cases for the evidence file
func (r *Run) Sample(v interface{}) {
	r.mu.Lock()
	if len(r.samples) < 8 {
		r.samples = append(r.samples, v)
	}
	r.mu.Unlock()
}

func (r *Run) Set(key string, v interface{}) {
	r.mu.Lock()
	r.Coverage[key] = v
	r.mu.Unlock()
}

func (r *Run) Inc(key string, n int64) {
	r.mu.Lock()
	cur, _ := r.Coverage[key].(int64)
	r.Coverage[key] = cur + n
	r.mu.Unlock()
}

func (r *Run) Assume(s string) { r.Assumptions = append(r.Assumptions, s) }

// Finish writes the evidence file, removes the scratch directory and returns
// the exit code.
func (r *Run) Finish() int {
	r.mu.Lock()
	defer r.mu.Unlock()
	cov := r.Coverage
	cov["evaluations"] = r.evaluations
	cov["distinct_nontrivial"] = len(r.distinct)
	cov["states"] = r.states
	cov["transitions"] = r.transitions
	cov["traces_validated_against_impl"] = r.traces
	if len(r.samples) == 0 {
		r.samples = append(r.samples, "none")
	}
	cov["samples"] = r.samples
	cov["spec_drift"] = r.drift
	if len(r.infraErrors) > 0 {
		cov["infra_errors"] = r.infraErrors
	}
	kh := []string{}
	for k := range r.knownHits {
		kh = append(kh, k)
	}
	sort.Strings(kh)
	cov["known_findings_seen"] = kh
	ev := map[string]interface{}{
		"property_id": r.ID,
		"tier":        r.Tier,
		"seed":        r.Seed,
		"level":       r.Level,
		"coverage":    cov,
		"assumptions": r.Assumptions,
		"wall_s":      time.Since(r.start).Seconds(),
		"violations":  r.violations,
	}
	if r.Replay == "" {
		b, _ := json.MarshalIndent(ev, "", " ")
		dir := envOr("VERIF_EVIDENCE_DIR", filepath.Join(r.Verif, "evidence"))
		os.MkdirAll(dir, 0755)
		if err := os.WriteFile(filepath.Join(dir, r.ID+".json"), b, 0644); err != nil {
			fmt.Fprintln(os.Stderr, "INFRA: cannot write evidence:", err)
		}
	}
	os.RemoveAll(r.Scratch)
	code := ExitHeld
	if r.violations > 0 {
		code = ExitViolation
	} else if len(r.infraErrors) > 0 {
		code = ExitInfra
	}
	fmt.Fprintf(os.Stderr, "[%s] tier=%s seed=%d evaluations=%d distinct_nontrivial=%d states=%d traces=%d violations=%d drift=%d infra=%d wall=%.1fs exit=%d\n",
		r.ID, r.Tier, r.Seed, r.evaluations, len(r.distinct), r.states, r.traces, r.violations, r.drift, len(r.infraErrors), time.Since(r.start).Seconds(), code)
	return code
}

// Hash is a short stable identifier of any JSON-able value
func Hash(v interface{}) string {
	sum := sha1.Sum([]byte(canon(v)))
	return hex.EncodeToString(sum[:8])
}

// WriteTree writes files (relative path -> content) below dir
func WriteTree(dir string, files map[string]string) error {
	for rel, content := range files {
		p := filepath.Join(dir, rel)
		if err := os.MkdirAll(filepath.Dir(p), 0755); err != nil {
			return err
		}
		if err := os.WriteFile(p, []byte(content), 0644); err != nil {
			return err
		}
	}
	return nil
}

// Parallel runs fn(i) for i in [0,n) on w workers
func Parallel(n, w int, fn func(i int)) {
	if w < 1 {
		w = 1
	}
	var wg sync.WaitGroup
	ch := make(chan int)
	for k := 0; k < w; k++ {
		wg.Add(1)
		go func() {
			defer wg.Done()
			for i := range ch {
				fn(i)
			}
		}()
	}
	for i := 0; i < n; i++ {
		ch <- i
	}
	close(ch)
	wg.Wait()
}
