package core

import (
	"bytes"
	"encoding/json"
	"fmt"
	"os"
	"os/exec"
	"path/filepath"
	"strings"
	"sync/atomic"
	"time"
)

// Child handlers run a batch of real-code work in a separate process, so that
// a crash of the code under test (a panic on one of esbuild's own goroutines,
// a fatal runtime error, a detected data race) is observed by the parent
// instead of killing the check.
type ChildFunc func(r *Run, in json.RawMessage) (interface{}, error)

var childHandlers = map[string]ChildFunc{}

func RegisterChild(name string, fn ChildFunc) { childHandlers[name] = fn }

type ChildResult struct {
	Crashed  bool   // the process died (panic / fatal error / race report / kill)
	TimedOut bool
	Stderr   string // tail
	ExitCode int
}

var childCounter int64

// Child runs handler `name` in a child process with input in, decoding its
// result into out. exe may name another build of the harness (e.g. -race).
func (r *Run) Child(name string, in interface{}, out interface{}, timeout time.Duration, exe string, env ...string) ChildResult {
	n := atomic.AddInt64(&childCounter, 1)
	inFile := filepath.Join(r.Scratch, fmt.Sprintf("child-%d.in.json", n))
	outFile := filepath.Join(r.Scratch, fmt.Sprintf("child-%d.out.json", n))
	b, _ := json.Marshal(in)
	os.WriteFile(inFile, b, 0644)
	if exe == "" {
		exe, _ = os.Executable()
	}
	cmd := exec.Command(exe, "--child", name, inFile, outFile, r.ID, r.Tier, fmt.Sprint(r.Seed))
	cmd.Env = append(os.Environ(), env...)
	var stderr bytes.Buffer
	cmd.Stderr = &stderr
	cmd.Stdout = &stderr
	res := ChildResult{}
	if err := cmd.Start(); err != nil {
		res.Crashed = true
		res.Stderr = err.Error()
		return res
	}
	done := make(chan error, 1)
	go func() { done <- cmd.Wait() }()
	select {
	case err := <-done:
		if ee, ok := err.(*exec.ExitError); ok {
			res.ExitCode = ee.ExitCode()
		}
	case <-time.After(timeout):
		cmd.Process.Kill()
		<-done
		res.TimedOut = true
		res.ExitCode = -1
	}
	s := stderr.String()
	if len(s) > 6000 {
		s = s[:2500] + "\n...\n" + s[len(s)-3000:]
	}
	res.Stderr = s
	data, err := os.ReadFile(outFile)
	if err != nil || res.ExitCode != 0 {
		res.Crashed = !res.TimedOut
		return res
	}
	if err := json.Unmarshal(data, out); err != nil {
		res.Crashed = true
		res.Stderr += "\nundecodable child output: " + err.Error()
	}
	os.Remove(inFile)
	os.Remove(outFile)
	return res
}

// CrashInEsbuild says whether a crash report points into esbuild's own code
func CrashInEsbuild(stderr string) bool {
	return (strings.Contains(stderr, "panic:") || strings.Contains(stderr, "fatal error:") || strings.Contains(stderr, "DATA RACE")) &&
		strings.Contains(stderr, "github.com/evanw/esbuild/")
}

// ChildMain is called by main() for `check --child name in out id tier seed`
func ChildMain(args []string) int {
	if len(args) < 6 {
		return ExitInfra
	}
	fn := childHandlers[args[0]]
	if fn == nil {
		fmt.Fprintln(os.Stderr, "unknown child handler", args[0])
		return ExitInfra
	}
	in, err := os.ReadFile(args[1])
	if err != nil {
		return ExitInfra
	}
	r := NewRun(args[3], []string{"--tier", args[4], "--seed", args[5]})
	defer os.RemoveAll(r.Scratch)
	out, err := fn(r, in)
	if err != nil {
		fmt.Fprintln(os.Stderr, "child error:", err)
		os.RemoveAll(r.Scratch)
		return ExitInfra
	}
	b, _ := json.Marshal(out)
	if err := os.WriteFile(args[2], b, 0644); err != nil {
		return ExitInfra
	}
	return 0
}

// RaceExe builds (once per run) the harness with the race detector and
// returns the path of the binary; "" if it cannot be built.
func (r *Run) RaceExe() string {
	build := envOr("VERIF_BUILD", filepath.Join(r.Verif, ".build"))
	out := filepath.Join(build, "check-race")
	cmd := exec.Command("go", "build", "-race", "-tags", "verif", "-modfile="+filepath.Join(build, "go.mod"), "-o", out, "./cmd/check")
	cmd.Dir = filepath.Join(r.Verif, "harness")
	if b, err := cmd.CombinedOutput(); err != nil {
		r.Infra("cannot build the harness with -race: %v\n%s", err, string(b))
		return ""
	}
	return out
}
