// check <property-id> [--tier quick|thorough] [--seed n] [--replay path]
package main

import (
	"fmt"
	"os"

	"verifharness/core"
	_ "verifharness/props/all"
)

func main() {
	if len(os.Args) < 2 {
		fmt.Fprintln(os.Stderr, "usage: check <property-id> [--tier quick|thorough] [--seed n] [--replay path]")
		os.Exit(core.ExitInfra)
	}
	if os.Args[1] == "--child" {
		os.Exit(core.ChildMain(os.Args[2:]))
	}
	id := os.Args[1]
	fn := core.Lookup(id)
	if fn == nil {
		fmt.Fprintf(os.Stderr, "unknown property %q\n", id)
		os.Exit(core.ExitInfra)
	}
	r := core.NewRun(id, os.Args[2:])
	code := func() (code int) {
		defer func() {
			if p := recover(); p != nil {
				r.Infra("harness panic: %v", p)
				code = r.Finish()
				if code == core.ExitHeld {
					code = core.ExitInfra
				}
			}
		}()
		fn(r)
		return r.Finish()
	}()
	os.Exit(code)
}
