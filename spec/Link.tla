------------------------------- MODULE Link -------------------------------
(***************************************************************************)
(* Linking as a function of the module graph: the chunk-graph part.        *)
(* Anchors: internal/linker/linker.go treeShakingAndCodeSplitting,          *)
(* markFileReachableForCodeSplitting, computeChunks,                        *)
(* computeCrossChunkDependencies, enforceNoCyclicChunkImports,              *)
(* findImportedPartsInJSOrder.                                              *)
(*                                                                          *)
(* This module has no variables: it is a library of constant operators in   *)
(* three layers.                                                            *)
(*  1. The graph alphabet G (files with ordered static imports, re-exports, *)
(*     dynamic import() edges, export bindings, entry points) and the       *)
(*     ES-module evaluation order (post-order DFS over static imports).     *)
(*  2. The linker stages, one named operator per linker step:               *)
(*     Live, EntryIds, ReachOf, EntryBits, ChunkKeys, ChunkOf,              *)
(*     StaticImportsOf/DynImportsOf (CrossChunkImports), ExportsOfChunk,    *)
(*     OrderInChunk; Compute(G) assembles them into a link result L.        *)
(*  3. The properties, written over a link result L only, so that the same  *)
(*     formulas are evaluated by TLC on Compute(G) for every graph of the   *)
(*     bounded family (LinkGen.tla) and on the projection of the real       *)
(*     linker's state (LinkState.tla, hook "link.done").                    *)
(*                                                                          *)
(* G == [ files    : Seq(File), entries : Seq(FileId), splitting : BOOLEAN ]*)
(* File == [ name    : STRING,                                              *)
(*           imports : Seq([to : FileId, bind : BOOLEAN]),  ordered static  *)
(*                      imports; bind = the importer uses every binding the *)
(*                      target exports, ~bind = `import "./t.js"`           *)
(*           reexp   : Seq(FileId),  `export {v as v_t, ...} from "./t.js"` *)
(*                      (module requests after the imports, in this order)  *)
(*           dyn     : Seq(FileId),  `import("./t.js")` at top level        *)
(*           exports : BOOLEAN,      declares `export let v`, `export let   *)
(*                      c` (mutated by `export function bump`)              *)
(*           sfx     : STRING,       the top-level names of the file are    *)
(*                      v\o sfx, c\o sfx, bump\o sfx, id\o sfx, helper\o sfx *)
(*                      ("", "2", "3": the collision renamers' own scheme)   *)
(*           dflt    : BOOLEAN,      has `export default <expr>`            *)
(*           rx      : Seq([to : FileId, kind : STRING]) ]  re-export       *)
(*                      statements after the imports and reexp:             *)
(*                      "star"   export * from "./t.js"                     *)
(*                      "named"  export {a, b, ...} from "./t.js" (every     *)
(*                               name t exports, own or re-exported)        *)
(*                      "rename" export {a as a_t, ...} from "./t.js"       *)
(*                               (reexp is a sequence of such edges)        *)
(*                      "imex"   import {a as l, ...} from "./t.js";        *)
(*                               export {l as a, ...}                       *)
(*                      "ns"     export * as ns_t from "./t.js"             *)
(* A symbol is [file, name] (name "default" = the default export, "*" = the *)
(* namespace object of the file); the names a file declares are OwnNames.   *)
(* The resolved export table of a file (TableOf) follows re-export chains   *)
(* of any depth with the ES rules for `export *` (no default, explicit      *)
(* exports shadow star exports, ambiguous star names are dropped).          *)
(*                                                                          *)
(* L == [ files   : [FileId -> [live, bits, isEntry, css, wrap]],           *)
(*        entries : set of entry ids (the elements of the bit sets),        *)
(*        chunks  : [ChunkId -> [bits, isEntry, entry, files, order, kind,  *)
(*                     imports : SUBSET [chunk, kind],                      *)
(*                     exports : SUBSET [alias, file, name],                *)
(*                     importsFrom : SUBSET [chunk, alias]]],               *)
(*        assigns : SUBSET [by, file, name]   code of file `by` assigns to  *)
(*                                            the symbol [file, name]       *)
(*        uses    : SUBSET [by, file, name],   top-level reads, and calls   *)
(*                     of wrappers: name "wrapper" = init_x / require_x     *)
(*        eexports: SUBSET [entry, file, name] ]  the entry point exports   *)
(*                                            the symbol [file, name]       *)
(* The export aliases of a chunk are assigned by a model of the linker's    *)
(* ExportRenamer (RenameAll) run over the chunk's exported symbols.         *)
(***************************************************************************)
EXTENDS Integers, Sequences, FiniteSets, TLC

NoFile == 0
SeqToSet(s) == {s[i] : i \in 1..Len(s)}

-----------------------------------------------------------------------------
(* 1. Graph alphabet and ES-module evaluation order                         *)

FileIds(G) == 1..Len(G.files)
ImportTargets(G, f) == [i \in 1..Len(G.files[f].imports) |-> G.files[f].imports[i].to]
\* the module requests of f in source order (import statements, then export-from statements)
RxTargets(G, f) == [i \in 1..Len(G.files[f].rx) |-> G.files[f].rx[i].to]
StaticSeq(G, f) == ImportTargets(G, f) \o G.files[f].reexp \o RxTargets(G, f)
StaticTargets(G, f) == SeqToSet(StaticSeq(G, f))
DynTargets(G, f) == SeqToSet(G.files[f].dyn)
ReqTargets(G, f) == SeqToSet(G.files[f].req)
UserEntries(G) == SeqToSet(G.entries)
\* loader / representation kinds
JSLoaders == {"js", "ts", "tsx", "jsx", "json"}
IsCss(G, f) == G.files[f].ldr = "css"
IsJS(G, f) == ~IsCss(G, f)
\* a module whose body reports (style sheets and JSON data do not)
HasBody(G, f) == G.files[f].ldr \notin {"css", "json"}

\* Post-order depth-first traversal; ch is a function node -> sequence of
\* children, acc = [seen, order].  A node is marked when entered, so a cyclic
\* edge to a node that is still being evaluated is skipped (the ES cycle rule).
RECURSIVE PO(_, _, _), POSeq(_, _, _)
PO(ch, n, acc) ==
  IF n \in acc.seen THEN acc
  ELSE LET a1 == POSeq(ch, ch[n], [acc EXCEPT !.seen = @ \cup {n}])
       IN [a1 EXCEPT !.order = Append(@, n)]
POSeq(ch, s, acc) ==
  IF s = <<>> THEN acc ELSE POSeq(ch, Tail(s), PO(ch, Head(s), acc))

\* evaluation order of the not yet evaluated nodes needed by roots (in order)
EvalOrder(ch, roots, seen) == POSeq(ch, roots, [seen |-> seen, order |-> <<>>]).order
Reach(ch, roots) == SeqToSet(EvalOrder(ch, roots, {}))

\* (a require() evaluates its target during the body; for the set of evaluated modules and once-only evaluation the
\* calls are children after the static imports; a style sheet is not evaluated)
SrcChildren(G) == [f \in FileIds(G) |-> SelectSeq(StaticSeq(G, f), LAMBDA t : IsJS(G, t)) \o G.files[f].req]
\* ES semantics: loading entry e into a registry where `done` is evaluated runs these bodies, in this order
SrcEvalOrder(G, e, done) == EvalOrder(SrcChildren(G), <<e>>, done)

\* a deterministic enumeration of a finite set of integers / of any set
RECURSIVE SortInts(_)
SortInts(S) == IF S = {} THEN <<>>
               ELSE LET m == CHOOSE x \in S : \A y \in S : x <= y IN <<m>> \o SortInts(S \ {m})
RECURSIVE AnySeq(_)
AnySeq(S) == IF S = {} THEN <<>> ELSE LET x == CHOOSE y \in S : TRUE IN <<x>> \o AnySeq(S \ {x})

-----------------------------------------------------------------------------
(* 2. Linker stages                                                         *)

\* tree shaking at file granularity: every file imported (statically or
\* dynamically) from a live file is live (all files of this alphabet have
\* side effects; the tree-shaking extension refines this stage)
AllChildren(G) == [f \in FileIds(G) |-> StaticSeq(G, f) \o G.files[f].req \o G.files[f].dyn]
Live(G) == Reach(AllChildren(G), G.entries)

\* with splitting, the target of a dynamic import() becomes an entry point of its own
DynEntries(G) == IF G.splitting THEN UNION {DynTargets(G, f) : f \in Live(G)} ELSE {}
EntryIds(G) == UserEntries(G) \cup DynEntries(G)
IsExternalDyn(G, f, t) == G.splitting /\ t \in EntryIds(G) /\ t # f

\* markFileReachableForCodeSplitting: static records and the dynamic ones that are not external
ReachChildren(G) ==
  [f \in FileIds(G) |->
     StaticSeq(G, f) \o G.files[f].req \o SelectSeq(G.files[f].dyn, LAMBDA t : ~IsExternalDyn(G, f, t))]
ReachOf(G) == [e \in EntryIds(G) |-> Reach(ReachChildren(G), <<e>>)]
\* which entry points reach the file
EntryBitsIn(reach, f) == {e \in DOMAIN reach : f \in reach[e]}
EntryBits(G, f) == EntryBitsIn(ReachOf(G), f)

\* computeChunks: one chunk per entry point and one per distinct bit set of a live file;
\* a chunk is identified by its bit set
ChunkKeysIn(G, reach) == {{e} : e \in DOMAIN reach} \cup {EntryBitsIn(reach, f) : f \in Live(G)}
ChunkKeys(G) == ChunkKeysIn(G, ReachOf(G))
ChunkOf(G, f) == EntryBits(G, f)

\* wrap kinds (graph.WrapNone / WrapESM / WrapCJS), derived from how a file is reached: a file in CommonJS syntax is
\* wrapped in __commonJS (require_x); an ES module that is the target of require() (or of an import() that is not turned
\* into a chunk import) is wrapped lazily in __esm (init_x), and so is every file a wrapped file imports by statement
CjsFiles(G) == {f \in FileIds(G) : G.files[f].cjs}
LazyTargets(G) ==
  UNION {ReqTargets(G, f) \cup {t \in DynTargets(G, f) : ~IsExternalDyn(G, f, t)} : f \in Live(G)}
RECURSIVE WrapFix(_, _)
WrapFix(G, W) ==
  LET N == W \cup UNION {{t \in StaticTargets(G, f) : IsJS(G, t)} : f \in W}
  IN IF N = W THEN W ELSE WrapFix(G, N)
Wrapped(G) == WrapFix(G, (LazyTargets(G) \cup CjsFiles(G)) \cap Live(G))
WrapOfIn(G, W, f) == IF G.files[f].cjs THEN "cjs" ELSE IF f \in W THEN "esm" ELSE "none"
WrapOf(G, f) == WrapOfIn(G, Wrapped(G), f)
\* the wrapper symbol of a wrapped file (init_x / require_x): a symbol of the file
WrapperSym(f) == [file |-> f, name |-> "wrapper"]
\* the style sheets an entry point reaches through any import record (static, require(), import()): findImportedCSSFilesInJSOrder
CssOf(G, e) == {f \in Reach(AllChildren(G), <<e>>) : IsCss(G, f)}
\* the id of the CSS chunk of entry point e (the JS chunk of e is {e})
CssId(e) == {0 - e}

\* export table of a file: own bindings and re-exports of any depth (static imports are acyclic).
\* A table entry is [alias, file, name, kind]: the file exports the symbol [file, name] as `alias`;
\* kind is "v", "c", "bump" (the binding triple of a file), "default", "ns" (a namespace object),
\* "peek", "poke" (the observers a user entry point exports); tail is what the re-export statements on the way
\* appended to the original name (the three bindings of a file travel together and share their tail).
Triple == {"v", "c", "bump"}
OwnNames(G, f) == IF G.files[f].exports THEN {k \o G.files[f].sfx : k \in Triple} ELSE {}
ObserverName(G, f, p) == p \o "_" \o G.files[f].name
OwnTable(G, f) ==
  (IF G.files[f].exports
   THEN {[alias |-> k \o G.files[f].sfx, file |-> f, name |-> k \o G.files[f].sfx, kind |-> k, tail |-> ""] : k \in Triple} ELSE {}) \cup
  (IF G.files[f].dflt THEN {[alias |-> "default", file |-> f, name |-> "default", kind |-> "default", tail |-> ""]} ELSE {}) \cup
  (IF f \in UserEntries(G)
   THEN {[alias |-> ObserverName(G, f, p), file |-> f, name |-> ObserverName(G, f, p), kind |-> p, tail |-> ""] : p \in {"peek", "poke"}} ELSE {})
ReAlias(n, tname) == n \o "_" \o tname
RxEdges(G, f) == [i \in 1..Len(G.files[f].reexp) |-> [to |-> G.files[f].reexp[i], kind |-> "rename"]] \o G.files[f].rx
RECURSIVE TableOf(_, _)
\* the entries one re-export statement adds explicitly (star adds none: see StarPart)
EdgePart(G, e) ==
  LET tn == G.files[e.to].name
  IN CASE e.kind \in {"named", "imex"} -> TableOf(G, e.to)
       [] e.kind = "rename" -> {[x EXCEPT !.alias = ReAlias(@, tn), !.tail = ReAlias(@, tn)] : x \in TableOf(G, e.to)}
       [] e.kind = "ns"     -> {[alias |-> "ns_" \o tn, file |-> e.to, name |-> "*", kind |-> "ns", tail |-> ""]}
       [] OTHER             -> {}
ExplicitTable(G, f) ==
  LET es == RxEdges(G, f) IN OwnTable(G, f) \cup UNION {EdgePart(G, es[i]) : i \in 1..Len(es)}
\* `export *`: every name of the target but default, unless exported explicitly here or ambiguous
StarPart(G, f, explicit) ==
  LET es   == RxEdges(G, f)
      cand == UNION {{x \in TableOf(G, es[i].to) : x.alias # "default"} : i \in {j \in 1..Len(es) : es[j].kind = "star"}}
  IN {x \in cand : /\ \A y \in explicit : y.alias # x.alias
                   /\ \A y \in cand : y.alias = x.alias => (y.file = x.file /\ y.name = x.name)}
TableOf(G, f) == LET ex == ExplicitTable(G, f) IN ex \cup StarPart(G, f, ex)
\* the program is well formed: no name is exported twice explicitly, no import names an ambiguous star export
WellFormedFile(G, f) == \A x, y \in ExplicitTable(G, f) : x.alias = y.alias => x = y
ExportsOf(G, f) == {[alias |-> x.alias, file |-> x.file, name |-> x.name] : x \in TableOf(G, f)}
Sym(x) == [file |-> x.file, name |-> x.name]
\* symbols the code of f refers to (imports are followed to the declaring file, as ImportsToBind does);
\* a re-export statement is not a use
\* a binding of a CommonJS file is a property of what its wrapper returns (import_x.v): the use is of the wrapper
BindingUsesOf(G, f) ==
  UNION {{IF G.files[x.file].cjs THEN WrapperSym(x.file) ELSE Sym(x) : x \in TableOf(G, G.files[f].imports[i].to)}
           : i \in {j \in 1..Len(G.files[f].imports) : G.files[f].imports[j].bind}}
\* an import statement (or export-from) of a wrapped file calls its wrapper; require() of a file calls its wrapper and,
\* for a lazily initialised ES module, reads its exports object
WrapperUsesOfIn(G, W, f) ==
  {WrapperSym(t) : t \in {t2 \in StaticTargets(G, f) \cup ReqTargets(G, f) : IsJS(G, t2) /\ WrapOfIn(G, W, t2) # "none"}} \cup
  {[file |-> t, name |-> "*"] : t \in {t2 \in ReqTargets(G, f) : WrapOfIn(G, W, t2) = "esm"}}
UsesOfIn(G, W, f) == BindingUsesOf(G, f) \cup WrapperUsesOfIn(G, W, f)
UsesOf(G, f) == UsesOfIn(G, Wrapped(G), f)
\* an entry point chunk also needs every binding the entry point exports, whatever chain of
\* re-exports it arrives through
\* (and the entry chunk of a wrapped entry point calls its wrapper: init_e() / export default require_e())
EntryExportSymsIn(G, W, e) == {Sym(x) : x \in TableOf(G, e)} \cup (IF WrapOfIn(G, W, e) # "none" THEN {WrapperSym(e)} ELSE {})
EntryExportSyms(G, e) == EntryExportSymsIn(G, Wrapped(G), e)
\* the only assignments of this alphabet: `bump` of f assigns f's own `c`
AssignsOf(G, f) == IF G.files[f].exports /\ ~G.files[f].cjs THEN {[file |-> f, name |-> "c" \o G.files[f].sfx]} ELSE {}

\* an injective abstract alias for a symbol exported from its chunk (kept for reference; Compute
\* assigns aliases with the renamer model below)
AliasOf(G, s) == s.name \o "$" \o G.files[s.file].name

\* The linker's ExportRenamer (internal/renamer/renamer.go NextRenamedName), used by
\* computeCrossChunkDependencies to name the exports of a chunk: `used` is a set of <<name, tries>>;
\* a name that is free is taken as it is, otherwise a number is appended until the result is free,
\* and the RESULT is marked as used (marksNew; FALSE is the damaged renamer of LinkSanity).
UsedNames(used) == {u[1] : u \in used}
TriesOf(used, nm) == (CHOOSE u \in used : u[1] = nm)[2]
RECURSIVE NextFree(_, _, _)
NextFree(prefix, tries, used) ==
  LET nm == prefix \o ToString(tries + 1)
  IN IF nm \in UsedNames(used) THEN NextFree(prefix, tries + 1, used) ELSE <<nm, tries + 1>>
RenameStep(used, nm, marksNew) ==
  IF nm \in UsedNames(used)
  THEN LET r == NextFree(nm, TriesOf(used, nm), used)
       IN [alias |-> r[1],
           used  |-> IF marksNew THEN used \cup {r}
                     ELSE {u \in used : u[1] # nm} \cup {<<nm, r[2]>>}]
  ELSE [alias |-> nm, used |-> used \cup {<<nm, 1>>}]
RECURSIVE RenameAll(_, _, _)
\* the aliases of a sequence of original names
RenameAll(names, used, marksNew) ==
  IF names = <<>> THEN <<>>
  ELSE LET st == RenameStep(used, Head(names), marksNew)
       IN <<st.alias>> \o RenameAll(Tail(names), st.used, marksNew)
\* the original name of a symbol as the linker sees it
OrigName(G, s) == CASE s.name = "default" -> G.files[s.file].name \o "_default"
                    [] s.name = "*"       -> G.files[s.file].name \o "_exports"
                    [] s.name = "wrapper" -> (IF G.files[s.file].cjs THEN "require_" ELSE "init_") \o G.files[s.file].name
                    [] OTHER              -> s.name
\* the exported symbols of a chunk in a stable order: by file, then in an arbitrary fixed order
RECURSIVE ExportSeqFrom(_, _)
ExportSeqFrom(S, q) == IF q = <<>> THEN <<>> ELSE AnySeq({s \in S : s.file = Head(q)}) \o ExportSeqFrom(S, Tail(q))
ExportSeq(S) == ExportSeqFrom(S, SortInts({s.file : s \in S}))
AliasTable(G, S, marksNew) ==
  LET sq == ExportSeq(S)
      al == RenameAll([i \in 1..Len(sq) |-> OrigName(G, sq[i])], {}, marksNew)
  IN [s \in S |-> al[CHOOSE i \in 1..Len(sq) : sq[i] = s]]

\* the global evaluation order (all entry points, user entries first), used to order files inside a chunk
GlobalOrder(G) ==
  EvalOrder(SrcChildren(G), G.entries \o SortInts(DynEntries(G) \ UserEntries(G)), {})

ComputeWith(G, marksNew) ==
  \* TLCEval: TLC evaluates LET-bound functions lazily and without memoisation;
  \* forcing them keeps Compute linear in the size of the graph
  LET live    == TLCEval(Live(G))
      reach   == TLCEval(ReachOf(G))
      ents    == DOMAIN reach
      W       == TLCEval(Wrapped(G))
      bits    == TLCEval([f \in FileIds(G) |-> IF f \in live THEN EntryBitsIn(reach, f) ELSE {}])
      \* computeChunks: JS chunks by bit set (JS representations only); a CSS chunk for every JS entry point that reaches CSS
      keys    == TLCEval({{e} : e \in ents} \cup {bits[f] : f \in {f2 \in live : IsJS(G, f2)}})
      filesOf == TLCEval([K \in keys |-> {f \in live : bits[f] = K /\ IsJS(G, f)}])
      cssOf   == TLCEval([e \in ents |-> CssOf(G, e)])
      cssEnts == {e \in ents : cssOf[e] # {}}
      isEntryChunk(K) == \E e \in ents : K = {e}
      entryOf(K) == IF isEntryChunk(K) THEN CHOOSE e \in ents : K = {e} ELSE NoFile
      \* symbols the chunk needs: uses of its files, and the exports of its entry point
      needs   == TLCEval([K \in keys |->
                    UNION {UsesOfIn(G, W, f) : f \in filesOf[K]} \cup
                    (IF isEntryChunk(K) THEN EntryExportSymsIn(G, W, entryOf(K)) ELSE {})])
      foreign == TLCEval([K \in keys |-> {s \in needs[K] : bits[s.file] # K}])
      allForeign == TLCEval(UNION {foreign[K2] : K2 \in keys})
      \* computeCrossChunkDependencies: the alias table of every chunk
      alias   == TLCEval([K \in keys |-> AliasTable(G, {s2 \in allForeign : bits[s2.file] = K}, marksNew)])
      \* computeCrossChunkDependencies
      symImports  == [K \in keys |-> {bits[s.file] : s \in foreign[K]}]
      sideImports == [K \in keys |->
                        IF isEntryChunk(K) THEN {K2 \in keys : entryOf(K) \in K2 /\ K2 # K} ELSE {}]
      dynImports  == [K \in keys |->
                        {{t} : t \in UNION {{d \in DynTargets(G, f) : IsExternalDyn(G, f, d)} : f \in filesOf[K]}} \ {K}]
      order   == TLCEval(GlobalOrder(G))
      jsChunk(K) ==
                     [ bits    |-> K,
                       kind    |-> "js",
                       isEntry |-> isEntryChunk(K),
                       entry   |-> entryOf(K),
                       files   |-> filesOf[K],
                       order   |-> SelectSeq(order, LAMBDA f : f \in filesOf[K]),
                       imports |-> {[chunk |-> K2, kind |-> "static"] : K2 \in symImports[K] \cup sideImports[K]} \cup
                                   {[chunk |-> K2, kind |-> "dynamic"] : K2 \in dynImports[K]},
                       exports |-> {[alias |-> alias[K][s], file |-> s.file, name |-> s.name]
                                      : s \in {s2 \in allForeign : bits[s2.file] = K}},
                       importsFrom |-> {[chunk |-> bits[s.file], alias |-> alias[bits[s.file]][s]] : s \in foreign[K]} ]
      cssChunk(e) ==
                     [ bits |-> {e}, kind |-> "css", isEntry |-> TRUE, entry |-> e, files |-> cssOf[e], order |-> <<>>,
                       imports |-> {}, exports |-> {}, importsFrom |-> {} ]
  IN [ files   |-> [f \in FileIds(G) |-> [live |-> f \in live, bits |-> bits[f], isEntry |-> f \in ents, css |-> IsCss(G, f),
                                           wrap |-> WrapOfIn(G, W, f)]],
       entries |-> ents,
       chunks  |-> [K \in keys \cup {CssId(e) : e \in cssEnts} |->
                      IF K \in keys THEN jsChunk(K) ELSE cssChunk(CHOOSE e \in cssEnts : CssId(e) = K)],
       assigns |-> UNION {{[by |-> f, file |-> s.file, name |-> s.name] : s \in AssignsOf(G, f)} : f \in live},
       uses    |-> UNION {{[by |-> f, file |-> s.file, name |-> s.name] : s \in UsesOfIn(G, W, f)} : f \in {f2 \in live : IsJS(G, f2)}},
       eexports |-> UNION {{[entry |-> e, file |-> s.file, name |-> s.name] : s \in EntryExportSymsIn(G, W, e)} : e \in ents} ]
Compute(G) == ComputeWith(G, TRUE)

-----------------------------------------------------------------------------
(* 3. Properties of a link result L                                         *)

ChunkIds(L) == DOMAIN L.chunks
LiveFiles(L) == {f \in DOMAIN L.files : L.files[f].live}
\* (link results built by other specifications may lack the fields kind / css / wrap: every chunk and file is JS then)
KindOf(L, c) == IF "kind" \in DOMAIN L.chunks[c] THEN L.chunks[c].kind ELSE "js"
JSChunkIds(L) == {c \in ChunkIds(L) : KindOf(L, c) = "js"}
CSSChunkIds(L) == {c \in ChunkIds(L) : KindOf(L, c) = "css"}
IsCssFile(L, f) == IF "css" \in DOMAIN L.files[f] THEN L.files[f].css ELSE FALSE
ChunksWith(L, f) == {c \in ChunkIds(L) : f \in L.chunks[c].files}
ChunkOfFile(L, f) == CHOOSE c \in JSChunkIds(L) : f \in L.chunks[c].files
StaticImports(L, c) == {i.chunk : i \in {j \in L.chunks[c].imports : j.kind = "static"}}
DynamicImports(L, c) == {i.chunk : i \in {j \in L.chunks[c].imports : j.kind = "dynamic"}}

\* chunks reachable from c through static imports (reflexive)
RECURSIVE StaticClosureFrom(_, _, _)
StaticClosureFrom(L, frontier, seen) ==
  IF frontier = {} THEN seen
  ELSE LET next == (UNION {StaticImports(L, c) \cap ChunkIds(L) : c \in frontier}) \ seen
       IN StaticClosureFrom(L, next, seen \cup next)
StaticClosure(L, c) == StaticClosureFrom(L, {c}, {c})
\* chunks reachable through at least one static import
StaticReachPlus(L, c) ==
  LET first == StaticImports(L, c) \cap ChunkIds(L) IN StaticClosureFrom(L, first, first)

\* every live JS file is in exactly one chunk, a JS chunk; a live style sheet is in CSS chunks only, and in the CSS
\* chunk of every entry point that reaches it; only live files are in chunks
ChunkPartition(L) ==
  /\ \A f \in LiveFiles(L) :
        IF IsCssFile(L, f)
        THEN /\ ChunksWith(L, f) \subseteq CSSChunkIds(L)
             /\ \A e \in L.files[f].bits : \E c \in ChunksWith(L, f) : L.chunks[c].isEntry /\ L.chunks[c].entry = e
        ELSE Cardinality(ChunksWith(L, f)) = 1 /\ ChunksWith(L, f) \subseteq JSChunkIds(L)
  /\ \A c \in ChunkIds(L) : L.chunks[c].files \subseteq LiveFiles(L)

\* a JS file lives in the chunk of its bit set; there is one chunk per bit set and kind;
\* one JS entry chunk per entry point (a JS file), carrying exactly that entry point's bit
SameBitsSameChunk(L) ==
  /\ \A f \in LiveFiles(L) : \A c \in ChunksWith(L, f) \cap JSChunkIds(L) : L.chunks[c].bits = L.files[f].bits
  /\ \A c1, c2 \in ChunkIds(L) : (L.chunks[c1].bits = L.chunks[c2].bits /\ KindOf(L, c1) = KindOf(L, c2)) => c1 = c2
  /\ \A e \in L.entries : (e \in DOMAIN L.files /\ IsCssFile(L, e)) \/ \E c \in JSChunkIds(L) :
        L.chunks[c].isEntry /\ L.chunks[c].entry = e /\ L.chunks[c].bits = {e}
  /\ \A c \in ChunkIds(L) : L.chunks[c].isEntry =>
        L.chunks[c].entry \in L.entries /\ L.chunks[c].bits = {L.chunks[c].entry}
  /\ \A c \in ChunkIds(L) : L.chunks[c].bits # {} /\ L.chunks[c].bits \subseteq L.entries

\* the two-chunk rule: a JS entry point has a CSS chunk next to its JS chunk exactly if a style sheet carries its bit
\* or the chunk is not empty (style sheets behind import() are included too); CSS chunks are entry chunks, import and
\* export nothing
TwoChunkRule(L) ==
  /\ \A c \in CSSChunkIds(L) : L.chunks[c].isEntry /\ L.chunks[c].imports = {} /\ L.chunks[c].importsFrom = {}
                                 /\ L.chunks[c].exports = {} /\ \A f \in L.chunks[c].files : IsCssFile(L, f)
  /\ \A c \in JSChunkIds(L) : \A f \in L.chunks[c].files : ~IsCssFile(L, f)
  /\ \A f \in LiveFiles(L) : IsCssFile(L, f) =>
        \A e \in L.files[f].bits : Cardinality({c \in CSSChunkIds(L) : L.chunks[c].entry = e}) = 1

\* every reference to an entry point names its JS chunk: an import() is rewritten to the JS entry chunk of its target,
\* and no chunk imports a CSS chunk
DynamicImportTargetsJS(L) ==
  \A c \in ChunkIds(L) :
     /\ \A d \in DynamicImports(L, c) : d \in ChunkIds(L) => (L.chunks[d].isEntry /\ KindOf(L, d) = "js")
     /\ \A d \in StaticImports(L, c) : d \in ChunkIds(L) => KindOf(L, d) = "js"

NoStaticChunkCycle(L) == \A c \in ChunkIds(L) : c \notin StaticReachPlus(L, c)

\* a binding is only assigned by code of the chunk that declares it, and a
\* chunk only exports bindings declared by its own files
NoCrossChunkAssignment(L) ==
  /\ \A a \in L.assigns :
        (a.by \in LiveFiles(L) /\ a.file \in LiveFiles(L)) => ChunksWith(L, a.by) = ChunksWith(L, a.file)
  /\ \A c \in ChunkIds(L) : \A x \in L.chunks[c].exports : x.file \in L.chunks[c].files

\* every cross-chunk import names an alias the target chunk exports, travels
\* over a static chunk import, and export aliases are collision-free
ImportsResolveToExports(L) ==
  /\ \A c \in ChunkIds(L) : \A i \in L.chunks[c].importsFrom :
        /\ i.chunk \in ChunkIds(L) /\ i.chunk # c
        /\ \E x \in L.chunks[i.chunk].exports : x.alias = i.alias
        /\ i.chunk \in StaticImports(L, c)
  /\ \A c \in ChunkIds(L) : \A x, y \in L.chunks[c].exports : x.alias = y.alias => x = y
  \* (a module may import() the entry point of its own chunk: a dynamic self-import is fine)
  /\ \A c \in ChunkIds(L) : \A i \in L.chunks[c].imports :
        i.chunk \in ChunkIds(L) /\ (i.kind = "static" => i.chunk # c)
  \* a dynamic import() is rewritten to the entry chunk of its target
  /\ \A c \in ChunkIds(L) : \A d \in DynamicImports(L, c) : L.chunks[d].isEntry

\* the static closure of an entry chunk is exactly the chunks whose bits contain the entry's bit
EntryReachesItsCode(L) ==
  \A c \in JSChunkIds(L) : L.chunks[c].isEntry =>
     StaticClosure(L, c) = {d \in JSChunkIds(L) : L.chunks[c].entry \in L.chunks[d].bits}

\* (design) every symbol used across a chunk boundary is imported, and the
\* declaring chunk is evaluated first under ANY post-order evaluation of the
\* (acyclic) chunk graph: it is statically reachable from the using chunk,
\* or it is the same chunk and the declaring file comes first
\* (the uses include the wrapper symbols init_x / require_x of wrapped files: a chunk with a static importer or a
\* require()r of a wrapped file of another chunk imports the wrapper)
UseIsImported(L, u, cu, cd) ==
  /\ cd \in StaticReachPlus(L, cu)
  /\ \E i \in L.chunks[cu].importsFrom : i.chunk = cd /\
        \E x \in L.chunks[cd].exports : x.alias = i.alias /\ x.file = u.file /\ x.name = u.name
UsesAreImportedAndInitialised(L) ==
  \A u \in L.uses :
     LET cu == ChunkOfFile(L, u.by)
         cd == ChunkOfFile(L, u.file)
         pos(s, x) == CHOOSE i \in 1..Len(s) : s[i] = x
     IN IF cu = cd
        THEN u.by = u.file \/ pos(L.chunks[cu].order, u.file) < pos(L.chunks[cu].order, u.by)
        ELSE UseIsImported(L, u, cu, cd)
\* the cross-chunk half of it, for a link result whose order inside a chunk is not known (the real linker state with
\* the uses the specification predicts joined in)
CrossChunkUsesImported(L) ==
  \A u \in L.uses :
     (u.by \in LiveFiles(L) /\ u.file \in LiveFiles(L)) =>
       \A cu \in ChunksWith(L, u.by) \cap JSChunkIds(L) : \A cd \in ChunksWith(L, u.file) \cap JSChunkIds(L) :
          cu # cd => UseIsImported(L, u, cu, cd)

\* every binding an entry point exports is declared in its entry chunk or imported by it from
\* the declaring chunk under an alias that names exactly this binding
\* (a link result without the field eexports, as other state specifications may build it, satisfies this trivially)
EntryExportsImported(L) ==
  \A x \in (IF "eexports" \in DOMAIN L THEN L.eexports ELSE {}) :
     \A ce \in {c \in JSChunkIds(L) : L.chunks[c].isEntry /\ L.chunks[c].entry = x.entry} :
        \A cd \in ChunksWith(L, x.file) :
           ce # cd =>
             \E i \in L.chunks[ce].importsFrom : i.chunk = cd /\
                \E y \in L.chunks[cd].exports : y.alias = i.alias /\ y.file = x.file /\ y.name = x.name

\* One-pass verdict: the names of the failing properties
Failing(L) ==
  (IF ChunkPartition(L) THEN {} ELSE {"ChunkPartition"}) \cup
  (IF SameBitsSameChunk(L) THEN {} ELSE {"SameBitsSameChunk"}) \cup
  (IF NoStaticChunkCycle(L) THEN {} ELSE {"NoStaticChunkCycle"}) \cup
  (IF NoCrossChunkAssignment(L) THEN {} ELSE {"NoCrossChunkAssignment"}) \cup
  (IF ImportsResolveToExports(L) THEN {} ELSE {"ImportsResolveToExports"}) \cup
  (IF EntryReachesItsCode(L) THEN {} ELSE {"EntryReachesItsCode"}) \cup
  (IF EntryExportsImported(L) THEN {} ELSE {"EntryExportsImported"}) \cup
  (IF TwoChunkRule(L) THEN {} ELSE {"TwoChunkRule"}) \cup
  (IF DynamicImportTargetsJS(L) THEN {} ELSE {"DynamicImportTargetsJS"}) \cup
  (IF CrossChunkUsesImported(L) THEN {} ELSE {"CrossChunkUsesImported"})

-----------------------------------------------------------------------------
(* Load semantics of a link result: loading the entry chunk of e evaluates  *)
(* the not yet evaluated chunks of its static closure in post-order, each   *)
(* chunk running the bodies of its files in chunk order.                    *)

ChunkChildren(L) == [c \in ChunkIds(L) |-> AnySeq(StaticImports(L, c) \cap ChunkIds(L))]
EntryChunkOf(L, e) == CHOOSE c \in JSChunkIds(L) : L.chunks[c].isEntry /\ L.chunks[c].entry = e
ChunkEvalOrder(L, e, doneChunks) == EvalOrder(ChunkChildren(L), <<EntryChunkOf(L, e)>>, doneChunks)
RECURSIVE Flatten(_, _)
Flatten(L, cs) == IF cs = <<>> THEN <<>> ELSE L.chunks[Head(cs)].order \o Flatten(L, Tail(cs))
=============================================================================
