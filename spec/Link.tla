------------------------------- MODULE Link -------------------------------
(***************************************************************************)
(* Linking as a function of the module graph: the chunk-graph part.        *)
(* Anchors: internal/linker/linker.go treeShakingAndCodeSplitting,          *)
(* markFileReachableForCodeSplitting, computeChunks,                        *)
(* computeCrossChunkDependencies, enforceNoCyclicChunkImports,              *)
(* findImportedPartsInJSOrder.                                              *)
(*                                                                          *)
(* This module has no variables: it is a library of constant operators in   *)
(* three layers.                                                            *)
(*  1. The graph alphabet G (files with ordered static imports, re-exports, *)
(*     dynamic import() edges, export bindings, entry points) and the       *)
(*     ES-module evaluation order (post-order DFS over static imports).     *)
(*  2. The linker stages, one named operator per linker step:               *)
(*     Live, EntryIds, ReachOf, EntryBits, ChunkKeys, ChunkOf,              *)
(*     StaticImportsOf/DynImportsOf (CrossChunkImports), ExportsOfChunk,    *)
(*     OrderInChunk; Compute(G) assembles them into a link result L.        *)
(*  3. The properties, written over a link result L only, so that the same  *)
(*     formulas are evaluated by TLC on Compute(G) for every graph of the   *)
(*     bounded family (LinkGen.tla) and on the projection of the real       *)
(*     linker's state (LinkState.tla, hook "link.done").                    *)
(*                                                                          *)
(* G == [ files    : Seq(File), entries : Seq(FileId), splitting : BOOLEAN ]*)
(* File == [ name    : STRING,                                              *)
(*           imports : Seq([to : FileId, bind : BOOLEAN]),  ordered static  *)
(*                      imports; bind = the importer uses every binding the *)
(*                      target exports, ~bind = `import "./t.js"`           *)
(*           reexp   : Seq(FileId),  `export {v as v_t, ...} from "./t.js"` *)
(*                      (module requests after the imports, in this order)  *)
(*           dyn     : Seq(FileId),  `import("./t.js")` at top level        *)
(*           exports : BOOLEAN ]     declares `export let v`, `export let   *)
(*                      c` (mutated by `export function bump`)              *)
(* A symbol is [file, name]; the names a file declares are OwnNames.        *)
(*                                                                          *)
(* L == [ files   : [FileId -> [live, bits, isEntry]],                      *)
(*        entries : set of entry ids (the elements of the bit sets),        *)
(*        chunks  : [ChunkId -> [bits, isEntry, entry, files, order,        *)
(*                     imports : SUBSET [chunk, kind],                      *)
(*                     exports : SUBSET [alias, file, name],                *)
(*                     importsFrom : SUBSET [chunk, alias]]],               *)
(*        assigns : SUBSET [by, file, name]   code of file `by` assigns to  *)
(*                                            the symbol [file, name]       *)
(*        uses    : SUBSET [by, file, name] ]  top-level reads              *)
(***************************************************************************)
EXTENDS Integers, Sequences, FiniteSets, TLC

NoFile == 0
SeqToSet(s) == {s[i] : i \in 1..Len(s)}

-----------------------------------------------------------------------------
(* 1. Graph alphabet and ES-module evaluation order                         *)

FileIds(G) == 1..Len(G.files)
ImportTargets(G, f) == [i \in 1..Len(G.files[f].imports) |-> G.files[f].imports[i].to]
\* the module requests of f in source order (import statements, then export-from statements)
StaticSeq(G, f) == ImportTargets(G, f) \o G.files[f].reexp
StaticTargets(G, f) == SeqToSet(StaticSeq(G, f))
DynTargets(G, f) == SeqToSet(G.files[f].dyn)
UserEntries(G) == SeqToSet(G.entries)

\* Post-order depth-first traversal; ch is a function node -> sequence of
\* children, acc = [seen, order].  A node is marked when entered, so a cyclic
\* edge to a node that is still being evaluated is skipped (the ES cycle rule).
RECURSIVE PO(_, _, _), POSeq(_, _, _)
PO(ch, n, acc) ==
  IF n \in acc.seen THEN acc
  ELSE LET a1 == POSeq(ch, ch[n], [acc EXCEPT !.seen = @ \cup {n}])
       IN [a1 EXCEPT !.order = Append(@, n)]
POSeq(ch, s, acc) ==
  IF s = <<>> THEN acc ELSE POSeq(ch, Tail(s), PO(ch, Head(s), acc))

\* evaluation order of the not yet evaluated nodes needed by roots (in order)
EvalOrder(ch, roots, seen) == POSeq(ch, roots, [seen |-> seen, order |-> <<>>]).order
Reach(ch, roots) == SeqToSet(EvalOrder(ch, roots, {}))

SrcChildren(G) == [f \in FileIds(G) |-> StaticSeq(G, f)]
\* ES semantics: loading entry e into a registry where `done` is evaluated runs these bodies, in this order
SrcEvalOrder(G, e, done) == EvalOrder(SrcChildren(G), <<e>>, done)

\* a deterministic enumeration of a finite set of integers / of any set
RECURSIVE SortInts(_)
SortInts(S) == IF S = {} THEN <<>>
               ELSE LET m == CHOOSE x \in S : \A y \in S : x <= y IN <<m>> \o SortInts(S \ {m})
RECURSIVE AnySeq(_)
AnySeq(S) == IF S = {} THEN <<>> ELSE LET x == CHOOSE y \in S : TRUE IN <<x>> \o AnySeq(S \ {x})

-----------------------------------------------------------------------------
(* 2. Linker stages                                                         *)

\* tree shaking at file granularity: every file imported (statically or
\* dynamically) from a live file is live (all files of this alphabet have
\* side effects; the tree-shaking extension refines this stage)
AllChildren(G) == [f \in FileIds(G) |-> StaticSeq(G, f) \o G.files[f].dyn]
Live(G) == Reach(AllChildren(G), G.entries)

\* with splitting, the target of a dynamic import() becomes an entry point of its own
DynEntries(G) == IF G.splitting THEN UNION {DynTargets(G, f) : f \in Live(G)} ELSE {}
EntryIds(G) == UserEntries(G) \cup DynEntries(G)
IsExternalDyn(G, f, t) == G.splitting /\ t \in EntryIds(G) /\ t # f

\* markFileReachableForCodeSplitting: static records and the dynamic ones that are not external
ReachChildren(G) ==
  [f \in FileIds(G) |->
     StaticSeq(G, f) \o SelectSeq(G.files[f].dyn, LAMBDA t : ~IsExternalDyn(G, f, t))]
ReachOf(G) == [e \in EntryIds(G) |-> Reach(ReachChildren(G), <<e>>)]
\* which entry points reach the file
EntryBitsIn(reach, f) == {e \in DOMAIN reach : f \in reach[e]}
EntryBits(G, f) == EntryBitsIn(ReachOf(G), f)

\* computeChunks: one chunk per entry point and one per distinct bit set of a live file;
\* a chunk is identified by its bit set
ChunkKeysIn(G, reach) == {{e} : e \in DOMAIN reach} \cup {EntryBitsIn(reach, f) : f \in Live(G)}
ChunkKeys(G) == ChunkKeysIn(G, ReachOf(G))
ChunkOf(G, f) == EntryBits(G, f)

\* export table of a file: own bindings and one level of named re-exports
OwnNames(G, f) == IF G.files[f].exports THEN {"v", "c", "bump"} ELSE {}
ReAlias(n, tname) == n \o "_" \o tname
ExportsOf(G, f) ==
  {[alias |-> n, file |-> f, name |-> n] : n \in OwnNames(G, f)} \cup
  UNION {{[alias |-> ReAlias(n, G.files[t].name), file |-> t, name |-> n] : n \in OwnNames(G, t)}
           : t \in SeqToSet(G.files[f].reexp)}
Sym(x) == [file |-> x.file, name |-> x.name]
\* symbols the code of f refers to (imports are followed to the declaring file, as ImportsToBind does)
UsesOf(G, f) ==
  UNION {{Sym(x) : x \in ExportsOf(G, G.files[f].imports[i].to)}
           : i \in {j \in 1..Len(G.files[f].imports) : G.files[f].imports[j].bind}}
\* an entry point chunk also needs every binding the entry point exports
EntryExportSyms(G, e) == {Sym(x) : x \in ExportsOf(G, e)}
\* the only assignments of this alphabet: `bump` of f assigns f's own `c`
AssignsOf(G, f) == IF G.files[f].exports THEN {[file |-> f, name |-> "c"]} ELSE {}

\* an injective alias for a symbol exported from its chunk
AliasOf(G, s) == s.name \o "$" \o G.files[s.file].name

\* the global evaluation order (all entry points, user entries first), used to order files inside a chunk
GlobalOrder(G) ==
  EvalOrder(SrcChildren(G), G.entries \o SortInts(DynEntries(G) \ UserEntries(G)), {})

Compute(G) ==
  \* TLCEval: TLC evaluates LET-bound functions lazily and without memoisation;
  \* forcing them keeps Compute linear in the size of the graph
  LET live    == TLCEval(Live(G))
      reach   == TLCEval(ReachOf(G))
      ents    == DOMAIN reach
      bits    == TLCEval([f \in FileIds(G) |-> IF f \in live THEN EntryBitsIn(reach, f) ELSE {}])
      keys    == TLCEval({{e} : e \in ents} \cup {bits[f] : f \in live})
      filesOf == TLCEval([K \in keys |-> {f \in live : bits[f] = K}])
      isEntryChunk(K) == \E e \in ents : K = {e}
      entryOf(K) == IF isEntryChunk(K) THEN CHOOSE e \in ents : K = {e} ELSE NoFile
      \* symbols the chunk needs: uses of its files, and the exports of its entry point
      needs   == TLCEval([K \in keys |->
                    UNION {UsesOf(G, f) : f \in filesOf[K]} \cup
                    (IF isEntryChunk(K) THEN EntryExportSyms(G, entryOf(K)) ELSE {})])
      foreign == TLCEval([K \in keys |-> {s \in needs[K] : bits[s.file] # K}])
      allForeign == TLCEval(UNION {foreign[K2] : K2 \in keys})
      \* computeCrossChunkDependencies
      symImports  == [K \in keys |-> {bits[s.file] : s \in foreign[K]}]
      sideImports == [K \in keys |->
                        IF isEntryChunk(K) THEN {K2 \in keys : entryOf(K) \in K2 /\ K2 # K} ELSE {}]
      dynImports  == [K \in keys |->
                        {{t} : t \in UNION {{d \in DynTargets(G, f) : IsExternalDyn(G, f, d)} : f \in filesOf[K]}} \ {K}]
      order   == TLCEval(GlobalOrder(G))
  IN [ files   |-> [f \in FileIds(G) |-> [live |-> f \in live, bits |-> bits[f], isEntry |-> f \in ents]],
       entries |-> ents,
       chunks  |-> [K \in keys |->
                     [ bits    |-> K,
                       isEntry |-> isEntryChunk(K),
                       entry   |-> entryOf(K),
                       files   |-> filesOf[K],
                       order   |-> SelectSeq(order, LAMBDA f : f \in filesOf[K]),
                       imports |-> {[chunk |-> K2, kind |-> "static"] : K2 \in symImports[K] \cup sideImports[K]} \cup
                                   {[chunk |-> K2, kind |-> "dynamic"] : K2 \in dynImports[K]},
                       exports |-> {[alias |-> AliasOf(G, s), file |-> s.file, name |-> s.name]
                                      : s \in {s2 \in allForeign : bits[s2.file] = K}},
                       importsFrom |-> {[chunk |-> bits[s.file], alias |-> AliasOf(G, s)] : s \in foreign[K]} ]],
       assigns |-> UNION {{[by |-> f, file |-> s.file, name |-> s.name] : s \in AssignsOf(G, f)} : f \in live},
       uses    |-> UNION {{[by |-> f, file |-> s.file, name |-> s.name] : s \in UsesOf(G, f)} : f \in live} ]

-----------------------------------------------------------------------------
(* 3. Properties of a link result L                                         *)

ChunkIds(L) == DOMAIN L.chunks
LiveFiles(L) == {f \in DOMAIN L.files : L.files[f].live}
ChunksWith(L, f) == {c \in ChunkIds(L) : f \in L.chunks[c].files}
ChunkOfFile(L, f) == CHOOSE c \in ChunkIds(L) : f \in L.chunks[c].files
StaticImports(L, c) == {i.chunk : i \in {j \in L.chunks[c].imports : j.kind = "static"}}
DynamicImports(L, c) == {i.chunk : i \in {j \in L.chunks[c].imports : j.kind = "dynamic"}}

\* chunks reachable from c through static imports (reflexive)
RECURSIVE StaticClosureFrom(_, _, _)
StaticClosureFrom(L, frontier, seen) ==
  IF frontier = {} THEN seen
  ELSE LET next == (UNION {StaticImports(L, c) \cap ChunkIds(L) : c \in frontier}) \ seen
       IN StaticClosureFrom(L, next, seen \cup next)
StaticClosure(L, c) == StaticClosureFrom(L, {c}, {c})
\* chunks reachable through at least one static import
StaticReachPlus(L, c) ==
  LET first == StaticImports(L, c) \cap ChunkIds(L) IN StaticClosureFrom(L, first, first)

\* every live file is in exactly one chunk, and only live files are in chunks
ChunkPartition(L) ==
  /\ \A f \in LiveFiles(L) : Cardinality(ChunksWith(L, f)) = 1
  /\ \A c \in ChunkIds(L) : L.chunks[c].files \subseteq LiveFiles(L)

\* a file lives in the chunk of its bit set; there is one chunk per bit set;
\* one entry chunk per entry point, carrying exactly that entry point's bit
SameBitsSameChunk(L) ==
  /\ \A f \in LiveFiles(L) : \A c \in ChunksWith(L, f) : L.chunks[c].bits = L.files[f].bits
  /\ \A c1, c2 \in ChunkIds(L) : L.chunks[c1].bits = L.chunks[c2].bits => c1 = c2
  /\ \A e \in L.entries : \E c \in ChunkIds(L) :
        L.chunks[c].isEntry /\ L.chunks[c].entry = e /\ L.chunks[c].bits = {e}
  /\ \A c \in ChunkIds(L) : L.chunks[c].isEntry =>
        L.chunks[c].entry \in L.entries /\ L.chunks[c].bits = {L.chunks[c].entry}
  /\ \A c \in ChunkIds(L) : L.chunks[c].bits # {} /\ L.chunks[c].bits \subseteq L.entries

NoStaticChunkCycle(L) == \A c \in ChunkIds(L) : c \notin StaticReachPlus(L, c)

\* a binding is only assigned by code of the chunk that declares it, and a
\* chunk only exports bindings declared by its own files
NoCrossChunkAssignment(L) ==
  /\ \A a \in L.assigns :
        (a.by \in LiveFiles(L) /\ a.file \in LiveFiles(L)) => ChunksWith(L, a.by) = ChunksWith(L, a.file)
  /\ \A c \in ChunkIds(L) : \A x \in L.chunks[c].exports : x.file \in L.chunks[c].files

\* every cross-chunk import names an alias the target chunk exports, travels
\* over a static chunk import, and export aliases are collision-free
ImportsResolveToExports(L) ==
  /\ \A c \in ChunkIds(L) : \A i \in L.chunks[c].importsFrom :
        /\ i.chunk \in ChunkIds(L) /\ i.chunk # c
        /\ \E x \in L.chunks[i.chunk].exports : x.alias = i.alias
        /\ i.chunk \in StaticImports(L, c)
  /\ \A c \in ChunkIds(L) : \A x, y \in L.chunks[c].exports : x.alias = y.alias => x = y
  \* (a module may import() the entry point of its own chunk: a dynamic self-import is fine)
  /\ \A c \in ChunkIds(L) : \A i \in L.chunks[c].imports :
        i.chunk \in ChunkIds(L) /\ (i.kind = "static" => i.chunk # c)
  \* a dynamic import() is rewritten to the entry chunk of its target
  /\ \A c \in ChunkIds(L) : \A d \in DynamicImports(L, c) : L.chunks[d].isEntry

\* the static closure of an entry chunk is exactly the chunks whose bits contain the entry's bit
EntryReachesItsCode(L) ==
  \A c \in ChunkIds(L) : L.chunks[c].isEntry =>
     StaticClosure(L, c) = {d \in ChunkIds(L) : L.chunks[c].entry \in L.chunks[d].bits}

\* (design) every symbol used across a chunk boundary is imported, and the
\* declaring chunk is evaluated first under ANY post-order evaluation of the
\* (acyclic) chunk graph: it is statically reachable from the using chunk,
\* or it is the same chunk and the declaring file comes first
UsesAreImportedAndInitialised(L) ==
  \A u \in L.uses :
     LET cu == ChunkOfFile(L, u.by)
         cd == ChunkOfFile(L, u.file)
         pos(s, x) == CHOOSE i \in 1..Len(s) : s[i] = x
     IN IF cu = cd
        THEN u.by = u.file \/ pos(L.chunks[cu].order, u.file) < pos(L.chunks[cu].order, u.by)
        ELSE /\ cd \in StaticReachPlus(L, cu)
             /\ \E i \in L.chunks[cu].importsFrom : i.chunk = cd /\
                   \E x \in L.chunks[cd].exports : x.alias = i.alias /\ x.file = u.file /\ x.name = u.name

\* One-pass verdict: the names of the failing properties
Failing(L) ==
  (IF ChunkPartition(L) THEN {} ELSE {"ChunkPartition"}) \cup
  (IF SameBitsSameChunk(L) THEN {} ELSE {"SameBitsSameChunk"}) \cup
  (IF NoStaticChunkCycle(L) THEN {} ELSE {"NoStaticChunkCycle"}) \cup
  (IF NoCrossChunkAssignment(L) THEN {} ELSE {"NoCrossChunkAssignment"}) \cup
  (IF ImportsResolveToExports(L) THEN {} ELSE {"ImportsResolveToExports"}) \cup
  (IF EntryReachesItsCode(L) THEN {} ELSE {"EntryReachesItsCode"})

-----------------------------------------------------------------------------
(* Load semantics of a link result: loading the entry chunk of e evaluates  *)
(* the not yet evaluated chunks of its static closure in post-order, each   *)
(* chunk running the bodies of its files in chunk order.                    *)

ChunkChildren(L) == [c \in ChunkIds(L) |-> AnySeq(StaticImports(L, c) \cap ChunkIds(L))]
EntryChunkOf(L, e) == CHOOSE c \in ChunkIds(L) : L.chunks[c].isEntry /\ L.chunks[c].entry = e
ChunkEvalOrder(L, e, doneChunks) == EvalOrder(ChunkChildren(L), <<EntryChunkOf(L, e)>>, doneChunks)
RECURSIVE Flatten(_, _)
Flatten(L, cs) == IF cs = <<>> THEN <<>> ELSE L.chunks[Head(cs)].order \o Flatten(L, Tail(cs))
=============================================================================
