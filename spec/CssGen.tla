------------------------------ MODULE CssGen ------------------------------
(***************************************************************************)
(* C12 - from abstract sheets to replayable cases.  The harness writes     *)
(* abstract sheets (index choices drawn by seed over the vocabulary of     *)
(* Css.tla) to cssgen_in.ndjson; TLC checks that each is well formed,      *)
(* computes its features, atoms, environments and the table of winners     *)
(* (Css!WinTable) and exports one CASE line per sheet.  The same CaseOf is *)
(* used by CssMC for the exhaustively enumerated family.  An input line may *)
(* also name a member of the sequence families of CssSeq by its choice      *)
(* vector (`choice`); its sheet is then CssSeq!ChoiceSheet and is exported   *)
(* with the case.                                                            *)
(***************************************************************************)
EXTENDS CssSeq, Json, SequencesExt

MixedParent(path) ==
  \E k \in SelIdx(path) : /\ \E j \in SelIdx(path) : j > k
                          /\ Bind(SelLists(path), LAMBDA ls :
                               LET n == Level(path, k) IN
                               \E x, y \in 1..Len(ls[n]) : SpComplex(NormAt(ls[n][x], n), PS(ls, n - 1)) # SpComplex(NormAt(ls[n][y], n), PS(ls, n - 1)))
\* `&` inside the argument of a :not() in a rule nested under a selector LIST
RECURSIVE AmpInNotC(_, _), AmpInNotFrom(_, _, _)
AmpInNotC(c, inNot) == (inNot /\ c.amp) \/ \E i \in 1..Len(c.ps) :
                          c.ps[i].k \in ListPseudos /\ \E j \in 1..Len(c.ps[i].args) :
                             AmpInNotFrom(c.ps[i].args[j], Len(c.ps[i].args[j]), inNot \/ c.ps[i].k = "not")
AmpInNotFrom(x, k, inNot) == k > 0 /\ (AmpInNotC(x[k].c, inNot) \/ AmpInNotFrom(x, k - 1, inNot))
NotAmpUnderList(path) ==
  \E k \in SelIdx(path) : /\ Level(path, k) >= 2
                          /\ LET l == SelOf(path[k].s, 2) IN \E i \in 1..Len(l) : AmpInNotFrom(l[i], Len(l[i]), FALSE)
                          /\ \E j \in SelIdx(path) : j < k /\ Len(SelOf(path[j].s, Level(path, j))) > 1
\* `&` inside the argument of a :not() in a rule whose parent selector is, after substitution of ITS parents, a list or
\* a selector with a combinator: the lowered form :not(parent) is then Selectors-4 syntax (complex :not())
RECURSIVE CxLevel(_, _)
CxLevel(ls, n) ==
  LET l == ls[n] IN
  \/ Len(l) > 1
  \/ \E i \in 1..Len(l) : \/ Len(l[i]) > 1 \/ l[i][1].comb # ""
                          \/ (n >= 2 /\ ~HasAmp(l[i]))                       \* implied `& ` in front
                          \/ (n >= 2 /\ HasAmp(l[i]) /\ CxLevel(ls, n - 1))
NotAmpUnderComplex(path) ==
  \E k \in SelIdx(path) : /\ Level(path, k) >= 2
                          /\ LET l == SelOf(path[k].s, 2) IN \E i \in 1..Len(l) : AmpInNotFrom(l[i], Len(l[i]), FALSE)
                          /\ Bind(SelLists(path), LAMBDA ls : CxLevel(ls, Level(path, k) - 1))
\* winners of one environment, only the longhands that have a winner
Compact(t, U) == [e \in Elems |-> [lh \in {l \in U : t[e][l] # NoWinner} |-> t[e][lh]]]
CaseOf(id, sh) ==
  IF ~WFSheet(sh) THEN [id |-> id, wf |-> FALSE]
  ELSE Bind(SheetInfo(sh), LAMBDA info :
       Bind(SetToSeq(EnvsOf(sh)), LAMBDA envs :
       Bind(Universe(sh), LAMBDA U :
          [id |-> id, wf |-> TRUE,
           feats |-> SheetFeats(sh), atoms |-> SheetAtoms(sh), props |-> U,
           \* two different rules match one element and set one longhand (whatever the environment)
           compete |-> \E a, b \in 1..Len(sh) : /\ a < b /\ sh[a].k = "rule" /\ sh[b].k = "rule"
                          /\ \E e \in Elems : info[a].m[e][1] >= 0 /\ info[b].m[e][1] >= 0
                          /\ \E x \in 1..Len(sh[a].decls), y \in 1..Len(sh[b].decls) :
                               \E u \in info[a].d[x].ex, w \in info[b].d[y].ex : u[1] = w[1],
           \* a rule is nested under a selector list whose members differ in specificity
           \* (expanding such a list instead of using :is() changes the specificity of the nested rule)
           mixed |-> \E a \in 1..Len(sh) : MixedParent(sh[a].path),
           notamp |-> \E a \in 1..Len(sh) : NotAmpUnderList(sh[a].path),
           \* an `inset` shorthand one of whose values is of newer syntax: lowered to four longhands it is no longer
           \* valid or invalid as a whole
           insetmix |-> \E a \in 1..Len(sh) : \E i \in 1..Len(sh[a].decls) :
                          sh[a].decls[i].p = "inset" /\ DeclFeats(sh[a].decls[i]) \ {"inset"} # {},
           notampc |-> \E a \in 1..Len(sh) : sh[a].k = "rule" /\ NotAmpUnderComplex(sh[a].path),
           envs |-> [k \in 1..Len(envs) |-> [feats |-> envs[k].feats, conds |-> envs[k].conds]],
           win |-> [k \in 1..Len(envs) |-> Bind(WinTable(sh, info, envs[k]), LAMBDA t : Compact(t, U))]])))

\* the vocabulary, for the harness (rendering and drawing choices)
Vocab ==
  [vocab |-> TRUE,
   dom |-> [e \in Elems |-> [tag |-> Dom[e].tag, id |-> Dom[e].id, cls |-> Dom[e].cls, attr |-> Dom[e].attr, par |-> Dom[e].par]],
   top |-> [k \in DOMAIN TopSels |-> FeatList(TopSels[k])],
   nest |-> [k \in DOMAIN NestSels |-> FeatList(NestSels[k])],
   atoms |-> Atoms,
   vals |-> [v \in DOMAIN Vals |-> [kind |-> Vals[v].kind, canon |-> Vals[v].canon, sp |-> Vals[v].sp]],
   props |-> [p \in PropNames |-> Shape(p)]]

Input == ndJsonDeserialize("cssgen_in.ndjson")

VARIABLES gen_i, gen_out
Init == gen_i \in 1..Len(Input) /\ gen_out = FALSE
Next == /\ ~gen_out /\ gen_out' = TRUE /\ gen_i' = gen_i
        /\ LET in == Input[gen_i] IN
           IF "choice" \in DOMAIN in
           THEN PrintT(<<"CASE", ToJson(Bind(ChoiceSheet(in.choice), LAMBDA sh : CaseOf(in.id, sh) @@ [items |-> sh]))>>)
           ELSE PrintT(<<"CASE", ToJson(CaseOf(in.id, in.items))>>)
Spec == Init /\ [][Next]_<<gen_i, gen_out>>

VocabInit == gen_i = 0 /\ gen_out = FALSE
VocabNext == ~gen_out /\ gen_out' = TRUE /\ gen_i' = gen_i /\ PrintT(<<"CASE", ToJson(Vocab)>>)
VocabSpec == VocabInit /\ [][VocabNext]_<<gen_i, gen_out>>
=============================================================================
