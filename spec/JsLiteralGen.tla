---------------------------- MODULE JsLiteralGen ----------------------------
(***************************************************************************)
(* Generator over JsLiteral: string / template bodies (sequences of        *)
(* (class, spelling) elements per quote kind), regular-expression bodies,  *)
(* numeric lexical forms.  TLC checks on every exported case that the      *)
(* source pieces are lexically well formed for the quote kind by a         *)
(* piece-level argument independent of Allowed (SourceOK), that the value  *)
(* is a sequence of UTF-16 code units, and that every class x spelling x   *)
(* quote combination and every adjacency hazard is inhabited.              *)
(***************************************************************************)
EXTENDS JsLiteral, Json, SequencesExt

CONSTANTS Family,  \* "str" | "re" | "num"
          Size,    \* str: 2 = quick, 3 = thorough;  re: max atoms
          NParts

VARIABLES cs, done
vars == <<cs, done>>

PrefSp(n, q) ==
  IF Allowed(n, "raw", q) THEN "raw"
  ELSE IF Allowed(n, "bs", q) THEN "bs"
  ELSE IF Allowed(n, "named", q) THEN "named" ELSE "u"
Pref(q, names) == {Elem(n, PrefSp(n, q)) : n \in names}
UEl(q, names) == {Elem(n, "u") : n \in names}
Reduced == {"squote", "dquote", "btick", "bslash", "dollar", "lbrace", "nuldigit", "hisurr", "losurr"}
Reduced2 == Reduced \cup {"cr", "lf", "letter", "script", "ls"}

Seqs1(q) == {<<e>> : e \in ElemsFor(q, ClassNames)}
Seqs2(q) == {<<a, b>> : a \in Pref(q, ClassNames), b \in Pref(q, ClassNames) \cup UEl(q, ClassNames)}
            \cup {<<a, b>> : a \in UEl(q, ClassNames), b \in Pref(q, ClassNames)}
            \cup {<<Elem("cr", "raw"), Elem("lf", "raw")>> : x \in {1} \cap (IF IsTpl(q) THEN {1} ELSE {})}
Seqs3(q, names) == {<<a, b, c>> : a \in Pref(q, names), b \in Pref(q, names), c \in Pref(q, names)}
Seqs4(q, names) == {<<a, b, c, d>> : a \in Pref(q, names), b \in Pref(q, names), c \in Pref(q, names), d \in Pref(q, names)}

StrBodies(q) ==
  {s \in Seqs1(q) \cup Seqs2(q)
         \cup (IF Size = 2 THEN Seqs3(q, Reduced) ELSE Seqs3(q, ClassNames) \cup Seqs4(q, Reduced))
     : SeqOK(s, q)}

StrCase(s, q) ==
  [family |-> "str", quote |-> q, elems |-> s, units |-> UnitsOf(s, q, 1),
   src |-> [i \in 1..Len(s) |-> Piece(s[i])], labels |-> BodyLabels(s, q)]

ReSeqs == {<<a>> : a \in ReAtoms} \cup {<<a, b>> : a \in ReAtoms, b \in ReAtoms}
          \cup (IF Size >= 3 THEN {<<a, b, c>> : a \in ReAtoms, b \in ReAtoms, c \in ReAtoms} ELSE {})
ReCase(s, f) ==
  [family |-> "re", flags |-> f, atoms |-> [i \in 1..Len(s) |-> s[i].name],
   src |-> [i \in 1..Len(s) |-> [txt |-> s[i].txt, raw |-> s[i].raw]],
   labels |-> {s[i].name : i \in 1..Len(s)} \ {"letter"}]
ReOK(s, f) == \A i \in 1..Len(s) : s[i].needsU => (f \in {"u", "dgimsuy"})

NumCase(n) == [family |-> "num", form |-> n.form, txt |-> n.txt, mag |-> n.mag, kind |-> n.kind, goal |-> n.goal,
               labels |-> IF n.form = "dec" /\ n.mag \in {"zero", "small"} THEN {} ELSE {n.form, n.mag}]

CasesOf(fam) ==
  CASE fam = "str" -> UNION {{StrCase(s, q) : s \in StrBodies(q)} : q \in Quotes}
    [] fam = "re" -> {ReCase(p[1], p[2]) : p \in {x \in ReSeqs \X ReFlags : ReOK(x[1], x[2])}}
    [] fam = "num" -> {NumCase(n) : n \in NumForms}

(* piece-level lexical well-formedness of the source of a string/template body *)
ForbiddenRaw(q) ==
  (IF q = "sq" THEN {39, 10, 13, 92} ELSE IF q = "dq" THEN {34, 10, 13, 92} ELSE {96, 92})
SourceOK(c) ==
  IF c.family # "str" THEN TRUE ELSE
  /\ \A i \in 1..Len(c.src) : \A j \in 1..Len(c.src[i].raw) :
        /\ c.src[i].raw[j] \notin ForbiddenRaw(c.quote)
        /\ c.src[i].raw[j] \notin 55296..57343 \/ Len(c.src[i].raw) = 2     \* surrogates only as a pair
  /\ \A i \in 1..Len(c.src) : (c.src[i].txt = "") # (c.src[i].raw = <<>>)
  /\ \A i \in 1..Len(c.units) : c.units[i] \in 0..65535
  /\ Len(c.units) >= 1

ASSUME TLCSet(1, SetToSeq(CasesOf(Family)))
ASSUME TLCSet(2, LET S == TLCGet(1) IN UNION {S[i].labels : i \in 1..Len(S)})
ASSUME TLCSet(3, IF Family # "str" THEN {} ELSE
                 LET S == TLCGet(1) IN UNION {{<<S[i].quote, S[i].elems[j]>> : j \in 1..Len(S[i].elems)} : i \in 1..Len(S)})
ASSUME PrintT(<<"NCASES", Len(TLCGet(1))>>)

Slice(k) == LET S == TLCGet(1) IN {S[i] : i \in {j \in 1..Len(S) : j % NParts = k - 1}}
Init == cs = 0 /\ done = "no"
Fan == cs = 0 /\ cs' \in 1..NParts /\ done' = done
Work == /\ cs > 0 /\ done = "no"
        /\ cs' = cs
        /\ LET sl == Slice(cs) bad == {c \in sl : ~SourceOK(c)} IN
           /\ \A c \in sl : PrintT(<<"CASE", ToJson(c)>>)
           /\ done' = IF bad = {} THEN "ok" ELSE Print(<<"SOURCE-NOT-OK", bad>>, "bad")
Next == Fan \/ Work
Spec == Init /\ [][Next]_vars

AllSourcesOK == done # "bad"

(* non-vacuity *)
RequiredLabels ==
  CASE Family = "str" -> (ClassNames \ {"letter"}) \cup {"adj-dollar-brace", "adj-nul-digit", "adj-surrogate-pair", "adj-bslash-quote",
                                                        "adj-cr-lf", "tpl-cr-normalised", "both-quotes"}
    [] Family = "re" -> {a.name : a \in ReAtoms} \ {"letter"}
    [] Family = "num" -> {"dec-sep", "dec-dot", "dec-frac", "lead-dot", "exp", "hex", "oct", "bin", "legacy-octal", "legacy-decimal",
                          "big-dec", "big-hex", "big-oct", "big-bin", "2^53+1", "overflow", "int32over", "uint32over"}
RequiredCombos == IF Family # "str" THEN {} ELSE
  UNION {{<<q, e>> : e \in {x \in ClassNames \X Spellings : Allowed(x[1], x[2], q)}} : q \in Quotes}
MissingLabels == RequiredLabels \ TLCGet(2)
MissingCombos == RequiredCombos \ TLCGet(3)
Inhabited == done \in STRING /\
  (IF MissingLabels = {} /\ MissingCombos = {} THEN TRUE ELSE Print(<<"MISSING", MissingLabels, MissingCombos>>, FALSE))
=============================================================================
