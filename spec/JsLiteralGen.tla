---------------------------- MODULE JsLiteralGen ----------------------------
(***************************************************************************)
(* Generator over JsLiteral: string / template bodies (sequences of        *)
(* (class, spelling) elements per quote kind), regular-expression bodies,  *)
(* numeric lexical forms.  TLC checks on every exported case that the      *)
(* source pieces are lexically well formed for the quote kind by a         *)
(* piece-level argument independent of Allowed (SourceOK), that the value  *)
(* is a sequence of UTF-16 code units, and that every class x spelling x   *)
(* quote combination and every adjacency hazard is inhabited.              *)
(***************************************************************************)
EXTENDS JsLiteral, Json, SequencesExt

CONSTANTS Family,  \* "str" | "re" | "num"
          Size,    \* str: 2 = quick (covering sample), 3 = thorough;  re: max atoms
          NParts,
          Seed     \* rotates the seeded parts of the quick sample (VERIF_SEED)

VARIABLES cs, done
vars == <<cs, done>>

PrefSp(n, q) ==
  IF Allowed(n, "raw", q) THEN "raw"
  ELSE IF Allowed(n, "bs", q) THEN "bs"
  ELSE IF Allowed(n, "named", q) THEN "named" ELSE "u"
PrefEl(n, q) == Elem(n, PrefSp(n, q))
Pref(q, names) == {PrefEl(n, q) : n \in names}
(* the alternative spelling used for the spelling-variant pairs *)
AltEl(n, q) == IF n = "linecont" THEN Elem(n, "bs") ELSE Elem(n, "u")
Body(names) == names \ {"linecont"}

(* classes whose escaping depends on the quote kind: their pairs are taken under every quote kind *)
Hot == {"squote", "dquote", "btick", "bslash", "dollar", "lbrace"}
Reduced == Hot \cup {"nul", "d9", "hisurr", "losurr"}
Reduced2 == Reduced \cup {"cr", "lf", "letter", "script", "ls", "d7"}

Seqs1(q) == {<<e>> : e \in ElemsFor(q, ClassNames)} \ {<<Elem("linecont", "bs")>>}
Pair(a, b, q) == <<PrefEl(a, q), PrefEl(b, q)>>
Seqs3(q, names) == {<<a, b, c>> : a \in Pref(q, names), b \in Pref(q, names), c \in Pref(q, names)}
Seqs4(q, names) == {<<a, b, c, d>> : a \in Pref(q, names), b \in Pref(q, names), c \in Pref(q, names), d \in Pref(q, names)}

(* constructive families for the hazards that need three or more units *)
ScriptSeqs(q) ==
  LET P(n) == PrefEl(n, q) IN
  UNION {{<<P("lt"), P("slash"), P(x)>>, <<P("lt"), P("slash"), P(x), P("letter")>>, <<P("letter"), P("lt"), P("slash"), P(x)>>,
          <<P("slash"), P(x)>>, <<P("lt"), P("bslash"), P("slash"), P(x)>>, <<P("lt"), P("slash"), P(x), P("lt"), P("slash"), P(x)>>}
         : x \in {"scr", "scrU", "scrM", "scrip"}}
  \cup {<<P("lt"), P("slash"), P("letter")>>, <<P("lt"), P("slash")>>, <<P("script"), P("script")>>}
SurSeqs(q) ==
  LET P(n) == PrefEl(n, q) IN
  {<<P(a), P(b), P(c)>> : a \in {"hisurr", "hismax", "losmin"}, b \in {"hismin", "hisurr", "losurr"}, c \in {"losmax", "hismax", "letter"}}
NulSeqs(q) ==
  LET P(n) == PrefEl(n, q) IN
  {<<P(a), P("nul"), P(b)>> : a \in {"letter", "nul", "bslash", "d9"}, b \in {"d0", "d7", "d8", "d9", "slash", "colon", "letter", "nul"}}
  \cup {<<P("nul"), P(b), P(c)>> : b \in {"d0", "d7", "d8", "d9"}, c \in {"d0", "d9", "letter"}}
QuoteSeqs(q) == Seqs3(q, {"squote", "dquote", "btick", "dollar", "lbrace"}) \cup (IF Size >= 3 THEN Seqs4(q, {"squote", "dquote", "btick"}) ELSE {})
(* spellings that the preferred-spelling pairs cannot reach: `\${` and `$\{` in templates, the legacy `\0` before 8 / 9 *)
SpecialSeqs(q) ==
  {s \in {<<Elem("dollar", "bs"), PrefEl("lbrace", q)>>, <<PrefEl("dollar", q), Elem("lbrace", "bs")>>,
          <<Elem("nul", "bs"), PrefEl("d8", q)>>, <<Elem("nul", "bs"), PrefEl("d9", q)>>, <<Elem("nul", "bs"), PrefEl("letter", q)>>,
          <<Elem("nul", "bs"), Elem("d9", "u")>>, <<Elem("nul", "oct"), PrefEl("d9", q)>>, <<Elem("d8", "oct"), Elem("d9", "oct")>>,
          \* <CR><LF> in the value (escaped), and the raw pair that a template normalises to one <LF>
          <<Elem("cr", "named"), Elem("lf", "named")>>, <<Elem("cr", "named"), PrefEl("lf", q)>>, <<Elem("cr", "raw"), Elem("lf", "raw")>>,
          <<Elem("cr", "raw"), Elem("lf", "named")>>}
     : \A i \in 1..Len(s) : Allowed(s[i][1], s[i][2], q)}
(* quick: one quote kind per (class, spelling) in rotation, all quote kinds for the quote-sensitive classes *)
Singles(q) ==
  IF Size >= 3 THEN Seqs1(q)
  ELSE LET E == SetToSeq(ClassNames \X Spellings)
           QsOf(e) == SetToSeq({q2 \in Quotes : Allowed(e[1], e[2], q2)}) IN
       {<<E[i]>> : i \in {j \in 1..Len(E) : /\ Allowed(E[j][1], E[j][2], q) /\ E[j][1] # "linecont"
                                              /\ (E[j][1] \in Hot \cup {"lf", "cr"}
                                                  \/ QsOf(E[j])[((j + Seed) % Len(QsOf(E[j]))) + 1] = q)}}

(* the quote kinds a pair (index i in the fixed order of all pairs) is taken under in the quick sample *)
PairSeq(d) == SetToSeq(Body(ClassNames) \X ClassNames)
QuickQuotes(i, a, b) ==
  IF a \in Hot /\ b \in Hot THEN Quotes
  ELSE IF a \in Hot \/ b \in Hot THEN {<<"tpl", "tpl", "tag">>[((i + Seed) % 3) + 1], <<"sq", "dq">>[((i + Seed) % 2) + 1]}
  ELSE {<<"sq", "dq", "tpl">>[((i + Seed) % 3) + 1]} \cup (IF (i + Seed) % 16 = 0 THEN {"tag"} ELSE {})

(* <<quote, body>> pairs *)
QB(q, S) == {<<q, s>> : s \in S}
EveryNth(S, n) == LET Q == SetToSeq(S) IN {Q[i] : i \in {j \in 1..Len(Q) : (j + Seed) % n = 0}}

StrBodies(d) ==
  LET P == PairSeq(d) IN
  UNION {QB(q, Singles(q) \cup ScriptSeqs(q) \cup SurSeqs(q) \cup NulSeqs(q) \cup SpecialSeqs(q)) : q \in Quotes}
  \cup UNION {QB(q, QuoteSeqs(q)) : q \in (IF Size >= 3 THEN Quotes ELSE {"sq", "tpl"})}
  \cup (IF Size = 2 THEN
          UNION {UNION {QB(q, {Pair(P[i][1], P[i][2], q)}) : q \in QuickQuotes(i, P[i][1], P[i][2])} : i \in 1..Len(P)}
          \* seeded slices: spelling variants of the pairs, triples and quadruples over the reduced alphabets
          \cup UNION {QB(q, EveryNth({<<AltEl(a, q), PrefEl(b, q)>> : a \in Body(ClassNames), b \in ClassNames}
                                     \cup {<<PrefEl(a, q), AltEl(b, q)>> : a \in Body(ClassNames), b \in ClassNames}, 96)
                            \cup EveryNth(Seqs3(q, Reduced2), 160) \cup EveryNth(Seqs4(q, Reduced), 400)) : q \in Quotes}
        ELSE
          UNION {QB(q, {Pair(P[i][1], P[i][2], q) : i \in 1..Len(P)}) : q \in Quotes}
          \cup UNION {QB(q, {<<AltEl(a, q), PrefEl(b, q)>> : a \in Body(ClassNames), b \in ClassNames}
                            \cup {<<PrefEl(a, q), AltEl(b, q)>> : a \in Body(ClassNames), b \in ClassNames}) : q \in {"sq", "tpl"}}
          \cup UNION {QB(q, Seqs3(q, Reduced) \cup EveryNth(Seqs3(q, Reduced2), 4) \cup Seqs4(q, Hot)) : q \in Quotes})

(* contexts of a case: quick = expr, strict code (sq/dq) and one more in rotation; thorough = all for bodies of <= 2 elements *)
CtxNames(q, quickOnly) == {c.name : c \in {x \in Contexts : q \in x.quotes /\ (quickOnly => x.quick)}}
Rotating(q) == SetToSeq(CtxNames(q, TRUE) \ {"expr", "tag"})
CtxsFor(i, s, q) ==
  LET goal == Goal(s, q)
      ok(n) == LET c == CHOOSE x \in Contexts : x.name = n IN ~(c.strict /\ goal = "sloppy")
      R == Rotating(q)
      \* the strict context is the expr context behind a `use strict` directive: it stands for both unless the body is sloppy-only
      base == IF q = "tag" THEN {"tag"} ELSE IF q = "tpl" \/ goal = "sloppy" THEN {"expr"} ELSE {"strict"}
      \* the text `use strict` always goes to the directive position as well (the directive must be recognised iff unescaped)
      rot == (IF Len(R) = 0 THEN {} ELSE {R[((i + Seed) % Len(R)) + 1]})
             \cup (IF q \in {"sq", "dq"} /\ \E k \in 1..Len(s) : s[k][1] = "usestrict" THEN {"dir"} ELSE {}) IN
  {n \in (IF Size >= 3 /\ Len(s) <= 2 /\ (\A k \in 1..Len(s) : s[k] = PrefEl(s[k][1], q)) THEN CtxNames(q, FALSE) ELSE base \cup rot) : ok(n)}

StrCase(i, s, q) ==
  [family |-> "str", quote |-> q, elems |-> s, units |-> UnitsOf(s, q, 1), goal |-> Goal(s, q),
   src |-> [k \in 1..Len(s) |-> Piece(s[k])], labels |-> BodyLabels(s, q), ctxs |-> CtxsFor(i, s, q),
   usestrict |-> IsUseStrict(s)]

ReSeqs == {<<a>> : a \in ReAtoms}
          \cup (IF Size = 2 THEN EveryNth({<<a, b>> : a \in ReAtoms, b \in ReAtoms}, 2) ELSE {<<a, b>> : a \in ReAtoms, b \in ReAtoms})
          \cup (IF Size >= 3 THEN {<<a, b, c>> : a \in ReAtoms, b \in ReAtoms, c \in ReAtoms} ELSE {})
ReCase(s, f) ==
  [family |-> "re", flags |-> f, atoms |-> [i \in 1..Len(s) |-> s[i].name],
   src |-> [i \in 1..Len(s) |-> [txt |-> s[i].txt, raw |-> s[i].raw]],
   labels |-> {s[i].name : i \in 1..Len(s)} \ {"letter"}]
ReOK(s, f) == \A i \in 1..Len(s) : s[i].needsU => (f \in {"u", "dgimsuy"})

NumCase(n) == [family |-> "num", form |-> n.form, txt |-> n.txt, mag |-> n.mag, kind |-> n.kind, goal |-> n.goal,
               labels |-> IF n.form = "dec" /\ n.mag \in {"zero", "small"} THEN {} ELSE {n.form, n.mag}]

CasesOf(fam) ==
  CASE fam = "str" -> LET B == SetToSeq({b \in StrBodies(0) : SeqOK(b[2], b[1])}) IN {StrCase(i, B[i][2], B[i][1]) : i \in 1..Len(B)}
    [] fam = "re" -> {ReCase(p[1], p[2]) : p \in {x \in ReSeqs \X ReFlags : ReOK(x[1], x[2])}}
    [] fam = "num" -> {NumCase(n) : n \in NumForms}

(* piece-level lexical well-formedness of the source of a string/template body *)
ForbiddenRaw(q) ==
  (IF q = "sq" THEN {39, 10, 13, 92} ELSE IF q = "dq" THEN {34, 10, 13, 92} ELSE {96, 92})
SourceOK(c) ==
  IF c.family # "str" THEN TRUE ELSE
  /\ \A i \in 1..Len(c.src) : \A j \in 1..Len(c.src[i].raw) :
        /\ c.src[i].raw[j] \notin ForbiddenRaw(c.quote)
        /\ c.src[i].raw[j] \notin 55296..57343 \/ Len(c.src[i].raw) = 2     \* surrogates only as a pair
  /\ \A i \in 1..Len(c.src) : (c.src[i].txt = "") # (c.src[i].raw = <<>>)
  /\ \A i \in 1..Len(c.units) : c.units[i] \in 0..65535
  /\ Len(c.units) >= 1
  /\ c.ctxs # {}
  \* a sloppy-only body (Annex B escape) is never placed in strict code, and never in a template
  /\ (c.goal = "sloppy") => (c.quote \in {"sq", "dq"} /\ \A n \in c.ctxs : ~(CHOOSE x \in Contexts : x.name = n).strict)
  /\ \A n \in c.ctxs : c.quote \in (CHOOSE x \in Contexts : x.name = n).quotes

ASSUME TLCSet(1, SetToSeq(CasesOf(Family)))
ASSUME TLCSet(2, LET S == TLCGet(1) IN UNION {S[i].labels : i \in 1..Len(S)})
ASSUME TLCSet(3, IF Family # "str" THEN {} ELSE
                 LET S == TLCGet(1) IN UNION {{<<S[i].quote, S[i].elems[j]>> : j \in 1..Len(S[i].elems)} : i \in 1..Len(S)})
(* adjacent class pairs per quote kind, and the contexts used per quote kind *)
ASSUME TLCSet(4, IF Family # "str" THEN {} ELSE
                 LET S == TLCGet(1) IN UNION {{<<S[i].quote, S[i].elems[j][1], S[i].elems[j + 1][1]>> : j \in 1..(Len(S[i].elems) - 1)} : i \in 1..Len(S)})
ASSUME TLCSet(5, IF Family # "str" THEN {} ELSE
                 LET S == TLCGet(1) IN UNION {{<<S[i].quote, n>> : n \in S[i].ctxs} : i \in 1..Len(S)})
ASSUME PrintT(<<"NCASES", Len(TLCGet(1))>>)
ASSUME Family # "str" \/ PrintT(<<"CASE", ToJson([family |-> "ctx", contexts |-> SetToSeq(Contexts)])>>)

Slice(k) == LET S == TLCGet(1) IN {S[i] : i \in {j \in 1..Len(S) : j % NParts = k - 1}}
Init == cs = 0 /\ done = "no"
Fan == cs = 0 /\ cs' \in 1..NParts /\ done' = done
Work == /\ cs > 0 /\ done = "no"
        /\ cs' = cs
        /\ LET sl == Slice(cs) bad == {c \in sl : ~SourceOK(c)} IN
           /\ \A c \in sl : PrintT(<<"CASE", ToJson(c)>>)
           /\ done' = IF bad = {} THEN "ok" ELSE Print(<<"SOURCE-NOT-OK", bad>>, "bad")
Next == Fan \/ Work
Spec == Init /\ [][Next]_vars

AllSourcesOK == done # "bad"

(* non-vacuity *)
QCostRequired == {"qcost-lt-gt-eq", "qcost-gt-eq-gt", "qcost-eq-lt-lt", "qcost-gt-lt-eq", "qcost-lt-gt-gt", "qcost-lt-gt-lt", "qcost-gt-gt-gt",
                  "qcost-eq-eq-eq", "qcost-eq-gt-gt", "qcost-lt-lt-lt", "qcost-lt-eq-lt", "qcost-gt-lt-gt", "qcost-gt-lt-lt"}
RequiredLabels ==
  CASE Family = "str" -> (ClassNames \ {"letter"}) \cup
         {"nul-end", "nul-octdigit", "nul-89", "nul-slash", "nul-colon", "nul-other",
          "lf-tpl", "lf-str", "cr-tpl", "cr-str", "adj-cr-lf", "tpl-cr-normalised",
          "lt-slash-script-tpl", "lt-slash-script-str", "lt-slash-script-uppercase", "lt-slash-script-at-end",
          "lt-slash-script-then-more", "lt-slash-nomatch", "slash-script-without-lt",
          "dollar-brace-tpl", "dollar-brace-str", "dollar-end", "dollar-other",
          "quote-own-sq", "quote-own-dq", "quote-own-tpl", "quote-own-tag", "quote-other",
          "adj-bslash-quote", "adj-surrogate-pair", "sur-hi-end", "sur-hi-hi", "sur-hi-other", "sur-lo-lone", "sur-lo-hi",
          "unit-80-ff", "unit-above-ff", "both-quotes", "legacy-nul-89", "legacy-octal-escape"}
         \cup QCostRequired
    [] Family = "re" -> {a.name : a \in ReAtoms} \ {"letter"}
    [] Family = "num" -> {"dec-sep", "dec-dot", "dec-frac", "lead-dot", "exp", "hex", "oct", "bin", "legacy-octal", "legacy-decimal",
                          "big-dec", "big-hex", "big-oct", "big-bin", "2^53+1", "overflow", "int32over", "uint32over"}
(* every class x spelling x quote kind (quick: every class x spelling under some quote kind, the quote-sensitive ones under every one) *)
RequiredCombos == IF Family # "str" THEN {} ELSE
  UNION {{<<q, e>> : e \in {x \in ClassNames \X Spellings : Allowed(x[1], x[2], q) /\ (Size >= 3 \/ x[1] \in Hot)}} : q \in Quotes}
CombosSomewhere == Family # "str" \/ \A e \in ClassNames \X Spellings :
  (\E q \in Quotes : Allowed(e[1], e[2], q)) => \E q \in Quotes : <<q, e>> \in TLCGet(3)
(* every ordered pair of classes is adjacent under some quote kind; pairs with a quote-sensitive class under every quote kind; *)
(* NUL followed by each digit class under a template and under a string placed in strict code                                 *)
RequiredPairs == IF Family # "str" THEN {} ELSE
  {<<q, a, b>> \in Quotes \X Body(ClassNames) \X ClassNames : (IF Size >= 3 THEN a \in Hot \/ b \in Hot ELSE a \in Hot /\ b \in Hot) /\ SeqOK(Pair(a, b, q), q)}
PairSomewhere == Family # "str" \/ \A a \in Body(ClassNames), b \in ClassNames : \E q \in Quotes : <<q, a, b>> \in TLCGet(4)
RequiredCtxs == IF Family # "str" THEN {} ELSE
  UNION {{<<q, c.name>> : q \in c.quotes} : c \in {x \in Contexts : x.quick \/ Size >= 3}}
MissingLabels == RequiredLabels \ TLCGet(2)
MissingCombos == RequiredCombos \ TLCGet(3)
MissingPairs == RequiredPairs \ TLCGet(4)
MissingCtxs == RequiredCtxs \ TLCGet(5)
Inhabited == done \in STRING /\
  (IF MissingLabels = {} /\ MissingCombos = {} /\ MissingPairs = {} /\ MissingCtxs = {} /\ PairSomewhere /\ CombosSomewhere THEN TRUE
   ELSE Print(<<"MISSING", MissingLabels, MissingCombos, MissingPairs, MissingCtxs, PairSomewhere, CombosSomewhere>>, FALSE))
=============================================================================
