------------------------------ MODULE Service ------------------------------
(***************************************************************************)
(* The stdio service of esbuild (cmd/esbuild/service.go, stdio_protocol.go) *)
(* as a state machine: one action per `case` of handleIncomingPacket, split *)
(* at its goroutine boundary, the activeBuild bookkeeping                   *)
(* (withinRebuildCount / didGetCancel / rebuildWaitGroup / disposeWaitGroup),*)
(* the requests the service sends to its client (plugin callbacks), the     *)
(* single writer goroutine and the keep-alive wait group that decides when  *)
(* the process may exit.                                                    *)
(*                                                                          *)
(* The build context behind a key is abstract (BuildContext.tla is the      *)
(* model of the context itself): per key at most one build is active; a     *)
(* build goes start -> scan -> compile -> sampled -> (end) -> ended; a      *)
(* Rebuild() call starts a build or joins the active one and returns when   *)
(* that build has ended; Cancel() sets the cancel flag of the active build  *)
(* and waits for it; Dispose() waits for it.                                *)
(*                                                                          *)
(* Anchors (service.go): runService (decode loop, writer goroutine,         *)
(* keepAliveWaitGroup), sendPacket, sendRequest, handleIncomingPacket       *)
(* (cases build, transform, resolve, rebuild, cancel, dispose, default),    *)
(* handleBuildRequest (createActiveBuild/destroyActiveBuild, the "onEnd"    *)
(* plugin with the OnStart cancel relay), convertPlugins (on-start,         *)
(* on-resolve, on-load requests, pluginResolve).                            *)
(***************************************************************************)
EXTENDS Integers, Sequences, FiniteSets, TLC

CONSTANTS
  Keys,         \* build keys (positive integers)
  Cmds,         \* design model: the commands the client uses
  MaxReq,       \* design model: number of requests the client sends
  MaxScanCb,    \* design model: on-resolve/on-load requests per build
  MaxNest,      \* design model: nested on-resolve requests per "resolve"
  Plugs,        \* design model: subset of BOOLEAN, may a build carry plugins
  Bads,         \* design model: subset of {"", "flags", "ctx"}
  MayClose,     \* design model: may the client close stdin
  Polite,       \* design model: the client uses a key only after the response to its "build" (as the JS client does)
  Pings,        \* --ping: the service sends "ping" requests
  RelayUnsafe   \* TRUE: the relay goroutine reads activeBuild.ctx when it runs
                \* (as service.go does); FALSE: it uses the ctx captured at on-start

None == -1
NoKey == 0

VARIABLES
  inbox,        \* packets on stdin not yet decoded (FIFO; decoding is sequential)
  req,          \* request id -> request record (dynamic domain)
  ab,           \* key -> activeBuild
  cx,           \* key -> abstract build / context state
  cb,           \* callback id -> request the service sent to the client
  wbuf,         \* the packet the writer goroutine holds (NoPkt if none)
  mainBusy,     \* request whose (error) response the decode goroutine is sending itself
  keepAlive,    \* keepAliveWaitGroup counter
  stdinClosed,  \* the client closed stdin
  eof,          \* the decode loop saw end-of-file
  exited, crashed,
  relays,       \* cancel-relay goroutines spawned by the OnStart plugin
  grp,          \* rebuild wait groups: group id -> counter
  usedKeys,     \* keys the client used in a "build" request
  ncb,          \* callback ids handed out
  opAfterDispose \* history: an operation started on a context after Dispose() began

vars == <<inbox, req, ab, cx, cb, wbuf, mainBusy, keepAlive, stdinClosed, eof, exited, crashed,
          relays, grp, usedKeys, ncb, opAfterDispose>>

NoPkt == [t |-> "none", id |-> None, cmd |-> "", key |-> NoKey, owner |-> None]
RespPkt(i) == [t |-> "resp", id |-> i, cmd |-> "", key |-> NoKey, owner |-> None]
\* owner: None = the build of the key, otherwise the "resolve" request that caused it
CbPkt(cmd, k, owner) == [t |-> "creq", id |-> None, cmd |-> cmd, key |-> k, owner |-> owner]

NoAB == [exists |-> FALSE, hasCtx |-> FALSE, hasResolve |-> FALSE, within |-> 0,
         didGetCancel |-> FALSE, rwg |-> None, refs |-> 0]

IdleCx == [phase |-> "idle", gen |-> 0, isCtx |-> FALSE, plug |-> FALSE, cancelFlag |-> FALSE,
           failed |-> FALSE, outcome |-> "", members |-> {}, starter |-> None, out |-> 0,
           startCb |-> "done", relayChk |-> TRUE, relaySpawned |-> FALSE, nscan |-> 0,
           disposed |-> FALSE, stdin |-> 0, pays |-> {}]

\* pay: identity (digest) of the byte-array payload the request carries (transform
\* input, build stdin contents; 0 = none); seen: the payloads its result was
\* computed from (what the handler goroutine read)
NewReq(cmd, k, isCtx, plug, bad, pay) ==
  [cmd |-> cmd, key |-> k, st |-> "inbox", isCtx |-> isCtx, plug |-> plug, bad |-> bad,
   kind |-> "", a |-> None, ref |-> FALSE, within |-> {}, pend |-> {}, n |-> 0, nw |-> 0,
   pay |-> pay, seen |-> {}]

NonZero(S) == S \ {0}

\* response kinds a client may see for the kind a handler computed
Kinds(k) == IF k = "either" THEN {"errors", "cancelled"} ELSE {k}

Ids == DOMAIN req
Alive == ~exited /\ ~crashed

Init ==
  /\ inbox = <<>>
  /\ req = [x \in {} |-> 0]
  /\ ab = [k \in Keys |-> NoAB]
  /\ cx = [k \in Keys |-> IdleCx]
  /\ cb = [x \in {} |-> 0]
  /\ wbuf = NoPkt
  /\ mainBusy = None
  /\ keepAlive = 1          \* runService: keepAliveWaitGroup.Add(1) before the decode loop
  /\ stdinClosed = FALSE /\ eof = FALSE /\ exited = FALSE /\ crashed = FALSE
  /\ relays = {}
  /\ grp = [x \in {} |-> 0]
  /\ usedKeys = {}
  /\ ncb = 0
  /\ opAfterDispose = FALSE

(***************************************************************************)
(* The client                                                              *)
(***************************************************************************)
\* A request is written to stdin.  Keys of "build" requests are fresh (the
\* JS client numbers them; createActiveBuild panics otherwise).
\* (the packet in `inbox` is the handler's own copy of the bytes: the decode
\* loop clones every packet before dispatching it, see ServiceStream.tla)
Send(i, cmd, k, isCtx, plug, bad, pay) ==
  /\ ~stdinClosed
  /\ i \notin Ids
  /\ cmd = "build" => k \notin usedKeys
  /\ req' = req @@ (i :> NewReq(cmd, k, isCtx, plug, bad, pay))
  /\ inbox' = Append(inbox, [t |-> "req", id |-> i, err |-> FALSE, pay |-> pay])
  /\ usedKeys' = IF cmd = "build" THEN usedKeys \cup {k} ELSE usedKeys
  /\ UNCHANGED <<ab, cx, cb, wbuf, mainBusy, keepAlive, stdinClosed, eof, exited, crashed, relays, grp, ncb, opAfterDispose>>

\* The client answers a request of the service (err: the answer carries an error)
\* pay: identity of the `contents` byte array of an on-load answer (0 = none)
Answer(m, err, pay) ==
  /\ ~stdinClosed
  /\ m \in DOMAIN cb /\ cb[m].st = "written"
  /\ cb' = [cb EXCEPT ![m].st = "answered", ![m].pay = pay]
  /\ inbox' = Append(inbox, [t |-> "resp", id |-> m, err |-> err, pay |-> pay])
  /\ UNCHANGED <<req, ab, cx, wbuf, mainBusy, keepAlive, stdinClosed, eof, exited, crashed, relays, grp, usedKeys, ncb, opAfterDispose>>

CloseStdin ==
  /\ ~stdinClosed
  /\ stdinClosed' = TRUE
  /\ UNCHANGED <<inbox, req, ab, cx, cb, wbuf, mainBusy, keepAlive, eof, exited, crashed, relays, grp, usedKeys, ncb, opAfterDispose>>

(***************************************************************************)
(* The decode goroutine (runService / handleIncomingPacket)                *)
(***************************************************************************)
CanDecode == Alive /\ ~eof /\ mainBusy = None /\ inbox # <<>>
HeadIsReq(i) == inbox[1].t = "req" /\ inbox[1].id = i
Pop == inbox' = Tail(inbox)

\* the decode goroutine answers by itself: it blocks in sendPacket until the
\* writer takes the packet (MainHandoff)
MainAnswer(i, kind) ==
  /\ req' = [req EXCEPT ![i].st = "mainsend", ![i].kind = kind]
  /\ mainBusy' = i

\* case "build", "transform": everything happens on a new goroutine
RecvBuild(i) ==
  /\ CanDecode /\ HeadIsReq(i) /\ req[i].cmd \in {"build", "transform"} /\ Pop
  /\ req' = [req EXCEPT ![i].st = "decoded"]
  /\ keepAlive' = keepAlive + 1
  /\ UNCHANGED <<ab, cx, cb, wbuf, mainBusy, stdinClosed, eof, exited, crashed, relays, grp, usedKeys, ncb, opAfterDispose>>

\* case "rebuild"
RecvRebuild(i) ==
  /\ CanDecode /\ HeadIsReq(i) /\ req[i].cmd = "rebuild" /\ Pop
  /\ LET k == req[i].key IN
     IF ab[k].exists /\ ab[k].hasCtx
       THEN LET g == IF ab[k].rwg = None THEN i ELSE ab[k].rwg IN   \* a new group is named after its first rebuild
            /\ ab' = [ab EXCEPT ![k].within = @ + 1, ![k].rwg = g, ![k].refs = @ + 1]
            /\ grp' = IF g \in DOMAIN grp THEN [grp EXCEPT ![g] = @ + 1] ELSE grp @@ (g :> 1)
            /\ req' = [req EXCEPT ![i].st = "decoded", ![i].a = g, ![i].ref = TRUE]
            /\ keepAlive' = keepAlive + 1
            /\ UNCHANGED mainBusy
       ELSE /\ MainAnswer(i, "cannot")
            /\ UNCHANGED <<ab, grp, keepAlive>>
  /\ UNCHANGED <<cx, cb, wbuf, stdinClosed, eof, exited, crashed, relays, usedKeys, ncb, opAfterDispose>>

\* case "cancel": the rebuild wait group and the didGetCancel flag are
\* handled on the decode goroutine, Cancel() itself on a new one.
\* within/pend are history fields for CancelCoversEarlierRebuild.
RecvCancel(i) ==
  /\ CanDecode /\ HeadIsReq(i) /\ req[i].cmd = "cancel" /\ Pop
  /\ LET k == req[i].key IN
     IF ab[k].exists
       THEN LET inflight == {r \in Ids : req[r].cmd = "rebuild" /\ req[r].key = k /\ req[r].st \in {"decoded", "running", "returned"}} IN
            /\ ab' = [ab EXCEPT ![k].didGetCancel = IF ab[k].within > 0 THEN TRUE ELSE @]
            /\ IF ab[k].hasCtx
                 THEN /\ req' = [req EXCEPT ![i].st = "decoded", ![i].a = ab[k].rwg, ![i].within = inflight,
                                           ![i].pend = {r \in inflight : req[r].st = "decoded"}]
                      /\ keepAlive' = keepAlive + 1
                      /\ UNCHANGED mainBusy
                 ELSE /\ MainAnswer(i, "ok")
                      /\ UNCHANGED keepAlive
       ELSE /\ MainAnswer(i, "ok")
            /\ UNCHANGED <<ab, keepAlive>>
  /\ UNCHANGED <<cx, cb, wbuf, stdinClosed, eof, exited, crashed, relays, grp, usedKeys, ncb, opAfterDispose>>

\* case "dispose": the context pointer is cleared on the decode goroutine
RecvDispose(i) ==
  /\ CanDecode /\ HeadIsReq(i) /\ req[i].cmd = "dispose" /\ Pop
  /\ LET k == req[i].key IN
     IF ab[k].exists /\ ab[k].hasCtx
       THEN /\ ab' = [ab EXCEPT ![k].hasCtx = FALSE]
            /\ req' = [req EXCEPT ![i].st = "decoded"]
            /\ keepAlive' = keepAlive + 1
            /\ UNCHANGED mainBusy
       ELSE /\ MainAnswer(i, "ok")
            /\ UNCHANGED <<ab, keepAlive>>
  /\ UNCHANGED <<cx, cb, wbuf, stdinClosed, eof, exited, crashed, relays, grp, usedKeys, ncb, opAfterDispose>>

\* case "resolve"
RecvResolve(i) ==
  /\ CanDecode /\ HeadIsReq(i) /\ req[i].cmd = "resolve" /\ Pop
  /\ LET k == req[i].key IN
     IF ab[k].exists /\ ab[k].hasResolve
       THEN /\ ab' = [ab EXCEPT ![k].refs = IF ab[k].hasCtx THEN @ + 1 ELSE @]
            /\ req' = [req EXCEPT ![i].st = "decoded", ![i].ref = ab[k].hasCtx]
            /\ keepAlive' = keepAlive + 1
            /\ UNCHANGED mainBusy
       ELSE /\ MainAnswer(i, "error")
            /\ UNCHANGED <<ab, keepAlive>>
  /\ UNCHANGED <<cx, cb, wbuf, stdinClosed, eof, exited, crashed, relays, grp, usedKeys, ncb, opAfterDispose>>

\* default: "Invalid command"
RecvBogus(i) ==
  /\ CanDecode /\ HeadIsReq(i) /\ req[i].cmd = "bogus" /\ Pop
  /\ MainAnswer(i, "error")
  /\ UNCHANGED <<ab, cx, cb, wbuf, keepAlive, stdinClosed, eof, exited, crashed, relays, grp, usedKeys, ncb, opAfterDispose>>

\* the decode goroutine hands its packet to the writer
MainHandoff ==
  /\ Alive /\ mainBusy # None /\ wbuf = NoPkt
  /\ wbuf' = RespPkt(mainBusy)
  /\ req' = [req EXCEPT ![mainBusy].st = "handed"]
  /\ mainBusy' = None
  /\ keepAlive' = keepAlive + 1          \* sendPacket: Add(1), the writer calls Done()
  /\ UNCHANGED <<inbox, ab, cx, cb, stdinClosed, eof, exited, crashed, relays, grp, usedKeys, ncb, opAfterDispose>>

\* A response of the client to a request of the service is decoded; the
\* waiting goroutine continues (the intermediate goroutine that delivers the
\* value holds its own keep-alive reference while it does so).
CbOwnerDone(m, err, pay) ==
  LET c == cb[m] k == cb[m].key IN
  IF c.cmd = "ping" THEN UNCHANGED <<req, cx>>
  ELSE IF c.owner # None
    THEN /\ req' = [req EXCEPT ![c.owner].n = @ - 1]
         /\ UNCHANGED cx
    ELSE /\ UNCHANGED req
         /\ cx' = [cx EXCEPT ![k].failed = @ \/ (err /\ c.cmd # "on-end"),
                             ![k].startCb = IF c.cmd = "on-start" THEN "done" ELSE @,
                             ![k].out = IF c.cmd \in {"on-resolve", "on-load"} THEN @ - 1 ELSE @,
                             ![k].pays = IF c.cmd = "on-load" /\ ~err THEN @ \cup NonZero({pay}) ELSE @,
                             ![k].phase = IF c.cmd = "on-end" THEN "ended" ELSE @,
                             ![k].outcome = IF c.cmd = "on-end" /\ err /\ @ = "ok" THEN "errors" ELSE @]

RecvResponse(m) ==
  /\ CanDecode /\ inbox[1].t = "resp" /\ inbox[1].id = m /\ Pop
  /\ m \in DOMAIN cb /\ cb[m].st = "answered"
  /\ cb' = [cb EXCEPT ![m].st = "done"]
  /\ CbOwnerDone(m, inbox[1].err, inbox[1].pay)
  /\ UNCHANGED <<ab, wbuf, mainBusy, keepAlive, stdinClosed, eof, exited, crashed, relays, grp, usedKeys, ncb, opAfterDispose>>

\* end of stdin: the deferred keepAliveWaitGroup.Done(); Wait()
MainEOF ==
  /\ Alive /\ ~eof /\ stdinClosed /\ inbox = <<>> /\ mainBusy = None
  /\ eof' = TRUE
  /\ keepAlive' = keepAlive - 1
  /\ UNCHANGED <<inbox, req, ab, cx, cb, wbuf, mainBusy, stdinClosed, exited, crashed, relays, grp, usedKeys, ncb, opAfterDispose>>

Exit ==
  /\ Alive /\ eof /\ keepAlive = 0
  /\ exited' = TRUE
  /\ UNCHANGED <<inbox, req, ab, cx, cb, wbuf, mainBusy, keepAlive, stdinClosed, eof, crashed, relays, grp, usedKeys, ncb, opAfterDispose>>

(***************************************************************************)
(* The writer goroutine                                                    *)
(***************************************************************************)
\* m: the id the packet carries if it is a request of the service
WriterStep(m) ==
  /\ Alive /\ wbuf.t # "none"
  /\ IF wbuf.t = "resp"
       THEN /\ req' = [req EXCEPT ![wbuf.id].st = "responded", ![wbuf.id].nw = @ + 1]
            /\ UNCHANGED <<cb, ncb>>
       ELSE /\ m \notin DOMAIN cb
            /\ cb' = cb @@ (m :> [cmd |-> wbuf.cmd, key |-> wbuf.key, owner |-> wbuf.owner, st |-> "written", pay |-> 0])
            /\ ncb' = ncb + 1
            /\ UNCHANGED req
  /\ wbuf' = NoPkt
  /\ keepAlive' = keepAlive - 1
  /\ UNCHANGED <<inbox, ab, cx, mainBusy, stdinClosed, eof, exited, crashed, relays, grp, usedKeys, opAfterDispose>>

\* --ping: a "ping" request is handed to the writer and written (one step:
\* the ping goroutine holds no other state)
Ping(m) ==
  /\ Pings /\ Alive /\ wbuf = NoPkt /\ m \notin DOMAIN cb
  /\ cb' = cb @@ (m :> [cmd |-> "ping", key |-> NoKey, owner |-> None, st |-> "written", pay |-> 0])
  /\ ncb' = ncb + 1
  /\ UNCHANGED <<inbox, req, ab, cx, wbuf, mainBusy, keepAlive, stdinClosed, eof, exited, crashed, relays, grp, usedKeys, opAfterDispose>>

\* a handler goroutine hands its response to the writer and ends (its
\* deferred Done() calls run after sendPacket returned)
Respond(i) ==
  /\ Alive /\ i \in Ids /\ req[i].st = "finished" /\ wbuf = NoPkt
  /\ wbuf' = RespPkt(i)
  /\ req' = [req EXCEPT ![i].st = "handed", ![i].ref = FALSE]
  /\ ab' = IF req[i].ref THEN [ab EXCEPT ![req[i].key].refs = @ - 1] ELSE ab
  \* sendPacket Add(1) and the handler's deferred Done(): no net change
  /\ UNCHANGED <<inbox, cx, cb, mainBusy, keepAlive, stdinClosed, eof, exited, crashed, relays, grp, usedKeys, ncb, opAfterDispose>>

(***************************************************************************)
(* The abstract build behind a key                                         *)
(***************************************************************************)
StartBuild(k, i, isCtx, plug) ==
  [cx[k] EXCEPT !.phase = "start", !.gen = @ + 1, !.isCtx = isCtx, !.plug = plug, !.cancelFlag = FALSE,
                !.failed = FALSE, !.outcome = "", !.members = {i}, !.starter = i, !.out = 0,
                !.startCb = IF plug THEN "todo" ELSE "done",
                !.relayChk = ~isCtx, !.relaySpawned = FALSE, !.nscan = 0,
                !.pays = NonZero({cx[k].stdin})]   \* the stdin contents are read when the build starts

\* the OnStart callback of the service's own "onEnd" plugin: the cancel relay
RelayCheck(k) ==
  /\ Alive /\ cx[k].phase = "start" /\ ~cx[k].relayChk
  /\ IF ab[k].rwg # None /\ ab[k].didGetCancel
       THEN /\ grp' = [grp EXCEPT ![ab[k].rwg] = @ + 1]
            /\ relays' = relays \cup {[key |-> k, g |-> ab[k].rwg, born |-> cx[k].gen, st |-> "new", w |-> 0]}
            /\ cx' = [cx EXCEPT ![k].relayChk = TRUE, ![k].relaySpawned = TRUE]
       ELSE /\ cx' = [cx EXCEPT ![k].relayChk = TRUE]
            /\ UNCHANGED <<grp, relays>>
  /\ UNCHANGED <<inbox, req, ab, cb, wbuf, mainBusy, keepAlive, stdinClosed, eof, exited, crashed, usedKeys, ncb, opAfterDispose>>

\* Cancel() on the context of k: <<new cx[k], generation to wait for (0 = none)>>
CancelCtx(k) ==
  IF cx[k].disposed \/ cx[k].phase = "idle" THEN <<cx[k], 0>>
  ELSE <<[cx[k] EXCEPT !.cancelFlag = TRUE], cx[k].gen>>

BuildGone(k, g) == cx[k].gen # g \/ cx[k].phase = "idle"

\* the relay goroutine: activeBuild.ctx.Cancel()
RelayRun(r) ==
  /\ Alive /\ r \in relays /\ r.st = "new"
  /\ IF RelayUnsafe /\ ~ab[r.key].hasCtx
       THEN /\ crashed' = TRUE                       \* nil dereference: "dispose" cleared the pointer
            /\ UNCHANGED <<cx, relays>>
       ELSE /\ cx' = [cx EXCEPT ![r.key] = CancelCtx(r.key)[1]]
            /\ relays' = (relays \ {r}) \cup {[r EXCEPT !.st = "wait", !.w = CancelCtx(r.key)[2]]}
            /\ UNCHANGED crashed
  /\ UNCHANGED <<inbox, req, ab, cb, wbuf, mainBusy, keepAlive, stdinClosed, eof, exited, grp, usedKeys, ncb, opAfterDispose>>

RelayDone(r) ==
  /\ Alive /\ r \in relays /\ r.st = "wait"
  /\ r.w = 0 \/ BuildGone(r.key, r.w)
  /\ relays' = relays \ {r}
  /\ grp' = [grp EXCEPT ![r.g] = @ - 1]
  /\ UNCHANGED <<inbox, req, ab, cx, cb, wbuf, mainBusy, keepAlive, stdinClosed, eof, exited, crashed, usedKeys, ncb, opAfterDispose>>

\* the plugin proxy asks the client: on-start (once per build, in parallel
\* with the relay check), on-resolve / on-load (any number while scanning),
\* on-end (context builds, if the client has on-end callbacks or a rebuild
\* request is in progress)
SendOnStart(k) ==
  /\ Alive /\ cx[k].phase = "start" /\ cx[k].startCb = "todo" /\ wbuf = NoPkt
  /\ wbuf' = CbPkt("on-start", k, None)
  /\ cx' = [cx EXCEPT ![k].startCb = "sent"]
  /\ keepAlive' = keepAlive + 1
  /\ UNCHANGED <<inbox, req, ab, cb, mainBusy, stdinClosed, eof, exited, crashed, relays, grp, usedKeys, ncb, opAfterDispose>>

\* the on-start barrier (ScanBundle: onStartWaitGroup.Wait()); a build whose
\* cancel flag is set here does not scan
StartDone(k) ==
  /\ Alive /\ cx[k].phase = "start" /\ cx[k].relayChk /\ cx[k].startCb = "done"
  /\ cx' = [cx EXCEPT ![k].phase = IF cx[k].cancelFlag THEN "compile" ELSE "scan"]
  /\ UNCHANGED <<inbox, req, ab, cb, wbuf, mainBusy, keepAlive, stdinClosed, eof, exited, crashed, relays, grp, usedKeys, ncb, opAfterDispose>>

SendScanCb(k, cmd) ==
  /\ Alive /\ cx[k].phase = "scan" /\ cx[k].plug /\ cx[k].nscan < MaxScanCb /\ wbuf = NoPkt
  /\ wbuf' = CbPkt(cmd, k, None)
  /\ cx' = [cx EXCEPT ![k].out = @ + 1, ![k].nscan = @ + 1]
  /\ keepAlive' = keepAlive + 1
  /\ UNCHANGED <<inbox, req, ab, cb, mainBusy, stdinClosed, eof, exited, crashed, relays, grp, usedKeys, ncb, opAfterDispose>>

\* the scan is over when every parse goroutine has delivered its result (a
\* cancelled scan stops early but ScanBundle still drains the result channel:
\* "Always consume all unused results")
ScanDone(k) ==
  /\ Alive /\ cx[k].phase = "scan" /\ cx[k].out = 0
  /\ cx' = [cx EXCEPT ![k].phase = "compile"]
  /\ UNCHANGED <<inbox, req, ab, cb, wbuf, mainBusy, keepAlive, stdinClosed, eof, exited, crashed, relays, grp, usedKeys, ncb, opAfterDispose>>

\* rebuildImpl reads the cancel flag after compiling: the outcome is fixed.
\* ("The build was canceled" is only reported by a build without other
\* errors; whether the error of a callback that was answered after the
\* cancellation is still logged depends on where the scan stopped: "either")
Sample(k) ==
  /\ Alive /\ cx[k].phase = "compile"
  /\ cx' = [cx EXCEPT ![k].phase = "sampled",
                      ![k].outcome = IF cx[k].failed /\ cx[k].cancelFlag THEN "either"
                                     ELSE IF cx[k].failed THEN "errors" ELSE IF cx[k].cancelFlag THEN "cancelled" ELSE "ok"]
  /\ UNCHANGED <<inbox, req, ab, cb, wbuf, mainBusy, keepAlive, stdinClosed, eof, exited, crashed, relays, grp, usedKeys, ncb, opAfterDispose>>

NeedsOnEnd(k) == cx[k].isCtx /\ (cx[k].plug \/ ab[k].within > 0)

SendOnEnd(k) ==
  /\ Alive /\ cx[k].phase = "sampled" /\ NeedsOnEnd(k) /\ wbuf = NoPkt
  /\ wbuf' = CbPkt("on-end", k, None)
  /\ cx' = [cx EXCEPT ![k].phase = "end"]
  /\ keepAlive' = keepAlive + 1
  /\ UNCHANGED <<inbox, req, ab, cb, mainBusy, stdinClosed, eof, exited, crashed, relays, grp, usedKeys, ncb, opAfterDispose>>

SkipOnEnd(k) ==
  /\ Alive /\ cx[k].phase = "sampled" /\ ~NeedsOnEnd(k)
  /\ cx' = [cx EXCEPT ![k].phase = "ended"]
  /\ UNCHANGED <<inbox, req, ab, cb, wbuf, mainBusy, keepAlive, stdinClosed, eof, exited, crashed, relays, grp, usedKeys, ncb, opAfterDispose>>

\* the build is over (activeBuild = nil, waitGroup.Done()): every Rebuild()
\* call that started or joined it returns its result
BuildEnd(k) ==
  /\ Alive /\ cx[k].phase = "ended"
  /\ cx' = [cx EXCEPT ![k].phase = "idle", ![k].members = {}]
  /\ req' = [i \in Ids |-> IF i \in cx[k].members THEN [req[i] EXCEPT !.st = "returned", !.kind = cx[k].outcome, !.seen = cx[k].pays] ELSE req[i]]
  /\ UNCHANGED <<inbox, ab, cb, wbuf, mainBusy, keepAlive, stdinClosed, eof, exited, crashed, relays, grp, usedKeys, ncb, opAfterDispose>>

(***************************************************************************)
(* Handler goroutines                                                      *)
(***************************************************************************)
\* handleTransformRequest
RunTransform(i) ==
  /\ Alive /\ i \in Ids /\ req[i].cmd = "transform" /\ req[i].st = "decoded"
  \* string(request["input"].([]byte)): the goroutine reads the payload of its packet
  /\ req' = [req EXCEPT ![i].st = "finished", ![i].kind = IF req[i].bad = "" THEN "ok" ELSE "error",
                        ![i].seen = IF req[i].bad = "" THEN NonZero({req[i].pay}) ELSE {}]
  /\ UNCHANGED <<inbox, ab, cx, cb, wbuf, mainBusy, keepAlive, stdinClosed, eof, exited, crashed, relays, grp, usedKeys, ncb, opAfterDispose>>

\* handleBuildRequest up to createActiveBuild and plugin setup
RunBuild(i) ==
  /\ Alive /\ i \in Ids /\ req[i].cmd = "build" /\ req[i].st = "decoded"
  /\ LET k == req[i].key IN
     IF req[i].bad = "flags"
       THEN /\ req' = [req EXCEPT ![i].st = "finished", ![i].kind = "error"]
            /\ UNCHANGED <<ab, cx, keepAlive>>
       ELSE /\ ab' = [ab EXCEPT ![k] = [NoAB EXCEPT !.exists = TRUE, !.hasResolve = req[i].plug]]
            /\ keepAlive' = keepAlive + 1            \* createActiveBuild
            /\ IF req[i].isCtx
                 THEN /\ req' = [req EXCEPT ![i].st = "creating"]
                      /\ cx' = [cx EXCEPT ![k] = [IdleCx EXCEPT !.isCtx = TRUE, !.plug = req[i].plug, !.stdin = req[i].pay]]
                 ELSE /\ req' = [req EXCEPT ![i].st = "running"]
                      /\ cx' = [cx EXCEPT ![k] = [StartBuild(k, i, FALSE, req[i].plug) EXCEPT !.stdin = req[i].pay, !.pays = NonZero({req[i].pay})]]
  /\ UNCHANGED <<inbox, cb, wbuf, mainBusy, stdinClosed, eof, exited, crashed, relays, grp, usedKeys, ncb, opAfterDispose>>

\* api.Context() returned: the context pointer is published, or the active
\* build is destroyed again
CtxCreated(i) ==
  /\ Alive /\ i \in Ids /\ req[i].st = "creating"
  /\ LET k == req[i].key IN
     IF req[i].bad = "ctx"
       THEN /\ ab' = [ab EXCEPT ![k] = NoAB]
            /\ keepAlive' = keepAlive - 1
            /\ req' = [req EXCEPT ![i].st = "finished", ![i].kind = "errors"]
       ELSE /\ ab' = [ab EXCEPT ![k].hasCtx = TRUE, ![k].refs = @ + 1]
            /\ req' = [req EXCEPT ![i].st = "finished", ![i].kind = "ok"]
            /\ UNCHANGED keepAlive
  /\ UNCHANGED <<inbox, cx, cb, wbuf, mainBusy, stdinClosed, eof, exited, crashed, relays, grp, usedKeys, ncb, opAfterDispose>>

\* api.Build() returned: destroyActiveBuild
FinishBuild(i) ==
  /\ Alive /\ i \in Ids /\ req[i].cmd = "build" /\ req[i].st = "returned"
  /\ ab' = [ab EXCEPT ![req[i].key] = NoAB]
  /\ keepAlive' = keepAlive - 1
  /\ req' = [req EXCEPT ![i].st = "finished", ![i].kind = IF req[i].kind = "ok" THEN "ok" ELSE "errors"]
  /\ UNCHANGED <<inbox, cx, cb, wbuf, mainBusy, stdinClosed, eof, exited, crashed, relays, grp, usedKeys, ncb, opAfterDispose>>

\* ctx.Rebuild(): start a build or join the active one
RunRebuild(i) ==
  /\ Alive /\ i \in Ids /\ req[i].cmd = "rebuild" /\ req[i].st = "decoded"
  /\ LET k == req[i].key IN
     /\ cx' = [cx EXCEPT ![k] = IF cx[k].phase = "idle" THEN StartBuild(k, i, TRUE, cx[k].plug)
                                ELSE [cx[k] EXCEPT !.members = @ \cup {i}]]
     /\ opAfterDispose' = (opAfterDispose \/ cx[k].disposed)
  /\ req' = [req EXCEPT ![i].st = "running"]
  /\ UNCHANGED <<inbox, ab, cb, wbuf, mainBusy, keepAlive, stdinClosed, eof, exited, crashed, relays, grp, usedKeys, ncb>>

\* the critical section after ctx.Rebuild() returned
FinishRebuild(i) ==
  /\ Alive /\ i \in Ids /\ req[i].cmd = "rebuild" /\ req[i].st = "returned"
  /\ LET k == req[i].key last == ab[k].within = 1 IN
     ab' = [ab EXCEPT ![k].within = @ - 1,
                      ![k].didGetCancel = IF last THEN FALSE ELSE @,
                      ![k].rwg = IF last THEN None ELSE @]
  /\ grp' = [grp EXCEPT ![req[i].a] = @ - 1]
  /\ req' = [req EXCEPT ![i].st = "finished"]
  /\ UNCHANGED <<inbox, cx, cb, wbuf, mainBusy, keepAlive, stdinClosed, eof, exited, crashed, relays, usedKeys, ncb, opAfterDispose>>

\* ctx.Cancel() (no dispose reference is taken: Cancel() on a disposed
\* context does nothing)
RunCancel(i) ==
  /\ Alive /\ i \in Ids /\ req[i].cmd = "cancel" /\ req[i].st = "decoded"
  /\ LET k == req[i].key IN
     /\ cx' = [cx EXCEPT ![k] = CancelCtx(k)[1]]
     /\ req' = [req EXCEPT ![i].st = "cwait", ![i].n = CancelCtx(k)[2]]
  /\ UNCHANGED <<inbox, ab, cb, wbuf, mainBusy, keepAlive, stdinClosed, eof, exited, crashed, relays, grp, usedKeys, ncb, opAfterDispose>>

\* Cancel() returned and rebuildWaitGroup.Wait() returned
FinishCancel(i) ==
  /\ Alive /\ i \in Ids /\ req[i].cmd = "cancel" /\ req[i].st = "cwait"
  /\ req[i].n = 0 \/ BuildGone(req[i].key, req[i].n)
  /\ IF req[i].a = None THEN TRUE ELSE grp[req[i].a] = 0
  /\ req' = [req EXCEPT ![i].st = "finished", ![i].kind = "ok", ![i].n = 0]
  /\ UNCHANGED <<inbox, ab, cx, cb, wbuf, mainBusy, keepAlive, stdinClosed, eof, exited, crashed, relays, grp, usedKeys, ncb, opAfterDispose>>

\* disposeWaitGroup.Done()
RunDispose(i) ==
  /\ Alive /\ i \in Ids /\ req[i].cmd = "dispose" /\ req[i].st = "decoded"
  /\ ab' = [ab EXCEPT ![req[i].key].refs = @ - 1]
  /\ req' = [req EXCEPT ![i].st = "dwait"]
  /\ UNCHANGED <<inbox, cx, cb, wbuf, mainBusy, keepAlive, stdinClosed, eof, exited, crashed, relays, grp, usedKeys, ncb, opAfterDispose>>

\* disposeWaitGroup.Wait() returned; ctx.Dispose() begins
BeginDispose(i) ==
  /\ Alive /\ i \in Ids /\ req[i].cmd = "dispose" /\ req[i].st = "dwait"
  /\ LET k == req[i].key IN
     /\ ab[k].refs = 0
     /\ cx' = [cx EXCEPT ![k].disposed = TRUE]
     /\ req' = [req EXCEPT ![i].st = "disposing", ![i].n = IF cx[k].phase = "idle" THEN 0 ELSE cx[k].gen]
  /\ UNCHANGED <<inbox, ab, cb, wbuf, mainBusy, keepAlive, stdinClosed, eof, exited, crashed, relays, grp, usedKeys, ncb, opAfterDispose>>

\* ctx.Dispose() returned; destroyActiveBuild
FinishDispose(i) ==
  /\ Alive /\ i \in Ids /\ req[i].cmd = "dispose" /\ req[i].st = "disposing"
  /\ req[i].n = 0 \/ BuildGone(req[i].key, req[i].n)
  /\ ab' = [ab EXCEPT ![req[i].key] = NoAB]
  /\ keepAlive' = keepAlive - 1
  /\ req' = [req EXCEPT ![i].st = "finished", ![i].kind = "ok", ![i].n = 0]
  /\ UNCHANGED <<inbox, cx, cb, wbuf, mainBusy, stdinClosed, eof, exited, crashed, relays, grp, usedKeys, ncb, opAfterDispose>>

\* pluginResolve: build.Resolve() may ask the client's on-resolve callbacks
RunResolve(i) ==
  /\ Alive /\ i \in Ids /\ req[i].cmd = "resolve" /\ req[i].st = "decoded"
  /\ req' = [req EXCEPT ![i].st = "running"]
  /\ opAfterDispose' = (opAfterDispose \/ (req[i].ref /\ cx[req[i].key].disposed))
  /\ UNCHANGED <<inbox, ab, cx, cb, wbuf, mainBusy, keepAlive, stdinClosed, eof, exited, crashed, relays, grp, usedKeys, ncb>>

SendNested(i) ==
  /\ Alive /\ i \in Ids /\ req[i].cmd = "resolve" /\ req[i].st = "running" /\ req[i].a + 1 < MaxNest /\ wbuf = NoPkt
  /\ wbuf' = CbPkt("on-resolve", req[i].key, i)
  /\ req' = [req EXCEPT ![i].n = @ + 1, ![i].a = @ + 1]
  /\ keepAlive' = keepAlive + 1
  /\ UNCHANGED <<inbox, ab, cx, cb, mainBusy, stdinClosed, eof, exited, crashed, relays, grp, usedKeys, ncb, opAfterDispose>>

FinishResolve(i) ==
  /\ Alive /\ i \in Ids /\ req[i].cmd = "resolve" /\ req[i].st = "running" /\ req[i].n = 0
  /\ req' = [req EXCEPT ![i].st = "finished", ![i].kind = "ok"]
  /\ UNCHANGED <<inbox, ab, cx, cb, wbuf, mainBusy, keepAlive, stdinClosed, eof, exited, crashed, relays, grp, usedKeys, ncb, opAfterDispose>>

(***************************************************************************)
(* Next-state relation                                                     *)
(***************************************************************************)
Internal ==
  \/ \E i \in Ids : \/ RecvBuild(i) \/ RecvRebuild(i) \/ RecvCancel(i) \/ RecvDispose(i) \/ RecvResolve(i) \/ RecvBogus(i)
                    \/ Respond(i)
                    \/ RunTransform(i) \/ RunBuild(i) \/ CtxCreated(i) \/ FinishBuild(i)
                    \/ RunRebuild(i) \/ FinishRebuild(i)
                    \/ RunCancel(i) \/ FinishCancel(i)
                    \/ RunDispose(i) \/ BeginDispose(i) \/ FinishDispose(i)
                    \/ RunResolve(i) \/ SendNested(i) \/ FinishResolve(i)
  \/ \E m \in DOMAIN cb : RecvResponse(m)
  \/ MainHandoff \/ MainEOF
  \/ \E k \in Keys : \/ RelayCheck(k) \/ SendOnStart(k) \/ StartDone(k)
                     \/ SendScanCb(k, "on-resolve") \/ SendScanCb(k, "on-load") \/ ScanDone(k)
                     \/ Sample(k) \/ SendOnEnd(k) \/ SkipOnEnd(k) \/ BuildEnd(k)
  \/ \E r \in relays : RelayRun(r) \/ RelayDone(r)

ClientSend ==
  /\ Cardinality(Ids) < MaxReq
  /\ \E cmd \in Cmds, k \in Keys, isCtx \in BOOLEAN, plug \in Plugs, bad \in Bads :
       /\ cmd # "build" => (k \in usedKeys /\ ~isCtx /\ plug = (CHOOSE p \in Plugs : TRUE))
       /\ (Polite /\ cmd \in {"rebuild", "cancel", "dispose", "resolve"}) =>
             \E b \in Ids : req[b].cmd = "build" /\ req[b].key = k /\ req[b].st = "responded"
       /\ cmd \notin {"build", "transform"} => bad = ""
       /\ cmd = "transform" => ~isCtx /\ bad # "ctx" /\ k = CHOOSE kk \in Keys : TRUE
       /\ (cmd = "build" /\ ~isCtx) => bad # "ctx"
       \* every transform / build carries a payload of its own (identity: id + 1)
       /\ Send(Cardinality(Ids), cmd, k, isCtx, plug, bad, IF cmd \in {"build", "transform"} THEN Cardinality(Ids) + 1 ELSE 0)

\* every on-load answer carries contents of its own (identity: 100 + callback id)
ClientAnswer == \E m \in DOMAIN cb, err \in BOOLEAN : Answer(m, err, IF cb[m].cmd = "on-load" /\ ~err THEN 100 + m ELSE 0)

Next ==
  \/ Internal
  \/ WriterStep(ncb)
  \/ Ping(ncb)
  \/ Exit
  \/ ClientSend
  \/ ClientAnswer
  \/ (MayClose /\ CloseStdin)

Spec == Init /\ [][Next]_vars

\* fairness: the service's goroutines run; the client answers what it is
\* asked (while it can)
FairSpec == Spec /\ WF_vars(Internal) /\ WF_vars(WriterStep(ncb)) /\ WF_vars(Exit) /\ WF_vars(ClientAnswer)

(***************************************************************************)
(* Properties                                                              *)
(***************************************************************************)
ReqStates == {"inbox", "decoded", "creating", "running", "returned", "cwait", "dwait", "disposing",
              "finished", "mainsend", "handed", "responded"}

TypeOK ==
  /\ \A i \in Ids : req[i].st \in ReqStates /\ req[i].key \in Keys
  /\ \A k \in Keys : /\ ab[k].within >= 0 /\ ab[k].refs >= 0
                     /\ cx[k].phase \in {"idle", "start", "scan", "compile", "sampled", "end", "ended"}
                     /\ cx[k].out >= 0
  /\ \A g \in DOMAIN grp : grp[g] >= 0
  /\ wbuf.t \in {"none", "resp", "creq"}

\* every request gets at most one response (nw = number of responses written
\* to stdout for the request) ...
AtMostOneResponse ==
  \A i \in Ids : req[i].nw <= 1 /\ (req[i].nw = 1 <=> req[i].st = "responded")
\* ... and the packet the writer holds carries the id of a request that is
\* waiting for exactly this packet (RespPkt(i) is built from the handler's own p.id)
ResponseCarriesOwnId ==
  /\ wbuf.t = "resp" => (wbuf.id \in Ids /\ req[wbuf.id].st = "handed")
  /\ \A i \in Ids : req[i].st = "handed" => wbuf = RespPkt(i)
  /\ mainBusy # None => (mainBusy \in Ids /\ req[mainBusy].st = "mainsend")
  /\ \A i \in Ids : req[i].st \in {"handed", "responded"} => req[i].kind # ""

\* the disposeWaitGroup idiom: no operation on a context starts after its
\* Dispose() began (Cancel() takes no reference: on a disposed context it is a no-op)
DisposeLast == ~opAfterDispose
\* ... and a disposed context is never building once Dispose() returned
DisposedIsQuiet ==
  \A i \in Ids : (req[i].cmd = "dispose" /\ req[i].st \in {"finished", "handed", "responded"} /\ req[i].kind = "ok" /\ cx[req[i].key].disposed)
                   => cx[req[i].key].phase = "idle"

\* a cancel decoded after a rebuild covers that rebuild even if the
\* goroutines run in the other order: a build started by a rebuild that had
\* been decoded but was not yet running when a cancel was decoded spawns the relay
CancelCoversEarlierRebuild ==
  \A k \in Keys :
    (cx[k].phase # "idle" /\ cx[k].isCtx /\ cx[k].relayChk /\ cx[k].starter # None
       /\ \E c \in Ids : req[c].cmd = "cancel" /\ req[c].key = k /\ cx[k].starter \in req[c].pend)
    => cx[k].relaySpawned
\* ... and the cancel responds only after every rebuild that was in
\* progress when it was decoded has returned, and after every relay of its group
CancelWaitsForRebuilds ==
  \A c \in Ids : (req[c].cmd = "cancel" /\ req[c].st \in {"finished", "handed", "responded"}) =>
     /\ \A r \in req[c].within : req[r].st \in {"finished", "handed", "responded"}
     /\ req[c].a # None => ~\E r \in relays : r.g = req[c].a

\* every plugin callback request belongs to a build in progress (between its
\* on-start barrier and the end of its scan; on-end after the outcome is
\* fixed) or to a "resolve" request in progress
CallbacksWithinBuild ==
  \A m \in DOMAIN cb : (cb[m].st # "done" /\ cb[m].cmd # "ping") =>
     IF cb[m].owner # None THEN req[cb[m].owner].st = "running"
     ELSE cx[cb[m].key].phase = (CASE cb[m].cmd = "on-start" -> "start" [] cb[m].cmd = "on-end" -> "end" [] OTHER -> "scan")

\* A result is computed from the request's own payload, never from another
\* request's: a transform from its own input; a build from the stdin contents
\* of its own "build" request and the contents of on-load answers for its key
Answered(i) == req[i].st \in {"finished", "handed", "responded"}
PayloadIntegrity ==
  \A i \in Ids : Answered(i) =>
     IF req[i].cmd = "transform" THEN req[i].seen = (IF req[i].kind = "ok" THEN NonZero({req[i].pay}) ELSE {})
     ELSE req[i].seen \subseteq NonZero({cx[req[i].key].stdin} \cup {cb[m].pay : m \in {mm \in DOMAIN cb : cb[mm].key = req[i].key /\ cb[mm].cmd = "on-load"}})

KeepAliveNonNegative == keepAlive >= 0
\* what the keep-alive counter is for
KeepAliveCounts ==
  Alive => keepAlive = (IF eof THEN 0 ELSE 1)
                       + (IF wbuf.t # "none" THEN 1 ELSE 0)
                       + Cardinality({i \in Ids : req[i].st \in {"decoded", "creating", "running", "returned", "cwait", "dwait", "disposing", "finished"}})
                       + Cardinality({k \in Keys : ab[k].exists})
NoWriteAfterExit ==
  exited => /\ wbuf = NoPkt /\ mainBusy = None /\ inbox = <<>>
            /\ \A i \in Ids : req[i].st = "responded"
NoCrash == ~crashed

\* liveness (FairSpec): every request is answered unless stdin was closed
\* (or the process died); after stdin was closed the process exits unless a
\* request of the service is left unanswered
EveryRequestAnswered ==
  \A i \in 0..(MaxReq - 1) : (i \in Ids) ~> ((i \in Ids /\ req[i].st = "responded") \/ stdinClosed \/ crashed)
\* The process leaves only when the keep-alive counter reaches zero: a
\* request of the service that can no longer be answered, or a context that
\* was never disposed, keeps it alive for ever (ExitAfterCloseStrong is
\* violated: see known_findings.jsonl)
Unanswerable == \E m \in DOMAIN cb : cb[m].st = "written" /\ cb[m].cmd # "ping"
LiveContext == \E k \in Keys : ab[k].exists /\ cx[k].isCtx
ExitAfterClose == stdinClosed ~> (exited \/ crashed \/ Unanswerable \/ LiveContext)
ExitAfterCloseStrong == stdinClosed ~> (exited \/ crashed)
=============================================================================
