------------------------------- MODULE Tokens -------------------------------
(***************************************************************************)
(* C16 part (ii)(a): every string of at most `len` tokens over the         *)
(* alphabet of a language, inside every frame and joined with every        *)
(* separator that the plan lists for that language.                        *)
(*                                                                         *)
(* State = (plan entry, frame, separator, token indices); one action       *)
(* appends one token.  The reachable states ARE the inputs.  Each distinct *)
(* state is exported once, compactly (indices); the harness renders it     *)
(* with the alphabets that the same run exports in its header record.      *)
(*                                                                         *)
(* `tail`: the Append action has no guard other than the length bound, so  *)
(* the last `tail` levels of the breadth-first search are a plain product  *)
(* with the alphabet.  A plan entry with tail = k lets TLC explore the     *)
(* machine to depth len - k only (the "stems") and leaves the product of   *)
(* each exported stem of length len - k with all token strings of length   *)
(* 1..k to the harness.  Expand(stems, k) below is that product, written   *)
(* out; PlanCross (TokensMC) explores the same language with tail 0, 1, 2  *)
(* and the harness checks on every run that its expansion yields exactly   *)
(* the tail-0 state set (and TLC checks ExpandOK on a small instance).     *)
(* TLC throughput on the shared machine (~4 000 states/s) is what forces   *)
(* this: 10^5..10^6 inputs per run are wanted.                             *)
(***************************************************************************)
EXTENDS TokensAlphabet, FiniteSets, TLC, Json

CONSTANTS Plan      \* sequence of [lang, frames (set of indices), seps (set of strings), len, tail]

VARIABLES p, frame, sep, toks,
          n, bound   \* alphabet size and stem length of entry p (constant along a behaviour; kept in
                     \* the state because TLC re-evaluates Plan on every use outside of actions)
vars == <<p, frame, sep, toks, n, bound>>

A(q) == Alphabet(Plan[q].lang)
StemLen(q) == Plan[q].len - Plan[q].tail
LangsUsed == {Plan[q].lang : q \in 1..Len(Plan)}

ASSUME /\ \A q \in 1..Len(Plan) :
            /\ Plan[q].len \in Nat /\ Plan[q].tail \in 0..Plan[q].len
            /\ Plan[q].frames \subseteq 1..Len(Frames(Plan[q].lang)) /\ Plan[q].frames # {}
            /\ Plan[q].seps # {}
       \* no alphabet has a duplicate token (so distinct states are distinct inputs)
       /\ \A l \in LangsUsed : \A i, j \in 1..Len(Alphabet(l)) : i # j => Alphabet(l)[i] # Alphabet(l)[j]
       /\ PrintT(<<"CASE", ToJson([plan |-> Plan,
                                   alphabets |-> [l \in LangsUsed |-> Alphabet(l)],
                                   frames |-> [l \in LangsUsed |-> Frames(l)]])>>)

Init == /\ p \in 1..Len(Plan)
        /\ frame \in Plan[p].frames /\ sep \in Plan[p].seps
        /\ toks = <<>>
        /\ n = Len(A(p)) /\ bound = StemLen(p)

AppendTok(t) ==
  /\ Len(toks) < bound
  /\ toks' = toks \o <<t>>
  /\ UNCHANGED <<p, frame, sep, n, bound>>

Next == \E t \in 1..n : AppendTok(t)
Spec == Init /\ [][Next]_vars

(* ---------------------------------------------------------------- checks *)
TypeOK == /\ p \in Nat /\ frame \in Nat /\ sep \in STRING
          /\ toks \in Seq(1..n)
Bounded == Len(toks) <= bound
(* the cached bounds are those of the plan entry (evaluated on initial states only: cheap) *)
BoundsOK == (toks = <<>>) => /\ p \in 1..Len(Plan) /\ frame \in Plan[p].frames /\ sep \in Plan[p].seps
                            /\ n = Len(A(p)) /\ bound = StemLen(p)
(* a string only ever grows at its end, by one token, within one plan entry *)
PrefixClosed == [][/\ SubSeq(toks', 1, Len(toks)) = toks /\ Len(toks') = Len(toks) + 1
                   /\ p' = p /\ frame' = frame /\ sep' = sep]_vars

(* the product the harness performs for an entry with tail = k *)
Strs(nn, k) == UNION {[1..m -> 1..nn] : m \in 0..k}
Expand(stem, nn, stemLen, k) == IF Len(stem) < stemLen THEN {stem} ELSE {stem \o s : s \in Strs(nn, k)}
(* ... yields exactly the strings of at most len tokens: checked by TLC at constant level for the
   small instance ExpandCheckN/ExpandCheckLen (all three tails) *)
ExpandOK(nn, len) ==
  \A k \in 0..len :
     UNION {Expand(stem, nn, len - k, k) : stem \in Strs(nn, len - k)} = Strs(nn, len)

(* export: evaluated once per distinct state *)
Export == PrintT(<<"CASE", ToJson([p |-> p, f |-> frame, s |-> sep, t |-> toks])>>)
=============================================================================
