------------------------------ MODULE JsLiteral ------------------------------
(***************************************************************************)
(* Literal alphabets of JavaScript (ECMA-262 clause 12.9): string /        *)
(* template / tagged-template bodies as sequences over CODE-UNIT CLASSES   *)
(* with an input SPELLING per element, regular-expression bodies as        *)
(* sequences of atoms, and numeric LEXICAL FORMS x magnitude classes.      *)
(*                                                                         *)
(* For strings and templates the specification predicts the VALUE (the     *)
(* UTF-16 code units: SV / TV of ECMA-262, including the <CR> and <CR><LF> *)
(* normalisation of template values); the harness cross-validates it with  *)
(* V8 on the input.  For numbers and regular expressions the spec only     *)
(* enumerates the forms: TLA+ has no floats, values are judged by V8       *)
(* (DESIGN.md section 6).                                                  *)
(***************************************************************************)
EXTENDS Integers, Sequences, FiniteSets, TLC

(* class record: units, and the escaped spellings ("" = spelling not available).                     *)
(* The classes split the code units wherever the value of a NEIGHBOURING unit can matter to a printer *)
(* or a lexer: NUL and what follows it (an octal digit, 8/9, the neighbours `/` and `:` of the digit  *)
(* range, anything else, the end), the pieces `<` `/` `script` of the HTML end tag in three letter    *)
(* cases and a near miss, `$` and `{`, CR and LF, the quote characters, the C0 controls with their    *)
(* own short escapes, the 0xFF/0x100 boundary of `\xHH`, both ends of both surrogate ranges and their *)
(* outer neighbours, U+FEFF/U+FFFF, the first and last astral code point, and the text `use strict`.  *)
Cls(n, u, bs, named, x, uu, ub, oct, rawOK) ==
  [name |-> n, units |-> u, bs |-> bs, named |-> named, x |-> x, u |-> uu, ub |-> ub, oct |-> oct, rawOK |-> rawOK]

Classes == {
  Cls("letter", <<97>>,  "",     "",    "\\x61", "\\u0061", "\\u{61}", "\\141", TRUE),
  Cls("squote", <<39>>,  "\\'",  "",    "\\x27", "\\u0027", "\\u{27}", "\\047", TRUE),
  Cls("dquote", <<34>>,  "\\\"", "",    "\\x22", "\\u0022", "\\u{22}", "\\042", TRUE),
  Cls("btick",  <<96>>,  "\\`",  "",    "\\x60", "\\u0060", "\\u{60}", "\\140", TRUE),
  Cls("bslash", <<92>>,  "\\\\", "",    "\\x5C", "\\u005C", "\\u{5c}", "\\134", FALSE),
  Cls("dollar", <<36>>,  "\\$",  "",    "\\x24", "\\u0024", "\\u{24}", "\\044", TRUE),
  Cls("lbrace", <<123>>, "\\{",  "",    "\\x7B", "\\u007B", "\\u{7B}", "\\173", TRUE),
  Cls("lf",     <<10>>,  "",     "\\n", "\\x0A", "\\u000A", "\\u{A}",  "\\012", TRUE),
  Cls("cr",     <<13>>,  "",     "\\r", "\\x0D", "\\u000D", "\\u{D}",  "\\015", TRUE),
  Cls("ls",     <<8232>>, "",    "",    "",      "\\u2028", "\\u{2028}", "", TRUE),
  Cls("ps",     <<8233>>, "",    "",    "",      "\\u2029", "\\u{2029}", "", TRUE),
  Cls("nul",    <<0>>,   "\\0",  "",    "\\x00", "\\u0000", "\\u{0}",  "\\000", TRUE),
  Cls("d0",     <<48>>,  "",     "",    "\\x30", "\\u0030", "\\u{30}", "\\060", TRUE),
  Cls("d7",     <<55>>,  "",     "",    "\\x37", "\\u0037", "\\u{37}", "\\067", TRUE),
  Cls("d8",     <<56>>,  "",     "",    "\\x38", "\\u0038", "\\u{38}", "\\8",   TRUE),
  Cls("d9",     <<57>>,  "",     "",    "\\x39", "\\u0039", "\\u{39}", "\\9",   TRUE),
  Cls("slash",  <<47>>,  "\\/",  "",    "\\x2F", "\\u002F", "\\u{2f}", "\\057", TRUE),
  Cls("colon",  <<58>>,  "",     "",    "\\x3A", "\\u003A", "\\u{3a}", "\\072", TRUE),
  Cls("lt",     <<60>>,  "",     "",    "\\x3C", "\\u003C", "\\u{3C}", "\\074", TRUE),
  Cls("scr",    <<115, 99, 114, 105, 112, 116>>, "", "", "\\x73cript", "\\u0073cript", "\\u{73}cript", "\\163cript", TRUE),
  Cls("scrU",   <<83, 67, 82, 73, 80, 84>>,      "", "", "\\x53CRIPT", "\\u0053CRIPT", "\\u{53}CRIPT", "\\123CRIPT", TRUE),
  Cls("scrM",   <<115, 99, 114, 73, 112, 84>>,   "", "", "\\x73crIpT", "\\u0073crIpT", "\\u{73}crIpT", "\\163crIpT", TRUE),
  Cls("scrip",  <<115, 99, 114, 105, 112>>,      "", "", "\\x73crip",  "\\u0073crip",  "\\u{73}crip",  "\\163crip",  TRUE),
  Cls("script", <<60, 47, 115, 99, 114, 105, 112, 116>>, "", "", "\\x3C/script", "\\u003C/script", "\\u{3C}/script", "\\074/script", TRUE),
  Cls("bel",    <<7>>,   "",     "",    "\\x07", "\\u0007", "\\u{7}",  "\\007", TRUE),
  Cls("bsp",    <<8>>,   "",     "\\b", "\\x08", "\\u0008", "\\u{8}",  "\\010", TRUE),
  Cls("tab",    <<9>>,   "",     "\\t", "\\x09", "\\u0009", "\\u{9}",  "\\011", TRUE),
  Cls("vt",     <<11>>,  "",     "\\v", "\\x0B", "\\u000B", "\\u{b}",  "\\013", TRUE),
  Cls("ff",     <<12>>,  "",     "\\f", "\\x0C", "\\u000C", "\\u{C}",  "\\014", TRUE),
  Cls("esc",    <<27>>,  "",     "",    "\\x1B", "\\u001B", "\\u{1b}", "\\033", TRUE),
  Cls("del",    <<127>>, "",     "",    "\\x7F", "\\u007F", "\\u{7F}", "\\177", TRUE),
  Cls("c1",     <<133>>, "",     "",    "\\x85", "\\u0085", "\\u{85}", "\\205", TRUE),
  Cls("nbsp",   <<160>>, "",     "",    "\\xA0", "\\u00A0", "\\u{A0}", "\\240", TRUE),
  Cls("latin1", <<233>>, "",     "",    "\\xE9", "\\u00E9", "\\u{E9}", "\\351", TRUE),
  Cls("xff",    <<255>>, "",     "",    "\\xFF", "\\u00FF", "\\u{FF}", "\\377", TRUE),
  Cls("x100",   <<256>>, "",     "",    "",      "\\u0100", "\\u{100}", "", TRUE),
  Cls("bmp",    <<20013>>, "",   "",    "",      "\\u4E2D", "\\u{4e2d}", "", TRUE),
  Cls("feff",   <<65279>>, "",   "",    "",      "\\uFEFF", "\\u{FEFF}", "", TRUE),
  Cls("ffff",   <<65535>>, "",   "",    "",      "\\uFFFF", "\\u{FFFF}", "", TRUE),
  Cls("d7ff",   <<55295>>, "",   "",    "",      "\\uD7FF", "\\u{D7FF}", "", TRUE),
  Cls("e000",   <<57344>>, "",   "",    "",      "\\uE000", "\\u{E000}", "", TRUE),
  Cls("hisurr", <<55357>>, "",   "",    "",      "\\uD83D", "\\u{D83D}", "", FALSE),
  Cls("hismin", <<55296>>, "",   "",    "",      "\\uD800", "\\u{D800}", "", FALSE),
  Cls("hismax", <<56319>>, "",   "",    "",      "\\uDBFF", "\\u{DBFF}", "", FALSE),
  Cls("losurr", <<56832>>, "",   "",    "",      "\\uDE00", "\\u{DE00}", "", FALSE),
  Cls("losmin", <<56320>>, "",   "",    "",      "\\uDC00", "\\u{DC00}", "", FALSE),
  Cls("losmax", <<57343>>, "",   "",    "",      "\\uDFFF", "\\u{DFFF}", "", FALSE),
  Cls("astral", <<55357, 56832>>, "", "", "",    "\\uD83D\\uDE00", "\\u{1F600}", "", TRUE),
  Cls("astmin", <<55296, 56320>>, "", "", "",    "\\uD800\\uDC00", "\\u{10000}", "", TRUE),
  Cls("astmax", <<56319, 57343>>, "", "", "",    "\\uDBFF\\uDFFF", "\\u{10FFFF}", "", TRUE),
  Cls("usestrict", <<117, 115, 101, 32, 115, 116, 114, 105, 99, 116>>, "", "", "\\x75se strict", "\\u0075se strict", "\\u{75}se strict", "\\165se strict", TRUE),
  Cls("linecont", <<>>,  "\\\n", "",    "",      "",        "",        "", FALSE) }

ClassNames == {c.name : c \in Classes}
ClassOf(n) == CHOOSE c \in Classes : c.name = n
Spellings == {"raw", "bs", "named", "x", "u", "ub", "oct"}
Quotes == {"sq", "dq", "tpl", "tag"}
IsTpl(q) == q \in {"tpl", "tag"}
QuoteUnit(q) == IF q = "sq" THEN 39 ELSE IF q = "dq" THEN 34 ELSE 96

(* is spelling sp of class n allowed (as a single element) inside quote kind q? *)
Allowed(n, sp, q) ==
  LET c == ClassOf(n) IN
  CASE sp = "raw" -> /\ c.rawOK
                     /\ ~(n \in {"lf", "cr"} /\ ~IsTpl(q))          \* <LF>/<CR> inside '...' or "..." (U+2028/9 are allowed since ES2019)
                     /\ ~(n = "squote" /\ q = "sq") /\ ~(n = "dquote" /\ q = "dq") /\ ~(n = "btick" /\ IsTpl(q))
    [] sp = "bs" -> c.bs # ""
    [] sp = "named" -> c.named # ""
    [] sp = "x" -> c.x # ""
    [] sp = "u" -> c.u # ""
    [] sp = "ub" -> c.ub # ""
    [] sp = "oct" -> c.oct # "" /\ ~IsTpl(q)          \* legacy octal / \8 \9: never in templates, sloppy mode only

Elem(n, sp) == <<n, sp>>
ElemsFor(q, names) == {Elem(n, sp) : n \in names, sp \in Spellings} \cap {e \in ClassNames \X Spellings : Allowed(e[1], e[2], q)}

(* does the source text of element e begin with a decimal digit? *)
StartsWithDigit(e) == e[2] = "raw" /\ e[1] \in {"d0", "d7", "d8", "d9"}

(* sequence-level restrictions:                                                                  *)
(*  - in a template a raw `$` directly followed by a raw `{` starts a substitution               *)
(*  - `\0` directly followed by an octal digit would be a longer (legacy octal) escape; followed  *)
(*    by 8 or 9 it is the legacy escape `\0` (sloppy strings only, see Goal)                      *)
SeqOK(s, q) ==
  /\ \A i \in 1..(Len(s) - 1) :
       ~(IsTpl(q) /\ s[i] = Elem("dollar", "raw") /\ s[i + 1] = Elem("lbrace", "raw"))
  /\ \A i \in 1..(Len(s) - 1) :
       (s[i] = Elem("nul", "bs") /\ StartsWithDigit(s[i + 1])) => (~IsTpl(q) /\ s[i + 1][1] \in {"d8", "d9"})

(* "sloppy": the body is only valid in sloppy-mode code (Annex B escapes) *)
Goal(s, q) ==
  IF \E i \in 1..Len(s) : s[i][2] = "oct" \/ (i < Len(s) /\ s[i] = Elem("nul", "bs") /\ StartsWithDigit(s[i + 1]))
  THEN "sloppy" ELSE "any"

(* The value: concatenated units; in templates a raw <CR> is <LF> and raw <CR><LF> is one <LF> (TV) *)
RECURSIVE UnitsOf(_, _, _)
UnitsOf(s, q, i) ==
  IF i > Len(s) THEN <<>>
  ELSE IF IsTpl(q) /\ s[i] = Elem("cr", "raw") THEN
         IF i < Len(s) /\ s[i + 1] = Elem("lf", "raw") THEN <<10>> \o UnitsOf(s, q, i + 2)
         ELSE <<10>> \o UnitsOf(s, q, i + 1)
  ELSE ClassOf(s[i][1]).units \o UnitsOf(s, q, i + 1)

(* the source spelling: pieces of ASCII text or raw code units (the harness encodes raw units as UTF-8) *)
Piece(e) ==
  LET c == ClassOf(e[1]) IN
  CASE e[2] = "raw" -> [txt |-> "", raw |-> c.units]
    [] e[2] = "bs" -> [txt |-> c.bs, raw |-> <<>>]
    [] e[2] = "named" -> [txt |-> c.named, raw |-> <<>>]
    [] e[2] = "x" -> [txt |-> c.x, raw |-> <<>>]
    [] e[2] = "u" -> [txt |-> c.u, raw |-> <<>>]
    [] e[2] = "ub" -> [txt |-> c.ub, raw |-> <<>>]
    [] e[2] = "oct" -> [txt |-> c.oct, raw |-> <<>>]

(***************************************************************************)
(* Branch labels: every place where the right way to WRITE a code unit of  *)
(* the value depends on its neighbours, on the quote kind or on the counts *)
(* of the quote characters (ECMA-262 12.9.4: which escapes are legal where; *)
(* HTML: `</script`).  They are stated over the VALUE (unit sequence u)    *)
(* and the quote kind, so they hold for whatever spelling the input used.  *)
(***************************************************************************)
IsHi(x) == x \in 55296..56319
IsLo(x) == x \in 56320..57343
Lower(x) == IF x \in 65..90 THEN x + 32 ELSE x
ScriptUnits == <<115, 99, 114, 105, 112, 116>>
(* do the six units after position j spell `script` in any letter case? *)
ScriptAfter(u, j) == j + 6 <= Len(u) /\ \A k \in 1..6 : Lower(u[j + k]) = ScriptUnits[k]
UpperAfter(u, j) == \E k \in 1..6 : u[j + k] \in 65..90
At(u, j) == IF j >= 1 /\ j <= Len(u) THEN u[j] ELSE -1

UnitLabels(u, q, j) ==
  LET x == u[j] nx == At(u, j + 1) pv == At(u, j - 1) t == IF IsTpl(q) THEN "tpl" ELSE "str" IN
  (IF x = 0 THEN {IF nx = -1 THEN "nul-end" ELSE IF nx \in 48..55 THEN "nul-octdigit" ELSE IF nx \in 56..57 THEN "nul-89"
                  ELSE IF nx = 47 THEN "nul-slash" ELSE IF nx = 58 THEN "nul-colon" ELSE "nul-other"} ELSE {})
  \cup (IF x = 10 THEN {"lf-" \o t} ELSE {})
  \cup (IF x = 13 THEN {"cr-" \o t} \cup (IF nx = 10 THEN {"adj-cr-lf"} ELSE {}) ELSE {})
  \cup (IF x = 47 /\ pv = 60 THEN
          (IF ScriptAfter(u, j) THEN {"lt-slash-script-" \o t}
                                      \cup (IF UpperAfter(u, j) THEN {"lt-slash-script-uppercase"} ELSE {})
                                      \cup (IF j + 6 = Len(u) THEN {"lt-slash-script-at-end"} ELSE {"lt-slash-script-then-more"})
           ELSE {"lt-slash-nomatch"})
        ELSE IF x = 47 /\ ScriptAfter(u, j) THEN {"slash-script-without-lt"} ELSE {})
  \cup (IF x = 36 THEN {IF nx = 123 THEN "dollar-brace-" \o t ELSE IF nx = -1 THEN "dollar-end" ELSE "dollar-other"} ELSE {})
  \cup (IF x \in {39, 34, 96} THEN {IF x = QuoteUnit(q) THEN "quote-own-" \o q ELSE "quote-other"} ELSE {})
  \cup (IF x = 92 /\ nx \in {39, 34, 96} THEN {"adj-bslash-quote"} ELSE {})
  \cup (IF IsHi(x) THEN {IF nx = -1 THEN "sur-hi-end" ELSE IF IsLo(nx) THEN "adj-surrogate-pair" ELSE IF IsHi(nx) THEN "sur-hi-hi" ELSE "sur-hi-other"} ELSE {})
  \cup (IF IsLo(x) /\ ~IsHi(pv) THEN {"sur-lo-lone"} \cup (IF IsHi(nx) THEN {"sur-lo-hi"} ELSE {}) ELSE {})
  \cup (IF x \in 128..255 THEN {"unit-80-ff"} ELSE {})
  \cup (IF x > 255 /\ ~IsHi(x) /\ ~IsLo(x) THEN {"unit-above-ff"} ELSE {})

(* the three counts a printer's quote choice can depend on, as a sign pattern: *)
(* sign(#" - #'), sign(#' - #`), sign(#" - #`), where #` also counts `${`       *)
Sign(a, b) == IF a > b THEN "gt" ELSE IF a < b THEN "lt" ELSE "eq"
QuoteCost(u) ==
  LET nd == Cardinality({j \in 1..Len(u) : u[j] = 34})
      ns == Cardinality({j \in 1..Len(u) : u[j] = 39})
      nb == Cardinality({j \in 1..Len(u) : u[j] = 96 \/ (u[j] = 36 /\ At(u, j + 1) = 123)}) IN
  IF nd + ns + nb = 0 THEN {} ELSE {"qcost-" \o Sign(nd, ns) \o "-" \o Sign(ns, nb) \o "-" \o Sign(nd, nb)}

AdjLabels(s, q) ==
  LET u == UnitsOf(s, q, 1) IN
  UNION {UnitLabels(u, q, j) : j \in 1..Len(u)}
  \cup QuoteCost(u)
  \cup {"tpl-cr-normalised" : i \in {j \in 1..Len(s) : IsTpl(q) /\ s[j] = Elem("cr", "raw")}}
  \cup {"both-quotes" : i \in {j \in 1..1 : \E a, b \in 1..Len(u) : u[a] = 39 /\ u[b] = 34}}
  \cup {"legacy-nul-89" : i \in {j \in 1..(Len(s) - 1) : s[j] = Elem("nul", "bs") /\ StartsWithDigit(s[j + 1])}}
  \cup {"legacy-octal-escape" : i \in {j \in 1..Len(s) : s[j][2] = "oct"}}
BodyLabels(s, q) == ({s[i][1] : i \in 1..Len(s)} \ {"letter"}) \cup AdjLabels(s, q)

(* the directive `use strict` is recognised only when it is written without escapes *)
IsUseStrict(s) == Len(s) = 1 /\ s[1] = Elem("usestrict", "raw")

(***************************************************************************)
(* Program contexts a string / template body is placed in.  The program is *)
(*   pre <open quote> bpre BODY bpost <close quote> post                   *)
(* and the observed value is vpre \o units(BODY) \o vpost, read by `mode`:  *)
(*   str  value of x           key  the only own key of x                  *)
(*   tag  cooked/raw strings seen by the tag function                      *)
(*   dir  completion value of the script (a directive is an expression     *)
(*        statement) and whether the code after it is strict               *)
(* strict = the literal sits in strict-mode code (sloppy-only bodies are   *)
(* not placed there).  quick = used in the quick tier.                     *)
(***************************************************************************)
A14 == "aaaaaaaaaaaaaa"
U14 == [i \in 1..14 |-> 97]
LitCtx(n, qs, pre, bpre, bpost, post, vpre, vpost, mode, strict, quick) ==
  [name |-> n, quotes |-> qs, pre |-> pre, bpre |-> bpre, bpost |-> bpost, post |-> post,
   vpre |-> vpre, vpost |-> vpost, mode |-> mode, strict |-> strict, quick |-> quick]
Contexts == {
  LitCtx("expr",   {"sq", "dq", "tpl"}, "x = ", "", "", ";", <<>>, <<>>, "str", FALSE, TRUE),
  LitCtx("key",    {"sq", "dq"}, "x = {", "", "", ": 1};", <<>>, <<>>, "key", FALSE, TRUE),
  LitCtx("strict", {"sq", "dq", "tpl"}, "\"use strict\"; globalThis.x = ", "", "", ";", <<>>, <<>>, "str", TRUE, TRUE),
  \* both quote characters in the value: a printer that counts quotes is pushed to the third quote kind
  LitCtx("bothq",  {"sq", "dq"}, "x = ", "\\\"\\'", "", ";", <<34, 39>>, <<>>, "str", FALSE, TRUE),
  \* 14 letters first: with a line limit of 20 columns the wrap position falls inside the body
  LitCtx("wrap",   {"sq", "dq", "tpl"}, "x = ", A14, "", ";", U14, <<>>, "str", FALSE, TRUE),
  LitCtx("dir",    {"sq", "dq"}, "", "", "", "; var s = (function () { return this === undefined; })();", <<>>, <<>>, "dir", FALSE, TRUE),
  LitCtx("concat9", {"sq", "dq"}, "x = ", "", "", " + \"9\";", <<>>, <<57>>, "str", FALSE, TRUE),
  LitCtx("hole",   {"tpl"}, "x = ", "", "${0}", ";", <<>>, <<48>>, "str", FALSE, TRUE),
  LitCtx("tail",   {"tpl"}, "x = ", "${0}", "", ";", <<48>>, <<>>, "str", FALSE, TRUE),
  LitCtx("mid",    {"tpl"}, "x = ", "${0}", "${9}", ";", <<48>>, <<57>>, "str", FALSE, FALSE),
  LitCtx("arg",    {"sq", "dq"}, "x = String(", "", "", ", 0);", <<>>, <<>>, "str", FALSE, FALSE),
  LitCtx("clsfield", {"sq", "dq", "tpl"}, "x = class { static f = ", "", "", " }.f;", <<>>, <<>>, "str", TRUE, FALSE),
  LitCtx("clskey", {"sq", "dq"}, "x = (class { static ", "", "", " = 1 });", <<>>, <<>>, "key", TRUE, FALSE),
  LitCtx("tag",    {"tag"}, "x = tag", "", "", ";", <<>>, <<>>, "tag", FALSE, TRUE),
  LitCtx("tagstrict", {"tag"}, "\"use strict\"; globalThis.x = tag", "", "", ";", <<>>, <<>>, "tag", TRUE, FALSE) }

(***************************************************************************)
(* Regular-expression bodies: atoms (value judged by V8: source + flags).  *)
(***************************************************************************)
ReAtom(n, txt, raw, needsU) == [name |-> n, txt |-> txt, raw |-> raw, needsU |-> needsU]
ReAtoms == {
  ReAtom("letter", "a", <<>>, FALSE),
  ReAtom("esc-slash", "\\/", <<>>, FALSE),
  ReAtom("class-slash", "[/]", <<>>, FALSE),
  ReAtom("esc-bslash", "\\\\", <<>>, FALSE),
  ReAtom("esc-ls", "\\u2028", <<>>, FALSE),
  ReAtom("esc-lf", "\\n", <<>>, FALSE),
  ReAtom("raw-latin1", "", <<233>>, FALSE),
  ReAtom("raw-bmp", "", <<20013>>, FALSE),
  ReAtom("raw-astral", "", <<55357, 56832>>, FALSE),
  ReAtom("u-brace", "\\u{1F600}", <<>>, TRUE),
  ReAtom("script", "<\\/script", <<>>, FALSE),
  ReAtom("dollar", "$", <<>>, FALSE),
  ReAtom("quote", "'\"`", <<>>, FALSE),
  ReAtom("class-astral", "", <<91, 55357, 56832, 93>>, TRUE) }
ReFlags == {"", "u", "gi", "dgimsuy"}

(***************************************************************************)
(* Numeric lexical forms.  A body is <<head, tail, magnitude class>>; the  *)
(* separator form writes head "_" tail.                                    *)
(***************************************************************************)
DecBodies == {
  <<"0", "", "zero">>, <<"1", "", "small">>, <<"7", "", "small">>, <<"4", "2", "small">>, <<"25", "5", "small">>,
  <<"1", "000", "small">>, <<"65", "535", "small">>, <<"2147", "483647", "int32max">>, <<"2147", "483648", "int32over">>,
  <<"4294", "967295", "uint32max">>, <<"4294", "967296", "uint32over">>, <<"9007199", "254740991", "2^53-1">>,
  <<"9007199", "254740992", "2^53">>, <<"9007199", "254740993", "2^53+1">>, <<"123456789012", "345680000", "1e20">>,
  <<"1000", "000000000000000000", "1e21">>, <<"999999999999", "999999999999", "1e24-">>,
  <<"179769313486231570000000000000000000000000000000000000000000000000000000000000000000000000000000000000000000000000000000000000000000000000000000000000000000000000000000000000000000000000000000000000000000000000000000000000000000000000000000000000000000000000000000000000000000000000000000000000000000000000", "0", "overflow">> }
Fractions == {<<"5", "", "half">>, <<"0", "", "frac0">>, <<"000", "001", "tiny">>, <<"1", "25", "frac">>, <<"3", "", "repeating">>,
              <<"1000000000000000", "1", "sticky">>}
Exponents == {"0", "1", "+1", "-1", "21", "+21", "-7", "-6", "308", "309", "-323", "-324", "-325"}
HexBodies == {<<"0", "", "zero">>, <<"f", "f", "small">>, <<"F", "F", "small">>, <<"7fff", "ffff", "int32max">>, <<"8000", "0000", "int32over">>,
              <<"ffff", "ffff", "uint32max">>, <<"1", "00000000", "uint32over">>, <<"1fffff", "ffffffff", "2^53-1">>,
              <<"20000000", "000000", "2^53">>, <<"20000000", "000001", "2^53+1">>, <<"fffffffffffff8", "00", "huge">>}
OctBodies == {<<"0", "", "zero">>, <<"7", "", "small">>, <<"1", "7", "small">>, <<"1", "7777777777", "int32max">>, <<"2", "0000000000", "int32over">>,
              <<"4", "00000000000000000", "2^53">>}
BinBodies == {<<"0", "", "zero">>, <<"1", "", "small">>, <<"1", "01", "small">>, <<"1", "0000000000000000000000000000000", "int32over">>,
              <<"1", "1111111111111111111111111111111111111111111111111111", "2^53-1">>}
LegacyOctal == {<<"01", "7", "small">>, <<"07", "77", "small">>, <<"0", "0", "zero">>, <<"0", "1", "small">>}
LegacyDecimal == {<<"08", "9", "small">>, <<"09", "", "small">>, <<"01", "8", "small">>}

Plain(b) == b[1] \o b[2]
Sep(b) == IF b[2] = "" THEN b[1] ELSE b[1] \o "_" \o b[2]
Num(form, txt, mag, kind, goal) == [form |-> form, txt |-> txt, mag |-> mag, kind |-> kind, goal |-> goal]

NumForms ==
  {Num("dec", Plain(b), b[3], "num", "any") : b \in DecBodies}
  \cup {Num("dec-sep", Sep(b), b[3], "num", "any") : b \in {x \in DecBodies : x[2] # ""}}
  \cup {Num("dec-dot", Plain(b) \o ".", b[3], "num", "any") : b \in DecBodies}
  \cup {Num("dec-frac", Plain(b) \o "." \o Plain(f), b[3] \o "+" \o f[3], "num", "any") : b \in {x \in DecBodies : x[3] \in {"zero", "small", "2^53-1", "1e21"}}, f \in Fractions}
  \cup {Num("dec-frac-sep", Sep(b) \o "." \o Sep(f), b[3] \o "+" \o f[3], "num", "any") : b \in {x \in DecBodies : x[3] \in {"small"} /\ x[2] # ""}, f \in {y \in Fractions : y[2] # ""}}
  \cup {Num("lead-dot", "." \o Plain(f), f[3], "num", "any") : f \in Fractions}
  \cup {Num("exp", Plain(b) \o "e" \o e, b[3] \o "e" \o e, "num", "any") : b \in {x \in DecBodies : x[3] \in {"zero", "small", "2^53+1"}}, e \in Exponents}
  \cup {Num("exp-upper-frac", Plain(b) \o "." \o Plain(f) \o "E" \o e, b[3] \o "+" \o f[3] \o "E" \o e, "num", "any") :
          b \in {x \in DecBodies : x[1] \in {"1", "7"}}, f \in {y \in Fractions : y[3] \in {"half", "frac", "sticky"}}, e \in Exponents}
  \cup {Num("lead-dot-exp", "." \o Plain(f) \o "e" \o e, f[3] \o "e" \o e, "num", "any") : f \in {y \in Fractions : y[3] \in {"half", "tiny"}}, e \in Exponents}
  \cup {Num("hex", p \o Plain(b), b[3], "num", "any") : p \in {"0x", "0X"}, b \in HexBodies}
  \cup {Num("hex-sep", "0x" \o Sep(b), b[3], "num", "any") : b \in {x \in HexBodies : x[2] # ""}}
  \cup {Num("oct", p \o Plain(b), b[3], "num", "any") : p \in {"0o", "0O"}, b \in OctBodies}
  \cup {Num("oct-sep", "0o" \o Sep(b), b[3], "num", "any") : b \in {x \in OctBodies : x[2] # ""}}
  \cup {Num("bin", p \o Plain(b), b[3], "num", "any") : p \in {"0b", "0B"}, b \in BinBodies}
  \cup {Num("bin-sep", "0b" \o Sep(b), b[3], "num", "any") : b \in {x \in BinBodies : x[2] # ""}}
  \cup {Num("legacy-octal", Plain(b), b[3], "num", "sloppy") : b \in LegacyOctal}
  \cup {Num("legacy-decimal", Plain(b), b[3], "num", "sloppy") : b \in LegacyDecimal}
  \cup {Num("legacy-decimal-frac", Plain(b) \o ".5", b[3], "num", "sloppy") : b \in LegacyDecimal}
  \cup {Num("big-dec", Plain(b) \o "n", b[3], "big", "any") : b \in DecBodies}
  \cup {Num("big-dec-sep", Sep(b) \o "n", b[3], "big", "any") : b \in {x \in DecBodies : x[2] # ""}}
  \cup {Num("big-hex", "0x" \o Plain(b) \o "n", b[3], "big", "any") : b \in HexBodies}
  \cup {Num("big-oct", "0o" \o Plain(b) \o "n", b[3], "big", "any") : b \in OctBodies}
  \cup {Num("big-bin", "0b" \o Plain(b) \o "n", b[3], "big", "any") : b \in BinBodies}
  \cup {Num("big-hex-sep", "0x" \o Sep(b) \o "n", b[3], "big", "any") : b \in {x \in HexBodies : x[2] # ""}}
=============================================================================
