------------------------------ MODULE JsLiteral ------------------------------
(***************************************************************************)
(* Literal alphabets of JavaScript (ECMA-262 clause 12.9): string /        *)
(* template / tagged-template bodies as sequences over CODE-UNIT CLASSES   *)
(* with an input SPELLING per element, regular-expression bodies as        *)
(* sequences of atoms, and numeric LEXICAL FORMS x magnitude classes.      *)
(*                                                                         *)
(* For strings and templates the specification predicts the VALUE (the     *)
(* UTF-16 code units: SV / TV of ECMA-262, including the <CR> and <CR><LF> *)
(* normalisation of template values); the harness cross-validates it with  *)
(* V8 on the input.  For numbers and regular expressions the spec only     *)
(* enumerates the forms: TLA+ has no floats, values are judged by V8       *)
(* (DESIGN.md section 6).                                                  *)
(***************************************************************************)
EXTENDS Integers, Sequences, FiniteSets, TLC

(* class record: units, and the escaped spellings ("" = spelling not available) *)
Cls(n, u, bs, named, x, uu, ub, rawOK) ==
  [name |-> n, units |-> u, bs |-> bs, named |-> named, x |-> x, u |-> uu, ub |-> ub, rawOK |-> rawOK]

Classes == {
  Cls("letter", <<97>>,  "",     "",    "\\x61", "\\u0061", "\\u{61}", TRUE),
  Cls("squote", <<39>>,  "\\'",  "",    "\\x27", "\\u0027", "\\u{27}", TRUE),
  Cls("dquote", <<34>>,  "\\\"", "",    "\\x22", "\\u0022", "\\u{22}", TRUE),
  Cls("btick",  <<96>>,  "\\`",  "",    "\\x60", "\\u0060", "\\u{60}", TRUE),
  Cls("bslash", <<92>>,  "\\\\", "",    "\\x5C", "\\u005C", "\\u{5c}", FALSE),
  Cls("dollar", <<36>>,  "\\$",  "",    "\\x24", "\\u0024", "\\u{24}", TRUE),
  Cls("lbrace", <<123>>, "\\{",  "",    "\\x7B", "\\u007B", "\\u{7B}", TRUE),
  Cls("lf",     <<10>>,  "",     "\\n", "\\x0A", "\\u000A", "\\u{A}",  TRUE),
  Cls("cr",     <<13>>,  "",     "\\r", "\\x0D", "\\u000D", "\\u{D}",  TRUE),
  Cls("ls",     <<8232>>, "",    "",    "",      "\\u2028", "\\u{2028}", TRUE),
  Cls("ps",     <<8233>>, "",    "",    "",      "\\u2029", "\\u{2029}", TRUE),
  Cls("nuldigit", <<0, 49>>, "", "",    "\\x001", "\\u00001", "\\u{0}1", TRUE),
  Cls("hisurr", <<55357>>, "",   "",    "",      "\\uD83D", "\\u{D83D}", FALSE),
  Cls("losurr", <<56832>>, "",   "",    "",      "\\uDE00", "\\u{DE00}", FALSE),
  Cls("latin1", <<233>>, "",     "",    "\\xE9", "\\u00E9", "\\u{E9}", TRUE),
  Cls("bmp",    <<20013>>, "",   "",    "",      "\\u4E2D", "\\u{4e2d}", TRUE),
  Cls("astral", <<55357, 56832>>, "", "", "",    "\\uD83D\\uDE00", "\\u{1F600}", TRUE),
  Cls("script", <<60, 47, 115, 99, 114, 105, 112, 116>>, "", "", "\\x3C/script", "\\u003C/script", "\\u{3C}/script", TRUE) }

ClassNames == {c.name : c \in Classes}
ClassOf(n) == CHOOSE c \in Classes : c.name = n
Spellings == {"raw", "bs", "named", "x", "u", "ub"}
Quotes == {"sq", "dq", "tpl", "tag"}
IsTpl(q) == q \in {"tpl", "tag"}

(* is spelling sp of class n allowed (as a single element) inside quote kind q? *)
Allowed(n, sp, q) ==
  LET c == ClassOf(n) IN
  CASE sp = "raw" -> /\ c.rawOK
                     /\ ~(n \in {"lf", "cr"} /\ ~IsTpl(q))          \* LineTerminator inside '...' or "..."
                     /\ ~(n = "squote" /\ q = "sq") /\ ~(n = "dquote" /\ q = "dq") /\ ~(n = "btick" /\ IsTpl(q))
    [] sp = "bs" -> c.bs # ""
    [] sp = "named" -> c.named # ""
    [] sp = "x" -> c.x # ""
    [] sp = "u" -> TRUE
    [] sp = "ub" -> TRUE

Elem(n, sp) == <<n, sp>>
ElemsFor(q, names) == {Elem(n, sp) : n \in names, sp \in Spellings} \cap {e \in ClassNames \X Spellings : Allowed(e[1], e[2], q)}

(* sequence-level restriction: in a template a raw `$` directly followed by a raw `{` starts a substitution *)
SeqOK(s, q) ==
  \A i \in 1..(Len(s) - 1) :
    ~(IsTpl(q) /\ s[i] = Elem("dollar", "raw") /\ s[i + 1] = Elem("lbrace", "raw"))

(* The value: concatenated units; in templates a raw <CR> is <LF> and raw <CR><LF> is one <LF> (TV) *)
RECURSIVE UnitsOf(_, _, _)
UnitsOf(s, q, i) ==
  IF i > Len(s) THEN <<>>
  ELSE IF IsTpl(q) /\ s[i] = Elem("cr", "raw") THEN
         IF i < Len(s) /\ s[i + 1] = Elem("lf", "raw") THEN <<10>> \o UnitsOf(s, q, i + 2)
         ELSE <<10>> \o UnitsOf(s, q, i + 1)
  ELSE ClassOf(s[i][1]).units \o UnitsOf(s, q, i + 1)

(* the source spelling: pieces of ASCII text or raw code units (the harness encodes raw units as UTF-8) *)
Piece(e) ==
  LET c == ClassOf(e[1]) IN
  CASE e[2] = "raw" -> [txt |-> "", raw |-> c.units]
    [] e[2] = "bs" -> [txt |-> c.bs, raw |-> <<>>]
    [] e[2] = "named" -> [txt |-> c.named, raw |-> <<>>]
    [] e[2] = "x" -> [txt |-> c.x, raw |-> <<>>]
    [] e[2] = "u" -> [txt |-> c.u, raw |-> <<>>]
    [] e[2] = "ub" -> [txt |-> c.ub, raw |-> <<>>]

(* hazard labels of a body: the non-letter classes it contains and the adjacency hazards *)
AdjLabels(s, q) ==
  LET u == UnitsOf(s, q, 1) IN
  {"adj-dollar-brace" : i \in {j \in 1..(Len(u) - 1) : u[j] = 36 /\ u[j + 1] = 123}}
  \cup {"adj-nul-digit" : i \in {j \in 1..(Len(u) - 1) : u[j] = 0 /\ u[j + 1] = 49}}
  \cup {"adj-surrogate-pair" : i \in {j \in 1..(Len(u) - 1) : u[j] = 55357 /\ u[j + 1] = 56832}}
  \cup {"adj-bslash-quote" : i \in {j \in 1..(Len(u) - 1) : u[j] = 92 /\ u[j + 1] \in {39, 34, 96}}}
  \cup {"adj-cr-lf" : i \in {j \in 1..(Len(u) - 1) : u[j] = 13 /\ u[j + 1] = 10}}
  \cup {"tpl-cr-normalised" : i \in {j \in 1..Len(s) : IsTpl(q) /\ s[j] = Elem("cr", "raw")}}
  \cup {"both-quotes" : i \in {j \in 1..1 : \E a, b \in 1..Len(u) : u[a] = 39 /\ u[b] = 34}}
BodyLabels(s, q) == ({s[i][1] : i \in 1..Len(s)} \ {"letter"}) \cup AdjLabels(s, q)

(***************************************************************************)
(* Regular-expression bodies: atoms (value judged by V8: source + flags).  *)
(***************************************************************************)
ReAtom(n, txt, raw, needsU) == [name |-> n, txt |-> txt, raw |-> raw, needsU |-> needsU]
ReAtoms == {
  ReAtom("letter", "a", <<>>, FALSE),
  ReAtom("esc-slash", "\\/", <<>>, FALSE),
  ReAtom("class-slash", "[/]", <<>>, FALSE),
  ReAtom("esc-bslash", "\\\\", <<>>, FALSE),
  ReAtom("esc-ls", "\\u2028", <<>>, FALSE),
  ReAtom("esc-lf", "\\n", <<>>, FALSE),
  ReAtom("raw-latin1", "", <<233>>, FALSE),
  ReAtom("raw-bmp", "", <<20013>>, FALSE),
  ReAtom("raw-astral", "", <<55357, 56832>>, FALSE),
  ReAtom("u-brace", "\\u{1F600}", <<>>, TRUE),
  ReAtom("script", "<\\/script", <<>>, FALSE),
  ReAtom("dollar", "$", <<>>, FALSE),
  ReAtom("quote", "'\"`", <<>>, FALSE),
  ReAtom("class-astral", "", <<91, 55357, 56832, 93>>, TRUE) }
ReFlags == {"", "u", "gi", "dgimsuy"}

(***************************************************************************)
(* Numeric lexical forms.  A body is <<head, tail, magnitude class>>; the  *)
(* separator form writes head "_" tail.                                    *)
(***************************************************************************)
DecBodies == {
  <<"0", "", "zero">>, <<"1", "", "small">>, <<"7", "", "small">>, <<"4", "2", "small">>, <<"25", "5", "small">>,
  <<"1", "000", "small">>, <<"65", "535", "small">>, <<"2147", "483647", "int32max">>, <<"2147", "483648", "int32over">>,
  <<"4294", "967295", "uint32max">>, <<"4294", "967296", "uint32over">>, <<"9007199", "254740991", "2^53-1">>,
  <<"9007199", "254740992", "2^53">>, <<"9007199", "254740993", "2^53+1">>, <<"123456789012", "345680000", "1e20">>,
  <<"1000", "000000000000000000", "1e21">>, <<"999999999999", "999999999999", "1e24-">>,
  <<"179769313486231570000000000000000000000000000000000000000000000000000000000000000000000000000000000000000000000000000000000000000000000000000000000000000000000000000000000000000000000000000000000000000000000000000000000000000000000000000000000000000000000000000000000000000000000000000000000000000000000000", "0", "overflow">> }
Fractions == {<<"5", "", "half">>, <<"0", "", "frac0">>, <<"000", "001", "tiny">>, <<"1", "25", "frac">>, <<"3", "", "repeating">>,
              <<"1000000000000000", "1", "sticky">>}
Exponents == {"0", "1", "+1", "-1", "21", "+21", "-7", "-6", "308", "309", "-323", "-324", "-325"}
HexBodies == {<<"0", "", "zero">>, <<"f", "f", "small">>, <<"F", "F", "small">>, <<"7fff", "ffff", "int32max">>, <<"8000", "0000", "int32over">>,
              <<"ffff", "ffff", "uint32max">>, <<"1", "00000000", "uint32over">>, <<"1fffff", "ffffffff", "2^53-1">>,
              <<"20000000", "000000", "2^53">>, <<"20000000", "000001", "2^53+1">>, <<"fffffffffffff8", "00", "huge">>}
OctBodies == {<<"0", "", "zero">>, <<"7", "", "small">>, <<"1", "7", "small">>, <<"1", "7777777777", "int32max">>, <<"2", "0000000000", "int32over">>,
              <<"4", "00000000000000000", "2^53">>}
BinBodies == {<<"0", "", "zero">>, <<"1", "", "small">>, <<"1", "01", "small">>, <<"1", "0000000000000000000000000000000", "int32over">>,
              <<"1", "1111111111111111111111111111111111111111111111111111", "2^53-1">>}
LegacyOctal == {<<"01", "7", "small">>, <<"07", "77", "small">>, <<"0", "0", "zero">>, <<"0", "1", "small">>}
LegacyDecimal == {<<"08", "9", "small">>, <<"09", "", "small">>, <<"01", "8", "small">>}

Plain(b) == b[1] \o b[2]
Sep(b) == IF b[2] = "" THEN b[1] ELSE b[1] \o "_" \o b[2]
Num(form, txt, mag, kind, goal) == [form |-> form, txt |-> txt, mag |-> mag, kind |-> kind, goal |-> goal]

NumForms ==
  {Num("dec", Plain(b), b[3], "num", "any") : b \in DecBodies}
  \cup {Num("dec-sep", Sep(b), b[3], "num", "any") : b \in {x \in DecBodies : x[2] # ""}}
  \cup {Num("dec-dot", Plain(b) \o ".", b[3], "num", "any") : b \in DecBodies}
  \cup {Num("dec-frac", Plain(b) \o "." \o Plain(f), b[3] \o "+" \o f[3], "num", "any") : b \in {x \in DecBodies : x[3] \in {"zero", "small", "2^53-1", "1e21"}}, f \in Fractions}
  \cup {Num("dec-frac-sep", Sep(b) \o "." \o Sep(f), b[3] \o "+" \o f[3], "num", "any") : b \in {x \in DecBodies : x[3] \in {"small"} /\ x[2] # ""}, f \in {y \in Fractions : y[2] # ""}}
  \cup {Num("lead-dot", "." \o Plain(f), f[3], "num", "any") : f \in Fractions}
  \cup {Num("exp", Plain(b) \o "e" \o e, b[3] \o "e" \o e, "num", "any") : b \in {x \in DecBodies : x[3] \in {"zero", "small", "2^53+1"}}, e \in Exponents}
  \cup {Num("exp-upper-frac", Plain(b) \o "." \o Plain(f) \o "E" \o e, b[3] \o "+" \o f[3] \o "E" \o e, "num", "any") :
          b \in {x \in DecBodies : x[1] \in {"1", "7"}}, f \in {y \in Fractions : y[3] \in {"half", "frac", "sticky"}}, e \in Exponents}
  \cup {Num("lead-dot-exp", "." \o Plain(f) \o "e" \o e, f[3] \o "e" \o e, "num", "any") : f \in {y \in Fractions : y[3] \in {"half", "tiny"}}, e \in Exponents}
  \cup {Num("hex", p \o Plain(b), b[3], "num", "any") : p \in {"0x", "0X"}, b \in HexBodies}
  \cup {Num("hex-sep", "0x" \o Sep(b), b[3], "num", "any") : b \in {x \in HexBodies : x[2] # ""}}
  \cup {Num("oct", p \o Plain(b), b[3], "num", "any") : p \in {"0o", "0O"}, b \in OctBodies}
  \cup {Num("oct-sep", "0o" \o Sep(b), b[3], "num", "any") : b \in {x \in OctBodies : x[2] # ""}}
  \cup {Num("bin", p \o Plain(b), b[3], "num", "any") : p \in {"0b", "0B"}, b \in BinBodies}
  \cup {Num("bin-sep", "0b" \o Sep(b), b[3], "num", "any") : b \in {x \in BinBodies : x[2] # ""}}
  \cup {Num("legacy-octal", Plain(b), b[3], "num", "sloppy") : b \in LegacyOctal}
  \cup {Num("legacy-decimal", Plain(b), b[3], "num", "sloppy") : b \in LegacyDecimal}
  \cup {Num("legacy-decimal-frac", Plain(b) \o ".5", b[3], "num", "sloppy") : b \in LegacyDecimal}
  \cup {Num("big-dec", Plain(b) \o "n", b[3], "big", "any") : b \in DecBodies}
  \cup {Num("big-dec-sep", Sep(b) \o "n", b[3], "big", "any") : b \in {x \in DecBodies : x[2] # ""}}
  \cup {Num("big-hex", "0x" \o Plain(b) \o "n", b[3], "big", "any") : b \in HexBodies}
  \cup {Num("big-oct", "0o" \o Plain(b) \o "n", b[3], "big", "any") : b \in OctBodies}
  \cup {Num("big-bin", "0b" \o Plain(b) \o "n", b[3], "big", "any") : b \in BinBodies}
  \cup {Num("big-hex-sep", "0x" \o Sep(b) \o "n", b[3], "big", "any") : b \in {x \in HexBodies : x[2] # ""}}
=============================================================================
