------------------------------ MODULE LinkPar ------------------------------
(***************************************************************************)
(* The parallel compile phase of a build WITHOUT code splitting and with   *)
(* two or more entry points (internal/bundler/bundler.go Compile, the      *)
(* branch `else` of `options.CodeSplitting || len(b.entryPoints) == 1`).   *)
(*                                                                         *)
(* One linker goroutine per entry point i \in 0..N-1 runs linker.Link:     *)
(*                                                                         *)
(*   pre     scanImportsAndExports, treeShakingAndCodeSplitting,           *)
(*           computeChunks ...: writes diagnostics to the SHARED log       *)
(*   section options.ExclusiveMangleCacheUpdate(cb), called EXACTLY ONCE   *)
(*           on each of the two return paths of Link (linker.go):          *)
(*             "err": scanImportsAndExports logged an error: cb is empty   *)
(*                    ("so that we don't block other entry points")        *)
(*             "ok" : cb = mangleProps(mangleCache); mangleLocalCSS(used)  *)
(*           Compile wraps cb in serializer.Enter(i) / Leave(i)            *)
(*           (internal/helpers/serializer.go: one WaitGroup per index,     *)
(*           Enter(i) = flags[i-1].Wait() for i > 0, Leave(i) = flags[i]   *)
(*           .Done())                                                      *)
(*   post    generateChunksInParallel (its per-chunk / per-file goroutines *)
(*           write into slots indexed by chunk / part range and are joined *)
(*           by index: see JoinRule below); may write to the shared log    *)
(*                                                                         *)
(* The shared state: the mangle cache (first writer of a property fixes    *)
(* its name for everybody after it), the set of used local CSS names, the  *)
(* log.  The results are joined in entry point order (resultGroups[i]).    *)
(*                                                                         *)
(* Controlled steps (blocking gates in the real code, build tag verif):    *)
(*   Start(i)  link.start       before link(...)                           *)
(*   Arrive(i) link.excl.enter  immediately before serializer.Enter(i)     *)
(*   Leave(i)  link.excl.leave  inside the section, before Leave(i)        *)
(*   Post(i)   link.post        after Leave(i), before chunk generation    *)
(* Enter(i) (the wait of Enter(i) is over) and the log writes are steps of *)
(* the real code alone.                                                    *)
(***************************************************************************)
EXTENDS Integers, Sequences, FiniteSets, TLC

CONSTANTS
  N,            \* number of entry points = linker goroutines (>= 2)
  PropSeqs,     \* family: to-be-mangled properties of one entry point, in assignment (use count) order
  CssSeqs,      \* family: local CSS names of one entry point, in assignment order
  MaxErr,       \* at most this many linkers take the "err" path
  Presets,      \* family: initial mangle cache, a set of <<property, name>> pairs
  CssModes,     \* subset of {"plain", "minify"}: the two renaming algorithms of mangleLocalCSS
  MsgFam,       \* family: [pre |-> sort key or 0, post |-> sort key or 0] of one linker (0 = no message)
  Serializer,   \* "waitgroup" = the design | "token", "none" = what-if variants (negative controls)
  CallsFam,     \* set of numbers of section calls of one linker; {1} = the design (what-if: 0, 2)
  Control,      \* subset of {"S","A","L","P"}: the steps recorded in `hist` (the exported schedule)
  Eager         \* BOOLEAN: uncontrolled steps run to quiescence before the next controlled step

I == 0 .. N - 1
Range(s) == {s[k] : k \in 1 .. Len(s)}
AllProps == UNION {Range(s) : s \in PropSeqs} \cup UNION {{pr[1] : pr \in ps} : ps \in Presets}
NoName == -1

VARIABLES
  \* the inputs (chosen in Init, constant afterwards)
  props, css, path, preset, cssMode, msgs, calls,
  \* the goroutines
  pc,        \* [I -> "idle" | "pre" | "gate" | "wait" | "in" | "postgate" | "post" | "done" | "panic"]
  left,      \* [I -> calls of the section still to make]
  flag,      \* [I -> counter of the WaitGroup of index i]  (Serializer = "waitgroup")
  token,     \* tokens in the channel, queue: FIFO of blocked receivers (Serializer = "token")
  queue,
  \* the shared state
  cache,     \* [AllProps -> name or NoName]
  used,      \* set of used local CSS names
  log,       \* sequence of messages in arrival order
  \* results and history
  out,       \* [I -> result of linker i]  (resultGroups[i])
  exec,      \* sequence of indices in the order in which the section was entered
  hist       \* sequence of recorded steps <<kind, i>>

inputs == <<props, css, path, preset, cssMode, msgs, calls>>
vars == <<props, css, path, preset, cssMode, msgs, calls, pc, left, flag, token, queue,
          cache, used, log, out, exec, hist>>

EmptyOut == [props |-> <<>>, css |-> <<>>]

Init ==
  /\ props \in [I -> PropSeqs]
  /\ css \in [I -> CssSeqs]
  /\ path \in {f \in [I -> {"ok", "err"}] : Cardinality({i \in I : f[i] = "err"}) <= MaxErr}
  /\ preset \in Presets
  /\ cssMode \in CssModes
  /\ msgs \in [I -> MsgFam]
  /\ calls \in [I -> CallsFam]
  /\ pc = [i \in I |-> "idle"]
  /\ left = calls
  /\ flag = [i \in I |-> 1]
  /\ token = 0 /\ queue = <<>>
  /\ cache = [p \in AllProps |-> IF \E pr \in preset : pr[1] = p
                                   THEN (CHOOSE pr \in preset : pr[1] = p)[2] ELSE NoName]
  /\ used = {}
  /\ log = <<>>
  /\ out = [i \in I |-> EmptyOut]
  /\ exec = <<>>
  /\ hist = <<>>

Rec(k, i) == hist' = IF k \in Control THEN Append(hist, <<k, i>>) ELSE hist

(***************************************************************************)
(* the callback: mangleProps then mangleLocalCSS (linker.go).  Names are   *)
(* numbers (the argument of NumberToMinifiedName); plain CSS names are     *)
(* <<base, k>> (k = 1: the name itself, k >= 2: the appended counter).     *)
(***************************************************************************)
LeastFree(from, taken) ==
  CHOOSE k \in from .. from + Cardinality(taken) :
     k \notin taken /\ \A j \in from .. k - 1 : j \in taken

RECURSIVE AssignProps(_, _, _, _, _)
AssignProps(ps, c, reserved, next, acc) ==
  IF ps = <<>> THEN <<c, acc>>
  ELSE LET p == Head(ps) IN
       IF c[p] # NoName
         THEN AssignProps(Tail(ps), c, reserved, next, Append(acc, <<p, c[p]>>))   \* "don't change existing mappings"
         ELSE LET n == LeastFree(next, reserved) IN
              AssignProps(Tail(ps), [c EXCEPT ![p] = n], reserved, n + 1, Append(acc, <<p, n>>))

RECURSIVE AssignCssMin(_, _, _, _)
AssignCssMin(cs, u, next, acc) ==
  IF cs = <<>> THEN <<u, acc>>
  ELSE LET n == LeastFree(next, u) IN
       AssignCssMin(Tail(cs), u \cup {n}, n, Append(acc, <<Head(cs), n>>))

RECURSIVE AssignCssPlain(_, _, _)
AssignCssPlain(cs, u, acc) ==
  IF cs = <<>> THEN <<u, acc>>
  ELSE LET b == Head(cs)
           taken == {nm[2] : nm \in {x \in u : x[1] = b}}
           k == LeastFree(1, taken) IN
       AssignCssPlain(Tail(cs), u \cup {<<b, k>>}, Append(acc, <<b, k>>))

\* the effect of the section of linker i on <<cache, used>> and its own result
Section(i, c, u) ==
  IF path[i] = "err" THEN <<c, u, EmptyOut>>
  ELSE LET reserved == {c[p] : p \in {q \in AllProps : c[q] # NoName}}
           mp == AssignProps(props[i], c, reserved, 0, <<>>)
           mc == IF cssMode = "minify" THEN AssignCssMin(css[i], u, 0, <<>>)
                                       ELSE AssignCssPlain(css[i], u, <<>>)
       IN <<mp[1], mc[1], [props |-> mp[2], css |-> mc[2]]>>

(***************************************************************************)
(* the linker goroutine of entry point i                                   *)
(***************************************************************************)
\* quiescence: no step of the real code alone is possible
CanEnter(i) ==
  /\ pc[i] = "wait"
  /\ IF i = 0 \/ Serializer = "none" THEN TRUE
     ELSE IF Serializer = "waitgroup" THEN flag[i - 1] <= 0
     ELSE IF queue = <<>> THEN FALSE ELSE token > 0 /\ Head(queue) = i
Auto(i) == pc[i] \in {"pre", "post"} \/ CanEnter(i)
Quiet == Eager => \A j \in I : ~Auto(j)

Start(i) ==
  /\ pc[i] = "idle" /\ Quiet
  \* a segment without a log write has no shared effect: it is not a step of its own
  /\ pc' = [pc EXCEPT ![i] = IF msgs[i].pre # 0 THEN "pre" ELSE IF left[i] = 0 THEN "postgate" ELSE "gate"]
  /\ Rec("S", i)
  /\ UNCHANGED <<inputs, left, flag, token, queue, cache, used, log, out, exec>>

\* A message of sort key class 1 is logged for a file that several entry points share: every
\* linker that links the file logs the identical message.  The other messages belong to files of
\* one entry point: their sort key (file, line, column, kind, text) is theirs alone.
Msg(i, seg, k) == IF k = 1 THEN [k |-> 1, i |-> -1, seg |-> "shared"] ELSE [k |-> k * 10 + i, i |-> i, seg |-> seg]

\* the part of Link before the section (log writes), up to the link.excl.enter gate
PreRun(i) ==
  /\ pc[i] = "pre"
  /\ log' = IF msgs[i].pre # 0 THEN Append(log, Msg(i, "pre", msgs[i].pre)) ELSE log
  /\ pc' = [pc EXCEPT ![i] = IF left[i] = 0 THEN "postgate" ELSE "gate"]
  /\ UNCHANGED <<inputs, left, flag, token, queue, cache, used, out, exec, hist>>

\* the gate opens: the goroutine calls serializer.Enter(i)
Arrive(i) ==
  /\ pc[i] = "gate" /\ Quiet
  /\ pc' = [pc EXCEPT ![i] = "wait"]
  /\ queue' = IF Serializer = "token" /\ i > 0 THEN Append(queue, i) ELSE queue
  /\ Rec("A", i)
  /\ UNCHANGED <<inputs, left, flag, token, cache, used, log, out, exec>>

\* serializer.Enter(i) returns
Enter(i) ==
  /\ CanEnter(i)
  /\ pc' = [pc EXCEPT ![i] = "in"]
  /\ exec' = Append(exec, i)
  /\ token' = IF Serializer = "token" /\ i > 0 THEN token - 1 ELSE token
  /\ queue' = IF Serializer = "token" /\ i > 0 THEN Tail(queue) ELSE queue
  /\ Rec("E", i)
  /\ UNCHANGED <<inputs, left, flag, cache, used, log, out>>

\* cb ran (its effect is atomic because of Mutex below), then serializer.Leave(i)
Leave(i) ==
  /\ pc[i] = "in" /\ Quiet
  /\ (Serializer = "token") => token = 0       \* a send on the full channel blocks
  /\ LET s == Section(i, cache, used) IN
       /\ cache' = s[1] /\ used' = s[2]
       /\ out' = [out EXCEPT ![i] = s[3]]
  /\ flag' = [flag EXCEPT ![i] = @ - 1]
  /\ token' = IF Serializer = "token" THEN token + 1 ELSE token
  /\ left' = [left EXCEPT ![i] = @ - 1]
  /\ pc' = [pc EXCEPT ![i] = IF Serializer = "waitgroup" /\ flag[i] - 1 < 0 THEN "panic"   \* sync: negative WaitGroup counter
                             ELSE IF left[i] - 1 > 0 THEN "gate" ELSE "postgate"]
  /\ Rec("L", i)
  /\ UNCHANGED <<inputs, queue, log, exec>>

Post(i) ==
  /\ pc[i] = "postgate" /\ Quiet
  /\ pc' = [pc EXCEPT ![i] = IF msgs[i].post # 0 THEN "post" ELSE "done"]
  /\ Rec("P", i)
  /\ UNCHANGED <<inputs, left, flag, token, queue, cache, used, log, out, exec>>

\* generateChunksInParallel of linker i (log writes), return of link(...)
PostRun(i) ==
  /\ pc[i] = "post"
  /\ log' = IF msgs[i].post # 0 THEN Append(log, Msg(i, "post", msgs[i].post)) ELSE log
  /\ pc' = [pc EXCEPT ![i] = "done"]
  /\ UNCHANGED <<inputs, left, flag, token, queue, cache, used, out, exec, hist>>

AllDone == \A i \in I : pc[i] = "done"
Finished == AllDone /\ UNCHANGED vars       \* waitGroup.Wait() returned; the join follows

Next == (\E i \in I : Start(i) \/ PreRun(i) \/ Arrive(i) \/ Enter(i) \/ Leave(i) \/ Post(i) \/ PostRun(i)) \/ Finished
Spec == Init /\ [][Next]_vars
FairSpec == Spec /\ WF_vars(Next)

(***************************************************************************)
(* The join rules.                                                         *)
(*  - results: resultGroups[i] concatenated for i = 0..N-1 (Compile);      *)
(*    inside one linker every inner pool (per-chunk, per-part-range, per-  *)
(*    file source map data) writes slot [index] of a pre-sized slice and   *)
(*    the owner reads the slots in index order after WaitGroup.Wait():     *)
(*    a join by index is a function of the slot contents alone.            *)
(*  - diagnostics: the shared log is sorted by a key when the build ends   *)
(*    (logger.SortableMsgs, stable sort): a function of the multiset of    *)
(*    messages iff messages with equal keys are identical (KeysTotal).     *)
(***************************************************************************)
RECURSIVE JoinFrom(_)
JoinFrom(i) == IF i = N THEN <<>> ELSE <<out[i]>> \o JoinFrom(i + 1)
Joined == JoinFrom(0)

\* stable insertion sort by key
RECURSIVE InsertMsg(_, _)
InsertMsg(m, s) ==
  IF s = <<>> THEN <<m>>
  ELSE IF s[Len(s)].k <= m.k THEN Append(s, m)
  ELSE Append(InsertMsg(m, SubSeq(s, 1, Len(s) - 1)), s[Len(s)])
RECURSIVE SortMsgs(_, _)
SortMsgs(l, acc) == IF l = <<>> THEN acc ELSE SortMsgs(Tail(l), InsertMsg(Head(l), acc))
Diagnostics == SortMsgs(log, <<>>)

\* the sequential reference: the linkers run one after the other in entry point order
RECURSIVE RefFrom(_, _, _, _, _)
RefFrom(i, c, u, o, l) ==
  IF i = N THEN [cache |-> c, used |-> u, joined |-> o, log |-> l]
  ELSE LET s == Section(i, c, u)
           l1 == IF msgs[i].pre # 0 THEN Append(l, Msg(i, "pre", msgs[i].pre)) ELSE l
           l2 == IF msgs[i].post # 0 THEN Append(l1, Msg(i, "post", msgs[i].post)) ELSE l1
       IN RefFrom(i + 1, s[1], s[2], Append(o, s[3]), l2)
Ref == RefFrom(0, [p \in AllProps |-> IF \E pr \in preset : pr[1] = p
                                        THEN (CHOOSE pr \in preset : pr[1] = p)[2] ELSE NoName],
               {}, <<>>, <<>>)

AllMsgs == {Msg(i, "pre", msgs[i].pre) : i \in {j \in I : msgs[j].pre # 0}}
             \cup {Msg(i, "post", msgs[i].post) : i \in {j \in I : msgs[j].post # 0}}
KeysTotal == \A a, b \in AllMsgs : a.k = b.k => a = b   \* messages with equal sort keys are identical

(***************************************************************************)
(* Invariants                                                              *)
(***************************************************************************)
TypeOK ==
  /\ pc \in [I -> {"idle", "pre", "gate", "wait", "in", "postgate", "post", "done", "panic"}]
  /\ \A i \in I : left[i] >= 0
  /\ token \in 0 .. 1

\* at most one linker is inside the section
Mutex == Cardinality({i \in I : pc[i] = "in"}) <= 1

\* the section executions happen in entry point order, each exactly once
SerialOrder == \A k \in 1 .. Len(exec) : exec[k] = k - 1

\* sync.WaitGroup never panics
NoPanic == \A i \in I : pc[i] # "panic"

\* the final shared state and every entry point's result are functions of the inputs alone
Determinism ==
  AllDone => LET r == Ref IN
     /\ cache = r.cache
     /\ used = r.used
     /\ Joined = r.joined
     /\ KeysTotal => Diagnostics = SortMsgs(r.log, <<>>)

\* every linker gets through: no state other than the final one is a dead end
NoStuck == AllDone \/ (\E i \in I : ENABLED Start(i) \/ ENABLED PreRun(i) \/ ENABLED Arrive(i) \/ ENABLED Enter(i)
                                       \/ ENABLED Leave(i) \/ ENABLED Post(i) \/ ENABLED PostRun(i))
Termination == <>AllDone
=============================================================================
