#!/usr/bin/env python3
# Generates spec/CssVals.tla: the value grids of C12 as specification DATA (TLA+ has no string
# arithmetic, so the canonical form and the spellings of every grid point are written out here,
# computed with exact rational arithmetic).  Re-run after editing: python3 spec/gen_cssvals.py
from fractions import Fraction as F
import colorsys, itertools, os

NAMED = {(0,0,0):'black',(255,255,255):'white',(255,0,0):'red',(0,255,0):'lime',(0,0,255):'blue',(255,255,0):'yellow',
         (0,255,255):'aqua',(255,0,255):'fuchsia',(102,51,153):'rebeccapurple',(255,102,0):None}

def num(fr):
    """shortest decimal with <= 6 decimals, leading zero kept"""
    fr = F(fr)
    s = '-' if fr < 0 else ''
    fr = abs(fr)
    scaled = round(fr * 10**6)
    ip, dp = divmod(scaled, 10**6)
    d = ('%06d' % dp).rstrip('0')
    return s + str(ip) + ('.' + d if d else '') if (ip or d) else '0'

def sp(t, f=None):
    t = t.replace('\\', '\\\\').replace('"', '\\"')
    return ('SpF("%s", "%s")' % (t, f)) if f else ('Sp("%s")' % t)

entries = []   # (id, kind, canon, [spellings])

# ---- colour grid
bytes_ = [0, 102, 255]
alphas = [(F(1), 'ff', 'f'), (F(2, 5), '66', '6'), (F(0), '00', '0')]
for r, g, b in itertools.product(bytes_, repeat=3):
    for a, ah2, ah1 in alphas:
        if a == 0 and (r, g, b) != (0, 0, 0) and (r, g, b) != (255, 255, 255):
            continue
        cid = 'g%02x%02x%02x%s' % (r, g, b, ah2)
        canon = 'rgba(%d,%d,%d,%s)' % (r, g, b, num(a))
        h6 = '%02x%02x%02x' % (r, g, b)
        h3 = ''.join(c for c in h6[::2])       # all grid bytes are 00, 66, ff
        pct = lambda x: num(F(x * 100, 255)) + '%'
        sps = []
        if a == 1:
            sps += [sp('#' + h6), sp('#' + h3.upper()), sp('rgb(%d,%d,%d)' % (r, g, b)), sp('rgb(%s, %s, %s)' % (pct(r), pct(g), pct(b))),
                    sp('rgba(%d,%d,%d,1)' % (r, g, b)), sp('rgb(%d %d %d)' % (r, g, b), 'rgb-space'), sp('#' + h6 + 'ff', 'hex-alpha'),
                    sp('#' + h3 + 'f', 'hex-alpha'), sp('rgb(%d %d %d / 1)' % (r, g, b), 'rgb-space')]
            if NAMED.get((r, g, b)):
                sps.append(sp(NAMED[(r, g, b)]))
                sps.append(sp(NAMED[(r, g, b)].upper()))
        else:
            an = num(a)
            sps += [sp('rgba(%d,%d,%d,%s)' % (r, g, b, an)), sp('rgba(%d, %d, %d, %s)' % (r, g, b, an.lstrip('0') or '0')),
                    sp('rgba(%d,%d,%d,%s%%)' % (r, g, b, num(a * 100))), sp('#' + h6 + ah2, 'hex-alpha'), sp('#' + h3 + ah1, 'hex-alpha'),
                    sp('rgb(%d %d %d / %s)' % (r, g, b, an), 'rgb-space'), sp('rgb(%d %d %d / %s%%)' % (r, g, b, num(a * 100)), 'rgb-space')]
        # hsl, only where hue/saturation/lightness are whole numbers and convert back exactly
        hh, ll, ss = colorsys.rgb_to_hls(r / 255, g / 255, b / 255)
        H, S, L = round(hh * 360), round(ss * 100), round(ll * 100)
        back = colorsys.hls_to_rgb(H / 360, L / 100, S / 100)
        if abs(hh * 360 - H) < 1e-9 and abs(ss * 100 - S) < 1e-9 and abs(ll * 100 - L) < 1e-9 and all(abs(x * 255 - y) < 1e-6 for x, y in zip(back, (r, g, b))):
            if a == 1:
                sps += [sp('hsl(%d,%d%%,%d%%)' % (H, S, L)), sp('hsl(%ddeg %d%% %d%%)' % (H, S, L), 'rgb-space')]
            else:
                sps += [sp('hsla(%d,%d%%,%d%%,%s)' % (H, S, L, num(a))), sp('hsl(%d %d%% %d%% / %s)' % (H, S, L, num(a)), 'rgb-space')]
        entries.append((cid, 'color', canon, sps))

# ---- number grid: value x unit, spellings of the number
def numforms(fr):
    fr = F(fr)
    base = num(fr)
    out = {base}
    neg = fr < 0
    mag = num(abs(fr))
    sign = '-' if neg else ''
    if mag.startswith('0.'):
        out.add(sign + mag[1:])                 # .5
    out.add(sign + mag + ('0' if '.' in mag else '.0'))   # trailing zero
    out.add(sign + '0' + mag if not mag.startswith('0') else sign + '0' + mag)   # leading zero
    if not neg:
        out.add('+' + mag)
    # exponent form
    if fr != 0:
        out.add(sign + num(abs(fr) * 10) + 'e-1')
        out.add(sign + num(abs(fr) / 10) + 'E1') if (abs(fr) / 10 * 10**6).denominator == 1 else None
    return sorted(out)

vals = [F(0), F(1, 2), F(1), F(-1, 2), F(5, 4), F(10), F(1, 8), F(100), F(-3)]
units = ['px', 'em', '%']
for v in vals:
    for u in units:
        if v == 0:
            canon = '0%' if u == '%' else '0'
        else:
            canon = num(v) + u
        nid = 'n%s%s' % (num(v).replace('-', 'm').replace('.', '_'), {'px': 'px', 'em': 'em', '%': 'pc'}[u])
        sps = [sp(f + u) for f in numforms(v)]
        if v == 0 and u != '%':
            sps.append(sp('0'))
        if u != '%':
            sps.append(sp(num(v) + u.upper()))
        entries.append((nid, 'length', canon, sps))

# ---- calc trees (depth <= 2) over one unit or two, with exact results
def term(v, u):
    return num(v) + u
calcs = []
small = [F(1), F(2), F(1, 2), F(3), F(10)]
for a, b in itertools.product(small, repeat=2):
    for op in '+-':
        res = a + b if op == '+' else a - b
        calcs.append(('calc(%s %s %s)' % (term(a, 'px'), op, term(b, 'px')), {'px': res}))
for a in small:
    for k in [F(2), F(3), F(1, 2), F(4)]:
        calcs.append(('calc(%s * %s)' % (term(a, 'px'), num(k)), {'px': a * k}))
        calcs.append(('calc(%s * %s)' % (num(k), term(a, 'em')), {'em': a * k}))
        if (a / k * 10**6).denominator == 1:
            calcs.append(('calc(%s / %s)' % (term(a, 'px'), num(k)), {'px': a / k}))
for a, b, c in itertools.product([F(1), F(2), F(10)], repeat=3):
    calcs.append(('calc((%s + %s) * %s)' % (term(a, 'px'), term(b, 'px'), num(c)), {'px': (a + b) * c}))
    calcs.append(('calc(%s - (%s - %s))' % (term(a, 'px'), term(b, 'px'), term(c, 'px')), {'px': a - (b - c)}))
    calcs.append(('calc(%s - calc(%s + %s))' % (term(a * 10, '%'), term(b, 'px'), term(c, 'px')), {'%': a * 10, 'px': -(b + c)}))
    calcs.append(('calc(%s * (%s + %s))' % (num(a), term(b * 10, '%'), term(c, 'em')), {'%': a * b * 10, 'em': a * c}))
bycanon = {}
for text, lin in calcs:
    lin = {u: v for u, v in lin.items() if v != 0}
    if not lin:
        canon = '0'
    elif len(lin) == 1:
        (u, v), = lin.items()
        canon = num(v) + u
    else:
        canon = 'calc(' + '+'.join(num(lin[u]) + u for u in sorted(lin)) + ')'
    bycanon.setdefault(canon, []).append(text)
for k, (canon, texts) in enumerate(sorted(bycanon.items())):
    entries.append(('k%d' % k, 'length', canon, [sp(t) for t in sorted(set(texts))[:12]]))

out = ['------------------------------ MODULE CssVals ------------------------------',
       '(* GENERATED by spec/gen_cssvals.py - the value grids of C12 as specification data:   *)',
       '(* colours on the byte grid {0,102,255}^3 x alpha {1, 0.4, 0} in every legacy and     *)',
       '(* modern sRGB notation that is exact for them, numbers {0, .5, 1, -.5, 1.25, 10,     *)',
       '(* .125, 100, -3} x {px, em, %} in their lexical forms, and calc() trees of depth <= 2 *)',
       '(* whose value is an exact linear combination.  canon = the computed value.            *)',
       'Sp(t) == [t |-> t, f |-> {}]', 'SpF(t, f) == [t |-> t, f |-> {f}]', 'GridVals ==', '  [']
rows = []
for cid, kind, canon, sps in entries:
    rows.append('    %s |-> [kind |-> "%s", canon |-> <<"%s">>, sp |-> <<%s>>]' % (cid, kind, canon, ', '.join(sps)))
out.append(',\n'.join(rows))
out.append('  ]')
out.append('=============================================================================')
open(os.path.join(os.path.dirname(os.path.abspath(__file__)), 'CssVals.tla'), 'w').write('\n'.join(out) + '\n')
print(len(entries), 'grid values,', sum(len(e[3]) for e in entries), 'spellings')
