------------------------------ MODULE JsSyntax ------------------------------
(***************************************************************************)
(* Abstract syntax of JavaScript expressions and statement skeletons, the  *)
(* ECMA-262 precedence / associativity structure, the start-of-statement / *)
(* arrow-body / for-init restrictions and the token-gluing hazards (as     *)
(* LABELS), with three reference functions over trees:                     *)
(*                                                                         *)
(*   RenderFull(t)    fully parenthesised token sequence                   *)
(*   RenderMin(t,c)   minimal-parenthesis token sequence in context c      *)
(*   Read(ts,c)       precedence-climbing reader of a token sequence       *)
(*   Sexp(t)          the normal form shared with node/acorn_parse.js      *)
(*                                                                         *)
(* The tables are transcribed from ECMA-262 (2023) clauses 13-14, NOT from *)
(* esbuild.  TLC checks Read(RenderMin(t,c),c) = t on every enumerated     *)
(* tree (JsSyntaxGen), which validates the tables against each other; the  *)
(* harness additionally cross-validates Sexp(t) against acorn on both      *)
(* renderings (SPEC-DRIFT if they disagree).                               *)
(*                                                                         *)
(* Trees are tuples whose first element is the node kind:                  *)
(*   <<"id",n>> <<"num",txt>> <<"str">> <<"re">> <<"tpl">> <<"fn">>        *)
(*   <<"afn">> <<"cls">> <<"obj0">> <<"this">>                             *)
(*   <<"obj",e>> {k:e}   <<"arr",e>> [e]   <<"sparr",e>> [...e]            *)
(*   <<"bin",op,l,r>> <<"asg",op,l,r>> <<"cond",a,b,c>> <<"seq",l,r>>      *)
(*   <<"un",op,e>> <<"upd",op,"pre"|"post",e>> <<"await",e>>               *)
(*   <<"yield",e>> <<"yield*",e>> <<"yield0">>                             *)
(*   <<"new0",c>> new c     <<"new",c,a>> new c(a)                         *)
(*   <<"call",c,a,oc>> c(a) <<"callsp",c,a>> c(...a)                       *)
(*   <<"dot",o,name,oc>> <<"idx",o,e,oc>> <<"tag",f>> f`t`                 *)
(*   <<"arrow","-"|"a",body>>  () => body / async () => body               *)
(* oc (optional chain): "no" | "start" (?.) | "cont" (plain link that      *)
(* continues an unparenthesised chain).                                    *)
(***************************************************************************)
EXTENDS Integers, Sequences, FiniteSets, TLC

(***************************************************************************)
(* Levels.  Below LUpdate the ECMA-262 productions are totally ordered     *)
(* (Expression > AssignmentExpression > ConditionalExpression > ShortCircuit*)
(* > ... > ExponentiationExpression > UnaryExpression > UpdateExpression > *)
(* LeftHandSideExpression).  LeftHandSideExpression is NOT ordered: it is  *)
(* NewExpression | CallExpression | OptionalExpression, described by Class.*)
(***************************************************************************)
LComma   == 1
LAssign  == 2   \* AssignmentExpression: = op=, yield, arrow, async arrow
LCond    == 3
LNullish == 4   \* CoalesceExpression (cannot mix with || && without parens)
LOr      == 5
LAnd     == 6
LBitOr   == 7
LBitXor  == 8
LBitAnd  == 9
LEq      == 10
LRel     == 11
LShift   == 12
LAdd     == 13
LMul     == 14
LExp     == 15  \* right associative; left operand is an UpdateExpression
LUnary   == 16
LUpdate  == 17
LLhs     == 18  \* any LeftHandSideExpression (classes below)

BinLevel(op) ==
  CASE op = "??" -> LNullish
    [] op = "||" -> LOr
    [] op = "&&" -> LAnd
    [] op = "|" -> LBitOr
    [] op = "^" -> LBitXor
    [] op = "&" -> LBitAnd
    [] op \in {"==", "!=", "===", "!=="} -> LEq
    [] op \in {"<", ">", "<=", ">=", "in", "instanceof"} -> LRel
    [] op \in {"<<", ">>", ">>>"} -> LShift
    [] op \in {"+", "-"} -> LAdd
    [] op \in {"*", "/", "%"} -> LMul
    [] op = "**" -> LExp

BinOps == {"??", "||", "&&", "|", "^", "&", "==", "!=", "===", "!==", "<", ">", "<=", ">=", "in",
           "instanceof", "<<", ">>", ">>>", "+", "-", "*", "/", "%", "**"}
AsgOps == {"=", "+=", "-=", "*=", "/=", "%=", "**=", "<<=", ">>=", ">>>=", "&=", "|=", "^=", "&&=", "||=", "??="}
UnOps  == {"-", "+", "!", "~", "typeof", "void", "delete"}
UpdOps == {"++", "--"}

Kind(t) == t[1]
LeafKinds == {"id", "num", "str", "re", "tpl", "fn", "afn", "cls", "obj0", "this", "yield0"}
IsLeaf(t) == Kind(t) \in LeafKinds

(* children of a node, in source order *)
Kids(t) ==
  CASE Kind(t) \in LeafKinds -> <<>>
    [] Kind(t) \in {"obj", "arr", "sparr", "await", "yield", "yield*", "new0", "tag"} -> <<t[2]>>
    [] Kind(t) = "un" -> <<t[3]>>
    [] Kind(t) = "upd" -> <<t[4]>>
    [] Kind(t) \in {"bin", "asg"} -> <<t[3], t[4]>>
    [] Kind(t) = "cond" -> <<t[2], t[3], t[4]>>
    [] Kind(t) \in {"seq", "new", "callsp", "call", "idx"} -> <<t[2], t[3]>>
    [] Kind(t) = "dot" -> <<t[2]>>
    [] Kind(t) = "arrow" -> <<t[3]>>

Oc(t) == CASE Kind(t) \in {"dot", "idx", "call"} -> t[4] [] OTHER -> "no"
IsChainElem(t) == Oc(t) # "no"

(***************************************************************************)
(* The level of a node as an (unparenthesised) operand.                    *)
(***************************************************************************)
Level(t) ==
  CASE Kind(t) = "seq" -> LComma
    [] Kind(t) \in {"asg", "yield", "yield*", "yield0", "arrow"} -> LAssign
    [] Kind(t) = "cond" -> LCond
    [] Kind(t) = "bin" -> BinLevel(t[2])
    [] Kind(t) \in {"un", "await"} -> LUnary
    [] Kind(t) = "upd" -> LUpdate
    [] OTHER -> LLhs

(***************************************************************************)
(* Class of a LeftHandSideExpression node, GIVEN how it is written with    *)
(* minimal parentheses (a parenthesised operand is a PrimaryExpression):   *)
(*  "member"  MemberExpression              "new"  `new X` without args     *)
(*  "call"    CallExpression                "opt"  OptionalExpression      *)
(***************************************************************************)
RECURSIVE Class(_)
ObjNeedsParen(o, oc) ==
  \* does the object/callee/tag operand o of a link with optional flag oc need parentheses?
  IF Level(o) < LLhs THEN TRUE
  ELSE LET c == Class(o) IN
       \/ c = "new"                                  \* (new a).b : otherwise `new (a.b)`
       \/ (c = "opt" /\ oc = "no")                   \* (a?.b).c  : a link outside the chain
Class(t) ==
  CASE Kind(t) \in {"dot", "idx"} ->
         IF t[4] # "no" THEN "opt"
         ELSE IF ObjNeedsParen(t[2], "no") THEN "member" ELSE Class(t[2])
    [] Kind(t) \in {"call", "callsp"} ->
         IF Oc(t) # "no" THEN "opt" ELSE "call"
    [] Kind(t) = "tag" ->
         IF Level(t[2]) < LLhs \/ Class(t[2]) \in {"new", "opt"} THEN "member" ELSE Class(t[2])
    [] Kind(t) = "new0" -> "new"
    [] OTHER -> "member"

(***************************************************************************)
(* Well-formedness (static semantics that no parenthesisation can repair). *)
(***************************************************************************)
IsSimpleTarget(t) ==
  \/ Kind(t) = "id"
  \/ (Kind(t) \in {"dot", "idx"} /\ t[4] = "no")

RECURSIVE WellFormed(_)
KidsWF(t) == \A i \in 1..Len(Kids(t)) : WellFormed(Kids(t)[i])
WellFormed(t) ==
  /\ KidsWF(t)
  /\ CASE Kind(t) = "asg" -> IsSimpleTarget(t[3])
       [] Kind(t) = "upd" -> IsSimpleTarget(t[4])
       [] Kind(t) = "un" -> ~(t[2] = "delete" /\ Kind(t[3]) = "id")   \* strict-mode early error
       [] Kind(t) \in {"dot", "idx", "call"} ->
            (t[4] = "cont") => IsChainElem(t[2])
       [] OTHER -> TRUE

RECURSIVE Has(_, _)
Has(t, kinds) ==
  \/ Kind(t) \in kinds
  \/ \E i \in 1..Len(Kids(t)) : Has(Kids(t)[i], kinds)

(* await must not sit under a non-async arrow, yield not under any arrow *)
RECURSIVE FnKindOK(_, _)
FnKindOK(t, inPlainArrow) ==
  /\ (Kind(t) \in {"yield", "yield*", "yield0"}) => ~inPlainArrow
  /\ (Kind(t) = "await") => ~inPlainArrow
  /\ IF Kind(t) = "arrow"
       THEN /\ ~Has(t[3], {"yield", "yield*", "yield0"})
            /\ (t[2] = "a" \/ ~Has(t[3], {"await"}))
            /\ FnKindOK(t[3], FALSE)
       ELSE \A i \in 1..Len(Kids(t)) : FnKindOK(Kids(t)[i], inPlainArrow)

RECURSIVE HasId(_, _)
HasId(t, names) ==
  \/ (Kind(t) = "id" /\ t[2] \in names)
  \/ \E i \in 1..Len(Kids(t)) : HasId(Kids(t)[i], names)

RECURSIVE Depth(_)
MaxOf(S) == CHOOSE x \in S : \A y \in S : y <= x
Depth(t) == IF Len(Kids(t)) = 0 THEN 0
            ELSE 1 + MaxOf({Depth(Kids(t)[i]) : i \in 1..Len(Kids(t))})

(***************************************************************************)
(* Contexts.  A context says what the position demands of the operand:     *)
(*   min    least level accepted without parentheses                       *)
(*   cls    for min >= LLhs: which classes are accepted                    *)
(*            "any" | "callee" (member|call; opt only if the link continues*)
(*            the chain) | "memberonly" (callee of new)                    *)
(*   noIn   inside a for-init: an unparenthesised `in` is forbidden        *)
(*   start  "none" | "stmt" | "exportdefault" | "arrowbody" | "forinit" |  *)
(*          "forin" | "forof" | "forofinner"   first-token restrictions    *)
(*   nb     the next token after this operand is `[` (for `let [`)         *)
(*   oc     the optional flag of the link this operand is the object of    *)
(***************************************************************************)
Ctx(min, cls, noIn, start, nb, oc) ==
  [min |-> min, cls |-> cls, noIn |-> noIn, start |-> start, nb |-> nb, oc |-> oc]
TopCtx(min, noIn, start) == Ctx(min, "any", noIn, start, FALSE, "no")
InnerCtx(min) == Ctx(min, "any", FALSE, "none", FALSE, "no")   \* inside brackets of any kind

InnerStart(s) == IF s = "forof" THEN "forofinner" ELSE s

(***************************************************************************)
(* Why(t,c): the reason parentheses are required around t in context c,    *)
(* or "" if none are.  Each reason is a hazard label.                      *)
(***************************************************************************)
Why(t, c) ==
  LET k == Kind(t) lv == Level(t) IN
  IF lv < c.min /\ lv < LLhs THEN
       (CASE k = "seq" -> "paren-comma"
          [] k = "asg" -> "paren-assign"
          [] k = "arrow" -> "paren-arrow"
          [] k \in {"yield", "yield*", "yield0"} -> "paren-yield"
          [] k = "cond" -> "paren-cond"
          [] k = "bin" -> (IF t[2] \in {"||", "&&"} /\ c.cls = "nullish-right" THEN "nullish-mix" ELSE
                           IF t[2] = "**" THEN "paren-exp" ELSE
                           IF t[2] = "??" THEN "paren-nullish" ELSE "paren-binary")
          [] k \in {"un", "await"} -> (IF c.min = LUpdate THEN "exp-unary-left" ELSE "paren-unary")
          [] k = "upd" -> "paren-update"
          [] OTHER -> "paren-other")
  ELSE IF k = "bin" /\ t[2] = "in" /\ c.noIn THEN "forinit-in"
  ELSE IF k = "bin" /\ t[2] \in {"||", "&&"} /\ c.cls = "nullish-left" THEN "nullish-mix"
  ELSE IF lv >= LLhs /\ c.min >= LLhs /\ c.cls = "memberonly" /\ Class(t) = "call" THEN "new-callee-call"
  ELSE IF lv >= LLhs /\ c.min >= LLhs /\ c.cls = "memberonly" /\ Class(t) = "opt" THEN "new-callee-optchain"
  ELSE IF lv >= LLhs /\ c.min >= LLhs /\ c.cls \in {"callee", "tag"} /\ Class(t) = "new" THEN "new-noargs-member"
  ELSE IF lv >= LLhs /\ c.min >= LLhs /\ c.cls = "memberonly" /\ c.oc = "args" /\ Class(t) = "new" THEN "new-noargs-callee"
  ELSE IF lv >= LLhs /\ c.min >= LLhs /\ c.cls = "callee" /\ Class(t) = "opt" /\ c.oc = "no" THEN "optchain-paren"
  ELSE IF lv >= LLhs /\ c.min >= LLhs /\ c.cls = "tag" /\ Class(t) = "opt" THEN "optchain-tag"
  ELSE IF k \in {"obj0", "obj"} /\ c.start \in {"stmt", "arrowbody"} THEN "start-brace"
  ELSE IF k = "fn" /\ c.start \in {"stmt", "exportdefault"} THEN "start-function"
  ELSE IF k = "afn" /\ c.start \in {"stmt", "exportdefault"} THEN "start-async-function"
  ELSE IF k = "cls" /\ c.start \in {"stmt", "exportdefault"} THEN "start-class"
  ELSE IF k = "id" /\ t[2] = "let" /\ c.nb /\ c.start \in {"stmt", "forinit", "forin"} THEN "start-let-bracket"
  ELSE IF k = "id" /\ t[2] = "let" /\ c.start \in {"forof", "forofinner"} THEN "forof-let"
  ELSE IF k = "id" /\ t[2] = "async" /\ c.start = "forof" THEN "forof-async"
  ELSE ""

(* context of the i-th child of t when t itself is written in context c WITHOUT parentheses *)
KidCtx(t, i, c) ==
  LET k == Kind(t)
      st == InnerStart(c.start)
      left(min, cls, nb, oc) == Ctx(min, cls, c.noIn, st, nb, oc)      \* leftmost operand: inherits start
      right(min) == Ctx(min, "any", c.noIn, "none", FALSE, "no")      \* later operand, not bracketed
  IN
  CASE k \in {"obj", "arr", "sparr"} -> InnerCtx(LAssign)
    [] k = "bin" ->
         LET L == BinLevel(t[2]) IN
         IF i = 1 THEN
            (IF t[2] = "**" THEN left(LUpdate, "any", FALSE, "no")
             ELSE IF t[2] = "??" THEN left(LNullish, "nullish-left", FALSE, "no")
             ELSE left(L, "any", FALSE, "no"))
         ELSE
            (IF t[2] = "**" THEN right(LExp)
             ELSE IF t[2] = "??" THEN [right(LBitOr) EXCEPT !.cls = "nullish-right"]
             ELSE right(L + 1))
    [] k = "asg" -> IF i = 1 THEN left(LLhs, "any", FALSE, "no") ELSE right(LAssign)
    [] k = "cond" -> IF i = 1 THEN left(LNullish, "any", FALSE, "no")
                     ELSE IF i = 2 THEN Ctx(LAssign, "any", FALSE, "none", FALSE, "no")  \* [+In] between ? and :
                     ELSE right(LAssign)
    [] k = "seq" -> IF i = 1 THEN left(LComma, "any", FALSE, "no") ELSE right(LAssign)
    [] k \in {"un", "await"} -> right(LUnary)
    [] k = "upd" -> IF t[3] = "pre" THEN right(LUnary) ELSE left(LLhs, "any", FALSE, "no")
    [] k \in {"yield", "yield*"} -> right(LAssign)
    [] k = "new0" -> Ctx(LLhs, "memberonly", c.noIn, "none", FALSE, "no")
    [] k = "new" -> IF i = 1 THEN Ctx(LLhs, "memberonly", c.noIn, "none", FALSE, "args") ELSE InnerCtx(LAssign)
    [] k \in {"call", "callsp"} ->
         IF i = 1 THEN left(LLhs, "callee", FALSE, Oc(t)) ELSE InnerCtx(LAssign)
    [] k = "dot" -> left(LLhs, "callee", FALSE, t[4])
    [] k = "idx" -> IF i = 1 THEN left(LLhs, "callee", t[4] # "start", t[4]) ELSE InnerCtx(LComma)
    [] k = "tag" -> left(LLhs, "tag", FALSE, "no")
    [] k = "arrow" -> Ctx(LAssign, "any", c.noIn, "arrowbody", FALSE, "no")


(***************************************************************************)
(* Tokens of the leaves (compound leaves are single tokens; the harness    *)
(* joins tokens with one space).                                           *)
(***************************************************************************)
LeafTok(t) ==
  CASE Kind(t) = "id" -> t[2]
    [] Kind(t) = "num" -> t[2]
    [] Kind(t) = "str" -> "'s'"
    [] Kind(t) = "re" -> "/r/"
    [] Kind(t) = "tpl" -> "`t`"
    [] Kind(t) = "fn" -> "function(){}"
    [] Kind(t) = "afn" -> "async function(){}"
    [] Kind(t) = "cls" -> "class{}"
    [] Kind(t) = "obj0" -> "{}"
    [] Kind(t) = "this" -> "this"
    [] Kind(t) = "yield0" -> "yield"

(* Shape(t, K): tokens of node t given the already rendered children K *)
Shape(t, K) ==
  LET k == Kind(t) IN
  CASE k \in LeafKinds -> <<LeafTok(t)>>
    [] k = "obj" -> <<"{", "k", ":">> \o K[1] \o <<"}">>
    [] k = "arr" -> <<"[">> \o K[1] \o <<"]">>
    [] k = "sparr" -> <<"[", "...">> \o K[1] \o <<"]">>
    [] k \in {"bin", "asg"} -> K[1] \o <<t[2]>> \o K[2]
    [] k = "cond" -> K[1] \o <<"?">> \o K[2] \o <<":">> \o K[3]
    [] k = "seq" -> K[1] \o <<",">> \o K[2]
    [] k = "un" -> <<t[2]>> \o K[1]
    [] k = "upd" -> IF t[3] = "pre" THEN <<t[2]>> \o K[1] ELSE K[1] \o <<t[2]>>
    [] k = "await" -> <<"await">> \o K[1]
    [] k = "yield" -> <<"yield">> \o K[1]
    [] k = "yield*" -> <<"yield", "*">> \o K[1]
    [] k = "new0" -> <<"new">> \o K[1]
    [] k = "new" -> <<"new">> \o K[1] \o <<"(">> \o K[2] \o <<")">>
    [] k = "call" -> K[1] \o (IF t[4] = "start" THEN <<"?.">> ELSE <<>>) \o <<"(">> \o K[2] \o <<")">>
    [] k = "callsp" -> K[1] \o <<"(", "...">> \o K[2] \o <<")">>
    [] k = "dot" -> K[1] \o <<IF t[4] = "start" THEN "?." ELSE ".">> \o <<t[3]>>
    [] k = "idx" -> K[1] \o (IF t[4] = "start" THEN <<"?.">> ELSE <<>>) \o <<"[">> \o K[2] \o <<"]">>
    [] k = "tag" -> K[1] \o <<"`t`">>
    [] k = "arrow" -> (IF t[2] = "a" THEN <<"async">> ELSE <<>>) \o <<"(", ")", "=>">> \o K[1]

(* RM(t,c): the minimal rendering AND the reasons of its parentheses, in one pass *)
RECURSIVE RM(_, _)
RM(t, c) ==
  LET w == Why(t, c) IN
  IF w # ""
    THEN LET r == RM(t, InnerCtx(LComma)) IN [ts |-> <<"(">> \o r.ts \o <<")">>, ls |-> r.ls \cup {w}]
    ELSE LET K == [i \in 1..Len(Kids(t)) |-> RM(Kids(t)[i], KidCtx(t, i, c))] IN
         [ts |-> Shape(t, [i \in 1..Len(Kids(t)) |-> K[i].ts]), ls |-> UNION {K[i].ls : i \in 1..Len(Kids(t))}]
RenderMin(t, c) == RM(t, c).ts

KCtx(t, i, c) == KidCtx(t, i, c)

(* Fully parenthesised: every non-leaf operand is wrapped, except the link *)
(* of a continued optional chain (there the parentheses change the tree).  *)
RECURSIVE RenderFull(_)
FullKid(t, i) ==
  LET x == Kids(t)[i] IN
  IF IsLeaf(x) /\ Kind(x) \notin {"yield0", "obj0"} THEN RenderFull(x)
  ELSE IF i = 1 /\ Kind(t) \in {"dot", "idx", "call"} /\ IsChainElem(x) /\ Oc(t) # "no" THEN RenderFull(x)
  ELSE <<"(">> \o RenderFull(x) \o <<")">>
RenderFull(t) == Shape(t, [i \in 1..Len(Kids(t)) |-> FullKid(t, i)])
RenderFullTop(t) == IF Kind(t) = "id" /\ t[2] \notin {"let", "async"} THEN RenderFull(t) ELSE <<"(">> \o RenderFull(t) \o <<")">>

(***************************************************************************)
(* Hazard labels of a tree in a context: every reason for a parenthesis,   *)
(* plus the token-gluing hazards (adjacent tokens that would lex           *)
(* differently if printed without a space).                                *)
(***************************************************************************)
ParenLabels(t, c) == RM(t, c).ls

FirstTok(ts) == IF Len(ts) = 0 THEN "" ELSE ts[1]
LastTok(ts) == IF Len(ts) = 0 THEN "" ELSE ts[Len(ts)]

(* adjacent token pairs (x,y) that must not be glued *)
GlueLabel(x, y) ==
  IF x \in {"-", "--"} /\ y \in {"-", "--"} THEN "glue-minus"
  ELSE IF x \in {"+", "++"} /\ y \in {"+", "++"} THEN "glue-plus"
  ELSE IF x = "/" /\ y = "/r/" THEN "glue-div-regexp"
  ELSE IF x = "/r/" /\ y \in {"in", "instanceof"} THEN "glue-regexp-keyword"
  ELSE IF x = "1" /\ y = "." THEN "glue-num-dot"
  ELSE IF x = "<" /\ y = "!" THEN "glue-lt-bang"
  ELSE IF x = "--" /\ y = ">" THEN "glue-dashdash-gt"
  ELSE IF x \in {"typeof", "void", "delete", "in", "instanceof", "await", "yield", "new", "async"}
          /\ y \notin {"(", "[", "{", "-", "+", "!", "~", "/r/", "'s'", "`t`", "{}", "*", "++", "--", ")", "]", "}", ",", ":", ""}
       THEN "glue-keyword-ident"
  ELSE IF y \in {"in", "instanceof"} /\ x \notin {")", "]", "}", "'s'", "`t`", "/r/", "{}", "function(){}", "class{}", "async function(){}"}
       THEN "glue-ident-keyword"
  ELSE ""

GlueLabels(ts) == {GlueLabel(ts[i], ts[i + 1]) : i \in 1..(Len(ts) - 1)} \ {""}

(* `<!--` needs three tokens *)
HtmlOpen(ts) == \E i \in 1..(Len(ts) - 2) : ts[i] = "<" /\ ts[i + 1] = "!" /\ ts[i + 2] = "--"

(* labels given the result r of RM(t,c) *)
LabelsOf(t, r) ==
  r.ls \cup GlueLabels(r.ts) \cup (IF HtmlOpen(r.ts) THEN {"glue-html-comment-open"} ELSE {})
  \cup (IF HasId(t, {"let"}) THEN {"sloppy-let-ident"} ELSE {})
  \cup (IF HasId(t, {"async"}) THEN {"async-ident"} ELSE {})
Labels(t, c) == LabelsOf(t, RM(t, c))

(* esbuild simplifies, even without minification, operators whose operand has a *)
(* statically known type / truthiness / nullishness: -1, !0, typeof 1, "a"+"b",  *)
(* `a++ ?? x` (a number is never nullish), `!typeof b`, `{} || x`, `1 ? a : b`.   *)
(* Trees containing such a node carry the label "foldable"; for them (only) the   *)
(* harness falls back to comparing probe traces when the output tree differs.     *)
RECURSIVE TypeKnown(_)
TypeKnown(t) ==
  \/ Kind(t) \in {"num", "str", "tpl", "re", "fn", "afn", "cls", "obj0", "obj", "arr", "sparr", "arrow", "un", "upd", "new", "new0"}
  \/ (Kind(t) = "bin" /\ t[2] \notin {"??", "||", "&&"})
  \/ (Kind(t) = "bin" /\ t[2] \in {"??", "||", "&&"} /\ TypeKnown(t[3]) /\ TypeKnown(t[4]))
  \/ (Kind(t) = "seq" /\ TypeKnown(t[3]))
  \/ (Kind(t) = "asg" /\ t[2] = "=" /\ TypeKnown(t[4]))
  \/ (Kind(t) = "cond" /\ TypeKnown(t[3]) /\ TypeKnown(t[4]))
(* KnownB: the truthiness / nullishness of the value is statically known although its type need not be: *)
(* `y || class{}` is truthy whatever y is, so `(y || class{}) || z` may lose its dead operand.             *)
RECURSIVE KnownB(_)
KnownB(t) ==
  \/ TypeKnown(t)
  \/ (Kind(t) = "bin" /\ t[2] \in {"??", "||", "&&"} /\ KnownB(t[4]))
  \/ (Kind(t) = "seq" /\ KnownB(t[3]))
  \/ (Kind(t) = "asg" /\ t[2] = "=" /\ KnownB(t[4]))
  \/ (Kind(t) = "asg" /\ t[2] \notin {"=", "&&=", "||=", "??="})      \* `a += b` is a number, string or bigint: never nullish
  \/ (Kind(t) = "cond" /\ KnownB(t[3]) /\ KnownB(t[4]))
RECURSIVE Foldable(_)
Foldable(t) ==
  \/ (Kind(t) = "bin" /\ t[2] \in {"??", "||", "&&"} /\ KnownB(t[3]))
  \/ (Kind(t) = "bin" /\ t[2] \notin {"??", "||", "&&"} /\ TypeKnown(t[3]) /\ TypeKnown(t[4]))
  \/ (Kind(t) = "cond" /\ KnownB(t[2]))
  \/ (Kind(t) = "un" /\ KnownB(t[3]))
  \/ \E i \in 1..Len(Kids(t)) : Foldable(Kids(t)[i])

(***************************************************************************)
(* S-expression (must agree with node/acorn_parse.js).                     *)
(***************************************************************************)
RECURSIVE JoinSp(_)
JoinSp(ss) == IF Len(ss) = 0 THEN "" ELSE IF Len(ss) = 1 THEN ss[1] ELSE ss[1] \o " " \o JoinSp(Tail(ss))
P(ss) == "(" \o JoinSp(ss) \o ")"

RECURSIVE Sx(_, _)
RECURSIVE SeqItems(_)
SeqItems(t) == IF Kind(t) = "seq" THEN SeqItems(t[2]) \o SeqItems(t[3]) ELSE <<Sx(t, FALSE)>>
(* cont: the parent link continues this chain, so no (chain ..) wrapper here *)
Sx(t, cont) ==
  LET k == Kind(t)
      chain(s) == IF IsChainElem(t) /\ ~cont THEN P(<<"chain", s>>) ELSE s
      objS(o) == Sx(o, IsChainElem(t) /\ IsChainElem(o))
  IN
  CASE k = "id" -> P(<<"id", t[2]>>)
    [] k = "num" -> P(<<"num", t[2]>>)
    [] k = "str" -> "(str 0073)"
    [] k = "re" -> "(re 0072 -)"
    [] k = "tpl" -> "(tpl c:0074 |)"
    [] k = "fn" -> "(fn - - (params) (body))"
    [] k = "afn" -> "(fn a - (params) (body))"
    [] k = "cls" -> "(class - -)"
    [] k = "obj0" -> "(obj)"
    [] k = "this" -> "(this)"
    [] k = "yield0" -> "(yield -)"
    [] k = "obj" -> P(<<"obj", P(<<"prop", "(key k)", Sx(t[2], FALSE)>>)>>)
    [] k = "arr" -> P(<<"arr", Sx(t[2], FALSE)>>)
    [] k = "sparr" -> P(<<"arr", P(<<"spread", Sx(t[2], FALSE)>>)>>)
    [] k = "bin" -> P(<<"bin", t[2], Sx(t[3], FALSE), Sx(t[4], FALSE)>>)
    [] k = "asg" -> P(<<"asg", t[2], Sx(t[3], FALSE), Sx(t[4], FALSE)>>)
    [] k = "cond" -> P(<<"cond", Sx(t[2], FALSE), Sx(t[3], FALSE), Sx(t[4], FALSE)>>)
    [] k = "seq" -> P(<<"seq">> \o SeqItems(t))
    [] k = "un" -> P(<<"un", t[2], Sx(t[3], FALSE)>>)
    [] k = "upd" -> P(<<"upd", t[2], t[3], Sx(t[4], FALSE)>>)
    [] k = "await" -> P(<<"await", Sx(t[2], FALSE)>>)
    [] k = "yield" -> P(<<"yield", Sx(t[2], FALSE)>>)
    [] k = "yield*" -> P(<<"yield*", Sx(t[2], FALSE)>>)
    [] k = "new0" -> P(<<"new", Sx(t[2], FALSE)>>)
    [] k = "new" -> P(<<"new", Sx(t[2], FALSE), Sx(t[3], FALSE)>>)
    [] k = "call" -> chain(P(<<IF t[4] = "start" THEN "call?" ELSE "call", objS(t[2]), Sx(t[3], FALSE)>>))
    [] k = "callsp" -> P(<<"call", Sx(t[2], FALSE), P(<<"spread", Sx(t[3], FALSE)>>)>>)
    [] k = "dot" -> chain(P(<<IF t[4] = "start" THEN "dot?" ELSE "dot", objS(t[2]), t[3]>>))
    [] k = "idx" -> chain(P(<<IF t[4] = "start" THEN "idx?" ELSE "idx", objS(t[2]), Sx(t[3], FALSE)>>))
    [] k = "tag" -> P(<<"tag", Sx(t[2], FALSE), "(tpl c:0074/r:0074 |)">>)
    [] k = "arrow" -> P(<<"arrow", t[2], "(params)", Sx(t[3], FALSE)>>)
Sexp(t) == Sx(t, FALSE)

(***************************************************************************)
(* The reference reader: precedence climbing over a token sequence.        *)
(* Result: [t |-> tree, i |-> next index, p |-> directly parenthesised].   *)
(* <<"err", why>> marks a string that is not in the language.              *)
(***************************************************************************)
Err(why) == <<"err", why>>
IsErr(t) == Kind(t) = "err"
Tok(ts, i) == IF i >= 1 /\ i <= Len(ts) THEN ts[i] ELSE "<eof>"
R(t, i, p) == [t |-> t, i |-> i, p |-> p]

LeafOfTok(x) ==
  CASE x = "1" -> <<"num", "1">>
    [] x = "'s'" -> <<"str">>
    [] x = "/r/" -> <<"re">>
    [] x = "`t`" -> <<"tpl">>
    [] x = "function(){}" -> <<"fn">>
    [] x = "async function(){}" -> <<"afn">>
    [] x = "class{}" -> <<"cls">>
    [] x = "{}" -> <<"obj0">>
    [] x = "this" -> <<"this">>
    [] OTHER -> <<"id", x>>

Punct == {"(", ")", "[", "]", "{", "}", ",", ":", "?", "?.", ".", "...", "=>", "*", "<eof>", "`t`"} \cup BinOps \cup AsgOps
          \cup {"!", "~", "++", "--"}
Reserved == {"typeof", "void", "delete", "new", "await", "yield", "in", "instanceof"}
StartsOperand(x) == x \notin ((Punct \ {"(", "[", "{", "-", "+", "!", "~", "++", "--", "`t`", "/"}) \cup {"in", "instanceof"})

(* yield/await nodes only where a generator / async body is being read: the generator *)
(* wraps such trees in the right function kind, so the reader treats them as keywords. *)

RECURSIVE ParseExpr(_, _, _, _), ParseUnary(_, _, _), ParsePrimary(_, _, _), Suffix(_, _, _, _, _, _), ParseNewCallee(_, _), MemberSuffix(_, _, _)

IsTargetRead(r) == IsSimpleTarget(r.t)

(* the class of an operand as READ (p = it was parenthesised => PrimaryExpression) *)
ReadClass(t, p) == IF p THEN "member" ELSE IF Level(t) < LLhs THEN "none" ELSE Class(t)

ParsePrimary(ts, i, noIn) ==
  LET x == Tok(ts, i) IN
  IF x = "(" THEN
       IF Tok(ts, i + 1) = ")" /\ Tok(ts, i + 2) = "=>" THEN R(Err("arrow-here"), i, FALSE)
       ELSE LET e == ParseExpr(ts, i + 1, LComma, FALSE) IN
            IF Tok(ts, e.i) = ")" THEN R(e.t, e.i + 1, TRUE) ELSE R(Err("expected-rparen"), e.i, FALSE)
  ELSE IF x = "[" THEN
       IF Tok(ts, i + 1) = "..." THEN
            LET e == ParseExpr(ts, i + 2, LAssign, FALSE) IN
            IF Tok(ts, e.i) = "]" THEN R(<<"sparr", e.t>>, e.i + 1, FALSE) ELSE R(Err("expected-rbracket"), e.i, FALSE)
       ELSE LET e == ParseExpr(ts, i + 1, LAssign, FALSE) IN
            IF Tok(ts, e.i) = "]" THEN R(<<"arr", e.t>>, e.i + 1, FALSE) ELSE R(Err("expected-rbracket"), e.i, FALSE)
  ELSE IF x = "{" THEN
       IF Tok(ts, i + 1) = "k" /\ Tok(ts, i + 2) = ":" THEN
            LET e == ParseExpr(ts, i + 3, LAssign, FALSE) IN
            IF Tok(ts, e.i) = "}" THEN R(<<"obj", e.t>>, e.i + 1, FALSE) ELSE R(Err("expected-rbrace"), e.i, FALSE)
       ELSE R(Err("object"), i, FALSE)
  ELSE IF x = "new" THEN
       LET c == ParseNewCallee(ts, i + 1) IN
       IF Tok(ts, c.i) = "(" THEN
            LET a == ParseExpr(ts, c.i + 1, LAssign, FALSE) IN
            IF Tok(ts, a.i) = ")" THEN R(<<"new", c.t, a.t>>, a.i + 1, FALSE) ELSE R(Err("expected-rparen"), a.i, FALSE)
       ELSE R(<<"new0", c.t>>, c.i, FALSE)
  ELSE IF x = "`t`" THEN R(<<"tpl">>, i + 1, FALSE)
  ELSE IF x \in Punct \/ x \in Reserved THEN R(Err("unexpected-" \o x), i, FALSE)
  ELSE R(LeafOfTok(x), i + 1, FALSE)

(* callee of new: a MemberExpression without calls; `new new a` nests *)
ParseNewCallee(ts, i) ==
  LET p == ParsePrimary(ts, i, FALSE) IN
  IF IsErr(p.t) THEN p
  ELSE IF ~p.p /\ Kind(p.t) = "new0" THEN p          \* new new a : no member suffix can follow a bare `new a`
  ELSE MemberSuffix(ts, p.i, p.t)

MemberSuffix(ts, i, left) ==
  LET x == Tok(ts, i) IN
  IF x = "." THEN MemberSuffix(ts, i + 2, <<"dot", left, Tok(ts, i + 1), "no">>)
  ELSE IF x = "[" THEN
       LET e == ParseExpr(ts, i + 1, LComma, FALSE) IN
       IF Tok(ts, e.i) = "]" THEN MemberSuffix(ts, e.i + 1, <<"idx", left, e.t, "no">>) ELSE R(Err("expected-rbracket"), e.i, FALSE)
  ELSE IF x = "`t`" THEN MemberSuffix(ts, i + 1, <<"tag", left>>)
  ELSE IF x = "?." THEN R(Err("optional-chain-in-new"), i, FALSE)
  ELSE R(left, i, FALSE)

ParseUnary(ts, i, noIn) ==
  LET x == Tok(ts, i) IN
  IF x \in UnOps THEN
       LET e == ParseUnary(ts, i + 1, noIn) IN
       R(IF IsErr(e.t) THEN e.t ELSE <<"un", x, e.t>>, e.i, FALSE)
  ELSE IF x = "await" THEN
       LET e == ParseUnary(ts, i + 1, noIn) IN R(IF IsErr(e.t) THEN e.t ELSE <<"await", e.t>>, e.i, FALSE)
  ELSE IF x \in UpdOps THEN
       LET e == ParseUnary(ts, i + 1, noIn) IN
       IF IsErr(e.t) THEN e
       ELSE IF IsSimpleTarget(e.t) THEN R(<<"upd", x, "pre", e.t>>, e.i, FALSE) ELSE R(Err("bad-update-target"), e.i, FALSE)
  ELSE
       LET p == ParsePrimary(ts, i, noIn) IN
       IF IsErr(p.t) THEN p
       ELSE Suffix(ts, p.i, p.t, p.p, LUpdate, noIn)

(* Suffix: continue `left` (read at index < i) with everything that binds at least as tightly as lvl *)
Suffix(ts, i, left, lp, lvl, noIn) ==
  LET x == Tok(ts, i)
      isLhs == lp \/ Level(left) >= LLhs
      lcls == ReadClass(left, lp)
      chainOK == ~lp /\ IsChainElem(left)
      linkable == isLhs /\ (lcls \in {"member", "call"} \/ chainOK)
  IN
  IF IsErr(left) THEN R(left, i, FALSE)
  ELSE IF x = "." /\ isLhs THEN
       IF ~linkable THEN R(Err("link-after-" \o lcls), i, FALSE)
       ELSE Suffix(ts, i + 2, <<"dot", left, Tok(ts, i + 1), IF chainOK THEN "cont" ELSE "no">>, FALSE, lvl, noIn)
  ELSE IF x = "?." /\ isLhs THEN
       IF ~linkable THEN R(Err("link-after-" \o lcls), i, FALSE)
       ELSE IF Tok(ts, i + 1) = "(" THEN
            LET a == ParseExpr(ts, i + 2, LAssign, FALSE) IN
            IF Tok(ts, a.i) = ")" THEN Suffix(ts, a.i + 1, <<"call", left, a.t, "start">>, FALSE, lvl, noIn)
            ELSE R(Err("expected-rparen"), a.i, FALSE)
       ELSE IF Tok(ts, i + 1) = "[" THEN
            LET e == ParseExpr(ts, i + 2, LComma, FALSE) IN
            IF Tok(ts, e.i) = "]" THEN Suffix(ts, e.i + 1, <<"idx", left, e.t, "start">>, FALSE, lvl, noIn)
            ELSE R(Err("expected-rbracket"), e.i, FALSE)
       ELSE Suffix(ts, i + 2, <<"dot", left, Tok(ts, i + 1), "start">>, FALSE, lvl, noIn)
  ELSE IF x = "[" /\ isLhs THEN
       IF ~linkable THEN R(Err("link-after-" \o lcls), i, FALSE)
       ELSE LET e == ParseExpr(ts, i + 1, LComma, FALSE) IN
            IF Tok(ts, e.i) = "]" THEN Suffix(ts, e.i + 1, <<"idx", left, e.t, IF chainOK THEN "cont" ELSE "no">>, FALSE, lvl, noIn)
            ELSE R(Err("expected-rbracket"), e.i, FALSE)
  ELSE IF x = "(" /\ isLhs THEN
       IF ~linkable THEN R(Err("link-after-" \o lcls), i, FALSE)
       ELSE IF Tok(ts, i + 1) = "..." THEN
            LET a == ParseExpr(ts, i + 2, LAssign, FALSE) IN
            IF Tok(ts, a.i) = ")" THEN Suffix(ts, a.i + 1, <<"callsp", left, a.t>>, FALSE, lvl, noIn)
            ELSE R(Err("expected-rparen"), a.i, FALSE)
       ELSE LET a == ParseExpr(ts, i + 1, LAssign, FALSE) IN
            IF Tok(ts, a.i) = ")" THEN Suffix(ts, a.i + 1, <<"call", left, a.t, IF chainOK THEN "cont" ELSE "no">>, FALSE, lvl, noIn)
            ELSE R(Err("expected-rparen"), a.i, FALSE)
  ELSE IF x = "`t`" /\ isLhs THEN
       IF chainOK \/ ~(lcls \in {"member", "call"}) THEN R(Err("template-after-" \o lcls), i, FALSE)
       ELSE Suffix(ts, i + 1, <<"tag", left>>, FALSE, lvl, noIn)
  ELSE IF x \in UpdOps /\ isLhs /\ lvl <= LUpdate THEN
       IF IsSimpleTarget(left) THEN Suffix(ts, i + 1, <<"upd", x, "post", left>>, FALSE, lvl, noIn)
       ELSE R(Err("bad-update-target"), i, FALSE)
  ELSE IF x \in BinOps /\ ~(x = "in" /\ noIn) /\ BinLevel(x) >= lvl THEN
       LET L == BinLevel(x) IN
       IF x = "**" THEN
            IF ~lp /\ Kind(left) \in {"un", "await"} THEN R(Err("unary-before-exp"), i, FALSE)
            ELSE LET r == ParseExpr(ts, i + 1, LExp, noIn) IN
                 Suffix(ts, r.i, IF IsErr(r.t) THEN r.t ELSE <<"bin", x, left, r.t>>, FALSE, lvl, noIn)
       ELSE IF x = "??" THEN
            IF ~lp /\ Kind(left) = "bin" /\ left[2] \in {"||", "&&"} THEN R(Err("nullish-mix"), i, FALSE)
            ELSE LET r == ParseExpr(ts, i + 1, LBitOr, noIn) IN
                 Suffix(ts, r.i, IF IsErr(r.t) THEN r.t ELSE <<"bin", x, left, r.t>>, FALSE, lvl, noIn)
       ELSE IF x \in {"||", "&&"} /\ ~lp /\ Kind(left) = "bin" /\ left[2] = "??" THEN R(Err("nullish-mix"), i, FALSE)
       ELSE LET r == ParseExpr(ts, i + 1, L + 1, noIn) IN
            Suffix(ts, r.i, IF IsErr(r.t) THEN r.t ELSE <<"bin", x, left, r.t>>, FALSE, lvl, noIn)
  ELSE IF x = "?" /\ lvl <= LCond /\ (lp \/ Level(left) >= LNullish) THEN
       LET a == ParseExpr(ts, i + 1, LAssign, FALSE) IN
       IF Tok(ts, a.i) # ":" THEN R(Err("expected-colon"), a.i, FALSE)
       ELSE LET b == ParseExpr(ts, a.i + 1, LAssign, noIn) IN
            R(IF IsErr(a.t) THEN a.t ELSE IF IsErr(b.t) THEN b.t ELSE <<"cond", left, a.t, b.t>>, b.i, FALSE)
  ELSE IF x \in AsgOps /\ lvl <= LAssign THEN
       IF isLhs /\ IsSimpleTarget(left) THEN
            LET r == ParseExpr(ts, i + 1, LAssign, noIn) IN
            R(IF IsErr(r.t) THEN r.t ELSE <<"asg", x, left, r.t>>, r.i, FALSE)
       ELSE R(Err("bad-assign-target"), i, FALSE)
  ELSE R(left, i, lp)

(* an expression at level >= lvl *)
ParseExpr(ts, i, lvl, noIn) ==
  LET x == Tok(ts, i) IN
  LET first ==
    IF x = "yield" THEN
         IF lvl > LAssign THEN R(Err("yield-here"), i, FALSE)
         ELSE IF Tok(ts, i + 1) = "*" THEN
              LET e == ParseExpr(ts, i + 2, LAssign, noIn) IN R(IF IsErr(e.t) THEN e.t ELSE <<"yield*", e.t>>, e.i, FALSE)
         ELSE IF StartsOperand(Tok(ts, i + 1)) THEN
              LET e == ParseExpr(ts, i + 1, LAssign, noIn) IN R(IF IsErr(e.t) THEN e.t ELSE <<"yield", e.t>>, e.i, FALSE)
         ELSE R(<<"yield0">>, i + 1, FALSE)
    ELSE IF (x = "(" /\ Tok(ts, i + 1) = ")" /\ Tok(ts, i + 2) = "=>")
            \/ (x = "async" /\ Tok(ts, i + 1) = "(" /\ Tok(ts, i + 2) = ")" /\ Tok(ts, i + 3) = "=>") THEN
         LET a == IF x = "async" THEN "a" ELSE "-"
             j == IF x = "async" THEN i + 4 ELSE i + 3 IN
         IF lvl > LAssign THEN R(Err("arrow-here"), i, FALSE)
         ELSE IF Tok(ts, j) \in {"{", "{}"} THEN R(Err("arrow-block-body"), j, FALSE)
         ELSE LET e == ParseExpr(ts, j, LAssign, noIn) IN R(IF IsErr(e.t) THEN e.t ELSE <<"arrow", a, e.t>>, e.i, FALSE)
    ELSE ParseUnary(ts, i, noIn)
  IN
  IF IsErr(first.t) THEN first
  ELSE LET s == Suffix(ts, first.i, first.t, first.p, lvl, noIn) IN
       IF lvl <= LComma /\ Tok(ts, s.i) = "," /\ ~IsErr(s.t) THEN
            \* comma is left associative: fold the rest
            LET RECURSIVE More(_, _)
                More(acc, j) ==
                  IF Tok(ts, j) = "," THEN
                       LET n == ParseExpr(ts, j + 1, LAssign, noIn) IN
                       IF IsErr(n.t) THEN R(n.t, n.i, FALSE) ELSE More(<<"seq", acc, n.t>>, n.i)
                  ELSE R(acc, j, FALSE)
            IN More(s.t, s.i)
       ELSE s

(* forbidden first tokens of a position (ECMA-262 lookahead restrictions) *)
StartForbidden(ts, start) ==
  LET a == Tok(ts, 1) b == Tok(ts, 2) IN
  CASE start = "stmt" -> a \in {"{", "{}", "function(){}", "async function(){}", "class{}"} \/ (a = "let" /\ b = "[")
    [] start = "exportdefault" -> a \in {"function(){}", "async function(){}", "class{}"}
    [] start = "arrowbody" -> a \in {"{", "{}"}
    [] start \in {"forinit", "forin"} -> a = "let" /\ b = "["
    [] start = "forof" -> a = "let" \/ (a = "async" /\ Len(ts) = 1)
    [] OTHER -> FALSE

(* Read a whole token sequence as one expression in a top-level context *)
Read(ts, c) ==
  IF StartForbidden(ts, c.start) THEN Err("start-" \o c.start)
  ELSE LET r == ParseExpr(ts, 1, c.min, c.noIn) IN
       IF IsErr(r.t) THEN r.t
       ELSE IF r.i # Len(ts) + 1 THEN Err("trailing-" \o Tok(ts, r.i))
       ELSE r.t
=============================================================================
