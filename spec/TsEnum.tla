------------------------------- MODULE TsEnum -------------------------------
(***************************************************************************)
(* C06, part 2a: TypeScript enums.                                         *)
(*                                                                         *)
(* State = a program under construction: a sequence of enum declarations   *)
(* (name, const?, module, members) together with the VALUE of every member *)
(* as the TypeScript language defines it (handbook "Enums": constant enum  *)
(* expressions; auto-increment; members of earlier declarations of the     *)
(* same enum and of other enums may be referenced), computed with the      *)
(* exact ECMAScript number/string algebra of JsFold (a constant enum       *)
(* expression is evaluated with JavaScript semantics).  One action = add a *)
(* declaration or add a member with an initialiser drawn from the          *)
(* constant-expression grammar over the values defined so far.             *)
(* The enum OBJECT that must exist at run time is a function of the state: *)
(* name -> value for every member, and ToString(value) -> name (reverse    *)
(* mapping) for every member whose value is a number, later members        *)
(* winning.  Const enums have no required object; only their uses count.   *)
(* TLC checks the invariants below on every state and exports every        *)
(* complete program with the expected member values and object entries.    *)
(* Nothing here is transcribed from esbuild.                               *)
(***************************************************************************)
EXTENDS JsFold, Json, SequencesExt

CONSTANTS MaxDecls,    \* number of enum declarations
          MaxMembers,  \* members per declaration
          MaxTotal,    \* members per program
          Modules,     \* {2}: one file; {1, 2}: declarations may live in the imported file a.ts (1) or the entry b.ts (2)
          OpStride, OpPhase   \* sampling of the rich initialisers (1, 0 = all)

VARIABLES decls,     \* Seq of [name, const, mod, mem : Seq of [name, auto, init, val]]
          rich,      \* BOOLEAN: the one rich initialiser of the program has been used
          exported
vars == <<decls, rich, exported>>

EnumNames == <<"E", "F">>
MemberNames == <<"A", "B", "C", "D", "G", "H">>
NameCU(n) == CASE n = "A" -> <<65>> [] n = "B" -> <<66>> [] n = "C" -> <<67>> [] n = "D" -> <<68>> [] n = "G" -> <<71>> [] n = "H" -> <<72>>

(* literals: source text and value *)
L(src, v) == [src |-> src, v |-> v]
Lits == << L("0", Num(0)), L("1", Num(1)), L("2", Num(2)), L("3", Num(3)), L("31", Num(31)), L("32", Num(32)), L("255", Num(255)),
           L("2147483647", IntV(1, NSub(P2_31, One))), L("2147483648", IntV(1, P2_31)), L("4294967295", IntV(1, NSub(P2_32, One))),
           L("0x7fffffff", IntV(1, NSub(P2_31, One))), L("9007199254740992", IntV(1, P2_53)),
           L("\"a\"", Str(<<97>>)), L("\"\"", Str(<<>>)), L("\"10\"", Str(<<49, 48>>)), L("'b'", Str(<<98>>)) >>
NumLitIx == {i \in 1..Len(Lits) : Lits[i].v.t = "int"}

NumOps == <<"+", "-", "*", "/", "%", "**", "<<", ">>", ">>>", "&", "|", "^">>
UnaryOps == <<"-", "+", "~">>

(* ------------------------------------------------------------ lookup *)
MembersOf(D, en) == \* all members of the declarations named en, in order (merged declarations)
  LET RECURSIVE Go(_)
      Go(i) == IF i > Len(D) THEN <<>> ELSE (IF D[i].name = en THEN D[i].mem ELSE <<>>) \o Go(i + 1)
  IN Go(1)
HasMember(D, en, mn) == \E i \in 1..Len(MembersOf(D, en)) : MembersOf(D, en)[i].name = mn
ValueOf(D, en, mn) == LET ms == MembersOf(D, en) IN ms[CHOOSE i \in 1..Len(ms) : ms[i].name = mn].val

(* ------------------------------------------------- constant expressions *)
(* <<"lit", i>> | <<"ref", form, enum, member>> | <<"un", op, x>> | <<"bin", op, x, y>> | <<"tpl", x>> *)
RECURSIVE Eval(_, _)
Eval(e, D) ==
  CASE e[1] = "lit" -> Lits[e[2]].v
    [] e[1] = "ref" -> ValueOf(D, e[3], e[4])
    [] e[1] = "un"  -> UnPrim(e[2], Eval(e[3], D))
    [] e[1] = "bin" -> BinPrim(e[2], Eval(e[3], D), Eval(e[4], D))
    [] e[1] = "tpl" -> BinPrim("+", BinPrim("+", Str(<<97>>), Eval(e[2], D)), Str(<<98>>))

IsAtom(e) == e[1] \in {"lit", "ref"}
(* source tokens; qual = TRUE renders every reference as Enum.Member (the reference translation to JavaScript) *)
RECURSIVE Src(_, _)
Par(e, qual) == IF IsAtom(e) \/ e[1] = "tpl" THEN Src(e, qual) ELSE <<"(">> \o Src(e, qual) \o <<")">>
Src(e, qual) ==
  CASE e[1] = "lit" -> <<Lits[e[2]].src>>
    [] e[1] = "ref" -> IF e[2] = "bare" /\ ~qual THEN <<e[4]>>
                       ELSE IF e[2] = "idx" THEN <<e[3], "[", "\"" \o e[4] \o "\"", "]">>
                       ELSE <<e[3], ".", e[4]>>
    [] e[1] = "un"  -> <<e[2]>> \o Par(e[3], qual)
    [] e[1] = "bin" -> Par(e[3], qual) \o <<e[2]>> \o Par(e[4], qual)
    [] e[1] = "tpl" -> <<"`a${">> \o Src(e[2], qual) \o <<"}b`">>

IsNumV(v) == v.t \in NumTypes
IsStrV(v) == v.t = "str"

(* atoms available to a new member of the last declaration *)
Atoms(D) ==
  LET cur == D[Len(D)]
      own == MembersOf(D, cur.name)
      others == {i \in 1..Len(D) : D[i].name # cur.name}
  IN {<<"lit", i>> : i \in 1..Len(Lits)}
     \cup {<<"ref", f, cur.name, own[k].name>> : f \in {"bare", "dot", "idx"}, k \in 1..Len(own)}
     \cup UNION {{<<"ref", f, D[i].name, D[i].mem[k].name>> : f \in {"dot", "idx"}, k \in 1..Len(D[i].mem)} : i \in others}
NumAtoms(D) == {a \in Atoms(D) : IsNumV(Eval(a, D))}
(* the initialisers of the members around the rich one *)
PlainAtoms(D) ==
  LET cur == D[Len(D)]
      own == MembersOf(D, cur.name)
      others == {i \in 1..Len(D) : D[i].name # cur.name}
  IN {<<"lit", 2>>, <<"lit", 13>>}
     \cup {<<"ref", "bare", cur.name, own[k].name>> : k \in 1..Len(own)}
     \cup UNION {{<<"ref", "dot", D[i].name, D[i].mem[k].name>> : k \in 1..Len(D[i].mem)} : i \in others}
Total(D) == Len(D) + 0 * 0 + (LET RECURSIVE Cnt(_) Cnt(i) == IF i > Len(D) THEN 0 ELSE Len(D[i].mem) + Cnt(i + 1) IN Cnt(1)) - Len(D)

(* the rich initialisers; the quick tier keeps the combinations whose index sum falls on OpPhase modulo OpStride
   (decided from the indices alone, before anything is evaluated) *)
Keep(n) == OpStride = 1 \/ n % OpStride = OpPhase % OpStride
RichSet(D) ==
  LET as == SetToSeq(Atoms(D))
      na == SelectSeq(as, LAMBDA a : IsNumV(Eval(a, D)))
      sa == SelectSeq(as, LAMBDA a : IsStrV(Eval(a, D)))
      NA == 1..Len(na)  SA == 1..Len(sa)  AA == 1..Len(as)
      t == Len(D) * 5
  IN {<<"un", UnaryOps[o], na[i]>> : o \in 1..Len(UnaryOps), i \in {x \in NA : Keep(x * 3 + t)}}
     \cup UNION {UNION {{<<"bin", NumOps[o], na[i], na[j]>> : j \in {y \in NA : Keep(o * 31 + i * 7 + y * 3 + t)}} : i \in NA} : o \in 1..Len(NumOps)}
     \cup UNION {{<<"bin", "+", as[i], sa[j]>> : j \in {y \in SA : Keep(i * 5 + y + t)}} : i \in AA}
     \cup UNION {{<<"bin", "+", sa[i], na[j]>> : j \in {y \in NA : Keep(i * 5 + y + 2 + t)}} : i \in SA}
     \cup {<<"tpl", as[i]>> : i \in {x \in AA : Keep(x + 1 + t)}}
     \cup UNION {{<<"un", "-", <<"bin", o, na[i], b>> >> : i \in {x \in NA : Keep(x * 11 + 4 + t)}, b \in {<<"lit", 3>>, <<"lit", 5>>}} : o \in {"%", "*", ">>>"}}
     \cup UNION {{<<"bin", o, <<"un", "-", na[i]>>, b>> : i \in {x \in NA : Keep(x * 13 + 5 + t)}, b \in {<<"lit", 2>>, <<"lit", 4>>, <<"lit", 6>>}} : o \in {"%", ">>", ">>>", "**", "/", "<<"}}
     \cup UNION {{<<"bin", "+", <<"bin", "+", na[i], <<"lit", 13>> >>, na[j]>> : j \in {y \in NA : Keep(i * 17 + y + 6 + t)}} : i \in NA}   \* (n + "a") + m

(* ------------------------------------------------------------ the machine *)
Init == decls = <<>> /\ rich = FALSE /\ exported = FALSE

Complete == Len(decls) >= 1 /\ \A i \in 1..Len(decls) : Len(decls[i].mem) >= 1

NewDecl ==
  /\ ~exported /\ Len(decls) < MaxDecls /\ Total(decls) < MaxTotal /\ ~rich
  /\ (IF Len(decls) = 0 THEN TRUE ELSE Len(decls[Len(decls)].mem) >= 1)
  /\ \E n \in 1..Len(EnumNames), c \in BOOLEAN, m \in Modules :
       (* merged declarations agree in constness and module; a file only references files it imports (2 imports 1) *)
       /\ \A i \in 1..Len(decls) : decls[i].name = EnumNames[n] => decls[i].const = c /\ decls[i].mod = m
       /\ \A i \in 1..Len(decls) : decls[i].mod <= m
       /\ (IF n = 1 THEN TRUE ELSE \E i \in 1..Len(decls) : decls[i].name = EnumNames[n - 1])
       /\ decls' = Append(decls, [name |-> EnumNames[n], const |-> c, mod |-> m, mem |-> <<>>])
  /\ UNCHANGED <<rich, exported>>

NextName(D) == MemberNames[Len(MembersOf(D, D[Len(D)].name)) + 1]

AddTo(D, member) == [D EXCEPT ![Len(D)].mem = Append(@, member)]

AddMember ==
  /\ ~exported /\ Len(decls) >= 1
  /\ Len(decls[Len(decls)].mem) < MaxMembers
  /\ Len(MembersOf(decls, decls[Len(decls)].name)) < Len(MemberNames)
  /\ LET cur == decls[Len(decls)]
         k == Len(cur.mem)
         first == k = 0
         firstOfMerged == first /\ Len(MembersOf(decls, cur.name)) > 0   \* a later declaration of a merged enum must initialise its first member
         room == Total(decls) < MaxTotal
     IN \/ (* no initialiser: auto-increment (one more member is allowed right after an initialised member) *)
           /\ room \/ (~first /\ ~cur.mem[IF k = 0 THEN 1 ELSE k].auto /\ Total(decls) = MaxTotal)
           /\ ~firstOfMerged
           /\ (IF first THEN TRUE ELSE cur.mem[k].val.t = "int" /\ Len(cur.mem[k].val.m) <= 52)
           /\ decls' = AddTo(decls, [name |-> NextName(decls), auto |-> TRUE, init |-> <<"lit", 1>>,
                                     val |-> IF first THEN Num(0) ELSE NumAdd(cur.mem[k].val, Num(1))])
           /\ UNCHANGED rich
        \/ (* an atom *)
           /\ room /\ ~rich
           /\ \E a \in PlainAtoms(decls) :
             /\ decls' = AddTo(decls, [name |-> NextName(decls), auto |-> FALSE, init |-> a, val |-> Eval(a, decls)])
             /\ UNCHANGED rich
        \/ (* the rich initialiser *)
           /\ ~rich /\ room
           /\ \E e \in RichSet(decls) :
                LET v == Eval(e, decls) IN
                /\ v.t # "err"
                (* a const enum member must be finite (TypeScript rejects NaN and Infinity there) *)
                /\ cur.const => v.t \in {"int", "nzero", "str", "unk"}
                /\ decls' = AddTo(decls, [name |-> NextName(decls), auto |-> FALSE, init |-> e, val |-> v])
           /\ rich' = TRUE
  /\ UNCHANGED exported

(* ------------------------------------------------------ the enum object *)
KeyOfNum(v) == ToStr(v)      \* property key of the reverse mapping
(* entries <<key code units, value>> of the object of enum en; later definitions of a key win *)
EnumObject(D, en) ==
  LET ms == MembersOf(D, en)
      RECURSIVE Go(_, _)
      Go(i, acc) ==
        IF i > Len(ms) THEN acc
        ELSE LET m == ms[i]
                 k == NameCU(m.name)
                 a1 == {p \in acc : p[1] # k} \cup {<<k, m.val>>}
             IN IF IsNumV(m.val)
                THEN LET rk == KeyOfNum(m.val).s IN Go(i + 1, {p \in a1 : p[1] # rk} \cup {<<rk, Str(k)>>})
                ELSE Go(i + 1, a1)
  IN Go(1, {})

(* exact: every value, and the reverse-mapping key of every number, is defined by this module (integers above 2^53 print in
   shortest round-trip form, which JsFold does not define) *)
Exact(D) == \A i \in 1..Len(D) : \A k \in 1..Len(D[i].mem) :
              LET v == D[i].mem[k].val IN v.t # "unk" /\ (IsNumV(v) => ToStr(v).t # "unk")

(* ------------------------------------------------------------ properties *)
AllMembers == UNION {{<<i, k>> : k \in 1..Len(decls[i].mem)} : i \in 1..Len(decls)}
(* every member value is a well-formed number or string of the algebra (or "not exact here") *)
ValuesOK == \A p \in AllMembers : LET v == decls[p[1]].mem[p[2]].val IN WellFormed(v) /\ (IsNumV(v) \/ IsStrV(v) \/ v.t = "unk")
(* a member without initialiser is 0 or its predecessor + 1 *)
AutoOK == \A p \in AllMembers : LET ms == decls[p[1]].mem m == ms[p[2]] IN
            m.auto => (IF p[2] = 1 THEN m.val = Num(0) ELSE BinPrim("-", m.val, ms[p[2] - 1].val) = Num(1))
(* the enum object: forward entries for every member; a reverse entry exactly for numeric values; a string member never creates one *)
ObjectOK == Exact(decls) =>
  \A i \in 1..Len(decls) :
    LET en == decls[i].name  obj == EnumObject(decls, en)  ms == MembersOf(decls, en) IN
    /\ \A k \in 1..Len(ms) : <<NameCU(ms[k].name), ms[k].val>> \in obj
    /\ \A k \in 1..Len(ms) : IsNumV(ms[k].val) => \E p \in obj : p[1] = KeyOfNum(ms[k].val).s /\ p[2].t = "str"
    /\ \A p \in obj : (p[2].t = "str" /\ \E k \in 1..Len(ms) : NameCU(ms[k].name) = p[2].s /\ IsNumV(ms[k].val) /\ KeyOfNum(ms[k].val).s = p[1])
                      \/ (\E k \in 1..Len(ms) : NameCU(ms[k].name) = p[1] /\ ms[k].val = p[2])
    /\ \A p, q \in obj : p[1] = q[1] => p = q            \* a function of the key
(* member names are unique within a (merged) enum *)
NamesOK == \A i \in 1..Len(decls) : LET ms == MembersOf(decls, decls[i].name) IN \A a, b \in 1..Len(ms) : ms[a].name = ms[b].name => a = b
Export ==
  /\ ~exported /\ Complete
  /\ exported' = TRUE
  /\ Assert(ObjectOK, <<"ObjectOK violated", decls>>)
  /\ PrintT(<<"CASE", ToJson([spec |-> "TsEnum", exact |-> Exact(decls), rich |-> rich,
        decls |-> [i \in 1..Len(decls) |->
                     [name |-> decls[i].name, const |-> decls[i].const, mod |-> decls[i].mod,
                      mem |-> [k \in 1..Len(decls[i].mem) |->
                                 LET m == decls[i].mem[k] IN
                                 [name |-> m.name, auto |-> m.auto, src |-> Src(m.init, FALSE), jsrc |-> Src(m.init, TRUE), val |-> m.val]]]],
        objects |-> [n \in {decls[i].name : i \in 1..Len(decls)} |->
                       IF Exact(decls) THEN {[k |-> p[1], v |-> p[2]] : p \in EnumObject(decls, n)} ELSE {}]])>>)
  /\ UNCHANGED <<decls, rich>>

Next == NewDecl \/ AddMember \/ Export
Spec == Init /\ [][Next]_vars

(* anchors from the TypeScript handbook and ECMA-262, checked once *)
ASSUME /\ Eval(<<"bin", "<<", <<"lit", 2>>, <<"lit", 5>> >>, <<>>) = IntV(-1, P2_31)      \* 1 << 31 is negative
       /\ Eval(<<"bin", "<<", <<"lit", 2>>, <<"lit", 6>> >>, <<>>) = Num(1)              \* 1 << 32 = 1
       /\ Eval(<<"bin", ">>>", <<"un", "-", <<"lit", 2>> >>, <<"lit", 2>> >>, <<>>) = IntV(1, NSub(P2_31, One))   \* -1 >>> 1
       /\ Eval(<<"bin", "%", <<"un", "-", <<"lit", 4>> >>, <<"lit", 3>> >>, <<>>) = Num(-1)
       /\ Eval(<<"bin", "+", <<"lit", 2>>, <<"lit", 13>> >>, <<>>) = Str(<<49, 97>>)        \* 1 + "a" = "1a"
       /\ Eval(<<"tpl", <<"lit", 3>> >>, <<>>) = Str(<<97, 50, 98>>)                        \* `a${2}b`
=============================================================================
