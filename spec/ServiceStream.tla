--------------------------- MODULE ServiceStream ---------------------------
(***************************************************************************)
(* The byte level of the stdio service below Service.tla: how the packets   *)
(* of `inbox` come out of the bytes the client writes.  Service.tla treats  *)
(* "a packet is decoded" as atomic and gives every handler its own packet;  *)
(* this module is the design of that step (cmd/esbuild/service.go,          *)
(* runService, the read loop):                                              *)
(*                                                                          *)
(*   for { n := stdin.Read(buffer); stream = append(stream, buffer[:n]...)  *)
(*         bytes := stream                                                  *)
(*         for { packet, after, ok := readLengthPrefixedSlice(bytes)        *)
(*               if !ok {break}; bytes = after                              *)
(*               clone := append([]byte{}, packet...)                       *)
(*               handleIncomingPacket(clone) }   -- spawns the handler      *)
(*         stream = append(stream[:0], bytes...) }  -- partial packet to front *)
(*                                                                          *)
(* and of the fact that decodePacket returns byte-array values (transform   *)
(* `input`, build `stdinContents`, on-load `contents`) as slices INTO the   *)
(* packet it was given, which the handler goroutine reads later.            *)
(*                                                                          *)
(* The client writes NPkt packets (each: HdrLen bytes of length prefix, Pre *)
(* bytes of body, a payload of Pay bytes, Post bytes of body) cut into at   *)
(* most MaxWrites writes; a cut may fall ANYWHERE (TLC enumerates every set *)
(* of cut positions in Init).  Writes, reads, the scan of the decode loop   *)
(* and the handler goroutines interleave freely.  Every byte of the wire is *)
(* identified by its position, memory cells hold wire positions, so "the    *)
(* handler read its own payload" is an equation between sequences.          *)
(*                                                                          *)
(* Memory: `arena` is the set of backing arrays the `stream` slice has had  *)
(* (append reallocates when the capacity is exceeded: the old array stays   *)
(* as it is for whoever refers to it).  A handler refers either to a        *)
(* private copy (Clone = TRUE, the code) or to a region of an arena         *)
(* (Clone = FALSE, the negative control: TLC must find PayloadIntegrity     *)
(* violated there).                                                         *)
(***************************************************************************)
EXTENDS Integers, Sequences, FiniteSets, TLC, Json

CONSTANTS
  NPkt,        \* packets the client writes
  HdrLen,      \* bytes of the length prefix
  Pre, Pay, Post, \* body: bytes before the payload, payload bytes, bytes after it
  MaxWrites,   \* the client cuts the wire into at most this many writes
  ReadMax,     \* size of the read buffer (a read returns at most this many bytes)
  Clone,       \* TRUE: the decode loop clones every packet before dispatching it
  Export       \* TRUE: print every (cuts, flushed) chunking once all is done

L == HdrLen + Pre + Pay + Post          \* packet length on the wire
Total == NPkt * L
Pkts == 1..NPkt
First(j) == (j - 1) * L + 1             \* wire position of the first byte of packet j
PayFrom(j) == First(j) + HdrLen + Pre   \* wire position of the first payload byte
Payload(j) == [x \in 1..Pay |-> PayFrom(j) + x - 1]

VARIABLES
  cuts,     \* the positions after which the client ends a write (chosen in Init)
  wr,       \* bytes written by the client so far
  flushed,  \* history: cuts at which the service had read everything before the next write
  rd,       \* bytes the service has read so far
  arena,    \* arena id -> sequence of cells (a cell: wire position of the byte it holds, 0 = never written)
  cur,      \* the arena `stream` points into
  slen,     \* len(stream)
  pc,       \* "read": blocked in / about to call Read; "scan": in the packet loop
  off,      \* scan: offset of `bytes` in `stream`
  disp,     \* packets dispatched so far
  h,        \* packet -> "none" | "spawned" | "done"   (its handler goroutine)
  ref,      \* packet -> what the handler's payload slice refers to
  seen,     \* packet -> the payload bytes the handler read
  reported  \* the case was exported

svars == <<cuts, wr, flushed, rd, arena, cur, slen, pc, off, disp, h, ref, seen, reported>>

NoRef == [kind |-> "none", a |-> 0, at |-> 0, copy |-> <<>>]

Init ==
  /\ cuts \in {c \in SUBSET (1..(Total - 1)) : Cardinality(c) <= MaxWrites - 1}
  /\ wr = 0 /\ flushed = {} /\ rd = 0
  /\ arena = <<>> /\ cur = 0 /\ slen = 0      \* stream := []byte{}
  /\ pc = "read" /\ off = 0 /\ disp = 0
  /\ h = [j \in Pkts |-> "none"]
  /\ ref = [j \in Pkts |-> NoRef]
  /\ seen = [j \in Pkts |-> <<>>]
  /\ reported = FALSE

(***************************************************************************)
(* The client: the next write ends at the next cut (or at the end)          *)
(***************************************************************************)
NextCut == IF \E c \in cuts : c > wr THEN CHOOSE c \in cuts : c > wr /\ \A d \in cuts : d > wr => c <= d ELSE Total

Write ==
  /\ wr < Total
  /\ wr' = NextCut
  /\ flushed' = IF wr > 0 /\ rd = wr /\ pc = "read" THEN flushed \cup {wr} ELSE flushed
  /\ UNCHANGED <<cuts, rd, arena, cur, slen, pc, off, disp, h, ref, seen, reported>>

(***************************************************************************)
(* The decode goroutine                                                     *)
(***************************************************************************)
Cap == IF cur = 0 THEN 0 ELSE Len(arena[cur])
Max(a, b) == IF a > b THEN a ELSE b
Min(a, b) == IF a < b THEN a ELSE b

\* stream = append(stream, buffer[:n]...)
Read ==
  /\ pc = "read" /\ rd < wr
  /\ LET n == Min(wr - rd, ReadMax)
         fits == cur # 0 /\ slen + n <= Cap
         newcap == Max(2 * Cap, slen + n)
         old == IF cur = 0 THEN <<>> ELSE arena[cur]
         cell(x) == IF x <= slen THEN old[x] ELSE IF x <= slen + n THEN rd + (x - slen) ELSE 0
     IN /\ IF fits
             THEN /\ arena' = [arena EXCEPT ![cur] = [x \in 1..Cap |-> IF x > slen /\ x <= slen + n THEN rd + (x - slen) ELSE old[x]]]
                  /\ UNCHANGED cur
             ELSE /\ arena' = Append(arena, [x \in 1..newcap |-> cell(x)])
                  /\ cur' = Len(arena) + 1
        /\ slen' = slen + n
        /\ rd' = rd + n
  /\ pc' = "scan" /\ off' = 0
  /\ UNCHANGED <<cuts, wr, flushed, disp, h, ref, seen, reported>>

\* readLengthPrefixedSlice(bytes): a whole packet is there (all packets have
\* length L: the prefix says so once it is complete)
HasPacket == slen - off >= L

\* handleIncomingPacket: decode; the handler goroutine is spawned holding the
\* payload slice
Dispatch ==
  /\ pc = "scan" /\ HasPacket
  /\ LET j == disp + 1
         at == off + HdrLen + Pre     \* payload = stream[at+1 .. at+Pay]
     IN /\ disp' = j
        /\ h' = [h EXCEPT ![j] = "spawned"]
        /\ ref' = [ref EXCEPT ![j] = IF Clone
                     THEN [kind |-> "copy", a |-> 0, at |-> 0, copy |-> [x \in 1..Pay |-> arena[cur][at + x]]]
                     ELSE [kind |-> "slice", a |-> cur, at |-> at, copy |-> <<>>]]
  /\ off' = off + L
  /\ UNCHANGED <<cuts, wr, flushed, rd, arena, cur, slen, pc, seen, reported>>

\* stream = append(stream[:0], bytes...): the partial packet moves to the front
Compact ==
  /\ pc = "scan" /\ ~HasPacket
  /\ LET rem == slen - off IN
     /\ arena' = IF cur = 0 \/ off = 0 THEN arena
                 ELSE [arena EXCEPT ![cur] = [x \in 1..Cap |-> IF x <= rem THEN arena[cur][off + x] ELSE arena[cur][x]]]
     /\ slen' = rem
  /\ pc' = "read" /\ off' = 0
  /\ UNCHANGED <<cuts, wr, flushed, rd, cur, disp, h, ref, seen, reported>>

(***************************************************************************)
(* A handler goroutine reads its payload (string(request["input"].([]byte)),*)
(* stdin contents, on-load contents) whenever it gets to run                *)
(***************************************************************************)
Deref(r) == IF r.kind = "copy" THEN r.copy ELSE [x \in 1..Pay |-> arena[r.a][r.at + x]]

HandlerRun(j) ==
  /\ h[j] = "spawned"
  /\ seen' = [seen EXCEPT ![j] = Deref(ref[j])]
  /\ h' = [h EXCEPT ![j] = "done"]
  /\ UNCHANGED <<cuts, wr, flushed, rd, arena, cur, slen, pc, off, disp, ref, reported>>

AllDone == wr = Total /\ rd = Total /\ pc = "read" /\ \A j \in Pkts : h[j] = "done"

\* region of a cut position: r = c % L
CutRec(c) == [pkt |-> c \div L, r |-> c % L, flushed |-> c \in flushed]
SetToSeq(S) == LET RECURSIVE f(_) f(T) == IF T = {} THEN <<>> ELSE LET m == CHOOSE x \in T : \A y \in T : x <= y IN <<m>> \o f(T \ {m}) IN f(S)

Report ==
  /\ AllDone /\ ~reported
  /\ reported' = TRUE
  /\ Export => PrintT(<<"CASE", ToJson([npkt |-> NPkt, hdr |-> HdrLen, pre |-> Pre, pay |-> Pay, post |-> Post,
                                         cuts |-> [i \in 1..Cardinality(cuts) |-> CutRec(SetToSeq(cuts)[i])]])>>)
  /\ UNCHANGED <<cuts, wr, flushed, rd, arena, cur, slen, pc, off, disp, h, ref, seen>>

SNext == Write \/ Read \/ Dispatch \/ Compact \/ (\E j \in Pkts : HandlerRun(j)) \/ Report

SSpec == Init /\ [][SNext]_svars
SFair == SSpec /\ WF_svars(SNext)

(***************************************************************************)
(* Properties                                                               *)
(***************************************************************************)
STypeOK ==
  /\ wr \in 0..Total /\ rd \in 0..wr /\ slen >= 0 /\ off >= 0 /\ off <= slen
  /\ disp \in 0..NPkt /\ pc \in {"read", "scan"}
  /\ cur = Len(arena) /\ slen <= Cap

\* The payload a handler goroutine reads is the payload the client wrote for
\* that packet ...
PayloadIntegrity == \A j \in Pkts : h[j] = "done" => seen[j] = Payload(j)
\* ... because the memory a spawned handler refers to is not reused while
\* the handler has not run
BufferNotReused == \A j \in Pkts : h[j] = "spawned" => Deref(ref[j]) = Payload(j)

\* the decode loop itself: packets are dispatched in order, exactly those
\* that have arrived completely; the stream holds the unconsumed bytes
DecodeLoop ==
  /\ \A j \in Pkts : (h[j] # "none") <=> (j <= disp)
  /\ disp * L <= rd
  /\ pc = "read" =>
       /\ disp = rd \div L
       /\ slen = rd - disp * L
       /\ \A x \in 1..slen : arena[cur][x] = disp * L + x
  /\ pc = "scan" => \A x \in (off + 1)..slen : arena[cur][x] = rd - slen + x

\* no packet is lost, every handler runs (under fairness)
EventuallyAllDone == <>AllDone
=============================================================================
