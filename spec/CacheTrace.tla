---------------------------- MODULE CacheTrace ----------------------------
(***************************************************************************)
(* Trace validation of the caches of one build context (binding T of C09). *)
(*                                                                         *)
(* The hooks in internal/cache report every lookup:                        *)
(*   cache.fs   {p, hit, src}        src = digest of the contents returned *)
(*   cache.js / cache.css / cache.json {p, hit, src, opts}                 *)
(*              src = digest of the source text handed to the parser,      *)
(*              opts = digest of the full parser option record by value    *)
(* The harness adds to every cache.fs event the digest `cur` of the bytes  *)
(* that the file really has at that moment, and {"ev":"reset"} between the *)
(* traces of different contexts.                                           *)
(*                                                                         *)
(* The spec keeps the cache contents that the reported misses imply (the   *)
(* cache state machine of Cache.tla: a miss stores, a hit leaves the entry *)
(* unchanged) and decides for every hit whether Cache.tla allows it:       *)
(*   FsHitImpliesSameContent        an FS hit returns the bytes the file   *)
(*                                  has now                                *)
(*   AstHitImpliesSameRelevantOpts  an AST hit finds an entry stored for   *)
(*                                  the same source text and the same      *)
(*                                  option values                          *)
(* A forbidden hit is exported (CASE record with its line number) and the  *)
(* trace is consumed to the end, so that one batch validates many traces.  *)
(***************************************************************************)
EXTENDS Integers, Sequences, TLC, Json

TraceLog == ndJsonDeserialize("cache_trace.ndjson")

VARIABLES l,      \* index of the next event
          fsC,    \* path -> digest stored by the last miss
          astC,   \* <<kind, path>> -> <<src, opts>> stored by the last miss
          nflag   \* number of forbidden hits so far

vars == <<l, fsC, astC, nflag>>
Empty == [x \in {} |-> ""]
Ev == TraceLog[l]
Key == <<Ev.ev, Ev.p>>

Init == l = 1 /\ fsC = Empty /\ astC = [x \in {} |-> <<"", "">>] /\ nflag = 0 /\ TLCSet(1, 1)

Flag(why) == PrintT(<<"CASE", ToJson([line |-> l, why |-> why])>>)

Reset ==
  /\ Ev.ev = "reset"
  /\ fsC' = Empty /\ astC' = [x \in {} |-> <<"", "">>] /\ UNCHANGED nflag

FsAllowed == Ev.p \in DOMAIN fsC /\ fsC[Ev.p] = Ev.src /\ Ev.src = Ev.cur
FsLookup ==
  /\ Ev.ev = "cache.fs"
  /\ IF Ev.hit
     THEN /\ UNCHANGED fsC
          /\ IF FsAllowed THEN UNCHANGED nflag
             ELSE /\ Flag(IF Ev.p \notin DOMAIN fsC \/ fsC[Ev.p] # Ev.src THEN "fs-hit-without-matching-entry" ELSE "fs-hit-with-different-content")
                  /\ nflag' = nflag + 1
     ELSE /\ fsC' = (Ev.p :> Ev.src) @@ fsC
          /\ IF Ev.src = Ev.cur THEN UNCHANGED nflag
             ELSE Flag("fs-miss-read-differs-from-file") /\ nflag' = nflag + 1
  /\ UNCHANGED astC

AstAllowed == Key \in DOMAIN astC /\ astC[Key] = <<Ev.src, Ev.opts>>
AstLookup ==
  /\ Ev.ev \in {"cache.js", "cache.css", "cache.json"}
  /\ IF Ev.hit
     THEN /\ UNCHANGED astC
          /\ IF AstAllowed THEN UNCHANGED nflag
             ELSE /\ Flag(IF Key \notin DOMAIN astC THEN "ast-hit-without-entry"
                          ELSE IF astC[Key][1] # Ev.src THEN "ast-hit-with-different-source"
                          ELSE "ast-hit-with-different-options")
                  /\ nflag' = nflag + 1
     ELSE astC' = (Key :> <<Ev.src, Ev.opts>>) @@ astC /\ UNCHANGED nflag
  /\ UNCHANGED fsC

Next == l <= Len(TraceLog) /\ l' = l + 1 /\ (Reset \/ FsLookup \/ AstLookup)
TraceSpec == Init /\ [][Next]_vars

\* the properties, as invariants of the matched behaviour (nflag counts their violations)
HighWater == TLCSet(1, IF l > TLCGet(1) THEN l ELSE TLCGet(1))
TraceAccepted == TLCGet(1) = Len(TraceLog) + 1
=============================================================================
