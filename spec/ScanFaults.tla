----------------------------- MODULE ScanFaults -----------------------------
(***************************************************************************)
(* C16 part (i): one build context running builds through the pipeline     *)
(*     on-start callbacks -> injected files -> entry points -> parallel    *)
(*     scan -> link (chunk generators, per-file printers) -> result        *)
(* with FAULTS: a parse goroutine that panics, a per-file printer or a     *)
(* chunk generator that panics, a plugin callback (on-start / on-load)     *)
(* that reports an error, and cancellation at any moment (polled at the    *)
(* poll points of the code).  The scan part is Scan.tla (C08) extended;    *)
(* anchors: internal/bundler/bundler.go ScanBundle, parseFile (deferred    *)
(* recover), scanAllDependencies, the deferred drain loop; internal/       *)
(* linker/linker.go generateChunksInParallel, generateChunkJS,             *)
(* generateCodeForFileInChunkJS, recoverInternalError; pkg/api rebuildImpl.*)
(*                                                                         *)
(* A behaviour is: build 1 with the faults of `fault` (chosen in Init, so  *)
(* TLC enumerates every placement for every graph), then build 2 on the    *)
(* same context with no fault.  TLC checks                                 *)
(*   Termination          every build returns (under weak fairness)        *)
(*   PanicBecomesMessage  every recovered panic is a message of the build  *)
(*   Drained              no goroutine is left blocked, all counters zero  *)
(*   NoCrash              no panic escapes a recover                       *)
(*   UsableAfterFailure   build 2 gives the canonical (fault-free) result  *)
(* and exports (graph, fault, messages of build 1) for every terminal      *)
(* state; the harness replays them through `verif` fault gates.            *)
(*                                                                         *)
(* GuardFinal: after the chunk generators are done, the code computes the  *)
(* final hash of every chunk whose name template contains [hash] from the  *)
(* isolated hashes of the chunks; a generator that panicked never set its  *)
(* hash function.  GuardFinal = TRUE is the design the property requires   *)
(* (no finalisation once errors were logged); FALSE is the code as read.   *)
(***************************************************************************)
EXTENDS Integers, Sequences, FiniteSets, TLC, Json

CONSTANTS
  Graphs,       \* sequence of [name, modules, imports, entries, injected]
  FaultKinds,   \* subset of {"none","parse-panic","print-panic","chunk-panic","load-error","start-error","cancel"}
  NOnStart,
  GuardFinal,
  SmapModes,    \* subset of {"off", "plain", "nested", "nested-exclude"}: source maps off / on without input maps / on with
                \* input (nested) maps / the same with sourcesContent excluded
  SmapDonePaths \* the paths of a source-map worker on which it calls waitGroup.Done(): the design has all three

Runtime == "<runtime>"

VARIABLES
  g,            \* index of the graph
  hashed,       \* BOOLEAN: the names of the output files contain [hash]
  fault,        \* [kind, at]: the fault of build 1
  build,        \* 1 | 2 | 3 (3 = both builds returned)
  phase,        \* "onstart" | "inject" | "entries" | "scan" | "drain" | "link" | "final" | "returned" | "crashed"
  startLeft, visited, nextIdx, remaining, parsing, ready, received,
  entryNext, injNext, injWaiting,
  panicked,     \* files / chunks whose goroutine panicked and recovered
  cancel,       \* the cancel flag of the current build
  cancelAt,     \* number of results the main goroutine receives before the cancel flag is set (-1: never)
  genLeft,      \* generateWaitGroup
  chunkSt,      \* [chunk -> "idle" | "running" | "waitfiles" | "done" | "panicked"]
  fileLeft,     \* [chunk -> per-chunk wait group]
  printers,     \* set of <<chunk, file>> printer goroutines running
  hashSet,      \* chunks whose isolated hash function has been set
  msgs,         \* messages of the current build
  result1,      \* messages of build 1 (kept for the export)
  smap,         \* source map mode of the context (both builds)
  smWorkers,    \* source-map data workers (Bundle.computeDataForSourceMapsInParallel): set of <<build, file>> still running
  smLeft        \* their wait group; every chunk generator waits on it (c.dataForSourceMaps()) before it prints

vars == <<g, hashed, fault, build, phase, startLeft, visited, nextIdx, remaining, parsing, ready, received, entryNext, injNext,
          injWaiting, panicked, cancel, cancelAt, genLeft, chunkSt, fileLeft, printers, hashSet, msgs, result1, smap, smWorkers, smLeft>>

G == Graphs[g]
Modules == G.modules
Files == Modules \cup {Runtime}
Imports(f) == IF f = Runtime THEN <<>> ELSE G.imports[f]
Faulty == build = 1

(* what is reachable over import records *)
RECURSIVE ReachG(_, _, _)
ReachG(gi, todo, acc) ==
  IF todo = {} THEN acc
  ELSE LET m == CHOOSE x \in todo : TRUE
           imps == IF m = Runtime THEN <<>> ELSE Graphs[gi].imports[m]
           nxt == {imps[i] : i \in 1..Len(imps)} IN
       ReachG(gi, (todo \cup nxt) \ (acc \cup {m}), acc \cup {m})
SeqSet(s) == {s[i] : i \in 1..Len(s)}

(* without code splitting every entry point is linked on its own: one chunk per entry point, holding
   the files reachable from it and from the injected files *)
ChunksOf(gi) == SeqSet(Graphs[gi].entries)
FilesOfG(gi, c) == ReachG(gi, {c} \cup SeqSet(Graphs[gi].injected), {})
Chunks == ChunksOf(g)
FilesOf(c) == FilesOfG(g, c)

Msg(k, a) == [kind |-> k, at |-> a]
FaultsOf(gi) ==
  LET GG == Graphs[gi] IN
  {Msg("none", "-")}
  \cup {Msg("parse-panic", f) : f \in GG.modules}
  \cup {Msg("load-error", f) : f \in GG.modules}
  \cup {Msg("print-panic", f) : f \in UNION {FilesOfG(gi, c) : c \in ChunksOf(gi)}}
  \cup {Msg("chunk-panic", c) : c \in ChunksOf(gi)}
  \cup {Msg("chunk-panic-late", c) : c \in ChunksOf(gi)}
  \cup {Msg("start-error", "-")}
  \cup {Msg("cancel", k) : k \in {"0", "1", "2", "3", "link"}}

FreshScan ==
  /\ phase' = "onstart" /\ startLeft' = NOnStart
  /\ visited' = [f \in Files |-> IF f = Runtime THEN 0 ELSE -1]
  /\ nextIdx' = 1 /\ remaining' = 1
  /\ parsing' = {Runtime} /\ ready' = {} /\ received' = {}
  /\ entryNext' = 1 /\ injNext' = 1 /\ injWaiting' = {}
  /\ panicked' = {} /\ cancel' = FALSE
  /\ genLeft' = 0 /\ chunkSt' = [c \in Chunks |-> "idle"] /\ fileLeft' = [c \in Chunks |-> 0]
  /\ printers' = {} /\ hashSet' = {} /\ msgs' = {} /\ smWorkers' = {} /\ smLeft' = 0

\* the source-map workers only exist if the link phase is reached: the other fault placements are
\* explored (and replayed) with source maps off
SmapRelevant(f) == f.kind \in {"none", "print-panic", "chunk-panic", "chunk-panic-late"} \/ (f.kind = "cancel" /\ f.at = "link")

Init ==
  /\ g \in 1..Len(Graphs)
  /\ hashed \in BOOLEAN
  /\ fault \in {x \in FaultsOf(g) : x.kind \in FaultKinds \/ (x.kind = "chunk-panic-late" /\ "chunk-panic" \in FaultKinds)}
  /\ smap \in {m \in SmapModes : m = "off" \/ SmapRelevant(fault)}
  /\ smWorkers = {} /\ smLeft = 0
  /\ build = 1
  /\ phase = "onstart" /\ startLeft = NOnStart
  /\ visited = [f \in Files |-> IF f = Runtime THEN 0 ELSE -1]
  /\ nextIdx = 1 /\ remaining = 1
  /\ parsing = {Runtime} /\ ready = {} /\ received = {}
  /\ entryNext = 1 /\ injNext = 1 /\ injWaiting = {}
  /\ panicked = {} /\ cancel = FALSE
  /\ cancelAt = (IF fault.kind = "cancel" /\ fault.at \in {"0", "1", "2", "3"}
                   THEN (CASE fault.at = "0" -> 0 [] fault.at = "1" -> 1 [] fault.at = "2" -> 2 [] fault.at = "3" -> 3) ELSE -1)
  /\ genLeft = 0 /\ chunkSt = [c \in Chunks |-> "idle"] /\ fileLeft = [c \in Chunks |-> 0]
  /\ printers = {} /\ hashSet = {} /\ msgs = {} /\ result1 = {}

Has(k, a) == Faulty /\ fault.kind = k /\ fault.at = a

(* ------------------------------------------------------------------ scan *)
RECURSIVE Visit(_, _, _, _, _)
Visit(ms, vis, nxt, rem, par) ==
  IF ms = <<>> THEN <<vis, nxt, rem, par>>
  ELSE LET m == Head(ms) IN
       IF vis[m] # -1 THEN Visit(Tail(ms), vis, nxt, rem, par)
       ELSE Visit(Tail(ms), [vis EXCEPT ![m] = nxt], nxt + 1, rem + 1, par \cup {m})

ScanVars == <<visited, nextIdx, remaining, parsing>>
LinkVars == <<genLeft, chunkSt, fileLeft, printers, hashSet, smWorkers, smLeft>>
Fixed == <<g, hashed, fault, build, cancelAt, result1, smap>>

OnStartEnd ==
  /\ phase = "onstart" /\ startLeft > 0
  /\ startLeft' = startLeft - 1
  \* a failing on-start callback logs a message; the scan goes on
  /\ msgs' = IF Has("start-error", "-") /\ startLeft = NOnStart THEN msgs \cup {Msg("error-start", "-")} ELSE msgs
  /\ UNCHANGED <<phase, ScanVars, ready, received, entryNext, injNext, injWaiting, panicked, cancel, LinkVars, Fixed>>

\* every cancel poll point of ScanBundle: after the barrier, after the injected files, after the entry
\* points (and inside scanAllDependencies: PollCancel)
Goto(p) == phase' = IF cancel THEN "drain" ELSE p

Barrier ==
  /\ phase = "onstart" /\ startLeft = 0
  /\ Goto("inject")
  /\ UNCHANGED <<startLeft, ScanVars, ready, received, entryNext, injNext, injWaiting, panicked, cancel, LinkVars, msgs, Fixed>>

InjectSpawn ==
  /\ phase = "inject" /\ injNext <= Len(G.injected)
  /\ LET m == G.injected[injNext]
         v == Visit(<<m>>, visited, nextIdx, remaining, parsing) IN
       /\ visited' = v[1] /\ nextIdx' = v[2] /\ remaining' = v[3] /\ parsing' = v[4]
       /\ injWaiting' = IF visited[m] = -1 THEN injWaiting \cup {m} ELSE injWaiting
  /\ injNext' = injNext + 1
  /\ UNCHANGED <<phase, startLeft, ready, received, entryNext, panicked, cancel, LinkVars, msgs, Fixed>>

InjectWaitDone ==
  /\ phase = "inject" /\ injNext > Len(G.injected) /\ injWaiting = {}
  /\ Goto("entries")
  /\ UNCHANGED <<startLeft, ScanVars, ready, received, entryNext, injNext, injWaiting, panicked, cancel, LinkVars, msgs, Fixed>>

AddEntry ==
  /\ phase = "entries" /\ entryNext <= Len(G.entries)
  /\ LET v == Visit(<<G.entries[entryNext]>>, visited, nextIdx, remaining, parsing) IN
       /\ visited' = v[1] /\ nextIdx' = v[2] /\ remaining' = v[3] /\ parsing' = v[4]
  /\ entryNext' = entryNext + 1
  /\ UNCHANGED <<phase, startLeft, ready, received, injNext, injWaiting, panicked, cancel, LinkVars, msgs, Fixed>>

EntriesDone ==
  /\ phase = "entries" /\ entryNext > Len(G.entries)
  /\ Goto("scan")
  /\ UNCHANGED <<startLeft, ScanVars, ready, received, entryNext, injNext, injWaiting, panicked, cancel, LinkVars, msgs, Fixed>>

\* a parse goroutine finishes: normally, with a plugin error (a message, result not ok), or by a
\* panic that the deferred recover turns into a message; in every case it sends on the inject channel
\* (if it is an injected file) and then blocks sending its result
ParseEnd(f) ==
  /\ f \in parsing
  /\ parsing' = parsing \ {f}
  /\ ready' = ready \cup {f}
  /\ injWaiting' = injWaiting \ {f}
  /\ IF Has("parse-panic", f) THEN /\ panicked' = panicked \cup {Msg("panic-parse", f)}
                                   /\ msgs' = msgs \cup {Msg("panic-parse", f)}
     ELSE IF Has("load-error", f) THEN /\ panicked' = panicked \cup {Msg("error-load", f)}   \* result.ok = false as well
                                       /\ msgs' = msgs \cup {Msg("error-load", f)}
     ELSE UNCHANGED <<panicked, msgs>>
  /\ UNCHANGED <<phase, startLeft, visited, nextIdx, remaining, received, entryNext, injNext, cancel, LinkVars, Fixed>>

ImportsOf(f) == IF \E x \in panicked : x.at = f THEN <<>> ELSE Imports(f)

MainRecv(f) ==
  /\ phase = "scan" /\ ~cancel
  /\ f \in ready
  /\ ready' = ready \ {f}
  /\ received' = received \cup {f}
  /\ LET v == Visit(ImportsOf(f), visited, nextIdx, remaining - 1, parsing) IN
       /\ visited' = v[1] /\ nextIdx' = v[2] /\ remaining' = v[3] /\ parsing' = v[4]
  \* the harness sets the cancel flag when the main goroutine has received cancelAt results
  /\ cancel' = (Faulty /\ cancelAt >= 0 /\ Cardinality(received') >= cancelAt)
  /\ UNCHANGED <<phase, startLeft, entryNext, injNext, injWaiting, panicked, LinkVars, msgs, Fixed>>

CancelEarly ==   \* cancelAt = 0: the flag is set before anything is received
  /\ Faulty /\ cancelAt = 0 /\ ~cancel /\ phase \in {"onstart", "inject", "entries", "scan"} /\ received = {}
  /\ cancel' = TRUE
  /\ UNCHANGED <<phase, startLeft, ScanVars, ready, received, entryNext, injNext, injWaiting, panicked, LinkVars, msgs, Fixed>>

PollCancel ==
  /\ phase = "scan" /\ cancel /\ remaining > 0
  /\ phase' = "drain"
  /\ UNCHANGED <<startLeft, ScanVars, ready, received, entryNext, injNext, injWaiting, panicked, cancel, LinkVars, msgs, Fixed>>

Drain(f) ==
  /\ phase = "drain" /\ f \in ready
  /\ ready' = ready \ {f}
  /\ remaining' = remaining - 1
  /\ UNCHANGED <<phase, startLeft, visited, nextIdx, parsing, received, entryNext, injNext, injWaiting, panicked, cancel, LinkVars, msgs, Fixed>>

Return(extra) ==
  /\ phase' = "returned" /\ build' = build + 1
  /\ msgs' = msgs \cup extra
  /\ result1' = IF build = 1 THEN msgs \cup extra ELSE result1
  /\ UNCHANGED <<g, hashed, fault, cancelAt, smap, startLeft, ScanVars, ready, received, entryNext, injNext, injWaiting, panicked, cancel, LinkVars>>

\* the second build on the same context
StartSecond ==
  /\ phase = "returned" /\ build = 2
  \* (the replay starts build 2 when no goroutine of build 1 is left: a worker nobody waited for may still be running)
  /\ smWorkers = {}
  /\ FreshScan
  /\ UNCHANGED Fixed

\* a cancelled scan: the deferred loop has consumed every outstanding result; no compile phase.
\* (rebuildImpl only adds "The build was canceled" after Compile, i.e. if the scan logged no error)
DrainDone ==
  /\ phase = "drain" /\ remaining = 0
  /\ Return(IF msgs = {} THEN {Msg("error", "canceled")} ELSE {})

\* the scan is complete: stop if errors were logged, else compile
ScanDone ==
  /\ phase = "scan" /\ remaining = 0
  /\ IF msgs # {} THEN Return({})
     ELSE IF cancel THEN Return({Msg("error", "canceled")})
     ELSE /\ phase' = "link"
          /\ genLeft' = Cardinality(Chunks)
          /\ chunkSt' = [c \in Chunks |-> "running"]
          \* cancel "link": the flag is set while the chunk generators run
          /\ cancel' = Has("cancel", "link")
          \* Compile starts one source-map worker per reachable file before it links (only if source maps are on)
          /\ smWorkers' = IF smap = "off" THEN {} ELSE {<<build, f>> : f \in received}
          /\ smLeft' = IF smap = "off" THEN 0 ELSE Cardinality(received)
          /\ UNCHANGED <<startLeft, ScanVars, ready, received, entryNext, injNext, injWaiting, panicked, fileLeft, printers, hashSet, msgs, Fixed>>

(* ------------------------------------------------------------------ link *)
ChunkSpawn(c) ==
  /\ phase = "link" /\ chunkSt[c] = "running" /\ ~Has("chunk-panic", c)
  /\ smLeft = 0          \* c.dataForSourceMaps(): waitGroup.Wait() on the source-map workers
  /\ chunkSt' = [chunkSt EXCEPT ![c] = "waitfiles"]
  /\ fileLeft' = [fileLeft EXCEPT ![c] = Cardinality(FilesOf(c))]
  /\ printers' = printers \cup {<<c, f>> : f \in FilesOf(c)}
  /\ UNCHANGED <<phase, startLeft, ScanVars, ready, received, entryNext, injNext, injWaiting, panicked, cancel, genLeft, hashSet, smWorkers, smLeft, msgs, Fixed>>

\* a source-map worker ends.  Its path: the file has no input map / has one / has one and sourcesContent is
\* excluded.  On every path it must call Done (SmapDonePaths = all three); a path that returns without Done leaves
\* every chunk generator blocked in Wait for ever.
SmPath(f) == IF f = Runtime \/ smap = "plain" THEN "no-map" ELSE IF smap = "nested" THEN "nested" ELSE "nested-excluded"
SmapEnd(w) ==
  /\ w \in smWorkers
  /\ smWorkers' = smWorkers \ {w}
  /\ smLeft' = IF w[1] = build /\ phase = "link" /\ SmPath(w[2]) \in SmapDonePaths THEN smLeft - 1 ELSE smLeft
  /\ UNCHANGED <<phase, startLeft, ScanVars, ready, received, entryNext, injNext, injWaiting, panicked, cancel, genLeft, chunkSt, fileLeft, printers, hashSet, msgs, Fixed>>

\* a per-file printer: done, or panics and recoverInternalError logs and calls waitGroup.Done()
PrintEnd(c, f) ==
  /\ <<c, f>> \in printers
  /\ printers' = printers \ {<<c, f>>}
  /\ fileLeft' = [fileLeft EXCEPT ![c] = @ - 1]
  /\ IF Has("print-panic", f) THEN /\ msgs' = msgs \cup {Msg("panic-print", f)} /\ panicked' = panicked \cup {Msg("panic-print", f)}
     ELSE UNCHANGED <<msgs, panicked>>
  /\ UNCHANGED <<phase, startLeft, ScanVars, ready, received, entryNext, injNext, injWaiting, cancel, genLeft, chunkSt, hashSet, smWorkers, smLeft, Fixed>>

\* the chunk generator: finishes (sets its isolated hash function), or panics before / after its printers
ChunkEnd(c) ==
  /\ phase = "link"
  /\ \/ /\ chunkSt[c] = "running" /\ Has("chunk-panic", c)
        /\ chunkSt' = [chunkSt EXCEPT ![c] = "panicked"]
        /\ msgs' = msgs \cup {Msg("panic-chunk", c)} /\ panicked' = panicked \cup {Msg("panic-chunk", c)}
        /\ UNCHANGED hashSet
     \/ /\ chunkSt[c] = "waitfiles" /\ fileLeft[c] = 0 /\ Has("chunk-panic-late", c)
        /\ chunkSt' = [chunkSt EXCEPT ![c] = "panicked"]
        /\ msgs' = msgs \cup {Msg("panic-chunk", c)} /\ panicked' = panicked \cup {Msg("panic-chunk", c)}
        /\ UNCHANGED hashSet
     \/ /\ chunkSt[c] = "waitfiles" /\ fileLeft[c] = 0 /\ ~Has("chunk-panic-late", c)
        /\ chunkSt' = [chunkSt EXCEPT ![c] = "done"]
        /\ hashSet' = hashSet \cup {c}
        /\ UNCHANGED <<msgs, panicked>>
  /\ genLeft' = genLeft - 1
  /\ UNCHANGED <<phase, startLeft, ScanVars, ready, received, entryNext, injNext, injWaiting, cancel, fileLeft, printers, smWorkers, smLeft, Fixed>>

\* generateWaitGroup.Wait() returned: final hashes of the chunks whose name contains [hash]
Finalize ==
  /\ phase = "link" /\ genLeft = 0
  /\ IF GuardFinal /\ msgs # {} THEN Return({})
     ELSE IF hashed /\ \E c \in Chunks : c \notin hashSet
            THEN /\ phase' = "crashed"    \* call of a nil hash function on the goroutine that links
                 /\ UNCHANGED <<build, startLeft, ScanVars, ready, received, entryNext, injNext, injWaiting, panicked, cancel, LinkVars, msgs, result1, g, hashed, fault, cancelAt, smap>>
            ELSE Return(IF msgs = {} /\ cancel THEN {Msg("error", "canceled")} ELSE {})

Next ==
  \/ OnStartEnd \/ Barrier \/ InjectSpawn \/ InjectWaitDone \/ AddEntry \/ EntriesDone
  \/ \E f \in Files : ParseEnd(f) \/ MainRecv(f) \/ Drain(f)
  \/ CancelEarly \/ PollCancel \/ DrainDone \/ ScanDone
  \/ \E c \in Chunks : ChunkSpawn(c) \/ ChunkEnd(c) \/ (\E f \in FilesOf(c) : PrintEnd(c, f))
  \/ Finalize \/ StartSecond
  \/ \E w \in smWorkers : SmapEnd(w)

Spec == Init /\ [][Next]_vars
FairSpec == Spec /\ WF_vars(Next)

(* ---------------------------------------------------------------- checks *)
Phases == {"onstart", "inject", "entries", "scan", "drain", "link", "returned", "crashed"}
TypeOK == /\ phase \in Phases /\ build \in 1..3 /\ remaining >= 0 /\ genLeft >= 0
          /\ \A c \in Chunks : fileLeft[c] >= 0

NoCrash == phase # "crashed"

\* counters are exact: what is outstanding is what the wait groups / s.remaining say
CountersExact ==
  /\ remaining = Cardinality(parsing \cup ready)
  /\ \A c \in Chunks : fileLeft[c] = Cardinality({p \in printers : p[1] = c})
  /\ (phase = "link") => genLeft = Cardinality({c \in Chunks : chunkSt[c] \in {"running", "waitfiles"}})
  \* the source-map wait group counts exactly the workers of this build that are still running
  /\ (phase = "link") => smLeft = Cardinality({w \in smWorkers : w[1] = build})

\* whenever a build has returned nothing of it is left running or blocked.  (At the moment build 1
\* returns, the state is already the fresh state of build 2: checked through the history variables.)
Drained == (phase = "returned") => (remaining = 0 /\ parsing = {} /\ ready = {} /\ printers = {} /\ genLeft = 0)

\* a recovered panic is a message of the build in which it happened
PanicBecomesMessage == panicked \subseteq msgs

\* post-order DFS over import records from the runtime, the injected files, the entry points
Reachable == ReachG(g, {Runtime} \cup SeqSet(G.injected) \cup SeqSet(G.entries), {})

\* the second build on the same context gives the canonical result: everything reachable was
\* received, every chunk was generated, no message
UsableAfterFailure ==
  (build = 3) => /\ msgs = {} /\ received = Reachable /\ hashSet = Chunks /\ panicked = {}

\* with no fault the first build is canonical too
FaultFree == (build >= 2 /\ fault.kind = "none") => result1 = {}

\* the messages of build 1 follow from the graph and the fault alone, whatever the interleaving
\* (cancellation excepted: the build may also have completed before the flag was polled)
Expected ==
  LET at == fault.at
      parsed == at \in Reachable
  IN CASE fault.kind = "none" -> {}
       [] fault.kind = "parse-panic" -> IF parsed THEN {Msg("panic-parse", at)} ELSE {}
       [] fault.kind = "load-error" -> IF parsed THEN {Msg("error-load", at)} ELSE {}
       [] fault.kind = "start-error" -> IF NOnStart > 0 THEN {Msg("error-start", "-")} ELSE {}
       [] fault.kind = "print-panic" -> {Msg("panic-print", at)}
       [] fault.kind \in {"chunk-panic", "chunk-panic-late"} -> {Msg("panic-chunk", at)}
       [] OTHER -> {}
Deterministic == (build >= 2 /\ fault.kind # "cancel") => result1 = Expected
CancelOutcome == (build >= 2 /\ fault.kind = "cancel") => result1 \in {{}, {Msg("error", "canceled")}}

\* the messages of build 1 are determined by the fault placement and the graph alone (not by the
\* interleaving), except for cancellation, where the build may also complete
Termination == <>((phase = "returned" /\ build = 3) \/ phase = "crashed")
\* a worker nobody waits for (every generator panicked before its Wait) still ends
WorkersEnd == <>[](phase = "crashed" \/ smWorkers = {})

Export ==
  (build = 3 \/ phase = "crashed") =>
     PrintT(<<"CASE", ToJson([graph |-> G.name, hashed |-> hashed, smap |-> smap, fault |-> fault, msgs |-> result1, crashed |-> (phase = "crashed")])>>)
=============================================================================
