------------------------------- MODULE Cache -------------------------------
(***************************************************************************)
(* C09: incremental rebuilds and watch mode equal clean builds.            *)
(*                                                                         *)
(* A small project tree on an abstract file system, the edit alphabet of   *)
(* the property's quantifier, the caches owned by a build context          *)
(* (internal/cache: FSCache keyed by path and compared on the mod key,     *)
(* JSCache keyed by path and compared on the source text and on            *)
(* js_parser.Options.Equal), the observations a build makes and the watch  *)
(* predicates internal/fs/fs_real.go records for them.                     *)
(*                                                                         *)
(* The tree (harness/props/c09/tree.go materialises exactly this):         *)
(*   pkg   package.json        {type, sideEffects}                         *)
(*   tsc   tsconfig.json       {jsx, jsxFactory, jsxFragmentFactory,       *)
(*                              jsxImportSource, useDefineForClassFields,  *)
(*                              target, alwaysStrict, paths,               *)
(*                              verbatimModuleSyntax}                      *)
(*   nmpkg node_modules/lib/package.json {main}                            *)
(*   entry entry.tsx   imports "./x", "./dep", "./cjs", "./d" (bare)       *)
(*   xjs   x.js        xts  x.ts (shadows x.js: ".ts" is tried first)      *)
(*   dep   dep.js      symlink -> A.js | B.js (or a regular file)          *)
(*   d     d/          didx d/index.js (imports "lib")   dfile d.js        *)
(*   near  d/node_modules/lib/index.js (nearer node_modules)               *)
(*   fixed: A.js B.js cjs.js liblocal.js node_modules/lib/main{1,2}.js     *)
(*                                                                         *)
(* Two constants decide whether the model transcribes the code or the      *)
(* repaired design:                                                        *)
(*   ComparedFields  the option fields that Options.Equal compares         *)
(*   WatchKinds      whether Entry.Kind()/Symlink() answers get a watch    *)
(*                   predicate (the code records none)                     *)
(***************************************************************************)
EXTENDS Integers, Sequences, FiniteSets, TLC, Json, SequencesExt

CONSTANTS
  MaxEdits,        \* length of the edit histories
  Gap,             \* the mod-key safety gap (3 s in modkey_unix.go), in ticks
  Settle,          \* subset of BOOLEAN: may >= Gap ticks pass between an edit and the next build?
  ComparedFields,  \* subset of OptFields: what js_parser.Options.Equal compares (see OptionsEqual)
  WatchKinds,      \* BOOLEAN
  Backdate,        \* BOOLEAN: allow an edit that keeps size, mtime and inode (violates "mtimes advance normally")
  CopyEntryPoints, \* BOOLEAN: does a build work on a copy of the context's entry-point list? (the code: FALSE)
  EditClasses,     \* subset of {"src","fsys","link","pkg","tsc","nm"}: which parts of the alphabet are enabled
  Fan1, Fan2, Fan3, \* per depth: 0 = every enabled edit at that depth, n > 0 = n pseudo-random ones (generator)
  Seed,            \* seed of the pseudo-random choice
  Export           \* BOOLEAN: print a CASE record for every complete history

Fan == <<Fan1, Fan2, Fan3>>

VARIABLES
  src,    \* [SrcPaths -> node]  node = [k, c, m, i]
  cfg,    \* [CfgPaths -> cnode] cnode = [k, f, c, m, i]  (c = content id of f)
  now,    \* clock tick
  ino,    \* next unused inode number
  fsc,    \* FSCache      [FsKeys  -> [has, c, f, mk]]
  astc,   \* JSCache      [AstKeys -> [has, c, o]]
  fres,   \* the result of a fresh build of the current tree
  ep,     \* the context's entry-point list: has "entry.tsx" been rewritten to "./entry.tsx"?
  watch,  \* watch predicates recorded by the last build
  obs,    \* observations made by the last build (superset of what watch covers)
  hist,   \* edits so far
  hh,     \* running hash of hist (for the seeded choice)
  exp,    \* what the spec predicts for every step of hist
  phase,  \* "build" | "edit"
  last    \* verdict flags of the last build and of the last edit

vars == <<src, cfg, now, ino, fres, fsc, astc, ep, watch, obs, hist, hh, exp, phase, last>>

----------------------------------------------------------------------------
(* Paths and contents                                                      *)

SrcPaths == {"entry", "xjs", "xts", "dep", "d", "didx", "dfile", "near"}
CfgPaths == {"pkg", "tsc", "nmpkg"}
Fixed    == {"A", "B", "cjs", "liblocal", "main1", "main2"}
FsKeys   == SrcPaths \cup CfgPaths \cup Fixed
AstKeys  == SrcPaths \cup Fixed

CfgFields == {"type", "sideEffects", "main", "jsx", "jsxFactory", "jsxFragmentFactory", "jsxImportSource",
              "useDefineForClassFields", "target", "alwaysStrict", "paths", "verbatimModuleSyntax", "syntax"}
NoneCfg == [k \in CfgFields |-> IF k = "syntax" THEN "ok" ELSE "none"]

\* the values a single-field edit may give to each field of each config file
FieldValues(p) ==
  CASE p = "pkg"   -> [type |-> {"none", "module", "commonjs"}, sideEffects |-> {"none", "false"}, syntax |-> {"ok", "bad"}]
    [] p = "nmpkg" -> [main |-> {"none", "main1", "main2"}]
    [] p = "tsc"   -> [jsx |-> {"none", "react", "react-jsx", "react-jsxdev", "preserve"},
                       jsxFactory |-> {"none", "h"}, jsxFragmentFactory |-> {"none", "Frag"},
                       jsxImportSource |-> {"none", "foo"},
                       useDefineForClassFields |-> {"none", "true", "false"},
                       target |-> {"none", "ES2020"}, alwaysStrict |-> {"none", "true"},
                       paths |-> {"none", "liblocal"}, verbatimModuleSyntax |-> {"none", "true"},
                       syntax |-> {"ok", "bad"}]

InitCfg(p) == IF p = "nmpkg" THEN [NoneCfg EXCEPT !.main = "main1"] ELSE NoneCfg

\* content versions of a source file: "1" and "2" have the same length
WriteVersions ==
  [entry |-> {"1", "2", "3", "bad"}, xjs |-> {"1", "2", "bad"}, xts |-> {"1", "2"},
   didx |-> {"1", "2", "bad"}, dfile |-> {"1"}, near |-> {"1", "2"}, d |-> {"1"}, dep |-> {}]
\* a rename carries the text of one path to another one: "r1" is the text of version 1 of the other path
Renamed(v) == CASE v = "1" -> "r1" [] v = "2" -> "r2" [] v = "3" -> "r3" [] v = "bad" -> "rbad"
                [] v = "r1" -> "1" [] v = "r2" -> "2" [] v = "r3" -> "3" [] v = "rbad" -> "bad" [] OTHER -> v
\* x.ts text (with a type annotation) in x.js does not parse; x.js text in x.ts does
IsBad(p, v) == v \in {"bad", "rbad"} \/ (p = "xjs" /\ v \in {"r1", "r2", "r3"})
SrcSize(c) == IF c \in {"1", "2", "A", "B"} THEN 10 ELSE IF c = "3" THEN 20 ELSE IF c \in {"r1", "r2"} THEN 11 ELSE IF c = "r3" THEN 21 ELSE 15
CfgSize(f) == 2 + Cardinality({k \in CfgFields : f[k] # NoneCfg[k]})

Missing == [k |-> "missing", c |-> "", m |-> 0, i |-> 0]
CMissing == [k |-> "missing", f |-> NoneCfg, c |-> "", m |-> 0, i |-> 0]

----------------------------------------------------------------------------
(* A uniform view of "the file at cache key p" in a tree (s, c)            *)

FixedIno(p) == CASE p = "A" -> 101 [] p = "B" -> 102 [] p = "cjs" -> 103 [] p = "liblocal" -> 104
                 [] p = "main1" -> 105 [] p = "main2" -> 106 [] OTHER -> 100

FN(s, c, p) ==
  IF p \in Fixed THEN [isfile |-> TRUE, exists |-> TRUE, c |-> "1", f |-> NoneCfg, m |-> 0, i |-> FixedIno(p), size |-> 10]
  ELSE IF p \in CfgPaths THEN
    [isfile |-> c[p].k = "file", exists |-> c[p].k # "missing", c |-> c[p].c, f |-> c[p].f,
     m |-> c[p].m, i |-> c[p].i, size |-> CfgSize(c[p].f)]
  ELSE
    [isfile |-> s[p].k = "file", exists |-> s[p].k # "missing", c |-> s[p].c, f |-> NoneCfg,
     m |-> s[p].m, i |-> s[p].i, size |-> IF s[p].k = "file" THEN SrcSize(s[p].c) ELSE 1]

\* (TLC: the comparison makes TLC tabulate a function once instead of re-evaluating its body per application)
Force(f) == IF f = f THEN f ELSE f

\* modkey_unix.go: unusable while mtime + gap > now; otherwise (inode, size, mtime, mode, uid)
NoKey == [u |-> FALSE, i |-> 0, s |-> 0, m |-> 0]
MK(fn, t) == IF fn.exists /\ fn.m + Gap <= t THEN [u |-> TRUE, i |-> fn.i, s |-> fn.size, m |-> fn.m] ELSE NoKey

----------------------------------------------------------------------------
(* Parser options derived for a file, and their two projections            *)

OptFields == {"auto", "factory", "fragment", "isrc", "ud", "tg", "vms", "strict", "mt"}

\* config.TSConfigJSX.ApplyTo + bundler.parseFile
OptsOf(tscf, tscid, mt) ==
  [auto     |-> CASE tscf.jsx = "react-jsx" -> "auto" [] tscf.jsx = "react-jsxdev" -> "autodev" [] OTHER -> "classic",
   factory  |-> tscf.jsxFactory,
   fragment |-> tscf.jsxFragmentFactory,
   isrc     |-> tscf.jsxImportSource,
   ud       |-> tscf.useDefineForClassFields,
   tg       |-> tscf.target,
   vms      |-> tscf.verbatimModuleSyntax,
   \* TSAlwaysStrict carries the logger.Source of tsconfig.json and is compared by value
   strict   |-> IF tscf.alwaysStrict = "none" THEN "none" ELSE tscid,
   mt       |-> mt]

\* what the parse result depends on (values, not pointers)
Relevant(o) == [o EXCEPT !.strict = IF o.strict = "none" THEN "none" ELSE "true"]

\* js_parser.Options.Equal.  ModuleTypeData carries a *logger.Source that is
\* allocated anew by every build's resolver: with "type" set it never compares equal.
OptionsEqual(a, b) == /\ \A k \in ComparedFields : a[k] = b[k]
                      /\ ("mt" \in ComparedFields => (a.mt = "none" /\ b.mt = "none"))

NoOpts == OptsOf(NoneCfg, "", "none")
KindNow(s, c, p) == IF p \in CfgPaths THEN c[p].k ELSE IF s[p].k = "link" THEN "link:" \o s[p].c ELSE s[p].k

----------------------------------------------------------------------------
(* One build of the tree (s, c) at time t through the caches (fc, ac)      *)

Build(s, c, t, fc, ac, epx) ==
  LET fnT == Force([p \in FsKeys |-> FN(s, c, p)])
      fn(p) == fnT[p]
      mkT == Force([p \in FsKeys |-> MK(fnT[p], t)])
      hitS == {p \in FsKeys : fnT[p].isfile /\ fc[p].has /\ fc[p].mk.u /\ mkT[p].u /\ fc[p].mk = mkT[p]}
      FsHit(p) == p \in hitS
      SeenC(p) == IF p \in hitS THEN fc[p].c ELSE fnT[p].c
      SeenF(p) == IF p \in hitS THEN fc[p].f ELSE fnT[p].f
      \* --- configuration as seen through the FS cache
      pkgRead == fn("pkg").isfile
      tscRead == fn("tsc").isfile
      pkgBad  == pkgRead /\ SeenF("pkg").syntax = "bad"
      tscBad  == tscRead /\ SeenF("tsc").syntax = "bad"
      PkgV    == IF pkgRead /\ ~pkgBad THEN SeenF("pkg") ELSE NoneCfg
      TscV    == IF tscRead /\ ~tscBad THEN SeenF("tsc") ELSE NoneCfg
      \* --- options of a file: tsconfig applies outside node_modules, the
      \* enclosing package.json "type" to .js/.ts/.tsx files
      pkgId == IF pkgRead THEN SeenC("pkg") ELSE ""
      tscId == IF tscRead /\ ~tscBad THEN SeenC("tsc") ELSE ""
      oRoot == OptsOf(TscV, tscId, PkgV.type)
      oNear == OptsOf(NoneCfg, "", PkgV.type)
      oD    == OptsOf(TscV, tscId, "none")   \* no extension: "type" does not apply
      O(p) == IF p \in {"main1", "main2"} THEN NoOpts ELSE IF p = "near" THEN oNear ELSE IF p = "d" THEN oD ELSE oRoot
      \* --- the AST cache
      astHitS == {p \in AstKeys : ac[p].has /\ ac[p].c = SeenC(p) /\ OptionsEqual(ac[p].o, O(p))}
      AstHit(p) == p \in astHitS
      usedT == Force([p \in AstKeys |-> IF p \in astHitS THEN ac[p] ELSE [has |-> TRUE, c |-> SeenC(p), o |-> O(p)]])
      Used(p) == usedT[p]
      \* --- resolution (probe order of resolver.loadAsFileOrDirectory)
      entryOK == fn("entry").isfile
      entryParsed == entryOK /\ ~IsBad("entry", Used("entry").c)
      X   == IF s["xts"].k = "file" THEN "xts" ELSE IF s["xjs"].k = "file" THEN "xjs" ELSE "none"
      DEP == IF s["dep"].k = "link" THEN s["dep"].c ELSE IF s["dep"].k = "file" THEN "dep" ELSE "none"
      D   == IF s["d"].k = "file" THEN "d" ELSE IF s["dfile"].k = "file" THEN "dfile"
             ELSE IF s["d"].k = "dir" /\ s["didx"].k = "file" THEN "didx" ELSE "none"
      didxParsed == entryParsed /\ D = "didx" /\ ~IsBad("didx", Used("didx").c)
      viaPaths == TscV.paths = "liblocal"
      nmRead == didxParsed /\ ~viaPaths /\ s["near"].k # "file" /\ fn("nmpkg").isfile
      LIB == IF viaPaths THEN "liblocal" ELSE IF s["near"].k = "file" THEN "near"
             ELSE IF nmRead /\ SeenF("nmpkg").main # "none" THEN SeenF("nmpkg").main ELSE "none"
      Loaded == IF ~entryOK THEN {}
                ELSE {"entry"} \cup (IF entryParsed THEN ({X, DEP, "cjs", D} \ {"none"}) ELSE {})
                               \cup (IF didxParsed THEN {LIB} \ {"none"} ELSE {})
      Reads == Loaded \cup (IF pkgRead THEN {"pkg"} ELSE {}) \cup (IF tscRead THEN {"tsc"} ELSE {})
                      \cup (IF nmRead THEN {"nmpkg"} ELSE {})
      \* --- the abstract result: what each loaded module contributes
      JsxEff(o) == IF o.auto = "classic" THEN <<"classic", o.factory, o.fragment>> ELSE <<o.auto, o.isrc, "">>
      DefEff(o) == IF o.ud = "false" THEN "assign" ELSE IF o.ud = "true" THEN "define"
                   ELSE IF o.tg = "ES2020" THEN "assign" ELSE "define"
      StrictEff(o) == IF o.strict = "none" THEN "sloppy" ELSE "strict"
      Eff(p) == LET u == Used(p) IN
                IF IsBad(p, u.c) THEN <<p, "bad", u.c>>
                ELSE IF p = "entry" THEN <<p, u.c>> \o JsxEff(u.o) \o <<DefEff(u.o)>>
                \* cjs.js (exports.c = typeof this): CommonJS unless "type" is "module"; then a warning
                \* whose note quotes the "type" line of package.json
                ELSE IF p = "cjs" THEN <<p, u.c, IF u.o.mt = "module" THEN "esm:" \o pkgId ELSE "cjs", StrictEff(u.o)>>
                \* d/index.js (import + statement): ESM unless "type" is "commonjs"
                ELSE IF p = "didx" THEN <<p, u.c, IF u.o.mt = "commonjs" THEN "cjs" ELSE "esm", StrictEff(u.o)>>
                ELSE IF p = "dfile" THEN <<p, u.c, u.o.mt, StrictEff(u.o)>>
                ELSE IF p = "d" THEN <<p, u.c, StrictEff(u.o)>>
                ELSE <<p, u.c>>
      sideFx == PkgV.sideEffects = "false" /\ entryParsed /\ D # "none"
      Dropped == IF sideFx /\ ~IsBad(D, Used(D).c) /\ (D = "didx" /\ LIB # "none" => ~IsBad(LIB, Used(LIB).c))
                 THEN {D} \cup (IF didxParsed THEN {LIB} \ {"none"} ELSE {}) ELSE {}
      diag == (IF pkgBad THEN {"pkg-bad"} ELSE {}) \cup (IF tscBad THEN {"tsc-bad"} ELSE {})
              \* bundler.addEntryPoints prefixes "./" when the entry point is an existing file,
              \* through a pointer into the slice that the context keeps for the next build
              \cup (IF ~entryOK THEN {IF epx THEN "entry-unresolved:./entry.tsx" ELSE "entry-unresolved:entry.tsx"} ELSE {})
              \cup (IF entryParsed /\ X = "none" THEN {"x-unresolved"} ELSE {})
              \cup (IF entryParsed /\ DEP = "none" THEN {"dep-unresolved"} ELSE {})
              \cup (IF entryParsed /\ D = "none" THEN {"d-unresolved"} ELSE {})
              \cup (IF didxParsed /\ LIB = "none" THEN {"lib-unresolved"} ELSE {})
              \* (the warning's note quotes the "sideEffects" line of package.json)
              \cup (IF sideFx THEN {"ignored-bare-import:" \o D \o ":" \o pkgId} ELSE {})
      \* a build with errors produces no output files: only diagnostics remain observable
      parseErrs == {p \in Loaded : IsBad(p, Used(p).c)}
      failed == (diag \ {"ignored-bare-import:" \o D \o ":" \o pkgId}) # {} \/ parseErrs # {}
      res == [mods |-> IF failed THEN {<<p, "bad", Used(p).c>> : p \in parseErrs}
                                       \cup {<<p, "warn", pkgId>> : p \in {q \in Loaded \cap {"cjs"} : Used(q).o.mt = "module"}}
                       ELSE {Eff(p) : p \in Loaded \ Dropped},
              \* the metafile (when requested) lists every input, also those dropped by tree shaking
              inputs |-> IF failed THEN {} ELSE {<<p, Used(p).c>> : p \in Loaded},
              diag |-> diag]
      \* --- watch predicates (fs_real.go) and observations
      Pres(dir, name, b) == [t |-> "present", p |-> dir, n |-> name, b |-> b, c |-> "", mk |-> NoKey]
      DirR(p, b) == [t |-> "dirreadable", p |-> p, n |-> "", b |-> b, c |-> "", mk |-> NoKey]
      FileP(p) == IF mkT[p].u THEN [t |-> "modkey", p |-> p, n |-> "", b |-> TRUE, c |-> fn(p).c, mk |-> mkT[p]]
                  ELSE [t |-> "content", p |-> p, n |-> "", b |-> TRUE, c |-> fn(p).c, mk |-> NoKey]
      Kind(p) == [t |-> "kind", p |-> p, n |-> "", b |-> TRUE,
                  c |-> KindNow(s, c, p), mk |-> NoKey]
      ex(p) == fn(p).exists
      rootProbes ==
        {Pres("root", "pkg", ex("pkg")), Pres("root", "tsc", ex("tsc")), Pres("root", "entry", ex("entry"))}
        \cup (IF entryParsed THEN
               {Pres("root", "xts", ex("xts")), Pres("root", "dep", ex("dep")), Pres("root", "d", ex("d"))}
               \cup (IF s["xts"].k # "file" THEN {Pres("root", "xjs", ex("xjs"))} ELSE {})
               \cup (IF s["d"].k # "file" THEN {Pres("root", "dfile", ex("dfile"))} ELSE {})
              ELSE {})
      dirD == entryParsed /\ s["d"].k # "file" /\ s["dfile"].k # "file"   \* resolution reaches the directory d
      dProbes == IF dirD THEN {DirR("d", s["d"].k = "dir")}
                              \cup (IF s["d"].k = "dir" THEN {Pres("d", "didx", ex("didx")), Pres("d", "near", ex("near"))} ELSE {})
                 ELSE {}
      nmProbes == IF didxParsed /\ ~viaPaths THEN
                    (IF s["near"].k # "missing" THEN {Pres("nearpkg", "near", s["near"].k = "file")} ELSE {})
                    \cup (IF s["near"].k # "file" THEN {Pres("nmlib", "nmpkg", ex("nmpkg"))} ELSE {})
                  ELSE {}
      filePreds == {FileP(p) : p \in {q \in Reads : fn(q).isfile}}
      kinds == {Kind(p) : p \in ({"pkg", "tsc", "entry"}
                 \cup (IF entryParsed THEN {"xts", "dep", "d"} \cup (IF s["xts"].k # "file" THEN {"xjs"} ELSE {})
                                           \cup (IF s["d"].k # "file" THEN {"dfile"} ELSE {}) ELSE {})
                 \cup (IF dirD /\ s["d"].k = "dir" THEN {"didx", "near"} ELSE {}))}
      w == rootProbes \cup dProbes \cup nmProbes \cup filePreds
  IN [res    |-> res,
      fc     |-> [p \in FsKeys |-> IF p \in Reads /\ fn(p).isfile /\ ~FsHit(p)
                                   THEN [has |-> TRUE, c |-> fn(p).c, f |-> fn(p).f, mk |-> mkT[p]] ELSE fc[p]],
      ac     |-> [p \in AstKeys |-> IF p \in Loaded THEN Used(p) ELSE ac[p]],
      watch  |-> IF WatchKinds THEN w \cup kinds ELSE w,
      obs    |-> w \cup kinds,
      fsHit  |-> {p \in Reads : FsHit(p)},
      astHit |-> {p \in Loaded : AstHit(p)},
      fsBad  |-> {p \in Reads : FsHit(p) /\ fc[p].c # fn(p).c},
      astBad |-> {p \in Loaded : AstHit(p) /\ Relevant(ac[p].o) # Relevant(O(p))},
      loaded |-> Loaded,
      ep     |-> IF CopyEntryPoints THEN FALSE ELSE (epx \/ entryOK),
      badFields |-> LET bad == {p \in Loaded : AstHit(p) /\ Relevant(ac[p].o) # Relevant(O(p))}
                    IN IF bad = {} THEN {} ELSE {k \in OptFields : \E p \in bad : Relevant(ac[p].o)[k] # Relevant(O(p))[k]}]

EmptyFsc == [p \in FsKeys |-> [has |-> FALSE, c |-> "", f |-> NoneCfg, mk |-> NoKey]]
EmptyAst == [p \in AstKeys |-> [has |-> FALSE, c |-> "", o |-> NoOpts]]
Fresh(s, c, t) == Build(s, c, t, EmptyFsc, EmptyAst, FALSE).res

----------------------------------------------------------------------------
(* Evaluation of a watch predicate / observation on a tree                 *)

Exists(s, c, key) == IF key \in CfgPaths THEN c[key].k # "missing" ELSE s[key].k # "missing"
DirReadable(s, dir) == CASE dir = "d" -> s["d"].k = "dir" [] dir = "nearpkg" -> s["d"].k = "dir" /\ s["near"].k # "missing" [] OTHER -> TRUE
PresentNow(s, c, dir, name) == IF dir = "nearpkg" THEN s["near"].k = "file" ELSE Exists(s, c, name)
Holds(o, s, c, t) ==   \* does the recorded answer still hold?
  CASE o.t = "present"     -> DirReadable(s, o.p) /\ o.b = PresentNow(s, c, o.p, o.n)
    [] o.t = "dirreadable" -> o.b = (s[o.p].k = "dir")
    [] o.t = "modkey"      -> MK(FN(s, c, o.p), t).u /\ MK(FN(s, c, o.p), t) = o.mk
    \* (reading follows a symbolic link: a link to a file with the same text satisfies the predicate)
    [] o.t = "content"     -> IF o.p = "dep" /\ s["dep"].k = "link" THEN o.c = s["dep"].c
                              ELSE FN(s, c, o.p).isfile /\ FN(s, c, o.p).c = o.c
    [] o.t = "kind"        -> o.c = KindNow(s, c, o.p)
\* the same predicate had the build run while the file's mod key was still unusable
\* (fs_real.go then compares contents instead of mod keys)
HoldsUnsettled(o, s, c, t) == IF o.t = "modkey" THEN Holds([o EXCEPT !.t = "content"], s, c, t) ELSE Holds(o, s, c, t)

----------------------------------------------------------------------------
(* The edit alphabet                                                       *)

Ed(op, p, v, to, f) == [op |-> op, p |-> p, v |-> v, to |-> to, f |-> f]
E(op, p, v) == Ed(op, p, v, "", NoneCfg)

IsFile(p) == src[p].k = "file"
DirD == src["d"].k = "dir"

SrcEdits ==
  {E("write", pv[1], pv[2]) : pv \in {qv \in {"entry", "xjs", "xts", "didx", "near"} \X {"1", "2", "3", "bad"} :
       IsFile(qv[1]) /\ qv[2] \in WriteVersions[qv[1]] /\ qv[2] # src[qv[1]].c}}
  \cup {E("touch", p, "") : p \in {q \in {"entry", "xjs"} : IsFile(q)}}

FsysEdits ==
  {E("create", p, "1") : p \in {q \in {"entry", "xjs", "xts", "dfile"} : src[q].k = "missing"}}
  \cup {E("create", p, "1") : p \in {q \in {"didx"} : src[q].k = "missing" /\ DirD}}
  \cup {E("create", p, "1") : p \in {q \in {"near"} : src[q].k # "file" /\ DirD}}
  \cup {E("delete", p, "") : p \in {q \in {"entry", "xjs", "xts", "dfile", "didx", "d"} : src[q].k # "missing"}}
  \cup {E("delete", p, "") : p \in {q \in {"near"} : src[q].k = "file"}}
  \cup (IF IsFile("xjs") /\ src["xts"].k = "missing" THEN {Ed("rename", "xjs", "", "xts", NoneCfg)} ELSE {})
  \cup (IF IsFile("xts") /\ src["xjs"].k = "missing" THEN {Ed("rename", "xts", "", "xjs", NoneCfg)} ELSE {})
  \cup (IF src["xjs"].k \in {"file"} THEN {E("todir", "xjs", "1")} ELSE {})
  \cup (IF src["xjs"].k = "dir" THEN {E("tofile", "xjs", "1")} ELSE {})
  \cup (IF src["d"].k = "dir" THEN {E("tofile", "d", "1")} ELSE {})
  \cup (IF src["d"].k \in {"file", "missing"} THEN {E("todir", "d", "1")} ELSE {})

LinkEdits ==
  (IF src["dep"].k = "link" THEN {E("retarget", "dep", IF src["dep"].c = "A" THEN "B" ELSE "A"), E("mkfile", "dep", src["dep"].c), E("delete", "dep", "")} ELSE {})
  \cup (IF src["dep"].k # "link" THEN {E("retarget", "dep", "A")} ELSE {})

AllValues == {"none", "module", "commonjs", "false", "true", "ok", "bad", "main1", "main2", "react", "react-jsx",
              "react-jsxdev", "preserve", "h", "Frag", "foo", "ES2020", "liblocal"}
PairsOf(p) == {kv \in (DOMAIN FieldValues(p)) \X AllValues : kv[2] \in FieldValues(p)[kv[1]]}
PkgPairs == PairsOf("pkg")
TscPairs == PairsOf("tsc")
NmPairs  == PairsOf("nmpkg")
OneField(p, pairs) ==
  IF cfg[p].k = "file"
  THEN {Ed("cfg", p, "", "", [cfg[p].f EXCEPT ![kv[1]] = kv[2]]) : kv \in {kv \in pairs : kv[2] # cfg[p].f[kv[1]]}}
       \cup {E("delete", p, "")}
  ELSE {Ed("cfg", p, "", "", InitCfg(p))}

BackdateEdits == IF Backdate THEN {E("overwrite-keeping-mtime", p, IF src[p].c = "1" THEN "2" ELSE "1") :
                                     p \in {q \in {"entry", "xjs"} : IsFile(q) /\ src[q].c \in {"1", "2"}}} ELSE {}

Edits ==
  (IF "src" \in EditClasses THEN SrcEdits ELSE {}) \cup (IF "fsys" \in EditClasses THEN FsysEdits ELSE {})
  \cup (IF "link" \in EditClasses THEN LinkEdits ELSE {}) \cup (IF "pkg" \in EditClasses THEN OneField("pkg", PkgPairs) ELSE {})
  \cup (IF "tsc" \in EditClasses THEN OneField("tsc", TscPairs) ELSE {}) \cup (IF "nm" \in EditClasses THEN OneField("nmpkg", NmPairs) ELSE {})
  \cup BackdateEdits

\* effect of an edit on the source nodes
NewFile(v) == [k |-> "file", c |-> v, m |-> now, i |-> ino]
ApplySrc(e) ==
  CASE e.op = "write"    -> [src EXCEPT ![e.p] = [@ EXCEPT !.c = e.v, !.m = now]]             \* truncate + write: same inode
    [] e.op = "overwrite-keeping-mtime" -> [src EXCEPT ![e.p] = [@ EXCEPT !.c = e.v]]
    [] e.op = "touch"    -> [src EXCEPT ![e.p] = [@ EXCEPT !.m = now]]
    [] e.op = "create"   -> [src EXCEPT ![e.p] = NewFile(e.v)]
    [] e.op = "mkfile"   -> [src EXCEPT ![e.p] = NewFile(e.v)]
    [] e.op = "retarget" -> [src EXCEPT ![e.p] = [k |-> "link", c |-> e.v, m |-> now, i |-> ino]]
    [] e.op = "rename"   -> [src EXCEPT ![e.to] = [src[e.p] EXCEPT !.c = Renamed(@)], ![e.p] = Missing]   \* keeps inode and mtime
    [] e.op = "delete" /\ e.p \in SrcPaths ->
         IF e.p = "d" THEN [src EXCEPT !["d"] = Missing, !["didx"] = Missing, !["near"] = Missing]
         ELSE IF e.p = "near" THEN [src EXCEPT !["near"] = [k |-> "dir", c |-> "", m |-> now, i |-> src["near"].i]]  \* the package directory stays
         ELSE [src EXCEPT ![e.p] = Missing]
    [] e.op = "todir"    -> IF e.p = "d" THEN [src EXCEPT !["d"] = [k |-> "dir", c |-> "", m |-> now, i |-> ino],
                                                          !["didx"] = [k |-> "file", c |-> e.v, m |-> now, i |-> ino + 1], !["near"] = Missing]
                            ELSE [src EXCEPT ![e.p] = [k |-> "dir", c |-> "", m |-> now, i |-> ino]]
    [] e.op = "tofile"   -> IF e.p = "d" THEN [src EXCEPT !["d"] = NewFile(e.v), !["didx"] = Missing, !["near"] = Missing]
                            ELSE [src EXCEPT ![e.p] = NewFile(e.v)]
    [] OTHER -> src
ApplyCfg(e) ==
  CASE e.op = "cfg"    -> [cfg EXCEPT ![e.p] = [k |-> "file", f |-> e.f, c |-> ToString(e.f), m |-> now,
                                                  i |-> IF cfg[e.p].k = "file" THEN cfg[e.p].i ELSE ino]]
    [] e.op = "delete" /\ e.p \in CfgPaths -> [cfg EXCEPT ![e.p] = CMissing]
    [] OTHER -> cfg

----------------------------------------------------------------------------
(* Behaviour: build, edit, build, edit, ...                                *)

InitSrcI == [p \in SrcPaths |->
  CASE p = "entry" -> [k |-> "file", c |-> "1", m |-> 0, i |-> 1]
    [] p = "xjs"   -> [k |-> "file", c |-> "1", m |-> 0, i |-> 2]
    [] p = "didx"  -> [k |-> "file", c |-> "1", m |-> 0, i |-> 3]
    [] p = "d"     -> [k |-> "dir", c |-> "", m |-> 0, i |-> 4]
    [] p = "dep"   -> [k |-> "link", c |-> "A", m |-> 0, i |-> 5]
    [] OTHER       -> Missing]

NoFlags == [stale |-> FALSE, astBad |-> {}, fsBad |-> {}, changed |-> FALSE, missed |-> FALSE, dirty |-> FALSE, uncovered |-> {},
            missedU |-> FALSE, uncoveredU |-> {},
            wellformed |-> TRUE]

Init ==
  /\ src = InitSrcI
  /\ cfg = [p \in CfgPaths |-> [k |-> "file", f |-> InitCfg(p), c |-> ToString(InitCfg(p)), m |-> 0, i |-> 10]]
  /\ now = IF TRUE \in Settle THEN Gap ELSE 0
  /\ ino = 20
  /\ fres = Fresh(src, cfg, now)
  /\ fsc = EmptyFsc /\ astc = EmptyAst /\ ep = FALSE
  /\ watch = {} /\ obs = {}
  /\ hist = <<>> /\ hh = 0 /\ exp = <<>>
  /\ phase = "build"
  /\ last = NoFlags

StepExpect(b, fresh) ==
  [changed |-> last.changed, dirty |-> last.dirty, missed |-> last.missed,
   stale |-> b.res # fresh, astBad |-> b.astBad, badFields |-> b.badFields, epStale |-> (b.res.diag # fresh.diag),
   uncovered |-> {o.t \o ":" \o o.p : o \in last.uncovered},
   missedU |-> last.missedU, uncoveredU |-> {o.t \o ":" \o o.p : o \in {x \in last.uncoveredU : x.t = "kind"}}, fsHit |-> b.fsHit, astHit |-> b.astHit, loaded |-> b.loaded,
   diag |-> fresh.diag]

DoBuild ==
  /\ phase = "build"
  /\ LET b == Build(src, cfg, now, fsc, astc, ep)
         fresh == fres
         exp2 == IF hist = <<>> THEN exp ELSE Append(exp, StepExpect(b, fresh))
     IN /\ fsc' = b.fc /\ astc' = b.ac /\ ep' = b.ep /\ watch' = b.watch /\ obs' = b.obs
        /\ last' = [last EXCEPT !.stale = (b.res # fresh), !.astBad = b.astBad, !.fsBad = b.fsBad,
                                !.wellformed = \A o \in b.watch : Holds(o, src, cfg, now)]
        /\ exp' = exp2
        /\ IF Export /\ Len(hist) = MaxEdits
           THEN PrintT(<<"CASE", ToJson([edits |-> hist, expect |-> exp2])>>) ELSE TRUE
  /\ phase' = "edit"
  /\ UNCHANGED <<src, cfg, now, ino, fres, hist, hh>>

DoEdit ==
  /\ phase = "edit"
  /\ Len(hist) < MaxEdits
  /\ LET es == SetToSeq(Edits)
         fan == Fan[Len(hist) + 1]
         Idx(j) == IF fan = 0 THEN j ELSE ((Seed * 7919 + hh * 31 + j * 104729) % Len(es)) + 1
     IN
     \E j \in 1..(IF fan = 0 THEN Len(es) ELSE fan), settle \in Settle :
       LET e == es[Idx(j)]
           s2 == ApplySrc(e)
           c2 == ApplyCfg(e)
           t2 == now + (IF settle THEN Gap ELSE 1)
           before == fres
           after == Fresh(s2, c2, t2)
           dirty == {o \in watch : ~Holds(o, s2, c2, t2)}
           moved == {o \in obs : ~Holds(o, s2, c2, t2)}
           dirtyU == {o \in watch : ~HoldsUnsettled(o, s2, c2, t2)}
       IN /\ src' = s2 /\ cfg' = c2 /\ now' = t2 /\ ino' = ino + 2
          /\ hist' = Append(hist, e) /\ fres' = after /\ hh' = (hh * 131 + Idx(j)) % 1000003
          /\ last' = [last EXCEPT !.changed = (before # after), !.missed = (before # after /\ dirty = {}), !.dirty = (dirty # {}),
                                  !.uncovered = IF dirty = {} THEN moved ELSE {},
                                  !.missedU = (before # after /\ dirtyU = {}),
                                  !.uncoveredU = IF dirtyU = {} THEN moved ELSE {}]
  /\ phase' = "build"
  /\ UNCHANGED <<fsc, astc, ep, watch, obs, exp>>

Done == phase = "edit" /\ Len(hist) = MaxEdits /\ UNCHANGED vars

Next == DoBuild \/ DoEdit \/ Done
Spec == Init /\ [][Next]_vars

----------------------------------------------------------------------------
(* Properties                                                              *)

\* the result of a build through the caches equals that of a build with empty caches
RebuildEqualsFresh == ~last.stale
\* an AST cache hit implies that every option the parse result depends on is unchanged
AstHitImpliesSameRelevantOpts == last.astBad = {}
\* an FS cache hit implies the content is unchanged (needs "mtimes advance normally")
FsHitImpliesSameContent == last.fsBad = {}
\* every observation whose answer an edit changes makes some watch predicate dirty
ObservationsCovered == last.uncovered = {}
\* any single edit that changes the fresh result makes some predicate dirty
WatchComplete == ~last.missed
\* no predicate is dirty right after the build that recorded it
WatchStateWellFormed == last.wellformed

\* Reporting variants for the generator run on the transcription of the code: a
\* violation of a property is exported as a candidate (with its history) instead
\* of stopping TLC; candidates are verdicts only if the real code reproduces them.
Cand(name, bad) == bad => PrintT(<<"CASE", ToJson([cand |-> name, edits |-> hist])>>)
CandRebuild == Cand("RebuildEqualsFresh", phase = "edit" /\ last.stale)
CandAst     == Cand("AstHitImpliesSameRelevantOpts", phase = "edit" /\ last.astBad # {})
CandWatch   == Cand("WatchComplete", phase = "build" /\ last.missed)
CandObs     == Cand("ObservationsCovered", phase = "build" /\ last.uncovered # {})

TypeOK == /\ phase \in {"build", "edit"} /\ Len(hist) <= MaxEdits /\ Len(exp) <= Len(hist)
=============================================================================
