---------------------------- MODULE RenameProps ----------------------------
(***************************************************************************)
(* C15, mangled properties: "a mangled property receives the same new name *)
(* everywhere in the build and in the returned mangle cache".  State        *)
(* validation: every record is one real build of a scenario of              *)
(* RenamePropsGen.tla.  For every site the harness OBSERVED the property    *)
(* key the output actually uses (proxy traps, own keys of literals and      *)
(* instances); the record also holds the mangle cache given and returned.   *)
(* TLC evaluates the invariants below on every record.                      *)
(***************************************************************************)
EXTENDS Integers, Sequences, FiniteSets, TLC, Json

QuotedForms == {"get-q", "lit-q", "in-q"}
Records == ndJsonDeserialize("c15props.ndjson")

VARIABLE i
Init == i = 1
Next == i < Len(Records) /\ i' = i + 1
Spec == Init /\ [][Next]_i

Rec == Records[i]
Sites == {Rec.sites[k] : k \in 1..Len(Rec.sites)}
ToSet(s) == {s[k] : k \in 1..Len(s)}
CacheIn == ToSet(Rec.cacheIn)        \* records [p, v]; v = "<false>" means "do not mangle"
CacheOut == ToSet(Rec.cacheOut)
Given(p) == IF \E c \in CacheIn : c.p = p THEN (CHOOSE c \in CacheIn : c.p = p).v ELSE "<none>"

\* does the site's text denote a property that esbuild is asked to mangle?
Eligible(s) == s.matches /\ ~s.reserved /\ Given(s.prop) # "<false>"
Mangled(s) == Eligible(s) /\ s.form # "runtime" /\ (s.form \notin QuotedForms \/ Rec.mangleQuoted)

\* untouched: quoted keys (unless mangle-quoted), reserved and non-matching properties, keys computed at run time
UnmangledUntouched == \A s \in Sites : ~Mangled(s) => s.key = s.prop
\* one new name everywhere: in every file and chunk of the build
MangledPropsConsistent == \A s, t \in Sites : (Mangled(s) /\ Mangled(t) /\ s.prop = t.prop) => s.key = t.key
\* two properties never end up under one key (a new name never equals another property's name)
DistinctPropsDistinctKeys == \A s, t \in Sites : (s.prop # t.prop) => s.key # t.key
\* the returned cache tells the truth and keeps what it was given
CacheAgrees ==
  /\ Rec.hasCache => \A s \in Sites : Mangled(s) => \E c \in CacheOut : c.p = s.prop /\ c.v = s.key
  /\ \A s \in Sites : (Mangled(s) /\ Given(s.prop) # "<none>") => s.key = Given(s.prop)
  /\ Rec.hasCache => CacheIn \subseteq CacheOut

Failing ==
  (IF UnmangledUntouched THEN {} ELSE {"UnmangledUntouched"}) \cup
  (IF MangledPropsConsistent THEN {} ELSE {"MangledPropsConsistent"}) \cup
  (IF DistinctPropsDistinctKeys THEN {} ELSE {"DistinctPropsDistinctKeys"}) \cup
  (IF CacheAgrees THEN {} ELSE {"CacheAgrees"})
Report == PrintT(<<"CASE", ToJson([i |-> i, failing |-> Failing,
                                   mangled |-> Cardinality({s \in Sites : Mangled(s)}),
                                   renamed |-> Cardinality({s \in Sites : s.key # s.prop})])>>)
=============================================================================
