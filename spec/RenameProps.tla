---------------------------- MODULE RenameProps ----------------------------
(***************************************************************************)
(* C15, mangled properties: "a mangled property receives the same new name *)
(* everywhere in the build and in the returned mangle cache".  State        *)
(* validation: every record is one real build of a scenario of              *)
(* RenamePropsGen.tla.  For every site the harness OBSERVED the property    *)
(* key the output actually uses (proxy traps, own keys of literals and      *)
(* instances); the record also holds the mangle cache given and returned.   *)
(* TLC evaluates the invariants below on every record.  The mangle cache is *)
(* an input with all three entry kinds per property (absent, string target, *)
(* `false` = keep); see RenamePropsGen.tla for the two scenario families.   *)
(***************************************************************************)
EXTENDS Integers, Sequences, FiniteSets, TLC, Json

QuotedForms == {"get-q", "lit-q", "in-q"}
Records == ndJsonDeserialize("c15props.ndjson")

VARIABLE i
Init == i = 1
Next == i < Len(Records) /\ i' = i + 1
Spec == Init /\ [][Next]_i

Rec == Records[i]
Sites == {Rec.sites[k] : k \in 1..Len(Rec.sites)}
ToSet(s) == {s[k] : k \in 1..Len(s)}
CacheIn == ToSet(Rec.cacheIn)        \* records [p, v]; v = "<false>" means "do not mangle"
CacheOut == ToSet(Rec.cacheOut)
Given(p) == IF \E c \in CacheIn : c.p = p THEN (CHOOSE c \in CacheIn : c.p = p).v ELSE "<none>"

\* does the site's text denote a property that esbuild is asked to mangle?
Eligible(s) == s.matches /\ ~s.reserved /\ Given(s.prop) # "<false>"
Mangled(s) == Eligible(s) /\ s.form # "runtime" /\ (s.form \notin QuotedForms \/ Rec.mangleQuoted)

\* untouched: quoted keys (unless mangle-quoted), reserved and non-matching properties, keys computed at run time
UnmangledUntouched == \A s \in Sites : ~Mangled(s) => s.key = s.prop
\* one new name everywhere: in every file and chunk of the build
MangledPropsConsistent == \A s, t \in Sites : (Mangled(s) /\ Mangled(t) /\ s.prop = t.prop) => s.key = t.key
\* two properties never end up under one key (a new name never equals another property's name)
DistinctPropsDistinctKeys == \A s, t \in Sites : (s.prop # t.prop) => s.key # t.key
\* the returned cache tells the truth and keeps what it was given
CacheAgrees ==
  /\ Rec.hasCache => \A s \in Sites : Mangled(s) => \E c \in CacheOut : c.p = s.prop /\ c.v = s.key
  /\ \A s \in Sites : (Mangled(s) /\ Given(s.prop) # "<none>") => s.key = Given(s.prop)
  /\ Rec.hasCache => CacheIn \subseteq CacheOut

\* the final name of a cache entry: a `false` entry keeps the property's own name
Final(c) == IF c.v = "<false>" THEN c.p ELSE c.v
\* the RETURNED cache never sends two properties to one final name, and `false` stays `false`
CacheInjective ==
  /\ \A c, d \in CacheOut : c.p # d.p => Final(c) # Final(d)
  /\ \A c \in CacheIn : c.v = "<false>" => \A d \in CacheOut : d.p = c.p => d.v = "<false>"
\* names that must not be handed out: keys of `false` entries and string targets of the
\* cache given (used in this build or not), and every property the build uses unmangled and
\* unquoted (reserved, not matching).  Quoted keys are the known gap: DistinctPropsDistinctKeys.
KeptNames == {c.p : c \in {d \in CacheIn : d.v = "<false>"}}
             \cup {s.prop : s \in {t \in Sites : ~Mangled(t) /\ t.form \notin QuotedForms /\ t.form # "runtime"}}
KeptNamesNotReused ==
  /\ \A s \in Sites : (Mangled(s) /\ Given(s.prop) = "<none>") => s.key \notin KeptNames
  /\ \A s \in Sites : \A c \in CacheIn : (Mangled(s) /\ c.p # s.prop /\ c.v # "<false>") => s.key # c.v
  /\ \A c \in CacheOut : (c.v # "<false>" /\ c \notin CacheIn) => c.v \notin KeptNames
\* executed: the object literal holding every property of the build has as many own keys, and the
\* same sum of values read back through the (renamed) accesses, in the output as in the input
LiteralPreserved == Rec.lit.outKeys = Rec.lit.inKeys /\ Rec.lit.outSum = Rec.lit.inSum

Failing ==
  (IF UnmangledUntouched THEN {} ELSE {"UnmangledUntouched"}) \cup
  (IF MangledPropsConsistent THEN {} ELSE {"MangledPropsConsistent"}) \cup
  (IF DistinctPropsDistinctKeys THEN {} ELSE {"DistinctPropsDistinctKeys"}) \cup
  (IF CacheAgrees THEN {} ELSE {"CacheAgrees"}) \cup
  (IF CacheInjective THEN {} ELSE {"CacheInjective"}) \cup
  (IF KeptNamesNotReused THEN {} ELSE {"KeptNamesNotReused"}) \cup
  (IF LiteralPreserved THEN {} ELSE {"LiteralPreserved"})
Report == PrintT(<<"CASE", ToJson([i |-> i, failing |-> Failing,
                                   mangled |-> Cardinality({s \in Sites : Mangled(s)}),
                                   renamed |-> Cardinality({s \in Sites : s.key # s.prop})])>>)
=============================================================================
