---------------------------- MODULE ServiceTrace ----------------------------
(***************************************************************************)
(* Trace validation of packet-level sessions of the REAL `esbuild --service`*)
(* child process against Service.tla.  The harness (harness/props/c20svc)   *)
(* is the protocol client; it logs every packet in the order it wrote it to *)
(* the child's stdin (the log entry is made under the same lock as the      *)
(* write, before the write) or read it from the child's stdout (logged      *)
(* after the read):                                                         *)
(*   {"ev":"send","id":n,"cmd":c,"key":k,"ctx":b,"plug":b,"bad":s}         *)
(*   {"ev":"recv-response","id":n,"kind":s}                                 *)
(*   {"ev":"recv-request","id":m,"cmd":c,"key":k}                           *)
(*   {"ev":"send-response","id":m,"err":b,"held":b}                         *)
(*   {"ev":"close-stdin"}   {"ev":"exit","code":0}   {"ev":"end"}           *)
(* The packets of a session are validated key by key (see project() in     *)
(* c20svc.go): one trace per build key, one for the requests without a key; *)
(* the traces are concatenated, each one terminated by {"ev":"end"} and     *)
(* separated by {"ev":"reset"}.                                             *)
(*                                                                          *)
(* What the pipe order guarantees: a packet the client sent is visible to   *)
(* the service at any time AFTER its log entry (it waits in `inbox`); a     *)
(* packet the client received was written at some time BEFORE its log       *)
(* entry, and packets are received in the order the single writer goroutine *)
(* wrote them.  The service never observes the absence of input, so every   *)
(* real execution can be replayed with the service's steps delayed up to    *)
(* the log entry that witnesses them: the write of a packet is matched at   *)
(* its recv entry, everything else the service does is a silent step.       *)
(*                                                                          *)
(* Internal steps are unlogged -> silent (Internal of Service.tla).  They   *)
(* are bounded: each moves a request, a build or a relay forward in a       *)
(* finite state machine.  A hand-off to the writer is only explored if the  *)
(* packet is the next one the client received (hand-off order = write       *)
(* order = receive order), which is a sound pruning.                        *)
(***************************************************************************)
EXTENDS Service, Json

CONSTANT UseHeld   \* apply the scheduling assumption of "held" answers

TraceLog == ndJsonDeserialize("svctrace.ndjson")

VARIABLES l,   \* index of the next event to consume
          wr   \* bytes the client has written to the service's stdin so far (sessions with "write" events)

tvars == <<vars, l, wr>>

Ev == TraceLog[l]
IsEv(name) == l <= Len(TraceLog) /\ TraceLog[l].ev = name
Consume == l' = l + 1

IsRecv(e) == e.ev \in {"recv-response", "recv-request"}
\* index of the next packet the client received at or after position j of
\* the same session (0 if none)
RECURSIVE NextRecvFrom(_)
NextRecvFrom(j) ==
  IF j > Len(TraceLog) THEN 0
  ELSE IF TraceLog[j].ev \in {"reset", "end"} THEN 0
  ELSE IF IsRecv(TraceLog[j]) THEN j
  ELSE NextRecvFrom(j + 1)
NextRecv == [j \in 1..(Len(TraceLog) + 1) |-> NextRecvFrom(j)]

\* the packet p (just handed to the writer) is the next one received
PktIsNext(p, rq) ==
  LET j == NextRecv[l] IN
  /\ j # 0
  /\ IF p.t = "resp"
       THEN /\ TraceLog[j].ev = "recv-response" /\ TraceLog[j].id = p.id
            /\ TraceLog[j].kind \in Kinds(rq[p.id].kind)
       ELSE /\ TraceLog[j].ev = "recv-request" /\ TraceLog[j].cmd = p.cmd /\ TraceLog[j].key = p.key

TraceInit == Init /\ l = 1 /\ wr = 0 /\ TLCSet(1, 1) /\ TLCSet(3, 1)

\* end of a session (of the packets of one key of a session): it has been
\* matched, nothing more can be learnt from the other ways to match it.
\* Register 3 holds the position below which states are not explored any
\* further (depth-first queue: the rest of its state space is skipped).
TrEnd ==
  /\ IsEv("end") /\ Consume
  /\ TLCSet(3, l + 1)
  /\ UNCHANGED <<vars, wr>>

\* a new session starts: re-install the initial state
TraceReset ==
  /\ IsEv("reset") /\ Consume
  /\ inbox' = <<>>
  /\ req' = [x \in {} |-> 0]
  /\ ab' = [k \in Keys |-> NoAB]
  /\ cx' = [k \in Keys |-> IdleCx]
  /\ cb' = [x \in {} |-> 0]
  /\ wbuf' = NoPkt
  /\ mainBusy' = None
  /\ keepAlive' = 1
  /\ stdinClosed' = FALSE /\ eof' = FALSE /\ exited' = FALSE /\ crashed' = FALSE
  /\ relays' = {}
  /\ grp' = [x \in {} |-> 0]
  /\ usedKeys' = {}
  /\ ncb' = 0
  /\ opAfterDispose' = FALSE
  /\ wr' = 0

\* Chunk level (pipelining sessions): the client cuts the byte stream of its
\* packets into writes at arbitrary positions, {"ev":"write","from":a,"to":b}
\* = the bytes a+1..b of the stream are written; the packet events of such a
\* session carry the byte range of the packet ("from", "to") and are logged
\* when the write that completes the packet is logged: a packet exists for
\* the service only when every byte of it has been written.
TrWrite ==
  /\ IsEv("write") /\ Consume
  /\ Ev.from = wr /\ Ev.to > Ev.from
  /\ wr' = Ev.to
  /\ UNCHANGED vars
Complete(e) == ("to" \in DOMAIN e) => (e.from < e.to /\ e.to <= wr)
PayOf(e) == IF "pay" \in DOMAIN e THEN e.pay ELSE 0
\* the payload digests the client found the result of a response to be made of
Obs(e) == IF "obs" \in DOMAIN e THEN {e.obs[x] : x \in DOMAIN e.obs} ELSE {}
\* a response says what the handler computed from ITS OWN payload(s): a
\* successful transform / one-shot build shows exactly the payloads the
\* specification says it read, any other at most those
ObsOK(e, r) ==
  ("obs" \in DOMAIN e /\ r.cmd \in {"transform", "build"}) =>
     IF e.kind = "ok" THEN Obs(e) = r.seen ELSE Obs(e) \subseteq r.seen

TrSend ==
  /\ IsEv("send") /\ Consume /\ UNCHANGED wr
  /\ Complete(Ev)
  /\ Send(Ev.id, Ev.cmd, Ev.key, Ev.ctx, Ev.plug, Ev.bad, PayOf(Ev))

\* a response arrives: it is the packet the writer holds, it answers a
\* request that is waiting for exactly this packet, and it says what the
\* handler of that request computed
TrRecvResponse ==
  /\ IsEv("recv-response") /\ Consume /\ UNCHANGED wr
  /\ wbuf = RespPkt(Ev.id)
  /\ Ev.kind \in Kinds(req[Ev.id].kind)
  /\ ObsOK(Ev, req[Ev.id])
  /\ WriterStep(0)

\* a request of the service arrives
TrRecvRequest ==
  /\ IsEv("recv-request") /\ Consume /\ UNCHANGED wr
  /\ IF Ev.cmd = "ping"
       THEN Ping(Ev.id)
       ELSE /\ wbuf.t = "creq" /\ wbuf.cmd = Ev.cmd /\ wbuf.key = Ev.key
            /\ WriterStep(Ev.id)

\* Scheduling assumption behind "held" answers (the only place where time
\* enters): the client kept the answer to an on-start request back for the
\* agreed time after the request arrived and after the last "cancel" it sent
\* for that key.  By then every goroutine the service had started for those
\* has run its first step: the cancels are decoded and have called Cancel(),
\* the relay check of the build has run and so has the relay goroutine.
HeldOK(k) ==
  /\ \A c \in Ids : (req[c].cmd = "cancel" /\ req[c].key = k) => req[c].st \notin {"inbox", "decoded"}
  /\ cx[k].relayChk
  /\ ~\E r \in relays : r.key = k /\ r.st = "new"

TrSendResponse ==
  /\ IsEv("send-response") /\ Consume /\ UNCHANGED wr
  /\ Complete(Ev)
  /\ Answer(Ev.id, Ev.err, PayOf(Ev))
  /\ (Ev.held /\ UseHeld) => HeldOK(cb[Ev.id].key)

TrClose == IsEv("close-stdin") /\ Consume /\ CloseStdin /\ UNCHANGED wr

\* the process ended by itself with status 0: only after end-of-file on
\* stdin, with every request answered and nothing left to write
TrExit == IsEv("exit") /\ Consume /\ Ev.code = 0 /\ Exit /\ UNCHANGED wr

Silent ==
  /\ l' = l /\ wr' = wr
  /\ Internal
  /\ (wbuf' # wbuf /\ wbuf'.t # "none") => PktIsNext(wbuf', req')

TraceNext ==
  \/ TraceReset \/ TrEnd \/ TrWrite
  \/ TrSend \/ TrRecvResponse \/ TrRecvRequest \/ TrSendResponse \/ TrClose \/ TrExit
  \/ Silent

TraceSpec == TraceInit /\ [][TraceNext]_tvars

\* high-water mark of consumed events (register 1), -workers 1
HighWater == (IF l > TLCGet(1) THEN TLCSet(1, l) ELSE TRUE) /\ l >= TLCGet(3)
TraceAccepted ==
  /\ PrintT(<<"HIGHWATER", TLCGet(1)>>)
  /\ TLCGet(1) = Len(TraceLog) + 1
=============================================================================
