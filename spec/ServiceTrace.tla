---------------------------- MODULE ServiceTrace ----------------------------
(***************************************************************************)
(* Trace validation of packet-level sessions of the REAL `esbuild --service`*)
(* child process against Service.tla.  The harness (harness/props/c20svc)   *)
(* is the protocol client; it logs every packet in the order it wrote it to *)
(* the child's stdin (the log entry is made under the same lock as the      *)
(* write, before the write) or read it from the child's stdout (logged      *)
(* after the read):                                                         *)
(*   {"ev":"send","id":n,"cmd":c,"key":k,"ctx":b,"plug":b,"bad":s}         *)
(*   {"ev":"recv-response","id":n,"kind":s}                                 *)
(*   {"ev":"recv-request","id":m,"cmd":c,"key":k}                           *)
(*   {"ev":"send-response","id":m,"err":b,"held":b}                         *)
(*   {"ev":"close-stdin"}   {"ev":"exit","code":0}   {"ev":"end"}           *)
(* The packets of a session are validated key by key (see project() in     *)
(* c20svc.go): one trace per build key, one for the requests without a key; *)
(* the traces are concatenated, each one terminated by {"ev":"end"} and     *)
(* separated by {"ev":"reset"}.                                             *)
(*                                                                          *)
(* What the pipe order guarantees: a packet the client sent is visible to   *)
(* the service at any time AFTER its log entry (it waits in `inbox`); a     *)
(* packet the client received was written at some time BEFORE its log       *)
(* entry, and packets are received in the order the single writer goroutine *)
(* wrote them.  The service never observes the absence of input, so every   *)
(* real execution can be replayed with the service's steps delayed up to    *)
(* the log entry that witnesses them: the write of a packet is matched at   *)
(* its recv entry, everything else the service does is a silent step.       *)
(*                                                                          *)
(* Internal steps are unlogged -> silent (Internal of Service.tla).  They   *)
(* are bounded: each moves a request, a build or a relay forward in a       *)
(* finite state machine.  A hand-off to the writer is only explored if the  *)
(* packet is the next one the client received (hand-off order = write       *)
(* order = receive order), which is a sound pruning.                        *)
(***************************************************************************)
EXTENDS Service, Json

CONSTANT UseHeld   \* apply the scheduling assumption of "held" answers

TraceLog == ndJsonDeserialize("svctrace.ndjson")

VARIABLE l   \* index of the next event to consume

tvars == <<vars, l>>

Ev == TraceLog[l]
IsEv(name) == l <= Len(TraceLog) /\ TraceLog[l].ev = name
Consume == l' = l + 1

IsRecv(e) == e.ev \in {"recv-response", "recv-request"}
\* index of the next packet the client received at or after position j of
\* the same session (0 if none)
RECURSIVE NextRecvFrom(_)
NextRecvFrom(j) ==
  IF j > Len(TraceLog) THEN 0
  ELSE IF TraceLog[j].ev \in {"reset", "end"} THEN 0
  ELSE IF IsRecv(TraceLog[j]) THEN j
  ELSE NextRecvFrom(j + 1)
NextRecv == [j \in 1..(Len(TraceLog) + 1) |-> NextRecvFrom(j)]

\* the packet p (just handed to the writer) is the next one received
PktIsNext(p, rq) ==
  LET j == NextRecv[l] IN
  /\ j # 0
  /\ IF p.t = "resp"
       THEN /\ TraceLog[j].ev = "recv-response" /\ TraceLog[j].id = p.id
            /\ TraceLog[j].kind \in Kinds(rq[p.id].kind)
       ELSE /\ TraceLog[j].ev = "recv-request" /\ TraceLog[j].cmd = p.cmd /\ TraceLog[j].key = p.key

TraceInit == Init /\ l = 1 /\ TLCSet(1, 1) /\ TLCSet(3, 1)

\* end of a session (of the packets of one key of a session): it has been
\* matched, nothing more can be learnt from the other ways to match it.
\* Register 3 holds the position below which states are not explored any
\* further (depth-first queue: the rest of its state space is skipped).
TrEnd ==
  /\ IsEv("end") /\ Consume
  /\ TLCSet(3, l + 1)
  /\ UNCHANGED vars

\* a new session starts: re-install the initial state
TraceReset ==
  /\ IsEv("reset") /\ Consume
  /\ inbox' = <<>>
  /\ req' = [x \in {} |-> 0]
  /\ ab' = [k \in Keys |-> NoAB]
  /\ cx' = [k \in Keys |-> IdleCx]
  /\ cb' = [x \in {} |-> 0]
  /\ wbuf' = NoPkt
  /\ mainBusy' = None
  /\ keepAlive' = 1
  /\ stdinClosed' = FALSE /\ eof' = FALSE /\ exited' = FALSE /\ crashed' = FALSE
  /\ relays' = {}
  /\ grp' = [x \in {} |-> 0]
  /\ usedKeys' = {}
  /\ ncb' = 0
  /\ opAfterDispose' = FALSE

TrSend ==
  /\ IsEv("send") /\ Consume
  /\ Send(Ev.id, Ev.cmd, Ev.key, Ev.ctx, Ev.plug, Ev.bad)

\* a response arrives: it is the packet the writer holds, it answers a
\* request that is waiting for exactly this packet, and it says what the
\* handler of that request computed
TrRecvResponse ==
  /\ IsEv("recv-response") /\ Consume
  /\ wbuf = RespPkt(Ev.id)
  /\ Ev.kind \in Kinds(req[Ev.id].kind)
  /\ WriterStep(0)

\* a request of the service arrives
TrRecvRequest ==
  /\ IsEv("recv-request") /\ Consume
  /\ IF Ev.cmd = "ping"
       THEN Ping(Ev.id)
       ELSE /\ wbuf.t = "creq" /\ wbuf.cmd = Ev.cmd /\ wbuf.key = Ev.key
            /\ WriterStep(Ev.id)

\* Scheduling assumption behind "held" answers (the only place where time
\* enters): the client kept the answer to an on-start request back for the
\* agreed time after the request arrived and after the last "cancel" it sent
\* for that key.  By then every goroutine the service had started for those
\* has run its first step: the cancels are decoded and have called Cancel(),
\* the relay check of the build has run and so has the relay goroutine.
HeldOK(k) ==
  /\ \A c \in Ids : (req[c].cmd = "cancel" /\ req[c].key = k) => req[c].st \notin {"inbox", "decoded"}
  /\ cx[k].relayChk
  /\ ~\E r \in relays : r.key = k /\ r.st = "new"

TrSendResponse ==
  /\ IsEv("send-response") /\ Consume
  /\ Answer(Ev.id, Ev.err)
  /\ (Ev.held /\ UseHeld) => HeldOK(cb[Ev.id].key)

TrClose == IsEv("close-stdin") /\ Consume /\ CloseStdin

\* the process ended by itself with status 0: only after end-of-file on
\* stdin, with every request answered and nothing left to write
TrExit == IsEv("exit") /\ Consume /\ Ev.code = 0 /\ Exit

Silent ==
  /\ l' = l
  /\ Internal
  /\ (wbuf' # wbuf /\ wbuf'.t # "none") => PktIsNext(wbuf', req')

TraceNext ==
  \/ TraceReset \/ TrEnd
  \/ TrSend \/ TrRecvResponse \/ TrRecvRequest \/ TrSendResponse \/ TrClose \/ TrExit
  \/ Silent

TraceSpec == TraceInit /\ [][TraceNext]_tvars

\* high-water mark of consumed events (register 1), -workers 1
HighWater == (IF l > TLCGet(1) THEN TLCSet(1, l) ELSE TRUE) /\ l >= TLCGet(3)
TraceAccepted ==
  /\ PrintT(<<"HIGHWATER", TLCGet(1)>>)
  /\ TLCGet(1) = Len(TraceLog) + 1
=============================================================================
