--------------------------- MODULE LoweringProgs ---------------------------
(***************************************************************************)
(* C05 program generator: the programs of Lowering.tla part (b) as a       *)
(* constant sequence (evaluated once), one TLC state per exported program;  *)
(* the invariant checks once-only evaluation and locality of the rules on   *)
(* the program and exports it with the predicted observation per            *)
(* environment.                                                             *)
(***************************************************************************)
EXTENDS Lowering

CONSTANT Pairs,     \* FALSE: single constructs x positions; TRUE: additionally 2-construct nestings
         SStride     \* label-first covering sample of the single programs (1 = all, see SingleProgsS)

ClassCDs(shapes) == LET sq == SetToSeq(shapes) IN [i \in DOMAIN sq |-> ClassCD(sq[i])]
FixedClassCDs == [i \in DOMAIN ClassShapes |-> ClassCD(ClassShapes[i])]
WithShape(cds) == [i \in DOMAIN cds |-> cds[i] @@ [shape |-> [h |-> FALSE, ks |-> <<>>]]]
AllCDs == WithShape(ExprConstructs) \o WithShape(StmtConstructs) \o FixedClassCDs \o WithShape(ObjConstructs)
\* this run's share of the constructs (sharding by construct index keeps start-up cheap)
Mine(cds) == {i \in DOMAIN cds : i % Shards = Shard}
\* thorough: the 2-element class shapes (with and without heritage) are additional single constructs
SingleCDs == IF Pairs THEN AllCDs \o ClassCDs(PairShapes) ELSE AllCDs
Singles == SetToSeq(SingleProgsS(SingleCDs, Mine(SingleCDs), SStride, Offset))
InnerCDs == SelectSeq(WithShape(ExprConstructs) \o WithShape(StmtConstructs), LAMBDA cd : cd.name \in InnerNames)
PairsSeq == IF Pairs THEN SetToSeq(PairProgs(AllCDs, InnerCDs, Mine(AllCDs), Stride, Offset)) ELSE <<>>
NSingles == Len(Singles)
NPairs == Len(PairsSeq)
ProgAt(i) == IF i <= NSingles THEN Singles[i] ELSE PairsSeq[i - NSingles]

Selected == 1..(NSingles + NPairs)

\* u = <<index, phase>>.  The work is done in the action (TLC caches LET values while it
\* evaluates the next-state relation, not while it evaluates an invariant), phase 2 = a check failed.
PInit == u \in {<<i, 0>> : i \in Selected}
Checked(i) ==
    LET pr   == ProgAt(i)
        envs == EnvsOf(pr.x, WithThrow /\ i <= NSingles, i > NSingles)
        es   == SetToSeq(envs)
        ps   == SetToSeq(ProbesOf(pr.x))
        runs == [e \in envs |-> Run(pr.x, e)]
    IN /\ OnceOnly(pr.x, envs, runs)
       /\ Local(pr.x, envs, runs)
       /\ PrintT(<<"CASE", ToJson([name |-> pr.name, src |-> ProgSrc(pr.x), async |-> NeedsAsync(pr.x),
                                   pair |-> i > NSingles,
                                   probes |-> [j \in DOMAIN ps |-> ps[j][1]],
                                   envs |-> [j \in DOMAIN es |-> [m \in DOMAIN ps |-> es[j][ps[m][1]]]],
                                   exp |-> [j \in DOMAIN es |-> runs[es[j]]]])>>)
PNext == u[2] = 0 /\ u' = <<u[1], IF Checked(u[1]) THEN 1 ELSE 2>>
ProgramOK == u[2] # 2
=============================================================================
