----------------------------- MODULE LinkSanity -----------------------------
(***************************************************************************)
(* The properties of Link.tla are not vacuous: each of them rejects the     *)
(* link result of a fixed graph after the corresponding damage (two bit     *)
(* sets merged into one chunk, a file in two chunks, a lost side-effect     *)
(* import of an entry chunk, a lost export, a static back edge, an          *)
(* assignment from another chunk, a colliding alias, an entry chunk that    *)
(* does not import a binding its entry point re-exports through a chain)    *)
(* and accepts the undamaged result; the export renamer model is collision  *)
(* free on a naming that makes a renamer that forgets the names it          *)
(* generated collide; `export *` forwards no default export and is shadowed *)
(* by the module's own exports.  Checked by TLC as assumptions.             *)
(***************************************************************************)
EXTENDS LinkGen

\* e1 e2 e3 over m1 {e1,e2}, m2 {e1,e3}, m3 {e1,e2,e3}; all modules side-effect-only in G1
G0 == Apply("plain", Base(3, 3, <<3, 5, 7>>), 3, 3)
G1 == Apply("sideall", Base(3, 3, <<3, 5, 7>>), 3, 3)
L0 == Compute(G0)
L1 == Compute(G1)

K12 == {1, 2}
K13 == {1, 3}
K123 == {1, 2, 3}

Merged == [L0 EXCEPT !.chunks = [c \in DOMAIN L0.chunks \ {K13} |->
             IF c = K12 THEN [L0.chunks[c] EXCEPT !.files = @ \cup L0.chunks[K13].files] ELSE L0.chunks[c]]]
Duplicated == [L0 EXCEPT !.chunks[K12].files = @ \cup L0.chunks[K13].files]
NoSideImports == [L1 EXCEPT !.chunks = [c \in DOMAIN L1.chunks |->
             [L1.chunks[c] EXCEPT !.imports = {i \in @ : \E f \in L1.chunks[c].importsFrom : f.chunk = i.chunk}]]]
LostExport == [L0 EXCEPT !.chunks[K123].exports = {x \in @ : x.name # "v"}]
BackEdge == [L0 EXCEPT !.chunks[K123].imports = @ \cup {[chunk |-> {1}, kind |-> "static"]}]
ForeignAssign == [L0 EXCEPT !.assigns = @ \cup {[by |-> 1, file |-> 4, name |-> "c"]}]
Collision == [L0 EXCEPT !.chunks[K123].exports = @ \cup {[alias |-> (CHOOSE x \in L0.chunks[K123].exports : TRUE).alias, file |-> 6, name |-> "other"]}]

\* m1 and m2 declare v, c, bump and m3 declares v2, c2, bump2, all in one shared chunk
GN == Styled(Base(2, 3, <<3, 3, 3>>), 2, 9)
\* e1: export * from r1; r1: export {v, c, bump} from m1; e2 uses m1: the bindings e1 exports live in the shared chunk
GC == ChainGraph([ks |-> <<"star", "named">>, place |-> "shared", used |-> FALSE, mid |-> FALSE, ov |-> "a", dyn |-> FALSE])
LC == Compute(GC)
NoEntryImports == [LC EXCEPT !.chunks[{1}].importsFrom = {}]
\* e1 declares v, c, bump and has `export * from m1`, m1 declares v, c, bump and a default export
GS == ChainGraph([ks |-> <<"star">>, place |-> "shared", used |-> FALSE, mid |-> FALSE, ov |-> "c", dyn |-> FALSE])
\* the same with m1 declaring v2, c2, bump2
GT == ChainGraph([ks |-> <<"star">>, place |-> "shared", used |-> FALSE, mid |-> FALSE, ov |-> "b", dyn |-> FALSE])

\* wrap kinds: e1 imports m1 by statement, e2 require()s it: m1 is wrapped lazily, lives in the shared chunk {1,2}, and
\* both entry chunks import its wrapper init_m1
GW == WrapGraph([sk |-> "esm", r |-> <<"static", "req">>])
LW == Compute(GW)
NoWrapperImport == [LW EXCEPT !.chunks[{1}].importsFrom =
                      {i \in @ : ~\E x \in LW.chunks[{1, 2}].exports : x.alias = i.alias /\ x.name = "wrapper"}]
GWn == WrapGraph([sk |-> "esm", r |-> <<"static", "static">>])
GWc == WrapGraph([sk |-> "cjs", r |-> <<"static", "static">>])
GWv == WrapGraph([sk |-> "esm", r |-> <<"viaw", "viareq">>])
\* e1 import()s the page p1 (ts loader), which imports a style sheet: p1 has a JS chunk {3} and a CSS chunk CssId(3)
GP == LoaderGraph([ldr |-> "ts", css |-> "direct", also |-> "no", ecss |-> FALSE, json |-> FALSE])
LP == Compute(GP)
DynToCss == [LP EXCEPT !.chunks[{1}].imports = (@ \ {[chunk |-> {3}, kind |-> "dynamic"]}) \cup {[chunk |-> CssId(3), kind |-> "dynamic"]}]
NoCssChunk == [LP EXCEPT !.chunks = [c \in DOMAIN LP.chunks \ {CssId(3)} |-> LP.chunks[c]]]
CssInJsChunk == [LP EXCEPT !.chunks[{3}].files = @ \cup {6}]

\* a trivial behaviour (TLC needs one): the checks are the assumptions below
SanityInit == /\ label = "sanity" /\ g = G0 /\ meta = <<>> /\ phase = "linked" /\ L = L0 /\ designFailing = {} /\ loaded = <<>> /\ fired = {}
              /\ evSrc = {} /\ evCh = {} /\ runs = [f \in FileIds(G0) |-> 0] /\ bad = FALSE
SanityNext == UNCHANGED vars

ASSUME Failing(L0) = {} /\ Failing(L1) = {} /\ UsesAreImportedAndInitialised(L0)
ASSUME "SameBitsSameChunk" \in Failing(Merged)
ASSUME "ChunkPartition" \in Failing(Duplicated)
ASSUME "EntryReachesItsCode" \in Failing(NoSideImports)
ASSUME "ImportsResolveToExports" \in Failing(LostExport)
ASSUME "NoStaticChunkCycle" \in Failing(BackEdge)
ASSUME "NoCrossChunkAssignment" \in Failing(ForeignAssign)
ASSUME "ImportsResolveToExports" \in Failing(Collision)
ASSUME \E c \in ChunkIds(L0) : ~L0.chunks[c].isEntry
ASSUME Failing(ComputeWith(GN, TRUE)) = {}
ASSUME "ImportsResolveToExports" \in Failing(ComputeWith(GN, FALSE))
ASSUME Failing(LC) = {} /\ LC.chunks[{1}].importsFrom # {}
ASSUME "EntryExportsImported" \in Failing(NoEntryImports)
ASSUME Failing(LW) = {} /\ UsesAreImportedAndInitialised(LW) /\ LW.files[3].wrap = "esm"
ASSUME \E x \in LW.chunks[{1, 2}].exports : x.alias = "init_m1" /\ x.name = "wrapper"
ASSUME ~UsesAreImportedAndInitialised(NoWrapperImport) /\ "CrossChunkUsesImported" \in Failing(NoWrapperImport)
ASSUME Compute(GWn).files[3].wrap = "none" /\ Compute(GWc).files[3].wrap = "cjs"
ASSUME \E x \in Compute(GWc).chunks[{1, 2}].exports : x.alias = "require_m1"
ASSUME Compute(GWv).files[3].wrap = "esm" /\ Compute(GWv).files[4].wrap = "esm"
ASSUME Failing(LP) = {} /\ CssId(3) \in ChunkIds(LP) /\ {3} \in ChunkIds(LP) /\ LP.chunks[CssId(3)].files = {6}
ASSUME "DynamicImportTargetsJS" \in Failing(DynToCss)
ASSUME "TwoChunkRule" \in Failing(NoCssChunk) /\ "ChunkPartition" \in Failing(NoCssChunk)
ASSUME "TwoChunkRule" \in Failing(CssInJsChunk)
ASSUME {x.alias : x \in TableOf(GS, 1)} = {"v", "c", "bump", "peek_e1", "poke_e1"}
ASSUME \A x \in TableOf(GS, 1) : x.file = 1
ASSUME {x.alias : x \in TableOf(GT, 1)} = {"v", "c", "bump", "v2", "c2", "bump2", "peek_e1", "poke_e1"}
ASSUME \E x \in TableOf(GT, 1) : x.alias = "v2" /\ x.file = 3
=============================================================================
