----------------------------- MODULE LinkSanity -----------------------------
(***************************************************************************)
(* The properties of Link.tla are not vacuous: each of them rejects the     *)
(* link result of a fixed graph after the corresponding damage (two bit     *)
(* sets merged into one chunk, a file in two chunks, a lost side-effect     *)
(* import of an entry chunk, a lost export, a static back edge, an          *)
(* assignment from another chunk, a colliding alias) and accepts the        *)
(* undamaged result.  Checked by TLC as assumptions (no behaviours).        *)
(***************************************************************************)
EXTENDS LinkGen

\* e1 e2 e3 over m1 {e1,e2}, m2 {e1,e3}, m3 {e1,e2,e3}; all modules side-effect-only in G1
G0 == Apply("plain", Base(3, 3, <<3, 5, 7>>), 3, 3)
G1 == Apply("sideall", Base(3, 3, <<3, 5, 7>>), 3, 3)
L0 == Compute(G0)
L1 == Compute(G1)

K12 == {1, 2}
K13 == {1, 3}
K123 == {1, 2, 3}

Merged == [L0 EXCEPT !.chunks = [c \in DOMAIN L0.chunks \ {K13} |->
             IF c = K12 THEN [L0.chunks[c] EXCEPT !.files = @ \cup L0.chunks[K13].files] ELSE L0.chunks[c]]]
Duplicated == [L0 EXCEPT !.chunks[K12].files = @ \cup L0.chunks[K13].files]
NoSideImports == [L1 EXCEPT !.chunks = [c \in DOMAIN L1.chunks |->
             [L1.chunks[c] EXCEPT !.imports = {i \in @ : \E f \in L1.chunks[c].importsFrom : f.chunk = i.chunk}]]]
LostExport == [L0 EXCEPT !.chunks[K123].exports = {x \in @ : x.name # "v"}]
BackEdge == [L0 EXCEPT !.chunks[K123].imports = @ \cup {[chunk |-> {1}, kind |-> "static"]}]
ForeignAssign == [L0 EXCEPT !.assigns = @ \cup {[by |-> 1, file |-> 4, name |-> "c"]}]
Collision == [L0 EXCEPT !.chunks[K123].exports = @ \cup {[alias |-> (CHOOSE x \in L0.chunks[K123].exports : TRUE).alias, file |-> 6, name |-> "other"]}]

\* a trivial behaviour (TLC needs one): the checks are the assumptions below
SanityInit == /\ label = "sanity" /\ g = G0 /\ L = L0 /\ designFailing = {} /\ loaded = <<>> /\ fired = {}
              /\ evSrc = {} /\ evCh = {} /\ runs = [f \in FileIds(G0) |-> 0] /\ bad = FALSE
SanityNext == UNCHANGED vars

ASSUME Failing(L0) = {} /\ Failing(L1) = {} /\ UsesAreImportedAndInitialised(L0)
ASSUME "SameBitsSameChunk" \in Failing(Merged)
ASSUME "ChunkPartition" \in Failing(Duplicated)
ASSUME "EntryReachesItsCode" \in Failing(NoSideImports)
ASSUME "ImportsResolveToExports" \in Failing(LostExport)
ASSUME "NoStaticChunkCycle" \in Failing(BackEdge)
ASSUME "NoCrossChunkAssignment" \in Failing(ForeignAssign)
ASSUME "ImportsResolveToExports" \in Failing(Collision)
ASSUME FamilyHasSharedChunks
=============================================================================
