----------------------------- MODULE LinkState -----------------------------
(***************************************************************************)
(* State validation for C10: every record is one real splitting build.     *)
(* `files`, `entries`, `chunks` are the projection of the linker's state    *)
(* after computeCrossChunkDependencies (hook "link.done": entry bits per    *)
(* file, files per chunk, cross-chunk imports with kinds, exported aliases  *)
(* with the declaring file, imported aliases per chunk); `emitted` is the   *)
(* acorn analysis of the chunk files that were written (static and dynamic  *)
(* imports resolved to emitted files (style sheets included, as chunks of    *)
(* kind css), exported names, assignments to imported names); `uses` and     *)
(* `eexports` are the symbol uses (bindings, wrappers, exports objects) and  *)
(* entry exports the specification predicts, in the linker's file ids.  Both are turned into link results in the sense of      *)
(* Link.tla and the formulas that were model-checked on the design          *)
(* (LinkGen.tla) are evaluated on them.                                     *)
(***************************************************************************)
EXTENDS Link, Json

Records == ndJsonDeserialize("c10records.ndjson")

VARIABLE i
Init == i = 1
Next == i < Len(Records) /\ i' = i + 1
Spec == Init /\ [][Next]_i

Rec == Records[i]

\* the linker's state as a link result (file ids are source indices + 1; chunk ids are chunk indices + 1)
LReal ==
  [ files   |-> [id \in {Rec.files[j].id : j \in DOMAIN Rec.files} |->
                   LET r == CHOOSE r \in SeqToSet(Rec.files) : r.id = id
                   IN [live |-> r.live, bits |-> SeqToSet(r.bits), isEntry |-> r.isEntry, css |-> r.css]],
    entries |-> SeqToSet(Rec.entries),
    chunks  |-> [c \in DOMAIN Rec.chunks |->
                   LET r == Rec.chunks[c]
                   IN [ bits |-> SeqToSet(r.bits), kind |-> r.kind, isEntry |-> r.isEntry, entry |-> r.entry,
                        files |-> SeqToSet(r.files), order |-> r.files,
                        imports |-> {[chunk |-> x.chunk, kind |-> x.kind] : x \in SeqToSet(r.imports)},
                        exports |-> {[alias |-> x.alias, file |-> x.file, name |-> x.name] : x \in SeqToSet(r.exports)},
                        importsFrom |-> {[chunk |-> x.chunk, alias |-> x.alias] : x \in SeqToSet(r.importsFrom)} ]],
    assigns |-> {},
    \* the symbol uses the specification predicts for the graph (bindings, wrappers init_x / require_x, exports objects),
    \* joined in: CrossChunkUsesImported asks the REAL chunks for the imports they need
    uses    |-> {[by |-> x.by, file |-> x.file, name |-> x.name] : x \in SeqToSet(Rec.uses)},
    eexports |-> {[entry |-> x.entry, file |-> x.file, name |-> x.name] : x \in SeqToSet(Rec.eexports)} ]
\* the hook reports the number of exported symbols next to the alias map: a collision shows as a smaller map
AliasesDistinct == \A c \in DOMAIN Rec.chunks : Rec.chunks[c].exportCount = Len(Rec.chunks[c].exports)

\* the emitted files as a link result: one chunk per file, an export's alias is its exported name
LEmitted ==
  [ files   |-> [f \in DOMAIN Rec.emitted |-> [live |-> TRUE, bits |-> {}, isEntry |-> Rec.emitted[f].isEntry]],
    entries |-> {},
    chunks  |-> [c \in DOMAIN Rec.emitted |->
                   LET e == Rec.emitted[c]
                   IN [ bits |-> {}, kind |-> e.kind, isEntry |-> e.isEntry, entry |-> NoFile, files |-> {c}, order |-> <<c>>,
                        imports |-> {[chunk |-> x.to, kind |-> "static"] : x \in SeqToSet(e.imports)} \cup
                                    {[chunk |-> d, kind |-> "dynamic"] : d \in SeqToSet(e.dyn)},
                        exports |-> {[alias |-> n, file |-> c, name |-> n] : n \in SeqToSet(e.exports)},
                        importsFrom |-> UNION {{[chunk |-> x.to, alias |-> n] : n \in SeqToSet(x.names)} : x \in SeqToSet(e.imports)} ]],
    assigns |-> UNION {{[by |-> c, file |-> a.to, name |-> a.name] : a \in SeqToSet(Rec.emitted[c].assigns)} : c \in DOMAIN Rec.emitted},
    uses    |-> {},
    eexports |-> {} ]
\* no name is exported twice by an emitted file
EmittedExportsDistinct == \A c \in DOMAIN Rec.emitted : Cardinality(SeqToSet(Rec.emitted[c].exports)) = Len(Rec.emitted[c].exports)
EmittedParse == \A c \in DOMAIN Rec.emitted : ~Rec.emitted[c].parseError
\* an assignment to an imported name is wrong whatever it was imported from
EmittedNoAssignToImport == \A c \in DOMAIN Rec.emitted : Rec.emitted[c].assigns = <<>>

FailingRec ==
  Failing(LReal) \cup
  (IF AliasesDistinct THEN {} ELSE {"ImportsResolveToExports"}) \cup
  (IF EmittedParse THEN {} ELSE {"EmittedParse"}) \cup
  (IF NoStaticChunkCycle(LEmitted) THEN {} ELSE {"EmittedNoStaticChunkCycle"}) \cup
  \* no emitted JS file imports a style sheet, by statement or by import(); import() names an entry point's JS file
  (IF DynamicImportTargetsJS(LEmitted) THEN {} ELSE {"EmittedDynamicImportTargetsJS"}) \cup
  (IF ImportsResolveToExports(LEmitted) /\ EmittedExportsDistinct THEN {} ELSE {"EmittedImportsResolveToExports"}) \cup
  (IF NoCrossChunkAssignment(LEmitted) /\ EmittedNoAssignToImport THEN {} ELSE {"EmittedNoCrossChunkAssignment"})

\* one pass: always TRUE as an invariant, prints the verdict of every record
Report == PrintT(<<"CASE", ToJson([i |-> i, id |-> Rec.id, failing |-> FailingRec])>>)
=============================================================================
