------------------------------ MODULE TsConfig ------------------------------
(***************************************************************************)
(* C06, tsconfig family: how TypeScript resolves `compilerOptions` along   *)
(* an `extends` chain (TSConfig reference, "extends": "the configuration   *)
(* from the base file is loaded first, then overridden by those in the     *)
(* inheriting config file"; TypeScript 5.0: "extends" may be an array,     *)
(* later entries override earlier ones, the extending file overrides all;  *)
(* "alwaysStrict": default = `strict`; "useDefineForClassFields": default  *)
(* = true iff target >= ES2022).  The options are the ones that select the *)
(* TypeScript semantics esbuild implements.                                *)
(*                                                                         *)
(* A level = one tsconfig file = a partial function field -> value (total  *)
(* function with the distinguished value Unset).  All values are strings   *)
(* ("true"/"false" for booleans) so that levels are comparable.            *)
(*                                                                         *)
(* State machine: a chain is grown from its root base towards the leaf;    *)
(* `run` is the running resolution (one Override per step).  Invariants    *)
(* relate the running value to three independent formulations: the         *)
(* recursive file-by-file definition that follows the link structure       *)
(* (single base / array of two bases), the left fold, the "nearest         *)
(* definition wins" scan from the leaf, and every split of the chain into  *)
(* a resolved prefix and a separately resolved rest (associativity).       *)
(* Every reached chain of >= 2 levels is exported as a CASE with the       *)
(* expected resolved options and the derived facts (effective alwaysStrict,*)
(* define-vs-assign default).  Nothing here is transcribed from esbuild.   *)
(***************************************************************************)
EXTENDS Integers, Sequences, FiniteSets, TLC, Json

CONSTANTS MaxDepth,    \* levels per chain, single-field and target foci (2..4)
          PairDepth,   \* levels per chain, strict x alwaysStrict focus
          Stride,      \* chains of >= 3 levels are kept iff (code + Phase) % Stride = 0
          PairStride,  \* same for the strict x alwaysStrict focus
          Phase,       \* sampling phase (the harness writes the seed here)
          LinkMode     \* "rotate": one link shape per hop chosen by the chain code; "all": every allowed shape

VARIABLES focus, levels, links, run, code
vars == <<focus, levels, links, run, code>>

Unset == "-"
Fields == <<"useDefineForClassFields", "target", "verbatimModuleSyntax", "importsNotUsedAsValues", "preserveValueImports",
            "experimentalDecorators", "alwaysStrict", "strict", "jsx", "jsxFactory", "jsxFragmentFactory", "jsxImportSource">>
FieldSet == {Fields[i] : i \in 1..Len(Fields)}
Bool == <<"true", "false">>
Dom(f) == CASE f = "target" -> <<"ES2017", "ES2022", "ES2021", "ESNext">>
            [] f = "importsNotUsedAsValues" -> <<"remove", "preserve">>
            [] f = "jsx" -> <<"preserve", "react", "react-jsx">>
            [] f = "jsxFactory" -> <<"h", "h2">>
            [] f = "jsxFragmentFactory" -> <<"Frag", "Frag2">>
            [] f = "jsxImportSource" -> <<"p", "q">>
            [] OTHER -> Bool
DomSet(f) == {Dom(f)[i] : i \in 1..Len(Dom(f))}
Levels == [FieldSet -> STRING]      \* not enumerable: used in TypeOK only through LevelOK
LevelOK(L) == DOMAIN L = FieldSet /\ \A f \in FieldSet : L[f] = Unset \/ L[f] \in DomSet(f)
IsSet(L, f) == L[f] # Unset

Empty == [f \in FieldSet |-> Unset]
Set1(f, v) == [Empty EXCEPT ![f] = v]
Set2(f, v, g, w) == [Empty EXCEPT ![f] = v, ![g] = w]

(* ------------------------------------------------------------ the algebra *)
(* "the base file is loaded first, then overridden by the inheriting file": key by key *)
Override(base, derived) == [f \in FieldSet |-> IF IsSet(derived, f) THEN derived[f] ELSE base[f]]

RECURSIVE FoldOv(_, _, _)
FoldOv(lv, lo, hi) == IF lo > hi THEN Empty ELSE Override(FoldOv(lv, lo, hi - 1), lv[hi])
Resolve(lv) == FoldOv(lv, 1, Len(lv))

(* the definition that follows the files: file i is resolved as (its bases resolved, in array order) then itself.
   links[i-1] is the shape of the hop into level i:
     "relative" / "package": level i has ONE base, level i-1 (referenced by a relative path / through node_modules);
     "array": level i has TWO bases [level i-2 (with its own bases), level i-1 (which then extends nothing)] *)
RECURSIVE ResolveFile(_, _, _)
ResolveFile(lv, lk, i) ==
  IF i = 1 THEN lv[1]
  ELSE IF lk[i - 1] = "array" THEN Override(Override(ResolveFile(lv, lk, i - 2), lv[i - 1]), lv[i])
  ELSE Override(ResolveFile(lv, lk, i - 1), lv[i])

(* nearest definition wins: scan from the leaf *)
RECURSIVE Nearest(_, _, _)
Nearest(lv, f, i) == IF i = 0 THEN Unset ELSE IF IsSet(lv[i], f) THEN lv[i][f] ELSE Nearest(lv, f, i - 1)

(* derived facts of a resolved level *)
EffStrict(L) == IF IsSet(L, "alwaysStrict") THEN L["alwaysStrict"] = "true"
                ELSE IF IsSet(L, "strict") THEN L["strict"] = "true" ELSE FALSE
DefineOf(L) == IF IsSet(L, "useDefineForClassFields") THEN L["useDefineForClassFields"]
               ELSE IF IsSet(L, "target") THEN (IF L["target"] \in {"ES2022", "ESNext"} THEN "true" ELSE "false")
               ELSE "unset"      \* neither given: the tool's own language target decides

(* ------------------------------------------------------------- alphabets *)
Comp(f) == LET i == CHOOSE k \in 1..Len(Fields) : Fields[k] = f IN Fields[(i % Len(Fields)) + 1]
(* focus on one field f: unset / each value alone / the second value together with a companion field / the companion alone *)
FieldAlphabet(f) ==
  <<Empty>> \o [i \in 1..Len(Dom(f)) |-> IF i = 2 THEN Set2(f, Dom(f)[2], Comp(f), Dom(Comp(f))[1]) ELSE Set1(f, Dom(f)[i])]
            \o <<Set1(Comp(f), Dom(Comp(f))[2])>>
U3 == <<Unset, "true", "false">>
PairAlphabet == [k \in 1..9 |-> Set2("strict", U3[((k - 1) \div 3) + 1], "alwaysStrict", U3[((k - 1) % 3) + 1])]
TgtAlphabet == <<Empty, Set1("target", "ES2021"), Set1("target", "ES2022"), Set1("useDefineForClassFields", "true"),
                 Set1("useDefineForClassFields", "false"), Set2("target", "ESNext", "useDefineForClassFields", "false"),
                 Set2("target", "ES2017", "useDefineForClassFields", "true")>>
Foci == FieldSet \cup {"pair", "tgt"}
(* zero-arity constant definitions: evaluated once by TLC *)
AlphaFn == [fo \in Foci |-> CASE fo = "pair" -> PairAlphabet [] fo = "tgt" -> TgtAlphabet [] OTHER -> FieldAlphabet(fo)]
AlphaSetFn == [fo \in Foci |-> {AlphaFn[fo][i] : i \in 1..Len(AlphaFn[fo])}]
Alphabet(fo) == AlphaFn[fo]
AlphaSet(fo) == AlphaSetFn[fo]
DepthOf(fo) == IF fo = "pair" THEN PairDepth ELSE MaxDepth
StrideOf(fo) == IF fo = "pair" THEN PairStride ELSE Stride

(* algebraic laws over every alphabet (constant level: checked once at start-up) *)
ASSUME \A fo \in Foci : \A L \in AlphaSet(fo) : LevelOK(L)
ASSUME FieldWise == \A fo \in Foci : \A b, d \in AlphaSet(fo) : \A f \in FieldSet :
         Override(b, d)[f] = (IF IsSet(d, f) THEN d[f] ELSE b[f])
ASSUME Assoc == \A fo \in Foci : \A a, b, c \in AlphaSet(fo) : Override(Override(a, b), c) = Override(a, Override(b, c))
ASSUME Identity == \A fo \in Foci : \A a \in AlphaSet(fo) : Override(Empty, a) = a /\ Override(a, Empty) = a
ASSUME Idempotent == \A fo \in Foci : \A a \in AlphaSet(fo) : Override(a, a) = a
(* across alphabets too (pairs of levels of different foci: what a real chain of unrelated files does) *)
ASSUME CrossAssoc == \A a \in AlphaSet("pair"), b \in AlphaSet("tgt"), c \in AlphaSet("jsx") :
         Override(Override(a, b), c) = Override(a, Override(b, c)) /\ Override(Override(c, a), b) = Override(c, Override(a, b))
(* alwaysStrict defaults to strict only when it is absent from the RESOLVED options *)
ASSUME StrictDefault == \A a, b \in AlphaSet("pair") : LET r == Override(a, b) IN
         /\ (IsSet(b, "alwaysStrict") => EffStrict(r) = (b["alwaysStrict"] = "true"))
         /\ (~IsSet(a, "alwaysStrict") /\ ~IsSet(b, "alwaysStrict") /\ IsSet(b, "strict") => EffStrict(r) = (b["strict"] = "true"))
         /\ (IsSet(a, "alwaysStrict") /\ ~IsSet(b, "alwaysStrict") => EffStrict(r) = (a["alwaysStrict"] = "true"))

(* --------------------------------------------------------------- machine *)
Shapes == {"relative", "package", "array"}
AllowedShapes(lk) == IF Len(lk) >= 1 /\ lk[Len(lk)] # "array" THEN <<"relative", "package", "array">> ELSE <<"relative", "package">>
Keep(fo, n, c) == IF n < 3 THEN TRUE ELSE (c + Phase) % StrideOf(fo) = 0   \* (IF: a disjunction in an action is a branch point)
ShapesFor(fo, lk, c) == LET A == AllowedShapes(lk) IN
  IF LinkMode = "all" THEN {A[i] : i \in 1..Len(A)}
  ELSE {A[(((c \div StrideOf(fo)) + Phase) % Len(A)) + 1]}

(* two bases that disagree on a key, listed in ONE array by a file that sets nothing itself: the case that shows
   "later entries override earlier ones"; always generated, whatever the sampling says *)
Conflict(a, b) == \E f \in FieldSet : IsSet(a, f) /\ IsSet(b, f) /\ a[f] # b[f]
ForcedArray(lv, lk, i) == /\ i = 1 /\ Len(lv) >= 2 /\ Conflict(lv[Len(lv) - 1], lv[Len(lv)])
                          /\ (IF Len(lk) >= 1 THEN lk[Len(lk)] # "array" ELSE FALSE)

OnlySet(L) == [f \in {g \in FieldSet : IsSet(L, g)} |-> L[f]]
SetAt(lv, f) == {i \in 1..Len(lv) : IsSet(lv[i], f)}
NonTrivial(lv) == \/ \E f \in FieldSet : Cardinality(SetAt(lv, f)) >= 2
                  \/ (SetAt(lv, "strict") # {} /\ SetAt(lv, "alwaysStrict") # {})
                  \/ (SetAt(lv, "target") # {} /\ SetAt(lv, "useDefineForClassFields") # {})

CaseRec(fo, lv, lk, r, c) ==
  [spec |-> "TsConfig", focus |-> fo, code |-> c, levels |-> [i \in 1..Len(lv) |-> OnlySet(lv[i])], links |-> lk,
   resolved |-> OnlySet(r), strict |-> EffStrict(r), define |-> DefineOf(r), nontrivial |-> NonTrivial(lv)]

Init == /\ focus \in Foci
        /\ \E i \in 1..Len(Alphabet(focus)) : levels = <<Alphabet(focus)[i]>> /\ run = Alphabet(focus)[i] /\ code = i
        /\ links = <<>>

Extend == /\ Len(levels) < DepthOf(focus)
          /\ \E i \in 1..Len(Alphabet(focus)) :
               LET L == Alphabet(focus)[i]  c == code * 11 + i IN
               /\ (IF ForcedArray(levels, links, i) THEN TRUE ELSE Keep(focus, Len(levels) + 1, c))
               /\ \E s \in (IF ForcedArray(levels, links, i) THEN {"array"} ELSE ShapesFor(focus, links, c)) :
                    /\ levels' = Append(levels, L)
                    /\ links' = Append(links, s)
                    /\ run' = Override(run, L)
                    /\ code' = c
                    /\ focus' = focus
                    /\ PrintT(<<"CASE", ToJson(CaseRec(focus, levels', links', run', c))>>)
Next == Extend
Spec == Init /\ [][Next]_vars

(* ------------------------------------------------------------ invariants *)
TypeOK == /\ focus \in Foci
          /\ Len(levels) \in 1..DepthOf(focus) /\ Len(links) = Len(levels) - 1
          /\ \A i \in 1..Len(levels) : levels[i] \in AlphaSet(focus)
          /\ \A j \in 1..Len(links) : links[j] \in Shapes /\ (links[j] = "array" => j >= 2 /\ links[j - 1] # "array")
          /\ LevelOK(run)
(* the running value is the left fold ... *)
FoldOK == run = Resolve(levels)
(* ... is what resolving the files one by one along the links gives (array bases left to right, then the file) ... *)
FileOK == run = ResolveFile(levels, links, Len(levels))
(* ... is, key by key, the nearest definition seen from the leaf ... *)
NearestOK == \A f \in FieldSet : run[f] = Nearest(levels, f, Len(levels))
(* ... and may be computed from any resolved prefix and the separately resolved rest *)
SplitOK == \A k \in 1..Len(levels) - 1 : run = Override(FoldOv(levels, 1, k), FoldOv(levels, k + 1, Len(levels)))
(* the effective alwaysStrict: the nearest alwaysStrict if any level has one, else the nearest strict, else off;
   in particular a `strict` that a later `strict` overrides never matters *)
StrictOK == LET as == Nearest(levels, "alwaysStrict", Len(levels))  st == Nearest(levels, "strict", Len(levels)) IN
            EffStrict(run) = (IF as # Unset THEN as = "true" ELSE IF st # Unset THEN st = "true" ELSE FALSE)
OverriddenStrictIrrelevant ==
  \A k \in 1..Len(levels) : (IsSet(levels[k], "strict") /\ \E j \in (k + 1)..Len(levels) : IsSet(levels[j], "strict")) =>
     \A v \in {Unset, "true", "false"} :
        EffStrict(Resolve([levels EXCEPT ![k] = [levels[k] EXCEPT !["strict"] = v]])) = EffStrict(run)
DefineOK == LET ud == Nearest(levels, "useDefineForClassFields", Len(levels))  tg == Nearest(levels, "target", Len(levels)) IN
            DefineOf(run) = (IF ud # Unset THEN ud ELSE IF tg = Unset THEN "unset" ELSE IF tg \in {"ES2022", "ESNext"} THEN "true" ELSE "false")
(* one step only adds the new level's keys *)
StepOK == [][\A f \in FieldSet : run'[f] = (IF IsSet(levels'[Len(levels')], f) THEN levels'[Len(levels')][f] ELSE run[f])]_vars
=============================================================================
