---------------------------- MODULE OutputState ----------------------------
(***************************************************************************)
(* State validation for C17: every record describes one real build step    *)
(* (api.Build / Context.Rebuild on a real directory): the options that      *)
(* matter, the canonical (symlink-resolved) paths of the inputs, the        *)
(* outputs the build reported, the snapshot of the whole tree before and    *)
(* after, and the paths earlier builds of the same context reported.  The   *)
(* invariants are those of Output.tla, stated over the recorded data.       *)
(* Paths are sequences of segments relative to the scenario root.           *)
(***************************************************************************)
EXTENDS Integers, Sequences, FiniteSets, TLC, Json

Records == ndJsonDeserialize("c17records.ndjson")

VARIABLE i
Init == i = 1
Next == i < Len(Records) /\ i' = i + 1
Spec == Init /\ [][Next]_i

Rec == Records[i]
ToSet(s) == {s[k] : k \in 1..Len(s)}
Before == ToSet(Rec.before)
After == ToSet(Rec.after)
PathsOf(S) == {x.p : x \in S}
Inputs == ToSet(Rec.inputs)
Owned == ToSet(Rec.owned)
Reported == ToSet(Rec.reported)
ReportedPaths == PathsOf(Reported)

Created == PathsOf(After) \ PathsOf(Before)
Deleted == PathsOf(Before) \ PathsOf(After)
Modified == {x.p : x \in {a \in After : \E b \in Before : b.p = a.p /\ b.h # a.h}}
Touched == Created \cup Modified
IsPrefix(s, t) == Len(s) <= Len(t) /\ SubSeq(t, 1, Len(s)) = s

\* a successful writing build leaves exactly its reported outputs, with the reported bytes
WritesExactlyReported ==
  /\ Touched \subseteq ReportedPaths
  /\ (Rec.write /\ ~Rec.errors) => \A r \in Reported : \E a \in After : a.p = r.p /\ a.h = r.h

\* outputs stay inside the output directory when no template has a parent segment
InsideOutdir ==
  (Rec.noParent /\ ~Rec.errors) => \A p \in ReportedPaths : IsPrefix(Rec.outdir, p)

\* no input is overwritten or deleted unless overwriting was allowed
InputsNeverClobbered ==
  ~Rec.allowOverwrite => (Touched \cup Deleted) \cap Inputs = {}

\* one path is never reported twice
NoTwoOutputsOnePath == Cardinality(ReportedPaths) = Len(Rec.reported)

\* a failed or cancelled build and a build with writing disabled create/modify nothing
FailedBuildWritesNothing == (Rec.errors \/ ~Rec.write) => Touched = {}

\* only own stale outputs are deleted
DeletesOnlyOwnStale ==
  /\ Deleted \subseteq Owned
  /\ ~Rec.errors => Deleted \cap ReportedPaths = {}

\* One pass over all records: TLC evaluates every invariant on every record
\* and reports the names of those that fail (always TRUE as an invariant, so
\* that one bad record does not hide the following ones).
Failing ==
  (IF WritesExactlyReported THEN {} ELSE {"WritesExactlyReported"}) \cup
  (IF InsideOutdir THEN {} ELSE {"InsideOutdir"}) \cup
  (IF InputsNeverClobbered THEN {} ELSE {"InputsNeverClobbered"}) \cup
  (IF NoTwoOutputsOnePath THEN {} ELSE {"NoTwoOutputsOnePath"}) \cup
  (IF FailedBuildWritesNothing THEN {} ELSE {"FailedBuildWritesNothing"}) \cup
  (IF DeletesOnlyOwnStale THEN {} ELSE {"DeletesOnlyOwnStale"})
Report == PrintT(<<"CASE", ToJson([i |-> i, failing |-> Failing, touched |-> Touched, deleted |-> Deleted])>>)
=============================================================================
