------------------------------ MODULE SlotJoin ------------------------------
(***************************************************************************)
(* The join rule of the inner goroutine pools of the compile phase         *)
(* (linker.go generateChunksInParallel: one goroutine per chunk writing    *)
(* results[chunkIndex]; generateChunkJS / generateChunkCSS: one goroutine  *)
(* per part range / per CSS import writing compileResults[i];              *)
(* renameSymbolsInChunk: allTopLevelSymbols[i] per file; bundler.go        *)
(* computeDataForSourceMapsInParallel: results[sourceIndex]; Compile:      *)
(* resultGroups[i] per entry point).  K workers, worker k computes F[k]    *)
(* from the inputs alone and stores it in slot k of a pre-sized slice; the *)
(* owner waits for all of them (WaitGroup) and reads the slots in index    *)
(* order.  Whatever the completion order, the joined result is             *)
(* <<F[1], ..., F[K]>>.  The what-if variant Append = TRUE (results        *)
(* appended to a shared slice in completion order) violates JoinByIndex.   *)
(***************************************************************************)
EXTENDS Integers, Sequences, FiniteSets

CONSTANTS K, AppendJoin

VARIABLES slot, done, joined, order
vars == <<slot, done, joined, order>>

F(k) == k * k   \* any function of the index (= of the inputs) alone

Init == slot = [k \in 1 .. K |-> -1] /\ done = {} /\ joined = <<>> /\ order = <<>>

Finish(k) ==
  /\ k \notin done
  /\ done' = done \cup {k}
  /\ slot' = [slot EXCEPT ![k] = F(k)]
  /\ order' = Append(order, F(k))
  /\ UNCHANGED joined

Join ==
  /\ done = 1 .. K /\ joined = <<>> /\ K > 0
  /\ joined' = IF AppendJoin THEN order ELSE [k \in 1 .. K |-> slot[k]]
  /\ UNCHANGED <<slot, done, order>>

Next == (\E k \in 1 .. K : Finish(k)) \/ Join \/ (joined # <<>> /\ UNCHANGED vars)
Spec == Init /\ [][Next]_vars

JoinByIndex == joined # <<>> => joined = [k \in 1 .. K |-> F(k)]
=============================================================================
