------------------------------- MODULE JsFold -------------------------------
(***************************************************************************)
(* C03 reference algebra: the part of ECMAScript's value semantics that    *)
(* TLC can compute EXACTLY.                                                *)
(*                                                                         *)
(* TLC integers are 32-bit Java ints, so Number values are carried as      *)
(*   sign + magnitude, the magnitude being a little-endian BIT SEQUENCE    *)
(*   (<<>> = 0, no leading zero bits)                                      *)
(* which makes 2^31, 2^32-1, 2^53 and products like 2^53*2^53 exact.       *)
(* Results of + - * on integers are rounded to 53 significant bits with    *)
(* round-half-to-even (that IS the IEEE-754 result because the exact       *)
(* mathematical result is an integer).  Whatever would need a fraction     *)
(* (inexact division, finite ** results, ToString of integers > 2^53) is   *)
(* the value Unk: "not defined by this module" (exact = FALSE in exports). *)
(*                                                                         *)
(* Transcribed from ECMA-262 (2023): 6.1.6.1 Number::* operations, 7.1.3   *)
(* ToNumber / 7.1.4.1.1 StringToNumber, 7.1.6/7.1.7 ToInt32/ToUint32,      *)
(* 6.1.6.1.20 Number::toString (integers), 7.2.13 IsLessThan, 7.2.14       *)
(* IsLooselyEqual, 7.2.15 IsStrictlyEqual, 13.5.3 typeof, 7.1.2 ToBoolean. *)
(* NOT transcribed from esbuild.                                           *)
(***************************************************************************)
EXTENDS Integers, Sequences, FiniteSets, TLC

(* ------------------------------------------------------------------ *)
(* naturals as bit sequences                                          *)
(* ------------------------------------------------------------------ *)
RECURSIVE Norm(_)
Norm(x) == IF x = <<>> THEN <<>>
           ELSE IF x[Len(x)] = 0 THEN Norm(SubSeq(x, 1, Len(x) - 1)) ELSE x

RECURSIVE NatOfInt(_)            \* native int >= 0 -> bits
NatOfInt(n) == IF n = 0 THEN <<>> ELSE <<n % 2>> \o NatOfInt(n \div 2)

RECURSIVE IntOfNat(_)            \* bits -> native int (caller guarantees < 2^31)
IntOfNat(x) == IF x = <<>> THEN 0 ELSE x[1] + 2 * IntOfNat(Tail(x))

RECURSIVE Fill(_, _)
Fill(k, b) == IF k <= 0 THEN <<>> ELSE <<b>> \o Fill(k - 1, b)
Zeros(k) == Fill(k, 0)

Bit(x, i) == IF i <= Len(x) THEN x[i] ELSE 0

RECURSIVE AddC(_, _, _)
AddC(x, y, c) ==
  IF x = <<>> /\ y = <<>> THEN (IF c = 0 THEN <<>> ELSE <<1>>)
  ELSE LET a == IF x = <<>> THEN 0 ELSE x[1]
           b == IF y = <<>> THEN 0 ELSE y[1]
           s == a + b + c
       IN <<s % 2>> \o AddC(IF x = <<>> THEN <<>> ELSE Tail(x),
                           IF y = <<>> THEN <<>> ELSE Tail(y), s \div 2)
NAdd(x, y) == Norm(AddC(x, y, 0))

RECURSIVE SubB(_, _, _)           \* x >= y
SubB(x, y, br) ==
  IF x = <<>> THEN <<>>
  ELSE LET c == IF y = <<>> THEN 0 ELSE y[1]
           d == x[1] - c - br + 2
       IN <<d % 2>> \o SubB(Tail(x), IF y = <<>> THEN <<>> ELSE Tail(y),
                           IF d < 2 THEN 1 ELSE 0)
NSub(x, y) == Norm(SubB(x, y, 0))

RECURSIVE CmpTop(_, _, _)         \* equal lengths, compare from the top bit
CmpTop(x, y, i) == IF i = 0 THEN 0
                   ELSE IF x[i] > y[i] THEN 1
                   ELSE IF x[i] < y[i] THEN -1
                   ELSE CmpTop(x, y, i - 1)
NCmp(x, y) == IF Len(x) > Len(y) THEN 1
              ELSE IF Len(x) < Len(y) THEN -1
              ELSE CmpTop(x, y, Len(x))

RECURSIVE NMul(_, _)
NMul(x, y) == IF x = <<>> \/ y = <<>> THEN <<>>
              ELSE LET rest == Norm(<<0>> \o NMul(x, Tail(y)))
                   IN IF y[1] = 1 THEN NAdd(x, rest) ELSE rest

RECURSIVE DivMod(_, _)            \* y # 0 ; <<quotient, remainder>>
DivMod(x, y) ==
  IF x = <<>> THEN << <<>>, <<>> >>
  ELSE LET qr == DivMod(Tail(x), y)
           r2 == Norm(<<x[1]>> \o qr[2])
       IN IF NCmp(r2, y) >= 0 THEN << Norm(<<1>> \o qr[1]), NSub(r2, y) >>
          ELSE << Norm(<<0>> \o qr[1]), r2 >>

Ten     == <<0, 1, 0, 1>>
One     == <<1>>
Pow2(k) == Zeros(k) \o <<1>>

(* round an integer magnitude to 53 significant bits, ties to even *)
RoundNat(m) ==
  IF Len(m) <= 53 THEN m
  ELSE LET k      == Len(m) - 53
           high   == SubSeq(m, k + 1, Len(m))
           half   == m[k] = 1
           sticky == \E j \in 1..(k - 1) : m[j] = 1
           up     == half /\ (sticky \/ high[1] = 1)
           h2     == IF up THEN NAdd(high, One) ELSE high
       IN Zeros(k) \o h2

(* ------------------------------------------------------------------ *)
(* values (one record shape, so that any two values are comparable)   *)
(* ------------------------------------------------------------------ *)
Val(t, sg, m, s) == [t |-> t, sg |-> sg, m |-> m, s |-> s]
Undef   == Val("undef", 0, <<>>, <<>>)
Null    == Val("null", 0, <<>>, <<>>)
Bool(b) == Val("bool", IF b THEN 1 ELSE 0, <<>>, <<>>)
True    == Bool(TRUE)
False   == Bool(FALSE)
IntV(sg, m) == Val("int", IF m = <<>> THEN 1 ELSE sg, m, <<>>)   \* +0 is IntV(1, <<>>)
Num(n)  == IF n >= 0 THEN IntV(1, NatOfInt(n)) ELSE IntV(-1, NatOfInt(-n))   \* small native ints
PZero   == IntV(1, <<>>)
NZero   == Val("nzero", -1, <<>>, <<>>)
NaN     == Val("nan", 0, <<>>, <<>>)
PInf    == Val("pinf", 1, <<>>, <<>>)
NInf    == Val("ninf", -1, <<>>, <<>>)
Str(s)  == Val("str", 0, <<>>, s)
Big(sg, m) == Val("big", IF m = <<>> THEN 1 ELSE sg, m, <<>>)    \* BigInt (only classified, not computed with)
Obj(id) == Val("obj", id, <<>>, <<>>)                             \* object identity id
Err(c)  == Val("err", c, <<>>, <<>>)                              \* 1 TypeError, 2 ReferenceError, 3 probe budget
Unk     == Val("unk", 0, <<>>, <<>>)                              \* not defined exactly by this module

TypeErr == Err(1)
RefErr  == Err(2)

NumTypes == {"int", "nzero", "nan", "pinf", "ninf"}
IsNum(v)  == v.t \in NumTypes
IsZero(v) == v.t = "nzero" \/ (v.t = "int" /\ v.m = <<>>)
IsInf(v)  == v.t \in {"pinf", "ninf"}
IsFin(v)  == v.t \in {"int", "nzero"}
SignOf(v) == IF v.t \in {"nzero", "ninf"} THEN -1 ELSE IF v.t = "pinf" THEN 1 ELSE v.sg
InfOf(sg)  == IF sg = 1 THEN PInf ELSE NInf
ZeroOf(sg) == IF sg = 1 THEN PZero ELSE NZero
IsPrim(v) == v.t \notin {"obj", "unk", "err"}

(* an integer result of exact arithmetic -> Number (rounded) *)
MkInt(sg, m) == IF Len(m) > 1000 THEN Unk ELSE IntV(sg, RoundNat(m))

(* ---- code units ---- *)
CU(str) ==   \* the few string literals this module needs, as code units
  CASE str = "undefined" -> <<117,110,100,101,102,105,110,101,100>>
    [] str = "null"      -> <<110,117,108,108>>
    [] str = "true"      -> <<116,114,117,101>>
    [] str = "false"     -> <<102,97,108,115,101>>
    [] str = "NaN"       -> <<78,97,78>>
    [] str = "Infinity"  -> <<73,110,102,105,110,105,116,121>>
    [] str = "-Infinity" -> <<45,73,110,102,105,110,105,116,121>>
    [] str = "object"    -> <<111,98,106,101,99,116>>
    [] str = "boolean"   -> <<98,111,111,108,101,97,110>>
    [] str = "number"    -> <<110,117,109,98,101,114>>
    [] str = "string"    -> <<115,116,114,105,110,103>>
    [] str = "bigint"    -> <<98,105,103,105,110,116>>
    [] str = "function"  -> <<102,117,110,99,116,105,111,110>>
    [] str = "[object Object]" -> <<91,111,98,106,101,99,116,32,79,98,106,101,99,116,93>>
    [] str = "k"         -> <<107>>
    [] str = "symbol"    -> <<115,121,109,98,111,108>>

(* ------------------------------------------------------------------ *)
(* Number::add / subtract / multiply / divide / remainder             *)
(* ------------------------------------------------------------------ *)
Neg(a) == CASE a.t = "int"   -> IF a.m = <<>> THEN NZero ELSE IntV(-a.sg, a.m)
            [] a.t = "nzero" -> PZero
            [] a.t = "pinf"  -> NInf
            [] a.t = "ninf"  -> PInf
            [] OTHER         -> a            \* nan, unk

NumAdd(a, b) ==
  IF a.t = "unk" \/ b.t = "unk" THEN Unk
  ELSE IF a.t = "nan" \/ b.t = "nan" THEN NaN
  ELSE IF IsInf(a) THEN (IF IsInf(b) /\ a.t # b.t THEN NaN ELSE a)
  ELSE IF IsInf(b) THEN b
  ELSE IF a.t = "nzero" THEN b               \* -0 + -0 = -0, -0 + x = x
  ELSE IF b.t = "nzero" THEN a
  ELSE IF a.sg = b.sg THEN MkInt(a.sg, NAdd(a.m, b.m))
  ELSE LET c == NCmp(a.m, b.m)
       IN IF c = 0 THEN PZero
          ELSE IF c > 0 THEN MkInt(a.sg, NSub(a.m, b.m))
          ELSE MkInt(b.sg, NSub(b.m, a.m))

NumSub(a, b) == NumAdd(a, Neg(b))

NumMul(a, b) ==
  IF a.t = "unk" \/ b.t = "unk" THEN Unk
  ELSE IF a.t = "nan" \/ b.t = "nan" THEN NaN
  ELSE LET sg == SignOf(a) * SignOf(b)
       IN IF IsInf(a) \/ IsInf(b)
          THEN (IF IsZero(a) \/ IsZero(b) THEN NaN ELSE InfOf(sg))
          ELSE IF IsZero(a) \/ IsZero(b) THEN ZeroOf(sg)
          ELSE MkInt(sg, NMul(a.m, b.m))

NumDiv(a, b) ==
  IF a.t = "unk" \/ b.t = "unk" THEN Unk
  ELSE IF a.t = "nan" \/ b.t = "nan" THEN NaN
  ELSE LET sg == SignOf(a) * SignOf(b)
       IN IF IsInf(a) THEN (IF IsInf(b) THEN NaN ELSE InfOf(sg))
          ELSE IF IsInf(b) THEN ZeroOf(sg)
          ELSE IF IsZero(b) THEN (IF IsZero(a) THEN NaN ELSE InfOf(sg))
          ELSE IF IsZero(a) THEN ZeroOf(sg)
          ELSE LET qr == DivMod(a.m, b.m)
               IN IF qr[2] = <<>> THEN MkInt(sg, qr[1]) ELSE Unk   \* a fraction: not exact here

NumRem(a, b) ==       \* 6.1.6.1.6: sign of the dividend, fmod is exact
  IF a.t = "unk" \/ b.t = "unk" THEN Unk
  ELSE IF a.t = "nan" \/ b.t = "nan" \/ IsInf(a) \/ IsZero(b) THEN NaN
  ELSE IF IsInf(b) \/ IsZero(a) THEN a
  ELSE LET r == DivMod(a.m, b.m)[2]
       IN IF r = <<>> THEN ZeroOf(a.sg) ELSE IntV(a.sg, r)

IsOddInt(v) == v.t = "int" /\ v.m # <<>> /\ v.m[1] = 1

(* 6.1.6.1.3 Number::exponentiate: the special-case table; everything else
   ("implementation-approximated") is Unk.  All finite grid values are integers,
   so step 12 (negative base, non-integral exponent => NaN) cannot arise. *)
NumPow(base, ex) ==
  IF ex.t = "unk" THEN Unk
  ELSE IF ex.t = "nan" THEN NaN                                          \* 1
  ELSE IF IsZero(ex) THEN Num(1)                                         \* 2
  ELSE IF base.t = "unk" THEN Unk
  ELSE IF base.t = "nan" THEN NaN                                        \* 3
  ELSE LET exPos == SignOf(ex) = 1
       IN IF base.t = "pinf" THEN (IF exPos THEN PInf ELSE PZero)         \* 4
          ELSE IF base.t = "ninf"                                        \* 5
          THEN (IF exPos THEN (IF IsOddInt(ex) THEN NInf ELSE PInf)
                         ELSE (IF IsOddInt(ex) THEN NZero ELSE PZero))
          ELSE IF base.t = "int" /\ base.m = <<>>                        \* 6  (+0)
          THEN (IF exPos THEN PZero ELSE PInf)
          ELSE IF base.t = "nzero"                                       \* 7  (-0)
          THEN (IF exPos THEN (IF IsOddInt(ex) THEN NZero ELSE PZero)
                         ELSE (IF IsOddInt(ex) THEN NInf ELSE PInf))
          ELSE LET c == NCmp(base.m, One)     \* base finite, non-zero integer: abs(base) >= 1
               IN IF ex.t = "pinf" THEN (IF c > 0 THEN PInf ELSE NaN)     \* 9  (abs(base) = 1 => NaN)
                  ELSE IF ex.t = "ninf" THEN (IF c > 0 THEN PZero ELSE NaN) \* 10
                  ELSE Unk                                               \* 13 implementation-approximated

(* ------------------------------------------------------------------ *)
(* strings <-> numbers                                                *)
(* ------------------------------------------------------------------ *)
RECURSIVE DigitsOfNat(_)
DigitsOfNat(m) == IF m = <<>> THEN <<>>
                  ELSE LET qr == DivMod(m, Ten)
                       IN DigitsOfNat(qr[1]) \o <<48 + IntOfNat(qr[2])>>

(* Number::toString(x, 10); integers only. Above 2^53 the shortest round-trip
   digit string is not the exact decimal expansion: Unk. *)
NumToStr(v) ==
  CASE v.t = "nan"   -> Str(CU("NaN"))
    [] v.t = "pinf"  -> Str(CU("Infinity"))
    [] v.t = "ninf"  -> Str(CU("-Infinity"))
    [] v.t = "nzero" -> Str(<<48>>)
    [] v.t = "int"   -> IF v.m = <<>> THEN Str(<<48>>)
                        ELSE IF NCmp(v.m, Pow2(53)) > 0 THEN Unk
                        ELSE Str((IF v.sg = -1 THEN <<45>> ELSE <<>>) \o DigitsOfNat(v.m))
    [] OTHER         -> Unk

DigitVal(c) == IF c >= 48 /\ c <= 57 THEN c - 48
               ELSE IF c >= 97 /\ c <= 102 THEN c - 87
               ELSE IF c >= 65 /\ c <= 70 THEN c - 55
               ELSE 99
AllDigits(s, radix) == Len(s) >= 1 /\ \A i \in 1..Len(s) : DigitVal(s[i]) < radix

RECURSIVE NatOfDigits(_, _)
NatOfDigits(s, radix) ==
  IF s = <<>> THEN <<>>
  ELSE NAdd(NMul(NatOfDigits(SubSeq(s, 1, Len(s) - 1), radix), NatOfInt(radix)),
            NatOfInt(DigitVal(s[Len(s)])))

InfinityUnits == CU("Infinity")
\* characters that could make a string a numeric literal this module does not parse
NumericLooking(s) == \A i \in 1..Len(s) :
                        s[i] \in (48..57) \cup {43, 45, 46, 69, 101, 9, 10, 11, 12, 13, 32, 95}

(* 7.1.4.1.1 StringToNumber on strings without white space, '.', exponents *)
StrToNum(s) ==
  IF s = <<>> THEN PZero
  ELSE IF Len(s) >= 3 /\ s[1] = 48 /\ s[2] \in {98, 66} /\ AllDigits(SubSeq(s, 3, Len(s)), 2)
       THEN MkInt(1, NatOfDigits(SubSeq(s, 3, Len(s)), 2))
  ELSE IF Len(s) >= 3 /\ s[1] = 48 /\ s[2] \in {111, 79} /\ AllDigits(SubSeq(s, 3, Len(s)), 8)
       THEN MkInt(1, NatOfDigits(SubSeq(s, 3, Len(s)), 8))
  ELSE IF Len(s) >= 3 /\ s[1] = 48 /\ s[2] \in {120, 88} /\ AllDigits(SubSeq(s, 3, Len(s)), 16)
       THEN MkInt(1, NatOfDigits(SubSeq(s, 3, Len(s)), 16))
  ELSE LET signed == s[1] \in {43, 45}
           sg     == IF s[1] = 45 THEN -1 ELSE 1
           body   == IF signed THEN Tail(s) ELSE s
       IN IF body = InfinityUnits THEN InfOf(sg)
          ELSE IF AllDigits(body, 10)
               THEN LET m == NatOfDigits(body, 10)
                    IN IF m = <<>> THEN ZeroOf(sg) ELSE MkInt(sg, m)
          ELSE IF NumericLooking(s) THEN Unk     \* "1e3", " 1", "1.5": outside this module
          ELSE NaN

(* 7.1.4 ToNumber on primitives (BigInt throws a TypeError) *)
ToNumber(v) ==
  CASE v.t = "undef" -> NaN
    [] v.t = "null"  -> PZero
    [] v.t = "bool"  -> Num(v.sg)
    [] v.t = "str"   -> StrToNum(v.s)
    [] v.t = "big"   -> TypeErr
    [] IsNum(v)      -> v
    [] OTHER         -> Unk

(* 7.1.17 ToString on primitives *)
ToStr(v) ==
  CASE v.t = "undef" -> Str(CU("undefined"))
    [] v.t = "null"  -> Str(CU("null"))
    [] v.t = "bool"  -> Str(IF v.sg = 1 THEN CU("true") ELSE CU("false"))
    [] v.t = "str"   -> v
    [] v.t = "big"   -> IF v.m = <<>> THEN Str(<<48>>)
                        ELSE Str((IF v.sg = -1 THEN <<45>> ELSE <<>>) \o DigitsOfNat(v.m))
    [] IsNum(v)      -> NumToStr(v)
    [] OTHER         -> Unk

(* 7.1.2 ToBoolean; objects are truthy. Returns TRUE/FALSE; callers must not pass Unk *)
Truthy(v) ==
  CASE v.t \in {"undef", "null", "nan", "nzero"} -> FALSE
    [] v.t = "bool" -> v.sg = 1
    [] v.t = "int"  -> v.m # <<>>
    [] v.t = "big"  -> v.m # <<>>
    [] v.t = "str"  -> v.s # <<>>
    [] OTHER        -> TRUE
Nullish(v) == v.t \in {"undef", "null"}

TypeOf(v) ==
  CASE v.t = "undef" -> Str(CU("undefined"))
    [] v.t = "null"  -> Str(CU("object"))
    [] v.t = "bool"  -> Str(CU("boolean"))
    [] v.t = "str"   -> Str(CU("string"))
    [] v.t = "big"   -> Str(CU("bigint"))
    [] v.t = "obj"   -> Str(CU("object"))
    [] IsNum(v)      -> Str(CU("number"))
    [] OTHER         -> Unk

(* ------------------------------------------------------------------ *)
(* ToInt32 / ToUint32 and the 32-bit operators                        *)
(* ------------------------------------------------------------------ *)
Pad32(m) == [j \in 1..32 |-> Bit(m, j)]
Pow2_32  == Pow2(32)
Zero32   == Pad32(<<>>)

(* the 32-bit two's complement pattern of ToInt32(n) = ToUint32(n), n a Number *)
Bits32(n) ==
  IF n.t # "int" THEN Zero32                 \* NaN, +-0, +-Infinity -> 0
  ELSE LET lo == Norm(SubSeq(n.m, 1, IF Len(n.m) < 32 THEN Len(n.m) ELSE 32))   \* modulo 2^32
       IN IF n.sg = 1 \/ lo = <<>> THEN Pad32(lo) ELSE Pad32(NSub(Pow2_32, lo))

Int32Of(bits)  == IF bits[32] = 1 THEN IntV(-1, NSub(Pow2_32, Norm(bits))) ELSE IntV(1, Norm(bits))
Uint32Of(bits) == IntV(1, Norm(bits))
ToInt32(n)  == Int32Of(Bits32(n))
ToUint32(n) == Uint32Of(Bits32(n))

ShiftCount(n) == IntOfNat(Norm(SubSeq(Bits32(n), 1, 5)))       \* ToUint32(n) mod 32
Seq32(f) == [j \in 1..32 |-> f[j]]

NumShl(a, b)  == LET k == ShiftCount(b) x == Bits32(a)
                 IN Int32Of(Zeros(k) \o SubSeq(x, 1, 32 - k))
NumShr(a, b)  == LET k == ShiftCount(b) x == Bits32(a)
                 IN Int32Of(SubSeq(x, k + 1, 32) \o Fill(k, x[32]))
NumUShr(a, b) == LET k == ShiftCount(b) x == Bits32(a)
                 IN Uint32Of(SubSeq(x, k + 1, 32) \o Zeros(k))
NumAnd(a, b)  == LET x == Bits32(a) y == Bits32(b)
                 IN Int32Of([j \in 1..32 |-> IF x[j] = 1 /\ y[j] = 1 THEN 1 ELSE 0])
NumOr(a, b)   == LET x == Bits32(a) y == Bits32(b)
                 IN Int32Of([j \in 1..32 |-> IF x[j] = 1 \/ y[j] = 1 THEN 1 ELSE 0])
NumXor(a, b)  == LET x == Bits32(a) y == Bits32(b)
                 IN Int32Of([j \in 1..32 |-> IF x[j] # y[j] THEN 1 ELSE 0])
NumNot(a)     == LET x == Bits32(a) IN Int32Of([j \in 1..32 |-> 1 - x[j]])

(* ------------------------------------------------------------------ *)
(* comparison                                                         *)
(* ------------------------------------------------------------------ *)
(* Number::lessThan: "lt" | "ge" (not less) | "undef" (NaN involved) | "unk" *)
NumLess(a, b) ==
  IF a.t = "unk" \/ b.t = "unk" THEN "unk"
  ELSE IF a.t = "nan" \/ b.t = "nan" THEN "undef"
  ELSE IF a.t = b.t /\ IsInf(a) THEN "ge"
  ELSE IF a.t = "ninf" \/ b.t = "pinf" THEN "lt"
  ELSE IF a.t = "pinf" \/ b.t = "ninf" THEN "ge"
  ELSE IF IsZero(a) /\ IsZero(b) THEN "ge"
  ELSE LET sa == IF IsZero(a) THEN 0 ELSE a.sg
           sb == IF IsZero(b) THEN 0 ELSE b.sg
       IN IF sa < sb THEN "lt" ELSE IF sa > sb THEN "ge"
          ELSE IF sa = 1 THEN (IF NCmp(a.m, b.m) < 0 THEN "lt" ELSE "ge")
          ELSE (IF NCmp(a.m, b.m) > 0 THEN "lt" ELSE "ge")

(* UTF-16 code unit lexicographic order *)
RECURSIVE StrLess(_, _)
StrLess(x, y) == IF y = <<>> THEN FALSE
                 ELSE IF x = <<>> THEN TRUE
                 ELSE IF x[1] < y[1] THEN TRUE
                 ELSE IF x[1] > y[1] THEN FALSE
                 ELSE StrLess(Tail(x), Tail(y))

(* 7.2.13 IsLessThan on primitives (BigInt operands are outside this module) *)
PrimLess(a, b) ==
  IF a.t = "str" /\ b.t = "str" THEN (IF StrLess(a.s, b.s) THEN "lt" ELSE "ge")
  ELSE IF a.t = "big" \/ b.t = "big" THEN "unk"
  ELSE NumLess(ToNumber(a), ToNumber(b))

NumEq(a, b) ==        \* Number::equal ; "t" | "f" | "unk"
  IF a.t = "unk" \/ b.t = "unk" THEN "unk"
  ELSE IF a.t = "nan" \/ b.t = "nan" THEN "f"
  ELSE IF IsZero(a) /\ IsZero(b) THEN "t"
  ELSE IF a = b THEN "t" ELSE "f"

(* 7.2.15 IsStrictlyEqual (objects by identity) *)
StrictEq(a, b) ==
  IF a.t = "unk" \/ b.t = "unk" THEN "unk"
  ELSE IF IsNum(a) /\ IsNum(b) THEN NumEq(a, b)
  ELSE IF IsNum(a) \/ IsNum(b) THEN "f"
  ELSE IF a = b THEN "t" ELSE "f"

(* 7.2.14 IsLooselyEqual on primitives *)
LooseEqPrim(a, b) ==
  IF a.t = "unk" \/ b.t = "unk" THEN "unk"
  ELSE IF (IsNum(a) /\ IsNum(b)) \/ (a.t = b.t) THEN StrictEq(a, b)
  ELSE IF Nullish(a) /\ Nullish(b) THEN "t"
  ELSE IF Nullish(a) \/ Nullish(b) THEN "f"
  ELSE IF a.t = "big" \/ b.t = "big" THEN "unk"
  ELSE NumEq(ToNumber(a), ToNumber(b))     \* number/string/boolean mixes all end in a numeric comparison

BoolOf(r, negate) == IF r = "unk" THEN Unk ELSE Bool((r = "t") # negate)

(* ------------------------------------------------------------------ *)
(* the operators on PRIMITIVE operands (ToPrimitive already applied)   *)
(* result: a value, TypeErr, or Unk                                   *)
(* ------------------------------------------------------------------ *)
ArithOps   == {"-", "*", "/", "%", "**", "<<", ">>", ">>>", "&", "|", "^"}
RelOps     == {"<", ">", "<=", ">="}
EqOps      == {"==", "!=", "===", "!=="}
BinValueOps == {"+"} \cup ArithOps \cup RelOps \cup EqOps

NumBin(op, a, b) ==
  CASE op = "-"   -> NumSub(a, b)
    [] op = "*"   -> NumMul(a, b)
    [] op = "/"   -> NumDiv(a, b)
    [] op = "%"   -> NumRem(a, b)
    [] op = "**"  -> NumPow(a, b)
    [] op = "<<"  -> IF a.t = "unk" \/ b.t = "unk" THEN Unk ELSE NumShl(a, b)
    [] op = ">>"  -> IF a.t = "unk" \/ b.t = "unk" THEN Unk ELSE NumShr(a, b)
    [] op = ">>>" -> IF a.t = "unk" \/ b.t = "unk" THEN Unk ELSE NumUShr(a, b)
    [] op = "&"   -> IF a.t = "unk" \/ b.t = "unk" THEN Unk ELSE NumAnd(a, b)
    [] op = "|"   -> IF a.t = "unk" \/ b.t = "unk" THEN Unk ELSE NumOr(a, b)
    [] op = "^"   -> IF a.t = "unk" \/ b.t = "unk" THEN Unk ELSE NumXor(a, b)

BinPrim(op, a, b) ==
  IF a.t \in {"unk", "err", "undecl", "absent"} \/ b.t \in {"unk", "err", "undecl", "absent"} THEN Unk
  ELSE IF op = "+" THEN
    IF a.t = "str" \/ b.t = "str"
    THEN LET x == ToStr(a) y == ToStr(b)
         IN IF x.t = "unk" \/ y.t = "unk" THEN Unk ELSE Str(x.s \o y.s)
    ELSE IF a.t = "big" \/ b.t = "big" THEN (IF a.t = b.t THEN Unk ELSE TypeErr)
    ELSE NumAdd(ToNumber(a), ToNumber(b))
  ELSE IF op \in ArithOps THEN
    IF a.t = "big" \/ b.t = "big"
    THEN (IF a.t = b.t /\ op # ">>>" THEN Unk ELSE TypeErr)     \* mixing, or BigInt >>> : TypeError
    ELSE NumBin(op, ToNumber(a), ToNumber(b))
  ELSE IF op \in RelOps THEN
    LET r == IF op \in {"<", ">="} THEN PrimLess(a, b) ELSE PrimLess(b, a)
        \* a > b  is  b < a ; a <= b is not (b < a) ; a >= b is not (a < b); undefined => false
    IN IF r = "unk" THEN Unk
       ELSE IF op \in {"<", ">"} THEN Bool(r = "lt")
       ELSE Bool(r = "ge")
  ELSE IF op = "===" THEN BoolOf(StrictEq(a, b), FALSE)
  ELSE IF op = "!==" THEN BoolOf(StrictEq(a, b), TRUE)
  ELSE IF op = "=="  THEN BoolOf(LooseEqPrim(a, b), FALSE)
  ELSE IF op = "!="  THEN BoolOf(LooseEqPrim(a, b), TRUE)
  ELSE Unk

UnOps == {"-", "+", "!", "~", "typeof", "void"}
UnPrim(op, a) ==
  IF op = "void" THEN Undef
  ELSE IF a.t \in {"unk", "err"} THEN Unk
  ELSE IF op = "typeof" THEN TypeOf(a)
  ELSE IF op = "!" THEN Bool(~Truthy(a))
  ELSE IF a.t = "big" THEN (IF op = "+" THEN TypeErr ELSE Unk)
  ELSE LET n == ToNumber(a)
       IN IF n.t = "unk" THEN Unk
          ELSE IF op = "-" THEN Neg(n)
          ELSE IF op = "+" THEN n
          ELSE NumNot(n)

(* ------------------------------------------------------------------ *)
(* the boundary grid                                                  *)
(* ------------------------------------------------------------------ *)
P2_31 == Pow2(31)
P2_32 == Pow2(32)
P2_53 == Pow2(53)
S(str) == \* grid strings over the alphabet {0,1,9,a,b}
  CASE str = ""   -> Str(<<>>)
    [] str = "0"  -> Str(<<48>>)
    [] str = "a"  -> Str(<<97>>)
    [] str = "b"  -> Str(<<98>>)
    [] str = "10" -> Str(<<49, 48>>)
    [] str = "9"  -> Str(<<57>>)

Grid == << Undef, Null, True, False, PZero, NZero, Num(1), Num(-1), NaN, PInf, NInf,
           IntV(1, NSub(P2_31, One)), IntV(1, P2_31), IntV(1, NSub(P2_32, One)), IntV(1, P2_32),
           IntV(1, P2_53), S(""), S("0"), S("a"), S("b"), S("10"), S("9") >>
GridSet == {Grid[i] : i \in 1..Len(Grid)}

(* the fold tables are total: every operator maps grid x grid to a value of the algebra *)
RECURSIVE TrailingZeros(_)
TrailingZeros(m) == IF m = <<>> \/ m[1] = 1 THEN 0 ELSE 1 + TrailingZeros(Tail(m))
WellFormed(v) ==
  /\ v.t \in {"undef", "null", "bool", "int", "nzero", "nan", "pinf", "ninf", "str", "big", "obj", "err", "unk"}
  /\ v.t = "int" => /\ v.m = Norm(v.m) /\ v.sg \in {1, -1} /\ (v.m = <<>> => v.sg = 1)
                     /\ Len(v.m) - TrailingZeros(v.m) <= 53        \* a float64
  /\ v.t \notin {"int", "big"} => v.m = <<>>
  /\ v.t # "str" => v.s = <<>>

(* && || ?? and the comma operator on values *)
LogOps == {"&&", "||", "??"}
LogPrim(op, a, b) ==
  IF a.t = "unk" THEN Unk
  ELSE CASE op = "&&" -> IF Truthy(a) THEN b ELSE a
         [] op = "||" -> IF Truthy(a) THEN a ELSE b
         [] op = "??" -> IF Nullish(a) THEN b ELSE a
=============================================================================
