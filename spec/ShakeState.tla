----------------------------- MODULE ShakeState -----------------------------
(***************************************************************************)
(* State validation for C04.  One record = one real build of one scenario  *)
(* of ShakeGen.tla:                                                         *)
(*  - the linker's decisions projected by the link.done hook (per file:     *)
(*    live, entry, side-effects-free, wrap kind, for an entry point what    *)
(*    each export resolves to; per part: live, CanBeRemovedIfUnused,        *)
(*    ForceTreeShaking, dependencies, statement-level import targets),      *)
(*  - the exports of the entry point read after loading (native / bundle),  *)
(*  - where the statement under test ended up (the parts between the        *)
(*    sentinel declarations `before` and `after`),                          *)
(*  - the GROUND TRUTH of that statement (run alone natively: yes/no/ann),  *)
(*  - the probe trace of the native module graph and of the bundle, with    *)
(*    the event ids, and the sets mustKeep / mayVanish that ShakeGen        *)
(*    computed for the scenario from the abstract graph.                    *)
(* The invariants are those of Shake.tla evaluated on the recorded data     *)
(* (same operators), the soundness of the classifier, and the end-to-end    *)
(* trace relation.  One pass, a verdict per record (Report).                *)
(***************************************************************************)
EXTENDS Shake, Json

Records == ndJsonDeserialize("c04records.ndjson")

VARIABLE i
Init == i = 1
Next == i < Len(Records) /\ i' = i + 1
Spec == Init /\ [][Next]_i

Rec == Records[i]
ToSet(s) == {s[k] : k \in 1..Len(s)}

FileIds == {Rec.files[k].id : k \in 1..Len(Rec.files)}
FileRec(f) == Rec.files[CHOOSE k \in 1..Len(Rec.files) : Rec.files[k].id = f]

\* the dependency graph the real linker built (runtime file left out)
D == [files |-> FileIds,
      entry |-> {f \in FileIds : FileRec(f).entry},
      seFree |-> IF Rec.ignoreAnn THEN {} ELSE {f \in FileIds : FileRec(f).seFree},
      ts |-> Rec.ts,
      part |-> [f \in FileIds |-> [k \in 1..Len(FileRec(f).parts) |->
                  LET p == FileRec(f).parts[k] IN
                  [removable |-> p.rem, force |-> p.force,
                   deps |-> {<<d[1], d[2] + 1>> : d \in ToSet(p.deps)},
                   fdeps |-> {},
                   srecs |-> ToSet(p.srecs)]]]]
\* the liveness the real linker computed
L == [files |-> {f \in FileIds : FileRec(f).live},
      parts |-> {r \in PartRefs(D) : FileRec(r[1]).parts[r[2]].live}]

HasLink == Rec.linked

\* ---- Shake.tla's closure invariants on the real data (d, l: the graph and liveness above)
RLiveClosed(d, l) == HasLink => LiveClosed(d, l)
RImportsKept(d, l) == HasLink => ImportsKept(d, l)
RUnremovableKept(d, l) == HasLink => UnremovableKept(d, l)
REntriesLive(d, l) == HasLink => EntriesLive(d, l)
\* sideEffects:false reaches only the files the annotation covers
RAnnotationScoped == HasLink => \A f \in FileIds : FileRec(f).seFree => FileRec(f).annotated

\* ---- EXPORTED BINDINGS ARE INITIALISED (Shake.tla ExportsInitialisedOn on the real data):
\* whatever an entry point exports resolves (ResolvedExports / ImportsToBind, projected
\* independently of the dependencies of the entry point's dummy part) to declaring
\* parts that are live in a live file; and for every import / re-export statement
\* passed on the way (importData.ReExports) that names a WRAPPED file, some live
\* part of the same file imports that wrapped file -- that part is what becomes
\* the init_x() / require_x() call, without it the export is never initialised
Shift(s) == {<<q[1], q[2] + 1>> : q \in ToSet(s)}
RExportsInitialised(d, l) ==
  HasLink => \A f \in d.entry : \A k \in 1..Len(FileRec(f).exps) :
     LET x == FileRec(f).exps[k] IN
       /\ x.file \in l.files
       /\ (Shift(x.decl) \cap PartRefs(d)) \subseteq l.parts
       /\ \A v \in Shift(x.reExports) \cap PartRefs(d) : \A w \in PartAt(d, v).srecs :
             (w \in FileIds /\ FileRec(w).wrap # "none") =>
                \E q \in PartRefs(d) : q[1] = v[1] /\ q \in l.parts /\ w \in PartAt(d, q).srecs
\* the design is stricter: every declaring part and every statement passed is live
RExportDepsLive(d, l) ==
  HasLink => \A f \in d.entry : \A k \in 1..Len(FileRec(f).exps) :
     ((Shift(FileRec(f).exps[k].decl) \cup Shift(FileRec(f).exps[k].reExports)) \cap PartRefs(d)) \subseteq l.parts

\* ---- soundness of the classifier against the native ground truth
SlotParts == {<<Rec.slot.file, k + 1>> : k \in ToSet(Rec.slot.parts)}
Effectful == Rec.truth = "yes"
\* a statement that fired a probe (or threw) when run alone natively must sit
\* in a part that is NOT CanBeRemovedIfUnused (unless an annotation licensed it)
RClassifierSound(d) ==
  (HasLink /\ Rec.slot.present /\ Effectful) =>
     /\ SlotParts # {}
     /\ \E r \in SlotParts : ~PartAt(d, r).removable
\* and it is live as soon as its file is
REffectsKept(d, l) ==
  (HasLink /\ Rec.slot.present /\ Effectful /\ Rec.slot.file \in l.files) =>
     \E r \in SlotParts : ~PartAt(d, r).removable /\ r \in l.parts

\* ---- end to end: native trace vs bundle trace
RECURSIVE IsSubseqFrom(_, _, _, _)
IsSubseqFrom(s, t, a, b) ==     \* s[a..] is a subsequence of t[b..]
  IF a > Len(s) THEN TRUE
  ELSE IF b > Len(t) THEN FALSE
  ELSE IF s[a] = t[b] THEN IsSubseqFrom(s, t, a + 1, b + 1)
  ELSE IsSubseqFrom(s, t, a, b + 1)
IsSubseq(s, t) == IsSubseqFrom(s, t, 1, 1)

MayVanish == ToSet(Rec.mayVanish)
KeptIdx == {k \in 1..Len(Rec.nat) : Rec.natId[k] \notin MayVanish}
RECURSIVE SeqOfIdx(_, _)
SeqOfIdx(S, from) ==
  IF from > Len(Rec.nat) THEN <<>>
  ELSE (IF from \in S THEN <<Rec.nat[from]>> ELSE <<>>) \o SeqOfIdx(S, from + 1)
MustSurvive == SeqOfIdx(KeptIdx, 1)

Compared == Rec.built /\ ~Rec.rskip
\* the bundle does nothing the native program does not do, in the same order ...
RBundleWithinNative == Compared => IsSubseq(Rec.bun, Rec.nat)
\* ... and everything that may not vanish survives (without annotations: everything)
RObservableKept == Compared => IsSubseq(MustSurvive, Rec.bun)
\* every export of the entry point, read right after loading the bundle, has the
\* value / typeof / call result it has in the native module graph
RExportsObserved == (Compared /\ Rec.xcmp) => Rec.bunX = Rec.natX
\* the output never references a binding whose declaration was removed
RNoDanglingRef == Rec.built => Len(Rec.dangling) = 0

\* ---- spec vs native reference (three-way drift rule): not verdicts
DriftTruth == Rec.specTruth # Rec.rawTruth
DriftThrow == Rec.specThr # Rec.aloneThrew
NatIds == ToSet(Rec.natId)
DriftNative == ~Rec.natThrew /\ (NatIds # ToSet(Rec.predicted))

\* is the recorded liveness exactly the least fixed point of the transcription?
Transcribed(d, l) == HasLink => (Live(d) = l)

FailingOf(d, l) ==
  (IF RLiveClosed(d, l) THEN {} ELSE {"LiveClosed"}) \cup
  (IF RImportsKept(d, l) THEN {} ELSE {"ImportsKept"}) \cup
  (IF RUnremovableKept(d, l) THEN {} ELSE {"UnremovableKept"}) \cup
  (IF REntriesLive(d, l) THEN {} ELSE {"EntriesLive"}) \cup
  (IF RAnnotationScoped THEN {} ELSE {"AnnotationScoped"}) \cup
  (IF RClassifierSound(d) THEN {} ELSE {"ClassifierSound"}) \cup
  (IF REffectsKept(d, l) THEN {} ELSE {"EffectsKept"}) \cup
  (IF RBundleWithinNative THEN {} ELSE {"BundleWithinNative"}) \cup
  (IF RObservableKept THEN {} ELSE {"ObservableKept"}) \cup
  (IF RNoDanglingRef THEN {} ELSE {"NoDanglingRef"}) \cup
  (IF RExportsInitialised(d, l) THEN {} ELSE {"ExportsInitialised"}) \cup
  (IF RExportDepsLive(d, l) THEN {} ELSE {"ExportDepsLive"}) \cup
  (IF RExportsObserved THEN {} ELSE {"ExportsObserved"})
Drifts ==
  (IF DriftTruth THEN {"truth"} ELSE {}) \cup
  (IF DriftThrow THEN {"throw"} ELSE {}) \cup
  (IF DriftNative THEN {"native"} ELSE {})

Report ==
  LET d == D l == L IN
  PrintT(<<"CASE", ToJson([i |-> i, failing |-> FailingOf(d, l), drift |-> Drifts, transcribed |-> Transcribed(d, l)])>>)
=============================================================================
