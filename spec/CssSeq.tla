------------------------------- MODULE CssSeq -------------------------------
(***************************************************************************)
(* C12 - two families of SEQUENCES, as specification data with labels.     *)
(*                                                                         *)
(* dseq: a sequence of 3-5 declarations of ONE shorthand family in one     *)
(*   rule.  A step is a longhand (one of the four sides/corners) or the    *)
(*   shorthand with 1-4 values; its value (for a shorthand: its first      *)
(*   value, the others are plain numbers) is of a CLASS: number, zero,     *)
(*   auto, CSS-wide keyword, var(), opaque function (irreducible calc(),   *)
(*   env()), newer syntax a browser may reject (min()/max(): feature       *)
(*   math-fn); steps carry !important after a pattern.  The meaning of     *)
(*   such a rule is the cascade restricted to one rule (DeclWin); SeqLaw   *)
(*   states that it equals reading the declarations one after the other    *)
(*   (FoldWin: a declaration the environment understands overwrites the    *)
(*   longhands it sets unless the current value is more important).        *)
(*   Labels: for every side the consecutive steps that set it give         *)
(*   <<class, class, trigger>>; trigger = whether at / after the second    *)
(*   step all four longhands hold plain values of one importance (what a   *)
(*   minifier needs to write the shorthand): "at", "later", "blocked"      *)
(*   (they would later on, were it not for the second step), "never".      *)
(*                                                                         *)
(* rseq: three rules, each inside a stack of conditional wrappers (none,   *)
(*   @media M, M inside M - a wrapper identical to its parent -, another   *)
(*   medium inside M, @supports, @layer ...), selectors that overlap on    *)
(*   the document, and bodies after a pattern (XYX: the first and third    *)
(*   rule could be merged only ACROSS the second, which may win for an     *)
(*   element).  Label = how the wrapper stacks relate, whether a stack     *)
(*   repeats a wrapper, and whether equal bodies are adjacent or across.   *)
(***************************************************************************)
EXTENDS Css

PSel(s) == [t |-> "sel", s |-> s, c |-> NoCond, n |-> <<>>]
PCond(t, c) == [t |-> t, s |-> "", c |-> c, n |-> <<>>]
PLayer(n) == [t |-> "layer", s |-> "", c |-> NoCond, n |-> n]
Q1(a, sp) == [neg |-> FALSE, atoms |-> <<[a |-> a, sp |-> sp]>>]
D1(p, v, sp, imp) == [p |-> p, v |-> <<v>>, sp |-> <<sp>>, i |-> imp]
RuleItem(path, decls) == [k |-> "rule", path |-> path, decls |-> decls, names |-> <<>>]
StmtItem(names) == [k |-> "layer", path |-> <<>>, decls |-> <<>>, names |-> names]

\* ------------------------------------------------------------------ dseq
SeqFams == <<"margin", "padding", "inset", "border-radius">>
FamLonghands(f) == IF f = "border-radius" THEN Corners ELSE BoxSides(f)
Classes == <<"num", "zero", "auto", "wide", "var", "fn", "unk">>
NumVals == <<"l1", "l2", "pct", "lhalf", "em15">>
\* the value of class c used by step i (steps use different values, so that a stale value shows)
ClassVal(c, i) ==
  CASE Classes[c] = "num" -> NumVals[i]
    [] Classes[c] = "zero" -> "l0"
    [] Classes[c] = "auto" -> "auto"
    [] Classes[c] = "wide" -> <<"inherit", "initial", "unset", "revert", "inherit">>[i]
    [] Classes[c] = "var" -> "varx"
    [] Classes[c] = "fn" -> <<"mix", "envtop", "mix", "envtop", "mix">>[i]
    [] Classes[c] = "unk" -> <<"max12", "min12", "max12", "min12", "max12">>[i]
NumAt(i, pos) == NumVals[((i + pos) % 5) + 1]
\* step code: 0 = no step; otherwise (k - 1) * 7 + c with k in 1..4 = the longhand of side k, k in 5..8 = the shorthand with k - 4 values
StepK(s) == ((s - 1) \div 7) + 1
StepC(s) == ((s - 1) % 7) + 1
StepValid(f, s) ==
  LET k == StepK(s) c == Classes[StepC(s)] IN
  /\ (k > 5 => c \notin {"wide", "var"})                       \* a keyword or var() is the whole value of a shorthand
  /\ (f \in {"border-radius", "padding"} => c # "auto")           \* no `auto` there
  /\ ~(f = "border-radius" /\ k = 5 /\ c = "var")
  /\ ~(f = "inset" /\ k = 5 /\ c = "var")                       \* `inset: var()` cannot be lowered at all (design.d/C12.md)
ImpAt(ip, i, n) == CASE ip = 1 -> FALSE [] ip = 2 -> TRUE [] ip = 3 -> i = 2 [] ip = 4 -> i = n [] ip = 5 -> i = 1 [] OTHER -> i # 2
StepDecl(f, i, s, imp) ==
  LET k == StepK(s) c == StepC(s) IN
  IF k <= 4 THEN [p |-> FamLonghands(f)[k], v |-> <<ClassVal(c, i)>>, sp |-> <<1>>, i |-> imp]
  ELSE [p |-> f, v |-> [j \in 1..(k - 4) |-> IF j = 1 THEN ClassVal(c, i) ELSE NumAt(i, j)], sp |-> [j \in 1..(k - 4) |-> 1], i |-> imp]
\* choice = <<"dseq", family index, importance pattern, s1, s2, s3, s4, s5>> (s4, s5 may be 0)
SeqLen(ch) == IF ch[7] = 0 THEN 3 ELSE IF ch[8] = 0 THEN 4 ELSE 5
SeqDecls(ch) == [i \in 1..SeqLen(ch) |-> StepDecl(SeqFams[ch[2]], i, ch[3 + i], ImpAt(ch[3], i, SeqLen(ch)))]
SeqValid(ch) == \A i \in 1..SeqLen(ch) : StepValid(SeqFams[ch[2]], ch[3 + i])
SeqSheet(ch) == << RuleItem(<<PSel(<<".a", "p", ".c", "div">>[ch[2]])>>, SeqDecls(ch)) >>

\* the cascade inside one rule, declaratively: the most important, then the last, declaration that sets the longhand
ImpOf(d) == IF d.i THEN 1 ELSE 0
DeclWin(ds, feats, lh) ==
  LET C == {i \in 1..Len(ds) : DeclFeats(ds[i]) \subseteq feats /\ \E x \in Expand(ds[i], {}) : x[1] = lh} IN
  IF C = {} THEN NoWinner
  ELSE LET w == CHOOSE i \in C : \A j \in C : ~KeyLess(<<ImpOf(ds[i]), i>>, <<ImpOf(ds[j]), j>>)
       IN (CHOOSE x \in Expand(ds[w], {}) : x[1] = lh)[2]
\* ... and operationally: read the declarations in order; state = [longhand -> <<importance, value>>]
RECURSIVE FoldFrom(_, _, _, _, _)
FoldFrom(ds, feats, i, upto, st) ==
  IF i > upto THEN st
  ELSE IF ~(DeclFeats(ds[i]) \subseteq feats) THEN FoldFrom(ds, feats, i + 1, upto, st)
  ELSE Bind(Expand(ds[i], {}), LAMBDA ex :
         FoldFrom(ds, feats, i + 1, upto,
                  [lh \in DOMAIN st |-> IF (\E x \in ex : x[1] = lh) /\ ImpOf(ds[i]) >= st[lh][1]
                                        THEN <<ImpOf(ds[i]), (CHOOSE x \in ex : x[1] = lh)[2]>> ELSE st[lh]]))
FoldState(ds, feats, upto, L) == FoldFrom(ds, feats, 1, upto, [lh \in L |-> <<-1, NoWinner>>])
SeqFeats(ds) == UNION {DeclFeats(ds[i]) : i \in 1..Len(ds)}
SeqLaw(ds, L) ==
  \A feats \in SUBSET SeqFeats(ds) :
     Bind(FoldState(ds, feats, Len(ds), L), LAMBDA st : \A lh \in L : st[lh][2] = DeclWin(ds, feats, lh))

\* labels
PlainCanon(f) == LET P == {Canon(v) : v \in {NumVals[i] : i \in 1..5} \cup {"l0"} \cup (IF f \in {"border-radius", "padding"} THEN {} ELSE {"auto"})}
                 IN IF f = "border-radius" THEN {x \o x : x \in P} ELSE P
\* after step t (everything understood) the four longhands hold plain values of one importance
Collapsible(f, ds, t) ==
  Bind(FoldState(ds, SeqFeats(ds), t, {FamLonghands(f)[k] : k \in 1..4}), LAMBDA st :
    /\ \A lh \in DOMAIN st : st[lh][2] \in PlainCanon(f)
    /\ \A a, b \in DOMAIN st : st[a][1] = st[b][1])
\* the class of the value step s puts on side k ("" = the step does not set that side)
ClassOn(s, k) ==
  LET sk == StepK(s) IN
  IF sk <= 4 THEN (IF sk = k THEN Classes[StepC(s)] ELSE "")
  ELSE LET n == sk - 4
           fromFirst == k = 1 \/ n = 1 \/ (k = 3 /\ n = 2)     \* the sides that take the first value of an n-value shorthand
       IN IF fromFirst THEN Classes[StepC(s)] ELSE "num"
SeqLabels(ch) ==
  LET f == SeqFams[ch[2]]  n == SeqLen(ch)  ds == SeqDecls(ch)
      col == {t \in 1..n : Collapsible(f, ds, t)}
      Without(j) == [m \in 1..(n - 1) |-> IF m < j THEN ds[m] ELSE ds[m + 1]]
      \* "blocked": only step j stands between the rule and four plain longhands later on (its value must survive)
      Trig(j) == IF j \in col THEN "at" ELSE IF \E t \in col : t > j THEN "later"
                 ELSE IF \E t \in (j + 1)..n : Collapsible(f, Without(j), t - 1) THEN "blocked" ELSE "never"
  IN { <<ClassOn(ch[3 + i], k), ClassOn(ch[3 + j], k), Trig(j)>> :
         <<i, j, k>> \in {x \in (1..n) \X (1..n) \X (1..4) :
                            /\ x[1] < x[2] /\ ClassOn(ch[3 + x[1]], x[3]) # "" /\ ClassOn(ch[3 + x[2]], x[3]) # ""
                            /\ \A m \in (x[1] + 1)..(x[2] - 1) : ClassOn(ch[3 + m], x[3]) = ""} }

\* ------------------------------------------------------------------ rseq
MW == PCond("media", [r |-> "media", qs |-> <<Q1("w100", 1)>>])
MW2 == PCond("media", [r |-> "media", qs |-> <<Q1("w100", 2)>>])      \* the same condition, spelled differently
MP == PCond("media", [r |-> "media", qs |-> <<Q1("print", 1)>>])
SG == PCond("supports", [r |-> "supports", qs |-> <<Q1("grid", 1)>>])
RWraps == << <<>>, <<MW>>, <<MW, MW>>, <<MW, MP>>, <<SG>>, <<SG, SG>>, <<MW, SG>>, <<PLayer(<<"a">>)>>, <<MW, MW2>>, <<MW, MW, MW>> >>
RSels == << <<".a", ".b", ".c">>, <<".c", ".b", ".c">>, <<".a", ".c", ".a">>, <<".b", ".b", ".c">> >>
RBodies == << <<1, 2, 1>>, <<1, 1, 2>>, <<1, 2, 2>>, <<1, 1, 1>> >>
RBody(b) == IF b = 1 THEN <<D1("color", "red", 1, FALSE)>> ELSE <<D1("color", "blue", 1, FALSE)>>
\* choice = <<"rseq", w1, w2, w3, selectors, bodies>>
RSeqSheet(ch) == [i \in 1..3 |-> RuleItem(RWraps[ch[1 + i]] \o <<PSel(RSels[ch[5]][i])>>, RBody(RBodies[ch[6]][i]))]
\* b opens inside a ("in", from the top level "in0"), b has left wrappers of a ("out", down to the top level "out0")
WRel(a, b) == IF a = b THEN "eq" ELSE IF IsProperPrefix(a, b) THEN (IF a = <<>> THEN "in0" ELSE "in")
              ELSE IF IsProperPrefix(b, a) THEN (IF b = <<>> THEN "out0" ELSE "out") ELSE "other"
HasDup(w) == \E i \in 1..(Len(w) - 1) : w[i] = w[i + 1]
RSeqLabels(ch) ==
  LET a == RWraps[ch[2]] b == RWraps[ch[3]] c == RWraps[ch[4]] IN
  { <<WRel(a, b), WRel(b, c), IF HasDup(b) THEN "dup" ELSE IF HasDup(a) \/ HasDup(c) THEN "dup-outer" ELSE "nodup",
     IF RBodies[ch[6]] = <<1, 2, 1>> THEN "across" ELSE "adjacent">> }

\* the sheet / labels of a choice of either family
ChoiceSheet(ch) == IF ch[1] = "dseq" THEN SeqSheet(ch) ELSE RSeqSheet(ch)
ChoiceLabels(ch) == IF ch[1] = "dseq" THEN SeqLabels(ch) ELSE RSeqLabels(ch)
=============================================================================
