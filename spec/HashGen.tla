------------------------------ MODULE HashGen ------------------------------
(***************************************************************************)
(* The scenario space of C18: (graph shape x options x edit) triples,      *)
(* enumerated by TLC and built twice with the real api.Build.  Every       *)
(* triple is instantiated as a pair of worlds of Hash.tla and exported     *)
(* with                                                                    *)
(*   expect : the properties the model predicts to fail (a candidate,      *)
(*            guard 3: only the real builds decide), and                   *)
(*   touch  : the hash ingredients of Hash.tla whose atoms the edit        *)
(*            changes (restricted to the ingredients that are active under *)
(*            the options).  |touch| = 1 marks a scenario that isolates    *)
(*            one ingredient: the replay that reveals an implementation    *)
(*            which leaves exactly that ingredient out (HashMC, DROPs).    *)
(*                                                                         *)
(* Dimensions: 18 graph shapes (static splitting, static chain of shared   *)
(* chunks, dynamic-import chain, cycles of 2 and 3 chunks, file / copy /   *)
(* dataurl assets, a copied file that is an entry point itself (imported   *)
(* or not), two assets in one chunk, splitting + file asset + copied entry *)
(* point in one build, CSS entry with url(), CSS bundle of a JS entry, an  *)
(* outfile build of a JS entry / of a copied file, modules and an asset    *)
(* from a plug-in namespace);                                              *)
(* options: source map mode (5) x sourcesContent x sourceRoot, legal       *)
(* comment mode (5), public path, minify, and THE TEMPLATE DIMENSION:      *)
(* [hash] in the entry / chunk / asset name template independently (he,    *)
(* hc, ha: all 8 combinations) x the style of the templates (tstyle:       *)
(* plain, [dir] with a nested entry directory, [ext] with the hash in      *)
(* front of the name, out-extension);                                      *)
(* edits: 7 kinds of single-point edits of an input file (code, comment,   *)
(* blank line, indentation, legal comment, local identifier, input source  *)
(* map), bytes of the first / second asset, added import, and 19 kinds of  *)
(* option-only edits.                                                      *)
(*                                                                         *)
(* Two families of scenarios:                                              *)
(*  G  the whole space, cut into NSlices slices by a linear residue over   *)
(*     all dimension indices; a run enumerates the slices in Slices (the   *)
(*     quick tier one seeded slice, the thorough tier more);               *)
(*  T  the template family: EVERY (shape, target, content / template edit, *)
(*     he, hc, ha) combination, i.e. every output kind under every         *)
(*     agreement / disagreement of the three templates with an edit of     *)
(*     each kind of file; the remaining options are picked by a seeded     *)
(*     mix of the indices (tstyle too, unless TStyleEnum).                 *)
(***************************************************************************)
EXTENDS Integers, Sequences, FiniteSets, TLC, Json

H == INSTANCE Hash

CONSTANTS SMs, Legals, Minifies, MIH, NSlices, KInv, Slices, Salt, TStyleEnum

\* chunk numbering: see ChunkOf
Shape(s) ==
  CASE s = "split"      -> [n |-> 3, imp |-> (1 :> {3} @@ 2 :> {3} @@ 3 :> {}), aref |-> (1 :> {} @@ 2 :> {} @@ 3 :> {}), css |-> {}, entries |-> {1, 2}]
    [] s = "splitasset" -> [n |-> 3, imp |-> (1 :> {3} @@ 2 :> {3} @@ 3 :> {}), aref |-> (1 :> {} @@ 2 :> {} @@ 3 :> {"x"}), css |-> {}, entries |-> {1, 2}]
    [] s = "statchain"  -> [n |-> 5, imp |-> (1 :> {4} @@ 2 :> {4} @@ 3 :> {5} @@ 4 :> {5} @@ 5 :> {}),
                            aref |-> (1 :> {} @@ 2 :> {} @@ 3 :> {} @@ 4 :> {} @@ 5 :> {}), css |-> {}, entries |-> {1, 2, 3}]
    [] s = "dyncycle"   -> [n |-> 2, imp |-> (1 :> {2} @@ 2 :> {1}), aref |-> (1 :> {} @@ 2 :> {}), css |-> {}, entries |-> {1}]
    [] s = "dynchain"   -> [n |-> 3, imp |-> (1 :> {2} @@ 2 :> {3} @@ 3 :> {}), aref |-> (1 :> {} @@ 2 :> {} @@ 3 :> {}), css |-> {}, entries |-> {1}]
    [] s = "cycle3"     -> [n |-> 3, imp |-> (1 :> {2} @@ 2 :> {3} @@ 3 :> {1}), aref |-> (1 :> {} @@ 2 :> {} @@ 3 :> {}), css |-> {}, entries |-> {1}]
    [] s = "fileasset"  -> [n |-> 1, imp |-> (1 :> {}), aref |-> (1 :> {"x"}), css |-> {}, entries |-> {1}]
    [] s = "copy"       -> [n |-> 1, imp |-> (1 :> {}), aref |-> (1 :> {"x"}), css |-> {}, entries |-> {1}]
    [] s = "copyentry"  -> [n |-> 1, imp |-> (1 :> {}), aref |-> (1 :> {"x"}), css |-> {}, entries |-> {1}]
    [] s = "dataurl"    -> [n |-> 1, imp |-> (1 :> {}), aref |-> (1 :> {}), css |-> {}, entries |-> {1}]
    [] s = "cssurl"     -> [n |-> 1, imp |-> (1 :> {}), aref |-> (1 :> {"x"}), css |-> {1}, entries |-> {1}]
    [] s = "jscss"      -> [n |-> 2, imp |-> (1 :> {} @@ 2 :> {}), aref |-> (1 :> {} @@ 2 :> {"x"}), css |-> {2}, entries |-> {1, 2}]
    \* a copied entry point "d" that no chunk refers to
    [] s = "copyonly"   -> [n |-> 1, imp |-> (1 :> {}), aref |-> (1 :> {}), css |-> {}, entries |-> {1}]
    [] s = "twoassets"  -> [n |-> 1, imp |-> (1 :> {}), aref |-> (1 :> {"x", "y"}), css |-> {}, entries |-> {1}]
    \* all three templates in one build: entry points, a shared chunk with a file-loader asset, a copied entry point
    [] s = "mixed"      -> [n |-> 3, imp |-> (1 :> {3} @@ 2 :> {3} @@ 3 :> {}), aref |-> (1 :> {} @@ 2 :> {} @@ 3 :> {"x"}), css |-> {}, entries |-> {1, 2}]
    \* outfile builds (no splitting): the entry template is applied to the base name of the outfile
    [] s = "outfile"    -> [n |-> 1, imp |-> (1 :> {}), aref |-> (1 :> {"x"}), css |-> {}, entries |-> {1}]
    [] s = "outfilecopy" -> [n |-> 0, imp |-> <<>>, aref |-> <<>>, css |-> {}, entries |-> {}]
    \* modules and an asset that a plug-in provides in a non-file namespace
    [] s = "plugin"     -> [n |-> 1, imp |-> (1 :> {}), aref |-> (1 :> {"x"}), css |-> {}, entries |-> {1}]
\* the assets of a shape, and those that are entry points themselves (copy loader: named by the entry template)
AssetsOf(s) == CASE s \in {"splitasset", "fileasset", "copy", "copyentry", "cssurl", "jscss", "outfile", "plugin"} -> {"x"}
                 [] s = "twoassets" -> {"x", "y"}
                 [] s = "mixed" -> {"x", "d"}
                 [] s \in {"copyonly", "outfilecopy"} -> {"d"}
                 [] OTHER -> {}
EAssetsOf(s) == IF s = "copyentry" THEN {"x"} ELSE AssetsOf(s) \cap {"d"}

ShapeSeq == <<"split", "splitasset", "statchain", "dyncycle", "dynchain", "cycle3", "fileasset", "copy", "dataurl", "cssurl", "jscss", "copyentry",
              "copyonly", "twoassets", "mixed", "outfile", "outfilecopy", "plugin">>
TargetSeq == <<"a", "b", "c", "shared", "m2", "css", "v">>
TStyleSeq == <<"plain", "dir", "ext", "outext">>
InputEdits == <<"code", "comment", "blank", "indent", "legal", "ident", "inmap">>
OtherEdits == <<"asset", "importadd", "asset2">>
OptionEdits == <<"pp", "ppon", "entrynames", "chunknames", "assetnames", "outext", "banner", "footer", "define", "minws", "minid", "minsyn",
                 "target", "charset", "legalmode", "smmode", "sctoggle", "sroot", "keepnames">>
EditSeq == InputEdits \o OtherEdits \o OptionEdits
SMSeq == <<"none", "linked", "external", "inline", "both">>
LegalSeq == <<"none", "inline", "eof", "linked", "external">>
Range(q) == {q[k] : k \in 1..Len(q)}
Idx(q, x) == CHOOSE k \in 1..Len(q) : q[k] = x

HasAsset(s) == "x" \in AssetsOf(s)
\* the second asset of a shape
Asset2(s) == CASE s = "twoassets" -> {"y"} [] s \in {"mixed", "copyonly", "outfilecopy"} -> {"d"} [] OTHER -> {}
Targets(s) == CASE s \in {"split", "splitasset", "mixed"} -> {"a", "shared"}
                [] s = "plugin" -> {"a", "v"}
                [] s = "statchain" -> {"a", "shared", "m2"}
                [] s = "dyncycle" -> {"a", "b"}
                [] s = "dynchain" -> {"a", "b", "c"}
                [] s = "cycle3" -> {"a", "c"}
                [] s = "jscss" -> {"a", "css"}
                [] OTHER -> {"a"}
\* the chunk that contains the target module
ChunkOf(sh, t) == CASE t = "a" -> 1 [] t = "b" -> 2
                    [] t = "c" -> 3
                    [] t = "shared" -> (IF sh = "statchain" THEN 4 ELSE 3)
                    [] t = "m2" -> 5
                    [] t = "css" -> 2
                    [] t = "v" -> 1
IsCSSTarget(sh, t) == (sh = "cssurl") \/ (sh = "jscss" /\ t = "css")

\* scenario record: shape, target, edit, to (the new mode of a mode edit, "-" otherwise), and the options
Sensible(s) ==
  LET isInput == s.edit \in Range(InputEdits)
      isOpt == s.edit \in Range(OptionEdits)
  IN
  /\ s.target \in Targets(s.shape)
  /\ (~isInput) => s.target = "a"
  /\ (s.to # "-") <=> s.edit \in {"legalmode", "smmode"}
  /\ (s.edit = "legalmode") => (s.to \in Legals /\ s.to # s.legal)
  /\ (s.edit = "smmode") => (s.to \in SMs /\ s.to # s.sm)
  /\ (s.sm = "none") => (~s.sc /\ ~s.sroot)                    \* no source map: the two source map options are irrelevant
  /\ (isInput /\ IsCSSTarget(s.shape, s.target)) => s.edit \in {"code", "comment", "blank", "legal"}
  /\ (s.edit = "asset") => (HasAsset(s.shape) \/ s.shape = "dataurl")
  /\ (s.edit = "asset2") => Asset2(s.shape) # {}
  /\ (s.edit = "importadd") => s.shape \in {"split", "splitasset", "statchain", "mixed"}
  /\ (s.shape = "statchain") => s.hc                          \* two shared chunks: without [hash] both would be chunks/chunk.js
  /\ (s.shape = "outfilecopy") => s.edit \in {"asset2", "entrynames"}   \* the only input is the copied file
  /\ (s.tstyle = "outext") => s.edit # "outext"
  /\ (s.target = "v") => s.edit # "inmap"
  /\ (s.edit = "pp") => s.pp
  /\ (s.edit = "ppon") => ~s.pp
  /\ (s.edit = "chunknames") => Shape(s.shape).n > Cardinality(Shape(s.shape).entries)
  /\ (s.edit = "assetnames") => (AssetsOf(s.shape) \ EAssetsOf(s.shape)) # {}   \* a copied entry point is named by the entry template
  /\ (s.edit \in {"define", "keepnames", "minid"}) => s.shape # "cssurl"
  /\ (s.edit \in {"sctoggle", "sroot"}) => s.sm # "none"

World(s) ==
  LET sh == Shape(s.shape)
      C == 1..sh.n
      A == AssetsOf(s.shape)
  IN [ chunks |-> C, assets |-> A, names |-> <<>>, imp |-> sh.imp, aref |-> sh.aref,
       th |-> [t \in H!Templates |-> CASE t = "entry" -> s.he [] t = "chunk" -> s.hc [] OTHER -> s.ha],
       tplC |-> [c \in C |-> IF c \in sh.entries THEN "entry" ELSE "chunk"],
       tplA |-> [a \in A |-> IF a \in EAssetsOf(s.shape) THEN "entry" ELSE "asset"],
       pp |-> s.pp, sm |-> s.sm, legal |-> s.legal, lih |-> TRUE, mih |-> MIH, drop |-> {},
       css |-> [c \in C |-> c \in sh.css],
       fake |-> [c \in C |-> c = 1],
       code |-> [c \in C |-> 0], parts |-> [c \in C |-> 0], tmpl |-> [c \in C |-> 0],
       smP |-> [c \in C |-> 0], smM |-> [c \in C |-> 0], smS |-> [c \in C |-> 0],
       legalv |-> [c \in C |-> 1], ppv |-> 0, atpl |-> [a \in A |-> 0], abytes |-> [a \in A |-> 0] ]

RECURSIVE ForAll(_, _), ForAllA(_, _)
ForAllA(k, as) == IF as = <<>> THEN <<>> ELSE <<[k |-> k, a |-> Head(as)]>> \o ForAllA(k, Tail(as))
\* one atom edit of kind k for every chunk of the sequence cs
ForAll(k, cs) == IF cs = <<>> THEN <<>> ELSE <<[k |-> k, c |-> Head(cs)]>> \o ForAll(k, Tail(cs))

\* the atoms a real edit touches (sc: sourcesContent is in the prefix of the
\* map; minify: local names do not reach the code)
Atoms(s) ==
  LET sh == Shape(s.shape)
      c == ChunkOf(s.shape, s.target)
      all == H!SortedSeq(1..sh.n)
      ent == H!SortedSeq(sh.entries)
      nonent == H!SortedSeq((1..sh.n) \ sh.entries)
      one(k) == <<[k |-> k, c |-> c]>>
      P == IF s.sc THEN one("smP") ELSE <<>>
  IN CASE s.edit = "code"      -> one("code") \o P
       [] s.edit = "comment"   -> P
       [] s.edit = "blank"     -> one("smM") \o P
       [] s.edit = "indent"    -> one("smM") \o P
       [] s.edit = "legal"     -> one("legal") \o P
       [] s.edit = "ident"     -> (IF s.minify THEN <<>> ELSE one("code")) \o one("smS") \o P
       [] s.edit = "inmap"     -> one("smP")
       [] s.edit = "asset"     -> IF s.shape = "dataurl" THEN <<[k |-> "code", c |-> 1]>> ELSE <<[k |-> "asset", a |-> "x"]>>
       [] s.edit = "importadd" -> <<[k |-> "import", c |-> 1, d |-> 2], [k |-> "smM", c |-> 1]>> \o (IF s.sc THEN <<[k |-> "smP", c |-> 1]>> ELSE <<>>)
       [] s.edit = "pp"        -> <<[k |-> "pp"]>>
       [] s.edit = "ppon"      -> <<[k |-> "ppon"]>>
       [] s.edit = "asset2"    -> ForAllA("asset", H!SeqOfStrSet(Asset2(s.shape)))
       [] s.edit = "entrynames" -> ForAll("tmpl", ent) \o ForAllA("atpl", H!SeqOfStrSet(EAssetsOf(s.shape)))
       [] s.edit = "chunknames" -> ForAll("tmpl", nonent)
       [] s.edit = "assetnames" -> ForAllA("atpl", H!SeqOfStrSet(AssetsOf(s.shape) \ EAssetsOf(s.shape)))
       [] s.edit = "outext"    -> ForAll("tmpl", all)
       [] s.edit \in {"banner", "footer", "minws", "minsyn"} -> ForAll("code", all) \o ForAll("smM", all)
       [] s.edit \in {"minid", "keepnames"} -> ForAll("code", all) \o ForAll("smS", all)
       [] s.edit \in {"define", "target", "charset"} -> <<[k |-> "code", c |-> 1], [k |-> "smM", c |-> 1]>>
       [] s.edit = "legalmode" -> <<[k |-> "legalmode", to |-> s.to]>>
       [] s.edit = "smmode"    -> <<[k |-> "smmode", to |-> s.to]>>
       [] s.edit \in {"sctoggle", "sroot"} -> ForAll("smP", all)

\* the ingredient an atom edit belongs to, if that ingredient is hashed under the options of w
IngredientOf(w, e) ==
  CASE e.k \in {"code", "import"} -> {"pieces"} \cup (IF e.k = "import" THEN {"imports"} ELSE {})
    [] e.k = "legal" -> IF w.legal \in {"inline", "eof"} THEN {"pieces"} ELSE IF w.legal \in {"linked", "external"} THEN {"legal"} ELSE {}
    [] e.k \in {"smP", "smM", "smS"} -> IF w.sm # "none" THEN {e.k} ELSE {}
    [] e.k = "tmpl" -> {"tmpl"}
    [] e.k \in {"pp", "ppon"} -> {"pp"}
    [] e.k \in {"asset", "atpl"} -> {"assetpath"}
    [] e.k \in {"smmode", "legalmode"} -> {"modes"}
    [] OTHER -> {}
\* "imports": the edited chunk is imported by another chunk, whose name has to change as well
HasImporter(w, c) == \E d \in w.chunks : d # c /\ c \in w.imp[d]
\* the options make the templates DISAGREE for some output: an entry chunk or a
\* copied entry point is named by the entry template with [hash] while the
\* default template of its kind (chunk / asset template) has none: what reveals
\* a hash decision taken from the wrong template (HashMC, mutant "owntpl")
Disagree(s) == \/ (s.he /\ ~s.hc /\ Shape(s.shape).entries # {})
               \/ (s.he /\ ~s.ha /\ EAssetsOf(s.shape) # {})
Touch(s) == LET w == World(s) a == Atoms(s)
            IN (IF Disagree(s) THEN {"owntpl"} ELSE {}) \cup UNION {IngredientOf(w, a[k]) \cup (IF "c" \in DOMAIN a[k] /\ IngredientOf(w, a[k]) # {} /\ HasImporter(w, a[k].c) THEN {"imports"} ELSE {}) : k \in 1..Len(a)}

Expect(s) == H!Failing(World(s), H!ApplySeq(World(s), Atoms(s)))

\* the slice of a scenario: the mixed-radix index of all dimensions but the
\* edit (shifted by the seed) is scattered over the residues modulo NSlices,
\* and the edit index enters linearly (so that it can be solved for, below)
B(b) == IF b THEN 1 ELSE 0
OptIdx(x) == (((((((((Idx(SMSeq, x.sm) - 1) * 5 + Idx(LegalSeq, x.legal) - 1) * 2 + B(x.pp)) * 2 + B(x.he)) * 2 + B(x.hc)) * 2 + B(x.ha)) * 2 + B(x.minify)) * 2
               + B(x.sc)) * 2 + B(x.sroot)) * 4 + Idx(TStyleSeq, x.tstyle) - 1
ToIdx(ed, to) == IF to = "-" THEN 0 ELSE (IF ed = "smmode" THEN Idx(SMSeq, to) ELSE Idx(LegalSeq, to))
BaseIdx(x, i, j, ti) == ((OptIdx(x) * Len(ShapeSeq) + (i - 1)) * Len(TargetSeq) + (j - 1)) * 6 + ti
\* (all intermediate values stay below 2^31)
Scat(b) == (((b + Salt) % NSlices) * 2749 + ((b + Salt) \div NSlices) * 3571) % NSlices
SliceOfQ(x, i, j, k, ti) == (Scat(BaseIdx(x, i, j, ti)) + 13 * k) % NSlices
SliceOf(s) == SliceOfQ(s, Idx(ShapeSeq, s.shape), Idx(TargetSeq, s.target), Idx(EditSeq, s.edit), ToIdx(s.edit, s.to))

\* the targets of each shape as indices into TargetSeq (literal, so that the
\* enumeration below is cheap); checked against Targets
TargetIdxs == <<{1, 4}, {1, 4}, {1, 4, 5}, {1, 2}, {1, 2, 3}, {1, 3}, {1}, {1}, {1}, {1}, {1, 6}, {1}, {1}, {1}, {1, 4}, {1}, {1}, {1, 7}>>
ASSUME \A i \in 1..Len(ShapeSeq) : {TargetSeq[j] : j \in TargetIdxs[i]} = Targets(ShapeSeq[i])
NInput == Len(InputEdits)
NEdits == Len(EditSeq)

\* the options are chosen in the initial state, (shape, target, edit, to) in
\* one step, so that TLC's workers share the evaluation of the prediction;
\* the prediction is evaluated inside the action (where TLC caches) and kept
\* in the state
OptRecs == [fam : {"G"}, pp : BOOLEAN, he : BOOLEAN, hc : BOOLEAN, ha : BOOLEAN, tstyle : Range(TStyleSeq), sm : SMs, sc : BOOLEAN, sroot : BOOLEAN, legal : Legals, minify : Minifies]
\* family T: the three template bits (and the style, if TStyleEnum) are chosen in the initial state, the other options are derived in Next
TOptRecs == [fam : {"T"}, pp : {FALSE}, he : BOOLEAN, hc : BOOLEAN, ha : BOOLEAN, tstyle : (IF TStyleEnum THEN Range(TStyleSeq) ELSE {"plain"}),
             sm : {"none"}, sc : {FALSE}, sroot : {FALSE}, legal : {"none"}, minify : {FALSE}]
\* the edits of family T: content edits of every kind of file and the template edits
TEdits == {"code", "comment", "legal", "asset", "asset2", "importadd", "entrynames", "chunknames", "assetnames", "outext"}
TEditIdx == {k \in 1..Len(EditSeq) : EditSeq[k] \in TEdits}
SMQ == H!SeqOfStrSet(SMs)
LegalQ == H!SeqOfStrSet(Legals)
MinQ == H!SortedSeq({B(m) : m \in Minifies})
Derived(x, i, j, k) ==
  LET raw == Salt + (((((B(x.he) * 2 + B(x.hc)) * 2 + B(x.ha)) * 4 + Idx(TStyleSeq, x.tstyle) - 1) * Len(ShapeSeq) + (i - 1)) * Len(TargetSeq) + (j - 1)) * 32 + k
      mix == ((raw % 30011) * 30029 + (raw \div 30011) * 7919) % 1000003
      sm == SMQ[(mix % Len(SMQ)) + 1]
  IN [fam |-> "T", he |-> x.he, hc |-> x.hc, ha |-> x.ha,
      sm |-> sm, legal |-> LegalQ[((mix \div 5) % Len(LegalQ)) + 1], pp |-> (mix \div 25) % 2 = 1,
      minify |-> MinQ[((mix \div 50) % Len(MinQ)) + 1] = 1,
      sc |-> (sm # "none" /\ (mix \div 100) % 2 = 1), sroot |-> (sm # "none" /\ (mix \div 200) % 2 = 1),
      tstyle |-> IF TStyleEnum THEN x.tstyle ELSE TStyleSeq[((mix \div 400) % Len(TStyleSeq)) + 1]]
ToSet(ed, x) == IF ed = "smmode" THEN SMs \ {x.sm} ELSE IF ed = "legalmode" THEN Legals \ {x.legal} ELSE {"-"}
VARIABLES o, sc, ex
vars == <<o, sc, ex>>
NoScen == [shape |-> "none"]
Init == o \in ({x \in OptRecs : (x.sm = "none") => (~x.sc /\ ~x.sroot)} \cup TOptRecs) /\ sc = NoScen /\ ex = {}
\* Enumerating a slice without scanning the whole space: 13 (the multiplier of
\* the edit index) is invertible modulo NSlices, so for the options, a shape, a
\* target and a slice there is exactly one edit index with the right residue
\* (a valid one for about NEdits out of NSlices combinations).
ASSUME (13 * KInv) % NSlices = 1 /\ NEdits < NSlices
PickK(base, s) == (KInv * ((s + NSlices - (base % NSlices)) % NSlices)) % NSlices
ModeEdits == {"smmode", "legalmode"}
ModeIdx == {Idx(EditSeq, "smmode"), Idx(EditSeq, "legalmode")}
Plain(x) == UNION {UNION {{<<i, j, PickK(Scat(BaseIdx(x, i, j, 0)), s), "-">> : s \in Slices} : j \in TargetIdxs[i]} : i \in 1..Len(ShapeSeq)}
ValidPlain(q) == q[3] \in 1..(IF q[2] = 1 THEN NEdits ELSE NInput) /\ EditSeq[q[3]] \notin ModeEdits
Modes(x) == UNION {UNION {{<<i, 1, k, to>> : to \in {t \in ToSet(EditSeq[k], x) : SliceOfQ(x, i, 1, k, ToIdx(EditSeq[k], t)) \in Slices}}
                              : k \in ModeIdx} : i \in 1..Len(ShapeSeq)}
NextG == \E q \in {x \in Plain(o) : ValidPlain(x)} \cup Modes(o) :
                /\ sc' = [shape |-> ShapeSeq[q[1]], target |-> TargetSeq[q[2]], edit |-> EditSeq[q[3]], to |-> q[4]] @@ o
                /\ SliceOf(sc') \in Slices
NextT == \E i \in 1..Len(ShapeSeq) : \E j \in TargetIdxs[i], k \in TEditIdx :
            sc' = [shape |-> ShapeSeq[i], target |-> TargetSeq[j], edit |-> EditSeq[k], to |-> "-"] @@ Derived(o, i, j, k)
Next == /\ sc = NoScen
        /\ IF o.fam = "G" THEN NextG ELSE NextT
        /\ Sensible(sc')
        /\ LET w1 == World(sc')
           IN ex' = [expect |-> H!Failing(w1, H!ApplySeq(w1, Atoms(sc'))), touch |-> Touch(sc')]
        /\ o' = o
Spec == Init /\ [][Next]_vars

Export == sc = NoScen \/ PrintT(<<"CASE", ToJson(sc @@ ex)>>)

\* sanity of the scenario space: the class of the missed seed (a comment-only
\* edit under inline source maps isolates the source map prefix) and the class
\* of the mode finding are in it
TAll == [fam |-> "G", he |-> TRUE, hc |-> TRUE, ha |-> TRUE, tstyle |-> "plain"]
ASSUME LET s == [shape |-> "split", target |-> "shared", edit |-> "comment", to |-> "-", pp |-> FALSE,
                 sm |-> "inline", sc |-> TRUE, sroot |-> FALSE, legal |-> "inline", minify |-> FALSE] @@ TAll
       IN Sensible(s) /\ Touch(s) = {"smP", "imports"}
ASSUME LET s == [shape |-> "split", target |-> "a", edit |-> "smmode", to |-> "linked", pp |-> FALSE,
                 sm |-> "external", sc |-> TRUE, sroot |-> FALSE, legal |-> "inline", minify |-> FALSE] @@ TAll
       IN Sensible(s) /\ Touch(s) = {"modes"} /\ (MIH \/ "SamePathSameBytes" \in Expect(s))
\* the class of the hoisted template test: a copied entry point under entry names with [hash] and asset names without, its bytes edited
ASSUME LET s == [shape |-> "copyonly", target |-> "a", edit |-> "asset2", to |-> "-", pp |-> FALSE, fam |-> "T", he |-> TRUE, hc |-> TRUE, ha |-> FALSE, tstyle |-> "dir",
                 sm |-> "none", sc |-> FALSE, sroot |-> FALSE, legal |-> "none", minify |-> FALSE]
       IN Sensible(s) /\ Touch(s) = {"owntpl", "assetpath"} /\ Expect(s) = {}
=============================================================================
