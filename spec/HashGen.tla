------------------------------ MODULE HashGen ------------------------------
(***************************************************************************)
(* The scenario space of C18: (graph shape x options x edit) triples,      *)
(* enumerated by TLC and built twice with the real api.Build.  Every       *)
(* triple is instantiated as a pair of worlds of Hash.tla and exported     *)
(* with                                                                    *)
(*   expect : the properties the model predicts to fail (a candidate,      *)
(*            guard 3: only the real builds decide), and                   *)
(*   touch  : the hash ingredients of Hash.tla whose atoms the edit        *)
(*            changes (restricted to the ingredients that are active under *)
(*            the options).  |touch| = 1 marks a scenario that isolates    *)
(*            one ingredient: the replay that reveals an implementation    *)
(*            which leaves exactly that ingredient out (HashMC, DROPs).    *)
(*                                                                         *)
(* Dimensions: 12 graph shapes (static splitting, static chain of shared   *)
(* chunks, dynamic-import chain, cycles of 2 and 3 chunks, file / copy /   *)
(* dataurl assets, a copied file that is an entry point itself, CSS entry  *)
(* with url(), CSS bundle of a JS entry);                                  *)
(* options: source map mode (5) x sourcesContent x sourceRoot, legal       *)
(* comment mode (5), public path, [hash] in the entry names, minify;       *)
(* edits: 7 kinds of single-point edits of an input file (code, comment,   *)
(* blank line, indentation, legal comment, local identifier, input source  *)
(* map), asset bytes, added import, and 19 kinds of option-only edits.     *)
(*                                                                         *)
(* The space is cut into NSlices slices by a linear residue over all       *)
(* dimension indices; a run enumerates the slices in Slices (the quick     *)
(* tier a seeded few, the thorough tier more).                             *)
(***************************************************************************)
EXTENDS Integers, Sequences, FiniteSets, TLC, Json

H == INSTANCE Hash

CONSTANTS SMs, Legals, Minifies, MIH, NSlices, KInv, Slices, Salt

\* chunk numbering: see ChunkOf
Shape(s) ==
  CASE s = "split"      -> [n |-> 3, imp |-> (1 :> {3} @@ 2 :> {3} @@ 3 :> {}), aref |-> (1 :> {} @@ 2 :> {} @@ 3 :> {}), css |-> {}, entries |-> {1, 2}]
    [] s = "splitasset" -> [n |-> 3, imp |-> (1 :> {3} @@ 2 :> {3} @@ 3 :> {}), aref |-> (1 :> {} @@ 2 :> {} @@ 3 :> {"x"}), css |-> {}, entries |-> {1, 2}]
    [] s = "statchain"  -> [n |-> 5, imp |-> (1 :> {4} @@ 2 :> {4} @@ 3 :> {5} @@ 4 :> {5} @@ 5 :> {}),
                            aref |-> (1 :> {} @@ 2 :> {} @@ 3 :> {} @@ 4 :> {} @@ 5 :> {}), css |-> {}, entries |-> {1, 2, 3}]
    [] s = "dyncycle"   -> [n |-> 2, imp |-> (1 :> {2} @@ 2 :> {1}), aref |-> (1 :> {} @@ 2 :> {}), css |-> {}, entries |-> {1}]
    [] s = "dynchain"   -> [n |-> 3, imp |-> (1 :> {2} @@ 2 :> {3} @@ 3 :> {}), aref |-> (1 :> {} @@ 2 :> {} @@ 3 :> {}), css |-> {}, entries |-> {1}]
    [] s = "cycle3"     -> [n |-> 3, imp |-> (1 :> {2} @@ 2 :> {3} @@ 3 :> {1}), aref |-> (1 :> {} @@ 2 :> {} @@ 3 :> {}), css |-> {}, entries |-> {1}]
    [] s = "fileasset"  -> [n |-> 1, imp |-> (1 :> {}), aref |-> (1 :> {"x"}), css |-> {}, entries |-> {1}]
    [] s = "copy"       -> [n |-> 1, imp |-> (1 :> {}), aref |-> (1 :> {"x"}), css |-> {}, entries |-> {1}]
    [] s = "copyentry"  -> [n |-> 1, imp |-> (1 :> {}), aref |-> (1 :> {"x"}), css |-> {}, entries |-> {1}]
    [] s = "dataurl"    -> [n |-> 1, imp |-> (1 :> {}), aref |-> (1 :> {}), css |-> {}, entries |-> {1}]
    [] s = "cssurl"     -> [n |-> 1, imp |-> (1 :> {}), aref |-> (1 :> {"x"}), css |-> {1}, entries |-> {1}]
    [] s = "jscss"      -> [n |-> 2, imp |-> (1 :> {} @@ 2 :> {}), aref |-> (1 :> {} @@ 2 :> {"x"}), css |-> {2}, entries |-> {1, 2}]

ShapeSeq == <<"split", "splitasset", "statchain", "dyncycle", "dynchain", "cycle3", "fileasset", "copy", "dataurl", "cssurl", "jscss", "copyentry">>
TargetSeq == <<"a", "b", "c", "shared", "m2", "css">>
InputEdits == <<"code", "comment", "blank", "indent", "legal", "ident", "inmap">>
OtherEdits == <<"asset", "importadd">>
OptionEdits == <<"pp", "ppon", "entrynames", "chunknames", "assetnames", "outext", "banner", "footer", "define", "minws", "minid", "minsyn",
                 "target", "charset", "legalmode", "smmode", "sctoggle", "sroot", "keepnames">>
EditSeq == InputEdits \o OtherEdits \o OptionEdits
SMSeq == <<"none", "linked", "external", "inline", "both">>
LegalSeq == <<"none", "inline", "eof", "linked", "external">>
Range(q) == {q[k] : k \in 1..Len(q)}
Idx(q, x) == CHOOSE k \in 1..Len(q) : q[k] = x

HasAsset(s) == s \in {"splitasset", "fileasset", "cssurl", "copy", "jscss", "copyentry"}
Targets(s) == CASE s \in {"split", "splitasset"} -> {"a", "shared"}
                [] s = "statchain" -> {"a", "shared", "m2"}
                [] s = "dyncycle" -> {"a", "b"}
                [] s = "dynchain" -> {"a", "b", "c"}
                [] s = "cycle3" -> {"a", "c"}
                [] s = "jscss" -> {"a", "css"}
                [] OTHER -> {"a"}
\* the chunk that contains the target module
ChunkOf(sh, t) == CASE t = "a" -> 1 [] t = "b" -> 2
                    [] t = "c" -> 3
                    [] t = "shared" -> (IF sh = "statchain" THEN 4 ELSE 3)
                    [] t = "m2" -> 5
                    [] t = "css" -> 2
IsCSSTarget(sh, t) == (sh = "cssurl") \/ (sh = "jscss" /\ t = "css")

\* scenario record: shape, target, edit, to (the new mode of a mode edit, "-" otherwise), and the options
Sensible(s) ==
  LET isInput == s.edit \in Range(InputEdits)
      isOpt == s.edit \in Range(OptionEdits)
  IN
  /\ s.target \in Targets(s.shape)
  /\ (~isInput) => s.target = "a"
  /\ (s.to # "-") <=> s.edit \in {"legalmode", "smmode"}
  /\ (s.edit = "legalmode") => (s.to \in Legals /\ s.to # s.legal)
  /\ (s.edit = "smmode") => (s.to \in SMs /\ s.to # s.sm)
  /\ (s.sm = "none") => (~s.sc /\ ~s.sroot)                    \* no source map: the two source map options are irrelevant
  /\ (isInput /\ IsCSSTarget(s.shape, s.target)) => s.edit \in {"code", "comment", "blank", "legal"}
  /\ (s.edit = "asset") => (HasAsset(s.shape) \/ s.shape = "dataurl")
  /\ (s.edit = "importadd") => s.shape \in {"split", "splitasset", "statchain"}
  /\ (s.edit = "pp") => s.pp
  /\ (s.edit = "ppon") => ~s.pp
  /\ (s.edit = "chunknames") => Shape(s.shape).n > Cardinality(Shape(s.shape).entries)
  /\ (s.edit = "assetnames") => (HasAsset(s.shape) /\ s.shape # "copyentry")   \* a copied entry point is named by the entry template
  /\ (s.edit \in {"define", "keepnames", "minid"}) => s.shape # "cssurl"
  /\ (s.edit \in {"sctoggle", "sroot"}) => s.sm # "none"

World(s) ==
  LET sh == Shape(s.shape)
      C == 1..sh.n
  IN [ chunks |-> C, assets |-> {"x"}, names |-> <<>>, imp |-> sh.imp, aref |-> sh.aref,
       hashedC |-> [c \in C |-> IF c \in sh.entries THEN s.names = "allhash" ELSE TRUE],
       hashedA |-> ((s.shape = "copyentry") => (s.names = "allhash")), pp |-> s.pp, sm |-> s.sm, legal |-> s.legal, lih |-> TRUE, mih |-> MIH, drop |-> {},
       css |-> [c \in C |-> c \in sh.css],
       fake |-> [c \in C |-> c = 1],
       code |-> [c \in C |-> 0], parts |-> [c \in C |-> 0], tmpl |-> [c \in C |-> 0],
       smP |-> [c \in C |-> 0], smM |-> [c \in C |-> 0], smS |-> [c \in C |-> 0],
       legalv |-> [c \in C |-> 1], ppv |-> 0, atpl |-> 0, abytes |-> [a \in {"x"} |-> 0] ]

RECURSIVE ForAll(_, _)
\* one atom edit of kind k for every chunk of the sequence cs
ForAll(k, cs) == IF cs = <<>> THEN <<>> ELSE <<[k |-> k, c |-> Head(cs)]>> \o ForAll(k, Tail(cs))

\* the atoms a real edit touches (sc: sourcesContent is in the prefix of the
\* map; minify: local names do not reach the code)
Atoms(s) ==
  LET sh == Shape(s.shape)
      c == ChunkOf(s.shape, s.target)
      all == H!SortedSeq(1..sh.n)
      ent == H!SortedSeq(sh.entries)
      nonent == H!SortedSeq((1..sh.n) \ sh.entries)
      one(k) == <<[k |-> k, c |-> c]>>
      P == IF s.sc THEN one("smP") ELSE <<>>
  IN CASE s.edit = "code"      -> one("code") \o P
       [] s.edit = "comment"   -> P
       [] s.edit = "blank"     -> one("smM") \o P
       [] s.edit = "indent"    -> one("smM") \o P
       [] s.edit = "legal"     -> one("legal") \o P
       [] s.edit = "ident"     -> (IF s.minify THEN <<>> ELSE one("code")) \o one("smS") \o P
       [] s.edit = "inmap"     -> one("smP")
       [] s.edit = "asset"     -> IF s.shape = "dataurl" THEN <<[k |-> "code", c |-> 1]>> ELSE <<[k |-> "asset", a |-> "x"]>>
       [] s.edit = "importadd" -> <<[k |-> "import", c |-> 1, d |-> 2], [k |-> "smM", c |-> 1]>> \o (IF s.sc THEN <<[k |-> "smP", c |-> 1]>> ELSE <<>>)
       [] s.edit = "pp"        -> <<[k |-> "pp"]>>
       [] s.edit = "ppon"      -> <<[k |-> "ppon"]>>
       [] s.edit = "entrynames" -> ForAll("tmpl", ent) \o (IF s.shape = "copyentry" THEN <<[k |-> "atpl"]>> ELSE <<>>)
       [] s.edit = "chunknames" -> ForAll("tmpl", nonent)
       [] s.edit = "assetnames" -> <<[k |-> "atpl"]>>
       [] s.edit = "outext"    -> ForAll("tmpl", all)
       [] s.edit \in {"banner", "footer", "minws", "minsyn"} -> ForAll("code", all) \o ForAll("smM", all)
       [] s.edit \in {"minid", "keepnames"} -> ForAll("code", all) \o ForAll("smS", all)
       [] s.edit \in {"define", "target", "charset"} -> <<[k |-> "code", c |-> 1], [k |-> "smM", c |-> 1]>>
       [] s.edit = "legalmode" -> <<[k |-> "legalmode", to |-> s.to]>>
       [] s.edit = "smmode"    -> <<[k |-> "smmode", to |-> s.to]>>
       [] s.edit \in {"sctoggle", "sroot"} -> ForAll("smP", all)

\* the ingredient an atom edit belongs to, if that ingredient is hashed under the options of w
IngredientOf(w, e) ==
  CASE e.k \in {"code", "import"} -> {"pieces"} \cup (IF e.k = "import" THEN {"imports"} ELSE {})
    [] e.k = "legal" -> IF w.legal \in {"inline", "eof"} THEN {"pieces"} ELSE IF w.legal \in {"linked", "external"} THEN {"legal"} ELSE {}
    [] e.k \in {"smP", "smM", "smS"} -> IF w.sm # "none" THEN {e.k} ELSE {}
    [] e.k = "tmpl" -> {"tmpl"}
    [] e.k \in {"pp", "ppon"} -> {"pp"}
    [] e.k \in {"asset", "atpl"} -> {"assetpath"}
    [] e.k \in {"smmode", "legalmode"} -> {"modes"}
    [] OTHER -> {}
\* "imports": the edited chunk is imported by another chunk, whose name has to change as well
HasImporter(w, c) == \E d \in w.chunks : d # c /\ c \in w.imp[d]
Touch(s) == LET w == World(s) a == Atoms(s)
            IN UNION {IngredientOf(w, a[k]) \cup (IF "c" \in DOMAIN a[k] /\ IngredientOf(w, a[k]) # {} /\ HasImporter(w, a[k].c) THEN {"imports"} ELSE {}) : k \in 1..Len(a)}

Expect(s) == H!Failing(World(s), H!ApplySeq(World(s), Atoms(s)))

\* the slice of a scenario: a linear residue over the indices of all
\* dimensions
B(b) == IF b THEN 1 ELSE 0
OptRes(x) == Salt + 17 * Idx(SMSeq, x.sm) + 19 * Idx(LegalSeq, x.legal) + 23 * B(x.pp) + 29 * B(x.names = "allhash") + 31 * B(x.minify)
             + 37 * B(x.sc) + 41 * B(x.sroot)
TripleRes(tr) == 7 * tr[1] + 11 * tr[2] + 13 * tr[3]
ToRes(ed, to) == IF to = "-" THEN 0 ELSE 43 * (IF ed = "smmode" THEN Idx(SMSeq, to) ELSE Idx(LegalSeq, to))
SliceOf(s) == (OptRes(s) + TripleRes(<<Idx(ShapeSeq, s.shape), Idx(TargetSeq, s.target), Idx(EditSeq, s.edit)>>) + ToRes(s.edit, s.to)) % NSlices

\* the targets of each shape as indices into TargetSeq (literal, so that the
\* enumeration below is cheap); checked against Targets
TargetIdxs == <<{1, 4}, {1, 4}, {1, 4, 5}, {1, 2}, {1, 2, 3}, {1, 3}, {1}, {1}, {1}, {1}, {1, 6}, {1}>>
ASSUME \A i \in 1..Len(ShapeSeq) : {TargetSeq[j] : j \in TargetIdxs[i]} = Targets(ShapeSeq[i])
NInput == Len(InputEdits)
NEdits == Len(EditSeq)

\* the options are chosen in the initial state, (shape, target, edit, to) in
\* one step, so that TLC's workers share the evaluation of the prediction;
\* the prediction is evaluated inside the action (where TLC caches) and kept
\* in the state
OptRecs == [pp : BOOLEAN, names : {"allhash", "entryplain"}, sm : SMs, sc : BOOLEAN, sroot : BOOLEAN, legal : Legals, minify : Minifies]
ToSet(ed, x) == IF ed = "smmode" THEN SMs \ {x.sm} ELSE IF ed = "legalmode" THEN Legals \ {x.legal} ELSE {"-"}
VARIABLES o, sc, ex
vars == <<o, sc, ex>>
NoScen == [shape |-> "none"]
Init == o \in {x \in OptRecs : (x.sm = "none") => (~x.sc /\ ~x.sroot)} /\ sc = NoScen /\ ex = {}
\* Enumerating a slice without scanning the whole space: 13 (the multiplier of
\* the edit index) is invertible modulo NSlices, so for a shape, a target and a
\* slice there is exactly one edit index with the right residue.
ASSUME (13 * KInv) % NSlices = 1 /\ NEdits < NSlices
PickK(base, s) == (KInv * ((s + NSlices - (base % NSlices)) % NSlices)) % NSlices
ModeEdits == {"smmode", "legalmode"}
ModeIdx == {Idx(EditSeq, "smmode"), Idx(EditSeq, "legalmode")}
Plain(r) == UNION {UNION {{<<i, j, PickK(r + 7 * i + 11 * j, s), "-">> : s \in Slices} : j \in TargetIdxs[i]} : i \in 1..Len(ShapeSeq)}
ValidPlain(q) == q[3] \in 1..(IF q[2] = 1 THEN NEdits ELSE NInput) /\ EditSeq[q[3]] \notin ModeEdits
Modes(x, r) == UNION {UNION {{<<i, 1, k, to>> : to \in {t \in ToSet(EditSeq[k], x) : (r + 7 * i + 11 + 13 * k + ToRes(EditSeq[k], t)) % NSlices \in Slices}}
                              : k \in ModeIdx} : i \in 1..Len(ShapeSeq)}
Next == /\ sc = NoScen
        /\ LET r == OptRes(o)
           IN \E q \in {x \in Plain(r) : ValidPlain(x)} \cup Modes(o, r) :
                /\ sc' = [shape |-> ShapeSeq[q[1]], target |-> TargetSeq[q[2]], edit |-> EditSeq[q[3]], to |-> q[4]] @@ o
                /\ SliceOf(sc') \in Slices
                /\ Sensible(sc')
                /\ LET w1 == World(sc')
                   IN ex' = [expect |-> H!Failing(w1, H!ApplySeq(w1, Atoms(sc'))), touch |-> Touch(sc')]
        /\ o' = o
Spec == Init /\ [][Next]_vars

Export == sc = NoScen \/ PrintT(<<"CASE", ToJson(sc @@ ex)>>)

\* sanity of the scenario space: the class of the missed seed (a comment-only
\* edit under inline source maps isolates the source map prefix) and the class
\* of the mode finding are in it
ASSUME LET s == [shape |-> "split", target |-> "shared", edit |-> "comment", to |-> "-", pp |-> FALSE, names |-> "allhash",
                 sm |-> "inline", sc |-> TRUE, sroot |-> FALSE, legal |-> "inline", minify |-> FALSE]
       IN Sensible(s) /\ Touch(s) = {"smP", "imports"}
ASSUME LET s == [shape |-> "split", target |-> "a", edit |-> "smmode", to |-> "linked", pp |-> FALSE, names |-> "allhash",
                 sm |-> "external", sc |-> TRUE, sroot |-> FALSE, legal |-> "inline", minify |-> FALSE]
       IN Sensible(s) /\ Touch(s) = {"modes"} /\ (MIH \/ "SamePathSameBytes" \in Expect(s))
=============================================================================
