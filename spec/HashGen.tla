------------------------------ MODULE HashGen ------------------------------
(***************************************************************************)
(* The scenario space of C18: (graph shape x options x edit) triples,      *)
(* enumerated by TLC and built twice with the real api.Build.  Every       *)
(* triple is instantiated as a pair of worlds of Hash.tla (the code as it  *)
(* is: lih = FALSE) and the set of properties the model predicts to fail   *)
(* is exported as `expect` (a candidate, guard 3: only the real builds     *)
(* decide).                                                                 *)
(***************************************************************************)
EXTENDS Integers, Sequences, FiniteSets, TLC, Json

H == INSTANCE Hash

\* chunk 1 = entry a, chunk 2 = entry b (or the dynamically imported b), chunk 3 = shared chunk
Shape(s) ==
  CASE s = "split"      -> [n |-> 3, imp |-> (1 :> {3} @@ 2 :> {3} @@ 3 :> {}), aref |-> (1 :> {} @@ 2 :> {} @@ 3 :> {})]
    [] s = "splitasset" -> [n |-> 3, imp |-> (1 :> {3} @@ 2 :> {3} @@ 3 :> {}), aref |-> (1 :> {} @@ 2 :> {} @@ 3 :> {"x"})]
    [] s = "dyncycle"   -> [n |-> 2, imp |-> (1 :> {2} @@ 2 :> {1}), aref |-> (1 :> {} @@ 2 :> {})]
    [] s = "fileasset"  -> [n |-> 1, imp |-> (1 :> {}), aref |-> (1 :> {"x"})]
    [] s = "cssurl"     -> [n |-> 1, imp |-> (1 :> {}), aref |-> (1 :> {"x"})]
    [] s = "copy"       -> [n |-> 1, imp |-> (1 :> {}), aref |-> (1 :> {"x"})]

Shapes == {"split", "splitasset", "dyncycle", "fileasset", "cssurl", "copy"}
HasAsset(s) == s \in {"splitasset", "fileasset", "cssurl", "copy"}
Targets(s) == CASE s \in {"split", "splitasset"} -> {"a", "shared"}
                [] s = "dyncycle" -> {"a", "b"}
                [] OTHER -> {"a"}
ChunkOf(t) == CASE t = "a" -> 1 [] t = "b" -> 2 [] t = "shared" -> 3

CONSTANTS SMs, Legals, Minifies

Scenarios ==
  [ shape : Shapes, target : {"a", "b", "shared"},
    edit : {"code", "comment", "legal", "smaponly", "asset", "importadd", "pp", "names"},
    pp : BOOLEAN, names : {"allhash", "entryplain"}, sm : SMs, legal : Legals, minify : Minifies ]

Sensible(s) ==
  /\ s.target \in Targets(s.shape)
  /\ (s.edit = "asset") => (HasAsset(s.shape) /\ s.target = "a")
  /\ (s.edit = "importadd") => (s.shape \in {"split", "splitasset"} /\ s.target = "a")
  /\ (s.edit = "pp") => (s.pp /\ s.target = "a")
  /\ (s.edit = "names") => (s.target = "a")
  /\ (s.shape = "cssurl") => (s.edit # "smaponly")   \* the CSS printer keeps no column-only differences apart

World(s) ==
  LET sh == Shape(s.shape)
      C == 1..sh.n
  IN [ chunks |-> C, assets |-> {"x"}, names |-> <<>>, imp |-> sh.imp, aref |-> sh.aref,
       hashedC |-> [c \in C |-> IF c = 1 \/ (c = 2 /\ s.shape # "dyncycle") THEN s.names = "allhash" ELSE TRUE],
       hashedA |-> TRUE, pp |-> s.pp, sm |-> s.sm, legal |-> s.legal, lih |-> FALSE,
       fake |-> [c \in C |-> c = 1],
       code |-> [c \in C |-> 0], parts |-> [c \in C |-> 0], tmpl |-> [c \in C |-> 0],
       smap |-> [c \in C |-> 0], legalv |-> [c \in C |-> 1], ppv |-> 0, abytes |-> [a \in {"x"} |-> 0] ]

\* the atoms a real edit touches
Atoms(s) ==
  LET c == ChunkOf(s.target)
  IN CASE s.edit = "code"      -> <<[k |-> "code", c |-> c], [k |-> "smap", c |-> c]>>
       [] s.edit = "comment"   -> <<[k |-> "smap", c |-> c]>>
       [] s.edit = "smaponly"  -> <<[k |-> "smap", c |-> c]>>
       [] s.edit = "legal"     -> <<[k |-> "legal", c |-> c], [k |-> "smap", c |-> c]>>
       [] s.edit = "asset"     -> <<[k |-> "asset", a |-> "x"]>>
       [] s.edit = "importadd" -> <<[k |-> "import", c |-> 1, d |-> 2], [k |-> "smap", c |-> 1]>>
       [] s.edit = "pp"        -> <<[k |-> "pp"]>>
       [] s.edit = "names"     -> <<[k |-> "tmpl", c |-> 1]>>

Expect(s) == H!Failing(World(s), H!ApplySeq(World(s), Atoms(s)))

\* the options are chosen in the initial state, (shape, target, edit) in one
\* step, so that TLC's workers share the evaluation of Expect
OptRecs == [pp : BOOLEAN, names : {"allhash", "entryplain"}, sm : SMs, legal : Legals, minify : Minifies]
VARIABLES o, sc, w1, w2
vars == <<o, sc, w1, w2>>
NoScen == [shape |-> "none"]
Init == o \in OptRecs /\ sc = NoScen /\ w1 = 0 /\ w2 = 0
Next == /\ sc = NoScen
        /\ \E sh \in Shapes, t \in {"a", "b", "shared"}, ed \in {"code", "comment", "legal", "smaponly", "asset", "importadd", "pp", "names"} :
              /\ sc' = [shape |-> sh, target |-> t, edit |-> ed] @@ o
              /\ Sensible(sc')
              /\ w1' = World(sc')
              /\ w2' = H!ApplySeq(w1', Atoms(sc'))
        /\ o' = o
Spec == Init /\ [][Next]_vars

Export == sc = NoScen \/ PrintT(<<"CASE", ToJson(sc @@ [expect |-> H!Failing(w1, w2)])>>)

\* sanity of the scenario space: the known candidate class is in it
ASSUME LET s == [shape |-> "split", target |-> "shared", edit |-> "legal", pp |-> FALSE, names |-> "allhash",
                 sm |-> "none", legal |-> "external", minify |-> FALSE]
       IN Sensible(s) /\ "SamePathSameBytes" \in Expect(s)
=============================================================================
