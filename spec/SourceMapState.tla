--------------------------- MODULE SourceMapState ---------------------------
(***************************************************************************)
(* State validation for C07: every record is one real bundle.  The harness *)
(* recorded, for every file of the bundle in output order, the chunk as the *)
(* printer produced it for a STAND-ALONE build of that file (mappings       *)
(* relative to the start of the chunk's text, line breaks and last-line     *)
(* width of the text, offset of the text from the end of the previous       *)
(* chunk, the file's identity and the number of sources it contributes) and the delta stream of the real bundle map (one   *)
(* tuple per segment, the empty tuple for ';').  TLC runs the loop of       *)
(* generateSourceMapForChunk with AppendSourceMapChunk exactly as stated in *)
(* SourceMap.tla (LinkAll) on the recorded chunks and compares the joined   *)
(* stream with the real one.                                                *)
(***************************************************************************)
EXTENDS SourceMap, Json

Records == ndJsonDeserialize("c07records.ndjson")

\* state 0 is a dummy: TLC evaluates the initial state on the JVM's main thread,
\* whose stack is small; the records are evaluated by worker threads
StateInit == s = 0
StateNext == s < Len(Records) /\ s' = s + 1

Rec == Records[s]
\* a recorded mapping is <<gl, gc, ol, oc, name, src>>, src = the source within the
\* file's OWN source list (0 for a file without an input source map)
ToChunk(c) ==
  WithBuf([maps |-> [i \in 1..Len(c.maps) |-> Mp(c.maps[i][1], c.maps[i][2], c.maps[i][6], c.maps[i][3], c.maps[i][4], c.maps[i][5])],
           lines |-> c.lines, fcol |-> c.fcol, nsrc |-> c.nsrc])
\* the first loop of generateSourceMapForChunk on the REAL per-file source counts:
\* the spec computes every file's source index base (nothing recorded is used
\* for it but the file identities and counts)
PassOfRec == SourcesPass([i \in 1..Len(Rec.chunks) |-> [file |-> Rec.chunks[i].file, nsrc |-> Rec.chunks[i].nsrc, null |-> FALSE]], Pass0)
Results == LET P == PassOfRec IN
           [i \in 1..Len(Rec.chunks) |->
              [chunk |-> ToChunk(Rec.chunks[i]), off |-> Off(Rec.chunks[i].offl, Rec.chunks[i].offc),
               src |-> P.idx[Rec.chunks[i].file], null |-> FALSE]]
\* the real "sources" array has as many entries as the spec's concatenation and
\* every file's first source stands at the base the spec computes
SourcesOK == LET P == PassOfRec IN
  /\ P.next = Rec.nsources
  /\ \A i \in 1..Len(Rec.chunks) : P.idx[Rec.chunks[i].file] = Rec.chunks[i].realbase
\* line breaks after the last mapping are not part of the recorded chunk texts
RECURSIVE StripSemis(_)
StripSemis(st) == IF st # <<>> /\ st[Len(st)] = SEMI THEN StripSemis(SubSeq(st, 1, Len(st) - 1)) ELSE st
Want == StripSemis(LinkAll(Results, Link0, <<>>))
Got == StripSemis(Rec.segs)
FirstDiff == IF Want = Got THEN 0
             ELSE IF \E i \in 1..Min({Len(Want), Len(Got)}) : Want[i] # Got[i]
                  THEN Min({i \in 1..Min({Len(Want), Len(Got)}) : Want[i] # Got[i]})
                  ELSE Min({Len(Want), Len(Got)}) + 1
\* always TRUE as an invariant, so that one bad record does not hide the others
Report == s = 0 \/ PrintT(<<"CASE", ToJson([i |-> s, ok |-> Want = Got /\ SourcesOK, srcok |-> SourcesOK, want |-> Len(Want), got |-> Len(Got), diff |-> FirstDiff])>>)
=============================================================================
