--------------------------- MODULE SourceMapState ---------------------------
(***************************************************************************)
(* State validation for C07: every record is one real bundle.  The harness *)
(* recorded, for every file of the bundle in output order, the chunk as the *)
(* printer produced it for a STAND-ALONE build of that file (mappings       *)
(* relative to the start of the chunk's text, line breaks and last-line     *)
(* width of the text, offset of the text from the end of the previous       *)
(* chunk, sources index) and the delta stream of the real bundle map (one   *)
(* tuple per segment, the empty tuple for ';').  TLC runs the loop of       *)
(* generateSourceMapForChunk with AppendSourceMapChunk exactly as stated in *)
(* SourceMap.tla (LinkAll) on the recorded chunks and compares the joined   *)
(* stream with the real one.                                                *)
(***************************************************************************)
EXTENDS SourceMap, Json

Records == ndJsonDeserialize("c07records.ndjson")

\* state 0 is a dummy: TLC evaluates the initial state on the JVM's main thread,
\* whose stack is small; the records are evaluated by worker threads
StateInit == s = 0
StateNext == s < Len(Records) /\ s' = s + 1

Rec == Records[s]
ToChunk(c) ==
  WithBuf([maps |-> [i \in 1..Len(c.maps) |-> Mp(c.maps[i][1], c.maps[i][2], 0, c.maps[i][3], c.maps[i][4], c.maps[i][5])],
           lines |-> c.lines, fcol |-> c.fcol])
Results == [i \in 1..Len(Rec.chunks) |->
              [chunk |-> ToChunk(Rec.chunks[i]), off |-> Off(Rec.chunks[i].offl, Rec.chunks[i].offc),
               src |-> Rec.chunks[i].src, null |-> FALSE]]
\* line breaks after the last mapping are not part of the recorded chunk texts
RECURSIVE StripSemis(_)
StripSemis(st) == IF st # <<>> /\ st[Len(st)] = SEMI THEN StripSemis(SubSeq(st, 1, Len(st) - 1)) ELSE st
Want == StripSemis(LinkAll(Results, Link0, <<>>))
Got == StripSemis(Rec.segs)
FirstDiff == IF Want = Got THEN 0
             ELSE IF \E i \in 1..Min({Len(Want), Len(Got)}) : Want[i] # Got[i]
                  THEN Min({i \in 1..Min({Len(Want), Len(Got)}) : Want[i] # Got[i]})
                  ELSE Min({Len(Want), Len(Got)}) + 1
\* always TRUE as an invariant, so that one bad record does not hide the others
Report == s = 0 \/ PrintT(<<"CASE", ToJson([i |-> s, ok |-> Want = Got, want |-> Len(Want), got |-> Len(Got), diff |-> FirstDiff])>>)
=============================================================================
