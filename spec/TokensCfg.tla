----------------------------- MODULE TokensCfg ------------------------------
(***************************************************************************)
(* C16 part (ii)(d): configuration KEY PATTERNS.  package.json "exports" / *)
(* "imports" maps, tsconfig.json "paths", the "browser" map and the alias  *)
(* option are all tables  key -> target  whose keys may hold one "*": the  *)
(* resolver splits such a key at its first "*" into prefix and suffix,     *)
(* tests a requested specifier against both ends and cuts the text the "*" *)
(* stands for out of the request:                                          *)
(*        request[ Len(prefix) : Len(request) - Len(suffix) ]              *)
(* That slice only exists if the two ends do not overlap inside the        *)
(* request, i.e. Len(request) >= Len(prefix) + Len(suffix): key "ab*ba"    *)
(* and request "aba" pass both end tests, yet the "*" would stand for a    *)
(* string of length -1.  (internal/resolver/package_json.go                *)
(* esmPackageImportsExportsResolve, internal/resolver/resolver.go          *)
(* matchTSConfigPaths.)                                                    *)
(*                                                                         *)
(* State = a key: a string of <= KeyLen symbols over Sigma \cup {"*"},     *)
(* grown one symbol at a time (the reachable states ARE the keys: without  *)
(* "*", with one, with several, empty, with a trailing "/", "*" alone).    *)
(* For every key the model confronts the key with EVERY request over Sigma *)
(* of length <= (number of non-"*" symbols of the key) + 1, capped by      *)
(* ReqCap: shorter than, as long as and longer than the pattern.  TLC      *)
(* checks, for the matcher of the design (GuardLen = TRUE):                *)
(*   SliceOK    a match always has Begin <= End (the slice exists)         *)
(*   CaptureOK  prefix \o captured \o suffix = request                     *)
(*   OverlapIsNoMatch  an "overlap" request (both end tests pass, request  *)
(*              too short) is not a match                                  *)
(* GuardLen = FALSE is the matcher that tests the two ends only            *)
(* (TokensCfg.naive.cfg): SliceOK is violated in 2 states (key "a*a",      *)
(* request "a").  The harness materialises every key in every family of    *)
(* the header record (exports, imports, paths, paths through "extends",    *)
(* browser, alias) x target kinds x platforms as a scratch tree whose      *)
(* entry file imports every request, and bundles it with the real          *)
(* api.Build; the requests are the expansion of Sigma that the harness     *)
(* performs from the header (count and overlap set cross-checked per key). *)
(***************************************************************************)
EXTENDS Integers, Sequences, FiniteSets, TLC, Json

CONSTANTS KeyLen,    \* keys have at most KeyLen symbols
          ReqCap,    \* requests have at most ReqCap symbols
          GuardLen   \* the matcher compares the lengths (design) or not (naive)

Sigma == <<"a", "b", "/">>          \* two letters (so that a prefix tail can equal a suffix head) and the separator
Syms == Sigma \o <<"*">>
NSig == Len(Sigma)
StarSym == Len(Syms)

VARIABLES key                        \* sequence of indices into Syms
vars == <<key>>

(* the table families and the target values: materialised by the harness *)
Families == <<
  [name |-> "exports", keyPrefix |-> "./", reqPrefix |-> "pkg/"],     \* node_modules/pkg/package.json {"exports": {"./KEY": T}}, import "pkg/REQ"
  [name |-> "imports", keyPrefix |-> "#", reqPrefix |-> "#"],         \* package.json {"imports": {"#KEY": T}}, import "#REQ"
  [name |-> "paths", keyPrefix |-> "", reqPrefix |-> ""],             \* tsconfig.json compilerOptions.paths {"KEY": [T]} + baseUrl
  [name |-> "paths-extends", keyPrefix |-> "", reqPrefix |-> ""],     \* the same, paths inherited through "extends", no baseUrl
  [name |-> "browser", keyPrefix |-> "", reqPrefix |-> ""],           \* package.json {"browser": {"KEY": T, "./KEY": T}}, import "REQ" and "./REQ"
  [name |-> "alias", keyPrefix |-> "", reqPrefix |-> ""],             \* BuildOptions.Alias {"KEY": T}
  \* the key as a GLOB: node_modules/pkg/package.json {"sideEffects": ["KEY", "./KEY", "KEY/**", "**/KEY", "?KEY", "[KEY", "KEY[a-b]?"]}
  \* (glob-to-regexp conversion; "*" and "**" come from the key, "?" and "[" from the decoration), import "pkg/REQ"
  [name |-> "sideEffects", keyPrefix |-> "", reqPrefix |-> "pkg/"] >>

\* pj: the JSON value in a package.json table, ts: the value of a tsconfig "paths" entry, alias: the alias option value
Targets == <<
  [name |-> "string-star", pj |-> "\"./src/*.js\"", ts |-> "[\"./src/*.js\"]", alias |-> "./src/a.js"],
  [name |-> "string-plain", pj |-> "\"./src/a.js\"", ts |-> "[\"./src/a.js\"]", alias |-> "pkg"],
  [name |-> "string-star-dir", pj |-> "\"./src/*/\"", ts |-> "[\"src/*\", \"*\"]", alias |-> "./src/"],
  [name |-> "array", pj |-> "[\"./nope/*\", {\"import\": \"./src/*.js\"}, \"./src/*\"]", ts |-> "[\"./nope/*\", \"./src/*.js\", \"./src/*/index.js\"]", alias |-> "./src"],
  [name |-> "conditions", pj |-> "{\"node\": {\"import\": \"./src/*.js\", \"require\": \"./src/a.js\"}, \"browser\": \"./src/*/index.js\", \"default\": null}", ts |-> "[\"*\"]", alias |-> "/abs/a.js"],
  [name |-> "null", pj |-> "null", ts |-> "null", alias |-> ""],
  [name |-> "invalid-target", pj |-> "\"../*\"", ts |-> "[\"*/../../*\"]", alias |-> "*"],
  [name |-> "two-stars", pj |-> "\"./src/*/*.js\"", ts |-> "[\"./src/*/*.js\"]", alias |-> "./src/*"],
  [name |-> "invalid-type", pj |-> "[1, true, [], {}]", ts |-> "[1, {}, null, \"\"]", alias |-> "."],
  [name |-> "false", pj |-> "false", ts |-> "\"./src/*\"", alias |-> "a"],
  \* self-referential / cyclic: %KEY% stands for the key of the entry itself (substituted by the harness), so the
  \* target of the entry is the entry again (browser map: "KEY" -> "./KEY" -> "./KEY"; alias KEY -> KEY)
  [name |-> "self", pj |-> "\"./%KEY%\"", ts |-> "[\"%KEY%\", \"./%KEY%\"]", alias |-> "%KEY%"],
  [name |-> "self-conditions", pj |-> "{\"import\": \"./%KEY%\", \"default\": [\"%KEY%\", \"./%KEY%/\"]}", ts |-> "[\"./%KEY%/*\"]", alias |-> "./%KEY%"] >>

Platforms == <<"node", "browser", "neutral">>

(* ------------------------------------------------------------ the matcher *)
RECURSIVE FirstStar(_, _)
FirstStar(k, i) == IF i > Len(k) THEN 0 ELSE IF k[i] = StarSym THEN i ELSE FirstStar(k, i + 1)
Star(k) == FirstStar(k, 1)
NStars(k) == Cardinality({i \in 1..Len(k) : k[i] = StarSym})
Pre(k) == SubSeq(k, 1, Star(k) - 1)
Suf(k) == SubSeq(k, Star(k) + 1, Len(k))

HasPrefix(r, p) == Len(r) >= Len(p) /\ SubSeq(r, 1, Len(p)) = p
HasSuffix(r, s) == Len(r) >= Len(s) /\ SubSeq(r, Len(r) - Len(s) + 1, Len(r)) = s

\* both end tests pass
Touch(k, r) == Star(k) # 0 /\ HasPrefix(r, Pre(k)) /\ HasSuffix(r, Suf(k))
Fits(k, r) == Len(r) >= Len(Pre(k)) + Len(Suf(k))
Match(k, r) == Touch(k, r) /\ (GuardLen => Fits(k, r))
Begin(k) == Len(Pre(k))                 \* 0-based half-open slice [Begin, End) of the request
End(k, r) == Len(r) - Len(Suf(k))
Captured(k, r) == SubSeq(r, Begin(k) + 1, End(k, r))

Class(k, r) ==
  IF Star(k) = 0 THEN (IF r = k THEN "exact" ELSE "none")
  ELSE IF Touch(k, r) /\ ~Fits(k, r) THEN "overlap"
  ELSE IF Touch(k, r) THEN "match" ELSE "none"

(* ----------------------------------------------------------- the requests *)
RECURSIVE Strs(_)
Strs(n) == IF n = 0 THEN {<<>>}
           ELSE LET S == Strs(n - 1) IN S \cup {s \o <<c>> : s \in {x \in S : Len(x) = n - 1}, c \in 1..NSig}
Min(a, b) == IF a < b THEN a ELSE b
ReqMax(k) == Min(Len(k) - NStars(k) + 1, ReqCap)
Reqs(k) == Strs(ReqMax(k))
\* closed form of |Reqs(k)|: the harness expands Sigma itself and must arrive at the same number
RECURSIVE Pow(_, _)
Pow(b, e) == IF e = 0 THEN 1 ELSE b * Pow(b, e - 1)
RECURSIVE Geo(_)
Geo(n) == IF n = 0 THEN 1 ELSE Pow(NSig, n) + Geo(n - 1)

RECURSIVE Join(_)
Join(s) == IF s = <<>> THEN "" ELSE Syms[Head(s)] \o Join(Tail(s))

(* ------------------------------------------------------------ the machine *)
Init == key = <<>>
AppendSym(c) == Len(key) < KeyLen /\ key' = key \o <<c>>
Next == \E c \in 1..Len(Syms) : AppendSym(c)
Spec == Init /\ [][Next]_vars

TypeOK == key \in Seq(1..Len(Syms)) /\ Len(key) <= KeyLen
SliceOK == \A r \in Reqs(key) : Match(key, r) => Begin(key) <= End(key, r)
CaptureOK == \A r \in Reqs(key) : (Match(key, r) /\ Fits(key, r)) => Pre(key) \o Captured(key, r) \o Suf(key) = r
OverlapIsNoMatch == \A r \in Reqs(key) : Class(key, r) = "overlap" => ~Match(key, r)
CountOK == Cardinality(Reqs(key)) = Geo(ReqMax(key))
PrefixClosed == [][key' = key \o <<key'[Len(key')]>>]_vars

ASSUME PrintT(<<"CASE", ToJson([sigma |-> Sigma, families |-> Families, targets |-> Targets, platforms |-> Platforms,
                                keylen |-> KeyLen, reqcap |-> ReqCap])>>)

Export ==
  LET R == Reqs(key) IN
  PrintT(<<"CASE", ToJson([key |-> Join(key), stars |-> NStars(key), reqmax |-> ReqMax(key), nreq |-> Cardinality(R),
                           overlap |-> {Join(r) : r \in {x \in R : Class(key, x) = "overlap"}},
                           nmatch |-> Cardinality({x \in R : Class(key, x) \in {"match", "exact"}})])>>)
=============================================================================
