----------------------------- MODULE TokensNest -----------------------------
(***************************************************************************)
(* C16 part (ii)(c): deep nesting.  An input is                            *)
(*     open^d  inner  close^c        (c = d: balanced, c = 0: unclosed,    *)
(*                                    c = d + 1: one closer too many)      *)
(* for a nesting kind of TokensAlphabet!NestKinds.  State = (kind, depth,  *)
(* closing mode); the actions deepen the nesting and change  *)
(* the closing mode.  The size bound of the property ("inputs of tens of   *)
(* kilobytes") is part of the model: Deepen is only enabled while the      *)
(* rendered input stays within MaxBytes, and TLC checks SizeOK.            *)
(***************************************************************************)
EXTENDS TokensAlphabet, FiniteSets, TLC, Json

CONSTANTS Depths,     \* set of depths, e.g. {10, 100, 500, 2500}
          BindDepths, \* further depths, explored only for the kinds that bind a name per level (block-like
                      \* kinds print output that is quadratic in the depth: indentation)
          MaxBytes    \* bound on the size of an input

VARIABLES kind, d, mode
vars == <<kind, d, mode>>

Modes == {"balanced", "unclosed", "overclosed"}
K == NestKinds

Closers(dd, m) == CASE m = "balanced" -> dd [] m = "unclosed" -> 0 [] m = "overclosed" -> dd + 1
Size(k, dd, m) == dd * Len(K[k].open) + Len(K[k].inner) + Closers(dd, m) * Len(K[k].close)

DepthsOf(k) == IF K[k].binds THEN Depths \cup BindDepths ELSE Depths
MinDepth == CHOOSE x \in Depths : \A y \in Depths : x <= y
NextDepth(k, dd) == CHOOSE x \in DepthsOf(k) : x > dd /\ \A y \in DepthsOf(k) : y > dd => x <= y

ASSUME /\ Depths \subseteq Nat \ {0} /\ Depths # {} /\ BindDepths \subseteq Nat
       /\ PrintT(<<"CASE", ToJson([kinds |-> K, depths |-> Depths, maxbytes |-> MaxBytes])>>)

Init == kind \in 1..Len(K) /\ d = MinDepth /\ mode = "balanced"

Deepen == /\ \E x \in DepthsOf(kind) : x > d
          /\ Size(kind, NextDepth(kind, d), mode) <= MaxBytes
          /\ d' = NextDepth(kind, d) /\ UNCHANGED <<kind, mode>>
Reclose == /\ \E m \in Modes \ {mode} : Size(kind, d, m) <= MaxBytes /\ mode' = m
           /\ UNCHANGED <<kind, d>>
Next == Deepen \/ Reclose
Spec == Init /\ [][Next]_vars

TypeOK == kind \in 1..Len(K) /\ d \in DepthsOf(kind) /\ mode \in Modes
SizeOK == Size(kind, d, mode) <= MaxBytes
(* the nesting only ever gets deeper *)
Monotone == [][d' >= d /\ kind' = kind]_vars

Export == PrintT(<<"CASE", ToJson([k |-> kind, d |-> d, m |-> mode, size |-> Size(kind, d, mode)])>>)
=============================================================================
