------------------------------- MODULE TsErase -------------------------------
(***************************************************************************)
(* C06, part 1: "adding or removing type-level syntax never changes the    *)
(* emitted JavaScript".                                                    *)
(*                                                                         *)
(* A two-phase machine.                                                    *)
(*  phase "derive": the state is a sentential form of a SKELETON grammar   *)
(*    (plain JavaScript with SLOT markers "@kind" at the positions where   *)
(*    the TypeScript grammar allows type-space syntax); one action = one   *)
(*    production at the leftmost non-terminal (as in JsGrammar).           *)
(*  phase "insert": the skeleton is frozen; the state carries the TYPED    *)
(*    token sequence (every token tagged value-space "v" or type-space     *)
(*    "t") and the set of insertions made; one action = splice one filler  *)
(*    (module TsEraseTypes) into the typed sequence at a free slot, at the *)
(*    offset computed from the insertions already made.                    *)
(* Invariants checked by TLC on every state: Erase(typed) = the skeleton   *)
(* (EraseOK); typed is exactly the canonical interleaving of skeleton and  *)
(* fillers, independent of the insertion order (RenderOK); type-space runs *)
(* are bracket-balanced and contiguous (RunsOK); bounds (Bounded).         *)
(* Every reachable (skeleton, insertion set) is exported once as a CASE    *)
(* line with the typed tokens, their space tags, the productions and the   *)
(* (slot kind, filler) labels used.                                        *)
(***************************************************************************)
EXTENDS TsEraseTypes, Json

CONSTANTS Families,  \* the skeleton sub-grammars explored (one initial state each)
          MaxLen,    \* bound on the number of skeleton tokens (slots included)
          MaxIns,    \* bound on the number of independent insertions per variant
          MaxDep,    \* bound on the number of dependent insertions (fillers that need a name given by another filler)
          WStride,   \* sampling of the contextual-keyword list of the cmp family (1 = all)
          RichMode,  \* 0: core fillers only; 1: a rich filler only as the single insertion; 2: at most one rich filler among the insertions
          NestIns    \* family "nest": 2 = a context insertion (outside the payload) may be combined with one payload insertion

VARIABLES fam,       \* the skeleton sub-grammar of this behaviour
          phase,     \* "derive" | "insert"
          form,      \* sentential form / frozen skeleton with slot markers
          used,      \* productions applied
          ins,       \* set of insertions [pos, kind, name, fl, len, gives, dep]
          typed,     \* sequence of [t |-> token, s |-> "v" | "t"]
          exported   \* BOOLEAN: this variant has been exported
vars == <<fam, phase, form, used, ins, typed, exported>>

(* ---------------------------------------------------------- slot kinds *)
ModAccess == {F(<<"mod-public">>, {}, <<"public">>), F(<<"mod-private">>, {"rich"}, <<"private">>), F(<<"mod-protected">>, {"rich"}, <<"protected">>)}
ModField == ModAccess \cup {F(<<"mod-readonly">>, {"rich"}, <<"readonly">>), F(<<"mod-public-readonly">>, {"rich"}, <<"public", "readonly">>)}

MemberFillerSeq == <<
  F(<<"mem-declare-field">>, {"amb"}, <<"declare", "df", ":", "T", ";">>),
  F(<<"mem-declare-static">>, {"amb", "rich"}, <<"declare", "static", "ds", ":", "T", ";">>),
  F(<<"mem-static-declare-readonly">>, {"amb", "rich"}, <<"static", "declare", "readonly", "dr", ":", "T", ";">>),
  F(<<"mem-declare-public">>, {"amb", "rich"}, <<"public", "declare", "dp", "?", ":", "T", ";">>),
  F(<<"mem-index-sig">>, {"amb", "rich"}, <<"[", "key", ":", "string", "]", ":", "T", ";">>),
  F(<<"mem-index-sig-static-readonly">>, {"amb", "rich"}, <<"static", "readonly", "[", "key", ":", "string", "]", ":", "T", ";">>),
  F(<<"mem-ctor-overload">>, {"amb", "rich"}, <<"constructor", "(", "a", ":", "string", ")", ";">>) >>
MemberFillers == Sample(MemberFillerSeq)
AbstractMemberFillers == MemberFillers \cup {
  FD(<<"mem-abstract-method">>, {"amb"}, <<"abstract", "am", "(", ")", ":", "void", ";">>, "abstract", ""),
  FD(<<"mem-abstract-field">>, {"amb", "rich"}, <<"abstract", "af", ":", "T", ";">>, "abstract", ""),
  FD(<<"mem-abstract-getter">>, {"amb", "rich"}, <<"protected", "abstract", "get", "ag", "(", ")", ":", "T", ";">>, "abstract", ""),
  FD(<<"mem-abstract-generic">>, {"amb", "rich"}, <<"abstract", "agm", "<", "T", ">", "(", "a", "?", ":", "T", ")", ":", "asserts", "a", ";">>, "abstract", "") }

OptPrefix(tag, types) == WithPrefix(tag, <<"?", ":">>, types)

FillersOfKind(k) ==
  CASE k = "@annv"  -> WithPrefix("ann", <<":">>, AllTypes) \cup {F(<<"ann-glue-ge">>, {"amb"}, <<":", "A", "<", "B", ">", "<GLUE>">>), F(<<"ann-glue-shr-eq">>, {"amb"}, <<":", "A", "<", "B", "<", "C", ">", ">", "<GLUE>">>), F(<<"ann-glue-ushr-eq">>, {"amb"}, <<":", "A", "<", "B", "<", "C", "<", "D", ">", ">", ">", "<GLUE>">>)}
    [] k = "@annl"  -> WithPrefix("ann", <<":">>, NoUnique) \cup WithPrefix("ann-definite", <<"!", ":">>, CoreTypes)
    [] k = "@annp"  -> WithPrefix("ann", <<":">>, NoUnique) \cup OptPrefix("ann-opt", CoreTypes \cup {TypeByName("t-cond"), TypeByName("t-obj")})
                       \cup {F(<<"opt">>, {"amb"}, <<"?">>)}
    [] k = "@annpn" -> WithPrefix("ann", <<":">>, NoUnique)           \* a parameter that is followed by a required one
    [] k = "@annpd" -> WithPrefix("ann", <<":">>, NoUnique) \cup {F(<<"ann-glue-ge">>, {"amb"}, <<":", "A", "<", "B", ">", "<GLUE>">>), F(<<"ann-glue-shr-eq">>, {"amb"}, <<":", "A", "<", "B", "<", "C", ">", ">", "<GLUE>">>), F(<<"ann-glue-ushr-eq">>, {"amb"}, <<":", "A", "<", "B", "<", "C", "<", "D", ">", ">", ">", "<GLUE>">>)}   \* before "= default"
    [] k = "@annpr" -> WithPrefix("ann", <<":">>, ArrayTypes)         \* rest parameter
    [] k = "@annf"  -> WithPrefix("ann", <<":">>, AllTypes) \cup OptPrefix("ann-opt", CoreTypes) \cup WithPrefix("ann-definite", <<"!", ":">>, CoreTypes)
                       \cup {F(<<"opt">>, {"amb"}, <<"?">>), F(<<"definite">>, {"amb", "rich"}, <<"!">>)}
    [] k = "@annfi" -> WithPrefix("ann", <<":">>, AllTypes) \cup OptPrefix("ann-opt", CoreTypes)
                       \cup {F(<<"ann-glue-ge">>, {"amb"}, <<":", "A", "<", "B", ">", "<GLUE>">>), F(<<"ann-glue-shr-eq">>, {"amb"}, <<":", "A", "<", "B", "<", "C", ">", ">", "<GLUE>">>), F(<<"ann-glue-ushr-eq">>, {"amb"}, <<":", "A", "<", "B", "<", "C", "<", "D", ">", ">", ">", "<GLUE>">>)}        \* field with initialiser
    [] k = "@annfp" -> WithPrefix("ann", <<":">>, NoUnique)           \* private-name field
    [] k = "@annc"  -> {F(<<"ann", "t-any">>, {}, <<":", "any">>), F(<<"ann", "t-unknown">>, {}, <<":", "unknown">>)}
    [] k = "@ret"   -> WithPrefix("ret", <<":">>, NoUnique)
    [] k = "@retp"  -> WithPrefix("ret", <<":">>, CoreTypes \cup PredTypes)
    [] k = "@retm"  -> WithPrefix("ret", <<":">>, CoreTypes \cup PredTypes \cup ThisPredTypes)
    [] k = "@reta"  -> Wrapped("ret", <<":">>, NoUnique, <<>>, {"amb"})        \* arrow return type
                       \cup {F(<<"ret-glue-arrow">>, {"amb"}, <<":", "A", "<", "B", ">", "<GLUE>">>),      \* ":A<B>=>" : ">=" then ">"
                             F(<<"ret-glue-arrow-2">>, {"amb"}, <<":", "A", "<", "B", "<", "C", ">", ">", "<GLUE>">>)}
    [] k = "@retpa" -> Wrapped("ret", <<":">>, CoreTypes \cup PredTypes, <<>>, {"amb"})
    [] k = "@retq"  -> Wrapped("ret", <<":">>, NoUnique \cup NestTypes, <<>>, {"amb"})        \* return type of an arrow that is the true branch of a conditional
    [] k = "@retasync" -> {F(<<"ret-promise">>, {}, <<":", "Promise", "<", "T", ">">>),
                           F(<<"ret-promise2">>, {"amb", "rich"}, <<":", "Promise", "<", "A", "<", "B", ">", ">">>)}
    [] k = "@retasynca" -> {F(<<"ret-promise">>, {"amb"}, <<":", "Promise", "<", "T", ">">>),
                            F(<<"ret-promise2">>, {"amb", "rich"}, <<":", "Promise", "<", "A", "<", "B", ">", ">">>)}
    [] k = "@retgen" -> {F(<<"ret-generator">>, {}, <<":", "Generator", "<", "T", ">">>),
                         F(<<"ret-iterable">>, {"rich", "amb"}, <<":", "IterableIterator", "<", "A", "<", "B", ">", ">">>),
                         F(<<"ret-any">>, {"rich"}, <<":", "any">>)}
    [] k = "@retagen" -> {F(<<"ret-async-generator">>, {}, <<":", "AsyncGenerator", "<", "T", ">">>)}
    [] k = "@tp"    -> TypeParamLists
    [] k = "@tpa"   -> ArrowTypeParamLists
    [] k = "@tpc"   -> ClassTypeParamLists
    [] k = "@ta"    -> TypeArgLists
    [] k = "@tai"   -> {f \in TypeArgLists : f.name \in {<<"ta", "t-num">>, <<"ta", "t-generic">>, <<"ta", "t-generic2">>, <<"ta-2">>}}   \* instantiation expression
    [] k = "@cast"  -> CastLists
    [] k = "@post"  -> AsFillers(NoUnique) \cup PostCommon
    [] k = "@postb" -> PostBeforeOp
    [] k = "@postn" -> AsFillers(CoreTypes \cup LabelTypes) \cup {F(<<"nonnull">>, {"amb"}, <<"!">>)}   \* payloads of the family "nest": independent of the sampling
    [] k = "@nn"    -> {F(<<"nonnull">>, {"amb"}, <<"!">>), F(<<"nonnull2">>, {"amb", "rich"}, <<"!", "!">>)}
    [] k = "@stmt"  -> StmtFillers
    [] k = "@ovl"   -> OverloadFillers
    [] k = "@mem"   -> MemberFillers
    [] k = "@mema"  -> AbstractMemberFillers
    [] k = "@movl"  -> {F(<<"method-overload">>, {"amb"}, <<"m", "(", "a", ":", "string", ")", ":", "void", ";">>),
                        F(<<"method-overload-2">>, {"amb", "rich"}, <<"public", "m", "<", "T", ">", "(", "a", ":", "T", ")", ":", "void", ";", "public", "m", "(", ")", ":", "void", ";">>),
                        F(<<"method-overload-optional">>, {"amb", "rich"}, <<"m", "?", "(", "a", ":", "string", ")", ":", "void", ";">>)}
    [] k = "@mod"   -> ModAccess
    [] k = "@modf"  -> ModField
    [] k = "@mods"  -> {F(<<"mod-readonly">>, {}, <<"readonly">>)}                       \* after "static"
    [] k = "@modo"  -> ModAccess \cup {F(<<"mod-override">>, {}, <<"override">>), F(<<"mod-public-override">>, {"rich"}, <<"public", "override">>)}
    [] k = "@abs"   -> {FD(<<"abstract">>, {"amb"}, <<"abstract">>, "", "abstract")}
    [] k = "@impl"  -> {F(<<"impl-1">>, {}, <<"implements", "I">>),
                        F(<<"impl-2">>, {"rich", "amb"}, <<"implements", "I", ",", "J", "<", "T", ">">>),
                        F(<<"impl-qualified">>, {"rich"}, <<"implements", "A", ".", "B", "<", "C", "<", "D", ">", ">">>)}
    [] k = "@thisp" -> {F(<<"this-param">>, {"amb"}, <<"this", ":", "T", ",">>), F(<<"this-param-generic">>, {"amb", "rich"}, <<"this", ":", "A", "<", "B", ">", ",">>)}
    [] k = "@thisp0" -> {F(<<"this-param-only">>, {"amb"}, <<"this", ":", "T">>), F(<<"this-param-only-comma">>, {"amb", "rich"}, <<"this", ":", "T", ",">>)}
    [] k = "@impi"  -> {F(<<"imp-type-lead">>, {"amb"}, <<"type", "TA", ",">>), F(<<"imp-type-lead-as">>, {"amb", "rich"}, <<"type", "TA", "as", "TB", ",">>),
                        F(<<"imp-type-lead-as-as">>, {"amb", "rich"}, <<"type", "as", "as", "TB", ",">>)}
    [] k = "@impi2" -> {F(<<"imp-type-trail">>, {"amb"}, <<",", "type", "TA">>), F(<<"imp-type-trail-as">>, {"amb", "rich"}, <<",", "type", "TA", "as", "TB", ",">>),
                        F(<<"imp-type-trail-string">>, {"amb", "rich"}, <<",", "type", "'s t'", "as", "TB">>)}
    [] k = "@cimp"  -> {FD(<<"bundle-import-iface">>, {"amb", "nv"}, <<",", "IFace">>, "IFace", ""),         \* a plain import of an interface: never used as a value
                        FD(<<"bundle-import-type-iface">>, {"amb"}, <<",", "type", "IFace">>, "IFace", ""),
                        FD(<<"bundle-import-alias">>, {"amb", "nv", "rich"}, <<",", "Alias", "as", "AL">>, "Alias", "")}
    [] k = "@cstmt" -> {FD(<<"bundle-export-iface">>, {}, <<"export", "interface", "IFace", "{", "a", ":", "number", "}">>, "", "IFace"),
                        FD(<<"bundle-export-alias">>, {"rich"}, <<"export", "type", "Alias", "=", "IFace", "|", "null", ";">>, "IFace", "Alias"),
                        FD(<<"bundle-reexport-type">>, {"rich"}, <<"export", "type", "{", "Other", "}", "from", "'./other'", ";">>, "", ""),
                        FD(<<"bundle-reexport-type-star">>, {"rich"}, <<"export", "type", "*", "from", "'./other'", ";">>, "", "")}
    [] k = "@cuse"  -> {FD(<<"bundle-use-iface">>, {}, <<"let", "q", ":", "IFace", "|", "undefined", ";">>, "IFace", ""),
                        FD(<<"bundle-import-type-stmt">>, {"rich"}, <<"import", "type", "{", "IFace", "as", "IF2", "}", "from", "'./lib'", ";">>, "IFace", ""),
                        FD(<<"bundle-import-type-other">>, {"rich"}, <<"import", "type", "*", "as", "OT", "from", "'./other'", ";">>, "", ""),
                        FD(<<"bundle-reexport-iface">>, {"rich", "amb"}, <<"export", "type", "{", "IFace", "}", "from", "'./lib'", ";">>, "IFace", "")}

SlotKinds == {"@annv", "@annl", "@annp", "@annpn", "@annpd", "@annpr", "@annf", "@annfi", "@annfp", "@annc",
              "@ret", "@retp", "@retm", "@reta", "@retpa", "@retq", "@retasync", "@retasynca", "@retgen", "@retagen",
              "@tp", "@tpa", "@tpc", "@ta", "@tai", "@cast", "@post", "@postb", "@postn", "@nn", "@stmt", "@ovl", "@mem", "@mema",
              "@movl", "@mod", "@modf", "@mods", "@modo", "@abs", "@impl", "@thisp", "@thisp0", "@impi", "@impi2", "@cimp", "@cstmt", "@cuse"}
AmbKinds == {"@reta", "@retpa", "@retq", "@retasynca", "@tpa", "@ta", "@tai", "@cast", "@nn", "@thisp", "@thisp0", "@ovl"}
IsSlot(t) == t \in SlotKinds
FillerTable == [k \in SlotKinds |-> FillersOfKind(k)]

(* ------------------------------------------------------------ skeletons *)
(* a production: name, flags, right-hand side.  flags:
     amb     the skeleton itself contains an ambiguous construct
     tsdiff  TypeScript itself reads this JavaScript differently (documented): no ts-vs-js comparison
     field   class fields present (ts-vs-js comparison only with define semantics)
     jsx     needs the tsx/jsx loaders
     mod     uses import/export *)
P(name, fl, rhs) == [name |-> name, fl |-> fl, rhs |-> rhs]

Decl(nt) ==
  CASE nt = "Prog" -> {P("d-var", {}, <<"@stmt", "K", "x", "@annv", "=", "E", ";", "@stmt">>),
                       P("d-let-later", {}, <<"let", "x", "@annl", ";", "x", "=", "1", ";">>),
                       P("d-multi", {}, <<"let", "x", "@annv", "=", "1", ",", "y", "@annv", "=", "2", ";">>),
                       P("d-destr-obj", {}, <<"const", "{", "a", ",", "b", ":", "c", "}", "@annv", "=", "E", ";">>),
                       P("d-destr-arr", {}, <<"const", "[", "a", ",", "...", "r", "]", "@annv", "=", "E", ";">>),
                       P("d-for", {}, <<"for", "(", "let", "i", "@annv", "=", "0", ";", "i", "<", "n", ";", "i", "++", ")", ";">>),
                       P("d-forof", {}, <<"for", "(", "const", "k", "of", "a", "@post", ")", ";">>),
                       P("d-forin", {}, <<"for", "(", "const", "k", "in", "a", "@post", ")", ";">>),
                       P("d-catch", {}, <<"try", "{", "}", "catch", "(", "e", "@annc", ")", "{", "}">>),
                       P("d-export-const", {"mod"}, <<"export", "const", "c", "@annv", "=", "E", ";">>),
                       P("d-if", {}, <<"if", "(", "a", "@post", ")", "x", "=", "b", "@post", ";", "else", "x", "=", "c", "@nn", ";">>),
                       P("d-switch", {}, <<"switch", "(", "a", "@post", ")", "{", "case", "b", "@post", ":", "break", ";", "}">>),
                       P("d-return", {}, <<"function", "f", "(", ")", "{", "return", "a", "@post", ";", "}">>),
                       P("d-throw", {}, <<"function", "f", "(", ")", "{", "throw", "a", "@post", ";", "}">>),
                       P("d-await", {}, <<"async", "function", "f", "(", ")", "{", "x", "=", "await", "a", "@post", ";", "}">>),
                       P("d-yield", {}, <<"function", "*", "g", "(", ")", "{", "x", "=", "yield", "a", "@post", ";", "}">>)}
    [] nt = "K" -> {P("k-var", {}, <<"var">>), P("k-let", {}, <<"let">>), P("k-const", {}, <<"const">>)}
    [] nt = "E" -> {P("e-id", {}, <<"a">>), P("e-post", {}, <<"a", "@post">>), P("e-paren-post-dot", {}, <<"(", "a", "@post", ")", ".", "b">>),
                    P("e-arr", {}, <<"[", "a", "@post", ",", "b", "@post", "]">>), P("e-obj", {}, <<"{", "k", ":", "a", "@post", ",", "...", "b", "@post", "}">>),
                    P("e-call-arg", {}, <<"f", "(", "a", "@post", ",", "...", "b", "@post", ")">>),
                    P("e-nn-dot", {"amb"}, <<"a", "@nn", ".", "b", "@nn", "[", "0", "]", "@nn", "(", ")">>),
                    P("e-tpl", {}, <<"`t${", "a", "@post", "}u`">>),
                    P("e-fn-expr", {}, <<"function", "@tp", "(", "@thisp0", ")", "@ret", "{", "}">>),
                    P("e-arrow", {"amb"}, <<"@tpa", "(", "a", "@annp", ")", "@reta", "=>", "a", "@post">>),
                    P("e-cond", {"amb"}, <<"a", "@postb", "?", "b", "@post", ":", "c", "@post">>),
                    P("e-binary", {}, <<"a", "@postb", "*", "b", "@postb", "+", "c", "@post">>),
                    P("e-logical", {}, <<"a", "@postb", "&&", "b", "@postb", "||", "c", "@post">>),
                    P("e-nullish-comma", {}, <<"(", "a", "@postb", "??", "b", "@postb", ",", "c", "@post", ")">>),
                    P("e-cast", {"amb"}, <<"@cast", "a">>),
                    P("e-obj-satisfies", {}, <<"{", "k", ":", "1", "}", "@post">>),
                    P("e-new-post", {}, <<"new", "C", "@ta", "(", ")", "@post">>),
                    P("e-typeof-post", {}, <<"typeof", "a", "@post">>),
                    P("e-assign-chain", {}, <<"y", "=", "a", "@post">>)}

Fn(nt) ==
  CASE nt = "Prog" -> {P("f-decl", {}, <<"@ovl", "function", "f", "@tp", "(", "Params", ")", "@ret", "{", "return", "a", ";", "}", "@stmt">>),
                       P("f-async", {}, <<"async", "function", "f", "@tp", "(", "Params", ")", "@retasync", "{", "}">>),
                       P("f-gen", {}, <<"function", "*", "g", "@tp", "(", "Params", ")", "@retgen", "{", "}">>),
                       P("f-async-gen", {}, <<"async", "function", "*", "g", "@tp", "(", "a", "@annp", ")", "@retagen", "{", "}">>),
                       P("f-expr", {}, <<"x", "=", "function", "@tp", "(", "Params", ")", "@ret", "{", "}", ";">>),
                       P("f-pred", {"amb"}, <<"function", "f", "@tp", "(", "a", "@annp", ")", "@retp", "{", "return", "true", ";", "}">>),
                       P("f-arrow", {"amb"}, <<"x", "=", "@tpa", "(", "ParamsA", ")", "@reta", "=>", "a", ";">>),
                       P("f-arrow-block", {"amb"}, <<"x", "=", "@tpa", "(", "ParamsA", ")", "@reta", "=>", "{", "}", ";">>),
                       P("f-arrow-obj", {"amb"}, <<"x", "=", "@tpa", "(", "a", "@annp", ")", "@reta", "=>", "(", "{", "a", "}", ")", ";">>),
                       P("f-arrow-pred", {"amb"}, <<"x", "=", "(", "a", "@annp", ")", "@retpa", "=>", "true", ";">>),
                       P("f-async-arrow", {"amb"}, <<"x", "=", "async", "@tpa", "(", "ParamsA", ")", "@retasynca", "=>", "a", ";">>),
                       P("f-arrow-in-cond", {"amb"}, <<"x", "=", "a", "?", "@tpa", "(", "b", "@annp", ")", "@reta", "=>", "c", ":", "d", ";">>),
                       P("f-arrow-in-cond-alt", {"amb"}, <<"x", "=", "a", "?", "b", ":", "@tpa", "(", "c", "@annp", ")", "@reta", "=>", "d", ";">>),
                       P("f-arrow-in-cond-paren", {"amb"}, <<"x", "=", "a", "?", "(", "b", "@post", ")", ":", "(", "c", "@annp", ")", "@reta", "=>", "d", ";">>),
                       P("f-arrow-in-call", {"amb"}, <<"f", "(", "@tpa", "(", "a", "@annp", ")", "@reta", "=>", "a", ",", "b", "@post", ")", ";">>),
                       P("f-arrow-arrow", {"amb"}, <<"x", "=", "(", "a", "@annp", ")", "@reta", "=>", "(", "b", "@annp", ")", "@reta", "=>", "a", ";">>),
                       P("f-arrow-default-arrow", {"amb"}, <<"x", "=", "(", "a", "@annpd", "=", "(", "b", "@annp", ")", "@reta", "=>", "b", ")", "@reta", "=>", "a", ";">>),
                       P("f-export-default", {"mod"}, <<"export", "default", "function", "@tp", "(", "Params", ")", "@ret", "{", "}">>),
                       P("f-export-default-async", {"mod"}, <<"export", "default", "async", "function", "@tp", "(", "a", "@annp", ")", "@retasync", "{", "}">>),
                       P("f-export", {"mod"}, <<"@ovl", "export", "function", "f", "@tp", "(", "a", "@annp", ")", "@ret", "{", "}">>),
                       P("f-obj-methods", {}, <<"x", "=", "{", "m", "@tp", "(", "Params", ")", "@ret", "{", "}", ",", "get", "g", "(", ")", "@ret", "{", "return", "1", ";", "}", ",",
                                                "set", "g", "(", "v", "@annpn", ")", "{", "}", ",", "async", "*", "ag", "@tp", "(", ")", "@retagen", "{", "}", ",", "[", "k", "]", "@tp", "(", ")", "@ret", "{", "}", "}", ";">>),
                       P("f-iife", {"amb"}, <<"(", "function", "@tp", "(", "a", "@annp", ")", "@ret", "{", "}", ")", "(", "b", "@post", ")", ";">>),
                       P("f-arrow-iife", {"amb"}, <<"(", "@tpa", "(", "a", "@annp", ")", "@reta", "=>", "a", ")", "(", "b", "@post", ")", ";">>)}
    [] nt = "ParamsA" -> {P("aa-none", {}, <<>>), P("aa-1", {}, <<"a", "@annp">>), P("aa-2", {}, <<"a", "@annpn", ",", "b", "@annp">>),
                          P("aa-default", {}, <<"a", "@annpd", "=", "1">>), P("aa-rest", {}, <<"...", "r", "@annpr">>),
                          P("aa-destr", {}, <<"{", "a", "}", "@annpn", ",", "[", "b", "]", "@annpd", "=", "[", "]">>)}
    [] nt = "Params" -> {P("pa-none", {}, <<"@thisp0">>), P("pa-1", {}, <<"@thisp", "a", "@annp">>), P("pa-2", {}, <<"a", "@annpn", ",", "b", "@annp">>),
                         P("pa-default", {}, <<"a", "@annpd", "=", "1">>), P("pa-rest", {}, <<"a", "@annp", ",", "...", "r", "@annpr">>),
                         P("pa-destr-obj", {}, <<"{", "a", ",", "b", "}", "@annpn">>), P("pa-destr-arr-default", {}, <<"[", "a", "]", "@annpd", "=", "[", "]">>),
                         P("pa-default-post", {}, <<"a", "@annpn", ",", "b", "@annpd", "=", "a", "@post">>)}

Class(nt) ==
  CASE nt = "Prog" -> {P("c-decl", {}, <<"@stmt", "class", "C", "@tpc", "Her", "{", "@mem", "Mem", "@mem", "}", "@stmt">>),
                       P("c-decl-2", {}, <<"class", "C", "@tpc", "Her1", "{", "MemS", "@mem", "Mem2", "}">>),
                       P("c-abstract", {"amb"}, <<"@abs", "class", "C", "@tpc", "{", "@mema", "Mem", "@mema", "}">>),
                       P("c-expr", {}, <<"x", "=", "class", "@tpc", "Her1", "{", "MemS", "}", ";">>),
                       P("c-expr-named", {}, <<"x", "=", "class", "D", "@tpc", "Her1", "{", "MemS", "}", ";">>),
                       P("c-export-default", {"mod"}, <<"export", "default", "@abs", "class", "@tpc", "Her1", "{", "MemS", "}">>),
                       P("c-export", {"mod"}, <<"export", "@abs", "class", "C", "@tpc", "Her1", "{", "MemS", "}">>),
                       P("c-override", {"field"}, <<"class", "C", "extends", "B", "{", "@modo", "m", "(", ")", "{", "}", "@modo", "x", "@annfi", "=", "1", ";", "}">>)}
    [] nt = "Her1" -> {P("h1-none", {}, <<"@impl">>), P("h1-extends", {"amb"}, <<"extends", "B", "@ta", "@impl">>)}
    [] nt = "MemS" -> {P("ms-field", {"field"}, <<"@modf", "x", "@annfi", "=", "1", ";">>), P("ms-method", {}, <<"@mod", "m", "@tp", "(", "a", "@annp", ")", "@retm", "{", "}">>)}
    [] nt = "Her" -> {P("h-none", {}, <<"@impl">>), P("h-extends", {"amb"}, <<"extends", "B", "@ta", "@impl">>),
                      P("h-extends-call", {}, <<"extends", "f", "(", "a", "@post", ")", "@impl">>), P("h-extends-dot", {"amb"}, <<"extends", "a", ".", "B", "@ta", "@impl">>),
                      P("h-extends-paren", {}, <<"extends", "(", "a", "@post", ")", "@impl">>)}
    [] nt = "Mem" -> {P("m-field", {"field"}, <<"@modf", "x", "@annf", ";">>),
                      P("m-field-init", {"field"}, <<"@modf", "x", "@annfi", "=", "1", ";">>),
                      P("m-static-field", {"field"}, <<"@modf", "static", "@mods", "y", "@annfi", "=", "1", ";">>),
                      P("m-method", {}, <<"@movl", "@mod", "m", "@tp", "(", "Params1", ")", "@retm", "{", "}">>),
                      P("m-static-method", {}, <<"@mod", "static", "s", "@tp", "(", "Params1", ")", "@ret", "{", "}">>),
                      P("m-getter", {}, <<"@mod", "get", "g", "(", ")", "@ret", "{", "return", "1", ";", "}">>),
                      P("m-setter", {}, <<"@mod", "set", "g", "(", "v", "@annpn", ")", "{", "}">>),
                      P("m-ctor", {}, <<"@mod", "constructor", "(", "a", "@annp", ")", "{", "}">>),
                      P("m-private", {"field"}, <<"#p", "@annfp", "=", "1", ";">>),
                      P("m-private-method", {}, <<"#q", "@tp", "(", "Params1", ")", "@ret", "{", "}">>),
                      P("m-computed", {"field"}, <<"[", "k", "]", "@annfi", "=", "1", ";">>),
                      P("m-computed-method", {}, <<"@mod", "[", "k", "]", "@tp", "(", ")", "@ret", "{", "}">>),
                      P("m-async-gen", {}, <<"@mod", "async", "*", "ag", "@tp", "(", ")", "@retagen", "{", "}">>),
                      P("m-static-block", {}, <<"static", "{", "x", "=", "a", "@post", ";", "}">>),
                      P("m-string-key", {"field"}, <<"@modf", "'s'", "@annfi", "=", "1", ";">>),
                      P("m-num-key", {"field"}, <<"1", "@annf", ";">>),
                      P("m-field-arrow", {"field", "amb"}, <<"@modf", "h", "@annfi", "=", "@tpa", "(", "a", "@annp", ")", "@reta", "=>", "a", ";">>),
                      P("m-field-kw-name", {"field", "amb"}, <<"@modf", "readonly", "@annfi", "=", "1", ";", "@modf", "declare", "@annf", ";", "@modf", "abstract", "@annf", ";">>)}
    [] nt = "Mem2" -> {P("m2-field", {"field"}, <<"y", "@annf", ";">>), P("m2-method", {}, <<"@mod", "n", "(", ")", "@ret", "{", "}">>),
                       P("m2-static-field", {"field"}, <<"static", "@mods", "z", "@annfi", "=", "2", ";">>)}
    [] nt = "Params1" -> {P("p1-none", {}, <<"@thisp0">>), P("p1-1", {}, <<"a", "@annp">>)}

Expr(nt) ==
  CASE nt = "Prog" -> {P("x-call", {"amb"}, <<"f", "@ta", "(", "a", "@post", ")", ";">>),
                       P("x-call-member", {"amb"}, <<"a", ".", "b", "@ta", "(", "c", ")", ";">>),
                       P("x-call-chain", {"amb"}, <<"f", "@ta", "(", "a", ")", "@ta", "(", "b", ")", ";">>),
                       P("x-new", {"amb"}, <<"x", "=", "new", "C", "@ta", "(", "a", ")", ";">>),
                       P("x-new-noargs", {"amb"}, <<"x", "=", "new", "C", "@ta", ";">>),
                       P("x-new-member", {"amb"}, <<"x", "=", "new", "a", ".", "C", "@ta", "(", ")", ".", "d", ";">>),
                       P("x-tagged", {"amb"}, <<"x", "=", "f", "@ta", "`t`", ";">>),
                       P("x-tagged-hole", {"amb"}, <<"x", "=", "f", "@ta", "`t${", "a", "@post", "}u`", ";">>),
                       P("x-optcall", {"amb"}, <<"x", "=", "f", "?.", "@ta", "(", "a", ")", ";">>),
                       P("x-optcall-member", {"amb"}, <<"x", "=", "a", "?.", "b", "@ta", "(", "c", ")", ";">>),
                       P("x-inst", {"amb"}, <<"x", "=", "f", "@tai", ";">>),
                       P("x-inst-paren", {"amb"}, <<"x", "=", "(", "f", "@tai", ")", ";">>),
                       P("x-inst-arg", {"amb"}, <<"g", "(", "f", "@tai", ",", "a", ")", ";">>),
                       P("x-call-lt", {"amb"}, <<"x", "=", "f", "@ta", "(", "a", ")", "<", "b", ";">>),
                       P("x-call-in-cmp", {"amb"}, <<"x", "=", "a", "<", "f", "@ta", "(", "b", ")", ";">>),
                       P("x-call-shift", {"amb"}, <<"x", "=", "f", "@ta", "(", "a", ")", ">>", "b", ";">>),
                       P("x-call-gt", {"amb"}, <<"x", "=", "f", "@ta", "(", "a", ")", ">", "b", ";">>),
                       P("x-nn-assign", {"amb"}, <<"a", "@nn", ".", "b", "=", "1", ";">>),
                       P("x-nn-target", {"amb"}, <<"a", "@nn", "=", "1", ";">>),
                       P("x-nn-update", {"amb"}, <<"a", "@nn", "++", ";">>),
                       P("x-nn-index-update", {"amb"}, <<"a", "@nn", "[", "0", "]", "@nn", "--", ";">>),
                       P("x-nn-call", {"amb"}, <<"a", "@nn", "(", ")", ";">>),
                       P("x-nn-tpl", {"amb"}, <<"x", "=", "a", "@nn", "`t`", ";">>),
                       P("x-nn-in", {"amb"}, <<"x", "=", "a", "@nn", "in", "b", ";">>),
                       P("x-nn-instanceof", {"amb"}, <<"x", "=", "a", "@nn", "instanceof", "B", ";">>),
                       P("x-nn-eq", {"amb"}, <<"x", "=", "a", "@nn", "==", "b", ";">>),
                       P("x-nn-strict-eq", {"amb"}, <<"x", "=", "a", "@nn", "===", "b", ";">>),
                       P("x-nn-cond", {"amb"}, <<"x", "=", "a", "@nn", "?", "b", "@nn", ":", "c", "@nn", ";">>),
                       P("x-nn-optchain", {"amb"}, <<"x", "=", "a", "?.", "b", "@nn", ".", "c", ";">>),
                       P("x-nn-optchain-call", {"amb"}, <<"x", "=", "a", "?.", "b", "@nn", "(", ")", ";">>),
                       P("x-nn-optchain-index", {"amb"}, <<"x", "=", "a", "?.", "[", "0", "]", "@nn", ".", "c", "@nn", "[", "1", "]", ";">>),
                       P("x-nn-optchain-paren", {"amb"}, <<"x", "=", "(", "a", "?.", "b", ")", "@nn", ".", "c", ";">>),
                       P("x-nn-optchain-delete", {"amb"}, <<"delete", "a", "?.", "b", "@nn", ".", "c", ";">>),
                       P("x-post-assign-target", {"amb"}, <<"(", "a", "@post", ")", "=", "1", ";">>),
                       P("x-post-member-target", {"amb"}, <<"(", "a", "@post", ")", ".", "b", "=", "1", ";">>),
                       P("x-post-destr-target", {"amb"}, <<"[", "a", "@post", ",", "(", "b", "@post", ")", "]", "=", "c", ";">>),
                       P("x-post-forof-target", {"amb"}, <<"for", "(", "(", "a", "@post", ")", "of", "b", ")", ";">>),
                       P("x-cast-paren", {"amb"}, <<"x", "=", "@cast", "(", "a", ")", ";">>),
                       P("x-cast-obj", {"amb"}, <<"x", "=", "@cast", "{", "k", ":", "1", "}", ";">>),
                       P("x-cast-arr", {"amb"}, <<"x", "=", "@cast", "[", "a", "]", ";">>),
                       P("x-cast-arg", {"amb"}, <<"f", "(", "@cast", "a", ",", "@cast", "b", ")", ";">>),
                       P("x-cast-unary", {"amb"}, <<"x", "=", "-", "@cast", "a", ";">>),
                       P("x-cast-member", {"amb"}, <<"x", "=", "@cast", "a", ".", "b", ";">>),
                       P("x-cast-double", {"amb"}, <<"x", "=", "@cast", "@cast", "a", ";">>),
                       P("x-cast-fn", {"amb"}, <<"x", "=", "@cast", "function", "(", ")", "{", "}", ";">>),
                       P("x-cast-post", {"amb"}, <<"x", "=", "@cast", "a", "@post", ";">>),
                       P("x-cast-binary", {"amb"}, <<"x", "=", "a", "+", "@cast", "b", "*", "c", ";">>),
                       P("x-cast-arrow-body", {"amb"}, <<"x", "=", "(", ")", "=>", "@cast", "a", ";">>),
                       P("x-cast-stmt", {"amb"}, <<"@cast", "a", ";">>),
                       P("x-cast-await", {"amb"}, <<"async", "function", "f", "(", ")", "{", "x", "=", "@cast", "await", "a", ";", "}">>),
                       P("x-tpl-holes", {"amb"}, <<"x", "=", "`a${", "b", "@post", "}c${", "@cast", "d", "}e`", ";">>),
                       P("x-arrow-body-post", {}, <<"x", "=", "(", ")", "=>", "a", "@post", ";">>),
                       P("x-arrow-body-obj-post", {}, <<"x", "=", "(", ")", "=>", "(", "{", "}", "@post", ")", ";">>),
                       P("x-spread-post", {}, <<"x", "=", "[", "...", "a", "@post", "]", ";">>),
                       P("x-export-default-satisfies", {"mod"}, <<"export", "default", "{", "k", ":", "1", "}", "@post", ";">>),
                       P("x-extends-post", {}, <<"class", "C", "extends", "(", "a", "@post", ")", "{", "}">>),
                       P("x-dynamic-import-post", {}, <<"x", "=", "import", "(", "'m'", ")", "@post", ";">>),
                       P("x-post-post", {}, <<"x", "=", "(", "a", "@post", ")", "@post", ";">>),
                       P("x-unary-post", {}, <<"x", "=", "-", "a", "@post", ";">>),
                       P("x-void-post", {}, <<"x", "=", "void", "a", "@nn", ".", "b", "@post", ";">>),
                       P("x-stmt-post", {}, <<"a", "@post", ";">>),
                       P("x-compound-assign", {}, <<"x", "+=", "a", "@postb", "-", "b", "@post", ";">>)}

(* contextual keywords of TypeScript used as plain identifiers (sampled by WStride in the quick tier) *)
WSeq == <<P("w-type", {}, <<"type">>), P("w-declare", {}, <<"declare">>), P("w-abstract", {}, <<"abstract">>), P("w-namespace", {}, <<"namespace">>),
                    P("w-module", {}, <<"module">>), P("w-as", {}, <<"as">>), P("w-satisfies", {}, <<"satisfies">>), P("w-readonly", {}, <<"readonly">>),
                    P("w-global", {}, <<"global">>), P("w-keyof", {}, <<"keyof">>), P("w-infer", {}, <<"infer">>), P("w-is", {}, <<"is">>), P("w-asserts", {}, <<"asserts">>),
                    P("w-override", {}, <<"override">>), P("w-out", {}, <<"out">>), P("w-any", {}, <<"any">>), P("w-number", {}, <<"number">>), P("w-unique", {}, <<"unique">>),
                    P("w-require", {}, <<"require">>), P("w-public", {}, <<"public">>), P("w-private", {}, <<"private">>), P("w-protected", {}, <<"protected">>), P("w-interface", {}, <<"interface">>), P("w-accessor", {}, <<"accessor">>),
                    P("w-async", {}, <<"async">>), P("w-of", {}, <<"of">>), P("w-unknown", {}, <<"unknown">>), P("w-never", {}, <<"never">>), P("w-object", {}, <<"object">>)>>
(* plain JavaScript whose reading is delicate in a TypeScript file: the converse direction *)
Cmp(nt) ==
  CASE nt = "Prog" -> {P("k-lt-gt-paren", {"amb", "tsdiff"}, <<"x", "=", "a", "<", "b", ">", "(", "c", ")", ";">>),
                       P("k-lt-gt", {"amb"}, <<"x", "=", "a", "<", "b", ">", "c", ";">>),
                       P("k-lt-gt-neg", {"amb"}, <<"x", "=", "a", "<", "b", ">", "-", "c", ";">>),
                       P("k-lt-gt-tpl", {"amb", "tsdiff"}, <<"x", "=", "a", "<", "b", ">", "`t`", ";">>),
                       P("k-comma-generic", {"amb", "tsdiff"}, <<"x", "=", "(", "f", "<", "a", ",", "b", ">", "(", "c", ")", ")", ";">>),
                       P("k-paren-lt-gt-paren", {"amb", "tsdiff"}, <<"x", "=", "(", "a", ")", "<", "b", ">", "(", "c", ")", ";">>),
                       P("k-async-lt", {"amb", "tsdiff"}, <<"x", "=", "async", "<", "a", ">", "(", "b", ")", ";">>),
                       P("k-lt", {}, <<"x", "=", "a", "<", "b", ";">>), P("k-lt-paren", {"amb"}, <<"x", "=", "a", "<", "(", "b", ">", "c", ")", ";">>),
                       P("k-lt-shr", {"amb"}, <<"x", "=", "a", "<", "b", ">>", "c", ";">>), P("k-shl-gt", {"amb"}, <<"x", "=", "a", "<<", "b", ">", "(", "c", ")", ";">>),
                       P("k-lt-ge", {"amb"}, <<"x", "=", "a", "<", "b", ">=", "c", ";">>), P("k-ushr-assign", {}, <<"x", ">>>=", "a", ">>", "b", ";">>),
                       P("k-lt-gt-dot", {"amb"}, <<"x", "=", "a", "<", "b", ">", "c", ".", "d", ";">>),
                       P("k-lt-num-gt", {"amb", "tsdiff"}, <<"x", "=", "a", "<", "1", ">", "(", "c", ")", ";">>),
                       P("k-lt-gt-new", {"amb"}, <<"x", "=", "a", "<", "b", ">", "new", "C", ";">>),
                       P("k-lt-gt-bracket", {"amb"}, <<"x", "=", "a", "<", "b", ">", "[", "c", "]", ";">>),
                       P("k-lt-gt-obj", {"amb"}, <<"x", "=", "a", "<", "b", ">", "{", "}", ";">>),
                       P("k-lt-gt-bang", {"amb"}, <<"x", "=", "a", "<", "b", ">", "!", "c", ";">>),
                       P("k-lt-gt-fn", {"amb"}, <<"x", "=", "a", "<", "b", ">", "function", "(", ")", "{", "}", ";">>),
                       P("k-lt-gt-num", {"amb"}, <<"x", "=", "a", "<", "b", ">", "1", ";">>),
                       P("k-if-lt", {"amb"}, <<"if", "(", "a", "<", "b", "&&", "c", ">", "(", "d", ")", ")", ";">>),
                       P("k-cond-arrow", {"amb"}, <<"x", "=", "a", "?", "(", "b", ")", ":", "c", "=>", "d", ";">>),
                       P("k-cond-arrow-paren", {"amb"}, <<"x", "=", "a", "?", "(", "b", ")", ":", "(", "c", ")", "=>", "d", ";">>),
                       P("k-cond-arrow-seq", {"amb"}, <<"x", "=", "a", "?", "(", "b", ",", "c", ")", ":", "d", "=>", "e", ";">>),
                       P("k-cond-arrow-then", {"amb"}, <<"x", "=", "a", "?", "(", "b", ")", "=>", "c", ":", "d", ";">>),
                       P("k-cond-arrow-then-paren", {"amb"}, <<"x", "=", "a", "?", "(", "(", "b", ")", "=>", "c", ")", ":", "d", ";">>),
                       P("k-cond-paren", {"amb"}, <<"x", "=", "a", "?", "(", "b", ")", ":", "c", ";">>),
                       P("k-cond-arrow-nested", {"amb"}, <<"x", "=", "a", "?", "(", "b", ")", ":", "c", "=>", "(", "d", ")", ":", "e", "=>", "f", ";">>),
                       P("k-cond-obj", {"amb"}, <<"x", "=", "a", "?", "{", "b", "}", ":", "c", ";">>),
                       P("k-cond-async-arrow", {"amb"}, <<"x", "=", "a", "?", "async", "(", "b", ")", ":", "c", "=>", "d", ";">>),
                       P("k-cond-fn-call", {"amb"}, <<"x", "=", "a", "?", "f", "(", "b", ")", ":", "c", "=>", "d", ";">>),
                       P("k-arrow-default-cond", {"amb"}, <<"x", "=", "(", "a", "=", "b", "?", "c", ":", "d", ")", "=>", "e", ";">>),
                       P("k-arrow-destr", {}, <<"x", "=", "(", "{", "a", ":", "b", "}", ",", "[", "c", "]", ")", "=>", "c", ";">>),
                       P("k-kw-assign", {"amb"}, <<"W", "=", "1", ";">>), P("k-kw-read", {"amb"}, <<"x", "=", "W", ";">>),
                       P("k-kw-stmt", {"amb"}, <<"W", ";">>), P("k-kw-call", {"amb"}, <<"W", "(", "a", ")", ";">>),
                       P("k-kw-member", {"amb"}, <<"x", "=", "a", ".", "W", ";">>), P("k-kw-var", {"amb"}, <<"var", "W", "=", "1", ";">>),
                       P("k-kw-fn", {"amb"}, <<"function", "W", "(", "W2", ")", "{", "}">>), P("k-kw-label", {"amb"}, <<"W", ":", ";">>),
                       P("k-kw-nl", {"amb"}, <<"W", "<NL>", "A", "=", "1", ";">>), P("k-kw-nl-class", {"amb"}, <<"W", "<NL>", "class", "C", "{", "}">>),
                       P("k-kw-nl-brace", {"amb"}, <<"W", "<NL>", "{", "}">>),
                       P("k-kw-obj-key", {"amb"}, <<"x", "=", "{", "W", ":", "1", ",", "W2", "(", ")", "{", "}", "}", ";">>),
                       P("k-kw-obj-short", {"amb"}, <<"x", "=", "{", "W", "}", ";">>),
                       P("k-kw-arrow-param", {"amb"}, <<"x", "=", "W", "=>", "W", ";">>), P("k-kw-arrow-paren", {"amb"}, <<"x", "=", "(", "W", ",", "W2", ")", "=>", "W", ";">>),
                       P("k-kw-in", {"amb"}, <<"x", "=", "a", "in", "W", ";">>), P("k-kw-binary", {"amb", "tsdiff"}, <<"x", "=", "W", "<", "W2", ">", "(", "a", ")", ";">>),
                       P("k-class-kw-fields", {"amb", "field"}, <<"class", "C", "{", "W", ";", "W2", "=", "1", ";", "}">>),
                       P("k-class-kw-methods", {"amb"}, <<"class", "C", "{", "W", "(", ")", "{", "}", "static", "W2", "(", ")", "{", "}", "}">>),
                       P("k-class-kw-nl", {"amb", "field"}, <<"class", "C", "{", "W", "<NL>", "x", ";", "}">>),
                       P("k-class-kw-accessors", {"amb"}, <<"class", "C", "{", "get", "W", "(", ")", "{", "return", "1", "}", "set", "W", "(", "v", ")", "{", "}", "}">>),
                       P("k-class-static-kw", {"amb", "field"}, <<"class", "C", "{", "static", "W", ";", "static", "W2", "=", "1", ";", "}">>),
                       P("k-import-named-type", {"amb", "mod"}, <<"import", "{", "type", "}", "from", "'m'", ";", "f", "(", "type", ")", ";">>),
                       P("k-import-type-as-as", {"amb", "mod"}, <<"import", "{", "type", "as", "as", "}", "from", "'m'", ";", "f", "(", "as", ")", ";">>),
                       P("k-import-type-as-b", {"amb", "mod"}, <<"import", "{", "type", "as", "b", "}", "from", "'m'", ";", "f", "(", "b", ")", ";">>),
                       P("k-import-default-type", {"amb", "mod"}, <<"import", "type", "from", "'m'", ";", "f", "(", "type", ")", ";">>),
                       P("k-import-default-type-named", {"amb", "mod"}, <<"import", "type", ",", "{", "a", "}", "from", "'m'", ";", "f", "(", "type", ",", "a", ")", ";">>),
                       P("k-export-type-names", {"amb", "mod"}, <<"var", "type", ",", "as", ";", "export", "{", "type", ",", "as", "}", ";">>),
                       P("k-export-type-as-as", {"amb", "mod"}, <<"var", "type", ";", "export", "{", "type", "as", "as", "}", ";">>),
                       P("k-export-type-as-b", {"amb", "mod"}, <<"var", "type", ";", "export", "{", "type", "as", "b", "}", ";">>),
                       P("k-export-type-from", {"amb", "mod"}, <<"export", "{", "type", "}", "from", "'m'", ";">>),
                       P("k-as-satisfies-binary", {"amb"}, <<"var", "as", ",", "satisfies", ";", "x", "=", "as", "<", "satisfies", ";", "x", "=", "a", "in", "as", ";">>),
                       P("k-regex-after-gt", {"amb", "tsdiff"}, <<"x", "=", "a", "<", "b", ">", "/c/", ".", "d", ";">>),
                       P("k-optional-chain-cond", {"amb"}, <<"x", "=", "a", "?", ".5", ":", "b", ";">>),
                       P("k-bang-bang", {"amb"}, <<"x", "=", "!", "!", "a", ";", "x", "=", "a", "!=", "b", ";", "x", "=", "a", "!==", "b", ";">>),
                       P("k-enum-like-iife", {}, <<"var", "E", ";", "(", "function", "(", "E", ")", "{", "E", "[", "E", "[", "'A'", "]", "=", "0", "]", "=", "'A'", ";", "}", ")", "(", "E", "||", "(", "E", "=", "{", "}", ")", ")", ";">>)}
    [] nt = "W" -> {WSeq[i] : i \in {j \in 1..Len(WSeq) : j % WStride = Phase % WStride}}
    [] nt = "W2" -> {P("w2-declare", {}, <<"declare">>), P("w2-type", {}, <<"type">>)}

Module(nt) ==
  CASE nt = "Prog" -> {P("i-named", {"mod"}, <<"@stmt", "import", "d", ",", "{", "@impi", "a", "@impi2", "}", "from", "'m'", ";", "@stmt", "f", "(", "d", ",", "a", "@post", ")", ";", "@stmt">>),
                       P("i-named-as", {"mod"}, <<"import", "{", "@impi", "a", "as", "b", "@impi2", "}", "from", "'m'", ";", "f", "(", "b", ")", ";">>),
                       P("i-ns", {"mod"}, <<"@stmt", "import", "*", "as", "ns", "from", "'m'", ";", "f", "(", "ns", "@post", ")", ";">>),
                       P("i-side-effect", {"mod"}, <<"@stmt", "import", "'m'", ";", "@stmt">>),
                       P("i-reexport", {"mod"}, <<"@stmt", "export", "{", "@impi", "a", "@impi2", "}", "from", "'m'", ";", "@stmt">>),
                       P("i-export-local", {"mod"}, <<"var", "x", "@annv", "=", "1", ";", "@stmt", "export", "{", "x", "}", ";", "@stmt">>),
                       P("i-export-local-as", {"mod"}, <<"var", "x", "@annv", "=", "1", ";", "export", "{", "x", "as", "y", ",", "x", "as", "default", "}", ";">>),
                       P("i-export-star", {"mod"}, <<"@stmt", "export", "*", "from", "'m'", ";", "export", "*", "as", "ns", "from", "'m'", ";", "@stmt">>),
                       P("i-export-default-expr", {"mod"}, <<"@stmt", "export", "default", "a", "@post", ";">>),
                       P("i-export-let", {"mod"}, <<"export", "let", "x", "@annv", "=", "a", "@post", ",", "y", "@annl", ";">>),
                       P("i-export-class-fn", {"mod"}, <<"export", "class", "C", "@tpc", "{", "}", "@stmt", "export", "function", "f", "@tp", "(", ")", "@ret", "{", "}">>),
                       P("i-dynamic", {"mod"}, <<"x", "=", "import", "(", "'m'", ")", "@post", ";", "y", "=", "import", ".", "meta", "@nn", ".", "url", ";">>)}

Jsx(nt) ==
  CASE nt = "Prog" -> {P("j-el", {"jsx"}, <<"x", "=", "<", "div", "a", "=", "{", "b", "@post", "}", ">", "{", "c", "@post", "}", "</", "div", ">", ";">>),
                       P("j-generic", {"jsx", "amb"}, <<"x", "=", "<", "C", "@ta", "a", "=", "{", "b", "}", "/>", ";">>),
                       P("j-generic-open", {"jsx", "amb"}, <<"x", "=", "<", "C", "@ta", ">", "</", "C", ">", ";">>),
                       P("j-generic-noattr", {"jsx", "amb"}, <<"x", "=", "<", "C", "@ta", "/>", ";">>),
                       P("j-arrow-in-attr", {"jsx", "amb"}, <<"x", "=", "<", "C", "f", "=", "{", "@tpa", "(", "a", "@annp", ")", "@reta", "=>", "a", "}", "/>", ";">>),
                       P("j-arrow", {"jsx", "amb"}, <<"x", "=", "@tpa", "(", "a", "@annp", ")", "@reta", "=>", "<", "b", "/>", ";">>),
                       P("j-frag", {"jsx", "amb"}, <<"x", "=", "<", ">", "{", "a", "@nn", "}", "</", ">", ";">>),
                       P("j-spread", {"jsx"}, <<"x", "=", "<", "C", "{", "...", "a", "@post", "}", "/>", ";">>),
                       P("j-lt", {"jsx", "amb"}, <<"x", "=", "a", "<", "b", ";", "y", "=", "f", "@ta", "(", "a", ")", ";">>),
                       P("j-el-in-cond", {"jsx", "amb"}, <<"x", "=", "a", "@postb", "?", "<", "b", "/>", ":", "<", "c", ">", "{", "d", "@post", "}", "</", "c", ">", ";">>),
                       P("j-fn", {"jsx"}, <<"function", "f", "@tp", "(", "a", "@annp", ")", "@ret", "{", "return", "<", "a", "/>", ";", "}">>),
                       P("j-class", {"jsx", "amb"}, <<"class", "C", "@tpc", "extends", "B", "@ta", "{", "m", "(", ")", "@ret", "{", "return", "<", "a", "/>", ";", "}", "}">>)}


(* ------------------------------------------------------- nested speculation *)
(* Family "nest": CONTEXT x PAYLOAD.  A context is a skeleton whose parsing is speculative in a
   TypeScript file (the parser has to look ahead / parse tentatively and possibly back off); the
   payload (non-terminal PL) is an expression that sits INSIDE the span of that speculation and
   itself starts a speculation (or does so once a filler is inserted at one of its slots).
   Speculation kinds (TypeScript's parser.ts names in brackets), each with an outcome
   "+" (the tentative reading is taken) or "-" (the parser has to back off to the plain reading):
     QC  arrow return type between "?" and ":"      [parseParenthesizedArrowFunctionExpression with allowReturnTypeInArrowFunction = false]
     RT  arrow return type "(a): T =>"              [parsePossibleParenthesizedArrowFunctionExpression]
     TA  type arguments in an expression            [parseTypeArgumentsInExpression + canFollowTypeArgumentsInExpression]
     TP  "<" at the start of an expression: type parameters of a generic arrow, or a cast
     AA  arrow parameters vs parenthesised expression / async call (the JavaScript cover grammar)
     FA  "(" in a type: parameters of a function type vs parenthesised type   [isStartOfFunctionTypeOrConstructorType]
     IC  "infer U extends C" vs the check type of a conditional type           [tryParseConstraintOfInferType]
     JSX an expression container inside a JSX attribute (tsx)
   Production flags "o:K" (contexts) and "i:K" (payloads) are labels that hold for the skeleton
   itself; slot kinds add a label when they are filled (SlotLabel); type forms carry "s:K" labels. *)
Nest(nt) ==
  CASE nt = "Prog" -> {P("c-qc-alt", {"amb", "o:QC-"}, <<"x", "=", "a", "?", "TB", ":", "c", "=>", "PL", ";">>),
                       P("c-qc-alt-curried", {"amb", "o:QC-"}, <<"x", "=", "a", "?", "(", "b", ")", ":", "c", "=>", "d", "=>", "PL", ";">>),
                       P("c-qc-alt-default", {"amb", "o:QC-", "o:AA+"}, <<"x", "=", "a", "?", "(", "b", ")", ":", "(", "c", "=", "PL", ")", "=>", "c", ";">>),
                       P("c-qc-alt-async", {"amb", "o:QC-"}, <<"x", "=", "a", "?", "(", "b", ")", ":", "async", "c", "=>", "PL", ";">>),
                       P("c-qc-then", {"amb", "o:QC+"}, <<"x", "=", "a", "?", "(", "b", ")", "@retq", "=>", "PL", ":", "e", ";">>),
                       P("c-rt-case", {"amb", "o:RT-"}, <<"switch", "(", "k", ")", "{", "case", "(", "b", ")", ":", "PL", ";", "}">>),
                       P("c-ta-cmp", {"amb", "o:TA-"}, <<"x", "=", "g", "<", "(", "PL", ")", ">", "h", ";">>),
                       P("c-aa-default-arrow", {"amb", "o:AA+"}, <<"x", "=", "(", "b", "=", "PL", ")", "=>", "b", ";">>),
                       P("c-aa-assign-paren", {"amb", "o:AA-"}, <<"x", "=", "(", "b", "=", "PL", ")", ";">>),
                       P("c-aa-seq-paren", {"amb", "o:AA-"}, <<"x", "=", "(", "b", ",", "PL", ")", ";">>),
                       P("c-aa-async-arrow", {"amb", "o:AA+"}, <<"x", "=", "async", "(", "b", "=", "PL", ")", "=>", "b", ";">>),
                       P("c-aa-async-call", {"amb", "o:AA-"}, <<"x", "=", "async", "(", "b", "=", "PL", ")", ";">>),
                       P("c-tp-generic-default", {"amb", "o:TP+"}, <<"x", "=", "@tpa", "(", "b", "=", "PL", ")", "=>", "b", ";">>),
                       P("c-jsx-attr", {"amb", "jsx", "o:JSX"}, <<"x", "=", "<", "C", "f", "=", "{", "PL", "}", "/>", ";">>),
                       (* plain JavaScript that the unchanged tree rejects under the ts loader (known findings) *)
                       P("c-qc-alt-assign-paren", {"amb"}, <<"x", "=", "a", "?", "b", "=", "(", "c", ")", ":", "d", "=>", "e", "@post", ";">>),
                       P("c-qc-alt-arrow-paren", {"amb"}, <<"x", "=", "a", "?", "y", "=>", "(", "c", ")", ":", "d", "=>", "e", "@post", ";">>),
                       (* TypeScript itself reads "(b): c =>" as the head of an arrow function with a return type here *)
                       P("c-rt-case-arrow", {"amb", "tsdiff"}, <<"switch", "(", "k", ")", "{", "case", "(", "b", ")", ":", "c", "=>", "d", ";", "}">>)}
    [] nt = "TB" -> {P("tb-paren", {}, <<"(", "b", ")">>), P("tb-paren-assign", {}, <<"(", "b", "=", "d", ")">>),
                     P("tb-paren-seq", {}, <<"(", "b", ",", "d", ")">>), P("tb-paren-post", {}, <<"(", "b", "@post", ")">>)}
    [] nt = "PL" -> {P("p-call", {}, <<"f", "@ta", "(", "y", "@postn", ")">>),
                     P("p-new", {}, <<"new", "C", "@ta", "(", "y", ")">>),
                     P("p-tagged", {}, <<"f", "@ta", "`t${", "y", "}u`">>),
                     P("p-cmp", {"i:TA-"}, <<"y", "<", "z", ">", "w", "@nn">>),
                     P("p-arrow", {"i:AA+"}, <<"@tpa", "(", "y", ")", "@reta", "=>", "y">>),
                     P("p-arrow-default", {"i:AA+"}, <<"(", "y", "=", "z", ")", "@reta", "=>", "y">>),
                     P("p-cast", {}, <<"@cast", "y">>),
                     P("p-cond-alt", {"i:QC-"}, <<"y", "?", "(", "z", ")", ":", "w", "=>", "w", "@nn">>),
                     P("p-cond-alt-paren", {"i:QC-"}, <<"(", "y", "?", "(", "z", ")", ":", "w", "=>", "w", "@nn", ")">>),
                     P("p-cond-then", {"i:AA+"}, <<"y", "?", "(", "z", ")", "@retq", "=>", "w", ":", "v">>),
                     P("p-case", {"i:RT-"}, <<"(", ")", "=>", "{", "switch", "(", "y", ")", "{", "case", "(", "z", ")", ":", "w", "@nn", ";", "}", "}">>),
                     P("p-paren-assign", {"i:AA-"}, <<"(", "y", "=", "z", "@nn", ")">>),
                     P("p-async-call", {"i:AA-"}, <<"async", "(", "y", "@nn", ")">>),
                     P("p-async-arrow", {"i:AA+"}, <<"async", "@tpa", "(", "y", ")", "@retasynca", "=>", "y">>),
                     P("p-as", {}, <<"y", "@postn">>)}
(* combinations that TypeScript itself reads differently from JavaScript: the nested conditional's
   "(z) : w => w" is followed by ":" and therefore an arrow function with a return type *)
TsDiffCombos == {{"c-qc-then", "p-cond-alt"}}

(* a small file tree: type-only imports/exports across files (bundle mode) *)
Bundle(nt) ==
  CASE nt = "Prog" -> {P("b-import-named", {"mod"}, <<"<FILE entry.ts>", "import", "{", "v", "@cimp", "}", "from", "'./lib'", ";", "@cuse", "console", ".", "log", "(", "v", "@post", ")", ";",
                                                     "<FILE lib.ts>", "@cstmt", "export", "const", "v", "@annv", "=", "1", ";", "@cstmt", "<FILE other.ts>", "export", "const", "Other", "=", "2", ";">>),
                       P("b-reexport", {"mod"}, <<"<FILE entry.ts>", "export", "{", "v", "@cimp", "}", "from", "'./lib'", ";", "@cuse",
                                                  "<FILE lib.ts>", "@cstmt", "export", "const", "v", "@annv", "=", "1", ";", "@cstmt", "<FILE other.ts>", "export", "const", "Other", "=", "2", ";">>),
                       P("b-import-export", {"mod"}, <<"<FILE entry.ts>", "import", "{", "v", "@cimp", "}", "from", "'./lib'", ";", "@cuse", "export", "{", "v", "}", ";",
                                                       "<FILE lib.ts>", "@cstmt", "export", "function", "v", "@tp", "(", ")", "@ret", "{", "return", "1", ";", "}", "@cstmt",
                                                       "<FILE other.ts>", "export", "const", "Other", "=", "2", ";">>)}

NonTerminalsOf(g) ==
  CASE g = "decl" -> {"Prog", "K", "E"}
    [] g = "fn" -> {"Prog", "Params", "ParamsA"}
    [] g = "class" -> {"Prog", "Her", "Her1", "Mem", "MemS", "Mem2", "Params1"}
    [] g = "expr" -> {"Prog"}
    [] g = "cmp" -> {"Prog", "W", "W2"}
    [] g = "module" -> {"Prog"}
    [] g = "jsx" -> {"Prog"}
    [] g = "bundle" -> {"Prog"}
    [] g = "nest" -> {"Prog", "TB", "PL"}
AllFamilies == {"decl", "fn", "class", "expr", "cmp", "module", "jsx", "bundle", "nest"}
ProdsOf(g, nt) ==
  CASE g = "decl" -> Decl(nt) [] g = "fn" -> Fn(nt) [] g = "class" -> Class(nt) [] g = "expr" -> Expr(nt)
    [] g = "cmp" -> Cmp(nt) [] g = "module" -> Module(nt) [] g = "jsx" -> Jsx(nt) [] g = "bundle" -> Bundle(nt) [] g = "nest" -> Nest(nt)
ProdTable == [g \in AllFamilies |-> [nt \in NonTerminalsOf(g) |-> ProdsOf(g, nt)]]
AllProdsOf == [g \in AllFamilies |-> UNION {ProdTable[g][nt] : nt \in NonTerminalsOf(g)}]
ProdFlags(g, names) == UNION {p.fl : p \in {q \in AllProdsOf[g] : q.name \in names}}


(* ---------------------------------------------------- speculation labels *)
OLabels == {"o:QC-", "o:QC+", "o:RT-", "o:TA-", "o:AA+", "o:AA-", "o:TP+", "o:JSX"}
ILabels == {"i:TA+", "i:TA-", "i:TP+", "i:TP-", "i:RT+", "i:RT-", "i:QC+", "i:QC-", "i:AA+", "i:AA-"}
SlotLabel(k) == CASE k \in {"@ta", "@tai"} -> "i:TA+" [] k = "@tpa" -> "i:TP+" [] k = "@cast" -> "i:TP-"
                  [] k \in {"@reta", "@retpa", "@retasynca"} -> "i:RT+" [] k = "@retq" -> "i:QC+" [] OTHER -> ""
(* outer labels that hold only once the context's own slot of that kind is filled *)
Activator(o) == CASE o = "o:QC+" -> "@retq" [] o = "o:TP+" -> "@tpa" [] OTHER -> ""
PayloadProds(u) == {q \in ProdTable["nest"]["PL"] : q.name \in u}
(* the positions of the payload inside the frozen form (payload identifiers y z w v do not occur in contexts) *)
Region(f, u) ==
  IF PayloadProds(u) = {} THEN {}
  ELSE LET r == (CHOOSE q \in PayloadProds(u) : TRUE).rhs
           i == CHOOSE j \in 1..(Len(f) - Len(r) + 1) : SubSeq(f, j, j + Len(r) - 1) = r
       IN i..(i + Len(r) - 1)
OuterLabels(f, u, I) ==
  LET reg == Region(f, u) IN
  {o \in ProdFlags("nest", u) \cap OLabels : Activator(o) = "" \/ \E i \in I : i.pos \notin reg /\ i.kind = Activator(o)}
InnerLabels(f, u, I) ==
  LET reg == Region(f, u)
      inner == {i \in I : i.pos \in reg}
  IN (UNION {q.fl : q \in PayloadProds(u)} \cap ILabels)
     \cup ({SlotLabel(i.kind) : i \in inner} \ {""})
     \cup UNION {i.fl \cap SLabels : i \in inner}
(* type-level nesting: a type form with an "s:" label inside a slot whose kind starts a speculation; "n:" labels of nested type forms *)
TypeLevelPairs(I) == UNION {{<<SlotLabel(i.kind), l>> : l \in i.fl \cap SLabels} : i \in {j \in I : SlotLabel(j.kind) # ""}}

NTOf == [g \in AllFamilies |-> NonTerminalsOf(g)]
Leftmost(g, f) == IF \E i \in 1..Len(f) : f[i] \in NTOf[g]
                  THEN CHOOSE i \in 1..Len(f) : f[i] \in NTOf[g] /\ \A j \in 1..(i - 1) : f[j] \notin NTOf[g]
                  ELSE 0
NTerminals(g, f) == Cardinality({i \in 1..Len(f) : f[i] \notin NTOf[g]})

(* ------------------------------------------------------------- the machine *)
V(tok) == [t |-> tok, s |-> "v"]
T(tok) == [t |-> tok, s |-> "t"]
TagSeq(toks, tag) == [i \in 1..Len(toks) |-> [t |-> toks[i], s |-> tag]]

Strip(f) == SelectSeq(f, LAMBDA x : ~IsSlot(x))              \* the skeleton: the form without slot markers
Erase(ty) == LET vs == SelectSeq(ty, LAMBDA x : x.s = "v") IN [i \in 1..Len(vs) |-> vs[i].t]

SlotPositions(f) == {i \in 1..Len(f) : IsSlot(f[i])}
Base(f, p) == Cardinality({i \in 1..(p - 1) : ~IsSlot(f[i])})   \* skeleton tokens before position p
RECURSIVE SumLen(_)
SumLen(S) == IF S = {} THEN 0 ELSE LET x == CHOOSE y \in S : TRUE IN x.len + SumLen(S \ {x})
Offset(f, I, p) == Base(f, p) + SumLen({i \in I : i.pos < p})

(* the canonical interleaving, independent of the order of insertion *)
RECURSIVE Render(_, _, _)
Render(f, I, k) ==
  IF k > Len(f) THEN <<>>
  ELSE (IF IsSlot(f[k])
        THEN (IF \E i \in I : i.pos = k
              THEN LET i == CHOOSE j \in I : j.pos = k
                       fl == CHOOSE g \in FillerTable[f[k]] : g.name = i.name
                   IN TagSeq(fl.toks, "t")
              ELSE <<>>)
        ELSE <<V(f[k])>>) \o Render(f, I, k + 1)

Given == {i.gives : i \in ins}

Init == /\ fam \in Families /\ phase = "derive" /\ form = <<"Prog">> /\ used = {} /\ ins = {} /\ typed = <<>> /\ exported = FALSE

Derive ==
  LET i == Leftmost(fam, form) IN
  /\ phase = "derive" /\ i > 0
  /\ \E p \in ProdTable[fam][form[i]] :
       /\ form' = SubSeq(form, 1, i - 1) \o p.rhs \o SubSeq(form, i + 1, Len(form))
       /\ used' = used \cup {p.name}
       /\ NTerminals(fam, form') <= MaxLen
  /\ UNCHANGED <<fam, phase, ins, typed, exported>>

Freeze ==
  /\ phase = "derive" /\ Leftmost(fam, form) = 0
  /\ phase' = "insert"
  /\ typed' = TagSeq(Strip(form), "v")
  /\ UNCHANGED <<fam, form, used, ins, exported>>

RichOK(f) ==
  LET nr == Cardinality({i \in ins : "rich" \in i.fl /\ ~i.dep})
  IN IF f.needs # "" THEN TRUE
     ELSE IF "rich" \in f.fl THEN nr = 0 /\ (IF RichMode = 2 THEN TRUE ELSE IF RichMode # 1 THEN FALSE ELSE IF ins = {} THEN TRUE
                                              \* family "nest": a labelled type form in the payload together with the (core) activator of the context
                                              ELSE (fam = "nest" /\ f.fl \cap SLabels # {}))
     ELSE (nr = 0 \/ RichMode = 2)

MaxInsOf(g) == IF g = "nest" /\ NestIns > MaxIns THEN NestIns ELSE MaxIns
(* family "nest", second insertion: one insertion activates the context (a slot outside the payload whose filling
   turns the context into its speculative "+" reading), the other one lies inside the payload *)
NestPairOK(p) ==
  IF ins = {} THEN TRUE ELSE IF fam # "nest" THEN TRUE ELSE IF MaxInsOf(fam) = MaxIns THEN TRUE
  ELSE LET reg == Region(form, used)
           act(q) == q \notin reg /\ form[q] \in {"@retq", "@tpa"}
       IN \A i \in ins : IF act(i.pos) THEN p \in reg ELSE (act(p) /\ i.pos \in reg)
(* a skeleton that TypeScript itself reads differently from JavaScript has no typed counterparts *)
TsDiff == "tsdiff" \in ProdFlags(fam, used) \/ \E c \in TsDiffCombos : c \subseteq used
Insert ==
  /\ phase = "insert" /\ exported /\ ~TsDiff
  /\ \E p \in SlotPositions(form) :
       /\ ~\E i \in ins : i.pos = p
       /\ \E f \in FillerTable[form[p]] :
            /\ RichOK(f)
            /\ IF f.needs = "" THEN Cardinality({i \in ins : ~i.dep}) < MaxInsOf(fam) /\ NestPairOK(p)
                                ELSE f.needs \in Given /\ Cardinality({i \in ins : i.dep}) < MaxDep
            /\ LET off == Offset(form, ins, p) IN
               /\ typed' = SubSeq(typed, 1, off) \o TagSeq(f.toks, "t") \o SubSeq(typed, off + 1, Len(typed))
               /\ ins' = ins \cup {[pos |-> p, kind |-> form[p], name |-> f.name, fl |-> f.fl, len |-> Len(f.toks), gives |-> f.gives, dep |-> f.needs # ""]}
  /\ exported' = FALSE
  /\ UNCHANGED <<fam, phase, form, used>>

Amb == (\E i \in ins : "amb" \in i.fl \/ i.kind \in AmbKinds)
Export ==
  /\ phase = "insert" /\ ~exported
  /\ exported' = TRUE
  /\ PrintT(<<"CASE", ToJson([fam |-> fam, toks |-> [i \in 1..Len(typed) |-> typed[i].t],
                              prods |-> used, pfl |-> ProdFlags(fam, used) \cup (IF TsDiff THEN {"tsdiff"} ELSE {}),
                              olab |-> IF fam = "nest" THEN OuterLabels(form, used, ins) ELSE {},
                              ilab |-> IF fam = "nest" THEN InnerLabels(form, used, ins) ELSE {},
                              tlab |-> TypeLevelPairs(ins), nlab |-> UNION {i.fl \cap NLabels : i \in ins},
                              ins |-> {[k |-> i.kind, f |-> i.name, p |-> i.pos, o |-> Offset(form, ins, i.pos), n |-> i.len] : i \in ins},
                              ifl |-> UNION {i.fl : i \in ins}, amb |-> Amb])>>)
  /\ UNCHANGED <<fam, phase, form, used, ins, typed>>

Next == Derive \/ Freeze \/ Insert \/ Export
Spec == Init /\ [][Next]_vars

(* ------------------------------------------------------------ properties *)
TypeOK == /\ fam \in Families /\ phase \in {"derive", "insert"} /\ exported \in BOOLEAN
          /\ \A i \in 1..Len(typed) : typed[i].s \in {"v", "t"}
(* the property of the model: erasing the type space gives back the JavaScript skeleton *)
EraseOK == phase = "insert" => Erase(typed) = Strip(form)
(* the typed text is a function of (skeleton, insertion set): insertions commute *)
RenderOK == phase = "insert" => typed = Render(form, ins, 1)
Bounded == /\ Cardinality({i \in ins : ~i.dep}) <= MaxInsOf(fam) /\ Cardinality({i \in ins : i.dep}) <= MaxDep
           /\ \A i, j \in ins : i.pos = j.pos => i = j
           /\ \A i \in ins : IsSlot(form[i.pos]) /\ form[i.pos] = i.kind
           /\ phase = "derive" => ins = {} /\ typed = <<>>
(* bracket balance inside the type space *)
Delta(tok) == IF tok \in {"(", "[", "{"} THEN 1 ELSE IF tok \in {")", "]", "}"} THEN -1 ELSE 0
RECURSIVE BalT(_, _, _)
(* type-space runs are balanced, never close more than they opened, and a value-space token never sits inside an open type-space bracket *)
BalT(ty, i, d) == IF d < 0 THEN FALSE
                  ELSE IF i > Len(ty) THEN d = 0
                  ELSE IF ty[i].s = "v" THEN d = 0 /\ BalT(ty, i + 1, 0)
                  ELSE BalT(ty, i + 1, d + Delta(ty[i].t))
RunsOK == phase = "insert" => BalT(typed, 1, 0)
(* action properties: an insertion only adds type-space tokens; the skeleton never changes after Freeze *)
InsertMonotone == [][phase = "insert" => /\ form' = form /\ ins \subseteq ins' /\ Len(typed') >= Len(typed)
                                         /\ Erase(typed') = Erase(typed)]_vars
(* every filler is balanced on its own (checked once, at constant level) *)
FillerBalanced(f) == BalT(TagSeq(f.toks, "t"), 1, 0)
ASSUME \A k \in SlotKinds : \A f \in FillerTable[k] : FillerBalanced(f) /\ Len(f.toks) > 0
(* filler names are unique within a slot kind *)
ASSUME \A k \in SlotKinds : Cardinality({f.name : f \in FillerTable[k]}) = Cardinality(FillerTable[k])
ASSUME Families \subseteq AllFamilies
(* nested speculation: the grammar inhabits every ordered pair (outer kind, inner kind).  Every context contains the
   payload non-terminal, so contexts x payloads is a full product; every outer label is carried by a context, every
   inner label by a payload production (as a flag of the skeleton, or through a slot kind with that label, or -- the
   type-level labels -- through a type form that the fillers of a payload slot / of "@retq" contain) *)
NestCtx == {q \in ProdTable["nest"]["Prog"] : q.fl \cap OLabels # {}}
CanCarry(q, l) == l \in q.fl \/ \E j \in 1..Len(q.rhs) : IsSlot(q.rhs[j]) /\ (SlotLabel(q.rhs[j]) = l \/ \E f \in FillerTable[q.rhs[j]] : l \in f.fl)
ASSUME \A q \in NestCtx : \E j \in 1..Len(q.rhs) : q.rhs[j] = "PL"
ASSUME \A o \in OLabels : \E q \in NestCtx : o \in q.fl /\ (Activator(o) = "" \/ \E j \in 1..Len(q.rhs) : q.rhs[j] = Activator(o))
ASSUME \A l \in ILabels : \E q \in ProdTable["nest"]["PL"] : CanCarry(q, l)
ASSUME \A l \in SLabels : \E f \in FillerTable["@retq"] : l \in f.fl
ASSUME \A l \in NLabels : \E f \in FillerTable["@retq"] : l \in f.fl
ASSUME \A t \in EveryType : \A l \in t.fl : l \in {"rich", "amb"} \cup SLabels \cup NLabels
RequiredPairs == {<<o, i>> : o \in OLabels, i \in ILabels \cup SLabels} \ {<<"o:JSX", "i:TP-">>}   \* a cast "<T>y" is not valid in a .tsx file
ASSUME PrintT(<<"CASE", ToJson([allprods |-> [g \in Families |-> {p.name : p \in AllProdsOf[g]}],
                                kinds |-> [k \in SlotKinds |-> {f.name : f \in FillerTable[k]}],
                                reqpairs |-> IF "nest" \in Families THEN RequiredPairs ELSE {},
                                reqtype |-> IF "nest" \in Families THEN {<<"i:QC+", l>> : l \in SLabels} ELSE {},
                                reqnested |-> IF "nest" \in Families THEN NLabels ELSE {}])>>)
=============================================================================
