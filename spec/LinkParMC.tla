----------------------------- MODULE LinkParMC -----------------------------
(***************************************************************************)
(* Model-checking wrapper of LinkPar: input families and the export of     *)
(* input cases and schedules (CASE lines read by harness/props/c08).       *)
(***************************************************************************)
EXTENDS LinkPar, Json

\* property families: p, q, r are to-be-mangled properties (p_, q_, r_ in the real project)
PropsNone  == {<<>>}
PropsSmall == {<<>>, <<"p">>, <<"q", "p">>}
PropsMid   == {<<>>, <<"p">>, <<"q", "p">>, <<"r", "q">>}
PropsBig   == {<<>>, <<"p">>, <<"q">>, <<"p", "q">>, <<"q", "p">>, <<"r", "q">>, <<"r", "p", "q">>}
\* local CSS names: the same class name in different entry points collides
CssNone  == {<<>>}
CssSmall == {<<>>, <<"x">>}
CssMid   == {<<>>, <<"x">>, <<"y", "x">>}
PresetNone == {{}}
PresetSome == {{}, {<<"p", 1>>}, {<<"s", 0>>}}   \* s: a cached property that no entry point uses
MsgNone == {[pre |-> 0, post |-> 0]}
MsgPre  == {[pre |-> 2, post |-> 0]}
MsgBoth == {[pre |-> 2, post |-> 3]}
\* messages with distinct keys per linker are produced by giving linker i the key base + i
MsgAll  == {[pre |-> 0, post |-> 0], [pre |-> 1, post |-> 2], [pre |-> 2, post |-> 1], [pre |-> 3, post |-> 0]}

ModesBoth == {"plain", "minify"}
ModesPlain == {"plain"}

\* one CASE line per input (Control = {}: the final state of an input is unique, see Determinism)
Arr(f) == [k \in 1 .. N |-> f[k - 1]]
ExportInputs ==
  AllDone => PrintT(<<"CASE", ToJson([kind |-> "input", n |-> N, props |-> Arr(props), css |-> Arr(css), path |-> Arr(path),
                                      preset |-> preset, cssMode |-> cssMode,
                                      cache |-> cache, joined |-> Joined])>>)
\* one CASE line per complete schedule
ExportSched ==
  AllDone => PrintT(<<"CASE", ToJson([kind |-> "sched", n |-> N, hist |-> hist, log |-> [k \in 1 .. Len(log) |-> <<log[k].i, log[k].seg>>]])>>)
=============================================================================
