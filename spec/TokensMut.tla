----------------------------- MODULE TokensMut -----------------------------
(***************************************************************************)
(* C16 part (ii)(b): the mutation machine.  The state is a seed input,     *)
(* abstracted to its length in tokens (the seeds themselves are test       *)
(* inputs of the repository and strings exported by other specifications;  *)
(* the harness tokenises them and tells the model which lengths occur),    *)
(* and the script of mutations applied so far.  Every action is one        *)
(* mutation whose operands are positions that are valid AT THAT POINT of   *)
(* the script; the model tracks how each mutation changes the length.      *)
(*                                                                         *)
(* `tlc -simulate` produces random scripts of depth <= MaxDepth; every     *)
(* state of every walk is a well-formed script and is exported with the    *)
(* lengths the model predicts after each step.  The harness applies the    *)
(* script to real seeds of length len0 and must observe the same lengths   *)
(* (a disagreement is spec drift, not a verdict).                          *)
(*                                                                         *)
(* Exhaustive checking for small constants (TokensMut.small.cfg) verifies  *)
(* the invariants on every script, not only on sampled ones.               *)
(***************************************************************************)
EXTENDS Integers, Sequences, FiniteSets, TLC, Json

CONSTANTS SeedLens,    \* set of seed lengths (tokens) that occur
          MaxDepth,    \* bound on the number of mutations in a script
          MaxTokens,   \* bound on the length of a mutated input (tokens)
          NTok,        \* number of tokens that InsertToken may insert (indices into the seed's alphabet)
          NNest,       \* number of nesting kinds for NestDeeper
          NestDepths,  \* set of nesting depths
          NCorrupt,    \* number of invalid-UTF-8 byte patterns
          Sample       \* TRUE: second operands are drawn at random (simulation); FALSE: all of them

VARIABLES len0,    \* length of the seed
          len,     \* current length
          script,  \* sequence of mutations [op, i, j, v, d]
          lens     \* length after each mutation (history)
vars == <<len0, len, script, lens>>

Op(o, i, j, v) == [op |-> o, i |-> i, j |-> j, v |-> v, d |-> 0]

(* second operands: all of S, or one random element of S (balanced fan-out in simulation) *)
Pick(S) == IF Sample /\ S # {} THEN {RandomElement(S)} ELSE S

Init == len0 \in SeedLens /\ len = len0 /\ script = <<>> /\ lens = <<>>

Step(o, newLen) ==
  /\ Len(script) < MaxDepth
  /\ newLen >= 1 /\ newLen <= MaxTokens
  /\ script' = Append(script, o)
  /\ len' = newLen
  /\ lens' = Append(lens, newLen)
  /\ UNCHANGED len0

(* remove token i *)
Delete == \E i \in 1..len : Step(Op("Delete", i, 0, 0), len - 1)
(* insert a copy of tokens i..j after token j *)
Duplicate == \E i \in 1..len : \E j \in Pick(i..len) : Step(Op("Duplicate", i, j, 0), len + (j - i + 1))
(* exchange tokens i and j *)
Swap == \E i \in 1..(len - 1) : \E j \in Pick((i + 1)..len) : Step(Op("Swap", i, j, 0), len)
(* keep only the first i tokens *)
Truncate == \E i \in 1..(len - 1) : Step(Op("Truncate", i, 0, 0), i)
(* insert token number v of the alphabet after token i (i = 0: at the front) *)
InsertToken == \E i \in 0..len : \E v \in Pick(1..NTok) : Step(Op("InsertToken", i, 0, v), len + 1)
(* wrap tokens i..j in j-deep nesting of kind v: an opener run and a closer run, one token each *)
NestDeeper == \E i \in 1..len : \E j \in Pick(i..len) : \E v \in Pick(1..NNest) : \E d \in Pick(NestDepths) :
                 Step([op |-> "NestDeeper", i |-> i, j |-> j, v |-> v, d |-> d], len + 2)
(* replace a byte of token i by invalid UTF-8 pattern v *)
CorruptUtf8 == \E i \in 1..len : \E v \in Pick(1..NCorrupt) : Step(Op("CorruptUtf8", i, 0, v), len)
(* insert a NUL byte into token i *)
InsertNul == \E i \in 1..len : Step(Op("InsertNul", i, 0, 0), len)

Next == Delete \/ Duplicate \/ Swap \/ Truncate \/ InsertToken \/ NestDeeper \/ CorruptUtf8 \/ InsertNul
Spec == Init /\ [][Next]_vars

(* ---------------------------------------------------------------- checks *)
OpNames == {"Delete", "Duplicate", "Swap", "Truncate", "InsertToken", "NestDeeper", "CorruptUtf8", "InsertNul"}

TypeOK == /\ len0 \in SeedLens /\ len \in 1..MaxTokens
          /\ Len(script) = Len(lens) /\ Len(script) <= MaxDepth
          /\ \A k \in 1..Len(script) : script[k].op \in OpNames

(* the length before mutation k *)
Before(k) == IF k = 1 THEN len0 ELSE lens[k - 1]

(* independent re-computation: every operand of every mutation is a valid position of the input as it
   is when the mutation is applied, and the recorded lengths follow from the mutations *)
StepOK(k) ==
  LET o == script[k]  b == Before(k)  a == lens[k] IN
  CASE o.op = "Delete"      -> o.i \in 1..b /\ a = b - 1 /\ a >= 1
    [] o.op = "Duplicate"   -> o.i \in 1..b /\ o.j \in o.i..b /\ a = b + (o.j - o.i + 1)
    [] o.op = "Swap"        -> o.i \in 1..b /\ o.j \in 1..b /\ o.i < o.j /\ a = b
    [] o.op = "Truncate"    -> o.i \in 1..(b - 1) /\ a = o.i
    [] o.op = "InsertToken" -> o.i \in 0..b /\ o.v \in 1..NTok /\ a = b + 1
    [] o.op = "NestDeeper"  -> o.i \in 1..b /\ o.j \in o.i..b /\ o.v \in 1..NNest /\ o.d \in NestDepths /\ a = b + 2
    [] o.op = "CorruptUtf8" -> o.i \in 1..b /\ o.v \in 1..NCorrupt /\ a = b
    [] o.op = "InsertNul"   -> o.i \in 1..b /\ a = b
WellFormed == /\ \A k \in 1..Len(script) : StepOK(k) /\ lens[k] \in 1..MaxTokens
              /\ len = (IF script = <<>> THEN len0 ELSE lens[Len(script)])

(* a script is only ever extended at its end *)
ScriptGrows == [][/\ Len(script') = Len(script) + 1 /\ SubSeq(script', 1, Len(script)) = script
                  /\ SubSeq(lens', 1, Len(lens)) = lens /\ len0' = len0]_vars

Export == (script # <<>>) => PrintT(<<"CASE", ToJson([len0 |-> len0, script |-> script, lens |-> lens])>>)
=============================================================================
