-------------------------------- MODULE JsJsx --------------------------------
(***************************************************************************)
(* JSX elements as data, with the two reference desugarings (the classic   *)
(* transform: React.createElement(tag, props, ...children); the automatic  *)
(* runtime: jsx / jsxs(tag, {props, children}) from "react/jsx-runtime")   *)
(* transcribed from the JSX specification and the React JSX-transform RFC, *)
(* not from esbuild.  JSX text and JSX attribute strings have NO backslash *)
(* escapes, HTML entities are decoded, lines of JSX text are trimmed and   *)
(* joined with one space.  The predicted S-expression is compared with     *)
(* acorn's reading of esbuild's output; acorn cannot read JSX, so there is *)
(* no cross-validation of the INPUT for this family (spec-only oracle).    *)
(***************************************************************************)
EXTENDS Integers, Sequences, FiniteSets, TLC, Json, SequencesExt

CONSTANTS NParts,
          Keep,   \* 1 = every case; n > 1 = the covering part (every attribute list and every child list once per tag) + every n-th other case
          Seed    \* offset of the slice (VERIF_SEED)
VARIABLES cs, done
vars == <<cs, done>>

(* text classes: source spelling (ASCII text, or raw code units) and the decoded value as hex code units *)
TC(n, txt, raw, hex) == [name |-> n, txt |-> txt, raw |-> raw, hex |-> hex]
TextClasses == {
  TC("letter", "t", <<>>, "0074"),
  TC("entity-amp", "&amp;", <<>>, "0026"),
  TC("entity-nbsp", "&nbsp;", <<>>, "00a0"),
  TC("entity-hex", "&#x41;", <<>>, "0041"),
  TC("entity-dec-astral", "&#128512;", <<>>, "d83d.de00"),
  TC("entity-unknown", "&foo;", <<>>, "0026.0066.006f.006f.003b"),
  TC("entity-lt-script", "&lt;/script", <<>>, "003c.002f.0073.0063.0072.0069.0070.0074"),
  TC("dquote", "\"", <<>>, "0022"),
  TC("squote", "'", <<>>, "0027"),
  TC("backslash-n", "\\n", <<>>, "005c.006e"),
  TC("backslash-u", "\\u0041", <<>>, "005c.0075.0030.0030.0034.0031"),
  TC("raw-latin1", "", <<233>>, "00e9"),
  TC("raw-astral", "", <<55357, 56832>>, "d83d.de00"),
  TC("raw-ls", "", <<8232>>, "2028"),
  TC("multi-line", "t\n   u", <<>>, "0074.0020.0075"),
  TC("dollar-brace", "${", <<>>, "0024.007b") }
(* inside a double-quoted attribute value a raw " cannot occur; `{` and `}` and `>` are not special there *)
AttrTextClasses == {c \in TextClasses : c.name \notin {"dquote", "multi-line"}}
(* JSX text cannot contain { } < > raw.  U+2028 in JSX text is left out: whether it counts as a line break *)
(* for the whitespace trimming is not specified (Babel keeps it, TypeScript and esbuild trim it)            *)
ChildTextClasses == {c \in TextClasses : c.name \notin {"dollar-brace", "raw-ls"}}

Tags == {"a", "a-b", "A", "A.B", "frag"}
TagSrc(t) == IF t = "frag" THEN "" ELSE t
TagSx(t) ==
  CASE t = "a" -> "(str 0061)"
    [] t = "a-b" -> "(str 0061.002d.0062)"
    [] t = "A" -> "(id A)"
    [] t = "A.B" -> "(dot (id A) B)"
    [] t = "frag" -> "FRAGMENT"      \* React.Fragment (classic) / Fragment (automatic): filled in below

(* attributes *)
Attrs ==
  {<<>>} \cup {<<<<"str", c.name>>>> : c \in AttrTextClasses}
  \cup {<< <<"expr">> >>, << <<"bool">> >>, << <<"spread">> >>, << <<"spread">>, <<"str", "letter">> >>, << <<"str", "letter">>, <<"spread">> >>,
        << <<"expr">>, <<"bool">> >>, << <<"dashed">> >>}
TextClass(n) == CHOOSE c \in TextClasses : c.name = n

Pc(txt, raw) == [txt |-> txt, raw |-> raw]
AttrSrc(a) ==
  CASE a[1] = "str" -> LET c == TextClass(a[2]) IN <<Pc(" p=\"", <<>>), Pc(c.txt, c.raw), Pc("\"", <<>>)>>
    [] a[1] = "expr" -> <<Pc(" q={y}", <<>>)>>
    [] a[1] = "bool" -> <<Pc(" r", <<>>)>>
    [] a[1] = "spread" -> <<Pc(" {...z}", <<>>)>>
    [] a[1] = "dashed" -> <<Pc(" data-s='v'", <<>>)>>
AttrSx(a) ==
  CASE a[1] = "str" -> "(prop (key p) (str " \o TextClass(a[2]).hex \o "))"
    [] a[1] = "expr" -> "(prop (key q) (id y))"
    [] a[1] = "bool" -> "(prop (key r) (bool true))"
    [] a[1] = "spread" -> "(spread (id z))"
    [] a[1] = "dashed" -> "(prop (skey 0064.0061.0074.0061.002d.0073) (str 0076))"

(* children: text (never two texts adjacent), {w}, a nested element <b/>, an empty container {} *)
Kid1 == {<<"text", c.name>> : c \in ChildTextClasses} \cup {<<"expr">>, <<"el">>, <<"empty">>, <<"nested-text">>}
KidSeqs ==
  ({<<>>} \cup {<<k>> : k \in Kid1}
   \cup {<<a, b>> : a \in {<<"text", "letter">>, <<"expr">>, <<"el">>, <<"empty">>, <<"text", "entity-nbsp">>}, b \in {<<"text", "letter">>, <<"expr">>, <<"el">>, <<"empty">>, <<"text", "raw-latin1">>}})
  \ {<<a, b>> : a \in {<<"text", "letter">>, <<"text", "entity-nbsp">>}, b \in {<<"text", "letter">>, <<"text", "raw-latin1">>}}
KidSrc(k) ==
  CASE k[1] = "text" -> LET c == TextClass(k[2]) IN <<Pc(c.txt, c.raw)>>
    [] k[1] = "expr" -> <<Pc("{w}", <<>>)>>
    [] k[1] = "el" -> <<Pc("<b/>", <<>>)>>
    [] k[1] = "nested-text" -> <<Pc("<b>t</b>", <<>>)>>
    [] k[1] = "empty" -> <<Pc("{}", <<>>)>>
(* mode: "classic" | "automatic" *)
ElemB(mode) == IF mode = "classic" THEN "(call (dot (id React) createElement) (str 0062) (null))" ELSE "(call (id jsx) (str 0062) (obj))"
ElemBT(mode) == IF mode = "classic" THEN "(call (dot (id React) createElement) (str 0062) (null) (str 0074))"
                ELSE "(call (id jsx) (str 0062) (obj (prop (key children) (str 0074))))"
KidSx(k, mode) ==
  CASE k[1] = "text" -> <<"(str " \o TextClass(k[2]).hex \o ")">>
    [] k[1] = "expr" -> <<"(id w)">>
    [] k[1] = "el" -> <<ElemB(mode)>>
    [] k[1] = "nested-text" -> <<ElemBT(mode)>>
    [] k[1] = "empty" -> <<>>

RECURSIVE Cat(_), JoinS(_)
Cat(ss) == IF Len(ss) = 0 THEN <<>> ELSE Head(ss) \o Cat(Tail(ss))
JoinS(ss) == IF Len(ss) = 0 THEN "" ELSE IF Len(ss) = 1 THEN ss[1] ELSE ss[1] \o " " \o JoinS(Tail(ss))

Case(t, as, ks) == [tag |-> t, attrs |-> as, kids |-> ks]
Cases == {Case(t, as, ks) : t \in Tags, as \in Attrs, ks \in KidSeqs} \ {Case("frag", as, ks) : as \in Attrs \ {<<>>}, ks \in KidSeqs}

Src(c) ==
  <<Pc("x = <" \o TagSrc(c.tag), <<>>)>> \o Cat([i \in 1..Len(c.attrs) |-> AttrSrc(c.attrs[i])])
  \o (IF Len(c.kids) = 0 /\ c.tag # "frag" THEN <<Pc(" />;", <<>>)>>
      ELSE <<Pc(">", <<>>)>> \o Cat([i \in 1..Len(c.kids) |-> KidSrc(c.kids[i])]) \o <<Pc("</" \o TagSrc(c.tag) \o ">;", <<>>)>>)

KidsSx(c, mode) == Cat([i \in 1..Len(c.kids) |-> KidSx(c.kids[i], mode)])
PropsSx(c) == [i \in 1..Len(c.attrs) |-> AttrSx(c.attrs[i])]

Classic(c) ==
  LET tag == IF c.tag = "frag" THEN "(dot (id React) Fragment)" ELSE TagSx(c.tag)
      props == IF Len(c.attrs) = 0 THEN "(null)" ELSE "(obj " \o JoinS(PropsSx(c)) \o ")"
      ks == KidsSx(c, "classic") IN
  "(prog (expr (asg = (id x) (call (dot (id React) createElement) " \o tag \o " " \o props
    \o (IF Len(ks) = 0 THEN "" ELSE " " \o JoinS(ks)) \o "))))"

Automatic(c) ==
  LET tag == IF c.tag = "frag" THEN "(id Fragment)" ELSE TagSx(c.tag)
      ks == KidsSx(c, "automatic")
      children == IF Len(ks) = 0 THEN <<>>
                  ELSE IF Len(ks) = 1 THEN <<"(prop (key children) " \o ks[1] \o ")">>
                  ELSE <<"(prop (key children) (arr " \o JoinS(ks) \o "))">>
      props == PropsSx(c) \o children
      fn == IF Len(ks) >= 2 THEN "jsxs" ELSE "jsx" IN
  "(expr (asg = (id x) (call (id " \o fn \o ") " \o tag \o " " \o (IF Len(props) = 0 THEN "(obj)" ELSE "(obj " \o JoinS(props) \o ")") \o ")))"

Labels(c) ==
  ({c.attrs[i][2] : i \in {j \in 1..Len(c.attrs) : c.attrs[j][1] = "str"}} \cup {c.kids[i][2] : i \in {j \in 1..Len(c.kids) : c.kids[j][1] = "text"}}
  \cup {c.attrs[i][1] : i \in {j \in 1..Len(c.attrs) : c.attrs[j][1] \in {"spread", "dashed", "bool"}}}
  \cup {c.kids[i][1] : i \in {j \in 1..Len(c.kids) : c.kids[j][1] \in {"empty", "el", "nested-text"}}}
  \cup (IF c.tag \in {"frag", "A.B", "a-b"} THEN {"tag-" \o c.tag} ELSE {}))
  \ {"letter"}

Rec(c) == [family |-> "jsx", tag |-> c.tag, src |-> Src(c), classic |-> Classic(c), automatic |-> Automatic(c), labels |-> Labels(c),
           nkids |-> Len(KidsSx(c, "classic"))]

(* quick sample: every tag x attribute list (no children) and every tag x child list (no attributes), plus a seeded slice of the products *)
Covering == {c \in Cases : c.attrs = <<>> \/ c.kids = <<>>}
Kept == IF Keep = 1 THEN Cases
        ELSE Covering \cup (LET Q == SetToSeq(Cases \ Covering) IN {Q[i] : i \in {j \in 1..Len(Q) : (j + Seed) % Keep = 0}})
ASSUME TLCSet(1, SetToSeq(Kept))
ASSUME PrintT(<<"NCASES", Len(TLCGet(1))>>)
Slice(k) == LET S == TLCGet(1) IN {S[i] : i \in {j \in 1..Len(S) : j % NParts = k - 1}}
Init == cs = 0 /\ done = "no"
Fan == cs = 0 /\ cs' \in 1..NParts /\ done' = done
(* model-level sanity: a fragment has no attributes; the number of child arguments never exceeds the children written *)
CaseOK(c) == /\ (c.tag = "frag" => Len(c.attrs) = 0)
             /\ Len(KidsSx(c, "classic")) <= Len(c.kids)
             /\ Len(KidsSx(c, "classic")) = Len(KidsSx(c, "automatic"))
Work == /\ cs > 0 /\ done = "no" /\ cs' = cs
        /\ LET sl == Slice(cs) IN
           /\ \A c \in sl : PrintT(<<"CASE", ToJson(Rec(c))>>)
           /\ done' = IF \A c \in sl : CaseOK(c) THEN "ok" ELSE "bad"
Next == Fan \/ Work
Spec == Init /\ [][Next]_vars
AllOK == done # "bad"
=============================================================================
