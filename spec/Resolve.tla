------------------------------ MODULE Resolve ------------------------------
(***************************************************************************)
(* Node's module resolution, transcribed from Node 20's documentation      *)
(* (api/esm.md "Resolution Algorithm Specification" and api/modules.md     *)
(* "All together"), NOT from esbuild.  Used by property C11 as generator   *)
(* (ResolveMC enumerates package trees and questions), coverage measure    *)
(* (every branch of the algorithm carries a label) and third vote next to  *)
(* real Node and real esbuild.                                             *)
(*                                                                         *)
(* Data model                                                              *)
(*   strings     TLC strings; Len, \o and SubSeq work on them, so the      *)
(*               algorithm's "starts with", "substring", "replace *" are   *)
(*               written literally, character by character                 *)
(*   paths       absolute strings "/a/b" below an abstract root "" (the    *)
(*               harness materialises the root as a scratch directory)     *)
(*   tree        [files, dirs : sets of paths, pj : dir -> package.json,   *)
(*               links : symlink path -> target path]                      *)
(*   JSON value  tagged record [k, s, ks, vs]: k in str|null|num|undef|    *)
(*               arr|obj; objects keep their keys as a SEQUENCE (insertion *)
(*               order matters to PACKAGE_TARGET_RESOLVE)                  *)
(*   result      [t, v, b, scope, key]: t = "file" (v = real path) |       *)
(*               "err" (v = error class) | intermediate "url"/"null"/      *)
(*               "undef"; b = set of branch labels taken; scope = package  *)
(*               directory of the last relative target; key = matched      *)
(*               exports/imports key                                       *)
(*                                                                         *)
(* DRIFT-FIX marks where real Node 20 differs from the documented text:    *)
(* legacy main probing, null item of a fallback array (known, confirmed by *)
(* the comparison), empty path segment (found by the SPEC-DRIFT comparison)*)
(***************************************************************************)
EXTENDS Integers, Sequences, FiniteSets, TLC

-----------------------------------------------------------------------------
(* strings *)

Ch(s, i) == SubSeq(s, i, i)
StartsWith(s, p) == Len(s) >= Len(p) /\ SubSeq(s, 1, Len(p)) = p
EndsWith(s, p) == Len(s) >= Len(p) /\ SubSeq(s, Len(s) - Len(p) + 1, Len(s)) = p
DropFirst(s, n) == SubSeq(s, n + 1, Len(s))

RECURSIVE IndexFrom(_, _, _)
IndexFrom(s, c, i) ==
  IF i > Len(s) THEN 0 ELSE IF Ch(s, i) = c THEN i ELSE IndexFrom(s, c, i + 1)
IndexOf(s, c) == IndexFrom(s, c, 1)          \* 0 = not found
StrContains(s, c) == IndexOf(s, c) # 0

RECURSIVE CountFrom(_, _, _)
CountFrom(s, c, i) ==
  IF i > Len(s) THEN 0 ELSE (IF Ch(s, i) = c THEN 1 ELSE 0) + CountFrom(s, c, i + 1)
CountOf(s, c) == CountFrom(s, c, 1)

RECURSIVE SplitFrom(_, _, _, _)
SplitFrom(s, c, i, start) ==
  IF i > Len(s) THEN << SubSeq(s, start, Len(s)) >>
  ELSE IF Ch(s, i) = c
       THEN << SubSeq(s, start, i - 1) >> \o SplitFrom(s, c, i + 1, i + 1)
       ELSE SplitFrom(s, c, i + 1, start)
Split(s, c) == SplitFrom(s, c, 1, 1)

RECURSIVE StrReplaceFrom(_, _, _, _)
StrReplaceFrom(s, c, r, i) ==
  IF i > Len(s) THEN ""
  ELSE (IF Ch(s, i) = c THEN r ELSE Ch(s, i)) \o StrReplaceFrom(s, c, r, i + 1)
StrReplaceAll(s, c, r) == StrReplaceFrom(s, c, r, 1)

\* index of the n-th occurrence of c (0 = none)
RECURSIVE NthIndexFrom(_, _, _, _)
NthIndexFrom(s, c, n, i) ==
  IF i > Len(s) THEN 0
  ELSE IF Ch(s, i) = c THEN (IF n = 1 THEN i ELSE NthIndexFrom(s, c, n - 1, i + 1))
  ELSE NthIndexFrom(s, c, n, i + 1)

\* cut a query string / fragment off (URL parsing of a relative ESM specifier)
CutAt(s, c) == IF StrContains(s, c) THEN SubSeq(s, 1, IndexOf(s, c) - 1) ELSE s
StripQueryHash(s) == CutAt(CutAt(s, "?"), "#")

\* percent-decoding of a file: URL path (fileURLToPath).  Only the escapes the
\* family uses are in the table; other escapes stay literal.
PctTable == [h \in {"66", "2e", "2E", "6a", "6A", "73", "78"} |->
               CASE h = "66" -> "f" [] h \in {"2e", "2E"} -> "." [] h \in {"6a", "6A"} -> "j"
                 [] h = "73" -> "s" [] h = "78" -> "x"]
RECURSIVE PctDecodeFrom(_, _)
PctDecodeFrom(s, i) ==
  IF i > Len(s) THEN ""
  ELSE IF Ch(s, i) = "%" /\ i + 2 <= Len(s) /\ SubSeq(s, i + 1, i + 2) \in DOMAIN PctTable
       THEN PctTable[SubSeq(s, i + 1, i + 2)] \o PctDecodeFrom(s, i + 3)
       ELSE Ch(s, i) \o PctDecodeFrom(s, i + 1)
PctDecode(s) == IF StrContains(s, "%") THEN PctDecodeFrom(s, 1) ELSE s
\* "%2F" or "%5C" in any case
HasEncodedSeparator(s) ==
  \E i \in 1..Len(s) : Ch(s, i) = "%" /\ i + 2 <= Len(s) /\ SubSeq(s, i + 1, i + 2) \in {"2f", "2F", "5c", "5C"}

-----------------------------------------------------------------------------
(* paths *)

RECURSIVE NormSegs(_, _)
NormSegs(segs, acc) ==
  IF segs = << >> THEN acc
  ELSE LET h == Head(segs) IN
       IF h = "" \/ h = "." THEN NormSegs(Tail(segs), acc)
       ELSE IF h = ".."
            THEN NormSegs(Tail(segs), IF acc = << >> THEN acc ELSE SubSeq(acc, 1, Len(acc) - 1))
            ELSE NormSegs(Tail(segs), Append(acc, h))

RECURSIVE JoinSegs(_)
JoinSegs(segs) == IF segs = << >> THEN "" ELSE "/" \o Head(segs) \o JoinSegs(Tail(segs))

Normalize(p) == JoinSegs(NormSegs(Split(p, "/"), << >>))
\* resolution of rel against directory dir (rel starting with "/" is absolute)
PathResolve(dir, rel) ==
  IF StartsWith(rel, "/") THEN Normalize(rel) ELSE Normalize(dir \o "/" \o rel)

RECURSIVE LastIndexFrom(_, _, _)
LastIndexFrom(s, c, i) ==
  IF i < 1 THEN 0 ELSE IF Ch(s, i) = c THEN i ELSE LastIndexFrom(s, c, i - 1)
Dirname(p) == LET i == LastIndexFrom(p, "/", Len(p)) IN IF i <= 1 THEN "" ELSE SubSeq(p, 1, i - 1)
Basename(p) == LET i == LastIndexFrom(p, "/", Len(p)) IN SubSeq(p, i + 1, Len(p))

\* dir, parent of dir, ..., root ""  (nearest first)
RECURSIVE Ancestors(_)
Ancestors(d) == IF d = "" THEN << "" >> ELSE << d >> \o Ancestors(Dirname(d))

IsUnder(p, d) == p = d \/ StartsWith(p, d \o "/")

-----------------------------------------------------------------------------
(* JSON values *)

JStr(s)      == [k |-> "str",   s |-> s,  ks |-> << >>, vs |-> << >>]
JNull        == [k |-> "null",  s |-> "", ks |-> << >>, vs |-> << >>]
JNum         == [k |-> "num",   s |-> "", ks |-> << >>, vs |-> << >>]   \* any other scalar
JUndef       == [k |-> "undef", s |-> "", ks |-> << >>, vs |-> << >>]   \* property absent
JArr(vs)     == [k |-> "arr",   s |-> "", ks |-> << >>, vs |-> vs]
JObj(ks, vs) == [k |-> "obj",   s |-> "", ks |-> ks,    vs |-> vs]

IsNullish(j) == j.k \in {"null", "undef"}
KeyIndex(j, key) == IF \E i \in 1..Len(j.ks) : j.ks[i] = key
                    THEN CHOOSE i \in 1..Len(j.ks) : j.ks[i] = key ELSE 0
HasKey(j, key) == j.k = "obj" /\ KeyIndex(j, key) # 0
Get(j, key) == j.vs[KeyIndex(j, key)]

NoPJ == [exists |-> FALSE, name |-> "", main |-> JUndef, type |-> "",
         exports |-> JUndef, imports |-> JUndef]

-----------------------------------------------------------------------------
(* file system *)

\* follow a symlinked directory prefix (one level is all the trees contain)
Canon(T, p) ==
  IF \E l \in DOMAIN T.links : IsUnder(p, l)
  THEN LET l == CHOOSE l \in DOMAIN T.links : IsUnder(p, l)
       IN T.links[l] \o DropFirst(p, Len(l))
  ELSE p
IsFile(T, p) == Canon(T, p) \in T.files
IsDir(T, p)  == Canon(T, p) \in T.dirs
RealPath(T, p) == Canon(T, p)

READ_PACKAGE_JSON(T, dir) ==
  IF Canon(T, dir) \in DOMAIN T.pj THEN T.pj[Canon(T, dir)] ELSE NoPJ

\* LOOKUP_PACKAGE_SCOPE(url): the nearest directory at or above the directory
\* of url holding a package.json, not crossing a node_modules boundary.
\* Returns "<none>" for null.
RECURSIVE ScopeWalk(_, _)
ScopeWalk(T, d) ==
  IF Basename(d) = "node_modules" /\ d # "" THEN "<none>"
  ELSE IF READ_PACKAGE_JSON(T, d).exists THEN d
  ELSE IF d = "" THEN "<none>"
  ELSE ScopeWalk(T, Dirname(d))
LOOKUP_PACKAGE_SCOPE(T, dir) == ScopeWalk(T, dir)

-----------------------------------------------------------------------------
(* results and branch labels *)

R(t, v)  == [t |-> t, v |-> v, b |-> {}, scope |-> "<none>", key |-> ""]
Url(p)   == R("url", p)
Err(c)   == R("err", c)
NullR    == R("null", "")
UndefR   == R("undef", "")
L(lab, r) == [r EXCEPT !.b = @ \cup {lab}]
\* keep the labels of an abandoned attempt r1 when continuing with r2
After(r1, r2) == [r2 EXCEPT !.b = @ \cup r1.b]

ErrorClasses == {"not-found", "not-exported", "invalid-target", "import-not-defined",
                 "invalid-specifier", "invalid-config", "dir-import"}

-----------------------------------------------------------------------------
(* PATTERN_KEY_COMPARE(keyA, keyB) *)

PATTERN_KEY_COMPARE(a, b) ==
  LET baseA == IndexOf(a, "*") baseB == IndexOf(b, "*") IN
  IF baseA > baseB THEN -1                                   \* step 5
  ELSE IF baseB > baseA THEN 1                               \* step 6
  ELSE IF Len(a) > Len(b) THEN -1                            \* step 7
  ELSE IF Len(b) > Len(a) THEN 1                             \* step 8
  ELSE 0                                                     \* step 9

\* insertion sort of the expansion keys by PATTERN_KEY_COMPARE (stable)
RECURSIVE InsertKey(_, _)
InsertKey(sorted, key) ==
  IF sorted = << >> THEN << key >>
  ELSE IF PATTERN_KEY_COMPARE(key, Head(sorted)) < 0 THEN << key >> \o sorted
  ELSE << Head(sorted) >> \o InsertKey(Tail(sorted), key)
RECURSIVE SortKeys(_, _)
SortKeys(keys, acc) == IF keys = << >> THEN acc ELSE SortKeys(Tail(keys), InsertKey(acc, Head(keys)))

ExpansionKeys(obj) ==
  SortKeys(SelectSeq(obj.ks, LAMBDA key : CountOf(key, "*") = 1), << >>)

\* step 3.2 of PACKAGE_IMPORTS_EXPORTS_RESOLVE: does expansionKey match matchKey
PatternMatches(expansionKey, matchKey) ==
  LET star == IndexOf(expansionKey, "*")
      patternBase == SubSeq(expansionKey, 1, star - 1)
      patternTrailer == DropFirst(expansionKey, star)
  IN /\ StartsWith(matchKey, patternBase) /\ matchKey # patternBase
     /\ \/ Len(patternTrailer) = 0
        \/ EndsWith(matchKey, patternTrailer) /\ Len(matchKey) >= Len(expansionKey)

-----------------------------------------------------------------------------
(* invalid segments (PACKAGE_TARGET_RESOLVE 1.2 and 1.6); lower case only: *)
(* the trees contain no upper-case or percent-encoded segment names        *)

\* DRIFT-FIX: the documented text also lists the empty segment ""; real Node 20
\* only prints deprecation DEP0166 for an empty segment ("./a//b", or a pattern
\* match that begins with "/") and resolves it.
BadSegment(seg) == seg \in {".", "..", "node_modules"}
HasBadSegment(s) == LET segs == Split(s, "/") IN \E i \in 1..Len(segs) : BadSegment(segs[i])

-----------------------------------------------------------------------------
(* The ESM resolver: PACKAGE_RESOLVE, PACKAGE_SELF_RESOLVE,                *)
(* PACKAGE_EXPORTS_RESOLVE, PACKAGE_IMPORTS_RESOLVE,                       *)
(* PACKAGE_IMPORTS_EXPORTS_RESOLVE, PACKAGE_TARGET_RESOLVE.                *)
(* T tree; conds = set of condition names; parentDir = directory of the    *)
(* importing file (the doc's parentURL is the file; only its directory is  *)
(* ever used).  They return "url" results (unverified paths) or errors.    *)

RECURSIVE PACKAGE_TARGET_RESOLVE(_, _, _, _, _, _, _)
RECURSIVE TargetObjectLoop(_, _, _, _, _, _, _, _)
RECURSIVE TargetArrayLoop(_, _, _, _, _, _, _, _, _)
RECURSIVE PACKAGE_RESOLVE(_, _, _, _)
RECURSIVE PackageWalk(_, _, _, _, _, _)
RECURSIVE PACKAGE_EXPORTS_RESOLVE(_, _, _, _, _)
RECURSIVE PACKAGE_IMPORTS_EXPORTS_RESOLVE(_, _, _, _, _, _)
RECURSIVE ExpansionLoop(_, _, _, _, _, _, _)
RECURSIVE PACKAGE_SELF_RESOLVE(_, _, _, _, _)

\* file-or-extension probing used only by LEGACY_MAIN_RESOLVE
RECURSIVE FirstFile(_, _)
FirstFile(T, candidates) ==
  IF candidates = << >> THEN ""
  ELSE IF IsFile(T, Head(candidates)) THEN Head(candidates)
  ELSE FirstFile(T, Tail(candidates))

\* DRIFT-FIX (documented step 11.6 says only "if pjson.main is a string,
\* return the URL resolution of main in packageURL"): real Node probes main,
\* main.js, main.json, main.node, main/index.{js,json,node} and then
\* index.{js,json,node}, and throws Module Not Found otherwise.
LEGACY_MAIN_RESOLVE(T, pkgDir, pj) ==
  LET m == IF pj.main.k = "str" THEN PathResolve(pkgDir, pj.main.s) ELSE ""
      viaMain == IF pj.main.k = "str"
                 THEN FirstFile(T, << m, m \o ".js", m \o ".json", m \o ".node",
                                      m \o "/index.js", m \o "/index.json", m \o "/index.node" >>)
                 ELSE ""
      viaIndex == FirstFile(T, << pkgDir \o "/index.js", pkgDir \o "/index.json", pkgDir \o "/index.node" >>)
  IN IF viaMain # "" THEN L("ESM.legacy-main.main-field", Url(viaMain))
     ELSE IF viaIndex # "" THEN L("ESM.legacy-main.index", Url(viaIndex))
     ELSE L("ESM.legacy-main.not-found", Err("not-found"))

PACKAGE_TARGET_RESOLVE(T, pkgDir, target, pm, hasPm, isImports, conds) ==
  IF target.k = "str" THEN                                               \* 1
    IF ~StartsWith(target.s, "./") THEN                                  \* 1.1
      IF ~isImports \/ StartsWith(target.s, "../") \/ StartsWith(target.s, "/")
      THEN L("TARGET.str.invalid-not-relative", Err("invalid-target"))   \* 1.1.1
      ELSE IF hasPm
      THEN L("TARGET.str.bare-pattern",                                   \* 1.1.2
             PACKAGE_RESOLVE(T, StrReplaceAll(target.s, "*", pm), pkgDir, conds))
      ELSE L("TARGET.str.bare", PACKAGE_RESOLVE(T, target.s, pkgDir, conds)) \* 1.1.3
    ELSE IF HasBadSegment(DropFirst(target.s, 2))                        \* 1.2
    THEN L("TARGET.str.invalid-segment", Err("invalid-target"))
    ELSE LET resolvedTarget == pkgDir \o DropFirst(target.s, 1) IN       \* 1.3
      IF ~hasPm
      THEN L("TARGET.str.exact", [Url(resolvedTarget) EXCEPT !.scope = pkgDir])   \* 1.5
      ELSE IF HasBadSegment(pm)                                          \* 1.6
      THEN L("TARGET.str.invalid-pattern-match", Err("invalid-specifier"))
      ELSE L("TARGET.str.pattern",                                       \* 1.7
             [Url(StrReplaceAll(resolvedTarget, "*", pm)) EXCEPT !.scope = pkgDir])
  ELSE IF target.k = "obj" THEN                                          \* 2
    TargetObjectLoop(T, pkgDir, target, 1, pm, hasPm, isImports, conds)
  ELSE IF target.k = "arr" THEN                                          \* 3
    IF Len(target.vs) = 0 THEN L("TARGET.arr.empty", NullR)              \* 3.1
    ELSE TargetArrayLoop(T, pkgDir, target, 1, pm, hasPm, isImports, conds, NullR)
  ELSE IF target.k = "null" THEN L("TARGET.null", NullR)                 \* 4
  ELSE L("TARGET.invalid-type", Err("invalid-target"))                   \* 5

\* step 2.2: properties in insertion order
TargetObjectLoop(T, pkgDir, target, i, pm, hasPm, isImports, conds) ==
  IF i > Len(target.ks) THEN L("TARGET.obj.no-condition-matched", UndefR)      \* 2.3
  ELSE IF target.ks[i] = "default" \/ target.ks[i] \in conds THEN              \* 2.2.1
    LET resolved == PACKAGE_TARGET_RESOLVE(T, pkgDir, target.vs[i], pm, hasPm, isImports, conds) IN
    IF resolved.t = "undef"
    THEN After(L("TARGET.obj.condition-undefined-continue", resolved),         \* 2.2.1.3
               TargetObjectLoop(T, pkgDir, target, i + 1, pm, hasPm, isImports, conds))
    ELSE L(IF target.ks[i] = "default" THEN "TARGET.obj.default" ELSE "TARGET.obj.condition", resolved)
  ELSE L("TARGET.obj.skip-condition",
         TargetObjectLoop(T, pkgDir, target, i + 1, pm, hasPm, isImports, conds))

\* step 3.2.  last = the last fallback resolution (null return or error).
\* DRIFT-FIX: the documented loop returns a null item at once ("if resolved
\* is undefined continue; return resolved"); real Node remembers the null and
\* continues with the next item.
TargetArrayLoop(T, pkgDir, target, i, pm, hasPm, isImports, conds, last) ==
  IF i > Len(target.vs) THEN L("TARGET.arr.exhausted", last)                   \* 3.3
  ELSE LET resolved == PACKAGE_TARGET_RESOLVE(T, pkgDir, target.vs[i], pm, hasPm, isImports, conds) IN
    IF resolved.t = "err" /\ resolved.v = "invalid-target"
    THEN After(L("TARGET.arr.invalid-target-continue", resolved),
               TargetArrayLoop(T, pkgDir, target, i + 1, pm, hasPm, isImports, conds, After(last, resolved)))
    ELSE IF resolved.t = "undef"
    THEN After(L("TARGET.arr.undefined-continue", resolved),
               TargetArrayLoop(T, pkgDir, target, i + 1, pm, hasPm, isImports, conds, last))
    ELSE IF resolved.t = "null"
    THEN After(L("TARGET.arr.null-continue", resolved),
               TargetArrayLoop(T, pkgDir, target, i + 1, pm, hasPm, isImports, conds, After(last, NullR)))
    ELSE L("TARGET.arr.item", After(last, resolved))

PACKAGE_IMPORTS_EXPORTS_RESOLVE(T, matchKey, matchObj, pkgDir, isImports, conds) ==
  IF HasKey(matchObj, matchKey) /\ ~StrContains(matchKey, "*")                     \* 1
  THEN L("MATCH.exact-key",
         [PACKAGE_TARGET_RESOLVE(T, pkgDir, Get(matchObj, matchKey), "", FALSE, isImports, conds)
            EXCEPT !.key = matchKey])
  ELSE ExpansionLoop(T, matchKey, matchObj, ExpansionKeys(matchObj), pkgDir, isImports, conds)

ExpansionLoop(T, matchKey, matchObj, keys, pkgDir, isImports, conds) ==
  IF keys = << >> THEN L("MATCH.no-key", NullR)                                 \* 4
  ELSE LET expansionKey == Head(keys)
           star == IndexOf(expansionKey, "*")
           patternBase == SubSeq(expansionKey, 1, star - 1)
           patternTrailer == DropFirst(expansionKey, star)
       IN IF PatternMatches(expansionKey, matchKey)                            \* 3.2
          THEN LET patternMatch == SubSeq(matchKey, Len(patternBase) + 1,
                                          Len(matchKey) - Len(patternTrailer))
               IN L(IF Len(patternTrailer) = 0 THEN "MATCH.pattern" ELSE "MATCH.pattern-with-trailer",
                    [PACKAGE_TARGET_RESOLVE(T, pkgDir, Get(matchObj, expansionKey),
                                            patternMatch, TRUE, isImports, conds)
                       EXCEPT !.key = expansionKey])
          ELSE L("MATCH.pattern-skip",
                 ExpansionLoop(T, matchKey, matchObj, Tail(keys), pkgDir, isImports, conds))

DotKeys(obj)    == { i \in 1..Len(obj.ks) : StartsWith(obj.ks[i], ".") }
NonDotKeys(obj) == { i \in 1..Len(obj.ks) : ~StartsWith(obj.ks[i], ".") }

PACKAGE_EXPORTS_RESOLVE(T, pkgDir, subpath, exports, conds) ==
  IF exports.k = "obj" /\ DotKeys(exports) # {} /\ NonDotKeys(exports) # {}       \* 1
  THEN L("EXPORTS.mixed-keys", Err("invalid-config"))
  ELSE IF subpath = "." THEN                                                      \* 2
    LET sugar == exports.k \in {"str", "arr"} \/ (exports.k = "obj" /\ DotKeys(exports) = {})
        hasMain == sugar \/ HasKey(exports, ".")
        mainExport == IF sugar THEN exports ELSE Get(exports, ".")
    IN IF ~hasMain THEN L("EXPORTS.main.no-dot-key", Err("not-exported"))
       ELSE LET resolved == [PACKAGE_TARGET_RESOLVE(T, pkgDir, mainExport, "", FALSE, FALSE, conds)
                               EXCEPT !.key = "."] IN
            IF resolved.t \in {"null", "undef"}
            THEN After(resolved, L("EXPORTS.main.null-or-undefined", Err("not-exported")))   \* 4
            ELSE L(IF sugar THEN "EXPORTS.main.sugar" ELSE "EXPORTS.main.dot-key", resolved)
  ELSE IF exports.k = "obj" /\ NonDotKeys(exports) = {} THEN                        \* 3
    LET resolved == PACKAGE_IMPORTS_EXPORTS_RESOLVE(T, subpath, exports, pkgDir, FALSE, conds) IN
    IF resolved.t \in {"null", "undef"}
    THEN After(resolved, L("EXPORTS.subpath.null-or-undefined", Err("not-exported")))        \* 4
    ELSE L("EXPORTS.subpath", resolved)
  ELSE L("EXPORTS.subpath.no-subpath-map", Err("not-exported"))                              \* 4

PACKAGE_IMPORTS_RESOLVE(T, specifier, parentDir, conds) ==
  IF specifier = "#" \/ StartsWith(specifier, "#/")                                 \* 2
  THEN L("IMPORTS.invalid-specifier", Err("invalid-specifier"))
  ELSE LET pkgDir == LOOKUP_PACKAGE_SCOPE(T, parentDir) IN                          \* 3
    IF pkgDir = "<none>" THEN L("IMPORTS.no-scope", Err("import-not-defined"))      \* 5
    ELSE LET pj == READ_PACKAGE_JSON(T, pkgDir) IN
      IF pj.imports.k # "obj" THEN L("IMPORTS.no-imports-map", Err("import-not-defined"))
      ELSE LET resolved == PACKAGE_IMPORTS_EXPORTS_RESOLVE(T, specifier, pj.imports, pkgDir, TRUE, conds) IN
        IF resolved.t \in {"null", "undef"}
        THEN After(resolved, L("IMPORTS.null-or-undefined", Err("import-not-defined")))
        ELSE L("IMPORTS.resolved", resolved)

PACKAGE_SELF_RESOLVE(T, packageName, packageSubpath, parentDir, conds) ==
  LET pkgDir == LOOKUP_PACKAGE_SCOPE(T, parentDir) IN                              \* 1
  IF pkgDir = "<none>" THEN L("SELF.no-scope", UndefR)                             \* 2
  ELSE LET pj == READ_PACKAGE_JSON(T, pkgDir) IN
    IF IsNullish(pj.exports) THEN L("SELF.no-exports", UndefR)                     \* 4
    ELSE IF pj.name = packageName                                                  \* 5
    THEN L("SELF.match", PACKAGE_EXPORTS_RESOLVE(T, pkgDir, packageSubpath, pj.exports, conds))
    ELSE L("SELF.other-name", UndefR)                                              \* 6

\* packageName of a bare specifier ("" = invalid)
PackageNameOf(spec) ==
  IF ~StartsWith(spec, "@")
  THEN CutAt(spec, "/")                                                            \* 4
  ELSE IF ~StrContains(spec, "/") THEN ""                                             \* 5.1
  ELSE LET second == NthIndexFrom(spec, "/", 2, 1) IN                              \* 5.2
       IF second = 0 THEN spec ELSE SubSeq(spec, 1, second - 1)

PACKAGE_RESOLVE(T, packageSpecifier, parentDir, conds) ==
  IF packageSpecifier = "" THEN L("PKG.empty-specifier", Err("invalid-specifier")) \* 2
  ELSE LET packageName == PackageNameOf(packageSpecifier) IN                       \* (3: no builtins in the family)
    IF packageName = "" THEN L("PKG.scope-without-name", Err("invalid-specifier")) \* 5.1
    ELSE IF StartsWith(packageName, ".") \/ StrContains(packageName, "\\") \/ StrContains(packageName, "%")
    THEN L("PKG.invalid-name", Err("invalid-specifier"))                           \* 6
    ELSE LET packageSubpath == "." \o DropFirst(packageSpecifier, Len(packageName)) IN   \* 7
      IF EndsWith(packageSubpath, "/") THEN L("PKG.trailing-slash", Err("invalid-specifier"))  \* 8
      ELSE LET selfUrl == PACKAGE_SELF_RESOLVE(T, packageName, packageSubpath, parentDir, conds) IN \* 9
        IF selfUrl.t # "undef" THEN L("PKG.self", selfUrl)                         \* 10
        ELSE After(selfUrl,
                   PackageWalk(T, packageName, packageSubpath, Ancestors(parentDir), conds, 0))  \* 11

\* step 11: the node_modules walk, nearest directory first
PackageWalk(T, packageName, packageSubpath, dirs, conds, skipped) ==
  IF dirs = << >> THEN L("PKG.walk.not-found", Err("not-found"))                   \* 12
  ELSE LET pkgDir == Head(dirs) \o "/node_modules/" \o packageName IN              \* 11.1
    IF ~IsDir(T, pkgDir)                                                           \* 11.3
    THEN PackageWalk(T, packageName, packageSubpath, Tail(dirs), conds, skipped + 1)
    ELSE LET pj == READ_PACKAGE_JSON(T, pkgDir)                                    \* 11.4
             where == IF skipped = 0 THEN "PKG.walk.found-nearest" ELSE "PKG.walk.found-after-skipping"
             nested == IF Head(dirs) # "" THEN {"PKG.walk.found-nested-or-inner"} ELSE {"PKG.walk.found-root"}
         IN L(where, IF pj.exists /\ ~IsNullish(pj.exports)                        \* 11.5
              THEN [L("PKG.walk.exports", PACKAGE_EXPORTS_RESOLVE(T, pkgDir, packageSubpath, pj.exports, conds))
                      EXCEPT !.b = @ \cup nested]
              ELSE IF packageSubpath = "."                                         \* 11.6
              THEN [L("PKG.walk.legacy-main", LEGACY_MAIN_RESOLVE(T, pkgDir, pj)) EXCEPT !.b = @ \cup nested]
              ELSE [L("PKG.walk.subpath-no-exports", Url(PathResolve(pkgDir, packageSubpath)))   \* 11.7
                      EXCEPT !.b = @ \cup nested])

\* ESM_RESOLVE steps 7.1 - 7.4 for a file: URL (r.v is the URL path, still
\* percent-encoded; the file system sees the decoded path)
ESM_FINALIZE(T, r) ==
  IF r.t # "url" THEN r
  ELSE IF HasEncodedSeparator(r.v)
  THEN L("URL.encoded-separator", [r EXCEPT !.t = "err", !.v = "invalid-specifier"])                 \* 7.1
  ELSE LET path == PctDecode(r.v)
           rr == IF path # r.v THEN L("URL.percent-decoded", r) ELSE r IN
    IF IsDir(T, path) THEN L("ESM.final.directory", [rr EXCEPT !.t = "err", !.v = "dir-import"])     \* 7.2
    ELSE IF ~IsFile(T, path) THEN L("ESM.final.not-found", [rr EXCEPT !.t = "err", !.v = "not-found"]) \* 7.3
    ELSE L(IF RealPath(T, path) # path THEN "ESM.final.realpath-differs" ELSE "ESM.final.file",
           [rr EXCEPT !.t = "file", !.v = RealPath(T, path)])                                        \* 7.4

\* ESM_RESOLVE(specifier, parentURL); importer = path of the importing file.
\* (step 2, "specifier is a valid URL", is outside the generated family)
ESM_RESOLVE(T, specifier, importer, conds) ==
  LET parentDir == Dirname(importer) IN
  ESM_FINALIZE(T,
    IF StartsWith(specifier, "/") \/ StartsWith(specifier, "./") \/ StartsWith(specifier, "../")  \* 3
    THEN L(IF StartsWith(specifier, "/") THEN "ESM.absolute" ELSE "ESM.relative",
           L(IF StripQueryHash(specifier) # specifier THEN "ESM.query-or-hash" ELSE "ESM.plain",
             Url(PathResolve(parentDir, StripQueryHash(specifier)))))
    ELSE IF StartsWith(specifier, "#")                                                            \* 4
    THEN L("ESM.imports", PACKAGE_IMPORTS_RESOLVE(T, specifier, parentDir, conds))
    ELSE L("ESM.bare", PACKAGE_RESOLVE(T, specifier, parentDir, conds)))                          \* 5

-----------------------------------------------------------------------------
(* The CommonJS resolver (api/modules.md, "All together").  Operators      *)
(* return a "file" result (STOP), an error, or "undef" (fell through).     *)

CJS_FILE(T, p) == [R("file", RealPath(T, p)) EXCEPT !.b = IF RealPath(T, p) # p THEN {"CJS.realpath-differs"} ELSE {}]

LOAD_AS_FILE(T, X) ==
  IF IsFile(T, X) THEN L("CJS.file.exact", CJS_FILE(T, X))                         \* 1
  ELSE IF IsFile(T, X \o ".js") THEN L("CJS.file.js", CJS_FILE(T, X \o ".js"))     \* 2
  ELSE IF IsFile(T, X \o ".json") THEN L("CJS.file.json", CJS_FILE(T, X \o ".json"))   \* 3
  ELSE IF IsFile(T, X \o ".node") THEN L("CJS.file.node", CJS_FILE(T, X \o ".node"))   \* 4
  ELSE UndefR

LOAD_INDEX(T, X) ==
  IF IsFile(T, X \o "/index.js") THEN L("CJS.index.js", CJS_FILE(T, X \o "/index.js"))         \* 1
  ELSE IF IsFile(T, X \o "/index.json") THEN L("CJS.index.json", CJS_FILE(T, X \o "/index.json")) \* 2
  ELSE IF IsFile(T, X \o "/index.node") THEN L("CJS.index.node", CJS_FILE(T, X \o "/index.node")) \* 3
  ELSE UndefR

\* a, unless it fell through ("undef"): then b (TLC evaluates the operator
\* argument b only when it is needed)
OrElse(a, b) == IF a.t # "undef" THEN a ELSE After(a, b)

LOAD_AS_DIRECTORY(T, X) ==
  LET pj == READ_PACKAGE_JSON(T, X) IN
  IF pj.exists /\ pj.main.k = "str" /\ pj.main.s # ""                             \* 1 (b: falsy main -> 2)
  THEN LET M == PathResolve(X, pj.main.s) IN                                      \* c
       L("CJS.dir.main",
         OrElse(LOAD_AS_FILE(T, M),                                               \* d
         OrElse(LOAD_INDEX(T, M),                                                 \* e
         OrElse(L("CJS.dir.main-missing-index-fallback", LOAD_INDEX(T, X)),       \* f (deprecated)
                L("CJS.dir.main-not-found", Err("not-found"))))))                 \* g
  ELSE IF IsDir(T, X) THEN L("CJS.dir.index", LOAD_INDEX(T, X))                   \* 2
  ELSE UndefR

\* RESOLVE_ESM_MATCH(MATCH): fileURLToPath percent-decodes the match (real Node
\* first rejects encoded separators, as ESM_RESOLVE 7.1 does)
RESOLVE_ESM_MATCH(T, match) ==
  IF match.t # "url" THEN match
  ELSE IF HasEncodedSeparator(match.v)
  THEN L("URL.encoded-separator", [match EXCEPT !.t = "err", !.v = "invalid-specifier"])
  ELSE LET path == PctDecode(match.v)
           mm == IF path # match.v THEN L("URL.percent-decoded", match) ELSE match IN
    IF IsFile(T, path)
    THEN L("CJS.esm-match.file", After(mm, [CJS_FILE(T, path) EXCEPT !.scope = match.scope, !.key = match.key]))
    ELSE L("CJS.esm-match.not-found", [mm EXCEPT !.t = "err", !.v = "not-found"])

\* name part of X for LOAD_PACKAGE_EXPORTS ("" = X does not match the pattern)
CjsPackageName(X) ==
  LET name == PackageNameOf(X) IN
  IF name = "" \/ StartsWith(name, ".") \/ StrContains(name, "%") \/ StrContains(name, "\\")
     \/ (StartsWith(X, "@") /\ name = X /\ ~StrContains(X, "/")) THEN "" ELSE name

LOAD_PACKAGE_EXPORTS(T, X, DIR, conds) ==
  LET name == CjsPackageName(X) IN
  IF name = "" THEN UndefR                                                        \* 2
  ELSE LET pj == READ_PACKAGE_JSON(T, DIR \o "/" \o name) IN
    IF ~pj.exists \/ IsNullish(pj.exports) THEN UndefR                            \* 2, 4
    ELSE L("CJS.package-exports",
           RESOLVE_ESM_MATCH(T, PACKAGE_EXPORTS_RESOLVE(T, DIR \o "/" \o name,
                                  "." \o DropFirst(X, Len(name)), pj.exports, conds)))   \* 6, 7

LOAD_PACKAGE_IMPORTS(T, X, DIR, conds) ==
  LET scope == LOOKUP_PACKAGE_SCOPE(T, DIR) IN                                    \* 1
  IF scope = "<none>" THEN L("CJS.imports.no-scope", UndefR)                      \* 2
  ELSE IF IsNullish(READ_PACKAGE_JSON(T, scope).imports)
  THEN L("CJS.imports.no-imports-field", UndefR)                                  \* 3
  ELSE L("CJS.imports", RESOLVE_ESM_MATCH(T, PACKAGE_IMPORTS_RESOLVE(T, X, DIR, conds)))   \* 5, 6

LOAD_PACKAGE_SELF(T, X, DIR, conds) ==
  LET scope == LOOKUP_PACKAGE_SCOPE(T, DIR) IN                                    \* 1
  IF scope = "<none>" THEN UndefR                                                 \* 2
  ELSE LET pj == READ_PACKAGE_JSON(T, scope) IN
    IF IsNullish(pj.exports) THEN UndefR                                          \* 3
    ELSE IF pj.name # "" /\ (X = pj.name \/ StartsWith(X, pj.name \o "/"))        \* 4
    THEN L("CJS.self", RESOLVE_ESM_MATCH(T,
             PACKAGE_EXPORTS_RESOLVE(T, scope, "." \o DropFirst(X, Len(pj.name)), pj.exports, conds)))
    ELSE UndefR

\* NODE_MODULES_PATHS(START)
NODE_MODULES_PATHS(START) ==
  LET anc == Ancestors(START)
      keep == SelectSeq(anc, LAMBDA d : Basename(d) # "node_modules")            \* 4.a
  IN [i \in 1..Len(keep) |-> keep[i] \o "/node_modules"]

RECURSIVE NodeModulesLoop(_, _, _, _, _)
NodeModulesLoop(T, X, DIRS, conds, skipped) ==
  IF DIRS = << >> THEN UndefR
  ELSE LET DIR == Head(DIRS) IN
    IF ~IsDir(T, DIR) THEN NodeModulesLoop(T, X, Tail(DIRS), conds, skipped)      \* (a directory that does not exist)
    ELSE LET r == OrElse(LOAD_PACKAGE_EXPORTS(T, X, DIR, conds),                  \* a
                  OrElse(LOAD_AS_FILE(T, PathResolve(DIR, X)),                     \* b
                         LOAD_AS_DIRECTORY(T, PathResolve(DIR, X))))               \* c
         IN IF r.t = "undef"
            THEN After(r, NodeModulesLoop(T, X, Tail(DIRS), conds, skipped + 1))
            ELSE L(IF skipped = 0 THEN "CJS.node_modules.first-dir" ELSE "CJS.node_modules.later-dir",
                   L(IF DIR = "/node_modules" THEN "CJS.node_modules.root" ELSE "CJS.node_modules.nested-or-inner", r))

LOAD_NODE_MODULES(T, X, START, conds) ==
  NodeModulesLoop(T, X, NODE_MODULES_PATHS(START), conds, 0)

\* require(X) from module at path Y   (step 1, core modules, is outside the family)
CJS_RESOLVE(T, X, Y, conds) ==
  LET dir == Dirname(Y) IN
  IF StartsWith(X, "./") \/ StartsWith(X, "/") \/ StartsWith(X, "../") THEN       \* 2, 3
    LET base == PathResolve(dir, X) IN
    L(IF StartsWith(X, "/") THEN "CJS.absolute" ELSE "CJS.relative",
      OrElse(LOAD_AS_FILE(T, base),
      OrElse(LOAD_AS_DIRECTORY(T, base),
             L("CJS.relative.not-found", Err("not-found")))))
  ELSE
    LET viaImports == IF StartsWith(X, "#") THEN LOAD_PACKAGE_IMPORTS(T, X, dir, conds) ELSE UndefR   \* 4
    IN OrElse(viaImports,
       OrElse(LOAD_PACKAGE_SELF(T, X, dir, conds),                                 \* 5
       OrElse(LOAD_NODE_MODULES(T, X, dir, conds),                                 \* 6
              L("CJS.bare.not-found", Err("not-found")))))                         \* 7

-----------------------------------------------------------------------------
(* The question the property asks *)

Resolve(T, q) ==
  IF q.kind = "import"
  THEN L("KIND.import", ESM_RESOLVE(T, q.spec, q.imp, {"node", "import"} \cup q.conds))
  ELSE L("KIND.require", CJS_RESOLVE(T, q.spec, q.imp, {"node", "require"} \cup q.conds))

\* every label a result can carry (the coverage universe)
AllLabels == {
  "KIND.import", "KIND.require",
  "ESM.absolute", "ESM.relative", "ESM.query-or-hash", "ESM.plain", "ESM.imports", "ESM.bare",
  "ESM.final.directory", "ESM.final.not-found", "ESM.final.realpath-differs", "ESM.final.file",
  "ESM.legacy-main.main-field", "ESM.legacy-main.index", "ESM.legacy-main.not-found",
  "PKG.empty-specifier", "PKG.scope-without-name", "PKG.invalid-name", "PKG.trailing-slash",
  "PKG.self", "PKG.walk.not-found", "PKG.walk.found-nearest", "PKG.walk.found-after-skipping",
  "PKG.walk.found-nested-or-inner", "PKG.walk.found-root",
  "PKG.walk.exports", "PKG.walk.legacy-main", "PKG.walk.subpath-no-exports",
  "SELF.no-scope", "SELF.no-exports", "SELF.match", "SELF.other-name",
  "EXPORTS.mixed-keys", "EXPORTS.main.no-dot-key", "EXPORTS.main.null-or-undefined",
  "EXPORTS.main.sugar", "EXPORTS.main.dot-key", "EXPORTS.subpath.null-or-undefined",
  "EXPORTS.subpath", "EXPORTS.subpath.no-subpath-map",
  "IMPORTS.invalid-specifier", "IMPORTS.no-scope", "IMPORTS.no-imports-map",
  "IMPORTS.null-or-undefined", "IMPORTS.resolved",
  "MATCH.exact-key", "MATCH.no-key", "MATCH.pattern", "MATCH.pattern-with-trailer", "MATCH.pattern-skip",
  "TARGET.str.invalid-not-relative", "TARGET.str.bare-pattern", "TARGET.str.bare",
  "TARGET.str.invalid-segment", "TARGET.str.exact", "TARGET.str.invalid-pattern-match",
  "TARGET.str.pattern", "TARGET.arr.empty", "TARGET.null", "TARGET.invalid-type",
  "TARGET.obj.no-condition-matched", "TARGET.obj.condition-undefined-continue",
  "TARGET.obj.default", "TARGET.obj.condition", "TARGET.obj.skip-condition",
  "TARGET.arr.exhausted", "TARGET.arr.invalid-target-continue", "TARGET.arr.undefined-continue",
  "TARGET.arr.null-continue", "TARGET.arr.item",
  "CJS.realpath-differs", "CJS.file.exact", "CJS.file.js", "CJS.file.json", "CJS.file.node",
  "CJS.index.js", "CJS.index.json", "CJS.index.node",
  "CJS.dir.main", "CJS.dir.main-missing-index-fallback", "CJS.dir.main-not-found", "CJS.dir.index",
  "CJS.esm-match.file", "CJS.esm-match.not-found", "CJS.package-exports",
  "CJS.imports.no-scope", "CJS.imports.no-imports-field", "CJS.imports", "CJS.self",
  "CJS.node_modules.first-dir", "CJS.node_modules.later-dir", "CJS.node_modules.root",
  "CJS.node_modules.nested-or-inner",
  "CJS.absolute", "CJS.relative", "CJS.relative.not-found", "CJS.bare.not-found",
  "URL.encoded-separator", "URL.percent-decoded" }

=============================================================================
