--------------------------- MODULE TokensAlphabet ---------------------------
(***************************************************************************)
(* C16: the token alphabets, frames and nesting kinds shared by the three  *)
(* input machines (Tokens = exhaustive enumeration of short token strings, *)
(* TokensMut = mutation scripts over seed inputs, TokensNest = deep        *)
(* nesting).  This module has no variables.  The alphabets are the single  *)
(* source: the harness receives them from TLC (an ALPHABET record exported *)
(* by every run) and never keeps a copy of its own.                        *)
(*                                                                         *)
(* An alphabet is a sequence of token texts.  A "language" names an        *)
(* alphabet together with the loaders its strings are given to (decided in *)
(* the harness: js* -> js, jsx, ts, tsx; css* -> css, local-css, global-   *)
(* css; json -> json (+ js); cfg -> package.json / tsconfig.json reached   *)
(* through a bundle and through tsconfigRaw; smap -> the payload of a      *)
(* `//# sourceMappingURL=data:` comment).                                  *)
(***************************************************************************)
EXTENDS Integers, Sequences

(* JavaScript: punctuators, literals, the keywords with the most grammar
   context, template pieces, `<` `>` `/` (JSX / TS generics / regexp-vs-division) *)
JsCore == <<
  "a", "b", "1", "'s'", "`t`", "`a${", "}b`", "/r/g",
  "(", ")", "[", "]", "{", "}", "<", ">",
  "/", "=", "=>", ",", ";", ":", "?", ".",
  "...", "+", "*", "!", "&&", "??", "function", "class",
  "async", "await", "yield", "let", "new", "in", "#p", "\n" >>

(* JavaScript: unterminated and odd literals, escapes, comments, huge numeric forms *)
JsLit == <<
  "'u", "\"u", "`u", "`a${b", "/[", "/r/gg", "/(?<n>", "\\u0061",
  "\\u{", "\\u{110000}", "'\\u{FFFFFFFFF}'", "'\\x'", "'\\08'", "0x", "0b2", "08.5",
  "1n", "1.5n", "1_", "1__0", "1e", "1e9999999999", ".5", "1..",
  "/*", "*/", "//", "<!--", "-->", "#!", "\\", "@",
  "#", "\t", "\r", "a", "=", "(", "{", "." >>

(* JavaScript: declarations, classes, modules, statements *)
JsDecl == <<
  "a", "1", "'s'", "(", ")", "{", "}", "[",
  "]", "=", ",", ";", ":", "*", ".", "=>",
  "function", "class", "extends", "super", "static", "get", "async", "await",
  "yield", "let", "const", "var", "import", "export", "from", "default",
  "as", "for", "of", "if", "return", "using", "#p", "@d" >>

(* TypeScript *)
Ts == <<
  "a", "T", "1", "'s'", "(", ")", "{", "}",
  "[", "]", "<", ">", "=", ",", ";", ":",
  "?", ".", "=>", "|", "!", "type", "interface", "enum",
  "namespace", "declare", "abstract", "as", "satisfies", "is", "keyof", "infer",
  "readonly", "extends", "class", "function", "const", "public", "@d", "import" >>

(* JSX *)
Jsx == <<
  "<a", "<a>", "</a>", "<>", "</>", "/>", ">", "<",
  "{", "}", "{...", "b", "=", "'s'", "\"u", "&amp;",
  "&#x;", "a:b", "a-b", "a.b", "1", "(", ")", "/" >>

(* CSS: selectors and structure *)
CssA == <<
  "a", ".c", "#i", "*", "&", ":hover", "::before", ":is(",
  ":not(", ":global(", ":local(", "[x=", "]", "{", "}", "(",
  ")", ";", ":", ",", ">", "+", "~", "|",
  "color", "red", "\"s\"", "'u", "/*", "*/", "<!--", "-->",
  "\\", "\\0", "@media", "@import", "@layer", "@nest", "composes", "from" >>

(* CSS: values and at-rules *)
CssB == <<
  "a", "{", "}", "(", ")", ";", ":", ",",
  "color", "red", "1px", "50%", "#fff", "0", "1e9999", "-",
  "--x", "/", "url(", "url(x)", "calc(", "var(--x", "rgb(", "linear-gradient(",
  "!important", "@keyframes", "@supports", "@container", "@font-face", "@charset", "@namespace", "@property",
  "and", "not", "(min-width:1px)", "U+0-", "inset", "margin", "\"s\"", "\n" >>

(* JSON *)
JsonA == <<
  "{", "}", "[", "]", ":", ",", "\"a\"", "\"u",
  "1", "-", "1e999", "true", "null", "// c\n", "/*", "\"\\ud800\"" >>

(* package.json / tsconfig.json: JSON structure, the keys the resolver interprets (written with their
   colon, so that two tokens are a member) and values of every JSON type *)
Cfg == <<
  "{", "}", "[", "]", ",", ":", "\"main\":", "\"module\":",
  "\"browser\":", "\"exports\":", "\"imports\":", "\"type\":", "\"sideEffects\":", "\"name\":", "\".\":", "\"#x\":",
  "\"./*\":", "\"import\":", "\"default\":", "\"extends\":", "\"compilerOptions\":", "\"paths\":", "\"baseUrl\":", "\"jsx\":",
  "\"target\":", "\"jsxFactory\":", "\"\":", "\"useDefineForClassFields\":", "\"*\":", "\"./a.js\"", "\"pkg\"", "\"react\"",
  "\"a.b\"", "\"\"", "\"./tsconfig.json\"", "\"../\"", "false", "true", "null", "1" >>

(* source map payloads *)
Smap == <<
  "{", "}", "[", "]", ":", ",", "\"version\"", "3",
  "\"sources\"", "\"mappings\"", "\"names\"", "\"sourcesContent\"", "\"sections\"", "\"offset\"", "\"map\"", "\"line\"",
  "\"AAAA\"", "\"AAAA;;,\"", "\"gggggggggggggg\"", "\"!\"", "null", "\"a.js\"", "-1", "1e99",
  "\"ACAA\"", "\"AAAAC\"", "\"AADA\"", "\"AAAD\"", "\"D\"", "\"AAAA,C\"", "\"AAAAA,CAAAC\"", "\"A\"" >>

Alphabet(lang) ==
  CASE lang = "jscore" -> JsCore [] lang = "jslit" -> JsLit [] lang = "jsdecl" -> JsDecl [] lang = "ts" -> Ts
    [] lang = "jsx" -> Jsx [] lang = "cssa" -> CssA [] lang = "cssb" -> CssB [] lang = "json" -> JsonA
    [] lang = "cfg" -> Cfg [] lang = "smap" -> Smap

(***************************************************************************)
(* Frames: a short token string is placed between a prefix and a suffix,   *)
(* so that few tokens reach grammar states that are many tokens deep.      *)
(* Frame 1 is always the empty frame.                                      *)
(***************************************************************************)
JsFrames == << <<"", "">>, <<"class C {", "}">>, <<"x = {", "}">>, <<"async function* f(", ") {}">>,
               <<"for (", ") ;">>, <<"x = `${", "}`">>, <<"label: {", "}">>, <<"import {", "} from 'm'">> >>
TsFrames == << <<"", "">>, <<"class C {", "}">>, <<"let x: ", ";">>, <<"function f<", ">() {}">>,
               <<"declare namespace N {", "}">>, <<"enum E {", "}">> >>
JsxFrames == << <<"", "">>, <<"x = <div ", "/>">>, <<"x = <div>", "</div>">>, <<"x = <", ">">> >>
CssFrames == << <<"", "">>, <<"a {", "}">>, <<"a { background:", "}">>, <<"@media ", "{}">>, <<":is(", ") {}">> >>
JsonFrames == << <<"", "">>, <<"[", "]">>, <<"{\"a\":", "}">> >>
CfgFrames == << <<"", "">>, <<"{", "}">>, <<"{\"exports\":{", "}}">>, <<"{\"imports\":{", "}}">>,
                <<"{\"compilerOptions\":{", "}}">>, <<"{\"compilerOptions\":{\"paths\":{", "}}}">>, <<"{\"browser\":{", "}}">>,
                <<"{\"exports\":{\".\":{", "}}}">> >>
SmapFrames == << <<"", "">>, <<"{\"version\":3,\"sources\":[\"a.js\"],\"names\":[\"n\"],\"mappings\":", "}">>,
                 <<"{\"version\":3,", "}">>, <<"{\"version\":3,\"sections\":[", "]}">> >>

Frames(lang) ==
  CASE lang \in {"jscore", "jslit", "jsdecl"} -> JsFrames [] lang = "ts" -> TsFrames [] lang = "jsx" -> JsxFrames
    [] lang \in {"cssa", "cssb"} -> CssFrames [] lang = "json" -> JsonFrames [] lang = "cfg" -> CfgFrames
    [] lang = "smap" -> SmapFrames

(***************************************************************************)
(* Nesting kinds: opener repeated d times, an inner text, closer repeated  *)
(* d times.  `binds` says that every level declares the same name (the     *)
(* shape for which the renamer must find a fresh name per level).          *)
(***************************************************************************)
NK(l, o, i, c, b) == [lang |-> l, open |-> o, inner |-> i, close |-> c, binds |-> b]
NestKinds == <<
  NK("js", "(", "a", ")", FALSE), NK("js", "[", "a", "]", FALSE), NK("js", "{", "", "}", FALSE),
  NK("js", "x={a:", "1", "}", FALSE), NK("js", "`${", "a", "}`", FALSE), NK("js", "!", "a", "", FALSE),
  NK("js", "a?", "b", ":c", FALSE), NK("js", "a+", "b", "", FALSE), NK("js", "a||", "b", "", FALSE),
  NK("js", "a??(", "b", ")", FALSE), NK("js", "a?.[", "b", "]", FALSE), NK("js", "f(", "a", ")", FALSE),
  NK("js", "new ", "a", "", FALSE), NK("js", "await ", "a", "", FALSE), NK("js", "[...", "a", "]", FALSE),
  NK("js", "if(a)", ";", "", FALSE), NK("js", "if(a);else ", ";", "", FALSE), NK("js", "for(;;)", ";", "", FALSE),
  NK("js", "l:", ";", "", FALSE), NK("js", "try{", "", "}finally{}", FALSE), NK("js", "switch(a){case 1:", "", "}", FALSE),
  NK("js", "class A{static{", "", "}}", TRUE), NK("js", "x=class extends ", "a", "{}", FALSE),
  NK("js", "a=>", "a", "", TRUE), NK("js", "(a)=>{", "", "}", TRUE), NK("js", "function f(){", "", "}", TRUE),
  NK("js", "async a=>", "a", "", TRUE), NK("js", "x=function(a){return ", "a", "}", TRUE),
  NK("js", "({a}=", "b", ")", FALSE), NK("js", "[a=", "b", "]=c", FALSE), NK("js", "/*", "", "*/", FALSE),
  NK("js", "/(", "a", ")/", FALSE), NK("js", "a<", "b", ">c", FALSE), NK("js", "a/", "b", "/g", FALSE),
  NK("jsx", "<a>", "b", "</a>", FALSE), NK("jsx", "<a b=", "'s'", "/>", FALSE), NK("jsx", "<>{", "a", "}</>", FALSE),
  NK("jsx", "<a b={", "1", "}/>", FALSE),
  NK("ts", "let x:(", "a", ")", FALSE), NK("ts", "let x:[", "a", "]", FALSE), NK("ts", "let x:{a:", "b", "}", FALSE),
  NK("ts", "let x:a<", "b", ">", FALSE), NK("ts", "a<", "b", ">()", FALSE), NK("ts", "<a>", "b", "", FALSE),
  NK("ts", "type T=a extends b?", "c", ":d", FALSE), NK("ts", "let x:()=>", "a", "", FALSE), NK("ts", "namespace N{", "", "}", TRUE),
  NK("ts", "a as ", "b", "", FALSE), NK("ts", "a!", "", "", FALSE), NK("ts", "let x:keyof ", "a", "", FALSE),
  NK("ts", "enum E{a=", "1", "}", FALSE), NK("ts", "(a:", "b", ")=>c", FALSE), NK("ts", "let x:`${", "a", "}`", FALSE),
  NK("css", "a{", "", "}", FALSE), NK("css", "(", "", ")", FALSE), NK("css", "[", "", "]", FALSE),
  NK("css", "@media x{", "", "}", FALSE), NK("css", "@supports (", "a:b", "){}", FALSE), NK("css", "a{b:calc(", "1", ")}", FALSE),
  NK("css", ":is(", "a", "){}", FALSE), NK("css", ":not(", "a", "){}", FALSE), NK("css", "a{b:var(--x,", "1", ")}", FALSE),
  NK("css", "&{", "", "}", FALSE), NK("css", "@layer a{", "", "}", FALSE), NK("css", "a{b:rgb(", "1", ")}", FALSE),
  NK("css", ":global(", "a", "){}", FALSE), NK("css", "a{b:url(", "x", ")}", FALSE), NK("css", "@container (", "a", "){}", FALSE),
  NK("css", "a>", "b", "{}", FALSE), NK("css", "@nest ", "a", "{}", FALSE), NK("css", "a{b:-", "1", "}", FALSE),
  NK("json", "[", "1", "]", FALSE), NK("json", "{\"a\":", "1", "}", FALSE), NK("json", "-", "1", "", FALSE),
  NK("json", "[[", "", "],[]]", FALSE) >>
=============================================================================
