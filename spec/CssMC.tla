------------------------------- MODULE CssMC -------------------------------
(***************************************************************************)
(* C12 - model checking the cascade specification itself on bounded-       *)
(* exhaustive families, and exporting the enumerated sheets as cases.      *)
(*                                                                         *)
(*  casc : every sheet of [layer statement] + two rules over wrappers x    *)
(*         selectors x declarations: WinnerUnique, LayerOrderTotal         *)
(*  nest : every (top-level list, nested list[, nested list]) chain of the *)
(*         vocabulary: NestEquiv (nested form = desugared form)            *)
(*  short: every 1-4 value box shorthand / radius over a value set:        *)
(*         ShorthandLaw                                                    *)
(*  dseq : declaration sequences of one shorthand family in one rule       *)
(*         (CssSeq): SeqLaw (cascade in a rule = reading in order)         *)
(*  rseq : three rules in stacks of conditional wrappers (CssSeq): a       *)
(*         wrapper identical to an enclosing one is transparent            *)
(*         (DupWrapperLaw), WinnerUnique                                   *)
(*         both export LABEL records; the harness draws a label-first      *)
(*         covering sample and lets CssGen compute those cases             *)
(* The state is a choice vector; the first step picks a part (so that the  *)
(* workers share the enumeration), the second a vector of that part.       *)
(***************************************************************************)
EXTENDS CssGen

CONSTANTS NParts, Family, Export, NestDepth, Small, ValStride, CascStride, NestStride, SeqAllFams, SeqStride, SeqSize, ExportLabels

Wraps == << <<>>, <<PLayer(<<"a">>)>>, <<PLayer(<<"b">>)>>, <<PCond("media", [r |-> "media", qs |-> <<Q1("w100", 1)>>])>>,
            <<PLayer(<<"a">>), PCond("media", [r |-> "media", qs |-> <<Q1("w100", 3)>>])>>, <<PLayer(<<>>)>>,
            <<PLayer(<<"a", "b">>)>> >>
CSels == <<".a", ":where(.a,#s)", "p", "p.a">>
CDecls == << D1("color", "red", 1, FALSE), D1("color", "blue", 1, TRUE), D1("color", "blue", 1, FALSE), D1("color", "red", 10, FALSE) >>
CStmts == << <<>>, <<StmtItem(<< <<"b">>, <<"a">> >>)>>, <<StmtItem(<< <<"a", "b">> >>)>> >>

NW == IF Small THEN 3 ELSE Len(Wraps)
NS == IF Small THEN 3 ELSE Len(CSels)
ND == IF Small THEN 3 ELSE Len(CDecls)
NSt == IF Small THEN 2 ELSE Len(CStmts)
CascChoices == {<<"casc", st, w1, s1, d1, w2, s2, d2>> : st \in 1..NSt, w1 \in 1..NW, s1 \in 1..NS, d1 \in 1..ND,
                                                       w2 \in 1..NW, s2 \in 1..NS, d2 \in 1..ND}
CascSheet(c) == CStmts[c[2]] \o << RuleItem(Wraps[c[3]] \o <<PSel(CSels[c[4]])>>, <<CDecls[c[5]]>>),
                                  RuleItem(Wraps[c[6]] \o <<PSel(CSels[c[7]])>>, <<CDecls[c[8]]>>) >>

TopKeys == SetToSeq(DOMAIN TopSels)
NestKeys == SetToSeq(DOMAIN NestSels)
NestChoices == {<<"nest", a, b, 0>> : a \in 1..Len(TopKeys), b \in 1..Len(NestKeys)} \cup
               (IF NestDepth >= 3 THEN {<<"nest", a, b, c>> : a \in 1..Len(TopKeys), b \in 1..Len(NestKeys), c \in 1..Len(NestKeys)} ELSE {})
NestLists(c) == IF c[4] = 0 THEN <<TopSels[TopKeys[c[2]]], NestSels[NestKeys[c[3]]]>>
                ELSE <<TopSels[TopKeys[c[2]]], NestSels[NestKeys[c[3]]], NestSels[NestKeys[c[4]]]>>

\* a chain as a sheet: the nested rule and two later competitors of other specificity
NestSheet(c) ==
  << RuleItem(<<PSel(TopKeys[c[2]]), PSel(NestKeys[c[3]])>> \o (IF c[4] = 0 THEN <<>> ELSE <<PSel(NestKeys[c[4]])>>), <<D1("color", "red", 1, FALSE)>>),
     RuleItem(<<PSel("#s")>>, <<D1("color", "blue", 1, FALSE)>>),
     RuleItem(<<PSel(".a.b")>>, <<D1("color", "tan", 1, FALSE)>>) >>
LenVals == <<"l0", "l1", "pct", "auto">>
ShortChoices == {<<"short", p, n, a, b, c, d>> : p \in 1..3, n \in 1..4, a \in 1..4, b \in 1..4, c \in 1..4, d \in 1..4}
ShortDecl(c) == [p |-> <<"margin", "padding", "inset">>[c[2]], v |-> SubSeq(<<LenVals[c[4]], LenVals[c[5]], LenVals[c[6]], LenVals[c[7]]>>, 1, c[3]),
                 sp |-> SubSeq(<<1, 1, 1, 1>>, 1, c[3]), i |-> FALSE]

\* every spelling of every grid value (CssVals), in a colour / length context each: longhand, shorthand, second longhand
ValKeys == SetToSeq(DOMAIN GridVals)
ValsChoices == {<<"vals", vi, k>> : vi \in 1..Len(ValKeys), k \in 1..12} \cap
               {c \in {<<"vals", vi, k>> : vi \in 1..Len(ValKeys), k \in 1..12} :
                   c[3] <= Len(GridVals[ValKeys[c[2]]].sp) /\ (c[2] + c[3]) % ValStride = 0}
ValsSheet(c) ==
  LET v == ValKeys[c[2]] IN
  IF GridVals[v].kind = "color"
  THEN << RuleItem(<<PSel(".a")>>, <<D1("color", v, c[3], FALSE)>>),
          RuleItem(<<PSel("p")>>, <<D1("background", v, c[3], FALSE)>>),
          RuleItem(<<PSel("#s")>>, <<D1("border-top-color", v, c[3], FALSE), D1("outline-color", v, 1, TRUE)>>) >>
  ELSE << RuleItem(<<PSel(".a")>>, <<D1("margin-top", v, c[3], FALSE)>>),
          RuleItem(<<PSel("p")>>, <<[p |-> "margin", v |-> <<v, v>>, sp |-> <<c[3], 1>>, i |-> FALSE]>>),
          RuleItem(<<PSel("#s")>>, <<D1("top", v, c[3], FALSE), D1("left", v, 1, TRUE)>>) >>
\* in a browser that understands everything the value that wins is the canonical value
ValsCheck(c) ==
  Bind(ValsSheet(c), LAMBDA sh :
    /\ WFSheet(sh)
    /\ LET p == IF GridVals[ValKeys[c[2]]].kind = "color" THEN "color" ELSE "margin-top" IN
       Winner(sh, [feats |-> SheetFeats(sh), conds |-> [a \in {} |-> TRUE]], 1, p) = Canon(ValKeys[c[2]]))

\* ---- declaration sequences (CssSeq).  SeqSize <= 2: longhands of the first and last side, shorthands with 1 and 4 values
Code(k, c) == (k - 1) * 7 + c
SeqSteps == {s \in 1..56 : StepK(s) \in (IF SeqSize <= 2 THEN {1, 4, 5, 8} ELSE {1, 2, 4, 5, 6, 8})}
HashF(a, b, c) == ((a + b + c) % 4) + 1
HashIp(a, b, c) == ((a + 2 * b + 3 * c) % 6) + 1
SeqFamsOf(a, b, c) == IF SeqAllFams THEN 1..4 ELSE {HashF(a, b, c)}
Strided(a, b, c) == (a + 3 * b + 5 * c) % SeqStride = 0
Seq3 == UNION {{<<"dseq", f, HashIp(a, b, c), a, b, c, 0, 0>> : f \in SeqFamsOf(a, b, c)} :
               <<a, b, c>> \in {x \in SeqSteps \X SeqSteps \X SeqSteps : Strided(x[1], x[2], x[3])}}
\* a plain shorthand first (all sides known), two steps, then one more plain step
Seq4 == UNION {{<<"dseq", f, HashIp(a, b, c), s, a, b, c, 0>> : f \in SeqFamsOf(s, a, b + c)} :
               s \in {Code(5, 1), Code(8, 1)}, <<a, b, c>> \in SeqSteps \X SeqSteps \X {Code(1, 1), Code(4, 1), Code(5, 1)}}
\* five longhands: side s twice in a row (classes c1, c2) at position p, the other sides plain, in order
Others(s) == SetToSortSeq((1..4) \ {s}, <)
L5Step(s, p, c1, c2, i) == IF i = p THEN Code(s, c1) ELSE IF i = p + 1 THEN Code(s, c2) ELSE Code(Others(s)[IF i < p THEN i ELSE i - 2], 1)
Seq5 == {<<"dseq", f, ip, L5Step(s, p, c1, c2, 1), L5Step(s, p, c1, c2, 2), L5Step(s, p, c1, c2, 3), L5Step(s, p, c1, c2, 4), L5Step(s, p, c1, c2, 5)>> :
           <<f, ip, s, p, c1, c2>> \in {x \in (1..4) \X (IF SeqAllFams THEN 1..6 ELSE {1, 3}) \X (1..4) \X (1..4) \X (1..7) \X (1..7) :
                                         SeqAllFams \/ x[1] = ((x[3] + x[4] + x[5] + x[6]) % 4) + 1}}
SeqChoices == {c \in Seq3 \cup Seq4 \cup Seq5 : SeqValid(c)}
NRW == CASE SeqSize = 1 -> 5 [] SeqSize = 2 -> 7 [] OTHER -> Len(RWraps)
RSeqChoices == {<<"rseq", a, b, c, sp, bp>> : a \in 1..NRW, b \in 1..NRW, c \in 1..NRW, sp \in 1..(CASE SeqSize = 1 -> 1 [] SeqSize = 2 -> 2 [] OTHER -> Len(RSels)), bp \in 1..Len(RBodies)}
\* a conditional wrapper identical to one that encloses it changes nothing: the path without it is live in the same environments
RECURSIVE DedupFrom(_, _)
DedupFrom(path, k) == IF k = 0 THEN <<>>
                      ELSE IF IsCondEl(path[k]) /\ \E j \in 1..(k - 1) : path[j] = path[k] THEN DedupFrom(path, k - 1)
                      ELSE Append(DedupFrom(path, k - 1), path[k])
Dedup(path) == DedupFrom(path, Len(path))
DupWrapperLaw(sh) ==
  \A ri \in 1..Len(sh) : Bind(Dedup(sh[ri].path), LAMBDA dp :
     /\ PathFeats(dp) = PathFeats(sh[ri].path) /\ MediaFeats(dp) = MediaFeats(sh[ri].path)
     /\ \A env \in EnvsOf(sh) : CondsTrueUpTo(dp, Len(dp), env) = CondsTrueUpTo(sh[ri].path, Len(sh[ri].path), env))

FamChoices(dummy) == CASE Family = "casc" -> CascChoices [] Family = "nest" -> NestChoices [] Family = "short" -> ShortChoices
                       [] Family = "vals" -> ValsChoices
                       [] Family = "seq" -> SeqChoices \cup RSeqChoices
                       [] Family = "dseq" -> SeqChoices
                       [] Family = "rseq" -> RSeqChoices
                       [] Family = "all" -> CascChoices \cup NestChoices \cup ShortChoices \cup ValsChoices \cup SeqChoices \cup RSeqChoices
\* a cheap spreading function over the parts
RECURSIVE SumFrom(_, _)
SumFrom(c, k) == IF k > Len(c) THEN 0 ELSE c[k] * k + SumFrom(c, k + 1)
PartOf(c) == (SumFrom(c, 2) % NParts) + 1

VARIABLES part, ch, ok
vars == <<part, ch, ok, gen_i, gen_out>>
\* ---- the properties (evaluated inside the action: TLC caches LET values there)
CascCheck(c) == Bind(CascSheet(c), LAMBDA sh :
                Bind(SheetInfo(sh), LAMBDA info :
                  /\ WFSheet(sh)
                  /\ \A env \in EnvsOf(sh) : WinnerUnique(sh, info, env) /\ LayerOrderTotal(sh, env)))
NestCheck(c) == NestEquiv(NestLists(c))
ShortCheck(c) == WFDecl(ShortDecl(c)) /\ ShorthandLaw(ShortDecl(c))
DSeqCheck(c) == Bind(SeqDecls(c), LAMBDA ds :
                  /\ \A i \in 1..Len(ds) : WFDecl(ds[i])
                  /\ SeqLaw(ds, {FamLonghands(SeqFams[c[2]])[k] : k \in 1..4}))
RSeqCheck(c) == Bind(RSeqSheet(c), LAMBDA sh :
                Bind(SheetInfo(sh), LAMBDA info :
                  /\ WFSheet(sh) /\ DupWrapperLaw(sh)
                  /\ \A env \in EnvsOf(sh) : WinnerUnique(sh, info, env)))
FamCheck(c) == CASE c[1] = "dseq" -> DSeqCheck(c) [] c[1] = "rseq" -> RSeqCheck(c) [] c[1] = "casc" -> CascCheck(c) [] c[1] = "nest" -> NestCheck(c) [] c[1] = "short" -> ShortCheck(c)
                 [] c[1] = "vals" -> ValsCheck(c)

MCInit == part \in 1..NParts /\ ch = <<>> /\ ok = TRUE /\ gen_i = 0 /\ gen_out = FALSE
MCNext == /\ ch = <<>>
          /\ ch' \in {c \in FamChoices(0) : PartOf(c) = part}
          /\ ok' = FamCheck(ch')
          /\ part' = part /\ UNCHANGED <<gen_i, gen_out>>
          /\ (Export /\ ch'[1] = "casc" /\ SumFrom(ch', 2) % CascStride = 0) => PrintT(<<"CASE", ToJson(Bind(CascSheet(ch'), LAMBDA sh : CaseOf(ch', sh) @@ [items |-> sh]))>>)
          /\ (Export /\ ch'[1] = "nest" /\ SumFrom(ch', 2) % NestStride = 0) =>
                PrintT(<<"CASE", ToJson(Bind(NestSheet(ch'), LAMBDA sh : CaseOf(ch', sh) @@ [items |-> sh]))>>)
          /\ (Export /\ ExportLabels /\ ch'[1] \in {"dseq", "rseq"}) => PrintT(<<"CASE", ToJson([lab |-> TRUE, c |-> ch', l |-> ChoiceLabels(ch')])>>)
          /\ (Export /\ ch'[1] = "vals") => PrintT(<<"CASE", ToJson(Bind(ValsSheet(ch'), LAMBDA sh : CaseOf(ch', sh) @@ [items |-> sh]))>>)
MCSpec == MCInit /\ [][MCNext]_vars
\* WinnerUnique + LayerOrderTotal (casc), NestEquiv (nest), ShorthandLaw (short) hold for every enumerated member
FamilyOK == ok

=============================================================================
