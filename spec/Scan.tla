------------------------------- MODULE Scan -------------------------------
(***************************************************************************)
(* The parallel scan phase of a build (internal/bundler/bundler.go:        *)
(* ScanBundle, preprocessInjectedFiles, addEntryPoints, maybeParseFile,    *)
(* parseFile, scanAllDependencies).                                        *)
(*                                                                         *)
(* One goroutine per file parses it and sends the result on an unbuffered  *)
(* channel; the single main goroutine receives results in whatever order   *)
(* they arrive, and for each import record (in record order) either finds  *)
(* the target in `visited` or allocates the next source index and spawns a *)
(* parse goroutine.  Source indices therefore depend on the arrival order; *)
(* everything that reaches the output must not (C08).                      *)
(*                                                                         *)
(* The graph is a constant of the model (a small named family, see         *)
(* ScanMC.tla); the same graphs are materialised as real projects and the  *)
(* arrival orders TLC enumerates are imposed on the real scan through the  *)
(* `scan.send` gate.                                                       *)
(***************************************************************************)
EXTENDS Integers, Sequences, FiniteSets, TLC

CONSTANTS
  Modules,      \* set of module names (strings)
  Imports,      \* [Modules -> Seq(Modules)] import records in source order
  Entries,      \* Seq(Modules): entry points in the order given
  Injected,     \* Seq(Modules): injected files (parsed before the entry points)
  NOnStart,     \* number of on-start callbacks
  AllowCancel,  \* BOOLEAN: the cancel flag may be set at any time
  PanicIn       \* set of modules whose parse goroutine panics (fault model)

Runtime == "<runtime>"
Files == Modules \cup {Runtime}

VARIABLES
  phase,        \* "onstart" | "inject" | "entries" | "scan" | "drain" | "done" | "stuck"
  startLeft,    \* on-start callbacks still running
  visited,      \* [Files -> source index or -1]
  nextIdx,      \* next source index to allocate
  remaining,    \* s.remaining
  parsing,      \* parse goroutines that are still parsing
  ready,        \* parse goroutines blocked sending their result
  received,     \* files whose result the main goroutine has received
  arrival,      \* order in which results were received (history)
  spawns,       \* [Files -> number of parse goroutines ever started for it]
  entryNext,    \* index of the next entry point to add
  injNext,      \* index of the next injected file to add
  injWaiting,   \* injected files whose `inject` channel has not been sent on yet
  panicked,     \* files whose goroutine panicked (recovered: message logged)
  cancel        \* the cancel flag

vars == <<phase, startLeft, visited, nextIdx, remaining, parsing, ready, received, arrival,
          spawns, entryNext, injNext, injWaiting, panicked, cancel>>

Init ==
  /\ phase = "onstart"
  /\ startLeft = NOnStart
  /\ visited = [f \in Files |-> IF f = Runtime THEN 0 ELSE -1]
  /\ nextIdx = 1
  /\ remaining = 1                    \* the runtime is always parsed first
  /\ parsing = {Runtime} /\ ready = {} /\ received = {}
  /\ arrival = <<>>
  /\ spawns = [f \in Files |-> IF f = Runtime THEN 1 ELSE 0]
  /\ entryNext = 1 /\ injNext = 1 /\ injWaiting = {}
  /\ panicked = {}
  /\ cancel = FALSE

(***************************************************************************)
(* maybeParseFile(m): the effect on (visited, nextIdx, remaining, parsing, *)
(* spawns) of visiting the files in sequence `ms` in order                 *)
(***************************************************************************)
RECURSIVE Visit(_, _, _, _, _, _)
Visit(ms, vis, nxt, rem, par, sp) ==
  IF ms = <<>> THEN <<vis, nxt, rem, par, sp>>
  ELSE LET m == Head(ms) IN
       IF vis[m] # -1
         THEN Visit(Tail(ms), vis, nxt, rem, par, sp)
         ELSE Visit(Tail(ms), [vis EXCEPT ![m] = nxt], nxt + 1, rem + 1, par \cup {m},
                    [sp EXCEPT ![m] = @ + 1])

(***************************************************************************)
(* on-start callbacks and the barrier                                      *)
(***************************************************************************)
OnStartEnd ==
  /\ phase = "onstart" /\ startLeft > 0
  /\ startLeft' = startLeft - 1
  /\ UNCHANGED <<phase, visited, nextIdx, remaining, parsing, ready, received, arrival, spawns,
                 entryNext, injNext, injWaiting, panicked, cancel>>

Barrier ==
  /\ phase = "onstart" /\ startLeft = 0
  /\ phase' = IF cancel THEN "drain" ELSE "inject"
  /\ UNCHANGED <<startLeft, visited, nextIdx, remaining, parsing, ready, received, arrival, spawns,
                 entryNext, injNext, injWaiting, panicked, cancel>>

(***************************************************************************)
(* preprocessInjectedFiles: spawn every injected file, then wait until     *)
(* each of them has sent on its `inject` channel (injectWaitGroup.Wait())   *)
(***************************************************************************)
InjectSpawn ==
  /\ phase = "inject" /\ injNext <= Len(Injected)
  /\ LET m == Injected[injNext]
         v == Visit(<<m>>, visited, nextIdx, remaining, parsing, spawns) IN
       /\ visited' = v[1] /\ nextIdx' = v[2] /\ remaining' = v[3] /\ parsing' = v[4] /\ spawns' = v[5]
       \* an already-visited injected file gets an immediate (empty) send on its channel
       /\ injWaiting' = IF visited[m] = -1 THEN injWaiting \cup {m} ELSE injWaiting
  /\ injNext' = injNext + 1
  /\ UNCHANGED <<phase, startLeft, ready, received, arrival, entryNext, panicked, cancel>>

InjectWaitDone ==
  /\ phase = "inject" /\ injNext > Len(Injected) /\ injWaiting = {}
  /\ phase' = IF cancel THEN "drain" ELSE "entries"
  /\ UNCHANGED <<startLeft, visited, nextIdx, remaining, parsing, ready, received, arrival, spawns,
                 entryNext, injNext, injWaiting, panicked, cancel>>

(***************************************************************************)
(* addEntryPoints: in entry order, after the barrier                       *)
(***************************************************************************)
AddEntry ==
  /\ phase = "entries" /\ entryNext <= Len(Entries)
  /\ LET v == Visit(<<Entries[entryNext]>>, visited, nextIdx, remaining, parsing, spawns) IN
       /\ visited' = v[1] /\ nextIdx' = v[2] /\ remaining' = v[3] /\ parsing' = v[4] /\ spawns' = v[5]
  /\ entryNext' = entryNext + 1
  /\ UNCHANGED <<phase, startLeft, ready, received, arrival, injNext, injWaiting, panicked, cancel>>

EntriesDone ==
  /\ phase = "entries" /\ entryNext > Len(Entries)
  /\ phase' = IF cancel THEN "drain" ELSE "scan"
  /\ UNCHANGED <<startLeft, visited, nextIdx, remaining, parsing, ready, received, arrival, spawns,
                 entryNext, injNext, injWaiting, panicked, cancel>>

(***************************************************************************)
(* a parse goroutine                                                       *)
(***************************************************************************)
\* parseFile finished normally: an injected file first sends on its inject
\* channel (buffered, capacity 1), then blocks sending its result
ParseReady(f) ==
  /\ f \in parsing /\ f \notin PanicIn
  /\ parsing' = parsing \ {f}
  /\ ready' = ready \cup {f}
  /\ injWaiting' = injWaiting \ {f}
  /\ UNCHANGED <<phase, startLeft, visited, nextIdx, remaining, received, arrival, spawns,
                 entryNext, injNext, panicked, cancel>>

\* parseFile panicked: the deferred recover logs a message and sends the
\* (incomplete) result -- but NOT on the inject channel
ParsePanic(f) ==
  /\ f \in parsing /\ f \in PanicIn
  /\ parsing' = parsing \ {f}
  /\ ready' = ready \cup {f}
  /\ panicked' = panicked \cup {f}
  /\ UNCHANGED <<phase, startLeft, visited, nextIdx, remaining, received, arrival, spawns,
                 entryNext, injNext, injWaiting, cancel>>

(***************************************************************************)
(* scanAllDependencies: the single consumer                                *)
(***************************************************************************)
ImportsOf(f) == IF f = Runtime \/ f \in panicked THEN <<>> ELSE Imports[f]

MainRecv(f) ==
  /\ phase = "scan" /\ ~cancel
  /\ f \in ready
  /\ ready' = ready \ {f}
  /\ received' = received \cup {f}
  /\ arrival' = Append(arrival, f)
  /\ LET v == Visit(ImportsOf(f), visited, nextIdx, remaining - 1, parsing, spawns) IN
       /\ visited' = v[1] /\ nextIdx' = v[2] /\ remaining' = v[3] /\ parsing' = v[4] /\ spawns' = v[5]
  /\ UNCHANGED <<phase, startLeft, entryNext, injNext, injWaiting, panicked, cancel>>

ScanDone ==
  /\ phase = "scan" /\ remaining = 0
  /\ phase' = "done"
  /\ UNCHANGED <<startLeft, visited, nextIdx, remaining, parsing, ready, received, arrival, spawns,
                 entryNext, injNext, injWaiting, panicked, cancel>>

\* the cancel flag is polled at the top of the loop; the deferred drain loop
\* then consumes all outstanding results
CancelSet ==
  /\ AllowCancel /\ ~cancel /\ phase # "done"
  /\ cancel' = TRUE
  /\ UNCHANGED <<phase, startLeft, visited, nextIdx, remaining, parsing, ready, received, arrival, spawns,
                 entryNext, injNext, injWaiting, panicked>>

PollCancel ==
  /\ phase = "scan" /\ cancel /\ remaining > 0
  /\ phase' = "drain"
  /\ UNCHANGED <<startLeft, visited, nextIdx, remaining, parsing, ready, received, arrival, spawns,
                 entryNext, injNext, injWaiting, panicked, cancel>>

Drain(f) ==
  /\ phase = "drain" /\ f \in ready
  /\ ready' = ready \ {f}
  /\ remaining' = remaining - 1
  /\ UNCHANGED <<phase, startLeft, visited, nextIdx, parsing, received, arrival, spawns,
                 entryNext, injNext, injWaiting, panicked, cancel>>

DrainDone ==
  /\ phase = "drain" /\ remaining = 0
  /\ phase' = "done"
  /\ UNCHANGED <<startLeft, visited, nextIdx, remaining, parsing, ready, received, arrival, spawns,
                 entryNext, injNext, injWaiting, panicked, cancel>>

Next ==
  \/ OnStartEnd \/ Barrier \/ InjectSpawn \/ InjectWaitDone \/ AddEntry \/ EntriesDone
  \/ \E f \in Files : ParseReady(f) \/ ParsePanic(f) \/ MainRecv(f) \/ Drain(f)
  \/ ScanDone \/ CancelSet \/ PollCancel \/ DrainDone

Spec == Init /\ [][Next]_vars
FairSpec == Spec /\ WF_vars(Next)

(***************************************************************************)
(* What must not depend on the arrival order                               *)
(***************************************************************************)
\* findReachableFiles: post-order DFS from the runtime, then the entry
\* points in order, over import records in order.  A function of the graph.
RECURSIVE Dfs(_, _)
Dfs(stack, acc) ==  \* stack: sequence of <<module, next import position>>
  IF stack = <<>> THEN acc
  ELSE LET top == stack[Len(stack)]
           m == top[1]
           k == top[2]
           imps == IF m = Runtime THEN <<>> ELSE Imports[m]
           InSeq(x, s) == \E i \in 1..Len(s) : s[i] = x
           OnStack(x) == \E i \in 1..Len(stack) : stack[i][1] = x
       IN IF k > Len(imps)
            THEN Dfs(SubSeq(stack, 1, Len(stack) - 1), IF InSeq(m, acc) THEN acc ELSE Append(acc, m))
            ELSE LET n == imps[k]
                     rest == [stack EXCEPT ![Len(stack)] = <<m, k + 1>>]
                 IN IF InSeq(n, acc) \/ OnStack(n) THEN Dfs(rest, acc) ELSE Dfs(Append(rest, <<n, 1>>), acc)

RECURSIVE DfsAll(_, _)
DfsAll(roots, acc) ==
  IF roots = <<>> THEN acc
  ELSE LET r == Head(roots)
           InSeq(x, s) == \E i \in 1..Len(s) : s[i] = x
       IN DfsAll(Tail(roots), IF InSeq(r, acc) THEN acc ELSE Dfs(<<<<r, 1>>>>, acc))

StableOrder == DfsAll(<<Runtime>> \o Injected \o Entries, <<>>)
Reachable == {StableOrder[i] : i \in 1..Len(StableOrder)}

TypeOK ==
  /\ phase \in {"onstart", "inject", "entries", "scan", "drain", "done"}
  /\ remaining >= 0 /\ nextIdx >= 1
  /\ parsing \subseteq Files /\ ready \subseteq Files /\ received \subseteq Files

\* each module identity is parsed (hence loaded) at most once per build
LoadOnce == \A f \in Files : spawns[f] <= 1

\* source indices are injective
IdxInjective ==
  \A f, g \in Files : (f # g /\ visited[f] # -1 /\ visited[g] # -1) => visited[f] # visited[g]

\* s.remaining counts exactly the goroutines whose result is outstanding
RemainingExact == remaining = Cardinality(parsing \cup ready)

\* nothing is resolved or loaded before the on-start barrier
StartBeforeLoad == (phase = "onstart") => (\A m \in Modules : spawns[m] = 0)

\* a completed, uncancelled, panic-free scan has received exactly the files
\* reachable from the runtime, the injected files and the entry points, whatever the
\* arrival order was, so the stable (DFS) order is a function of the graph
CompleteScan ==
  (phase = "done" /\ ~cancel /\ panicked = {}) =>
     /\ received = Reachable
     /\ {f \in Files : visited[f] # -1} = Reachable
     /\ Len(arrival) = Cardinality(Reachable)

\* all channels are drained at the end on every path (normal, cancelled, panicking)
Drained == (phase = "done") => (remaining = 0 /\ ready = {} /\ parsing = {})

\* the scan always terminates (liveness, FairSpec)
Termination == <>(phase = "done")
=============================================================================
