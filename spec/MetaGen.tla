------------------------------ MODULE MetaGen ------------------------------
(***************************************************************************)
(* The scenario space of C19, enumerated by TLC and built with the real    *)
(* api.Build (metafile on).  Three groups:                                  *)
(*                                                                         *)
(*  base  build families x path styles x minify level x format x source     *)
(*        maps x legal comments                                             *)
(*  mix   ONE application whose chunks mix every kind of reference to       *)
(*        another emitted file (file-loader assets, dynamic-import chunks,  *)
(*        a statically shared chunk, CSS url() assets) with >= 3 inputs per *)
(*        chunk, x number of assets x number of lazy pages x name lengths x *)
(*        import order (decides the numbering of files and chunks) x path   *)
(*        templates (directories for chunks / assets / both, public path)   *)
(*  res   resolution-dependent input paths: one mechanism per scenario      *)
(*        (main/module/browser fields and the dual-package rule, browser    *)
(*        map incl. disabled modules, tsconfig paths, alias, symlinked      *)
(*        package with/without preserveSymlinks, path spellings,            *)
(*        sideEffects:false, package.json "imports" to an external, import  *)
(*        attributes, a resolve/load plugin with a virtual namespace) x     *)
(*        platform x main-field order x how the package is referenced       *)
(*        (import / require / both / dynamic import + require)              *)
(*                                                                         *)
(* The specification predicts for each scenario what the account must show: *)
(* whether final paths are substituted, whether one output has several      *)
(* contributing inputs, which reference kinds meet in one chunk, and (res)  *)
(* the file every reference under test resolves to.  Predictions are        *)
(* compared with the real metafile as SPEC-DRIFT (never a verdict); the     *)
(* verdicts come from MetaState.tla evaluated on the record of the build.   *)
(***************************************************************************)
EXTENDS Integers, Sequences, FiniteSets, TLC, Json

CONSTANTS SMs, Legals

Minis == {"none", "ids", "all"}   \* ids: identifiers + syntax minified, white space (and the path comments) kept

(***************************************************************************)
(* base                                                                    *)
(***************************************************************************)
Families == {"js", "splitting", "css", "jscss", "file", "copy", "externals", "glob", "inject", "stdin"}

Scenarios ==
  [ family : Families, paths : {"flat", "nested", "public"}, mini : Minis,
    format : {"esm", "cjs", "iife"}, sm : SMs, legal : Legals ]

\* code splitting needs ESM; a CSS entry point has no module format
Sensible(s) ==
  /\ (s.family \in {"splitting", "css"}) => s.format = "esm"
  /\ (s.family = "glob" /\ s.format # "esm") => s.paths = "flat"

Splitting(s) == s.format = "esm" /\ s.family \in {"splitting", "glob", "js"}

\* do emitted files refer to each other by path (so that a unique key had to be substituted)?
Substitutes(s) ==
  \/ s.family \in {"splitting", "css", "jscss", "file", "copy"}
  \/ (s.family = "glob" /\ Splitting(s))
\* does some output have two or more contributing inputs?
MultiInput(s) == s.family # "copy" /\ ~(s.family = "glob" /\ Splitting(s))

(***************************************************************************)
(* mix                                                                     *)
(***************************************************************************)
MixScenarios ==
  [ family : {"mix"}, assets : 1..3, lazy : 1..3, names : {"short", "long", "mixed"},
    css : BOOLEAN, shared : BOOLEAN, order : {"assetsFirst", "pagesFirst"},
    paths : {"flat", "nested", "public", "deepchunks", "deepassets"}, mini : Minis ]

\* the kinds of placeholders that meet in the entry chunk of the application
MixKinds(s) == {"asset", "chunk"} \cup (IF s.css THEN {"cssasset"} ELSE {})
\* both index spaces are populated beyond the first few numbers, so that equal
\* numbers occur in both (files: runtime, entries, then imports in order;
\* chunks: entry points, lazy pages, shared chunks)
MixCoincidencePossible(s) == s.assets + s.lazy >= 3

(***************************************************************************)
(* res                                                                     *)
(***************************************************************************)
Mechs == {"dual", "browsermap", "tspaths", "alias", "symlink", "spelling", "sidefx", "pkgimports", "jsonattr", "plugin"}
Hows == {"import", "require", "both", "dynboth"}

ResScenarios ==
  [ family : {"res"}, mech : Mechs, platform : {"browser", "node"}, mf : {"default", "mainmodule", "modulemain"},
    how : Hows, preserve : BOOLEAN, format : {"esm", "cjs", "iife"}, mini : {"none", "all"} ]

ResSensible(s) ==
  /\ s.mf # "default" => s.mech = "dual"
  /\ s.preserve => s.mech = "symlink"

\* the kinds of reference to the specifier under test
RefKinds(s) ==
  CASE s.how = "import" -> {"import-statement"}
    [] s.how = "require" -> {"require-call"}
    [] s.how = "both" -> {"import-statement", "require-call"}
    [] s.how = "dynboth" -> {"dynamic-import", "require-call"}

\* the file a reference of kind k to the specifier under test resolves to
\* (path relative to the working directory, as the metafile spells it)
Target(s, k) ==
  CASE s.mech = "dual" ->
         \* main-field order: explicit order wins; the default order of the
         \* browser platform is browser, module, main with the dual-package
         \* rule (module for import, main for require, and main for everybody
         \* as soon as somebody requires the package); node: main first
         (IF s.mf = "mainmodule" THEN "node_modules/pkg/lib/main.js"
          ELSE IF s.mf = "modulemain" THEN "node_modules/pkg/esm/module.js"
          ELSE IF s.platform = "node" THEN "node_modules/pkg/lib/main.js"
          ELSE IF "require-call" \in RefKinds(s) THEN "node_modules/pkg/lib/main.js"
          ELSE "node_modules/pkg/esm/module.js")
    [] s.mech = "browsermap" -> (IF s.platform = "browser" THEN "node_modules/bpkg/br/main.js" ELSE "node_modules/bpkg/lib/main.js")
    [] s.mech = "tspaths" -> "src/mapped/thing.js"
    [] s.mech = "alias" -> "node_modules/realpkg/index.js"
    [] s.mech = "symlink" -> (IF s.preserve THEN "node_modules/linked/index.js" ELSE "packages/linked-real/index.js")
    [] s.mech = "spelling" -> "src/lib2/thing.js"
    [] s.mech = "sidefx" -> "node_modules/pure/index.js"
    [] s.mech = "pkgimports" -> "src/internal.js"
    [] s.mech = "jsonattr" -> "src/data.json"
    [] s.mech = "plugin" -> "virt:thing"

\* inputs of the bundle without any code in the output (removed because of sideEffects:false)
Empty(s) == IF s.mech = "sidefx" THEN {"node_modules/pure-unused/index.js"} ELSE {}
\* inputs that the browser map disables: listed as "(disabled):<path>" with size 0
Disabled(s) == IF s.mech = "browsermap" /\ s.platform = "browser" THEN {"(disabled):node_modules/bpkg/lib/off.js"} ELSE {}

Expect(s) == [k \in RefKinds(s) |-> Target(s, k)]

VARIABLE x
Init == x = 0
Next == x' = x
Spec == Init /\ [][Next]_x

Export ==
  /\ \A s \in Scenarios :
       Sensible(s) => PrintT(<<"CASE", ToJson(s @@ [minify |-> s.mini = "all", splitting |-> Splitting(s), substitutes |-> Substitutes(s), multi |-> MultiInput(s)])>>)
  /\ \A s \in MixScenarios :
       PrintT(<<"CASE", ToJson(s @@ [minify |-> s.mini = "all", format |-> "esm", sm |-> "none", legal |-> "inline", splitting |-> TRUE, substitutes |-> TRUE, multi |-> TRUE,
                                      kinds |-> MixKinds(s), coincide |-> MixCoincidencePossible(s)])>>)
  /\ \A s \in ResScenarios :
       ResSensible(s) => PrintT(<<"CASE", ToJson(s @@ [minify |-> s.mini = "all", paths |-> "flat", sm |-> "none", legal |-> "inline", splitting |-> FALSE, substitutes |-> FALSE, multi |-> TRUE,
                                                      expect |-> Expect(s), empty |-> Empty(s), disabled |-> Disabled(s)])>>)

ASSUME \E s \in Scenarios : Sensible(s) /\ Substitutes(s) /\ s.paths = "public"
\* the scenario space contains an output in which an asset placeholder and a
\* chunk placeholder meet, and a package that is both imported and required
ASSUME \E s \in MixScenarios : {"asset", "chunk", "cssasset"} \subseteq MixKinds(s) /\ MixCoincidencePossible(s)
ASSUME \E s \in ResScenarios : ResSensible(s) /\ s.mech = "dual" /\ Target(s, "import-statement") # Target([s EXCEPT !.how = "import"], "import-statement")
ASSUME Export
=============================================================================
