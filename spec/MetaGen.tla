------------------------------ MODULE MetaGen ------------------------------
(***************************************************************************)
(* The scenario space of C19: build families x path styles x minify x      *)
(* format x source maps x legal comments, enumerated by TLC and built with  *)
(* the real api.Build (metafile on).  The specification predicts for each   *)
(* scenario whether final paths have to be substituted into an output       *)
(* (references between emitted files) and whether one output has several    *)
(* contributing inputs; both are compared with what the real metafile says  *)
(* (a disagreement is SPEC-DRIFT, never a verdict).                         *)
(***************************************************************************)
EXTENDS Integers, Sequences, FiniteSets, TLC, Json

CONSTANTS SMs, Legals

Families == {"js", "splitting", "css", "jscss", "file", "copy", "externals", "glob", "inject", "stdin"}

Scenarios ==
  [ family : Families, paths : {"flat", "nested", "public"}, minify : BOOLEAN,
    format : {"esm", "cjs", "iife"}, sm : SMs, legal : Legals ]

\* code splitting needs ESM; a CSS entry point has no module format
Sensible(s) ==
  /\ (s.family \in {"splitting", "css"}) => s.format = "esm"
  /\ (s.family = "glob" /\ s.format # "esm") => s.paths = "flat"

Splitting(s) == s.format = "esm" /\ s.family \in {"splitting", "glob", "js"}

\* do emitted files refer to each other by path (so that a unique key had to be substituted)?
Substitutes(s) ==
  \/ s.family \in {"splitting", "css", "jscss", "file", "copy"}
  \/ (s.family = "glob" /\ Splitting(s))
\* does some output have two or more contributing inputs?
MultiInput(s) == s.family # "copy" /\ ~(s.family = "glob" /\ Splitting(s))

VARIABLE x
Init == x = 0
Next == x' = x
Spec == Init /\ [][Next]_x

Export ==
  \A s \in Scenarios :
     Sensible(s) => PrintT(<<"CASE", ToJson(s @@ [splitting |-> Splitting(s), substitutes |-> Substitutes(s), multi |-> MultiInput(s)])>>)

ASSUME \E s \in Scenarios : Sensible(s) /\ Substitutes(s) /\ s.paths = "public"
ASSUME Export
=============================================================================
