------------------------------ MODULE CacheDisk ------------------------------
(***************************************************************************)
(* C09, the ON-DISK result of rebuilds (pkg/api/api_impl.go rebuildImpl,   *)
(* internalContext.latestHashes).                                          *)
(*                                                                         *)
(* With Write = true a build context keeps the hashes of the files its     *)
(* latest build produced.  The next build                                  *)
(*   - deletes every path of the old hashes that is not produced any more  *)
(*     (also when the build failed: a failed build produces nothing),      *)
(*   - writes nothing if it failed,                                        *)
(*   - skips a file whose hash equals the old one, after reading the file  *)
(*     back and comparing its bytes,                                       *)
(*   - replaces latestHashes by the new hashes (empty after a failure).    *)
(* The property: after every rebuild the output directory holds exactly    *)
(* what a fresh build of the current tree writes into an empty output      *)
(* directory, whatever happened before: failing builds (syntax error,      *)
(* unresolved import, plugin error) repaired to identical or to different  *)
(* content, outputs that disappear (a dynamic-import chunk removed or      *)
(* renamed by its content hash), outputs modified or deleted by a foreign  *)
(* writer between builds.                                                  *)
(*                                                                         *)
(* Tree (harness/props/c09/disk.go): entry.js (version 1|2) imports x.js   *)
(* and "virtual:flag" (a plugin that fails when flag.txt says so) and,     *)
(* when chunk # "none", lazy.js dynamically (splitting: a chunk whose name *)
(* carries the hash of its content c1|c2).                                 *)
(***************************************************************************)
EXTENDS Integers, Sequences, FiniteSets, TLC, Json

CONSTANTS
  MaxEdits,
  SkipReadsBack,     \* BOOLEAN: is the file read back before a write is skipped? (code: TRUE)
  FailResetsHashes,  \* BOOLEAN: does a failed build replace latestHashes (by nothing)? (code: TRUE)
  Foreign,           \* BOOLEAN: are foreign writers part of the alphabet?
  Export

VARIABLES
  ver,     \* 1 | 2          content version of entry.js
  fault,   \* "none" | "syntax" | "unres" | "plugin"
  chunk,   \* "none" | "c1" | "c2"
  latest,  \* latestHashes: set of <<path, content>>
  disk,    \* the output directory: set of <<path, content>> ("X" = bytes of a foreign writer)
  hist, exp, phase, ok

vars == <<ver, fault, chunk, latest, disk, hist, exp, phase, ok>>

Paths(S) == {x[1] : x \in S}

\* what a build of the tree produces (path, content); nothing if it fails
Out(v, f, c) ==
  IF f # "none" THEN {}
  ELSE {<<"entry", ToString(v) \o "/" \o c>>} \cup (IF c = "none" THEN {} ELSE {<<"chunk-" \o c, c>>})

\* a fresh build into an empty output directory
FreshDisk(v, f, c) == Out(v, f, c)

\* rebuildImpl with oldHashes = latest on the directory dsk
Rebuild(v, f, c, old, dsk) ==
  LET new == Out(v, f, c)
      failed == f # "none"
      toDelete == Paths(old) \ Paths(new)
      d1 == {x \in dsk : x[1] \notin toDelete}
      skip == {x \in new : x \in old /\ (SkipReadsBack => x \in d1)}
      toWrite == IF failed THEN {} ELSE new \ skip
      d2 == {x \in d1 : x[1] \notin Paths(toWrite)} \cup toWrite
  IN [disk |-> d2, latest |-> IF failed /\ ~FailResetsHashes THEN old ELSE new,
      skipped |-> Paths(skip), written |-> Paths(toWrite), deleted |-> toDelete \cap Paths(dsk)]

E(op, v) == [op |-> op, v |-> v]
Kind(p) == IF p = "entry" THEN "entry" ELSE "chunk"
Edits ==
  {E("ver", ToString(3 - ver))}
  \cup {E("fault", x) : x \in {"none", "syntax", "unres", "plugin"} \ {fault}}
  \cup {E("chunk", x) : x \in {"none", "c1", "c2"} \ {chunk}}
  \cup (IF Foreign THEN {E("fmod", Kind(p)) : p \in Paths({x \in disk : x[2] # "X"})} \cup {E("fdel", Kind(p)) : p \in Paths(disk)} ELSE {})

Init ==
  /\ ver = 1 /\ fault = "none" /\ chunk = "c1"
  /\ latest = {} /\ disk = {}
  /\ hist = <<>> /\ exp = <<>> /\ phase = "build" /\ ok = TRUE

DoBuild ==
  /\ phase = "build"
  /\ LET b == Rebuild(ver, fault, chunk, latest, disk)
         exp2 == IF hist = <<>> THEN exp
                 ELSE Append(exp, [failed |-> fault # "none", files |-> Paths(FreshDisk(ver, fault, chunk)),
                                   skipped |-> b.skipped, written |-> b.written, deleted |-> b.deleted])
     IN /\ disk' = b.disk /\ latest' = b.latest /\ exp' = exp2
        /\ ok' = (b.disk = FreshDisk(ver, fault, chunk))
        /\ IF Export /\ Len(hist) = MaxEdits
           THEN PrintT(<<"CASE", ToJson([edits |-> hist, expect |-> exp2])>>) ELSE TRUE
  /\ phase' = "edit"
  /\ UNCHANGED <<ver, fault, chunk, hist>>

DoEdit ==
  /\ phase = "edit"
  /\ Len(hist) < MaxEdits
  /\ \E e \in Edits :
       /\ hist' = Append(hist, e)
       /\ ver' = IF e.op = "ver" THEN 3 - ver ELSE ver
       /\ fault' = IF e.op = "fault" THEN e.v ELSE fault
       /\ chunk' = IF e.op = "chunk" THEN e.v ELSE chunk
       /\ disk' = CASE e.op = "fmod" -> {IF Kind(x[1]) = e.v THEN <<x[1], "X">> ELSE x : x \in disk}
                    [] e.op = "fdel" -> {x \in disk : Kind(x[1]) # e.v}
                    [] OTHER -> disk
  /\ phase' = "build"
  /\ UNCHANGED <<latest, exp, ok>>

Done == phase = "edit" /\ Len(hist) = MaxEdits /\ UNCHANGED vars
Next == DoBuild \/ DoEdit \/ Done
Spec == Init /\ [][Next]_vars

TypeOK == phase \in {"build", "edit"} /\ Len(hist) <= MaxEdits
\* after every rebuild the output directory equals what a fresh build writes into an empty one
RebuildDiskEqualsFreshDisk == ok
\* the context never leaves a file behind that it wrote and no longer produces
NoStaleOutputs == phase = "edit" => Paths(disk) \subseteq Paths(Out(ver, fault, chunk))
\* latestHashes describes what the context believes is on disk: paths it will clean up
LatestCoversDisk == phase = "edit" => Paths(disk) \subseteq Paths(latest)
=============================================================================
