----------------------------- MODULE TokensOpts -----------------------------
(***************************************************************************)
(* C16 part (ii)(e): OPTION COMBINATIONS over the options that switch the  *)
(* goroutine / wait-group / channel paths of the pipeline (source map      *)
(* workers, chunk generators, per-file printers, legal comment and         *)
(* metafile collection, writing to disk), with WELL-FORMED small inputs:   *)
(* a hang or panic in the SUCCESS path of an option combination is what    *)
(* this part is after (the error paths are part (i) and (ii)(a-c)).        *)
(*                                                                         *)
(* A covering array of strength 2: one state per PAIR (dimension i = value *)
(* u, dimension j = value v), i < j.  For a feasible pair the model        *)
(* completes the pair to a full row: the other dimensions are filled in    *)
(* dimension order with a value that is compatible (relation Bad) with     *)
(* everything fixed so far, chosen by a hash of (Seed, pair, dimension),   *)
(* so different seeds give different 3-way combinations.  TLC checks       *)
(*   RowValid    the row of a feasible pair is complete and has no Bad     *)
(*               pair of values                                            *)
(*   RowCovers   the row holds the pair                                    *)
(*   Strength2   (in the final state count) every feasible pair is a state *)
(* and exports every row; the harness runs each row through the real API   *)
(* with the well-formed inputs of the row's input kind.                    *)
(***************************************************************************)
EXTENDS Integers, Sequences, FiniteSets, TLC, Json

CONSTANTS Seed

Dims == <<
  [name |-> "mode", vals |-> <<"bundle", "build", "transform">>],           \* api.Build with/without Bundle, api.Transform
  [name |-> "sourcemap", vals |-> <<"none", "inline", "linked", "external", "both">>],
  [name |-> "sourcesContent", vals |-> <<"include", "exclude">>],
  [name |-> "inputmap", vals |-> <<"none", "inline-valid", "file-valid", "malformed">>],   \* the sourceMappingURL the inputs carry
  [name |-> "format", vals |-> <<"iife", "cjs", "esm">>],
  [name |-> "splitting", vals |-> <<"off", "on">>],
  [name |-> "minify", vals |-> <<"off", "on">>],
  [name |-> "legal", vals |-> <<"none", "inline", "eof", "linked", "external">>],
  [name |-> "metafile", vals |-> <<"off", "on">>],
  [name |-> "write", vals |-> <<"memory", "disk">>],
  [name |-> "input", vals |-> <<"js", "css", "js+css">>] >>
ND == Len(Dims)
DimIx(n) == CHOOSE k \in 1..ND : Dims[k].name = n
ValIx(k, v) == CHOOSE x \in 1..Len(Dims[k].vals) : Dims[k].vals[x] = v

\* value combinations that the API rejects up front (the row would only exercise option validation)
BadNames == {
  <<"mode", "transform", "splitting", "on">>, <<"mode", "transform", "metafile", "on">>, <<"mode", "transform", "write", "disk">>,
  <<"mode", "transform", "legal", "linked">>, <<"mode", "transform", "sourcemap", "linked">>, <<"mode", "transform", "input", "js+css">>,
  <<"mode", "transform", "inputmap", "file-valid">>,
  <<"format", "iife", "splitting", "on">>, <<"format", "cjs", "splitting", "on">>,
  <<"mode", "build", "input", "js+css">> }
BadIx == {<<DimIx(b[1]), ValIx(DimIx(b[1]), b[2]), DimIx(b[3]), ValIx(DimIx(b[3]), b[4])>> : b \in BadNames}
Bad(i, u, j, v) == <<i, u, j, v>> \in BadIx \/ <<j, v, i, u>> \in BadIx

Pairs == {<<i, u, j, v>> \in (1..ND) \X (1..5) \X (1..ND) \X (1..5) : i < j /\ u <= Len(Dims[i].vals) /\ v <= Len(Dims[j].vals)}

VARIABLES pair
vars == <<pair>>

Hash(p, k) == Seed * 7919 + p[1] * 131 + p[2] * 31 + p[3] * 17 + p[4] * 7 + k * k * 3 + k
Nth(S, n) == CHOOSE x \in S : Cardinality({y \in S : y < x}) = n

RECURSIVE Fill(_, _, _)
Fill(row, k, p) ==
  IF k > ND THEN row
  ELSE IF row[k] # 0 THEN Fill(row, k + 1, p)
  ELSE LET dom == {v \in 1..Len(Dims[k].vals) : \A d \in 1..ND : row[d] # 0 => ~Bad(k, v, d, row[d])} IN
       IF dom = {} THEN row
       ELSE Fill([row EXCEPT ![k] = Nth(dom, Hash(p, k) % Cardinality(dom))], k + 1, p)

Row(p) == Fill([k \in 1..ND |-> IF k = p[1] THEN p[2] ELSE IF k = p[3] THEN p[4] ELSE 0], 1, p)
Feasible(p) == ~Bad(p[1], p[2], p[3], p[4])
Valid(row) == /\ \A k \in 1..ND : row[k] \in 1..Len(Dims[k].vals)
              /\ \A k, d \in 1..ND : k # d => ~Bad(k, row[k], d, row[d])

Init == pair \in Pairs
Next == UNCHANGED pair
Spec == Init /\ [][Next]_vars

TypeOK == pair \in Pairs
RowValid == Feasible(pair) => Valid(Row(pair))
RowCovers == Feasible(pair) => (Row(pair)[pair[1]] = pair[2] /\ Row(pair)[pair[3]] = pair[4])

ASSUME PrintT(<<"CASE", ToJson([dims |-> Dims, npairs |-> Cardinality(Pairs), nfeasible |-> Cardinality({p \in Pairs : Feasible(p)}), seed |-> Seed])>>)

Export ==
  IF Feasible(pair)
    THEN LET r == Row(pair) IN
         PrintT(<<"CASE", ToJson([pair |-> <<Dims[pair[1]].name, Dims[pair[1]].vals[pair[2]], Dims[pair[3]].name, Dims[pair[3]].vals[pair[4]]>>,
                                  row |-> [n \in {Dims[k].name : k \in 1..ND} |-> Dims[DimIx(n)].vals[r[DimIx(n)]]]])>>)
    ELSE PrintT(<<"CASE", ToJson([infeasible |-> <<Dims[pair[1]].name, Dims[pair[1]].vals[pair[2]], Dims[pair[3]].name, Dims[pair[3]].vals[pair[4]]>>])>>)
=============================================================================
