-------------------------- MODULE RenamePropsGen --------------------------
(***************************************************************************)
(* C15, mangled properties: the scenario space, enumerated by TLC and       *)
(* replayed through the real esbuild (the observations are validated by     *)
(* TLC against RenameProps.tla).  Four properties - two that match the      *)
(* mangle pattern, one that matches but is reserved, one that does not      *)
(* match and may be spelled like a generated short name - each used by one  *)
(* of several usage patterns (sites in up to three files: dot access,       *)
(* assignment, object literal, class field, destructuring, optional chain,  *)
(* call, "in", quoted forms, a key annotated with @__KEY__, a key computed  *)
(* at run time), x mangle-quoted x the mangle cache given x the layout of   *)
(* the build (one bundle, two entry points with code splitting, a chain of  *)
(* transforms that hand the mangle cache on).                               *)
(***************************************************************************)
EXTENDS Integers, Sequences, FiniteSets, TLC, Json

\* usage patterns: sequences of <<file, form>>
Patterns == {
  "set1-get2", "lit1-destr2-opt3", "class1-call3", "litq1-getq2", "set1-getq2",
  "keyannot1-get2", "inq1-litq2", "runtime1-lit2", "get3-get1-get2", "none" }

Scenarios ==
  [ foo : Patterns \ {"none"},
    bar : {"set1-get2", "litq1-getq2", "class1-call3", "none"},
    keep : {"set1-get2", "none"},
    plain : {"set1-get2", "litq1-getq2", "none"}, plainName : {"plain", "a"},
    mangleQuoted : BOOLEAN, cache : {"nil", "empty", "preset-foo", "false-bar"},
    layout : {"bundle", "split", "chain"} ]

(***************************************************************************)
(* Second family ("bulk"): the name generator against names that must not  *)
(* be handed out.  n properties match the mangle pattern (three patterns:   *)
(* suffix "_$", prefix "^_", and one that also matches every one-character  *)
(* name), so the generator runs through its one-character names and into    *)
(* the two-character ones.  One further property S carries a name that the  *)
(* generator ITSELF produces for a build of this size (learned by a probe    *)
(* build of the same files with an empty cache: scenario generation, not    *)
(* oracle) and is kept by one of the mechanisms: a `false` entry of the     *)
(* mangle cache, reserve-props, not matching the pattern (unquoted), or a   *)
(* quoted use; S is used in the build or only named by the cache.  The      *)
(* mangle cache given has all three entry kinds: absent, `false`, and a     *)
(* string target that is again one of the generator's own names (early or   *)
(* late in its sequence, for a property of the build or for one that the    *)
(* build does not use).                                                     *)
(***************************************************************************)
BulkScenarios ==
  [ bulk : {TRUE}, pattern : {"suffix", "prefix", "short"}, n : {6, 58, 66},
    pin : {"none", "false", "reserved", "plain", "quoted"}, pinWhich : {"first", "last"}, pinUsed : BOOLEAN,
    target : {"none", "early", "late", "unused"},
    mangleQuoted : BOOLEAN, quotedUse : BOOLEAN, layout : {"bundle", "split", "chain"} ]
\* a pin that is not used in the build is only meaningful as a cache entry; "none" has no which/used
BulkOK(s) == /\ (s.pin = "none" => s.pinWhich = "first" /\ s.pinUsed)
             /\ (s.pin \in {"reserved", "plain", "quoted"} => s.pinUsed)

Export == /\ \A s \in Scenarios : PrintT(<<"CASE", ToJson(s)>>)
          /\ \A s \in {b \in BulkScenarios : BulkOK(b)} : PrintT(<<"CASE", ToJson(s)>>)


VARIABLE x
Init == x = 0
Next == x' = x
Spec == Init /\ [][Next]_x
ASSUME Export
=============================================================================
