-------------------------- MODULE RenamePropsGen --------------------------
(***************************************************************************)
(* C15, mangled properties: the scenario space, enumerated by TLC and       *)
(* replayed through the real esbuild (the observations are validated by     *)
(* TLC against RenameProps.tla).  Four properties - two that match the      *)
(* mangle pattern, one that matches but is reserved, one that does not      *)
(* match and may be spelled like a generated short name - each used by one  *)
(* of several usage patterns (sites in up to three files: dot access,       *)
(* assignment, object literal, class field, destructuring, optional chain,  *)
(* call, "in", quoted forms, a key annotated with @__KEY__, a key computed  *)
(* at run time), x mangle-quoted x the mangle cache given x the layout of   *)
(* the build (one bundle, two entry points with code splitting, a chain of  *)
(* transforms that hand the mangle cache on).                               *)
(***************************************************************************)
EXTENDS Integers, Sequences, FiniteSets, TLC, Json

\* usage patterns: sequences of <<file, form>>
Patterns == {
  "set1-get2", "lit1-destr2-opt3", "class1-call3", "litq1-getq2", "set1-getq2",
  "keyannot1-get2", "inq1-litq2", "runtime1-lit2", "get3-get1-get2", "none" }

Scenarios ==
  [ foo : Patterns \ {"none"},
    bar : {"set1-get2", "litq1-getq2", "class1-call3", "none"},
    keep : {"set1-get2", "none"},
    plain : {"set1-get2", "litq1-getq2", "none"}, plainName : {"plain", "a"},
    mangleQuoted : BOOLEAN, cache : {"nil", "empty", "preset-foo", "false-bar"},
    layout : {"bundle", "split", "chain"} ]

Export == \A s \in Scenarios : PrintT(<<"CASE", ToJson(s)>>)


VARIABLE x
Init == x = 0
Next == x' = x
Spec == Init /\ [][Next]_x
ASSUME Export
=============================================================================
