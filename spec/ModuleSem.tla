------------------------------ MODULE ModuleSem ------------------------------
(***************************************************************************)
(* What loading a module graph does (property C02).                        *)
(*                                                                         *)
(* A reference semantics of                                                *)
(*   - the ECMAScript module loader: depth-first post-order evaluation of  *)
(*     the requested modules with the cycle rule (InnerModuleEvaluation,   *)
(*     dfs index / ancestor index, strongly connected components become    *)
(*     "evaluated" together, an error marks every module on the stack),    *)
(*     static resolution of exports (ResolveExport incl. indirect exports, *)
(*     export-star with shadowing, ambiguity and circularity), live        *)
(*     bindings with a temporal dead zone, hoisted function exports,       *)
(*     module namespace objects;                                           *)
(*   - Node's CommonJS loader: require cache, partially initialised        *)
(*     exports in cycles, module.exports replacement, removal from the     *)
(*     cache when the body throws;                                         *)
(*   - the interoperation Node 20 defines: an ES module importing a        *)
(*     CommonJS module (default = module.exports, named exports = the      *)
(*     statically detectable names, values snapshotted when the CommonJS   *)
(*     module has run), require() of an ES module (namespace object),      *)
(*     JSON modules, import() as a job that runs after the synchronous     *)
(*     evaluation has finished.                                            *)
(*                                                                         *)
(* The same module is (a) model checked (invariants below) and (b) the     *)
(* scenario generator and oracle of the replay binding: a behaviour first  *)
(* builds a module graph statement by statement (phase "gen": every        *)
(* well-formed graph of the bounded family is reachable, canonical module  *)
(* numbering by first mention removes renamings), then runs the loader on  *)
(* it deterministically (phase "run") and finally (phase "done") exports   *)
(* <<graph, expected host-visible trace>> as a CASE record.                *)
(*                                                                         *)
(* Host-visible events: probe(id, rendered value), threw(id), the value    *)
(* given to the import() callback, and the entry point's exports as an     *)
(* importer / a requirer sees them.  Statement k of module i is identified *)
(* as "mi.k"; the string a statement assigns/exports is its own id, so a   *)
(* logged value tells which statement produced it.                         *)
(*                                                                         *)
(* Generation and running can be separated (Mode): "gen" exports every     *)
(* complete graph that links together with its Features (coverage labels   *)
(* defined below: why the module holding a statement is demand-loaded x    *)
(* statement kind x target class), "run" takes graphs from a file and runs *)
(* the loader on them.  The replay selects graphs label by label first.    *)
(*                                                                         *)
(* Not generated (excluded by the property or not deterministic natively): *)
(* reads of uninitialised bindings (TDZ), more than one import() per run   *)
(* (completion order of independent jobs), require() of an ES module that  *)
(* is in a cycle with / already linked by an import (Node throws           *)
(* ERR_REQUIRE_CYCLE_MODULE, a host restriction), a CommonJS module that   *)
(* threw being loaded again (the require cache forgets it, the ESM module  *)
(* map does not), CommonJS modules whose statically detected names differ  *)
(* from the keys of module.exports when a namespace of them (or of an ES   *)
(* module that re-exports them with export-star) is observed, CommonJS     *)
(* exports changed after the snapshot.  Such runs end with excl # "" and   *)
(* are not exported.  "export * from" a CommonJS or JSON module and        *)
(* "export * as ns from" ARE generated (Node decides the names of a        *)
(* CommonJS module with its lexer; the alphabet only has shapes the lexer  *)
(* reads: exports.x = ..., module.exports = {x: ...}).                     *)
(***************************************************************************)
EXTENDS Integers, Sequences, FiniteSets, TLC, Json

CONSTANTS N,           \* maximal number of modules
          K,           \* maximal number of statements of one module
          EntryKinds,  \* kinds the entry module (m1) may have: subset of {"esm","esmb","cjs"}
          Kinds,       \* kinds any other module may have: subset of {"esm","esmb","cjs","json"}
                       \* ("esmb": an ES module that is not in Node's interop mode for a bundler, see Babel below)
          EsmOps,      \* statement alphabet of ES modules (subset of AllEsmOps)
          InnerEsmOps, \* statement alphabet of the ES modules other than the entry point ({} = EsmOps)
          CjsOps,      \* statement alphabet of CommonJS modules (subset of AllCjsOps)
          Names,       \* names of exported variables, subset of {"x","y","z"}
          MinLen,      \* minimal number of statements of a module (1; larger to bias -simulate towards big graphs)
          Guided,      \* BOOLEAN: generation satisfies pending imports first (for -simulate: fewer dead ends)
          Emit,        \* BOOLEAN: print a CASE record for every finished run
          Leaves,      \* preset leaf modules a statement may mention: subset of {"Lesm","Lcjs","Ldyn","Lmark","Lmarkx"}
          NGen,        \* maximal number of generated (esm/cjs, non-preset) modules
          Tot,         \* maximal total number of statements of the generated modules
          Mode         \* "full": generate and run | "gen": generate only (GRAPH records) | "run": run the graphs of c02_graphs.ndjson

AllEsmOps == {"probe", "let", "set", "fn", "call", "rd", "rns", "imp", "def", "rex", "star", "starns", "dyn", "throw"}
AllCjsOps == {"probe", "xset", "mexp", "esm", "req", "dyn", "throw"}

ASSUME /\ N \in 1..5 /\ K \in 1..6
       /\ EntryKinds \subseteq {"esm", "esmb", "cjs"} /\ Kinds \subseteq {"esm", "esmb", "cjs", "json"}
       /\ EsmOps \subseteq AllEsmOps /\ CjsOps \subseteq AllCjsOps /\ InnerEsmOps \subseteq EsmOps
       /\ Names \subseteq {"x", "y", "z"}
       /\ Leaves \subseteq {"Lesm", "Lcjs", "Ldyn", "Lmark", "Lmarkx"} /\ NGen \in 1..5 /\ Tot \in 1..30
       /\ Mode \in {"full", "gen", "run"}

VARIABLES phase,   \* "gen" | "run" | "done"
          kinds,   \* sequence: kind of every module mentioned so far
          bodies,  \* sequence: the finished module bodies (Len(bodies) <= Len(kinds))
          cur,     \* the body under construction (module Len(bodies)+1)
          rs       \* the loader state (a record, see InitRun)

vars == <<phase, kinds, bodies, cur, rs>>

Mods == 1..N
AllNames == Names \cup {"default", "f", "ns"}
KeyOrder == <<"default", "f", "ns", "x", "y", "z">>     \* sorted, as the runners print keys
MName == <<"m1", "m2", "m3", "m4", "m5">>
Dig == <<"1", "2", "3", "4", "5", "6">>
Id(m, k) == MName[m] \o "." \o Dig[k]
Uninit == "<uninit>"
Absent == "<absent>"
Undef == "undefined"

Min(a, b) == IF a < b THEN a ELSE b
St(op, t, x) == [op |-> op, t |-> t, x |-> x]

(***************************************************************************)
(* The graph (state-level: kinds, bodies)                                  *)
(***************************************************************************)
NM == Len(kinds)

\* Preset leaf modules.  A statement may mention, instead of a module whose
\* body is generated, a leaf with a fixed body; this buys depth (a chain
\* entry -> lazily loaded module -> re-exporting module -> CommonJS file has
\* four modules) without multiplying the enumerated family:
\*   Lesm  an ES module with static exports:      probe; export let x
\*   Lcjs  a CommonJS module the lexer can read:  probe; exports.x = ...
\*   Ldyn  an ES module whose export set is only known at run time:
\*           probe; export * from <the Lcjs leaf that follows it>
\*   Lmark  a CommonJS module that carries the __esModule marker and a
\*          "default" property (what Babel/TypeScript emit for an ES module):
\*            probe; exports.__esModule = true; exports.default = ...; exports.x = ...
\*   Lmarkx the same without a "default" property
\* `kinds` holds the preset name; Kind(m) is the module's real kind.
\*
\* Interop mode of an importer.  Node gives every ES importer of a CommonJS
\* module default = module.exports.  A bundler additionally accepts ES syntax
\* in a plain ".js" file that no package.json declares a module ("esmb"); for
\* such an importer esbuild documents the Babel reading of a CommonJS module
\* that carries the __esModule marker (default = exports.default).  Node 20
\* loads such a file as an ES module too (syntax detection), with Node's
\* shape, so the property's reference exists for everything an "esmb" module
\* does EXCEPT its own observation of the default export / namespace of a
\* marked CommonJS module: graphs in which an "esmb" module makes that
\* observation are outside the family (BabelOK).  What the family keeps is the
\* interaction: importers of BOTH modes of one CommonJS module in one graph,
\* in both evaluation orders, the node-mode importer being judged.
PresetKinds == {"Lesm", "Lcjs", "Ldyn", "Lmark", "Lmarkx"}
GenKinds == {"esm", "esmb", "cjs"}       \* kinds whose body is generated
IsPreset(m) == kinds[m] \in PresetKinds
RealKind(k) == CASE k \in {"Lesm", "Ldyn", "esmb"} -> "esm" [] k \in {"Lcjs", "Lmark", "Lmarkx"} -> "cjs" [] OTHER -> k
Babel(m) == kinds[m] = "esmb"
Kind(m) == RealKind(kinds[m])
PresetBody(m) ==
  CASE kinds[m] = "Lesm" -> <<St("probe", 0, ""), St("let", 0, "x")>>
    [] kinds[m] = "Lcjs" -> <<St("probe", 0, ""), St("xset", 0, "x")>>
    [] kinds[m] = "Ldyn" -> <<St("probe", 0, ""), St("star", m + 1, "")>>
    [] kinds[m] = "Lmark" -> <<St("probe", 0, ""), St("esm", 0, ""), St("xset", 0, "default"), St("xset", 0, "x")>>
    [] kinds[m] = "Lmarkx" -> <<St("probe", 0, ""), St("esm", 0, ""), St("xset", 0, "x")>>
    [] OTHER -> <<>>
Body(m) == IF m <= Len(bodies) THEN bodies[m]
           ELSE IF m <= Len(kinds) /\ IsPreset(m) THEN PresetBody(m)
           ELSE IF m = Len(bodies) + 1 THEN cur ELSE <<>>
Idx(m) == DOMAIN Body(m)

StaticOps == {"call", "rd", "rns", "imp", "rex", "star", "starns"}    \* statements that request a module statically

\* the requested modules of an ES module, in source order, without repetition
RECURSIVE ReqFrom(_, _, _)
ReqFrom(b, i, acc) ==
  IF i > Len(b) THEN acc
  ELSE IF b[i].op \in StaticOps /\ \A j \in DOMAIN acc : acc[j] # b[i].t
       THEN ReqFrom(b, i + 1, Append(acc, b[i].t))
       ELSE ReqFrom(b, i + 1, acc)
Requested(m) == ReqFrom(Body(m), 1, <<>>)

HasLocal(m, x) ==
  \E i \in Idx(m) : \/ Body(m)[i].op = "let" /\ Body(m)[i].x = x
                    \/ Body(m)[i].op = "def" /\ x = "default"
                    \/ Body(m)[i].op = "fn" /\ x = "f"
\* export * as ns from t: the exported name "ns" denotes the namespace object of t
NsTarget(m) == LET i == CHOOSE i \in Idx(m) : Body(m)[i].op = "starns" IN Body(m)[i].t
HasNsExport(m) == \E i \in Idx(m) : Body(m)[i].op = "starns"
FnVar(m) == LET i == CHOOSE i \in Idx(m) : Body(m)[i].op = "fn" IN Body(m)[i].x

\* names Node's cjs-module-lexer detects in a CommonJS body of this alphabet
LexNames(m) == {Body(m)[i].x : i \in {j \in Idx(m) : Body(m)[j].op \in {"xset", "mexp"}}}

\* ResolveExport of the ECMAScript specification (15.2.1.16.3), extended with
\* the CommonJS and JSON synthetic modules of Node
NoneR == [k |-> "none", m |-> 0, x |-> ""]
AmbR == [k |-> "amb", m |-> 0, x |-> ""]
RECURSIVE Res(_, _, _)
Res(m, x, seen) ==
  IF <<m, x>> \in seen THEN NoneR
  ELSE IF Kind(m) = "cjs"
       THEN IF x = "default" \/ x \in LexNames(m) THEN [k |-> "cjs", m |-> m, x |-> x] ELSE NoneR
  ELSE IF Kind(m) = "json"
       THEN IF x = "default" THEN [k |-> "json", m |-> m, x |-> x] ELSE NoneR
  ELSE LET B == Body(m)
           seen2 == seen \cup {<<m, x>>}
           rex == {i \in DOMAIN B : B[i].op = "rex" /\ B[i].x = x}
       IN IF HasLocal(m, x) THEN [k |-> "esm", m |-> m, x |-> x]
          ELSE IF x = "ns" /\ HasNsExport(m) THEN [k |-> "ns", m |-> NsTarget(m), x |-> x]
          ELSE IF rex # {} THEN Res(B[CHOOSE i \in rex : TRUE].t, x, seen2)
          ELSE IF x = "default" THEN NoneR
          ELSE LET stars == {B[i].t : i \in {j \in DOMAIN B : B[j].op = "star"}}
                   found == {Res(t, x, seen2) : t \in stars} \ {NoneR}
               IN IF found = {} THEN NoneR
                  ELSE IF Cardinality(found) = 1 THEN CHOOSE r \in found : TRUE
                  ELSE AmbR
Resolve(m, x) == Res(m, x, {})

\* The names of m that are known without running anything: resolution that
\* does not pass through "export * from <CommonJS module>" (whose names exist
\* natively by the lexer's reading of the file, in a bundle only at run time).
\* An output format with static exports (esm) can only carry these.
RECURSIVE ResStatic(_, _, _)
ResStatic(m, x, seen) ==
  IF <<m, x>> \in seen THEN NoneR
  ELSE IF Kind(m) # "esm" THEN Res(m, x, {})
  ELSE LET B == Body(m)
           seen2 == seen \cup {<<m, x>>}
           rex == {i \in DOMAIN B : B[i].op = "rex" /\ B[i].x = x}
       IN IF HasLocal(m, x) THEN [k |-> "esm", m |-> m, x |-> x]
          ELSE IF x = "ns" /\ HasNsExport(m) THEN [k |-> "ns", m |-> NsTarget(m), x |-> x]
          ELSE IF rex # {} THEN ResStatic(B[CHOOSE i \in rex : TRUE].t, x, seen2)
          ELSE IF x = "default" THEN NoneR
          ELSE LET stars == {B[i].t : i \in {j \in DOMAIN B : B[j].op = "star" /\ Kind(B[j].t) # "cjs"}}
                   found == {ResStatic(t, x, seen2) : t \in stars} \ {NoneR}
               IN IF found = {} THEN NoneR
                  ELSE IF Cardinality(found) = 1 THEN CHOOSE r \in found : TRUE
                  ELSE AmbR
StaticKeys(m) == {x \in AllNames : ResStatic(m, x, {}).k \notin {"none", "amb"}}
Resolvable(m, x) == Resolve(m, x).k \notin {"none", "amb"}
NsKeys(m) == {x \in AllNames : Resolvable(m, x)}

\* ES modules reachable from m over static ESM->ESM edges
RECURSIVE Clo(_, _)
Clo(todo, done) ==
  IF todo = {} THEN done
  ELSE LET m == CHOOSE m \in todo : TRUE
           next == IF Kind(m) = "esm"
                   THEN {Requested(m)[i] : i \in DOMAIN Requested(m)}
                   ELSE {}
       IN Clo((todo \cup {t \in next : Kind(t) = "esm"}) \ (done \cup {m}), done \cup {m})
Closure(m) == IF Kind(m) = "esm" THEN Clo({m}, {}) ELSE {}

(***************************************************************************)
(* Phase "gen": build a graph                                              *)
(***************************************************************************)
HasOp(b, op, x) == \E i \in DOMAIN b : b[i].op = op /\ b[i].x = x
HasOpAny(b, op) == \E i \in DOMAIN b : b[i].op = op
ExportsName(b, x) ==
  \/ HasOp(b, "let", x) \/ HasOp(b, "rex", x)
  \/ (x = "default" /\ HasOpAny(b, "def"))
  \/ (x = "f" /\ HasOpAny(b, "fn"))
  \/ (x = "ns" /\ HasOpAny(b, "starns"))

\* which target kinds a statement can have
Compatible(op, x, tk) ==
  CASE op = "call" -> tk = "esm"
    [] op = "rd"   -> tk # "json" \/ x = "default"
    [] op = "rex"  -> tk # "json" \/ x = "default"
    [] OTHER -> TRUE

\* local (incremental) well-formedness of the statement s appended to body b of kind k
LocalOK(k, b, s) ==
  /\ (b # <<>> => b[Len(b)].op # "throw")          \* nothing after a throw (dead code)
  /\ (s.op = "dyn" => ~HasOpAny(b, "dyn") /\ \A m \in 1..Len(bodies) : ~HasOpAny(bodies[m], "dyn"))   \* one import() per graph
  /\ IF k = "esm"
     THEN CASE s.op = "let" -> ~ExportsName(b, s.x)
            [] s.op = "set" -> HasOp(b, "let", s.x)
            [] s.op = "fn"  -> HasOp(b, "let", s.x) /\ ~ExportsName(b, "f")
            [] s.op = "def" -> ~ExportsName(b, "default")
            [] s.op = "rex" -> ~ExportsName(b, s.x)
            [] s.op = "starns" -> ~ExportsName(b, "ns")
            [] OTHER -> TRUE
     ELSE TRUE

NoArg == {"probe", "def", "throw", "esm"}
NameOnly == {"let", "set", "fn", "xset", "mexp"}
TargetOnly == {"call", "rns", "imp", "star", "starns", "dyn", "req"}
TargetName == {"rd", "rex"}

Shapes(ops) ==
  LET T == 1..Min(N, NM + 1)
      \* "ns" can only be imported where some module may export it
      INames == IF "starns" \in EsmOps THEN AllNames ELSE AllNames \ {"ns"} IN
       {St(op, 0, "") : op \in ops \cap NoArg}
  \cup {St(op, 0, x) : op \in ops \cap {"let", "set", "fn", "mexp"}, x \in Names}
  \cup {St(op, 0, x) : op \in ops \cap {"xset"}, x \in Names \cup {"default"}}
  \cup {St(op, t, "") : op \in ops \cap TargetOnly, t \in T}
  \cup {St("rd", t, x) : t \in (IF "rd" \in ops THEN T ELSE {}), x \in INames \ {"f"}}
  \cup {St("rex", t, x) : t \in (IF "rex" \in ops THEN T ELSE {}), x \in INames}

GM == Len(bodies) + 1      \* the module being generated

\* an "esmb" module does not itself observe the default export / namespace
\* object of a CommonJS module that carries the __esModule marker (the one
\* observation for which esbuild documents a shape that differs from Node's)
Marked(t) == Kind(t) = "cjs" /\ HasOpAny(Body(t), "esm")
BabelOK ==
  \A m \in 1..NM : Babel(m) =>
    \A i \in Idx(m) :
      LET s == Body(m)[i] IN
        (s.t # 0 /\ Marked(s.t)) =>
           ~(s.op \in {"rns", "starns", "dyn"} \/ (s.op \in {"rd", "rex"} /\ s.x = "default"))

\* final well-formedness: everything links
Links ==
  /\ BabelOK
  /\ \A m \in 1..NM : Kind(m) = "esm" =>
       \A i \in Idx(m) :
         LET s == Body(m)[i] IN
           CASE s.op = "rd"   -> Resolvable(s.t, s.x)
             [] s.op = "call" -> Resolve(s.t, "f").k = "esm"
             [] s.op = "rex"  -> Resolvable(m, s.x)
             [] OTHER -> TRUE

\* data files and preset leaves have no generated body
RECURSIVE SkipData(_)
SkipData(bs) ==
  IF Len(bs) < NM /\ (kinds[Len(bs) + 1] = "json" \/ IsPreset(Len(bs) + 1))
  THEN SkipData(Append(bs, PresetBody(Len(bs) + 1)))
  ELSE bs

InitRun == [
  st      |-> [m \in Mods |-> "new"],      \* new | evaluating | pending | evaluated | errored
  err     |-> [m \in Mods |-> ""],         \* the error an errored ES module rethrows
  stack   |-> <<>>,                        \* frames [m, ph ("deps"|"body"), i]
  env     |-> [m \in Mods |-> [x \in AllNames |-> Uninit]],   \* ES module bindings
  cx      |-> [m \in Mods |-> [atom |-> "", obj |-> [x \in AllNames |-> Absent]]],  \* module.exports
  snap    |-> [m \in Mods |-> [atom |-> "", obj |-> [x \in AllNames |-> Absent]]],  \* what an importer of a CommonJS module got
  snapped |-> [m \in Mods |-> FALSE],
  repl    |-> [m \in Mods |-> FALSE],      \* module.exports was replaced (exports.x = no longer visible)
  esStack |-> <<>>,                        \* the [[Stack]] of InnerModuleEvaluation
  idx     |-> [m \in Mods |-> 0],
  anc     |-> [m \in Mods |-> 0],
  ctr     |-> 0,
  linked  |-> {},                          \* ES modules linked by an import job
  job     |-> "start",                     \* start | main | dyn | fin
  dyn     |-> [state |-> "none", id |-> "", t |-> 0],
  trace   |-> <<>>,
  runs    |-> [m \in Mods |-> 0],          \* how often the body of m started
  ord     |-> <<>>,                        \* the modules in the order in which their bodies started
  unwound |-> [m \in Mods |-> 0],          \* how often a CommonJS body was abandoned by an error
  threw   |-> FALSE,                       \* loading the entry point threw
  rdU     |-> FALSE,                       \* a read met an uninitialised binding
  excl    |-> ""]                          \* reason why this run is not exported

\* Mode "run": the graphs to load are given (a selection of the GRAPH records
\* of a Mode "gen" run, one JSON object {kinds, bodies} per line)
Given == IF Mode = "run" THEN ndJsonDeserialize("c02_graphs.ndjson") ELSE <<>>

Init ==
  /\ cur = <<>>
  /\ rs = InitRun
  /\ IF Mode = "run"
     THEN /\ phase = "run"
          /\ \E i \in DOMAIN Given : kinds = Given[i].kinds /\ bodies = Given[i].bodies
     ELSE /\ phase = "gen"
          /\ kinds \in {<<k>> : k \in EntryKinds}
          /\ bodies = <<>>

\* Partial resolution while the graph is being built: modules above nc are not
\* finished yet, what they will export is unknown.  Used only to cut off
\* prefixes that can no longer become a graph that links (sound pruning).
UnkR == [k |-> "unk", m |-> 0, x |-> ""]
RECURSIVE PRes(_, _, _, _)
PRes(m, x, seen, nc) ==
  IF m > nc /\ ~IsPreset(m) THEN UnkR
  ELSE IF <<m, x>> \in seen THEN NoneR
  ELSE IF Kind(m) = "cjs"
       THEN IF x = "default" \/ x \in LexNames(m) THEN [k |-> "cjs", m |-> m, x |-> x] ELSE NoneR
  ELSE IF Kind(m) = "json"
       THEN IF x = "default" THEN [k |-> "json", m |-> m, x |-> x] ELSE NoneR
  ELSE LET B == Body(m)
           seen2 == seen \cup {<<m, x>>}
           rex == {i \in DOMAIN B : B[i].op = "rex" /\ B[i].x = x}
       IN IF HasLocal(m, x) THEN [k |-> "esm", m |-> m, x |-> x]
          ELSE IF x = "ns" /\ HasNsExport(m) THEN [k |-> "ns", m |-> NsTarget(m), x |-> x]
          ELSE IF rex # {} THEN PRes(B[CHOOSE i \in rex : TRUE].t, x, seen2, nc)
          ELSE IF x = "default" THEN NoneR
          ELSE LET stars == {B[i].t : i \in {j \in DOMAIN B : B[j].op = "star"}}
                   found == {PRes(t, x, seen2, nc) : t \in stars} \ {NoneR}
               IN IF found = {} THEN NoneR
                  ELSE IF UnkR \in found THEN UnkR
                  ELSE IF Cardinality(found) = 1 THEN CHOOSE r \in found : TRUE
                  ELSE AmbR

\* the import/re-export s can still link when modules 1..nc are finished
MayLink(s, nc) ==
  CASE s.op \in {"rd", "rex"} -> PRes(s.t, s.x, {}, nc).k \notin {"none", "amb"}
    [] s.op = "call" -> PRes(s.t, "f", {}, nc).k \in {"esm", "unk"}
    [] OTHER -> TRUE

\* names that finished modules (and the body under construction) import from
\* module GM and that GM does not export yet
Needed ==
  LET wants == UNION {{IF Body(m)[i].op = "call" THEN "f" ELSE Body(m)[i].x :
                        i \in {j \in Idx(m) : Body(m)[j].op \in {"rd", "rex", "call"} /\ Body(m)[j].t = GM /\ (m # GM \/ Body(m)[j].op # "rex")}} :
                      m \in 1..GM}
  IN {x \in wants : PRes(GM, x, {}, GM).k = "none"}

\* Guided generation (simulation): a statement that exports a needed name
Provides(s, need) ==
  \/ s.op \in {"let", "xset", "mexp", "rex"} /\ s.x \in need
  \/ s.op = "def" /\ "default" \in need
  \/ s.op = "fn" /\ "f" \in need
  \/ s.op = "let" /\ "f" \in need /\ ~HasOpAny(cur, "let")
  \/ s.op = "star" /\ need \cap Names # {}

\* number of modules whose body is generated
GenCount == Cardinality({m \in 1..NM : kinds[m] \in GenKinds})

\* statements generated so far, and generated modules that still need a body
RECURSIVE SumLen(_, _)
SumLen(bs, i) == IF i > Len(bs) THEN 0 ELSE (IF kinds[i] \in GenKinds THEN Len(bs[i]) ELSE 0) + SumLen(bs, i + 1)
Used == SumLen(bodies, 1) + Len(cur)
Waiting == Cardinality({m \in (GM + 1)..NM : kinds[m] \in GenKinds})

GenAdd ==
  /\ phase = "gen" /\ Len(cur) < K
  /\ Used + 1 + Waiting <= Tot
  /\ LET roomForModule == GenCount < NGen /\ Used + 2 + Waiting <= Tot IN
     \E s \in Shapes(IF Kind(GM) = "esm" THEN (IF GM > 1 /\ InnerEsmOps # {} THEN InnerEsmOps ELSE EsmOps) ELSE CjsOps) :
       /\ LocalOK(Kind(GM), cur, s)
       /\ (Guided /\ Needed # {}) => Provides(s, Needed)
       /\ IF s.t = NM + 1
          THEN \E k \in Kinds \cup Leaves :
                 /\ Compatible(s.op, s.x, RealKind(k))
                 /\ (k \in GenKinds) => roomForModule
                 /\ (k = "Ldyn") => NM + 2 <= N
                 /\ kinds' = IF k = "Ldyn" THEN kinds \o <<"Ldyn", "Lcjs">> ELSE Append(kinds, k)
          ELSE /\ (s.t # 0 => Compatible(s.op, s.x, Kind(s.t)))
               /\ (s.t # 0 /\ s.t <= Len(bodies)) => MayLink(s, Len(bodies))
               /\ kinds' = kinds
       /\ cur' = Append(cur, s)
  /\ UNCHANGED <<phase, bodies, rs>>

GenClose ==
  /\ phase = "gen" /\ cur # <<>>
  /\ Len(cur) >= MinLen \/ cur[Len(cur)].op = "throw"
  /\ \A m \in 1..GM : \A i \in Idx(m) : MayLink(Body(m)[i], GM)
  /\ LET bs == SkipData(Append(bodies, cur)) IN
       /\ bodies' = bs
       /\ cur' = <<>>
       /\ IF Len(bs) = NM THEN phase' = "run" ELSE phase' = phase
  /\ UNCHANGED <<kinds, rs>>

(***************************************************************************)
(* Rendering of values (the runners print values the same way: strings as  *)
(* they are, undefined, functions as "fn", objects as {k:v,...} with       *)
(* sorted own enumerable keys, "__esModule" left out)                      *)
(***************************************************************************)
RECURSIVE RenderKeys(_, _, _, _)
\* f: key -> rendered value or Absent
RenderKeys(f, i, acc, first) ==
  IF i > Len(KeyOrder) THEN acc
  ELSE LET key == KeyOrder[i] IN
       IF key \in DOMAIN f /\ f[key] # Absent
       THEN RenderKeys(f, i + 1, acc \o (IF first THEN "" ELSE ",") \o key \o ":" \o f[key], FALSE)
       ELSE RenderKeys(f, i + 1, acc, first)
RenderObj(f) == "{" \o RenderKeys(f, 1, "", TRUE) \o "}"
\* the runners cut objects nested deeper than 3 levels ("{...}"); namespace
\* objects can be nested without bound (export * as ns from a cycle)
Cut == "{...}"
RenderCxD(c, d) == IF c.atom # "" THEN c.atom ELSE IF d > 3 THEN Cut ELSE RenderObj(c.obj)
RenderCx(c) == RenderCxD(c, 0)
JsonStrD(m, d) == IF d > 3 THEN Cut ELSE "{x:" \o MName[m] \o "}"
JsonStr(m) == JsonStrD(m, 0)

CxKeys(c) == IF c.atom # "" THEN {} ELSE {x \in AllNames : c.obj[x] # Absent}
CxGet(c, x) == IF c.atom # "" \/ c.obj[x] = Absent THEN Undef ELSE c.obj[x]

\* the modules reachable from m over export-star edges (m included)
RECURSIVE StarReach(_, _)
StarReach(todo, done) ==
  IF todo = {} THEN done
  ELSE LET m == CHOOSE m \in todo : TRUE
           next == IF Kind(m) = "esm"
                   THEN {Body(m)[i].t : i \in {j \in Idx(m) : Body(m)[j].op = "star"}}
                   ELSE {}
       IN StarReach((todo \cup next) \ (done \cup {m}), done \cup {m})
\* the CommonJS modules whose (run-time) keys an ES module re-exports with export *
StarCjs(m) == {c \in StarReach({m}, {}) : Kind(c) = "cjs"}
\* an ES module whose export set is only known at run time
DynFallback(m) == Kind(m) = "esm" /\ StarCjs(m) # {}

RECURSIVE RenderNsD(_, _, _), NsExclD(_, _, _)

\* value of a resolved binding in loader state r, rendered at nesting depth d
BindValD(r, b, d) ==
  CASE b.k = "esm"  -> IF b.x = "f" THEN "fn" ELSE r.env[b.m][b.x]
    [] b.k = "cjs"  -> IF b.x = "default" THEN RenderCxD(r.cx[b.m], d) ELSE CxGet(r.snap[b.m], b.x)
    [] b.k = "json" -> JsonStrD(b.m, d)
    [] b.k = "ns"   -> RenderNsD(r, b.m, d)
    [] OTHER -> Undef
BindVal(r, b) == BindValD(r, b, 0)

\* a read through b is outside the generated family
BindExclD(r, b, d) ==
  CASE b.k = "esm" -> IF b.x # "f" /\ r.env[b.m][b.x] = Uninit THEN "tdz" ELSE ""
    [] b.k = "cjs" -> IF b.x = "default" THEN ""
                      ELSE IF ~r.snapped[b.m] THEN "cjs-unsnapped"
                      ELSE IF CxGet(r.snap[b.m], b.x) # CxGet(r.cx[b.m], b.x) THEN "cjs-live"
                      ELSE ""
    [] b.k = "ns" -> NsExclD(r, b.m, d)
    [] OTHER -> ""
BindExcl(r, b) == BindExclD(r, b, 0)

NsFunD(r, m, d) ==
  CASE Kind(m) = "esm"  -> [x \in AllNames |-> IF Resolvable(m, x) THEN BindValD(r, Resolve(m, x), d + 1) ELSE Absent]
    [] Kind(m) = "cjs"  -> [x \in AllNames |-> IF x = "default" THEN RenderCxD(r.cx[m], d + 1)
                                                ELSE IF x \in LexNames(m) THEN CxGet(r.snap[m], x)
                                                ELSE Absent]
    [] OTHER -> [x \in AllNames |-> IF x = "default" THEN JsonStrD(m, d + 1) ELSE Absent]
RenderNsD(r, m, d) == IF d > 3 THEN Cut ELSE RenderObj(NsFunD(r, m, d))
RenderNs(r, m) == RenderNsD(r, m, 0)

\* the names Node's lexer reads off a CommonJS module are the keys it really has
LexerExact(r, c) == LexNames(c) \ {"default"} = CxKeys(r.snap[c]) \ {"default"}

NsExclD(r, m, d) ==
  IF d > 3 THEN "" ELSE
  CASE Kind(m) = "esm" ->
         LET ex == {BindExclD(r, Resolve(m, x), d + 1) : x \in NsKeys(m)} IN
         IF "tdz" \in ex THEN "tdz"
         ELSE IF \E c \in StarCjs(m) : ~r.snapped[c] THEN "cjs-unsnapped"
         \* export * from a CommonJS module: natively the lexer's names, in a
         \* bundle the keys the object has at run time (a property exclusion
         \* when they differ)
         ELSE IF \E c \in StarCjs(m) : ~LexerExact(r, c) THEN "cjs-lexer"
         ELSE IF ex \ {""} # {} THEN CHOOSE e \in ex \ {""} : TRUE
         ELSE ""
    [] Kind(m) = "cjs" ->
         IF ~r.snapped[m] THEN "cjs-unsnapped"
         ELSE IF ~LexerExact(r, m) THEN "cjs-lexer"
         ELSE IF \E x \in LexNames(m) : CxGet(r.snap[m], x) # CxGet(r.cx[m], x) THEN "cjs-live"
         ELSE ""
    [] OTHER -> ""
NsExcl(r, m) == NsExclD(r, m, 0)

\* what require(m) returns, rendered
RenderReq(r, m) ==
  CASE Kind(m) = "esm" -> RenderNs(r, m)
    [] Kind(m) = "cjs" -> RenderCx(r.cx[m])
    [] OTHER -> JsonStr(m)

(***************************************************************************)
(* Phase "run": the loaders                                                *)
(***************************************************************************)
Top(r) == r.stack[Len(r.stack)]
Log(r, id, v) == [r EXCEPT !.trace = Append(@, [id |-> id, val |-> v])]
Exclude(r, why) == [r EXCEPT !.excl = why, !.rdU = (@ \/ why = "tdz")]
Advance(r) == [r EXCEPT !.stack[Len(r.stack)].i = @ + 1]

EmptyCx == [atom |-> "", obj |-> [x \in AllNames |-> Absent]]

\* start loading module t (status "new")
Push(r, t) ==
  CASE Kind(t) = "esm" ->
         [r EXCEPT !.st[t] = "evaluating", !.idx[t] = r.ctr, !.anc[t] = r.ctr, !.ctr = @ + 1,
                   !.esStack = Append(@, t),
                   !.stack = Append(@, [m |-> t, ph |-> "deps", i |-> 1])]
    [] Kind(t) = "cjs" ->
         \* a CommonJS module whose body threw: whether it runs again depends on
         \* which loader loaded it first (require cache vs ESM module map): not generated
         IF r.unwound[t] > 0 THEN Exclude(r, "cjs-rerun") ELSE
         [r EXCEPT !.st[t] = "evaluating", !.runs[t] = @ + 1, !.ord = Append(@, t), !.cx[t] = EmptyCx, !.repl[t] = FALSE,
                   !.stack = Append(@, [m |-> t, ph |-> "body", i |-> 1])]
    [] OTHER -> [r EXCEPT !.st[t] = "evaluated"]

\* an error with message e escapes from the top frame: every frame is
\* abandoned up to the job (nothing in the alphabet catches)
Throw(r, e) ==
  LET onES == {r.esStack[i] : i \in DOMAIN r.esStack}
      cjsFrames == {r.stack[i].m : i \in {j \in DOMAIN r.stack : Kind(r.stack[j].m) = "cjs"}}
      r1 == [r EXCEPT
               !.st = [m \in Mods |-> IF m \in onES THEN "errored" ELSE IF m \in cjsFrames THEN "new" ELSE @[m]],
               !.err = [m \in Mods |-> IF m \in onES THEN e ELSE @[m]],
               !.unwound = [m \in Mods |-> IF m \in cjsFrames THEN @[m] + 1 ELSE @[m]],
               !.esStack = <<>>,
               !.stack = <<>>]
  IN IF r.job = "main"
     THEN [Log(r1, "threw", e) EXCEPT !.threw = TRUE]
     ELSE [Log(r1, r.dyn.id, "!" \o e) EXCEPT !.job = "fin"]

Snapshot(r, t) == IF r.snapped[t] THEN r ELSE [r EXCEPT !.snap[t] = r.cx[t], !.snapped[t] = TRUE]

\* the requested module t of the ES module on top of the stack
StepDep(r, f, t) ==
  LET s == r.st[t] IN
  IF s = "new" THEN Push(r, t)
  ELSE IF s = "errored" THEN Throw(r, r.err[t])
  ELSE IF Kind(t) = "cjs" THEN Advance(Snapshot(r, t))
  ELSE IF Kind(t) = "esm" /\ s \in {"evaluating", "pending"}
       THEN Advance([r EXCEPT !.anc[f.m] = Min(@, r.anc[t])])
  ELSE Advance(r)

\* one statement of an ES module body
ExecEsm(r, f, s) ==
  LET id == Id(f.m, f.i) IN
  CASE s.op = "probe" -> Advance(Log(r, id, Undef))
    [] s.op = "let"   -> Advance([r EXCEPT !.env[f.m][s.x] = id])
    [] s.op = "set"   -> Advance([r EXCEPT !.env[f.m][s.x] = id])
    [] s.op = "def"   -> Advance([r EXCEPT !.env[f.m]["default"] = id])
    [] s.op \in {"fn", "imp", "rex", "star", "starns"} -> Advance(r)
    [] s.op = "call"  ->
         LET b == Resolve(s.t, "f")
             v == FnVar(b.m) IN
         IF r.env[b.m][v] = Uninit THEN Exclude(r, "tdz")
         ELSE Advance([r EXCEPT !.env[b.m][v] = id])
    [] s.op = "rd"    ->
         LET b == Resolve(s.t, s.x) IN
         IF BindExcl(r, b) # "" THEN Exclude(r, BindExcl(r, b))
         ELSE Advance(Log(r, id, BindVal(r, b)))
    [] s.op = "rns"   ->
         IF NsExcl(r, s.t) # "" THEN Exclude(r, NsExcl(r, s.t))
         ELSE Advance(Log(r, id, RenderNs(r, s.t)))
    [] s.op = "dyn"   ->
         IF r.dyn.state # "none" THEN Exclude(r, "racy")
         ELSE Advance([r EXCEPT !.dyn = [state |-> "pending", id |-> id, t |-> s.t]])
    [] s.op = "throw" -> Throw(r, id)

\* require(t) of an ES module that has not been loaded: allowed when nothing
\* in its static closure is being evaluated or was linked by an import job
\* (ERR_REQUIRE_CYCLE_MODULE otherwise), and no CommonJS module it imports is
\* still loading ("Cannot import CommonJS Module in a cycle")
CjsDeps(c) == {Requested(c)[i] : i \in {j \in DOMAIN Requested(c) : Kind(Requested(c)[j]) = "cjs"}}
ReqEsmOK(r, t) ==
  \A c \in Closure(t) :
    /\ r.st[c] \in {"evaluated", "errored"} \/ (r.st[c] = "new" /\ c \notin r.linked)
    /\ \A d \in CjsDeps(c) : r.st[d] # "evaluating"

ExecCjs(r, f, s) ==
  LET id == Id(f.m, f.i) IN
  CASE s.op = "probe" -> Advance(Log(r, id, Undef))
    [] s.op = "xset"  -> Advance(IF r.repl[f.m] THEN r ELSE [r EXCEPT !.cx[f.m].obj[s.x] = id])
    [] s.op = "mexp"  -> Advance([r EXCEPT !.repl[f.m] = TRUE,
                                           !.cx[f.m] = [atom |-> "", obj |-> [x \in AllNames |-> IF x = s.x THEN id ELSE Absent]]])
    [] s.op = "esm"   -> Advance(r)      \* exports.__esModule = true: not printed; default interop must ignore it here
    [] s.op = "req"   ->
         LET t == s.t
             ts == r.st[t] IN
         IF Kind(t) = "json" THEN Advance(Log([r EXCEPT !.st[t] = "evaluated"], id, JsonStr(t)))
         ELSE IF Kind(t) = "cjs"
              THEN IF ts = "new" THEN Push(r, t) ELSE Advance(Log(r, id, RenderCx(r.cx[t])))
         ELSE IF ts = "evaluated"
              THEN IF NsExcl(r, t) # "" THEN Exclude(r, NsExcl(r, t)) ELSE Advance(Log(r, id, RenderNs(r, t)))
         ELSE IF ts = "errored" THEN Throw(r, r.err[t])
         ELSE IF ts = "new" /\ ReqEsmOK(r, t) THEN Push(r, t)
         ELSE Exclude(r, "reqcycle")
    [] s.op = "dyn"   ->
         IF r.dyn.state # "none" THEN Exclude(r, "racy")
         ELSE Advance([r EXCEPT !.dyn = [state |-> "pending", id |-> id, t |-> s.t]])
    [] s.op = "throw" -> Throw(r, id)

\* the body of the module on top of the stack is finished
PopFrame(r, f) ==
  LET m == f.m
      below == SubSeq(r.stack, 1, Len(r.stack) - 1) IN
  IF Kind(m) = "cjs" THEN [r EXCEPT !.st[m] = "evaluated", !.stack = below]
  ELSE IF r.anc[m] = r.idx[m]
       THEN \* m is the root of its strongly connected component: everything above it on [[Stack]] is evaluated
            LET pos == CHOOSE i \in DOMAIN r.esStack : r.esStack[i] = m
                scc == {r.esStack[i] : i \in pos..Len(r.esStack)} IN
            [r EXCEPT !.st = [q \in Mods |-> IF q \in scc THEN "evaluated" ELSE @[q]],
                      !.esStack = SubSeq(@, 1, pos - 1),
                      !.stack = below]
       ELSE \* part of a cycle whose root is still evaluating
            LET r1 == [r EXCEPT !.st[m] = "pending", !.stack = below] IN
            IF below = <<>> THEN r1
            ELSE LET p == below[Len(below)].m IN
                 IF Kind(p) = "esm" THEN [r1 EXCEPT !.anc[p] = Min(@, r.anc[m])]
                 ELSE Exclude(r1, "reqcycle")

GuardStart == phase = "run" /\ rs.excl = "" /\ rs.job = "start"
GuardDeps  == phase = "run" /\ rs.excl = "" /\ rs.job \in {"main", "dyn"} /\ rs.stack # <<>> /\ Top(rs).ph = "deps"
GuardStmt  == phase = "run" /\ rs.excl = "" /\ rs.job \in {"main", "dyn"} /\ rs.stack # <<>> /\ Top(rs).ph = "body"
                /\ Top(rs).i <= Len(Body(Top(rs).m))
GuardPop   == phase = "run" /\ rs.excl = "" /\ rs.job \in {"main", "dyn"} /\ rs.stack # <<>> /\ Top(rs).ph = "body"
                /\ Top(rs).i > Len(Body(Top(rs).m))
GuardMainEnd == phase = "run" /\ rs.excl = "" /\ rs.job = "main" /\ rs.stack = <<>>
GuardDynEnd  == phase = "run" /\ rs.excl = "" /\ rs.job = "dyn" /\ rs.stack = <<>>
GuardFinish  == phase = "run" /\ (rs.excl # "" \/ rs.job = "fin")

\* the graph is complete: reject it if it does not link, otherwise load the entry point
Start ==
  /\ GuardStart
  /\ Mode # "gen"
  /\ Links
  /\ rs' = Push([rs EXCEPT !.job = "main", !.linked = Closure(1)], 1)
  /\ UNCHANGED <<phase, kinds, bodies, cur>>

EvalDep ==
  /\ GuardDeps
  /\ LET f == Top(rs)
         req == Requested(f.m) IN
       rs' = IF f.i > Len(req)
             THEN [rs EXCEPT !.stack[Len(rs.stack)] = [m |-> f.m, ph |-> "body", i |-> 1], !.runs[f.m] = @ + 1, !.ord = Append(@, f.m)]
             ELSE StepDep(rs, f, req[f.i])
  /\ UNCHANGED <<phase, kinds, bodies, cur>>

RunStmt ==
  /\ GuardStmt
  /\ LET f == Top(rs)
         s == Body(f.m)[f.i] IN
       rs' = IF Kind(f.m) = "esm" THEN ExecEsm(rs, f, s) ELSE ExecCjs(rs, f, s)
  /\ UNCHANGED <<phase, kinds, bodies, cur>>

Pop ==
  /\ GuardPop
  /\ rs' = PopFrame(rs, Top(rs))
  /\ UNCHANGED <<phase, kinds, bodies, cur>>

\* the synchronous part is over: a pending import() job starts
MainEnd ==
  /\ GuardMainEnd
  /\ rs' = IF rs.dyn.state # "pending" THEN [rs EXCEPT !.job = "fin"]
           ELSE LET t == rs.dyn.t
                    r1 == [rs EXCEPT !.job = "dyn", !.dyn.state = "running"] IN
                IF rs.st[t] = "new"
                THEN Push([r1 EXCEPT !.linked = @ \cup Closure(t)], t)
                ELSE IF rs.st[t] = "errored" THEN Throw(r1, rs.err[t])
                ELSE r1
  /\ UNCHANGED <<phase, kinds, bodies, cur>>

\* the import() job is complete: its callback receives the namespace
DynEnd ==
  /\ GuardDynEnd
  /\ LET t == rs.dyn.t
         r1 == IF Kind(t) = "cjs" THEN Snapshot(rs, t) ELSE rs IN
       rs' = IF NsExcl(r1, t) # "" THEN Exclude(r1, NsExcl(r1, t))
             ELSE [Log(r1, rs.dyn.id, RenderNs(r1, t)) EXCEPT !.job = "fin", !.dyn.state = "done"]
  /\ UNCHANGED <<phase, kinds, bodies, cur>>

(***************************************************************************)
(* Phase "done": the observation                                           *)
(***************************************************************************)
EntrySnap == Snapshot(rs, 1)
ExpNs  == IF rs.threw THEN "-" ELSE RenderNs(EntrySnap, 1)      \* what import(entry) resolves to
ExpReq == IF rs.threw THEN "-" ELSE RenderReq(rs, 1)            \* what require(entry) returns
\* the entry's namespace restricted to its statically known names
ExpNsStatic ==
  IF rs.threw \/ Kind(1) # "esm" THEN "-"
  ELSE RenderObj([x \in AllNames |-> IF x \in StaticKeys(1) /\ Resolvable(1, x)
                                       THEN BindValD(EntrySnap, Resolve(1, x), 1) ELSE Absent])

(***************************************************************************)
(* Features of a graph (coverage labels).  esbuild evaluates a module      *)
(* lazily (wraps it in an initialiser it calls on demand) when the module  *)
(* can be demanded at run time; the loader semantics above says when that  *)
(* is: a module that is the target of an import() or of a require(), every *)
(* module such a module requests statically (its dependencies have to wait *)
(* with it), in particular the modules in a cycle with it; CommonJS        *)
(* modules always are.  A label names, for one statement that mentions a   *)
(* module: why the module containing the statement is demand-loaded, the   *)
(* statement kind, and the class of its target.  The replay picks graphs   *)
(* label by label before it samples, so a thin class is never sampled away.*)
(***************************************************************************)
DynT == {t \in UNION {{Body(m)[i].t : i \in {j \in Idx(m) : Body(m)[j].op = "dyn"}} : m \in 1..NM} : Kind(t) = "esm"}
ReqT == {t \in UNION {{Body(m)[i].t : i \in {j \in Idx(m) : Body(m)[j].op = "req"}} : m \in 1..NM} : Kind(t) = "esm"}
LazyDirect == DynT \cup ReqT
LazySet == Clo(LazyDirect, {})           \* closed under static ESM -> ESM requests
WrapOf(m) ==
  CASE Kind(m) = "cjs" -> {"cjs"}
    [] Kind(m) = "json" -> {"json"}
    [] OTHER -> (IF m \in DynT THEN {"dyn"} ELSE {})
                \cup (IF m \in ReqT THEN {"req"} ELSE {})
                \cup (IF m \in LazySet \ LazyDirect
                      THEN (IF \E w \in LazyDirect : w \in Closure(m) THEN {"cyc"} ELSE {"dep"})
                      ELSE {})
                \cup (IF m \notin LazySet THEN {"hoisted"} ELSE {})
ClassOf(t) ==
  CASE Kind(t) = "json" -> "json"
    [] Kind(t) = "cjs" -> "cjs"
    [] OTHER -> (IF DynFallback(t) THEN "esmdyn" ELSE "esm") \o (IF t \in LazySet THEN "+lazy" ELSE "")
\* a name that is ambiguous between export-star sources only because of what
\* a CommonJS module exports (natively: dropped from the namespace)
AmbStarCjs ==
  \E m \in 1..NM : Kind(m) = "esm" /\ \E x \in AllNames : Res(m, x, {}) = AmbR /\ ResStatic(m, x, {}) # AmbR
\* an ES module with a run-time export set that is in a static import cycle:
\* natively its names exist when the cycle is linked, in a bundle they are
\* copied when its body runs (another member of the cycle may look earlier)
CycDyn ==
  \E m \in 1..NM : DynFallback(m) /\ \E j \in DOMAIN Requested(m) : m \in Closure(Requested(m)[j])
\* the members of such a cycle (the modules that can look too early)
CycDynReaders ==
  {m \in 1..NM : Kind(m) = "esm" /\
     \E d \in 1..NM : /\ DynFallback(d)
                       /\ \E j \in DOMAIN Requested(d) : d \in Closure(Requested(d)[j])
                       /\ d \in Closure(m) /\ m \in Closure(d)}
\* The same limitation seen after the fact.  A bundle copies the names of an
\* "export * from t" whose set is only known at run time when the body of the
\* re-exporting module runs; natively they are fixed at link time.  In an
\* export-star cycle the body of t may run AFTER the body of the module that
\* re-exports it (the cycle is cut there), then the copy finds nothing, for
\* good.  CopyReach(r, m): the CommonJS modules whose names reach m over
\* export-star edges a -> b such that b's body started before a's;
\* LateCopy: some ES module does not get every StarCjs module that way.  Used
\* only to classify a disagreement as the known limitation, never to accept one.
Pos(r, m) == IF \E i \in DOMAIN r.ord : r.ord[i] = m THEN CHOOSE i \in DOMAIN r.ord : r.ord[i] = m ELSE 99
RECURSIVE CopyReach(_, _, _)
CopyReach(r, m, seen) ==
  IF Kind(m) = "cjs" THEN {m}
  ELSE IF Kind(m) # "esm" \/ m \in seen THEN {}
  ELSE UNION {CopyReach(r, t, seen \cup {m}) :
                t \in {Body(m)[i].t : i \in {j \in Idx(m) : Body(m)[j].op = "star" /\
                          (Kind(Body(m)[j].t) # "esm" \/ Pos(r, Body(m)[j].t) < Pos(r, m))}}}
LateCopy(r) == \E m \in 1..NM : Kind(m) = "esm" /\ r.runs[m] > 0 /\ CopyReach(r, m, {}) # StarCjs(m)
\* export-star cycles: an ES module that reaches itself over export * edges
StarCyc(m) == Kind(m) = "esm" /\ \E i \in Idx(m) : Body(m)[i].op = "star" /\ m \in StarReach({Body(m)[i].t}, {})
\* the first member of an export-star cycle that the entry point's depth-first
\* walk over static requests meets: where the cycle is ENTERED
RECURSIVE Dfs(_, _)
Dfs(todo, acc) ==     \* todo: sequence of modules still to visit; acc: visit order
  IF todo = <<>> THEN acc
  ELSE LET m == Head(todo) IN
       IF \E i \in DOMAIN acc : acc[i] = m THEN Dfs(Tail(todo), acc)
       ELSE Dfs((IF Kind(m) = "esm" THEN Requested(m) ELSE <<>>) \o Tail(todo), Append(acc, m))
EntryOrder == Dfs(<<1>>, <<>>)
StarCycEntered ==
  LET cyc == {i \in DOMAIN EntryOrder : StarCyc(EntryOrder[i])} IN
  IF cyc = {} THEN 0 ELSE EntryOrder[CHOOSE i \in cyc : \A j \in cyc : i <= j]
\* how a module outside the cycle looks at the member through which the cycle
\* is entered: that member re-exports a CommonJS/JSON leaf itself
\* ("leafhere"), only another member does ("leafelsewhere"), nobody does
StarCycFeatures ==
  LET e == StarCycEntered IN
  IF e = 0 THEN {}
  ELSE LET cycle == {c \in StarReach({e}, {}) : Kind(c) = "esm" /\ e \in StarReach({c}, {})}     \* the members (e included)
           \* c re-exports, from outside the cycle, something whose names are only known at run time
           OutDyn(c) == \E i \in Idx(c) : /\ Body(c)[i].op = "star" /\ Body(c)[i].t \notin cycle
                                          /\ (Kind(Body(c)[i].t) # "esm" \/ DynFallback(Body(c)[i].t))
           how == IF OutDyn(e) THEN "leafhere"
                  ELSE IF \E c \in cycle \ {e} : OutDyn(c) THEN "leafelsewhere" ELSE "static"
           cls == IF StarCjs(e) # {} THEN "cjs" ELSE "esm" IN
       UNION {{"starcyc:" \o Body(m)[i].op \o ">" \o how \o ":" \o cls :
                 i \in {j \in Idx(m) : Body(m)[j].t = e /\ Body(m)[j].op \in {"rns", "rd", "star", "starns", "rex", "dyn"}}} :
              m \in {q \in 1..NM : Kind(q) = "esm" /\ ~StarCyc(q)}}
\* importers of one CommonJS module in both interop modes: which of the two
\* bodies runs first (the requested one before the requesting one, otherwise
\* the one the entry point's walk meets first), what the node-mode importer
\* does with the module, and the module's shape
OrdPos(m) == IF \E i \in DOMAIN EntryOrder : EntryOrder[i] = m THEN CHOOSE i \in DOMAIN EntryOrder : EntryOrder[i] = m ELSE 99
FirstOf(b, n) == IF b \in Closure(n) THEN "babel" ELSE IF n \in Closure(b) THEN "node"
                 ELSE IF OrdPos(b) < OrdPos(n) THEN "babel" ELSE "node"
ModeFeatures ==
  UNION {{"mode:" \o FirstOf(w[1], w[2]) \o "-first:" \o Body(w[2])[i].op \o (IF Body(w[2])[i].x = "default" THEN ".default" ELSE "") \o ">" \o kinds[w[3]] :
            i \in {j \in Idx(w[2]) : Body(w[2])[j].t = w[3]}} :
         w \in {w \in (1..NM) \X (1..NM) \X (1..NM) :
              /\ Kind(w[3]) = "cjs" /\ Babel(w[1]) /\ Kind(w[2]) = "esm" /\ ~Babel(w[2])
              /\ \E i \in Idx(w[1]) : Body(w[1])[i].t = w[3] /\ Body(w[1])[i].op \in {"rd", "rns", "rex", "starns", "star"}
              /\ \E i \in Idx(w[2]) : Body(w[2])[i].t = w[3]}}

Features ==
  StarCycFeatures \cup ModeFeatures \cup
  UNION {UNION {{w \o ":" \o Body(m)[i].op \o ">" \o ClassOf(Body(m)[i].t) : w \in WrapOf(m)} :
                i \in {j \in Idx(m) : Body(m)[j].t # 0}} : m \in 1..NM}
  \cup (IF AmbStarCjs THEN {"amb:star>cjs"} ELSE {})
  \cup (IF CycDyn THEN {"cyc:esmdyn"} ELSE {})

RealKinds == [m \in 1..NM |-> Kind(m)]
CaseRec == [spec |-> "ModuleSem", kinds |-> RealKinds, bodies |-> bodies, trace |-> rs.trace,
            threw |-> rs.threw, ns |-> ExpNs, req |-> ExpReq, nsStatic |-> ExpNsStatic, feat |-> Features,
            modes |-> [m \in 1..NM |-> IF Babel(m) THEN "babel" ELSE "node"],
            cycdyn |-> {MName[m] : m \in CycDynReaders}, lateCopy |-> LateCopy(rs)]
\* Mode "gen": the graph alone (raw kinds, so that it can be given back in Mode "run")
GraphRec == [spec |-> "ModuleSem.graph", kinds |-> kinds, bodies |-> bodies, feat |-> Features]

Finish ==
  /\ GuardFinish
  /\ phase' = "done"
  /\ (Emit /\ rs.excl = "" /\ (rs.threw \/ NsExcl(EntrySnap, 1) = "" \/ (Kind(1) = "cjs" /\ NsExcl(EntrySnap, 1) = "cjs-lexer")))
        => PrintT(<<"CASE", ToJson(CaseRec)>>)
  /\ (Emit /\ rs.excl # "") => PrintT(<<"EXCL", rs.excl>>)
  /\ UNCHANGED <<kinds, bodies, cur, rs>>

\* Mode "gen": a complete graph that links is exported without being run
GenEmit ==
  /\ GuardStart
  /\ Mode = "gen"
  /\ Links
  /\ phase' = "done"
  /\ Emit => PrintT(<<"CASE", ToJson(GraphRec)>>)
  /\ UNCHANGED <<kinds, bodies, cur, rs>>

Next == GenAdd \/ GenClose \/ Start \/ GenEmit \/ EvalDep \/ RunStmt \/ Pop \/ MainEnd \/ DynEnd \/ Finish

Spec == Init /\ [][Next]_vars

(***************************************************************************)
(* Invariants                                                              *)
(***************************************************************************)
Statuses == {"new", "evaluating", "pending", "evaluated", "errored"}

TypeOK ==
  /\ phase \in {"gen", "run", "done"}
  /\ Len(kinds) \in 1..N /\ Len(bodies) <= Len(kinds) /\ Len(cur) <= K
  /\ \A m \in Mods : rs.st[m] \in Statuses
  /\ \A i \in DOMAIN rs.stack : rs.stack[i].m \in 1..NM /\ rs.stack[i].ph \in {"deps", "body"}
  /\ rs.job \in {"start", "main", "dyn", "fin"}

\* every module body runs at most once
BodyAtMostOnce == \A m \in Mods : rs.runs[m] <= 1
EsmBodyOnce == \A m \in 1..NM : Kind(m) = "esm" => rs.runs[m] <= 1

\* a module that is being evaluated is never entered again
NoReentry == \A i, j \in DOMAIN rs.stack : i # j => rs.stack[i].m # rs.stack[j].m

\* exactly the modules with a frame are "evaluating"; [[Stack]] holds the
\* evaluating and pending ES modules
StackStatus ==
  /\ \A m \in Mods : (rs.st[m] = "evaluating") <=> (\E i \in DOMAIN rs.stack : rs.stack[i].m = m)
  /\ \A m \in Mods : (m <= NM /\ Kind(m) = "esm" /\ rs.st[m] \in {"evaluating", "pending"})
                       <=> (\E i \in DOMAIN rs.esStack : rs.esStack[i] = m)

\* a module is evaluated only after its body ran to the end: all its own bindings are initialised
EvaluatedInitialised ==
  \A m \in 1..NM : (Kind(m) = "esm" /\ rs.st[m] \in {"evaluated", "pending"}) =>
     \A x \in AllNames \ {"f"} : HasLocal(m, x) => rs.env[m][x] # Uninit

\* post-order: when the body of an ES module starts, every requested module is
\* evaluated, or is on the stack (a cycle), or is pending in the same component
PostOrder ==
  \A i \in DOMAIN rs.stack :
    LET f == rs.stack[i] IN
      (Kind(f.m) = "esm" /\ f.ph = "body") =>
        \A j \in DOMAIN Requested(f.m) : rs.st[Requested(f.m)[j]] \in {"evaluating", "pending", "evaluated"}

\* the generated family never reads an uninitialised binding
NoUninitRead == (rs.excl = "") => ~rs.rdU

\* in every state of a run at most one action is enabled, and every action
\* is a function of the state: the trace is determined by the graph
Determinism ==
  LET G == <<GuardStart, GuardDeps, GuardStmt, GuardPop, GuardMainEnd, GuardDynEnd, GuardFinish>> IN
    \A i, j \in DOMAIN G : (i # j) => ~(G[i] /\ G[j])

\* a run always has a next step until it is done (no stuck loader state)
Progress == (phase = "run" /\ rs.job # "start") =>
              (GuardDeps \/ GuardStmt \/ GuardPop \/ GuardMainEnd \/ GuardDynEnd \/ GuardFinish)

\* one import() per exported run; its callback runs after the synchronous part
OneDyn == rs.dyn.state = "running" => rs.job \in {"dyn", "fin"}

TraceBound == Len(rs.trace) <= N * (K + 2) + 3

\* Demand-loaded modules.  (1) A module that the entry point reaches only
\* through import() does not run in the synchronous part of the load.
RECURSIVE SyncReach(_, _)
SyncReach(todo, done) ==
  IF todo = {} THEN done
  ELSE LET m == CHOOSE m \in todo : TRUE
           next == {Body(m)[i].t : i \in {j \in Idx(m) : Body(m)[j].op # "dyn" /\ Body(m)[j].t # 0}}
       IN SyncReach((todo \cup next) \ (done \cup {m}), done \cup {m})
LazyNotEarly ==
  (phase = "run" /\ rs.job = "main") =>
     {m \in 1..NM : rs.runs[m] # 0 \/ rs.st[m] # "new"} \subseteq SyncReach({1}, {})

\* (2) Wherever a module is loaded from, once its body has started every
\* module it requests statically (import, export-from, export *, export * as
\* ns) has been entered before: it is evaluated, being evaluated (a cycle), or
\* loading it threw.  In particular the body of a re-exporting module never
\* runs without the source of its re-export having been started first.
RequestedEntered ==
  \A m \in 1..NM : (Kind(m) = "esm" /\ rs.runs[m] > 0) =>
     \A j \in DOMAIN Requested(m) :
        LET t == Requested(m)[j] IN
          Kind(t) = "json" \/ rs.st[t] # "new" \/ rs.unwound[t] > 0
=============================================================================
